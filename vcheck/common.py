"""Shared machinery of the check runner (stdlib only)."""
import fcntl
import hashlib
import json
import os
import re
import subprocess
import sys
import time
from pathlib import Path

VERIF = Path(__file__).resolve().parent.parent
REPO = Path(os.environ.get("VERIF_REPO", "/repo"))
LEAN = VERIF / "lean"
HARNESS = VERIF / "harness"
EVIDENCE = VERIF / "evidence"
REPLAYS = VERIF / "replays"
ALLOWED_AXIOMS = {"propext", "Classical.choice", "Quot.sound"}
FORBIDDEN = re.compile(
    r"\bsorry\b|\badmit\b|^\s*axiom\s|native_decide|bv_decide|implemented_by|\bunsafe\s|maxHeartbeats\s+0\b",
    re.M,
)
SCRATCH = VERIF / ".scratch"
ANY_TARGET = HARNESS / "target-any"
ENV = dict(os.environ, CARGO_NET_OFFLINE="true", VERIF_ANY_BIN=str(ANY_TARGET / "debug" / "any"),
           VERIF_XDG=str(SCRATCH / "xdg-cli"), NO_COLOR="1")


def build_any_binary(release=False):
    """Build the repository's own `any` binary (hooks off) from the working tree."""
    with Lock("cargo"):
        cmd = ["cargo", "build", "--offline", "--bin", "any", "--manifest-path", str(REPO / "Cargo.toml"),
               "--target-dir", str(ANY_TARGET)] + (["--release"] if release else [])
        env = dict(ENV)
        env.pop("RUSTFLAGS", None)
        rc, out, err = run(cmd, cwd=str(REPO), timeout=1800, env=env)
    return rc == 0, (out + err)[-2000:]


def hexs(s: str) -> str:
    b = s.encode("utf-8")
    return b.hex() if b else "-"


def unhex(h: str) -> str:
    if h in ("-", ""):
        return ""
    try:
        return bytes.fromhex(h).decode("utf-8", "replace")
    except ValueError:
        return h  # not hex: show as is


_RUST_LIT = r'(?:-?(?:0x[0-9a-fA-F_]+|0o[0-7_]+|0b[01_]+|\d[\d_]*)(?:_?[ui](?:8|16|32|64|128|size))?|true|false|"(?:[^"\\]|\\.)*")'


def resolve_consts(src: str) -> str:
    """Inline simple named constants (`const NAME: T = <integer | bool | string literal>;`, at
    module or impl level) into a Rust source text, so that the text patterns of the translators
    read `writer_with_num_threads(WRITER_THREADS, …)` like `writer_with_num_threads(1, …)`.
    Integer literals are normalised to plain decimal. Used only for extraction."""
    consts = {}
    for m in re.finditer(r"\bconst\s+([A-Z][A-Z0-9_]*)\s*:\s*[^=;]+?=\s*(" + _RUST_LIT + r")\s*;", src):
        name, lit = m.group(1), m.group(2)
        if not (lit in ("true", "false") or lit.startswith('"')):
            neg = lit.startswith("-")
            t = re.sub(r"_?[ui](?:8|16|32|64|128|size)$", "", lit.lstrip("-")).replace("_", "")
            lit = ("-" if neg else "") + str(int(t, 0) if t[:2] in ("0x", "0o", "0b") else int(t))
        if name in consts and consts[name] != lit:
            consts[name] = None          # two different constants of one name: leave it alone
        else:
            consts.setdefault(name, lit)
    for name, lit in consts.items():
        if lit is None:
            continue
        src = re.sub(r"\b(?:Self::|[A-Z]\w*::)?" + name + r"\b(?!\s*:)", lambda _m, lit=lit: lit, src)
    return src


class SplitMix64:
    """The single PRNG every random choice derives from."""

    def __init__(self, seed: int):
        self.s = seed & 0xFFFFFFFFFFFFFFFF

    def next(self) -> int:
        self.s = (self.s + 0x9E3779B97F4A7C15) & 0xFFFFFFFFFFFFFFFF
        z = self.s
        z = ((z ^ (z >> 30)) * 0xBF58476D1CE4E5B9) & 0xFFFFFFFFFFFFFFFF
        z = ((z ^ (z >> 27)) * 0x94D049BB133111EB) & 0xFFFFFFFFFFFFFFFF
        return z ^ (z >> 31)

    def below(self, n: int) -> int:
        return self.next() % n if n > 0 else 0

    def range(self, lo: int, hi: int) -> int:
        """inclusive"""
        return lo + self.below(hi - lo + 1)

    def choice(self, xs):
        return xs[self.below(len(xs))]

    def chance(self, num: int, den: int) -> bool:
        return self.below(den) < num

    def fork(self, tag: str) -> "SplitMix64":
        h = int.from_bytes(hashlib.sha256(f"{self.s}:{tag}".encode()).digest()[:8], "big")
        return SplitMix64(h)


class Lock:
    def __init__(self, name):
        self.path = VERIF / f".{name}.lock"

    def __enter__(self):
        self.f = open(self.path, "w")
        fcntl.flock(self.f, fcntl.LOCK_EX)

    def __exit__(self, *a):
        fcntl.flock(self.f, fcntl.LOCK_UN)
        self.f.close()


def run(cmd, cwd=None, timeout=3600, input=None, env=None):
    p = subprocess.run(
        cmd, cwd=cwd, timeout=timeout, input=input, capture_output=True, text=True, env=env or ENV
    )
    return p.returncode, p.stdout, p.stderr


def build_harness(release=False):
    """Rebuild the harness against /repo's working tree (hooks on). Returns (ok, log)."""
    with Lock("cargo"):
        cmd = ["cargo", "build", "--offline"] + (["--release"] if release else [])
        rc, out, err = run(cmd, cwd=HARNESS, timeout=1800)
    return rc == 0, (out + err)[-4000:]


def harness_bin(release=False):
    return str(HARNESS / "target" / ("release" if release else "debug") / "vharness")


def driver_bin():
    return str(LEAN / ".lake" / "build" / "bin" / "driver")


def build_lean(targets):
    """lake build the given targets; returns (ok, log)."""
    with Lock("lake"):
        rc, out, err = run(["lake", "build"] + list(targets), cwd=LEAN, timeout=3600)
    return rc == 0, (out + err)[-6000:]


def strip_lean_comments(src: str) -> str:
    # remove nested block comments and line comments
    out = []
    i, depth = 0, 0
    n = len(src)
    while i < n:
        if src.startswith("/-", i):
            depth += 1
            i += 2
        elif depth and src.startswith("-/", i):
            depth -= 1
            i += 2
        elif depth:
            i += 1
        elif src.startswith("--", i):
            j = src.find("\n", i)
            i = n if j < 0 else j
        else:
            out.append(src[i])
            i += 1
    return "".join(out)


def import_closure(module: str):
    """Project-local import closure of a Lean module name (Anything.* only)."""
    seen, todo = set(), [module]
    while todo:
        m = todo.pop()
        if m in seen:
            continue
        p = LEAN / (m.replace(".", "/") + ".lean")
        if not p.exists():
            continue
        seen.add(m)
        for line in p.read_text().splitlines():
            mm = re.match(r"\s*(?:public\s+)?import\s+([\w.]+)", line)
            if mm and (mm.group(1).startswith("Anything") or mm.group(1).startswith("Driver")):
                todo.append(mm.group(1))
    return sorted(seen)


def forbidden_hits(module: str):
    hits = []
    for m in import_closure(module):
        p = LEAN / (m.replace(".", "/") + ".lean")
        src = strip_lean_comments(p.read_text())
        for mm in FORBIDDEN.finditer(src):
            hits.append(f"{m}: {mm.group(0).strip()}")
    return hits


def theorems_of(module: str, prefix: str):
    """Names of the property theorems declared in a Props module."""
    p = LEAN / (module.replace(".", "/") + ".lean")
    src = strip_lean_comments(p.read_text())
    ns = re.search(r"^namespace\s+([\w.]+)", src, re.M)
    nsn = ns.group(1) + "." if ns else ""
    return [nsn + m.group(1) for m in re.finditer(r"^theorem\s+(" + prefix + r"\w*)", src, re.M)]


def audit_axioms(module: str, names):
    """#print axioms for each theorem. Returns {name: [axioms]} or None on failure."""
    audit_dir = LEAN / "Audit"
    audit_dir.mkdir(exist_ok=True)
    f = audit_dir / (module.split(".")[-1] + ".lean")
    f.write_text(f"import {module}\n" + "".join(f"#print axioms {n}\n" for n in names))
    with Lock("lake"):
        rc, out, err = run(["lake", "env", "lean", str(f)], cwd=LEAN, timeout=1800)
    res = {}
    text = out + err
    for n in names:
        m = re.search(r"'" + re.escape(n) + r"' depends on axioms: \[([^\]]*)\]", text, re.S)
        if m:
            res[n] = [a.strip() for a in m.group(1).replace("\n", " ").split(",") if a.strip()]
        elif re.search(r"'" + re.escape(n) + r"' does not depend on any axioms", text):
            res[n] = []
        else:
            res[n] = None
    return res, text[-3000:]


def run_lines(binary, lines, timeout=3600, env=None, watchdog=None):
    """Feed lines to a line-protocol binary, return output lines. With `watchdog`
    (seconds) the harness runs each case in a worker and reports TIMEOUT."""
    data = "\n".join(lines) + "\n"
    cmd = [binary] + (["--watchdog", str(watchdog)] if watchdog else [])
    try:
        rc, out, err = run(cmd, input=data, timeout=timeout, env=env)
    except subprocess.TimeoutExpired as e:
        out = e.stdout.decode() if isinstance(e.stdout, bytes) else (e.stdout or "")
        rc, err = 124, "timeout"
    outl = out.split("\n")
    if outl and outl[-1] == "":
        outl.pop()
    return rc, outl, err


def load_known_findings():
    p = VERIF / "known_findings.jsonl"
    out = []
    if p.exists():
        for line in p.read_text().splitlines():
            line = line.strip()
            if line and not line.startswith("#"):
                out.append(json.loads(line))
    return out


def write_replay(prop, payload):
    REPLAYS.mkdir(exist_ok=True)
    body = json.dumps(payload, indent=1, sort_keys=True, ensure_ascii=False)
    sha = hashlib.sha256(body.encode()).hexdigest()[:12]
    p = REPLAYS / f"{prop}-{sha}.json"
    p.write_text(body + "\n")
    return p


def write_evidence(prop, ev):
    EVIDENCE.mkdir(exist_ok=True)
    (EVIDENCE / f"{prop}.json").write_text(json.dumps(ev, indent=1, ensure_ascii=False) + "\n")


def db_lines_for(query_lines):
    """For `query` protocol lines: ask the model which phrases may be looked up,
    resolve them on the real database (harness `lookup`), and return the `db`
    header lines that give the model's abstract database the same answers."""
    qs = [l for l in query_lines if l.startswith("query ") or l.startswith("cli ")]
    if not qs:
        return []
    rc, out, err = run_lines(driver_bin(), ["phrases " + l.split(" ")[1] for l in qs], timeout=1200)
    phrases = []
    seen = set()
    for o in out:
        for h in o.split(" ")[1:]:
            if h not in seen:
                seen.add(h)
                phrases.append(h)
    if not phrases:
        return []
    rc, res, err = run_lines(harness_bin(False), ["lookup " + h for h in phrases], timeout=1200, watchdog=10)
    lines = []
    for h, r in zip(phrases, res):
        f = r.split(" ")
        if f[:2] == ["L", "OK"]:
            lines.append(f"db {h} {f[2]} {f[3]} {f[4]}")
        elif f[:2] == ["L", "NONE"]:
            lines.append(f"db {h} NONE")
        # lookup errors: leave the phrase unknown (the model answers lookupError as well)
    return lines


def run_driver(lines, header=(), chunk=5000, line_timeout=10):
    """Run the model driver on `lines`. The driver answers (and flushes) one line per
    request, so a request that does not finish within `line_timeout` seconds is identified
    directly: it is answered `MODEL-TIMEOUT` (the model is executable but not
    resource-bounded; a driver that dies, e.g. of stack exhaustion, is treated alike) and
    the run resumes with the next request."""
    import select
    import tempfile
    header = list(header)
    out = []
    i, n = 0, len(lines)
    while i < n:
        part = lines[i:i + chunk]
        with tempfile.TemporaryFile("w+") as f:
            f.write("\n".join(header + part) + "\n")
            f.flush()
            f.seek(0)
            p = subprocess.Popen([driver_bin()], stdin=f, stdout=subprocess.PIPE)
        got, buf, last = [], b"", time.time()
        need = len(header) + len(part)
        fd = p.stdout.fileno()
        while len(got) < need:
            left = line_timeout - (time.time() - last)
            if left <= 0:
                break
            r, _, _ = select.select([fd], [], [], min(left, 1.0))
            if not r:
                continue
            data = os.read(fd, 1 << 16)
            if not data:
                break
            buf += data
            *ls, buf = buf.split(b"\n")
            if ls:
                got += [l.decode("utf-8", "replace") for l in ls]
                last = time.time()
        p.kill()
        p.wait()
        ans = got[len(header):][:len(part)]
        out += ans
        if len(ans) < len(part):
            out.append("MODEL-TIMEOUT")
            i += len(ans) + 1
        else:
            i += len(part)
    return out
