"""C02, C03, C04, C09, C13: unit algebra against the SI specification."""
from fractions import Fraction

from . import common as C
from . import exprgen as G
from . import qgen as Q
from .engine import Case, Prop

_VOCAB = None


def vocab():
    global _VOCAB
    if _VOCAB is None:
        _VOCAB = Q.Vocab()
    return _VOCAB


def q_cases(items):
    """items: (qexpr, layout, tag) -> query cases with spec expectations."""
    lines = [Q.qexpr_line(e, l) for e, l, _ in items]
    rc, out, err = C.run_lines(C.driver_bin(), lines, timeout=1800)
    cases = []
    for (e, l, tag), o in zip(items, out):
        f = o.split(" ")
        if f[0] != "E" or len(f) < 3 or f[1] == "BAD":
            raise RuntimeError(f"spec could not render {o!r} for {lines[len(cases)]!r}")
        cases.append(Case("query " + f[1], tag, C.unhex(f[1]), expect=f[2:]))
    return cases


class QProp(Prop):
    needs_tables = True
    compare_unit = True

    def observable(self, line):
        items = line[2:].split(" | ") if line.startswith("R ") else [line]
        return " | ".join("ERR" if it.startswith("ERR") else it for it in items)

    def nontrivial(self, case, impl):
        return " OK " in impl

    def prepare(self, cases, impl_lines):
        self._si = {}
        req, idx = [], []
        for i, im in enumerate(impl_lines):
            if im.startswith("R OK ") and " | " not in im:
                f = im.split(" ")
                req.append(f"si {f[2]} {f[3]}")
                idx.append(i)
        if req:
            rc, out, err = C.run_lines(C.driver_bin(), req, timeout=1800)
            for i, o in zip(idx, out):
                self._si[i] = o.split(" ")[1:3]
        self._index = {id(c): i for i, c in enumerate(cases)}

    def spec_verdict(self, case, impl, spec):
        if isinstance(case.expect, tuple) and case.expect[0] == "ABS":
            return None if impl == case.expect[1] else f"`{case.text}` answered {impl[:90]}, expected {case.expect[1][:90]}"
        if case.tag == "refsweep-pair":
            from . import refsweep as R
            return R.verdict(impl, case.expect[1])
        if case.tag == "refsweep-dims":
            # dimensions by the human reference table: the conversion must be accepted
            items = impl[2:].split(" | ") if impl.startswith("R ") else [impl]
            if len(items) == 1 and items[0].startswith("OK "):
                return None
            return f"`{case.text}` is a conversion between equal dimensions by the reference table, but was answered {impl[:80]}"
        if case.expect is None:
            return None
        if impl.startswith("PANIC") or impl.startswith("ABORT"):
            return "panic"
        items = impl[2:].split(" | ") if impl.startswith("R ") else [impl]
        if len(items) != 1:
            return f"expected one result, got {len(items)}"
        exp = case.expect
        got_ok = items[0].startswith("OK ")
        i = self._index.get(id(case))
        if exp[0] == "ERR":
            if not got_ok:
                return None
            if len(exp) > 2 and exp[1] == "offsetScale" and exp[3] == "OK":
                # compound use of an offset scale: the interval reading is admissible
                si = self._si.get(i)
                if si and si[0] == exp[4] and si[1] == exp[5]:
                    return None
                return f"offset scale in a compound: expected refusal or the interval reading {exp[4]}, got {items[0]}"
            return f"expected an error ({exp[1]}), got {items[0]}"
        if not got_ok:
            return f"expected a value (SI {exp[1]}), got {items[0]}"
        si = self._si.get(i)
        if si is None:
            return "no SI reading of the result"
        if si[0] != exp[1] or si[1] != exp[2]:
            return f"expected SI value {exp[1]} dims {exp[2]}, got SI {si[0]} dims {si[1]} ({items[0]})"
        if self.compare_unit and exp[3] != "?":
            unit = items[0].split(" ")[2]
            if unit != exp[3]:
                return f"expected the result in unit {exp[3]}, got {unit}"
        return None


def _pair(v, rng, same):
    u1 = Q.rand_unit(v, rng)
    if same:
        u2 = Q.respell(v, rng, u1) if rng.chance(2, 3) else Q.decompose(v, rng, u1)
        if not u2:
            u2 = u1
    else:
        u2 = Q.rand_unit(v, rng)
    return u1, u2


CANCEL_IDIOMS = [  # (left spelling, right spelling) with equal dimensions, from the property text
    ([("J", 1), ("N", -1)], [("m", 1)]),
    ([("V", 1), ("A", 1)], [("W", 1)]),
    ([("C", 1), ("s", -1)], [("A", 1)]),
    ([("N", 1), ("m", 1)], [("J", 1)]),
    ([("W", 1), ("s", 1)], [("J", 1)]),
    ([("Pa", 1), ("m", 2)], [("N", 1)]),
    ([("Wb", 1), ("s", -1)], [("V", 1)]),
    ([("J", 1), ("kg", -1)], [("Gy", 1)]),
    ([("kat", 1), ("s", 1)], [("mol", 1)]),
    ([("lx", 1), ("m", 2)], [("lm", 1)]),
    ([("F", 1), ("V", 1)], [("C", 1)]),
    ([("H", 1), ("A", 1)], [("Wb", 1)]),
    ([("T", 1), ("m", 2)], [("Wb", 1)]),
    ([("S", 1), ("V", 1)], [("A", 1)]),
]


def idiom_terms(v, spelling):
    out = []
    for word, p in spelling:
        ws = [w for w in v.words if w[0] + w[1] == word and (w[0] == "" or word in ("kg",))]
        if not ws:
            ws = [w for w in v.words if w[0] + w[1] == word]
        if not ws:
            return None
        out.append((ws[0], p))
    return out


def ratio_unit(v, rng):
    """A unit whose base dimensions cancel completely although its scale is not one: two
    different words of one dimension with opposite powers (`min/s`, `ft/in`, `acre/m^2`),
    sometimes next to a further unit that stays. Returns (terms, same-dimension-class words)."""
    classes = [ws for ws in v.by_dims.values() if len({w[2] for w in ws if not w[6]}) >= 2]
    ws = [w for w in rng.choice(classes) if not w[6]]
    a = rng.choice(ws)
    b = rng.choice([w for w in ws if w[2] != a[2]])
    p = rng.choice([1, 1, 1, 2, -1])
    return [(a, p), (b, -p)], ws


def ratio_like(v, rng, ws, terms):
    """Another spelling with the same (cancelling) dimensions."""
    p = terms[0][1]
    a = rng.choice(ws)
    b = rng.choice([w for w in ws if w[2] != a[2]])
    return [(a, p), (b, -p)]


class C02(QProp):
    """Theorems (Props/C02.lean): `Compound::factor`, `+`, `-` and the `to` step accept two non-empty proportional compounds iff the specification's base dimensions agree, whatever the spelling, otherwise `illegalOperation` / `illegalCast`; a plain number adopts the unit in either order. Correspondence: pairs of random and respelled unit expressions, cancelling idioms, plus a sweep built from the human reference table only (`1 name^p to base-SI`). End to end (Props/QuantityQuery.lean): `C02_query` — the rendered TEXT of `a + b`, `a - b`, `a to u` through lexer, parser and evaluator succeeds iff the specification's dimensions agree. Unified language (Props/UnifiedQuery.lean): `C02_query_fact` — a fact phrase ± a quantity is accepted iff the dimensions agree."""
    id = "C02"
    module = "Anything.Props.C02"
    extra_modules = ["Anything.Props.QuantityQuery", "Anything.Props.UnifiedQuery"]
    trusted = ["Spec.SI (dimension vectors, commensurability) is human input", "unit table extracted by the translator"]

    def cases(self, rng, tier):
        v = vocab()
        items = []
        n = 1500 if tier == "quick" else 30000
        L = G.Lit
        for a, b in CANCEL_IDIOMS:
            ta, tb = idiom_terms(v, a), idiom_terms(v, b)
            if not ta or not tb:
                continue
            for x, y in ((ta, tb), (tb, ta)):
                items.append((Q.Cast(Q.Qty("3", x), y), [], "idiom-cast"))
                items.append((G.Bin("+", Q.Qty("3", x), Q.Qty("2", y)), [], "idiom-add"))
                items.append((G.Bin("-", Q.Qty("3", x), Q.Qty("2", y)), [], "idiom-sub"))
        for i in range(n):
            same = rng.chance(1, 2)
            u1, u2 = _pair(v, rng, same)
            x, y = Q.small_value(rng), Q.small_value(rng)
            kind = rng.below(4)
            if kind == 0:
                e = Q.Cast(Q.Qty(x, u1), u2)
            elif kind == 1:
                e = G.Bin(rng.choice("+-"), Q.Qty(x, u1), Q.Qty(y, u2))
            elif kind == 2:
                e = G.Bin(rng.choice("+-"), L(x), Q.Qty(y, u2)) if rng.chance(1, 2) else G.Bin(rng.choice("+-"), Q.Qty(y, u2), L(x))
            else:
                e = Q.Cast(G.Paren(G.Bin(rng.choice("+-"), Q.Qty(x, u1), Q.Qty(y, u2))), u1 if rng.chance(1, 2) else u2)
            items.append((e, Q.layout_q(e, rng, "canon" if i % 3 else "random"), f"{'same' if same else 'random'}-kind{kind}"))
        # chains of casts group left to right (`x to U1 to U2 [to U3]` is `((x to U1) to U2) to U3`);
        # the first operand may be a plain number, which adopts U1 and is then
        # CONVERTED by the later casts
        for i in range(400 if tier == "quick" else 6000):
            u1 = Q.rand_unit(v, rng)
            def other(u):
                w = Q.respell(v, rng, u) if rng.chance(2, 3) else Q.decompose(v, rng, u)
                return w or u
            u2 = other(u1) if rng.chance(5, 6) else Q.rand_unit(v, rng)
            x = Q.small_value(rng)
            k = rng.below(4)
            first = L(x) if k <= 1 else Q.Qty(x, other(u1)) if k == 2 else G.Paren(G.Bin("+", L(x), L("1")))
            e = Q.Cast(Q.Cast(first, u1), u2)
            if rng.chance(1, 3):
                e = Q.Cast(e, other(u2))
            items.append((e, Q.layout_q(e, rng, "canon" if i % 3 else "random"), f"cast-chain-{k}"))
        cases = q_cases(items)
        # commensurability judged by the HUMAN reference table (not by the table extracted from
        # the source): every reference name at powers 1, -1, 2 against the base-SI spelling
        from . import refsweep as R
        for text, name, p, exp in R.sweep(powers=(1, -1, 2)):
            cases.append(Case("query " + C.hexs(text), "refsweep-dims", text))
        return cases


class C03(QProp):
    """Theorems (Props/C03.lean): a conversion multiplies by scale(source)/scale(target) with the specification's exact scale (non-zero by a table fact re-checked every run): round trips, via an intermediate, linearity, prefix = power of ten, powers, products. Correspondence: every unit word as source and target, random commensurable pairs, prefixed temperature scales. End to end: `C03_query` — the text `x u1 to u2` answers x·scale u1/scale u2 in u2. Unified language (Props/UnifiedQuery.lean): `C03_query_fact` — `<phrase> to <unit>` converts the looked-up constant."""
    id = "C03"
    module = "Anything.Props.C03"
    extra_modules = ["Anything.Props.QuantityQuery", "Anything.Props.UnifiedQuery"]
    trusted = ["Spec.SI.scale over the extracted table", "unit table extracted by the translator"]

    def cases(self, rng, tier):
        v = vocab()
        items = []
        # systematic: every validated word as source and as target of a conversion to/from
        # the base spelling of its dimension
        for w in v.plain_words:
            t = [(w, 1)]
            base = Q.decompose(v, rng, t)
            if not base:
                continue
            items.append((Q.Cast(Q.Qty("7", t), base), [], "sweep-source"))
            items.append((Q.Cast(Q.Qty("7", base), t), [], "sweep-target"))
        # "an SI prefix is exactly its power of ten" also on the temperature scales: a prefixed
        # scale converts like the unprefixed one applied to 10^p times the magnitude
        kel = [w for w in v.words if w[2] == "Kelvin"]
        allt = v.affine_words + v.affine_prefixed + kel
        tstep = 1 if tier != "quick" else max(1, len(allt) // 30)
        for w in allt[::tstep]:
            for t in (v.affine_words + [k for k in kel if k[0] == ""]):
                items.append((Q.Cast(Q.Qty("1500", [(w, 1)]), [(t, 1)]), [], "prefix-temperature-source"))
                items.append((Q.Cast(Q.Qty("5", [(t, 1)]), [(w, 1)]), [], "prefix-temperature-target"))
        n = 1200 if tier == "quick" else 30000
        for i in range(n):
            u1, u2 = _pair(v, rng, True)
            x = Q.small_value(rng)
            k = rng.below(4)
            if k == 0:
                e = Q.Cast(Q.Qty(x, u1), u2)
            elif k == 1:  # there and back
                e = Q.Cast(G.Paren(Q.Cast(Q.Qty(x, u1), u2)), u1)
            elif k == 2:  # via an intermediate
                u3 = Q.respell(v, rng, u1) or u1
                e = Q.Cast(G.Paren(Q.Cast(Q.Qty(x, u1), u3)), u2)
            else:  # scaling the input
                e = Q.Cast(G.Paren(G.Bin("*", G.Lit(str(rng.range(2, 9))), Q.Qty(x, u1))), u2)
            items.append((e, Q.layout_q(e, rng, "canon" if i % 3 else "random"), f"random-kind{k}"))
        # units whose dimensions cancel completely while the scale does not (`1 min/s to hr/s` is
        # 1/60): conversions, there-and-back, and with a further unit that stays
        for i in range(300 if tier == "quick" else 5000):
            u1, ws = ratio_unit(v, rng)
            u2 = ratio_like(v, rng, ws, u1)
            if rng.chance(1, 3):
                extra = rng.choice(v.plain_words)
                if extra[2] not in {t[0][2] for t in u1 + u2}:
                    u1, u2 = u1 + [(extra, 1)], u2 + [(extra, 1)]
            x = Q.small_value(rng)
            e = Q.Cast(Q.Qty(x, u1), u2) if i % 3 else Q.Cast(G.Paren(Q.Cast(Q.Qty(x, u1), u2)), u1)
            items.append((e, [], "cancelling-ratio"))
        # 10^(prefix·power) for every product up to 200: `1 km^13 to m^13` is 10^39 (10^19 < 2^64 <
        # 10^20, 10^38 < 2^128 < 10^39)
        from . import extragen as X
        return q_cases(items) + X.prefix_power_sweep(rng, tier)


class C04(QProp):
    """Theorems (Props/C04.lean): `Compound::mul` with every iteration of `reconstruct` preserves base dimensions and SI value; `*`, `/`, `^` refine Spec.SI.qmul/qdiv/qpow; zero divisor is an error; x^0 is the dimensionless one; a power leaving the i32 range is an error. Correspondence: expression trees over quantities, SI value and dimensions compared whatever unit is displayed. End to end: `C04_query` — products, quotients and literal integer powers written as text have the SI value and dimensions of Spec.SI.qmul/qdiv/qpow. Unified language (Props/UnifiedQuery.lean): `C04_query_fact` — `*`, `/`, `^` of a looked-up constant."""
    id = "C04"
    module = "Anything.Props.C04"
    extra_modules = ["Anything.Props.QuantityQuery", "Anything.Props.UnifiedQuery"]
    compare_unit = False
    trusted = ["Spec.SI over the extracted table", "unit table extracted by the translator"]

    def gen(self, v, rng, depth):
        if depth <= 0 or rng.chance(1, 4):
            if rng.chance(1, 5):
                return G.Lit(Q.small_value(rng))
            return Q.Qty(Q.small_value(rng), Q.rand_unit(v, rng, 2))
        r = rng.below(8)
        if r == 0:
            return G.Paren(self.gen(v, rng, depth - 1))
        if r == 1:
            return G.mk_bin("^", G.Paren(self.gen(v, rng, depth - 1)), G.Lit(str(rng.range(-3, 3))))
        return G.mk_bin(rng.choice("*/"), self.gen(v, rng, depth - 1), self.gen(v, rng, depth - 1))

    def cases(self, rng, tier):
        v = vocab()
        items = []
        for a, b in CANCEL_IDIOMS:
            ta, tb = idiom_terms(v, a), idiom_terms(v, b)
            if ta and tb:
                items.append((G.Bin("*", Q.Qty("3", ta), Q.Qty("2", tb)), [], "idiom-mul"))
                items.append((G.Bin("/", Q.Qty("3", ta), Q.Qty("2", tb)), [], "idiom-div"))
        for w in v.plain_words[:: 3 if tier == "quick" else 1]:
            t = [(w, 1)]
            items.append((G.Bin("*", Q.Qty("3", t), Q.Qty("2", [(w, 2)])), [], "sweep-mul"))
            items.append((G.Bin("/", Q.Qty("3", t), Q.Qty("2", [(w, 1)])), [], "sweep-div"))
            for k in (-2, 0, 2, 3):
                items.append((G.Bin("^", G.Paren(Q.Qty("3", t)), G.Lit(str(k))), [], "sweep-pow"))
        # the same derived unit in BOTH operands, one of them at a higher power, next to a base
        # unit that cancels part of its expansion (so that `reconstruct` can fold the unit back
        # only partly, and hits an entry the other operand already put there)
        base_word = {}
        for w in v.plain_words:
            if w[0] == "" and sum(abs(x) for x in w[4]) == 1 and w[5] == 1 and w[1].isascii():
                base_word.setdefault(w[4], w)
        one = {}
        for w in v.plain_words:
            if w[0] == "" and w[1].isascii() and w[1].isalpha() and sum(abs(x) for x in w[4]) >= 1:
                one.setdefault(w[2], w)
        reps = list(one.values())
        for u in reps[:: 2 if tier == "quick" else 1]:
            bases = [bw for d, bw in base_word.items() if any(a and b for a, b in zip(d, u[4]))]
            for bw in bases[:2]:
                if bw[2] == u[2]:
                    continue
                for p in ((2, 3) if tier == "quick" else (2, 3, -2, -3)):
                    a = Q.Qty("2", [(u, 1)])
                    b = Q.Qty("3", [(u, p), (bw, -1 if p > 0 else 1)])
                    for op in "*/":
                        items.append((G.Bin(op, a, b), [], "partial-cancel"))
                        items.append((G.Bin(op, b, a), [], "partial-cancel"))
        n = 1500 if tier == "quick" else 30000
        for i in range(n):
            e = self.gen(v, rng, rng.range(1, 3))
            items.append((e, Q.layout_q(e, rng, "canon" if i % 3 else "random"), "random-tree"))
        return q_cases(items)


class C09(QProp):
    """Theorems (Props/C09.lean): all ordered pairs of K/°C/°F with any SI prefixes and every magnitude convert through kelvin by the defining formulas; chains of any length compose; exactly invertible; an offset scale not alone with power one (source or target) is refused, products/quotients with one are refused. Correspondence: all pairs incl. prefixed spellings, chains, compound uses. Full language (Props/FullQuery.lean): `C09_query_nested*` — temperature leaves and casts inside larger expressions and calls, with the refusals for arbitrary operand expressions."""
    id = "C09"
    module = "Anything.Props.C09"
    extra_modules = ["Anything.Props.C09Query", "Anything.Props.FullQuery"]
    trusted = ["Spec.SI.pointToKelvin over the extracted affine parameters"]

    def cases(self, rng, tier):
        v = vocab()
        items = []
        kel = [w for w in v.words if w[2] == "Kelvin" and w[0] == ""]
        scales = {"K": [(kel[0], 1)]}
        for w in v.affine_words:
            scales.setdefault(w[1], [(w, 1)])
        names = sorted(scales)
        vals = ["0", "32", "100", "-40", "273.15", "-273.15", "37.5", "1e3", "0.001", "451"]
        for a in names:
            for b in names:
                for x in vals if tier == "quick" else vals + [Q.small_value(rng) for _ in range(20)]:
                    items.append((Q.Cast(Q.Qty(x, scales[a]), scales[b]), [], "pairs"))
        # a scale with an SI prefix (m°C, k°F, mK): as source, as target, and in chains
        pk = [w for w in v.words if w[2] == "Kelvin" and w[0] != ""]
        pref = v.affine_prefixed + pk
        pstep = 1 if tier != "quick" else max(1, len(pref) // 24)
        for w in pref[::pstep]:
            for b in names:
                for x in ("5", "-268150", "1500", "0.25"):
                    items.append((Q.Cast(Q.Qty(x, [(w, 1)]), scales[b]), [], "pairs-prefixed-source"))
                    items.append((Q.Cast(Q.Qty(x, scales[b]), [(w, 1)]), [], "pairs-prefixed-target"))
                    items.append((Q.Cast(G.Paren(Q.Cast(Q.Qty(x, scales[b]), [(w, 1)])), scales[b]), [], "prefixed-round-trip"))
        for _ in range(60 if tier == "quick" else 2000):
            w1, w2 = rng.choice(pref), rng.choice(pref)
            items.append((Q.Cast(Q.Qty(Q.small_value(rng), [(w1, 1)]), [(w2, 1)]), [], "pairs-prefixed-both"))
        n = 300 if tier == "quick" else 5000
        for _ in range(n):
            chain = [rng.choice(names) for _ in range(rng.range(2, 4))]
            e = Q.Qty(Q.small_value(rng), scales[chain[0]])
            for c in chain[1:]:
                e = Q.Cast(G.Paren(e) if isinstance(e, Q.Cast) else e, scales[c])
            items.append((e, [], "chains"))
        # offset scale anywhere but alone with power one
        aff = [w for w in v.affine_words]
        others = [w for w in v.plain_words if w[2] in ("Meter", "Second", "KiloGram")][:40]
        for _ in range(300 if tier == "quick" else 4000):
            w = rng.choice(aff)
            p = rng.choice([-3, -2, -1, 1, 2, 3])
            extra = [(rng.choice(others), rng.choice([-2, -1, 1, 2])) for _ in range(rng.range(0, 2))]
            if p == 1 and not extra:
                extra = [(rng.choice(others), 1)]
            seen = set()
            extra = [t for t in extra if not (t[0][2] in seen or seen.add(t[0][2]))]
            src = [(w, p)] + extra
            tgt = [(rng.choice(kel + aff), p)] + extra
            items.append((Q.Cast(Q.Qty(Q.small_value(rng), src), tgt), [], "compound-offset"))
            items.append((G.Bin("+", Q.Qty("1", src), Q.Qty("2", tgt)), [], "compound-offset-add"))
        # asymmetric shapes: a LONE temperature unit on one side, on the other side an offset scale
        # multiplied with co-factors that cancel (m/ft, min/s): the two sides disagree on "stands alone"
        bydim = {}
        for w in v.plain_words:
            if w[0] == "" and w[2] in ("Meter", "Second") or (w[0] == "" and sum(abs(x) for x in w[4]) == 1):
                bydim.setdefault(w[4], []).append(w)
        cof = [ws for ws in bydim.values() if len(ws) >= 2]
        lone = [[(k, 1)] for k in kel[:1]] + [[(w, 1)] for w in aff]
        for _ in range(200 if tier == "quick" else 3000):
            ws = rng.choice(cof)
            a, b = rng.choice(ws), rng.choice(ws)
            if a[2] == b[2] and a[3] == b[3]:
                continue
            comp = [(rng.choice(aff), 1), (a, 1), (b, -1)]
            single = rng.choice(lone)
            x = Q.small_value(rng)
            items.append((Q.Cast(Q.Qty(x, single), comp), [], "offset-asym-target"))
            items.append((Q.Cast(Q.Qty(x, comp), single), [], "offset-asym-source"))
            items.append((G.Bin(rng.choice("+-"), Q.Qty(x, comp), Q.Qty("300", single)), [], "offset-asym-add"))
            items.append((G.Bin(rng.choice("+-"), Q.Qty("300", single), Q.Qty(x, comp)), [], "offset-asym-add"))
        return q_cases(items)


class _OffsetLaws:
    def scenarios(self, rng, tier):
        fails, n = _offset_law_scenario()
        return {"evaluations": 2 * n, "nontrivial": 2 * n, "spec_fail": fails, "dist": {"offset-scale-laws": n}}


class C13(_OffsetLaws, QProp):
    """Theorems (Props/C13.lean): `+ - * /` on proportional quantities refine the specification's SI operations, hence commutativity, associativity, distributivity, a-a = 0, a/a = 1 for the evaluator's results; products stay proportional; every shipped fact is in scope (kernel check over the regenerated facts table). Offset scales excluded (recorded finding). Correspondence: both sides of every law on literals and shipped facts, all pairs of units in both orders, a reference-driven pair sweep. End to end: `C13_query` — the SI reading of any in-scope quantity expression written as text is the specification's denotation, hence the laws hold for whole queries. Unified language (Props/UnifiedQuery.lean): `C13_query_unified` — every well-formed expression over literals with units AND fact phrases, as TEXT, answers the specification's SI value and dimensions. Full language (Props/FullQuery.lean): `C13_query_full` — ONE theorem for the whole expression language as text."""
    id = "C13"
    module = "Anything.Props.C13"
    extra_modules = ["Anything.Props.QuantityQuery", "Anything.Props.UnifiedQuery", "Anything.Props.FullQuery"]
    needs_db_tables = True
    compare_unit = False
    trusted = ["Spec.SI over the extracted table", "facts are read through the real database lookup"]

    def cases(self, rng, tier):
        v = vocab()
        items = []
        extra_cases = []
        facts = load_facts(60 if tier == "quick" else 800, rng)

        def operand(dimlike=None):
            if facts and rng.chance(1, 4) and dimlike is None:
                return rng.choice(facts)
            if dimlike is not None:
                u = Q.respell(v, rng, dimlike) or dimlike
                return Q.Qty(Q.small_value(rng), u)
            return Q.Qty(Q.small_value(rng), Q.rand_unit(v, rng, 2))

        B, P = G.Bin, G.Paren
        # every pair of distinct units (one unprefixed name per unit): a·b and b·a, and a/b
        # (two units that collapse onto one map key, or whose reconstruction depends on the
        # operand order, show up only for particular pairs)
        one = {}
        for w in v.plain_words:
            if w[0] == "" and w[1].isascii() and w[1].isalpha():
                one.setdefault(w[2], w)
        reps = list(one.values())
        step = 1 if tier != "quick" else 1
        for i in range(0, len(reps)):
            for j in range(i + 1, len(reps), step):
                a, b = Q.Qty("3", [(reps[i], 1)]), Q.Qty("7", [(reps[j], 1)])
                items.append((B("*", a, b), [], "pair-mul"))
                items.append((B("*", b, a), [], "pair-mul"))
        # a·b = b·a when one factor is a fact PHRASE of several words and the operator is written
        # without blanks (`speed of light*2`, `2*speed of light`, `speed of light * 2`)
        self.generic_groups = True
        phrases = ["speed of light", "mass earth", "radius moon", "standard gravity g0", "population finland", "mass of the sun", "pi"]
        gi = 0
        for ph in phrases:
            for k in ("2", "7.5", "(3)", "pi", "mass moon"):
                for op in "*/":
                    gi += 1
                    spell = [f"{ph} {op} {k}", f"{ph}{op}{k}", f"{ph} {op}{k}", f"{ph}{op} {k}"]
                    if op == "*":
                        spell += [f"{k}*{ph}", f"{k} * {ph}"]
                    for t in spell:
                        c = Case("query " + C.hexs(t), "fact-tight-operator", t)
                        c.group = f"tight:{ph}{op}{k}"
                        extra_cases.append(c)
        # sums and differences of quantities whose units cancel completely but differ in scale
        # (`5 min/s + 1 hr/s` is 65 min/s)
        for _ in range(200 if tier == "quick" else 3000):
            u1, ws = ratio_unit(v, rng)
            u2 = ratio_like(v, rng, ws, u1)
            a, b = Q.Qty(Q.small_value(rng), u1), Q.Qty(Q.small_value(rng), u2)
            op = rng.choice("+-")
            items.append((B(op, a, b), [], "cancelling-ratio"))
            items.append((B(op, b, a), [], "cancelling-ratio"))
        n = 400 if tier == "quick" else 8000
        for _ in range(n):
            u = Q.rand_unit(v, rng, 2)
            a, b, c = operand(u), operand(u), operand(u)
            x, y = operand(), operand()
            laws = [
                (B("+", a, b), B("+", b, a)),
                (B("*", x, y), B("*", y, x)),
                (B("+", P(B("+", a, b)), c), B("+", a, P(B("+", b, c)))),
                (B("*", P(B("*", x, y)), a), B("*", x, P(B("*", y, a)))),
                (B("*", x, P(B("+", a, b))), B("+", B("*", x, a), B("*", x, b))),
                (B("-", a, a), None),
                (B("/", x, x), None),
            ]
            for lhs, rhs in laws:
                items.append((lhs, [], "law-lhs"))
                if rhs is not None:
                    items.append((rhs, [], "law-rhs"))
        cases = q_cases(items) + extra_cases
        # the same pair sweep judged by the HUMAN reference table (names, dimensions, scales),
        # independent of the extracted tables and of the word validation
        from . import refsweep as R
        ps = R.pair_sweep()
        for text, exp in (ps if tier != "quick" else ps[:: 2] + ps[1:: 2][:: 3]):
            c = Case("query " + C.hexs(text), "refsweep-pair", text)
            c.expect = ("REFPAIR", exp)
            cases.append(c)
        return cases


def _offset_law_scenario():
    """The laws also quantify over quantities on offset scales. There they fail by the nature
    of affine units (a sum keeps the left operand's scale and converts the right operand as a
    POINT): recorded finding `class:offset-scale-sum`, checked so that it stays visible."""
    pairs = [("1°C + 1K to K", "1K + 1°C to K", "a + b = b + a"),
             ("(1°C + 1K) + 1K to K", "1°C + (1K + 1K) to K", "(a + b) + c = a + (b + c)"),
             ("5°F + 2°C to K", "2°C + 5°F to K", "a + b = b + a")]
    lines = []
    for a, b, _ in pairs:
        lines += ["query " + C.hexs(a), "query " + C.hexs(b)]
    rc, out, err = C.run_lines(C.harness_bin(False), lines, watchdog=10)
    fails = []
    for i, (a, b, law) in enumerate(pairs):
        x, y = out[2 * i], out[2 * i + 1]
        if x != y:
            fails.append(("class:offset-scale-sum", f"{a}  vs  {b}", f"{law} fails on an offset scale: `{a}` = {x[2:60]}, `{b}` = {y[2:60]}"))
    return fails, len(pairs)


def load_facts(k, rng):
    """A sample of shipped facts whose search words can be typed (letters only) and
    whose unit is proportional; values come from the real lookup."""
    import subprocess
    out = subprocess.run([C.harness_bin(False), "dump-facts"], capture_output=True, text=True, timeout=600).stdout.splitlines()
    cands = []
    for line in out:
        f = line.split("\t")
        if len(f) < 5 or f[0] != "FACT":
            continue
        tokens = [C.unhex(t) for t in f[1].split(";")] if f[1] != "-" else []
        words = " ".join(tokens)
        if not tokens or not all(w.isascii() and w.isalpha() and w != "to" for w in words.split()):
            continue
        cands.append(words)
    cands = sorted(set(cands))   # two facts may carry the same words
    picks = []
    seen = set()
    while cands and len(picks) < k * 3 and len(seen) < len(cands):
        w = rng.choice(cands)
        if w in seen:
            continue
        seen.add(w)
        picks.append(w)
    rc, res, err = C.run_lines(C.harness_bin(False), ["lookup " + C.hexs(p) for p in picks], watchdog=20)
    facts = []
    for p, r in zip(picks, res):
        f = r.split(" ")
        if f[:2] == ["L", "OK"] and "D3728342790" not in f[3] and "D981617578" not in f[3]:
            facts.append(Q.Fact(p, f[2], f[3]))
        if len(facts) >= k:
            break
    return facts
