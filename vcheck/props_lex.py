"""C07 (decimal literals) and C12 (lossless lexing/parsing)."""
import itertools

from . import common as C
from .engine import Case, Prop


class C07(Prop):
    """Theorem C07_fromStr: for every well-formed literal of any length the model of FromStr returns exactly the rational it spells (induction over digit lists); the model is tied to the real parser by exhaustive short literals + random long ones, and the implementation is checked directly against the independent literal spec. End to end: `C07_query` (Props/C07Query.lean) — the literal written as a query (lexer, parser, evaluator) yields exactly the value the reader theorem gives."""
    id = "C07"
    module = "Anything.Props.C07"
    extra_modules = ["Anything.Props.C07Query"]
    trusted = ["num-bigint/num-rational arithmetic (tied to Lean's Rat by sampling)",
               "Spec.Decimal (literal grammar and value) is human input"]

    def observable(self, line):
        return line

    def nontrivial(self, case, impl):
        return impl.startswith("N ") and "ERR" not in impl

    def cases(self, rng, tier):
        out = []
        digs = "019" if tier == "quick" else "0159"
        maxlen = 6 if tier == "quick" else 8
        # systematic: every literal shape up to maxlen over a reduced digit alphabet
        def mantissas(n):
            # int digits, optional point, frac digits: total length n, at least one digit
            for k in range(0, n + 1):  # k int digits
                for point in (False, True):
                    f = n - k - (1 if point else 0)
                    if f < 0 or (not point and f > 0):
                        continue
                    if k + f == 0:
                        continue
                    for a in itertools.product(digs, repeat=k):
                        for b in itertools.product(digs, repeat=f):
                            yield "".join(a) + ("." if point else "") + "".join(b)
        seen = set()
        for sign in ("", "+", "-"):
            for mlen in range(1, maxlen + 1):
                if len(sign) + mlen > maxlen:
                    continue
                for m in mantissas(mlen):
                    base = sign + m
                    room = maxlen - len(base)
                    exps = [""]
                    for e in "eE":
                        for es in ("", "+", "-"):
                            for el in range(1, 3):
                                if 1 + len(es) + el <= room:
                                    for d in itertools.product(digs, repeat=el):
                                        exps.append(e + es + "".join(d))
                    # thin out the cross product deterministically for long mantissas
                    if mlen >= 4:
                        exps = exps[:: 7] if tier == "quick" else exps[:: 3]
                    for ex in exps:
                        s = base + ex
                        if s not in seen:
                            seen.add(s)
                            out.append(Case("num " + C.hexs(s), "systematic", s))
        # random long literals
        n = 1500 if tier == "quick" else 20000
        for _ in range(n):
            il = rng.choice([0, 1, 2, 5, 20, 60, 200]) if rng.chance(1, 3) else rng.range(0, 12)
            fl = rng.choice([0, 1, 3, 10, 40, 300]) if rng.chance(1, 3) else rng.range(0, 12)
            point = rng.chance(2, 3) or il == 0
            if il == 0 and fl == 0:
                fl = 1
            if not point:
                fl = 0
                if il == 0:
                    il = 1
            def dstr(k):
                lead = rng.range(0, 3) if rng.chance(1, 4) else 0
                return "".join("0" if i < lead else str(rng.below(10)) for i in range(k))
            s = rng.choice(["", "", "+", "-"]) + dstr(il) + ("." if point else "") + dstr(fl)
            if rng.chance(1, 2):
                s += rng.choice("eE") + rng.choice(["", "+", "-"]) + dstr(rng.range(1, 3))
            out.append(Case("num " + C.hexs(s), "random-wellformed", s))
        # every LENGTH of integer part and of fraction up to 330 digits (19/20 digits = u64, 38/39 =
        # u128, 255/256, …), and every exponent from -720 to 720, also where the exponent meets the
        # number of fraction digits (f - 1, f, f + 1: the point where the value becomes an integer)
        step = 1 if tier != "quick" else 3
        for L in sorted(set(list(range(0, 331, step)) + [18, 19, 20, 21, 37, 38, 39, 40, 63, 64, 65, 127, 128, 129, 255, 256, 257])):
            d = "".join(str((7 * i + 3) % 10) for i in range(L))
            for s in ((d or "0") + ".5", "0." + d + "7", "9" + d, "-" + (d or "0") + "." + d + "1", "1" + "0" * L, "0." + "0" * L + "1"):
                out.append(Case("num " + C.hexs(s), "length-sweep", s[:24] + f"… ({L})"))
            for f_ in (0, 1, 5):
                for e_ in (L - 1, L, L + 1, -L):
                    s = "3." + "1" * (L if f_ == 0 else f_) + "e" + str(e_ if f_ == 0 else e_)
                    out.append(Case("num " + C.hexs(s), "exponent-meets-fraction", s[:24] + f"… (e{e_})"))
        for e_ in sorted(set(list(range(-720, 721, step * 2 + 1)) + [-309, -308, 308, 309, -324, 38, 39, 255, 256, 257, -255, -256])):
            for m_ in ("1", "2.5", "-7.25", "0.001"):
                for es in (str(e_), ("+" if e_ >= 0 else "-") + "00" + str(abs(e_))):
                    s = m_ + rng.choice("eE") + es
                    out.append(Case("num " + C.hexs(s), "exponent-sweep", s))
        # u32 guard region of the exponent
        for s in ["1e4294967295x", "1e4294967296", "1e4294967295", "1e-4294967296", "1e00004294967296", "2e99999999999"]:
            if not s.endswith("x"):
                if s in ("1e4294967295",):
                    continue  # 10^(2^32) would be materialised: outside any sane bound
                out.append(Case("num " + C.hexs(s), "guard", s))
        # literals PRINTED BY THE TOOL ITSELF: what `Rational::display` writes without the continuation
        # mark is a decimal literal (with `e<n>` / `e-<n>` forms no hand-written family spells that way);
        # the reader must accept it and read what it spells (expectation: Spec.Decimal on the TEXT, so a
        # printing fault — C08's business — cannot make this family alarm). Props/C08Reader.lean is the
        # theorem side: reader ∘ printer = identity on mark-free text.
        dl = []
        for _ in range(700 if tier == "quick" else 12000):
            a = rng.range(-10 ** rng.range(0, 40), 10 ** rng.range(0, 40))
            b = 2 ** rng.range(0, 24) * 5 ** rng.range(0, 24) if rng.chance(3, 4) else 10 ** rng.range(0, 40)
            dl.append(f"disp {a} {b} {rng.range(1, 40)} {rng.range(1, 15)} 1")
        for k in range(0, 60):
            for lim, el in ((1, 1), (3, 2), (12, 12), (40, 1)):
                dl.append(f"disp {10 ** k} 1 {lim} {el} 1")
                dl.append(f"disp -1 {10 ** k} {lim} {el} 1")
                dl.append(f"disp {10 ** k + 1} {2 ** (k % 7)} {lim} {el} 1")
        rc, texts, err = C.run_lines(C.harness_bin(False), dl)
        seen_p = set()
        for t in texts:
            if t.startswith("S ") and "…" not in t and len(t) > 2 and t[2:] not in seen_p:
                seen_p.add(t[2:])
                out.append(Case("num " + C.hexs(t[2:]), "printed-by-the-tool", t[2:][:40]))
        # malformed stream
        alpha = "0123456789+-.eE% x"
        for _ in range(800 if tier == "quick" else 8000):
            k = rng.range(0, 7)
            s = "".join(rng.choice(alpha) for _ in range(k))
            out.append(Case("num " + C.hexs(s), "malformed", s))
        return out


ALPHABET40 = list("0129.eE+-*/^%(),{} \t") + ["a", "t", "o", "m", "K", "'", "°", "é", "→", " ", " ", "　", "\u0085",
                                               "x", "s", "_", "=", "\n", "c", "g", "N"]


class C12(Prop):
    """Theorems (Props/C12.lean): for every string the lexer model terminates with non-empty tokens that cover the input on character boundaries; for every token list the parser model succeeds (no builder error, fuel suffices) and the tree's leaves are exactly the tokens; text of the forest = input. Correspondence: exhaustive short strings over a 40-symbol alphabet (tokens), every sequence of up to four tokens over an 18-token alphabet and random strings (tree shape and leaves)."""
    id = "C12"
    module = "Anything.Props.C12"
    trusted = ["syntree 0.14.5 builder (modelled, tree shapes compared)"]

    def nontrivial(self, case, impl):
        return len(impl.split()) > 2

    def spec_verdict(self, case, impl, spec):
        # direct oracle on the implementation's token list
        if impl.startswith("T"):
            h = case.line.split(" ")[1]
            src = b"" if h == "-" else bytes.fromhex(h)   # (the display text of long cases is abbreviated)
            text = src.decode("utf-8")
            toks = impl.split()[1:]
            off = 0
            bounds = set()
            p = 0
            for ch in text:
                bounds.add(p)
                p += len(ch.encode("utf-8"))
            bounds.add(p)
            for t in toks:
                n = int(t.rsplit(":", 1)[1])
                if n <= 0:
                    return "empty token"
                off += n
                if off not in bounds:
                    return f"token boundary {off} not on a character boundary"
            if off != len(src):
                return f"tokens cover {off} of {len(src)} bytes"
            if spec not in ("-", None) and spec != f"L {len(src)}":
                return f"spec length mismatch {spec}"
            return None
        if impl.startswith("S"):
            if "ERR" in impl.split()[1:2]:
                return "parse failed to produce a tree"
            # leaves of the tree must be the lexer's tokens: compared via spec field
            if spec not in ("-", None):
                leaves = [t for t in impl.replace("(", " ").replace(")", " ").split()[1:] if ":" in t]
                if "L " + " ".join(leaves) != spec:
                    return f"leaves differ from tokens: {spec}"
            return None
        if impl.startswith("PANIC"):
            return "panic"
        return None

    def cases(self, rng, tier):
        out = []
        A = ALPHABET40
        maxex = 2 if tier == "quick" else 3
        for k in range(0, maxex + 1):
            for tup in itertools.product(A, repeat=k):
                s = "".join(tup)
                out.append(Case("lex " + C.hexs(s), f"exhaustive-{k}", s))
                pass
        n = 6000 if tier == "quick" else 150000
        for _ in range(n):
            k = rng.range(3, 6) if rng.chance(3, 4) else rng.range(7, 40)
            s = "".join(rng.choice(A) for _ in range(k))
            out.append(Case("lex " + C.hexs(s), "random", s))
            if rng.chance(1, 3):
                out.append(Case("tree " + C.hexs(s), "random-tree", s))
        # the parser half: every sequence of up to four (quick) / five (thorough) tokens over a
        # token alphabet covering every branch of the grammar (blanks in every position, open
        # and closed groups, calls, casts, escapes, operators, stray closers) must give a tree
        # whose leaves are exactly the lexer's tokens
        TOK = [" ", "1", "a", "(", ")", ",", "+", "*", "^", "to", "{", "}", "%", "m", "f(", "**", "-2", "  "]
        maxt = 4 if tier == "quick" else 5
        for k in range(1, maxt + 1):
            for tup in itertools.product(TOK, repeat=k):
                s = "".join(tup)
                out.append(Case("tree " + C.hexs(s), f"tokens-{k}", s))
        # long inputs: hundreds to thousands of tokens (the parser refills its token buffer as it
        # goes; nothing in the property bounds the length of a query)
        if tier == "quick":
            lengths = list(range(200, 330, 3)) + [500, 511, 512, 513, 1023, 1024, 1025, 1500]
        else:
            lengths = list(range(30, 1100)) + [2047, 2048, 2049, 4095, 4096, 4097]
        for k in lengths:
            s = "".join(rng.choice(TOK) for _ in range(k))
            out.append(Case("lex " + C.hexs(s), "long", s[:40] + f"… ({k} pieces)"))
            out.append(Case("tree " + C.hexs(s), "long-tree", s[:40] + f"… ({k} pieces)"))
            s = rng.choice(["", " ", "(1)"]) + rng.choice([" + ", "+", " * ", "*", " "]).join(rng.choice(["1", "a", "2 m", "(3)"]) for _ in range(k // 3))
            out.append(Case("tree " + C.hexs(s), "long-tree", s[:40] + f"… ({k // 3} operands)"))
        return out
