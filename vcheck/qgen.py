"""Generator of quantity expressions (Spec.Quantity.QExpr)."""
from fractions import Fraction

from . import common as C
from . import exprgen as G


class Vocab:
    """Unit vocabulary read from the model driver (`vocab`), restricted to words
    that the model's word parser reads as the intended prefix + unit."""

    def __init__(self):
        rc, out, err = C.run_lines(C.driver_bin(), ["vocab"])
        recs = out[0][2:].split(";")
        self.names = []  # (lit, key, bias, dims tuple, factor Fraction, affine)
        self.prefixes = []  # (lit, exp, alone)
        for r in recs:
            f = r.split(" ")
            if f[0] == "N":
                self.names.append((C.unhex(f[1]), f[2], int(f[3]), tuple(int(x) for x in f[4].split(",")), Fraction(f[5]), f[6] == "1"))
            elif f[0] == "P":
                self.prefixes.append((C.unhex(f[1]), int(f[2]), f[3] == "1"))
        # validate every prefix+name word against the model's word parser
        cand = [("", n) for n in self.names] + [(p, n) for p in self.prefixes for n in self.names]
        rc, out, err = C.run_lines(C.driver_bin(), ["word " + C.hexs((p[0] if p else "") + n[0]) for p, n in cand])
        # ... and against the implementation, so that known word-level deviations
        # (C05 findings) do not leak into the other properties' generators
        rc, impl, err = C.run_lines(C.harness_bin(False), ["unit " + C.hexs((p[0] if p else "") + n[0]) for p, n in cand], watchdog=10)
        self.words = []  # (pfxlit, namelit, key, stored_prefix, dims, factor, affine)
        self.excluded_impl = 0
        for (p, n), o, im in zip(cand, out, impl):
            pe = p[1] if p else 0
            want = f"W {pe + n[2]}:{n[1]}"
            if o == want:
                if im != f"C {n[1]}:1:{pe + n[2]}":
                    self.excluded_impl += 1
                    continue
                self.words.append((p[0] if p else "", n[0], n[1], pe + n[2], n[3], n[4], n[5]))
        self.by_dims = {}
        for w in self.words:
            self.by_dims.setdefault(w[4], []).append(w)
        self.plain_words = [w for w in self.words if not w[6]]
        self.affine_words = [w for w in self.words if w[6] and w[0] == ""]
        self.affine_prefixed = [w for w in self.words if w[6] and w[0] != ""]


class QNum(G.Lit):
    pass


class Qty:
    prio = 100

    def __init__(self, s, terms):
        self.s, self.terms = s, terms  # terms: list of (word, power)

    def toks(self):
        return ["Q" + C.hexs(self.s) + ";" + terms_str(self.terms)]

    def first_char(self):
        return self.s[0]


class Cast:
    prio = 1

    def __init__(self, e, terms):
        self.e, self.terms = e, terms

    def toks(self):
        return ["T" + terms_str(self.terms)] + self.e.toks()

    def first_char(self):
        return self.e.first_char()


class Fact:
    prio = 100

    def __init__(self, phrase, value, unit):
        self.phrase, self.value, self.unit = phrase, value, unit

    def toks(self):
        return ["F" + C.hexs(self.phrase) + ";" + self.value + ";" + self.unit]

    def first_char(self):
        return self.phrase[0]


def terms_str(terms):
    if not terms:
        return "-"
    return ",".join(f"{C.hexs(w[0])}:{C.hexs(w[1])}:{p}" for w, p in terms)


def dims_of(terms):
    d = [0] * 8
    for w, p in terms:
        for i in range(8):
            d[i] += w[4][i] * p
    return tuple(d)


def rand_unit(v: Vocab, rng, maxterms=3, pool=None, powers=(-3, -2, -1, 1, 1, 1, 2, 3)):
    pool = pool or v.plain_words
    n = rng.range(1, maxterms)
    terms, used = [], set()
    for _ in range(n):
        w = rng.choice(pool)
        # one entry per unit key, and the same key never with two prefixes
        if w[2] in used:
            continue
        used.add(w[2])
        terms.append((w, rng.choice(powers)))
    return terms


def respell(v: Vocab, rng, terms):
    """Another spelling of the same dimension: swap each word for one of equal
    dimension, and maybe multiply by a cancelling pair X/Y with dims X = dims Y."""
    out, used = [], set()
    for w, p in terms:
        alts = [a for a in v.by_dims[w[4]] if not a[6] and a[2] not in used]
        if not alts:
            return None
        a = rng.choice(alts)
        used.add(a[2])
        out.append((a, p))
    if rng.chance(1, 2):
        dims = rng.choice([d for d in v.by_dims if len([x for x in v.by_dims[d] if not x[6]]) >= 2])
        cands = [x for x in v.by_dims[dims] if not x[6] and x[2] not in used]
        keys = sorted(set(x[2] for x in cands))
        if len(keys) >= 2:
            k1 = rng.choice(keys)
            k2 = rng.choice([k for k in keys if k != k1])
            a = rng.choice([x for x in cands if x[2] == k1])
            b = rng.choice([x for x in cands if x[2] == k2])
            q = rng.choice([1, 1, 2])
            out += [(a, q), (b, -q)]
    return out


def decompose(v: Vocab, rng, terms):
    """Spell the dimension of `terms` with base units only (random prefixes)."""
    d = dims_of(terms)
    out = []
    for i in range(8):
        if d[i]:
            unit_dims = tuple(1 if j == i else 0 for j in range(8))
            cands = [w for w in v.by_dims.get(unit_dims, []) if not w[6] and w[2] in
                     ("KiloGram", "Candela", "Meter", "Second", "Ampere", "Kelvin", "Mole", "Byte")]
            if not cands:
                return None
            out.append((rng.choice(cands), d[i]))
    return out or None


def layout_q(e, rng, style):
    out = []

    def blank(must=False):
        if style == "canon":
            return " "
        b = rng.choice(G.BLANKS)
        if must and b == "":
            b = " "
        return b

    def go(x):
        if isinstance(x, Qty):
            # a unit without numerator is written `1/…`: keep it apart from the value's digits
            out.append(blank(not any(p > 0 for _, p in x.terms)))
        elif isinstance(x, Cast):
            go(x.e)
            out.append(blank(True))
            out.append(blank(True))
        elif isinstance(x, G.Bin):
            go(x.a)
            # next to a unit an operator glued on would continue the unit expression
            out.append(blank(True))
            out.append(blank(True))
            go(x.b)
        elif isinstance(x, G.Paren):
            out.append(blank())
            go(x.e)
            out.append(blank())

    out.append("" if style == "canon" else rng.choice(G.BLANKS))
    go(e)
    out.append("" if style == "canon" else rng.choice(G.BLANKS))
    return out


def qexpr_line(e, layout):
    return "qexpr " + " ".join(e.toks()) + " | " + " ".join(C.hexs(b) for b in layout)


def small_value(rng):
    s = str(rng.range(0, 30))
    if rng.chance(1, 3):
        s += "." + str(rng.range(1, 99))
    if rng.chance(1, 6):
        s = "-" + s
    if rng.chance(1, 10):
        s += "e" + str(rng.range(-4, 4))
    return s
