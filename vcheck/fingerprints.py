"""Source fingerprints (DESIGN 6.3, light version): the files each property is anchored in,
hashed with comments and white space normalised, against the hashes recorded at the pinned
commit (pinned/source_hashes.json, written by tools/mkpinned.py). A changed file NEVER
alarms by itself: it is reported in the evidence ("model possibly stale for <file>") and
makes the check draw its random cases from three seeds instead of one."""
import hashlib
import json
import re

from . import common as C

PINNED = C.VERIF / "pinned" / "source_hashes.json"


def anchors():
    out = {}
    for l in (C.VERIF / "properties.jsonl").read_text().splitlines():
        if l.strip():
            j = json.loads(l)
            out[j["id"]] = j["anchors"]["files"]
    return out


def norm_hash(path):
    try:
        t = path.read_text(errors="replace")
    except Exception:
        return None
    if path.suffix == ".rs":
        t = re.sub(r"//[^\n]*", "", t)
        t = re.sub(r"/\*.*?\*/", "", t, flags=re.S)
    t = re.sub(r"\s+", " ", t)
    return hashlib.sha256(t.encode()).hexdigest()[:16]


def files_of(entry):
    p = C.REPO / entry
    if p.is_dir():
        return sorted(x for x in p.rglob("*") if x.is_file())
    return [p]


def current():
    seen = {}
    for pid, ents in anchors().items():
        for e in ents:
            for f in files_of(e):
                seen[str(f.relative_to(C.REPO))] = norm_hash(f)
    return seen


def stale_for(pid):
    """Files anchored by `pid` whose normalised text differs from the pinned commit's."""
    if not PINNED.exists():
        return []
    pinned = json.loads(PINNED.read_text())
    out = []
    for e in anchors().get(pid, []):
        for f in files_of(e):
            rel = str(f.relative_to(C.REPO))
            if pinned.get(rel) != norm_hash(f):
                out.append(rel)
    return out


if __name__ == "__main__":
    PINNED.write_text(json.dumps(current(), indent=1, sort_keys=True) + "\n")
    print(len(current()), "files hashed")
