"""Generator of expressions of the FULL query language as token lists with typed gaps, for the
layout-independence oracle of C06: numbers, percentages, quantities (also temperatures), fact
phrases, `+ - * / ^`, parentheses, casts and builtin calls, nested and mixed.

An expression is a list of (gap, token) pairs. A gap says what may stand BEFORE the token:
  "G"  glued (nothing may stand there),
  "B"  a blank is required (any kind, any number),
  "O"  a blank is optional (none, or any kind and number),
  "T"  like "O", around `*` and `/` when the operand before the operator does not end in a unit word.
Only positions where the presence of a blank provably does not matter are "O" (after `(`, before
`)`, around `,`, at both ends of the query); between an operand and an operator the blank that is
written stays (its presence decides e.g. whether `m*3` is one unit expression), only its kind and
number vary. Two renderings of one token list must therefore give the same result."""

BLANKS = [" ", "  ", "\t", " \t", " ", " ", "  ", "　 ", "   ", "\n", "\u000b", " \u0085", " "]

UNITS = ["m", "km", "s", "kg", "g", "N", "J", "W", "hr", "min", "ft", "in", "mi", "l", "Pa", "V", "A", "Hz", "mol", "B", "kB",
         "m/s", "km/hr", "m/s^2", "kg*m", "N*m", "1/s", "m^2", "cm^3", "kW*hr", "J/kg", "ms", "mm", "MW", "GB"]
TEMPS = ["K", "°C", "°F", "celsius", "fahrenheit", "kelvin", "mK", "m°C"]
PHRASES = ["mass earth", "mass sun", "radius moon", "speed of light", "pi", "population finland", "radius earth", "distance sun",
           "standard gravity g0", "mass moon"]
FUNCS = ["floor", "ceil", "round"]


def number(rng):
    k = rng.below(8)
    if k == 0:
        return str(rng.range(0, 9))
    if k == 1:
        return f"{rng.range(0, 99)}.{rng.range(0, 99)}"
    if k == 2:
        return f"{rng.range(1, 9)}e{rng.range(-3, 3)}"
    if k == 3:
        return f"0.{rng.range(1, 999)}"
    return str(rng.range(1, 60))


FAMILIES = {
    "length": (["m", "km", "ft", "in", "mi", "mm", "cm", "yd", "nmi", "au"], ["radius moon", "radius earth", "distance sun"]),
    "time": (["s", "hr", "min", "ms", "day", "week", "yr"], []),
    "mass": (["kg", "g", "lb", "t", "mg", "oz"], ["mass earth", "mass sun", "mass moon"]),
    "energy": (["J", "N*m", "kW*hr", "kJ", "eV", "W*s", "btu"], []),
    "speed": (["m/s", "km/hr", "mi/hr", "kn", "ft/s"], ["speed of light"]),
    "temperature": (TEMPS, []),
    "plain": ([], ["pi", "population finland"]),
}


def operand(rng, depth, fam=None):
    """-> list of (gap, token); the first gap is a placeholder set by the caller."""
    k = rng.below(12)
    if depth > 0 and k == 0:
        return [("X", "(")] + [("O", t) if i == 0 else (g, t) for i, (g, t) in enumerate(expr(rng, depth - 1, fam))] + [("O", ")")]
    if depth > 0 and k == 1:
        f = rng.choice(FUNCS)
        inner = expr(rng, depth - 1, fam)
        out = [("X", f), ("G", "(")] + [("O", t) if i == 0 else (g, t) for i, (g, t) in enumerate(inner)]
        if f == "round" and rng.chance(1, 2):
            out += [("O", ","), ("O", str(rng.range(-2, 4)))]
        return out + [("O", ")")]
    if k == 2:
        return [("X", number(rng)), ("G" if rng.chance(1, 2) else "B", "%")]
    if k in (3, 4):
        pool = FAMILIES[fam][1] if fam and FAMILIES[fam][1] and rng.chance(3, 4) else PHRASES
        ws = rng.choice(pool).split(" ")
        return [("X", ws[0])] + [("B", w) for w in ws[1:]]
    if k == 5:
        return [("X", number(rng)), ("B", rng.choice(TEMPS))]
    if k in (6, 7, 8):
        pool = FAMILIES[fam][0] if fam and FAMILIES[fam][0] and rng.chance(4, 5) else UNITS
        return [("X", number(rng)), ("B", rng.choice(pool))]
    return [("X", number(rng))]


def ends_in_unit(op):
    """Does this operand (as returned by `operand`) end in a unit word? (`<number> <unit>`)"""
    return len(op) == 2 and op[0][1][0].isdigit() and op[1][1] != "%"


def expr(rng, depth, fam=None):
    if fam is None or rng.chance(1, 6):
        fam = rng.choice(list(FAMILIES))
    out = operand(rng, depth, fam)
    last_is_unit = ends_in_unit(out)
    for _ in range(rng.choice([0, 1, 1, 2, 3])):
        op = rng.choice(["+", "-", "*", "/", "*", "/", "^", "to"])
        if op == "^":
            out += [("B", "^"), ("B", str(rng.range(0, 3)))]
            last_is_unit = False
        elif op == "to":
            pool = FAMILIES[fam][0] if FAMILIES[fam][0] and rng.chance(4, 5) else UNITS + TEMPS
            out += [("B", "to"), ("B", rng.choice(pool))]
            last_is_unit = True
        else:
            nxt = operand(rng, depth, fam if op in "+-" or rng.chance(1, 2) else None)
            # `*` and `/` may be written without blanks when the operand before them does not end in
            # a unit word (`pi*2`, `speed of light/7`, `(1)*2`, `50%*3`, `2*3`): gap "T"; after a
            # unit word the blank decides whether the operator belongs to the unit (`m*2`), so it stays
            g = "T" if op in "*/" and not last_is_unit else "B"
            out += [(g, op), (g, nxt[0][1])] + nxt[1:]
            last_is_unit = ends_in_unit(nxt)
    return out


def render(toks, rng):
    s = ""
    for i, (g, t) in enumerate(toks):
        if i == 0 or g == "O":
            s += rng.choice(BLANKS) if rng.chance(1, 2) else ""
        elif g == "B":
            s += rng.choice(BLANKS)
        elif g == "T":
            s += rng.choice(BLANKS) if rng.chance(1, 2) else ""
        s += t
    return s + (rng.choice(BLANKS) if rng.chance(1, 2) else "")


def canonical(toks):
    s = ""
    for i, (g, t) in enumerate(toks):
        if i and g in ("B", "T"):
            s += " "
        s += t
    return s
