"""Regenerate MANIFEST.json from the registry (run by hand after adding a check)."""
import json
from pathlib import Path

from . import registry

VERIF = Path(__file__).resolve().parent.parent
ALL = [f"C{n:02d}" for n in range(1, 20)]

LEVEL_TEXT = {}


def main():
    props = registry.props()
    checks = []
    for pid in ALL:
        if pid not in props:
            continue
        p = props[pid]()
        checks.append({
            "property_id": pid,
            "quick_cmd": f"./check {pid} --tier quick",
            "thorough_cmd": f"./check {pid} --tier thorough",
            "evidence_file": f"/verif/evidence/{pid}.json",
            "replay_cmd_template": f"./check {pid} --replay {{path}}",
            "engine": "lean4-proof+correspondence",
            "level_claimed": {
                "category": "proof",
                "text": p.level_text if hasattr(p, "level_text") else (p.__doc__ or "").strip(),
                "design_ref": f"DESIGN.md section 8, {pid}",
            },
            "level_note": "Trusted: Lean 4.33 kernel; axioms ⊆ {propext, Classical.choice, Quot.sound} (audited by #print axioms on every run); "
                          "the hand-written model is tied to /repo by the correspondence harness (sampling, measured) and the table translator; "
                          + "; ".join(p.trusted),
            "technique": p.technique,
        })
    na = []
    reasons = json.loads((VERIF / "vcheck" / "not_claimed.json").read_text())
    for pid in ALL:
        if pid not in props:
            na.append({"property_id": pid, "reason": reasons.get(pid, "check not built yet (work in progress; see DESIGN.md section 13 staging)")})
    m = {
        "version": 1,
        "setup_cmd": "./setup.sh",
        "hooks": {
            "guard": "--cfg anything_verif",
            "enable": "RUSTFLAGS='--cfg anything_verif' (set in /verif/harness/.cargo/config.toml; the harness crate has a path dependency on /repo)",
            "baseline_off_cmd": "cd /repo && cargo test --workspace --no-fail-fast --offline",
            "source_commits": json.loads((VERIF / "vcheck" / "hook_commits.json").read_text()),
            "add_only": True,
        },
        "engines": [{
            "name": "lean4-proof+correspondence",
            "path": "/verif/lean, /verif/harness, /verif/vcheck",
            "serves_properties": [c["property_id"] for c in checks],
            "kind_free_text": "Lean 4 theorems about a hand-written executable model + translator-regenerated tables; Rust harness runs the real code in-process; compiled Lean driver runs model and independent spec on the same lines",
        }],
        "checks": checks,
        "not_applicable": na,
        "notes": "See DESIGN.md. known_findings.jsonl lists recorded defects; seeded/ holds validated property-breaking changes.",
    }
    (VERIF / "MANIFEST.json").write_text(json.dumps(m, indent=1, ensure_ascii=False) + "\n")
    print(f"MANIFEST: {len(checks)} checks, {len(na)} not claimed")


if __name__ == "__main__":
    main()
