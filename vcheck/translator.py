"""Translator: regenerates lean/Anything/Generated/Tables.lean from /repo's
working tree on every run (DESIGN.md 6.1). Text patterns are narrow on purpose:
anything that no longer matches is an extraction failure, reported as a broken
obligation, never silently mis-read."""
import re

from . import common as C

OUT = C.LEAN / "Anything" / "Generated" / "Tables.lean"


class ExtractError(Exception):
    pass


def lean_chars(s: str) -> str:
    return "[" + ", ".join(f"Char.ofNat {ord(c)}" for c in s) + "]"


RUST_INT = r"(?:0x[0-9a-fA-F_]+|0o[0-7_]+|0b[01_]+|\d[\d_]*)(?:_?[ui](?:8|16|32|64|128|size))?"


def rust_int(tok: str) -> int:
    t = re.sub(r"_?[ui](?:8|16|32|64|128|size)$", "", tok).replace("_", "")
    return int(t, 0) if t[:2] in ("0x", "0o", "0b") else int(t)


def parse_enum(src: str, name: str):
    """The literals of a logos enum, in source order: [(variant, [literals])]. Only the
    `#[token("…")]` attributes are read; everything else about the generated file (the arms of
    `parse`, helper functions, their order and spelling) is obtained by EXECUTING `parse`."""
    m = re.search(r"enum\s+" + name + r"\s*\{(.*?)\n\}", src, re.S)
    if not m:
        raise ExtractError(f"enum {name} not found")
    body = re.sub(r"//[^\n]*", "", m.group(1))
    variants = []
    pos = 0
    item = re.compile(r'\s*((?:#\[[^\]]*\]\s*)*)(\w+)\s*(?:=\s*\d+\s*)?,', re.S)
    while True:
        mm = item.match(body, pos)
        if not mm:
            if body[pos:].strip():
                raise ExtractError(f"enum {name}: unexpected text {body[pos:pos + 60]!r}")
            break
        attrs, v = mm.group(1), mm.group(2)
        lits = re.findall(r'#\[token\(\s*"((?:[^"\\]|\\.)*)"[^\]]*\]', attrs)
        if "#[regex" in attrs:
            raise ExtractError(f"enum {name}: variant {v} uses a regex (not modelled)")
        variants.append((v, lits))
        pos = mm.end()
    return variants


def unit_key_lean(key: str) -> str:
    """harness unit key (`Meter`, `D<id>`) -> Lean UnitKey term."""
    if key.startswith("D") and key[1:].isdigit():
        return f".derived {key[1:]}"
    if key.isalpha():
        return f".base .{key}"
    raise ExtractError(f"unit key {key!r}")


def _uw(res):
    """`U NONE` -> None; `U <rest> <prefix> <key>` -> (rest, prefix, key)."""
    f = res.split(" ")
    if f[:2] == ["U", "NONE"]:
        return None
    if f[0] != "U" or len(f) != 4:
        raise ExtractError(f"unitw answered {res!r}")
    return int(f[1]), int(f[2]), f[3]


def _agree(cands):
    """The value at least two of the probes agree on (the probes are built by gluing literals,
    and a glued probe may happen to be lexed as another literal; two independent ones rule that out)."""
    for c in cands:
        if c is not None and sum(1 for d in cands if d == c) >= 2:
            return c
    return None


def extract(repo=C.REPO, harness=None):
    src = (repo / "src/generated/unit.rs").read_text()
    ids_src = (repo / "src/generated/ids.rs").read_text()
    prefix_src = (repo / "src/prefix.rs").read_text()
    harness = harness or C.harness_bin(False)

    # ids: constants and the id -> static map
    consts = {k: str(rust_int(v)) for k, v in re.findall(r"pub const (\w+): u32 = (" + RUST_INT + r");", ids_src)}
    idmap = {}
    for num, path in re.findall(r"^\s*(" + RUST_INT + r")\s*=>\s*Some\(\s*(?:crate::)?units::([\w:]+)\s*\),?", ids_src, re.M):
        if path in idmap:
            raise ExtractError(f"duplicate static {path}")
        idmap[path] = rust_int(num)
    if not idmap:
        raise ExtractError("id_to_derived arms not found")

    prefixes = {k: rust_int(v) if not v.startswith("-") else -rust_int(v[1:])
                for k, v in re.findall(r"pub const (\w+): i32 = (-?" + RUST_INT + r");", prefix_src)}

    combined = parse_enum(src, "Combined")
    units = parse_enum(src, "Units")

    # What `generated::unit::parse` DOES with each literal, by execution (harness `unitw`):
    #   a unit literal L:    parse(L#)  = (rest "#", bias, unit)           -> .unit key bias
    #   a prefix literal P:  parse(P#)  = None, parse(Pm) = (0, p, Meter), parse(Ps) = (0, p, Second), …
    #                        and parse(P) alone gives its stand-alone reading     -> .pfx p alone
    #   a separator S:       parse(Sm)  = (0, 0, Meter), parse(S) = None          -> .sep
    # and for the literals of the second lexer (`Units`, used after a prefix):
    #   parse(kiloL) = (0, 3 + bias, unit), likewise mega, giga                   -> .unit key bias
    TAILS = [("m", "Meter"), ("s", "Second"), ("K", "Kelvin")]
    HEADS = [("kilo", 3), ("mega", 6), ("giga", 9)]
    probes = []
    for v, lits in combined:
        for l in lits:
            probes += [l, l + "#"] + [l + t for t, _ in TAILS]
    for v, lits in units:
        for l in lits:
            probes += [h + l for h, _ in HEADS] + [h + l + "m" for h, _ in HEADS[:2]]
    rc, out, err = C.run_lines(harness, ["unitw " + C.hexs(p_) for p_ in probes], watchdog=10)
    if len(out) != len(probes):
        raise ExtractError(f"unitw answered {len(out)}/{len(probes)}: {err[-300:]}")
    it = iter(out)
    comb_rows, unit_rows = [], []
    for v, lits in combined:
        for l in lits:
            alone, hashed = _uw(next(it)), _uw(next(it))
            tails = [_uw(next(it)) for _ in TAILS]
            if hashed is not None:
                if hashed[0] != 1 or alone != (0, hashed[1], hashed[2]):
                    raise ExtractError(f"Combined literal {l!r}: parse alone {alone}, followed by '#' {hashed}")
                comb_rows.append((l, f".unit ({unit_key_lean(hashed[2])}) " + ("0" if hashed[1] == 0 else f"({hashed[1]})")))
                continue
            p_ = _agree([r[1] if r is not None and r[0] == 0 and r[2] == key else None for r, (_, key) in zip(tails, TAILS)])
            if p_ is None:
                raise ExtractError(f"Combined literal {l!r} ({v}): neither a unit nor a prefix: {tails}")
            if p_ == 0 and alone is None:
                comb_rows.append((l, ".sep"))
                continue
            if p_ not in prefixes.values():
                raise ExtractError(f"Combined literal {l!r}: power {p_} is no Prefix constant")
            if alone is not None and alone[0] != 0:
                raise ExtractError(f"Combined literal {l!r} alone leaves {alone[0]} bytes")
            a = "none" if alone is None else f"some ({unit_key_lean(alone[2])}, ({alone[1]}))"
            comb_rows.append((l, f".pfx ({p_}) ({a})"))
    for v, lits in units:
        for l in lits:
            heads = [_uw(next(it)) for _ in HEADS]
            seps = [_uw(next(it)) for _ in HEADS[:2]]
            got = _agree([(r[1] - hp, r[2]) if r is not None and r[0] == 0 else None for r, (_, hp) in zip(heads, HEADS)])
            if got is not None:
                unit_rows.append((l, f".unit ({unit_key_lean(got[1])}) ({got[0]})"))
            elif all(r is None for r in heads) and seps == [(0, 3, "Meter"), (0, 6, "Meter")]:
                unit_rows.append((l, ".sep"))
            else:
                raise ExtractError(f"Units literal {l!r} ({v}): {heads}")

    # unit definitions by execution
    ids = sorted(set(idmap.values()))
    rc, out, err = C.run_lines(harness, [f"unitinfo {i}" for i in ids])
    if len(out) != len(ids):
        raise ExtractError(f"unitinfo answered {len(out)}/{len(ids)}: {err[-300:]}")
    defs = []
    for i, line in zip(ids, out):
        f = line.split(" ")
        if f[0] != "I" or f[1] != str(i):
            raise ExtractError(f"unit id {i}: id_to_derived returned {line!r}")
        rows = {}
        conv = sing = plur = None
        for tok in f[2:]:
            k, _, v = tok.partition("=")
            if re.fullmatch(r"p-?\d+", k):
                if v.startswith("!"):
                    raise ExtractError(f"unit {i}: powers() says it is not derived")
                rows[int(k[1:])] = dict((a.split(":")[0], int(a.split(":")[1])) for a in v.split(",") if a)
            elif k == "conv":
                conv = v
            elif k == "sing":
                sing = C.unhex(v)
            elif k == "plur":
                plur = C.unhex(v)
        base = rows[1]
        for p, row in rows.items():
            exp = {k: c * p for k, c in base.items() if c * p != 0}
            if row != exp:
                raise ExtractError(f"unit {i}: powers({p}) = {row} is not {p} x powers(1) = {base}")
        order = ["KiloGram", "Candela", "Meter", "Second", "Ampere", "Kelvin", "Mole", "Byte"]
        dims = ", ".join(f"(.{b}, {base[b]})" for b in order if b in base)
        if conv == "none":
            cv = ".none"
        elif conv.startswith("factor:") or conv.startswith("offset:"):
            n, d = conv.split(":")[1].split("/")
            cv = f".{conv.split(':')[0]} {n} {d}"
        elif conv.startswith("methods:"):
            pr = dict(x.split("=") for x in conv.split(":", 1)[1].split(","))
            from fractions import Fraction as Fr
            t = [Fr(pr[f"to{k}"]) for k in range(3)]
            fr = [Fr(pr[f"from{k}"]) for k in range(3)]
            if t[2] - t[1] != t[1] - t[0] or fr[2] - fr[1] != fr[1] - fr[0]:
                raise ExtractError(f"unit {i}: conversion methods are not affine")
            tm, ta, fm, fa = t[1] - t[0], t[0], fr[1] - fr[0], fr[0]
            cv = ".methods " + " ".join(f"({x.numerator}) {x.denominator}" for x in (tm, ta, fm, fa))
        else:
            raise ExtractError(f"unit {i}: conversion {conv}")
        defs.append((i, dims, cv, sing, plur))

    pref_rows = sorted(set(prefixes.values()))
    lines = ["import Anything.Model.UnitTypes", "/-! GENERATED by vcheck/translator.py from /repo's working tree. Do not edit. -/", "",
             "namespace Anything.Generated", "open Anything", ""]
    lines.append("def units : List UnitDef := [")
    lines.append(",\n".join(
        f"  {{ id := {i}, dims := [{dims}], conv := {cv}, sing := {lean_chars(s)}, plur := {lean_chars(p)} }}"
        for i, dims, cv, s, p in defs))
    lines.append("]\n")
    lines.append("def combined : List (List Char × WordAction) := [")
    lines.append(",\n".join(f"  ({lean_chars(l)}, {a})" for l, a in comb_rows))
    lines.append("]\n")
    lines.append("def unitsOnly : List (List Char × WordAction) := [")
    lines.append(",\n".join(f"  ({lean_chars(l)}, {a})" for l, a in unit_rows))
    lines.append("]\n")
    lines.append("/-- `Prefix::*` constants as (name, power of ten). -/")
    lines.append("def prefixConsts : List (String × Int) := [")
    lines.append(",\n".join(f'  ("{k}", {v})' for k, v in sorted(prefixes.items(), key=lambda kv: kv[1])))
    lines.append("]\n")
    lines.append("/-- `ids.rs` constants. -/")
    lines.append("def idConsts : List (String × Nat) := [")
    lines.append(",\n".join(f'  ("{k}", {v})' for k, v in consts.items()))
    lines.append("]\n")
    lines.append("end Anything.Generated")
    meta = {"units": len(defs), "combined": len(comb_rows), "unitsOnly": len(unit_rows), "prefixes": len(prefixes),
            "names": sorted(set(l for l, _ in comb_rows) | set(l for l, _ in unit_rows)),
            "idmap": idmap}
    return "\n".join(lines) + "\n", meta


_META = None


def regenerate():
    """Returns (ok, detail)."""
    global _META
    try:
        text, meta = extract()
    except ExtractError as e:
        return False, f"extraction failed: {e}"
    except Exception as e:  # pragma: no cover
        return False, f"extraction crashed: {type(e).__name__}: {e}"
    _META = meta
    OUT.parent.mkdir(exist_ok=True)
    if not OUT.exists() or OUT.read_text() != text:
        OUT.write_text(text)
        changed = "rewritten"
    else:
        changed = "unchanged"
    return True, f"{meta['units']} units, {meta['combined']}+{meta['unitsOnly']} literals, {meta['prefixes']} prefixes ({changed})"


def meta():
    if _META is None:
        regenerate()
    return _META


if __name__ == "__main__":
    print(regenerate())
