"""Translator: regenerates lean/Anything/Generated/Tables.lean from /repo's
working tree on every run (DESIGN.md 6.1). Text patterns are narrow on purpose:
anything that no longer matches is an extraction failure, reported as a broken
obligation, never silently mis-read."""
import re

from . import common as C

OUT = C.LEAN / "Anything" / "Generated" / "Tables.lean"


class ExtractError(Exception):
    pass


def lean_chars(s: str) -> str:
    return "[" + ", ".join(f"Char.ofNat {ord(c)}" for c in s) + "]"


def parse_enum(src: str, name: str):
    m = re.search(r"enum " + name + r" \{(.*?)\n\}", src, re.S)
    if not m:
        raise ExtractError(f"enum {name} not found")
    variants = []  # (variant, [literals])
    lits = []
    for line in m.group(1).splitlines():
        line = line.strip()
        if not line or line.startswith("///"):
            continue
        t = re.fullmatch(r'#\[token\("((?:[^"\\]|\\.)*)"\)\]', line)
        if t:
            lits.append(t.group(1))
            continue
        v = re.fullmatch(r"(\w+),", line)
        if v:
            variants.append((v.group(1), lits))
            lits = []
            continue
        raise ExtractError(f"enum {name}: unexpected line {line!r}")
    return variants


def unit_expr_key(expr: str, idmap):
    expr = expr.strip().rstrip(",;")
    m = re.fullmatch(r"Unit::Derived\(units::([\w:]+)\)", expr)
    if m:
        path = m.group(1)
        if path not in idmap:
            raise ExtractError(f"no id for units::{path}")
        return f".derived {idmap[path]}"
    m = re.fullmatch(r"Unit::(\w+)", expr)
    if m:
        return f".base .{m.group(1)}"
    raise ExtractError(f"unit expression {expr!r}")


def extract(repo=C.REPO, harness=None):
    src = (repo / "src/generated/unit.rs").read_text()
    ids_src = (repo / "src/generated/ids.rs").read_text()
    prefix_src = (repo / "src/prefix.rs").read_text()

    # ids: constants and the id -> static map
    consts = dict(re.findall(r"pub const (\w+): u32 = (\d+);", ids_src))
    idmap = {}
    for num, path in re.findall(r"^\s*(\d+) => Some\(units::([\w:]+)\),", ids_src, re.M):
        if path in idmap:
            raise ExtractError(f"duplicate static {path}")
        idmap[path] = int(num)
    if not idmap:
        raise ExtractError("id_to_derived arms not found")

    prefixes = {k: int(v) for k, v in re.findall(r"pub const (\w+): i32 = (-?\d+);", prefix_src)}

    combined = parse_enum(src, "Combined")
    units = parse_enum(src, "Units")

    body = src[src.index("pub fn parse"):]
    first, second = body.split("let mut lexer = Units::lexer", 1)

    # Combined arms
    actions = {}
    for v, rhs in re.findall(r"Combined::(\w+) => (Unit::[\w:()]+),", first):
        actions[v] = f".unit ({unit_expr_key(rhs, idmap)}) 0"
    for v, blk in re.findall(r"Combined::(\w+) => \{(.*?)\n            \}", first, re.S):
        lines = [l.strip() for l in blk.strip().splitlines() if l.strip()]
        if lines == ["continue;"]:
            actions[v] = ".sep"
            continue
        m = re.fullmatch(r"prefix \+= (-?\d+);", lines[0])
        if m and len(lines) == 2 and lines[1].startswith("Unit::"):
            actions[v] = f".unit ({unit_expr_key(lines[1], idmap)}) ({m.group(1)})"
            continue
        alone = "none"
        alone_lit = None
        msl = re.fullmatch(r'if lexer\.remainder\(\)\.is_empty\(\) && lexer\.slice\(\) == "((?:[^"\\]|\\.)*)" \{', lines[0])
        if msl:
            alone_lit = msl.group(1)
            lines[0] = "if lexer.remainder().is_empty() {"
        if lines[0] == "if lexer.remainder().is_empty() {":
            j = lines.index("}")
            inner = lines[1:j]
            bias = 0
            if len(inner) == 2:
                mb = re.fullmatch(r"prefix \+= (-?\d+);", inner[0])
                if not mb:
                    raise ExtractError(f"Combined::{v}: {inner}")
                bias = int(mb.group(1))
                inner = inner[1:]
            mr = re.fullmatch(r'return Some\(\(\"\", prefix, (.*)\)\);', inner[0]) if len(inner) == 1 else None
            if not mr:
                raise ExtractError(f"Combined::{v}: special case {inner}")
            alone = f"some ({unit_expr_key(mr.group(1), idmap)}, ({bias}))"
            lines = lines[j + 1:]
        mp = re.fullmatch(r"prefix \+= Prefix::(\w+);", lines[0]) if len(lines) == 2 else None
        if not mp or lines[1] != "break;":
            raise ExtractError(f"Combined::{v}: unexpected block {lines}")
        if mp.group(1) not in prefixes:
            raise ExtractError(f"Prefix::{mp.group(1)} unknown")
        actions[v] = (f".pfx ({prefixes[mp.group(1)]}) ({alone})", alone_lit, f".pfx ({prefixes[mp.group(1)]}) (none)")
    uactions = {}
    for v, blk in re.findall(r"Units::(\w+) => \{(.*?)\n            \}", second, re.S):
        lines = [l.strip() for l in blk.strip().splitlines() if l.strip()]
        if lines == ["continue;"]:
            uactions[v] = ".sep"
            continue
        bias = 0
        if len(lines) == 2:
            mb = re.fullmatch(r"prefix \+= (-?\d+);", lines[0])
            if not mb:
                raise ExtractError(f"Units::{v}: {lines}")
            bias = int(mb.group(1))
            lines = lines[1:]
        mb = re.fullmatch(r"break (.*);", lines[0]) if len(lines) == 1 else None
        if not mb:
            raise ExtractError(f"Units::{v}: {lines}")
        uactions[v] = f".unit ({unit_expr_key(mb.group(1), idmap)}) ({bias})"

    comb_rows, unit_rows = [], []
    for v, lits in combined:
        if v not in actions:
            raise ExtractError(f"no arm for Combined::{v}")
        for l in lits:
            a = actions[v]
            if isinstance(a, tuple):
                # the stand-alone special case may be tied to one spelling (`lexer.slice() == "…"`)
                a = a[0] if (a[1] is None or a[1] == l) else a[2]
            comb_rows.append((l, a))
    for v, lits in units:
        if v not in uactions:
            raise ExtractError(f"no arm for Units::{v}")
        for l in lits:
            unit_rows.append((l, uactions[v]))

    # unit definitions by execution
    ids = sorted(set(idmap.values()))
    harness = harness or C.harness_bin(False)
    rc, out, err = C.run_lines(harness, [f"unitinfo {i}" for i in ids])
    if len(out) != len(ids):
        raise ExtractError(f"unitinfo answered {len(out)}/{len(ids)}: {err[-300:]}")
    defs = []
    for i, line in zip(ids, out):
        f = line.split(" ")
        if f[0] != "I" or f[1] != str(i):
            raise ExtractError(f"unit id {i}: id_to_derived returned {line!r}")
        rows = {}
        conv = sing = plur = None
        for tok in f[2:]:
            k, _, v = tok.partition("=")
            if re.fullmatch(r"p-?\d+", k):
                if v.startswith("!"):
                    raise ExtractError(f"unit {i}: powers() says it is not derived")
                rows[int(k[1:])] = dict((a.split(":")[0], int(a.split(":")[1])) for a in v.split(",") if a)
            elif k == "conv":
                conv = v
            elif k == "sing":
                sing = C.unhex(v)
            elif k == "plur":
                plur = C.unhex(v)
        base = rows[1]
        for p, row in rows.items():
            exp = {k: c * p for k, c in base.items() if c * p != 0}
            if row != exp:
                raise ExtractError(f"unit {i}: powers({p}) = {row} is not {p} x powers(1) = {base}")
        order = ["KiloGram", "Candela", "Meter", "Second", "Ampere", "Kelvin", "Mole", "Byte"]
        dims = ", ".join(f"(.{b}, {base[b]})" for b in order if b in base)
        if conv == "none":
            cv = ".none"
        elif conv.startswith("factor:") or conv.startswith("offset:"):
            n, d = conv.split(":")[1].split("/")
            cv = f".{conv.split(':')[0]} {n} {d}"
        elif conv.startswith("methods:"):
            pr = dict(x.split("=") for x in conv.split(":", 1)[1].split(","))
            from fractions import Fraction as Fr
            t = [Fr(pr[f"to{k}"]) for k in range(3)]
            fr = [Fr(pr[f"from{k}"]) for k in range(3)]
            if t[2] - t[1] != t[1] - t[0] or fr[2] - fr[1] != fr[1] - fr[0]:
                raise ExtractError(f"unit {i}: conversion methods are not affine")
            tm, ta, fm, fa = t[1] - t[0], t[0], fr[1] - fr[0], fr[0]
            cv = ".methods " + " ".join(f"({x.numerator}) {x.denominator}" for x in (tm, ta, fm, fa))
        else:
            raise ExtractError(f"unit {i}: conversion {conv}")
        defs.append((i, dims, cv, sing, plur))

    pref_rows = sorted(set(prefixes.values()))
    lines = ["import Anything.Model.UnitTypes", "/-! GENERATED by vcheck/translator.py from /repo's working tree. Do not edit. -/", "",
             "namespace Anything.Generated", "open Anything", ""]
    lines.append("def units : List UnitDef := [")
    lines.append(",\n".join(
        f"  {{ id := {i}, dims := [{dims}], conv := {cv}, sing := {lean_chars(s)}, plur := {lean_chars(p)} }}"
        for i, dims, cv, s, p in defs))
    lines.append("]\n")
    lines.append("def combined : List (List Char × WordAction) := [")
    lines.append(",\n".join(f"  ({lean_chars(l)}, {a})" for l, a in comb_rows))
    lines.append("]\n")
    lines.append("def unitsOnly : List (List Char × WordAction) := [")
    lines.append(",\n".join(f"  ({lean_chars(l)}, {a})" for l, a in unit_rows))
    lines.append("]\n")
    lines.append("/-- `Prefix::*` constants as (name, power of ten). -/")
    lines.append("def prefixConsts : List (String × Int) := [")
    lines.append(",\n".join(f'  ("{k}", {v})' for k, v in sorted(prefixes.items(), key=lambda kv: kv[1])))
    lines.append("]\n")
    lines.append("/-- `ids.rs` constants. -/")
    lines.append("def idConsts : List (String × Nat) := [")
    lines.append(",\n".join(f'  ("{k}", {v})' for k, v in consts.items()))
    lines.append("]\n")
    lines.append("end Anything.Generated")
    meta = {"units": len(defs), "combined": len(comb_rows), "unitsOnly": len(unit_rows), "prefixes": len(prefixes),
            "names": sorted(set(l for l, _ in comb_rows) | set(l for l, _ in unit_rows)),
            "idmap": idmap}
    return "\n".join(lines) + "\n", meta


_META = None


def regenerate():
    """Returns (ok, detail)."""
    global _META
    try:
        text, meta = extract()
    except ExtractError as e:
        return False, f"extraction failed: {e}"
    except Exception as e:  # pragma: no cover
        return False, f"extraction crashed: {type(e).__name__}: {e}"
    _META = meta
    OUT.parent.mkdir(exist_ok=True)
    if not OUT.exists() or OUT.read_text() != text:
        OUT.write_text(text)
        changed = "rewritten"
    else:
        changed = "unchanged"
    return True, f"{meta['units']} units, {meta['combined']}+{meta['unitsOnly']} literals, {meta['prefixes']} prefixes ({changed})"


def meta():
    if _META is None:
        regenerate()
    return _META


if __name__ == "__main__":
    print(regenerate())
