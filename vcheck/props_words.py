"""C05 (unit words and tables) and C11 (robustness)."""
import itertools

from . import common as C
from . import exprgen as G
from . import qgen as Q
from .engine import Case, Prop


class C05(Prop):
    """Theorems (Props/C05.lean): prefix literals = SI prefixes; every unit literal outside the pinned deviations has the reference row's dimensions and an admissible exact scale; for any word an accepted parse is a concatenation of table literals read with the table's meaning; every typeable name alone is its unit; unit expressions: `*`/blank neutral, `/` inverts what follows, `^n` applies to the unit it follows (accepted UNIT node = its specification reading). Correspondence: every name x every prefix spelling, two-name concatenations, corrupted names, random and mixed-prefix unit expressions, reference-driven sweep of dimensions and scales."""
    id = "C05"
    module = "Anything.Props.C05"
    needs_tables = True
    trusted = ["Spec.UnitRef (reference values and their sources) is human input", "logos 0.13 (modelled as longest-literal match; its deviations are recorded findings)"]

    def extra_obligations(self, ctx):
        rc, out, err = C.run_lines(C.driver_bin(), ["refcheck"])
        self._dev = []
        obs = []
        bad = []
        seen = set()
        for rec in out[0][2:].split(";"):
            h, _, v = rec.partition("=")
            name = C.unhex(h)
            if v != "OK" and name not in seen:
                seen.add(name)
                bad.append((name, v))
        self._bad_rows = bad
        return [("translator output parsed by refcheck", bool(out and out[0].startswith("F ")), "")]

    generic_groups = True

    def observable(self, line):
        return "C ERR" if line.startswith("C ERR") else line

    def group_observable(self, line):
        # spellings of one unit expression differ in length: compare values and units, not error spans
        if line.startswith("C ERR"):
            return "C ERR"
        if line.startswith("R "):
            return " | ".join("ERR" if it.startswith("ERR") else it for it in line[2:].split(" | "))
        return line

    def nontrivial(self, case, impl):
        return impl.startswith("C ") and not impl.startswith("C ERR")

    def prepare(self, cases, impl_lines):
        req = ["readings " + c.line.split(" ")[1] for c in cases if c.tag.startswith("word")]
        rc, out, err = C.run_lines(C.driver_bin(), req, timeout=1800)
        it = iter(out)
        self._readings = {}
        for c in cases:
            if c.tag.startswith("word"):
                self._readings[id(c)] = next(it)
        words = [c.text for c in cases if c.tag.startswith("word")]
        self._logos = self._logos_class(sorted(set(words)))

    def finding_key(self, case, impl, reason):
        if case.tag.startswith("word"):
            return "class:logos-backtracking" if case.text in self._logos else ("word:" + case.text)
        if case.tag == "refsweep":
            return "unit:" + case.expect[1]
        if case.tag in ("tight-number-unit", "unitexpr-query"):
            return "tight:" + case.text
        return "unitexpr:" + case.text

    def corr_excused(self, case, impl, model):
        return case.tag.startswith("word") and case.text in self._logos

    def _logos_class(self, words):
        """Words during whose parse the real logos lexer departs from longest-literal
        matching: at some step `generated::unit::parse` (harness `unitw`) and the
        longest-match model disagree on the remaining input."""
        member = set()
        rest = {w: w for w in words}
        for _ in range(8):
            active = [w for w in rest if rest[w]]
            if not active:
                break
            lines = ["unitw " + C.hexs(rest[w]) for w in active]
            rc, a, err = C.run_lines(C.harness_bin(False), lines, watchdog=10)
            b = C.run_driver(lines)
            for w, x, y in zip(active, a, b):
                if x != y:
                    member.add(w)
                    rest[w] = ""
                elif x.startswith("U NONE"):
                    rest[w] = ""
                else:
                    n = int(x.split(" ")[1])
                    r = rest[w].encode("utf-8")
                    rest[w] = r[len(r) - n:].decode("utf-8", "replace") if n else ""
        return member

    def spec_verdict(self, case, impl, spec):
        if impl.startswith("PANIC"):
            return "panic"
        if case.tag.startswith("word"):
            r = self._readings.get(id(case), "G NONE")
            valid = r.split(" ")[1:]
            if impl.startswith("C ERR"):
                if case.tag == "word-name":
                    return f"documented unit name {case.text!r} is not accepted on its own"
                return None
            got = impl.split(" ")[1]
            if got not in valid:
                return f"{case.text!r} read as {got}, valid readings: {valid}"
            if case.tag == "word-name" and case.expect is not None and got != case.expect:
                return f"unit name {case.text!r} read as {got}, expected {case.expect}"
            return None
        if isinstance(case.expect, tuple) and case.expect[0] == "TIGHT":
            from fractions import Fraction
            f = Fraction(case.expect[1])
            want = f"R OK {f.numerator}/{f.denominator} {case.expect[2]}"
            return None if impl == want else f"`{case.text}` (a magnitude in front of the unit expression) answered {impl[:80]}, expected {want}"
        if isinstance(case.expect, tuple) and case.expect[0] == "REF":
            from . import refsweep as R
            return R.verdict(impl, case.expect[2])
        if isinstance(case.expect, tuple) and case.expect[0] == "MIXED":
            if impl.startswith("C ERR"):
                return None  # refusing two prefixes on one unit is admissible
            from fractions import Fraction
            scale, dims = Fraction(1), [0] * 8
            got = impl.split(" ")[1]
            for ent in ([] if got == "-" else got.split(",")):
                k, pw, pf = ent.rsplit(":", 2)
                if int(pw) == 0:
                    return f"unit expression {case.text!r} accepted as {got}: it keeps the unit {k} with power zero (units that cancel must disappear, or the result is not the dimensionless unit)"
                rec = self._bykey.get(k)
                if rec is None:
                    return f"unit expression read as {got}: unknown unit {k}"
                scale *= (Fraction(10) ** int(pf) * rec[4]) ** int(pw)
                for i in range(8):
                    dims[i] += rec[3][i] * int(pw)
            if tuple(dims) != case.expect[2] or scale != case.expect[1]:
                return (f"unit expression {case.text!r} accepted as {got} (scale {scale}, dims {tuple(dims)}), "
                        f"but it denotes scale {case.expect[1]}, dims {case.expect[2]}")
            return None
        if case.expect is not None:
            if impl.startswith("C ERR"):
                return f"unit expression rejected, expected {case.expect}"
            got = impl.split(" ")[1]
            return None if got == case.expect else f"unit expression read as {got}, expected {case.expect}"
        return None

    def cases(self, rng, tier):
        out = self._cases(rng, tier)
        # the same unit expressions behind a magnitude, as a QUERY (`5 1/s`, `5 km/h`): every fourth
        # one, and every one that starts with a number (`1/…`)
        qtw = []
        k = 0
        for c in out:
            if c.tag in ("unitexpr", "unitexpr-fixed") and isinstance(c.expect, str):
                k += 1
                if k % 4 == 0 or (c.text or "")[:1].isdigit():
                    c2 = Case("query " + C.hexs("5 " + c.text), "unitexpr-query", "5 " + c.text)
                    c2.expect = ("TIGHT", "5", c.expect)
                    qtw.append(c2)
        out += qtw
        # `**` is the other spelling of `^`, in unit expressions too (`m**2`): every third case
        # that writes a power gets a twin with that spelling and the same expectation
        twins = []
        k = 0
        for c in out:
            if "^" in (c.text or "") and c.tag in ("unitexpr", "unitexpr-mixed", "unitexpr-fixed", "refsweep"):
                k += 1
                if k % 3 == 0:
                    t2 = c.text.replace("^", "**")
                    cmd = c.line.split(" ")[0]
                    c2 = Case(cmd + " " + C.hexs(t2), c.tag, t2)
                    c2.expect = c.expect
                    twins.append(c2)
        out += twins
        # only words that can be typed as one query word (the lexer's word characters)
        def typeable(c):
            if not c.tag.startswith("word"):
                return True
            return all(("a" <= ch <= "z") or ("A" <= ch <= "Z") or ("0" <= ch <= "9") or ch in "°'" for ch in c.text) \
                and not ("0" <= c.text[:1] <= "9") and c.text != "to" and c.text != ""
        return [c for c in out if typeable(c)]

    def _cases(self, rng, tier):
        v = Q.Vocab()
        out = []
        names = sorted(set(n[0] for n in v.names))
        nm = {n[0]: n for n in v.names}
        # every documented name alone (typeable as a query word: word characters only)
        for n in names:
            word_chars = all(ch.isalnum() and ch.isascii() or ch in "°'" for ch in n)
            rec = nm[n]
            exp = f"{rec[1]}:1:{rec[2]}"
            out.append(Case("unit " + C.hexs(n), "word-name" if word_chars else "word", n, expect=exp))
        # every prefix spelling x every name
        for p in v.prefixes:
            for n in names:
                out.append(Case("unit " + C.hexs(p[0] + n), "word-prefixed", p[0] + n))
        # two-name concatenations (sampled in the quick tier)
        pairs = list(itertools.product(names, names))
        step = 23 if tier == "quick" else 1
        for a, b in pairs[::step]:
            out.append(Case("unit " + C.hexs(a + b), "word-two-names", a + b))
        # three and four names written together (the word parser is called once per piece and
        # carries its position from call to call)
        short = [n for n in names if len(n) <= 3 and n.isascii() and n.isalpha()]
        trip = 4000 if tier == "quick" else 60000
        for _ in range(trip):
            k = 3 if rng.chance(3, 4) else 4
            w = "".join(rng.choice(short if rng.chance(4, 5) else names) for _ in range(k))
            out.append(Case("unit " + C.hexs(w), "word-three-names", w))
        for a in ("s", "A", "K", "J", "kg", "m", "N", "W", "mol"):
            for b in ("s", "A", "K", "kg", "m"):
                for c in ("s", "A", "K", "kg", "m", "g"):
                    out.append(Case("unit " + C.hexs(a + b + c), "word-three-names", a + b + c))
        # a name followed by a PREFIXED name and the other way round, written together (`mkg`, `kgm`,
        # `hkW`, `Nmkg`): the piece after the first must not be lost
        psym = [p[0] for p in v.prefixes if len(p[0]) <= 2]
        for _ in range(6000 if tier == "quick" else 80000):
            a, b = rng.choice(short), rng.choice(short if rng.chance(3, 4) else names)
            k = rng.below(4)
            w = (a + rng.choice(psym) + b) if k == 0 else (rng.choice(psym) + a + b) if k == 1 else \
                (a + rng.choice(psym) + b + rng.choice(short)) if k == 2 else (rng.choice(short) + a + rng.choice(psym) + b)
            out.append(Case("unit " + C.hexs(w), "word-name-prefixed", w))
        for a in ("m", "h", "y", "M", "a", "T", "c", "N", "s", "g"):
            for pb in ("kg", "kN", "kW", "nF", "dag", "dm", "GW", "EB", "Pm", "ZB", "Ys", "zs", "fm", "pF", "ns"):
                out.append(Case("unit " + C.hexs(a + pb), "word-name-prefixed", a + pb))
                out.append(Case("unit " + C.hexs("N" + a + pb), "word-name-prefixed", "N" + a + pb))
        # single-edit corruptions of names (reject stream)
        for n in names[:: 2 if tier == "quick" else 1]:
            for k in range(len(n)):
                out.append(Case("unit " + C.hexs(n[:k] + n[k + 1:]), "word-corrupt", n[:k] + n[k + 1:]))
                out.append(Case("unit " + C.hexs(n[:k] + "q" + n[k:]), "word-corrupt", n[:k] + "q" + n[k:]))
        # unit expressions: rendering of random term lists, expected canonical from the spec
        items = []
        for _ in range(1500 if tier == "quick" else 30000):
            terms = Q.rand_unit(v, rng, 4)
            items.append(terms)
        lines = [Q.qexpr_line(Q.Qty("1", t), [" "]) for t in items]
        rc, res, err = C.run_lines(C.driver_bin(), lines)
        for t, o in zip(items, res):
            f = o.split(" ")
            text = C.unhex(f[1]).strip()[1:].strip()  # drop the leading value `1`
            if f[2] == "OK" and f[5] != "?":
                out.append(Case("unit " + C.hexs(text), "unitexpr", text, expect=f[5]))
        # the same expressions with the blanks moved around: one-sided blanks next to `*` and `/`
        # (`kg* m`, `m /s`), and blank RUNS that mix ASCII blanks with other Unicode blanks in
        # either order (the lexer must make one token of a run). Judged against the model.
        ops_alt = {"*": ["* ", "*", " *", " * "], "/": ["/ ", "/", " /", " / "],
                   " ": [" \u000b", "\u00a0 ", " \u0085", "\t\u2003 ", "  ", "\u000b\t", " \u3000 ", " "]}
        # A blank AFTER `*` or `/` and any run of blanks where one blank stood keep the reading the
        # property prescribes ("juxtaposition, `*` and spaces multiply, `/` inverts everything after
        # it"): those variants carry the specification's expectation. A blank BEFORE an operator
        # ends the unit expression in the tool (`3 m * 2 s` is a product of two quantities), so
        # those variants are judged against the model only.
        safe_alt = {"*": 2, "/": 2, " ": len(ops_alt[" "])}
        base = [c for c in out if c.tag == "unitexpr"]

        def variant(text):
            safe, t2 = True, ""
            for ch in text:
                if ch in ops_alt:
                    k = rng.below(len(ops_alt[ch])) if rng.chance(1, 3) else rng.below(safe_alt[ch])
                    safe = safe and k < safe_alt[ch]
                    t2 += ops_alt[ch][k]
                else:
                    t2 += ch
            return t2, safe

        for c in base[:: 2 if tier == "quick" else 1]:
            if not any(ch in c.text for ch in "*/ "):
                continue
            for _ in range(2):
                t2, safe = variant(c.text)
                if t2 == c.text:
                    continue
                out.append(Case("unit " + C.hexs(t2), "unitexpr-layout", t2, expect=c.expect if safe else None))
                if rng.chance(1, 2):
                    c2 = Case("query " + C.hexs("3 " + t2), "unitexpr-layout-query", "3 " + t2)
                    if safe:
                        c2.expect = ("TIGHT", "3", c.expect)
                    out.append(c2)
        for t2, exp in (("kg* m", "KiloGram:1:0,Meter:1:0"), ("kg *m", None), ("m/ s", "Meter:1:0,Second:-1:0"), ("m /s", None), ("m / s", None),
                        ("N* m", None), ("kg* m/ s^2", "KiloGram:1:0,Meter:1:0,Second:-2:0"), ("kg m/ s^2", "KiloGram:1:0,Meter:1:0,Second:-2:0"),
                        ("m \u000bs", "Meter:1:0,Second:1:0"), ("m\u00a0 s", "Meter:1:0,Second:1:0"), ("newton \u000bsecond", None),
                        ("m^ 2", None), ("m ^2", None), ("m ^ 2", None), ("m* s* kg", "KiloGram:1:0,Meter:1:0,Second:1:0"),
                        ("m/ s/ kg", None), ("1/ s", "Second:-1:0"), ("1 /s", None)):
            out.append(Case("unit " + C.hexs(t2), "unitexpr-layout", t2, expect=exp))
            c2 = Case("query " + C.hexs("3 " + t2), "unitexpr-layout-query", "3 " + t2)
            if exp and not t2[0].isdigit():
                c2.expect = ("TIGHT", "3", exp)
            out.append(c2)
            out.append(Case("query " + C.hexs("3 m to " + t2), "unitexpr-layout-query", "3 m to " + t2))
        # a literal `1` inside a unit expression is a neutral factor (`m/s 1/kg` reads like `m/s/kg`)
        from . import extragen as X
        out += X.one_inside_unit(rng, tier)
        # the same unit twice with different prefixes (a Compound holds one prefix per unit, so
        # the tool may refuse; if it accepts, the reading must keep the power of ten between them)
        from fractions import Fraction
        bykey = {}
        for n in v.names:
            bykey.setdefault(n[1], n)
        self._bykey = bykey
        simple = [w for w in v.plain_words if w[0] == "" and w[1].isascii() and w[1].isalpha()]
        pref = [w for w in v.plain_words if w[0] != "" and w[1].isascii() and w[1].isalpha()]
        by_name = {}
        for w in pref:
            by_name.setdefault(w[1], []).append(w)
        forms = [(1, -1, "{a}/{b}"), (1, -3, "{a}/{b}^3"), (2, -2, "{a}^2/{b}^2"), (1, -1, "{a}*{b}^-1"), (-1, 1, "1/{a}*{b}"),
                 (1, -1, "{a} s/{b}"), (2, -1, "{a}^2/{b}"), (1, 1, "{a}*{b}")]
        # the same unit (same prefix) twice with powers that cancel or add up, incl. the redundant ^1
        same_forms = [(1, -1, "{a}/{a}^1"), (-1, 1, "{a}^-1*{a}^1"), (1, -2, "{a}/{a}^2"), (1, -1, "{a}*{a}^-1"), (2, -2, "{a}^2/{a}^2"),
                      (1, -1, "{a} {a}^-1"), (1, 1, "{a}*{a}^1"), (1, -1, "{a}/{a}"), (2, -1, "{a}^2/{a}^1"), (1, 0, "{a}*{a}^0"),
                      (1, -1, "s {a}/{a}^1")]
        for w0 in simple[:: 4 if tier == "quick" else 1] + pref[:: 40 if tier == "quick" else 3]:
            for (pa, pb, form) in same_forms:
                text = form.format(a=w0[0] + w0[1])
                scale = (Fraction(10) ** w0[3] * w0[5]) ** (pa + pb)
                dims = [x * (pa + pb) for x in w0[4]]
                if form.startswith("s "):   # the form itself puts a second in front
                    if w0[1] == "s" and w0[0] == "":
                        continue            # `s s/s^1`: the extra unit is the same unit
                    dims[3] += 1
                c = Case("unit " + C.hexs(text), "unitexpr-mixed", text)
                c.expect = ("MIXED", scale, tuple(dims))
                out.append(c)
        picks = simple[:: 5 if tier == "quick" else 1]
        for w0 in picks:
            alts = by_name.get(w0[1], [])
            if not alts:
                continue
            for w1 in [alts[0], alts[-1]] + ([rng.choice(alts)] if len(alts) > 2 else []):
                for (pa, pb, form) in forms:
                    for (a, b) in ((w0, w1), (w1, w0)):
                        text = form.format(a=a[0] + a[1], b=b[0] + b[1])
                        extra_s = " s/" in text
                        scale = (Fraction(10) ** a[3] * a[5]) ** pa * (Fraction(10) ** b[3] * b[5]) ** pb
                        dims = [x * (pa + pb) for x in a[4]]
                        if extra_s:
                            dims[3] += 1
                        c = Case("unit " + C.hexs(text), "unitexpr-mixed", text)
                        c.expect = ("MIXED", scale, tuple(dims))
                        out.append(c)
        # a number glued to the unit word (`2EB`, `5km`): the same quantity as with a blank
        for w in v.words[:: 2 if tier == "quick" else 1]:
            word = w[0] + w[1]
            if not all(ch.isascii() and ch.isalpha() for ch in word) or word == "to":
                continue
            for num in ("2", "1.5"):
                c = Case("query " + C.hexs(num + word), "tight-number-unit", num + word)
                c.expect = ("TIGHT", num, f"{w[2]}:1:{w[3]}")
                out.append(c)
        # reference-driven sweep (dimensions AND scale of every reference name at several powers)
        from . import refsweep as R
        for text, name, pw, exp in R.sweep():
            c = Case("query " + C.hexs(text), "refsweep", text)
            c.expect = ("REF", name, exp)
            out.append(c)
        # hand-written expression forms from the property text
        for text, exp in [("m s", "Meter:1:0,Second:1:0"), ("m*s", "Meter:1:0,Second:1:0"), ("ms", None),
                          ("m/s", "Meter:1:0,Second:-1:0"), ("m/s*kg", "KiloGram:-1:0,Meter:1:0,Second:-1:0"),
                          ("m/s kg", "KiloGram:-1:0,Meter:1:0,Second:-1:0"), ("m^2", "Meter:2:0"), ("m*m^2", "Meter:3:0"),
                          ("m/m^2", "Meter:-1:0"), ("m^0", "-"), ("km^2/s^3", "Meter:2:3,Second:-3:0"),
                          ("1/s", "Second:-1:0"), ("m^-2", "Meter:-2:0"), ("m/s^-2", "Meter:1:0,Second:2:0")]:
            if exp is not None:
                out.append(Case("unit " + C.hexs(text), "unitexpr-fixed", text, expect=exp))
        return out

    def scenarios(self, rng, tier):
        # table rows against the reference: deviations are spec failures keyed by the unit name
        fails = []
        for name, v in getattr(self, "_bad_rows", []):
            fails.append((f"unit:{name}", name, f"unit name {name!r}: {v} (no admissible reading in the reference table)"))
        return {"evaluations": 513, "nontrivial": 513 - len(fails), "spec_fail": fails, "dist": {"table-rows": 513}}


SOUP = ["1", "2", "0", "10", "99", "1.5", "-3", "+4", "1e3", "2e-3", "9e999", "1e-999", ".5", "5.", "%", " ", "  ", "\t", "+", "-",
        "*", "/", "^", "**", "(", ")", ",", "{", "}", "to", "m", "km", "s", "kg", "N", "J", "°C", "°F", "K", "ft", "mi", "dal",
        "foo", "round", "floor", "ceil", "sin", "cos", "population", "finland", "mass", "earth", "x1", "'", "é", "→", " ",
        " ", "　", "\u0085", "e", "E", "_", "=", "\n", "1/0", "0^-1", "m^99", "m^-99", "s^2"]


import re as _re

_EXP_TOO_LONG = _re.compile(r"[eE][+-]?[0-9]{4,}")
_POW_TOO_LONG = _re.compile(r"(\^|\*\*)\s*[+-]?[0-9]{3,}")
_POW_SCIENTIFIC = _re.compile(r"(\^|\*\*)\s*[+-]?[0-9.]*[eE][+-]?[0-9]")


def within_bound(s):
    """The property's input class: literal exponents of at most 3 digits, powers of at
    most 2 digits (juxtaposed tokens can glue into longer ones: `m^99` + `10`, `^2` + `E10`)."""
    return not _EXP_TOO_LONG.search(s) and not _POW_TOO_LONG.search(s) and not _POW_SCIENTIFIC.search(s)


class C11(Prop):
    """Theorems (Props/C11.lean): every string parses; no result is a panic (fuel never runs out, the round assertion and the `Compound::new` zero-power assertion are unreachable for table units); every error range lies inside the input on token (character) boundaries. Correspondence and direct oracle in the debug-assertion and the release build: token soups kept inside the stated bound, every string of up to three symbols over a mixed one-/multi-byte alphabet, degree words, compounding unit powers, raw Unicode."""
    id = "C11"
    module = "Anything.Props.C11"
    release = True
    needs_tables = True
    watchdog_s = 20
    timeout_is_violation = True
    trusted = ["memory exhaustion and stack depth are runtime behaviour outside the model; generators cap power towers at two levels"]

    def observable(self, line):
        # what C11 observes: how many results, which of them are values and which are errors
        # (never the values themselves: those are other properties' business)
        line = line[len("release:"):] if line.startswith("release:") else line
        items = line[2:].split(" | ") if line.startswith("R ") else [line]
        return " | ".join("ERR" if it.startswith("ERR") else ("OK" if it.startswith("OK") else it) for it in items)

    def nontrivial(self, case, impl):
        return impl.startswith("R ") and len(impl) > 4

    def corr_excused(self, case, impl, model):
        # `sin` / `cos` go through f64 and are outside the model; the direct oracle (no panic,
        # located errors) still judges the implementation on these inputs
        return "UNSUPPORTED" in model

    def spec_verdict(self, case, impl, spec):
        impl = impl[len("release:"):] if impl.startswith("release:") else impl
        if impl.startswith("PANIC") or impl.startswith("ABORT"):
            return "panic: " + impl[:100]
        if impl == "TIMEOUT":
            return "did not terminate within the time limit"
        if impl.startswith("R TREEERR"):
            return "parser failed to build a tree: " + impl
        if not impl.startswith("R"):
            return None
        src = case.text.encode("utf-8")
        bounds = set()
        p = 0
        for ch in case.text:
            bounds.add(p)
            p += len(ch.encode("utf-8"))
        bounds.add(p)
        for it in impl[2:].split(" | "):
            f = it.split(" ")
            if f[0] == "ERR":
                s, e = int(f[2]), int(f[3])
                if not (0 <= s <= e <= len(src)):
                    return f"error range {s}..{e} outside the input (length {len(src)})"
                if s not in bounds or e not in bounds:
                    return f"error range {s}..{e} not on character boundaries"
        return None

    def cases(self, rng, tier):
        out = []
        n = 6000 if tier == "quick" else 120000
        for _ in range(n):
            k = rng.range(1, 40) if rng.chance(1, 3) else rng.range(1, 10)
            toks, pows = [], 0
            for _ in range(k):
                t = rng.choice(SOUP)
                if t in ("^", "**", "0^-1", "m^99", "m^-99"):
                    pows += 1
                    if pows > 2:
                        continue
                if t in ("9e999", "1e-999") and pows:
                    continue
                toks.append(t)
            s = "".join(toks)
            if ("9e999" in s or "1e-999" in s) and ("^" in s or "**" in s):
                continue  # 10^999 raised to a power: astronomically large, outside the bound
            if not within_bound(s):
                continue  # gluing tokens produced an exponent of > 3 digits or a power of > 2 digits
            out.append(Case("query " + C.hexs(s), "soup", s))
        # every string of up to three symbols over an alphabet that mixes one- and multi-byte
        # characters with every token class (slicing by byte offsets goes wrong only when a
        # multi-byte character sits at a particular distance from a token boundary)
        alpha = ["1", "a", "t", "o", "C", "°", " ", "+", "-", "*", "/", "^", "(", ")", ",", ".", "e", "%", "{", "}", "m", "K", "é", "\u2003", "'"]
        import itertools as _it
        for k in (1, 2, 3):
            for tup in _it.product(alpha, repeat=k):
                s = "".join(tup)
                if within_bound(s):
                    out.append(Case("query " + C.hexs(s), f"short-{k}", s))
        # unit powers compounded by repeated `^k` (two-digit k): the stored i32 power runs through
        # every magnitude up to and beyond the i32 range within a handful of tokens
        ks = ["2", "3", "4", "8", "16", "32", "64", "99", "-2", "-1", "-64"]
        # (magnitude one throughout: compounding the exponents of a magnitude other than one
        # asks for a number with millions of digits, which is cost, not termination)
        for base in ("1m", "1m^-1", "1m^2", "1m^-2", "1 km^3", "1s^-2", "1m^-2*s"):
            for depth in range(1, 7):
                for _ in range(12 if tier == "quick" else 200):
                    t = base + "".join(" ^" + rng.choice(ks) for _ in range(depth))
                    if within_bound(t):
                        out.append(Case("query " + C.hexs(t), "power-chain", t))
            for k in ("2", "4", "8", "16", "32", "64"):
                for depth in range(1, 8):
                    t = base + (" ^" + k) * depth
                    out.append(Case("query " + C.hexs(t), "power-chain", t))
        # every builtin (and a name that is none) called with every odd argument list: nothing, blanks,
        # brace escapes (which parse to loose tokens, not arguments), stray commas, operators, units,
        # unbalanced groups — alone and inside an expression
        args = ["", " ", "{}", "{ }", "{}, {}", "{},1", "1,{}", "{1}", "{a}", "1 {}", "{} 1", "()", "(,)", ",", "1,", ",1", ",,", "1,,2",
                "1,2", "1,2,3", "1,2,3,4", "%", "to", "to m", "m", "1 m", "1 m, 2", "1, 2 m", "-", "^", "*", "1 +", "+ 1", "(1", "1)",
                "floor()", "round({})", "1/0", "1/0, 2", "2, 1/0", "nosuchfact", "pi", "1e999", "0^-1", "  1  ,  2  ", "1\u00a0,\u00a02", "°", "é"]
        for f in ("floor", "ceil", "round", "sin", "cos", "trunc", "f", "to", "m"):
            for a in args:
                for t in (f"{f}({a})", f"1 + {f}({a})", f"{f}({a}) * 2 m", f"({f}({a}))", f"{f}({a}) {f}({a})"):
                    if within_bound(t):
                        out.append(Case("query " + C.hexs(t), "odd-calls", t))
        for w in ("C°", "t°", "a°", "to°", "°to", "t°o", "m°", "K°"):
            for pre in ("", "1 ", "20 ", "1m to ", "(", "1 + "):
                for post in ("", " ", " b", ")", " * 3", "^2"):
                    out.append(Case("query " + C.hexs(pre + w + post), "degree-words", pre + w + post))
        for _ in range(n // 4):
            k = rng.range(1, 30)
            s = "".join(chr(rng.choice([rng.range(32, 126), rng.range(0xA0, 0x2FF), rng.range(0x2000, 0x206F), rng.range(0x3000, 0x303F), rng.range(0x1F600, 0x1F64F)])) for _ in range(k))
            out.append(Case("query " + C.hexs(s), "unicode", s))
        return out
