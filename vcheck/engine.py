"""Generic pipeline of one property check (DESIGN.md section 7)."""
import json
import os
import sys
import time

from . import common as C


class Case:
    __slots__ = ("line", "tag", "text", "expect", "group")

    def __init__(self, line, tag="", text=None, expect=None):
        self.line = line  # protocol line sent to harness and driver
        self.tag = tag  # generator stratum, for the input distribution
        self.text = text  # human-readable form of the input
        self.expect = expect  # spec expectation computed beforehand (optional)
        self.group = None  # cases of one group must answer alike (metamorphic oracles)


class Prop:
    """Base class; subclasses describe one property."""

    id = "C00"
    module = None  # Lean module with the property theorems
    theorem_prefix = None  # defaults to id + "_"
    needs_tables = False
    release = False  # also run the correspondence on a release build
    technique = "Lean 4 proof + model/implementation correspondence"
    watchdog_s = 10
    timeout_is_violation = False
    trusted = []
    min_theorems = 1

    def cases(self, rng, tier):
        raise NotImplementedError

    def corpus(self):
        d = C.VERIF / "corpus" / self.id
        out = []
        if d.exists():
            for f in sorted(d.glob("*.json")):
                j = json.loads(f.read_text())
                out.append(Case(j["line"], "corpus", j.get("text")))
        return out

    # --- comparison hooks -------------------------------------------------
    def observable(self, line):
        """Projection of an output line onto what the property observes."""
        return line

    def spec_verdict(self, case, impl, spec):
        """None if the spec accepts the implementation's output, else a reason.
        `spec` is the driver's spec field ('-' = spec silent on this input)."""
        if spec == "-" or spec is None:
            return None
        return None if self.observable(impl) == self.observable(spec) else f"expected {spec}"

    def nontrivial(self, case, impl):
        return "ERR" not in impl

    def scenarios(self, rng, tier):
        """Scenario-style exploration that does not fit the line protocol. Returns a dict
        {evaluations, nontrivial, spec_fail: [(key, text, detail)], corr_fail: [(text, impl, model)],
         dist: {...}, samples: [...]} or None."""
        return None

    def pre_build(self):
        """Extra builds from the working tree; returns obligations."""
        return []

    def corr_excused(self, case, impl, model):
        """A model/implementation disagreement that is fully explained by a recorded
        finding (the model is of the intended dependency behaviour there)."""
        return False

    def prepare(self, cases, impl_lines):
        """Called once with all implementation outputs before the verdicts."""

    def finding_key(self, case, impl, reason):
        """Key under which a spec failure may be listed in known_findings.jsonl."""
        return case.text if case.text is not None else case.line

    def extra_obligations(self, ctx):
        """Additional machine-checked obligations (e.g. table extraction). Returns
        list of (name, ok, detail)."""
        return []


def main_for(prop: Prop, argv=None):
    import argparse

    ap = argparse.ArgumentParser()
    ap.add_argument("--tier", default=os.environ.get("VERIF_TIER", "quick"))
    ap.add_argument("--replay")
    a = ap.parse_args(argv)
    tier = a.tier if a.tier in ("quick", "thorough") else "quick"
    seed = int(os.environ.get("VERIF_SEED", "1") or "1")
    sys.exit(run_check(prop, tier, seed, a.replay))


def run_check(prop: Prop, tier, seed, replay=None):
    t0 = time.time()
    pid = prop.id
    prefix = prop.theorem_prefix or (pid + "_")
    notes = []
    obligations = []  # (name, ok, detail)
    violations = []  # dicts
    known_hits = []

    # 1. harness against the working tree
    ok, log = C.build_harness(False)
    if not ok:
        print(f"check {pid}: cannot build harness against {C.REPO} (hooks on)\n{log}", file=sys.stderr)
        obligations.append(("harness-build", False, log[-600:]))
    if prop.release:
        okr, logr = C.build_harness(True)
        if not okr:
            obligations.append(("harness-build-release", False, logr[-600:]))

    obligations.extend(prop.pre_build())

    # 2. translator
    ctx = {"tier": tier, "seed": seed}
    if prop.needs_tables and ok:
        from . import translator

        tok, tdetail = translator.regenerate()
        obligations.append(("translator: tables regenerated from /repo", tok, tdetail))

    if getattr(prop, "needs_db_tables", False) and ok:
        from . import translator_db

        tok, tdetail = translator_db.regenerate()
        obligations.append(("translator: shipped facts and db.rs knobs regenerated from /repo", tok, tdetail))

    if getattr(prop, "needs_knobs", False):
        from . import translator_knobs

        kparts = prop.needs_knobs if isinstance(prop.needs_knobs, (list, tuple)) else ("op", "builtins", "cli", "default")
        tok, tdetail = translator_knobs.regenerate(kparts)
        obligations.append(("translator: operator table, builtin names, display specifications regenerated from /repo", tok, tdetail))

    # 3. Lean: theorems + driver
    extra_mods = list(getattr(prop, "extra_modules", []))
    targets = ["driver"] + ([prop.module] if prop.module else []) + extra_mods
    lok, llog = C.build_lean(targets)
    theorems = C.theorems_of(prop.module, prefix) if prop.module else []
    axioms = {}
    if lok and theorems:
        axioms, atext = C.audit_axioms(prop.module, theorems)
    for em in extra_mods:
        et = C.theorems_of(em, prefix)
        theorems += et
        if lok and et:
            ax2, _ = C.audit_axioms(em, et)
            axioms.update(ax2)
    for t in theorems:
        ax = axioms.get(t)
        good = lok and ax is not None and set(ax) <= C.ALLOWED_AXIOMS
        obligations.append((t, good, "axioms: " + (", ".join(ax) if ax is not None else "not elaborated")))
    if prop.module and not lok:
        obligations.append((f"lake build {prop.module}", False, llog[-1500:]))
    if len(theorems) < prop.min_theorems:
        obligations.append(("theorem inventory", False, f"{len(theorems)} < {prop.min_theorems} property theorems found"))
    if tier == "thorough" and prop.module and lok:
        # independent re-check of the compiled property module by the toolchain's checker
        with C.Lock("lake"):
            rc_, out_, err_ = C.run(["lake", "env", "leanchecker", prop.module], cwd=C.LEAN, timeout=3600)
        obligations.append((f"leanchecker {prop.module}", rc_ == 0, (out_ + err_)[-400:]))
    bad = C.forbidden_hits(prop.module) if prop.module else []
    for em in getattr(prop, "extra_modules", []):
        bad += C.forbidden_hits(em)
    obligations.append(("no sorry/admit/axiom/native_decide in import closure", not bad, "; ".join(bad[:5])))
    obligations.extend(prop.extra_obligations(ctx))

    # 4. correspondence + 5. spec verdicts
    rng = C.SplitMix64(seed)
    if replay:
        rj = json.loads(open(replay).read())
        cases = [Case(x["line"], "replay", x.get("text")) for x in rj.get("cases", [])]
    else:
        try:
            cases = prop.corpus() + prop.cases(rng, tier)
            from . import fingerprints
            stale = fingerprints.stale_for(pid)
            if stale:
                # the code this property is anchored in changed since the pinned commit: the model
                # may be stale there; draw the random cases from two further seeds as well
                notes.append("stale fingerprints: " + ", ".join(stale))
                have = {c.line for c in cases}
                for extra_seed in (seed + 1, seed + 2):
                    for c in prop.cases(C.SplitMix64(extra_seed), tier):
                        if c.line not in have:
                            have.add(c.line)
                            cases.append(c)
        except Exception as e:  # the machinery itself must never be the reason for a non-zero exit
            import traceback
            obligations.append(("case generation ran", False, traceback.format_exc()[-900:]))
            cases = []
    lines = [c.line for c in cases]
    impl, model = [], []
    corr_fail = []
    spec_fail = []
    dist = {}
    seen = set()
    groups = {}
    nontriv = 0
    timeouts = 0
    model_timeouts = 0
    if ok and os.path.exists(C.driver_bin()) and cases:
        dbl = C.db_lines_for(lines)
        rc1, impl, err1 = C.run_lines(C.harness_bin(False), dbl + lines, watchdog=prop.watchdog_s)
        drv = C.run_driver(lines, header=dbl)
        rc2, err2 = 0, ""
        impl = impl[len(dbl):]
        if len(impl) != len(lines):
            obligations.append(("harness answered every case", False, f"{len(impl)}/{len(lines)} rc={rc1} {err1[-300:]}"))
        if len(drv) != len(lines):
            obligations.append(("driver answered every case", False, f"{len(drv)}/{len(lines)} rc={rc2} {err2[-300:]}"))
        n = min(len(impl), len(drv), len(lines))
        try:
            prop.prepare(cases[:n], impl[:n])
        except Exception as e:
            import traceback
            obligations.append(("oracle preparation ran", False, traceback.format_exc()[-900:]))
        for i in range(n):
            c = cases[i]
            parts = drv[i].split("\t")
            m = parts[0]
            s = parts[1] if len(parts) > 1 else "-"
            model.append(m)
            dist[c.tag] = dist.get(c.tag, 0) + 1
            if impl[i] == "TIMEOUT" and not prop.timeout_is_violation:
                timeouts += 1
                continue
            if m == "MODEL-TIMEOUT":
                model_timeouts += 1
                reason = prop.spec_verdict(c, impl[i], s)
                if reason:
                    spec_fail.append((i, c, impl[i], m, s, reason))
                continue
            if prop.observable(impl[i]) != prop.observable(m) and not prop.corr_excused(c, impl[i], m):
                corr_fail.append((i, c, impl[i], m, s))
            reason = prop.spec_verdict(c, impl[i], s)
            if not reason and c.group is not None and getattr(prop, "generic_groups", False):
                # metamorphic oracle: all cases of one group must answer alike
                gobs = getattr(prop, "group_observable", prop.observable)
                first = groups.setdefault(c.group, (c, gobs(impl[i])))
                if first[1] != gobs(impl[i]):
                    reason = (f"two spellings of one expression answer differently: {first[0].text!r} -> {first[1][:90]}, "
                              f"{c.text!r} -> {gobs(impl[i])[:90]}")
            if reason:
                spec_fail.append((i, c, impl[i], m, s, reason))
            if c.line not in seen:
                seen.add(c.line)
                if prop.nontrivial(c, impl[i]):
                    nontriv += 1
        if prop.release and os.path.exists(C.harness_bin(True)):
            rc3, impl_r, err3 = C.run_lines(C.harness_bin(True), dbl + lines, watchdog=prop.watchdog_s)
            impl_r = impl_r[len(dbl):]
            for i in range(min(len(impl_r), n)):
                if prop.observable(impl_r[i]) != prop.observable(model[i]) and not prop.corr_excused(cases[i], impl_r[i], model[i]):
                    corr_fail.append((i, cases[i], "release:" + impl_r[i], model[i], "-"))
                parts = drv[i].split("\t")
                s = parts[1] if len(parts) > 1 else "-"
                reason = prop.spec_verdict(cases[i], impl_r[i], s)
                if reason:
                    spec_fail.append((i, cases[i], "release:" + impl_r[i], model[i], s, reason))

    scen = None
    if ok and os.path.exists(C.driver_bin()):
        try:
            scen = prop.scenarios(C.SplitMix64(seed).fork("scenarios"), tier)
        except Exception as e:
            import traceback
            obligations.append(("scenarios ran", False, traceback.format_exc()[-900:]))
    if scen:
        for k, v in scen.get("dist", {}).items():
            dist[k] = dist.get(k, 0) + v
        nontriv += scen.get("nontrivial", 0)
        for (text, im, mo) in scen.get("corr_fail", []):
            corr_fail.append((-1, Case("scenario", "scenario", text), im, mo, "-"))
        for (key, text, detail) in scen.get("spec_fail", []):
            c = Case("scenario", "scenario", text)
            c.expect = key
            spec_fail.append((-1, c, detail, "-", "-", detail))

    # 6. verdict
    findings = [f for f in C.load_known_findings() if f.get("property") == pid and f.get("kind", "finding") == "finding"]
    fkeys = {f["key"]: f for f in findings}
    exit_code = 0
    out_lines = []
    unlisted = []
    for (i, c, im, m, s, reason) in spec_fail:
        key = c.expect if c.line == "scenario" else prop.finding_key(c, im, reason)
        if key in fkeys:
            known_hits.append(key)
        else:
            unlisted.append((i, c, im, m, s, reason))
    for key in sorted(set(known_hits)):
        out_lines.append(f"KNOWN-FINDING: property={pid} {fkeys[key].get('what', key)}")
    if unlisted:
        i, c, im, m, s, reason = unlisted[0]
        p = C.write_replay(pid, {
            "property": pid, "kind": "spec-failure", "seed": seed, "tier": tier,
            "cases": [{"line": x[1].line, "text": x[1].text, "implementation": x[2], "model": x[3], "spec": x[4], "reason": x[5]} for x in unlisted[:20]],
            "how_to_rerun": f"./check {pid} --replay <this file>",
        })
        out_lines.append(f"VIOLATION property={pid} replay={p}")
        exit_code = 1
    broken = [o for o in obligations if not o[1]]
    if exit_code == 0 and (broken or corr_fail):
        # theorem or correspondence no longer checks, and no concrete spec failure was found
        p = C.write_replay(pid, {
            "property": pid,
            "kind": "broken-theorem" if broken else "broken-correspondence",
            "broken_obligations": [{"name": o[0], "detail": o[2]} for o in broken],
            "disagreements": [{"line": x[1].line, "text": x[1].text, "implementation": x[2], "model": x[3]} for x in corr_fail[:20]],
            "cases": [{"line": x[1].line, "text": x[1].text} for x in corr_fail[:20]],
            "seed": seed, "tier": tier,
            "note": "the model/theorems no longer match the code and no input was found on which the independent specification rejects the implementation",
        })
        out_lines.append(f"VIOLATION property={pid} replay={p} no-failing-input-found")
        exit_code = 1

    wall = time.time() - t0
    samples = [{"input": (c.text if c.text is not None else c.line), "implementation": impl[i] if i < len(impl) else None}
               for i, c in list(enumerate(cases))[:: max(1, len(cases) // 6)][:6]]
    samples += (scen or {}).get("samples", [])[:6]
    ev = {
        "property_id": pid,
        "tier": tier,
        "seed": seed,
        "level": "proof",
        "coverage": {
            "obligations": len(obligations),
            "discharged": len([o for o in obligations if o[1]]),
            "checker_cmd": f"cd lean && lake build {prop.module} driver && lake env lean Audit/{pid}.lean  (#print axioms)",
            "trusted_base": ["Lean 4.33 kernel", "axioms ⊆ {propext, Classical.choice, Quot.sound}",
                             "correspondence harness + Python comparator (vcheck/)", "Lean compiler for the driver"] + list(prop.trusted),
            "theorems": [{"name": o[0], "ok": o[1], "detail": o[2]} for o in obligations],
            "evaluations": len(cases) + (scen or {}).get("evaluations", 0),
            "distinct_nontrivial": nontriv,
            "rule": "distinct protocol lines whose implementation output is not an error" ,
            "disagreements_checked": len(corr_fail),
            "spec_failures": len(spec_fail),
            "known_findings_hit": sorted(set(known_hits)),
            "input_distribution": dist,
            "timeouts_discarded": timeouts,
            "model_timeouts": model_timeouts,
            "samples": samples,
            "traces_validated_against_impl": len(model),
            "stale_fingerprints": [x for x in notes if x.startswith("stale fingerprints")],
        },
        "assumptions": list(prop.trusted),
        "wall_s": round(wall, 2),
        "violations": len(unlisted) + (1 if (exit_code == 1 and not unlisted) else 0),
    }
    C.write_evidence(pid, ev)
    for l in out_lines:
        print(l)
    print(f"check {pid} tier={tier} seed={seed}: obligations {ev['coverage']['discharged']}/{ev['coverage']['obligations']}, "
          f"cases {len(cases)}, model/impl disagreements {len(corr_fail)}, spec failures {len(spec_fail)} "
          f"(known {len(set(known_hits))}), {wall:.1f}s -> exit {exit_code}")
    return exit_code
