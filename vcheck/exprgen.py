"""Generator of numeric expressions (Spec.Arith.NExpr) with layouts."""
from . import common as C

PRIO = {"+": 2, "-": 2, "*": 3, "/": 3, "^": 10}


class Lit:
    def __init__(self, s):
        self.s = s
    prio = 100

    def toks(self):
        return ["L" + C.hexs(self.s)]

    def first_char(self):
        return self.s[0]


class Bin:
    def __init__(self, op, a, b):
        self.op, self.a, self.b = op, a, b

    @property
    def prio(self):
        return PRIO[self.op]

    def toks(self):
        return ["B" + self.op] + self.a.toks() + self.b.toks()

    def first_char(self):
        return self.a.first_char()


class Paren:
    prio = 100

    def __init__(self, e):
        self.e = e

    def toks(self):
        return ["P"] + self.e.toks()

    def first_char(self):
        return "("


class Call:
    prio = 100

    def __init__(self, f, args):
        self.f, self.args = f, args

    def toks(self):
        t = ["C" + self.f[0] + str(len(self.args))]
        for a in self.args:
            t += a.toks()
        return t

    def first_char(self):
        return self.f[0]


def mk_bin(op, a, b):
    """Left-associative grammar: parenthesise children that would not re-parse."""
    if a.prio < PRIO[op]:
        a = Paren(a)
    if b.prio <= PRIO[op]:
        b = Paren(b)
    return Bin(op, a, b)


def rand_literal(rng, small=False, allow_neg=True, allow_pct=True):
    if small or rng.chance(3, 5):
        s = str(rng.range(0, 12))
        if rng.chance(1, 4):
            s += "." + str(rng.range(0, 99))
    else:
        il = rng.choice([0, 1, 2, 3, 8, 30])
        fl = rng.choice([0, 0, 1, 2, 5, 20])
        if il == 0 and fl == 0:
            il = 1
        s = "".join(str(rng.below(10)) for _ in range(il))
        if fl or rng.chance(1, 6):
            s += "." + "".join(str(rng.below(10)) for _ in range(fl))
        if rng.chance(1, 4):
            s += rng.choice("eE") + rng.choice(["", "+", "-"]) + str(rng.range(0, 30))
    if allow_neg and rng.chance(1, 6):
        s = rng.choice("-+") + s
    if allow_pct and rng.chance(1, 12):
        s += "%"
    return Lit(s)


def rand_expr(rng, depth, ops="+-*/^", calls=False):
    if depth <= 0 or rng.chance(1, 4):
        return rand_literal(rng)
    r = rng.below(10)
    if calls and r == 0:
        f = rng.choice(["round", "floor", "ceil"])
        n = 1 if f != "round" or rng.chance(1, 2) else 2
        args = [rand_expr(rng, depth - 1, ops, calls)]
        if n == 2:
            args.append(Lit(str(rng.range(-6, 6))))
        return Call(f, args)
    if r == 1:
        return Paren(rand_expr(rng, depth - 1, ops, calls))
    op = rng.choice(ops)
    a = rand_expr(rng, depth - 1, ops, calls)
    if op == "^":
        # integer exponents in -6..6 (property: integer exponent), sometimes an expression
        b = Lit(str(rng.range(-6, 6))) if rng.chance(4, 5) else Paren(Bin("-", Lit(str(rng.range(0, 4))), Lit(str(rng.range(0, 4)))))
    else:
        b = rand_expr(rng, depth - 1, ops, calls)
    return mk_bin(op, a, b)


BLANKS = ["", " ", "  ", "\t", " \t ", "   "]


def layout_for(e, rng, style):
    """Blank strings in render order, honouring the property's layout rules."""
    out = []

    def blank(must=False):
        if style == "canon":
            return " "
        if style == "tight":
            return " " if must else ""
        b = rng.choice(BLANKS)
        if must and b == "":
            b = " "
        return b

    def go(x):
        if isinstance(x, Lit):
            if x.s.endswith("%"):
                out.append(blank())
        elif isinstance(x, Bin):
            go(x.a)
            out.append(blank())
            # a sign glued to digits is a signed literal: keep a blank after binary + / -
            must = x.op in "+-" and (x.b.first_char() in "0123456789.+-")
            out.append(blank(must))
            go(x.b)
        elif isinstance(x, Paren):
            out.append(blank())
            go(x.e)
            out.append(blank())
        elif isinstance(x, Call):
            out.append(blank())
            for i, a in enumerate(x.args):
                if i:
                    out.append(blank())
                    out.append(blank())
                go(a)
            out.append(blank())

    lead = "" if style in ("canon", "tight") else rng.choice(BLANKS)
    out.append(lead)
    go(e)
    out.append("" if style in ("canon", "tight") else rng.choice(BLANKS))
    return out


def expr_line(e, layout):
    return "expr " + " ".join(e.toks()) + " | " + " ".join(C.hexs(b) for b in layout)


def all_shapes(nops, ops):
    """All binary tree shapes with `nops` operators drawn from ops, with explicit
    parenthesisation where the shape is not the left-assoc precedence parse."""
    import itertools

    def shapes(n):
        if n == 0:
            yield None
            return
        for k in range(n):
            for l in shapes(k):
                for r in shapes(n - 1 - k):
                    yield (l, r)

    for sh in shapes(nops):
        for seq in itertools.product(ops, repeat=nops):
            it = iter(seq)
            cnt = [0]

            def build(s):
                if s is None:
                    cnt[0] += 1
                    return Lit(str(cnt[0] + 1))
                l = build(s[0])
                op = next(it)
                r = build(s[1])
                return mk_bin(op, l, r)

            # in-order operator assignment
            def build_inorder(s):
                if s is None:
                    cnt[0] += 1
                    return Lit(str(cnt[0] + 1))
                l = build_inorder(s[0])
                op = next(it)
                r = build_inorder(s[1])
                return mk_bin(op, l, r)

            e = build_inorder(sh)
            if _tower(e):
                continue  # power towers are astronomically large: outside every bound
            yield e


def _tower(e):
    """True if some `^` has a non-literal exponent (a power tower or computed exponent)."""
    if isinstance(e, Bin):
        if e.op == "^" and not isinstance(e.b, Lit):
            return True
        return _tower(e.a) or _tower(e.b)
    if isinstance(e, Paren):
        return _tower(e.e)
    if isinstance(e, Call):
        return any(_tower(a) for a in e.args)
    return False
