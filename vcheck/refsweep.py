"""Reference-driven sweep: queries built from the HUMAN reference table (Spec.UnitRef, via the
driver's `refdump`) only — independent of the tables extracted from the source. For every
reference name and every power p the quantity `1 name^p` is converted to the base-SI spelling
of p times the reference dimensions; the answer must be accepted and equal scale^p for an
admissible scale. A table row (dimensions or factor) that departs from the reference, or a
`powers` closure that is not linear in the power, then fails on a concrete query."""
from fractions import Fraction

from . import common as C

BASE_WORDS = ["kg", "cd", "m", "s", "A", "K", "mol", "B"]


def rows():
    rc, out, err = C.run_lines(C.driver_bin(), ["refdump"])
    res = []
    for rec in out[0][2:].split(";"):
        h, dims, scales, sd = rec.split("=")
        name = C.unhex(h)
        res.append((name, tuple(int(x) for x in dims.split(",")), [Fraction(x) for x in scales.split("|")], sd == "1"))
    return res


def base_spelling(dims):
    num = [f"{w}" + (f"^{d}" if d != 1 else "") for w, d in zip(BASE_WORDS, dims) if d > 0]
    den = [f"{w}" + (f"^{-d}" if d != -1 else "") for w, d in zip(BASE_WORDS, dims) if d < 0]
    s = "*".join(num) if num else "1"
    if den:
        s += "/" + "*".join(den)
    return s


def typeable(name):
    return name != "to" and all(ch.isascii() and ch.isalpha() for ch in name)


def sweep(powers=(1, -1, 2, -2, 3), affine=("°C", "°F", "celsius", "fahrenheit")):
    """-> list of (query text, name, power, expected values [Fraction])"""
    out = []
    for name, dims, scales, sd in rows():
        if not typeable(name) or name in affine or not any(dims):
            continue
        for p in powers:
            d = tuple(x * p for x in dims)
            unit = name if p == 1 else f"{name}^{p}"
            out.append((f"1 {unit} to {base_spelling(d)}", name, p, [s ** p for s in scales]))
    return out


def verdict(impl, expected):
    """None if the implementation's answer line is `R OK v <base units>` with v admissible."""
    items = impl[2:].split(" | ") if impl.startswith("R ") else [impl]
    if len(items) != 1 or not items[0].startswith("OK "):
        return f"refused or not a single value: {impl[:100]}"
    v = Fraction(items[0].split(" ")[1])
    if v not in expected:
        return f"value {v} is not an admissible reading (expected one of {[str(e) for e in expected]})"
    return None


def known_deviations():
    """Names whose table row is a recorded C05 finding (their scale is knowingly not the
    reference's): other properties' reference-driven sweeps leave them out."""
    return {f["key"][5:] for f in C.load_known_findings()
            if f.get("property") == "C05" and f.get("kind", "finding") == "finding" and f.get("key", "").startswith("unit:")}


def pair_sweep(a=3, b=7):
    """-> (text, expected values) for `a u * b v to <base>` in both orders, one name per reference row."""
    skip = known_deviations()
    reps = []
    for name, dims, scales, sd in rows():
        if typeable(name) and name not in skip and any(dims) and name not in ("celsius", "fahrenheit"):
            if not any(r[1] == dims and r[2] == scales for r in reps):
                reps.append((name, dims, scales))
    out = []
    for i in range(len(reps)):
        for j in range(i + 1, len(reps)):
            (n1, d1, s1), (n2, d2, s2) = reps[i], reps[j]
            d = tuple(x + y for x, y in zip(d1, d2))
            if not any(d):
                continue
            exp = [a * b * x * y for x in s1 for y in s2]
            tgt = base_spelling(d)
            out.append((f"{a} {n1} * {b} {n2} to {tgt}", exp))
            out.append((f"{b} {n2} * {a} {n1} to {tgt}", exp))
    return out
