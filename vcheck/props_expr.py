"""C01 (exact arithmetic) and C06 (precedence, grouping, blanks)."""
from . import common as C
from . import exprgen as G
from .engine import Case, Prop


def expr_cases(items, tag_of=None, starstar=False):
    """items: list of (expr, layout, tag). Renders through the spec (driver `expr`)
    and returns `query` cases carrying the spec's expected value."""
    lines = [G.expr_line(e, l) for e, l, _ in items]
    rc, out, err = C.run_lines(C.driver_bin(), lines, timeout=1800)
    cases = []
    for (e, l, tag), o in zip(items, out):
        f = o.split(" ")
        if f[0] != "E" or len(f) < 4 or f[1] == "BAD":
            raise RuntimeError(f"spec could not render {o!r}")
        if f[3] != "1":
            raise RuntimeError(f"generator produced a non-WF expression: {C.unhex(f[1])!r}")
        cases.append(Case("query " + f[1], tag, C.unhex(f[1]), expect=f[2]))
        text = C.unhex(f[1])
        if starstar and "^" in text and len(cases) % 3 == 0:
            # `**` is the other spelling of the power operator (token STARSTAR, same OP_POWER)
            t2 = text.replace("^", "**")
            cases.append(Case("query " + C.hexs(t2), tag + "-starstar", t2, expect=f[2]))
    return cases


def flat_value(vals, ops):
    """Value of v0 o1 v1 o2 v2 … with `*` binding tighter than `+` and `-`, left to right
    (Python's own `eval` cannot compile expressions of thousands of operands)."""
    total, sign, term = 0, 1, vals[0]
    for o, v_ in zip(ops, vals[1:]):
        if o == "*":
            term *= v_
        else:
            total += sign * term
            sign = 1 if o == "+" else -1
            term = v_
    return total + sign * term


class ExprProp(Prop):
    def observable(self, line):
        # values and units are compared exactly; for errors only "is an error"
        # (kind and span are diagnostics, DESIGN.md 6.2)
        items = line[2:].split(" | ") if line.startswith("R ") else [line]
        return " | ".join("ERR" if it.startswith("ERR") else it for it in items)

    def spec_verdict(self, case, impl, spec):
        if case.expect is None:
            return None
        if impl.startswith("PANIC") or impl.startswith("ABORT"):
            return "panic"
        items = impl[2:].split(" | ") if impl.startswith("R ") else [impl]
        if len(items) != 1:
            return f"expected one result, got {len(items)}"
        if case.expect == "ERR":
            return None if items[0].startswith("ERR") else "expected an error, got a number"
        want = f"OK {case.expect} -"
        return None if items[0] == want else f"expected {want}"

    def nontrivial(self, case, impl):
        return " OK " in impl


class C06(ExprProp):
    """Theorems (Props/C06.lean): for every well-formed expression and every admissible layout of blanks the parser model yields a tree that represents it (`C06_parse_render`, any length, nesting, calls), the evaluator returns its denotation (`C06_query`), layouts do not matter, parentheses work anywhere. Correspondence: all operator sequences up to five with every parenthesisation and layout (also with the `**` spelling of power), random deeper expressions; results and tree shapes compared. Full language (Props/FullQuery.lean): `C06_query_full` — two admissible layouts of the same expression of the FULL language (units, facts, casts, nested calls, percent, temperatures) give the same result and log. Layout oracle on the full language (vcheck/mixgen.py): every generated expression under several layouts of blanks must answer alike; blanks inside fact phrases; long chains of operands and calls."""
    id = "C06"
    needs_knobs = ("op",)
    module = "Anything.Props.C06"
    extra_modules = ["Anything.Props.FullQuery"]
    trusted = ["Spec.Arith (precedence table, WF, renderer) is human input"]

    def prepare(self, cases, impl_lines):
        # layout independence on the FULL language: all renderings of one token list must answer alike
        self._group = {}
        for c, im in zip(cases, impl_lines):
            g = getattr(c, "group", None)
            if g is not None:
                self._group.setdefault(g, (c.text, self.observable(im)))

    def spec_verdict(self, case, impl, spec):
        g = getattr(case, "group", None)
        if g is not None:
            if impl.startswith("PANIC") or impl.startswith("ABORT"):
                return "panic"
            first = getattr(self, "_group", {}).get(g)
            if first and self.observable(impl) != first[1]:
                return (f"the same expression under two layouts of blanks answers differently: {first[0]!r} -> {first[1][:80]}, "
                        f"{case.text!r} -> {self.observable(impl)[:80]}")
            return None
        return super().spec_verdict(case, impl, spec)

    def cases(self, rng, tier):
        items = []
        maxn = 3 if tier == "quick" else 5
        for n in range(1, maxn + 1):
            k = 0
            for e in G.all_shapes(n, "+-*/^"):
                k += 1
                if tier == "thorough" and n == 5 and k % 4:
                    continue
                for style in ("canon", "tight", "random"):
                    items.append((e, G.layout_for(e, rng, style), f"shapes-{n}-{style}"))
        if tier == "quick":
            # sample of 4 and 5 operator shapes
            for n in (4, 5):
                pool = list(G.all_shapes(n, "+-*/^"))
                for _ in range(600):
                    e = rng.choice(pool)
                    items.append((e, G.layout_for(e, rng, rng.choice(["tight", "random"])), f"shapes-{n}-sample"))
        n = 2500 if tier == "quick" else 40000
        for _ in range(n):
            e = G.rand_expr(rng, rng.range(2, 5), calls=True)
            items.append((e, G.layout_for(e, rng, rng.choice(["canon", "tight", "random"])), "random-deep"))
        cases = expr_cases(items, starstar=True)
        # sums of MANY calls in one query (a two-argument call, a one-argument call and a group must
        # each leave the parser in the state they found it: the 127th behaves like the first)
        from . import extragen as X
        cases += X.long_call_chains(rng, tier)
        # the FULL language (quantities, temperatures, fact phrases, casts, calls, percentages, nested
        # and mixed): every expression is rendered with single spaces and under three random layouts
        # of blanks (kind and number wherever a blank stands; presence where it provably does not
        # matter); all renderings must answer alike, and each is compared with the model
        from . import mixgen as M
        for gi in range(500 if tier == "quick" else 12000):
            toks = M.expr(rng, rng.range(0, 2))
            texts = [M.canonical(toks)] + [M.render(toks, rng) for _ in range(3)]
            for t in dict.fromkeys(texts):
                c = Case("query " + C.hexs(t), "mixed-language", t)
                c.group = "mixed:" + texts[0]   # (a key that stays unique when cases of several seeds are merged)
                cases.append(c)
        # a percentage may be written with blanks between the number and the `%`: any kind and number
        for b_ in ["", " ", "  ", "\t", "\u00a0", "\u202f", "\u2003", "\u000b", " \u00a0", "\u00a0 ", "\n", "\u3000", "\u0085"]:
            for num, val in (("50", "1/2"), ("-2.5", "-1/40"), ("1e2", "1/1"), ("0", "0/1")):
                t = num + b_ + "%"
                cases.append(Case("query " + C.hexs(t), "percent-blank", t, expect=val))
                t2 = "3 * " + num + b_ + "%" + b_ + " + 1"
                from fractions import Fraction as _F
                w = 3 * _F(val) + 1
                cases.append(Case("query " + C.hexs(t2), "percent-blank", t2, expect=f"{w.numerator}/{w.denominator}"))
        # long chains (hundreds of operands, groups sprinkled in) under random blank runs: grouping
        # and blank-independence do not wear off with length. Expected value: Python integers on the
        # same text with every blank run replaced by one space.
        BL = [" ", "  ", "\t", " \u00a0", "\u2003", " \t "]
        lengths = (list(range(50, 420, 9)) + [257, 513, 1025]) if tier == "quick" else (list(range(2, 600, 2)) + [1025, 2049, 4097])
        for n_ in lengths:
            text = plain = ""
            vals, used = [], []
            for i in range(n_):
                if i:
                    op = rng.choice("+-*")
                    used.append(op)
                    b1, b2 = rng.choice(BL), rng.choice(BL)
                    if op == "*" and rng.chance(1, 2):
                        b1 = b2 = ""
                    text += b1 + op + b2
                    plain += " " + op + " "
                if rng.chance(1, 8):
                    a, b, o2 = rng.range(1, 9), rng.range(1, 9), rng.choice("+-*")
                    b3 = rng.choice(BL)
                    text += f"({a}{b3}{o2}{b3}{b})"
                    plain += f"({a} {o2} {b})"
                    vals.append(a + b if o2 == "+" else a - b if o2 == "-" else a * b)
                else:
                    v_ = rng.range(1, 9)
                    text += str(v_)
                    plain += str(v_)
                    vals.append(v_)
            cases.append(Case("query " + C.hexs(text), "long-chain", plain[:50] + f"… ({n_} operands)", expect=f"{flat_value(vals, used)}/1"))
        return cases


    FILLER_PHRASES = ["the mass of the earth", "the radius", "mass of earth", "population of finland", "a mass", "speed of light",
                      "the speed of light", "mass of the sun", "an orbital period", "radius of the moon", "the population of the world",
                      "of the", "the of a an mass", "distance to the sun of", "mass the earth", "mass a earth"]

    def scenarios(self, rng, tier):
        """Blanks inside a fact PHRASE: the words of a phrase are separated by blanks too, and the
        phrase is handed to the index as typed. Whatever blanks separate its words, the same
        constant must be found as with single spaces (phrases with articles and `of` included)."""
        from .props_db import dump_facts, typeable
        seps = ["\t", "  ", " \t ", "\n", "\u00a0", "\u2003", "\u000b", " \u0085", "\t\t"]
        phrases = list(self.FILLER_PHRASES)
        facts = [f["tokens"] for f in dump_facts() if "tokens" in f and typeable(f["tokens"]) and len(f["tokens"]) > 1]
        for t in facts[:: 9 if tier == "quick" else 1]:
            phrases.append(" ".join(t))
            if rng.chance(1, 3):
                k = rng.below(len(t))
                phrases.append(" ".join(t[:k] + [rng.choice(["the", "of", "a", "an"])] + t[k:]))
        lines, owner = [], []
        for p_ in phrases:
            words = p_.split(" ")
            if words[0][:1].isdigit() or "to" in words:
                continue
            lines.append("query " + C.hexs(p_) + " describe")
            owner.append((p_, None))
            for _ in range(3):
                v = words[0] + "".join((rng.choice(seps) if rng.chance(2, 3) else " ") + w for w in words[1:])
                if v != p_:
                    lines.append("query " + C.hexs(v) + " describe")
                    owner.append((p_, v))
            if len(lines) % 5 == 0 or p_ in self.FILLER_PHRASES:
                # the NUMBER of blanks: long runs (a run is one token for the lexer, but the phrase
                # reaches the index as typed)
                for run in (rng.choice([7, 10, 16, 31, 32, 33]), rng.choice([63, 64, 65, 100, 127, 128, 129, 255, 256, 257, 1000])):
                    v = (rng.choice([" ", "\t"]) * run).join(words)
                    lines.append("query " + C.hexs(v) + " describe")
                    owner.append((p_, v))
        rc, out, err = C.run_lines(C.harness_bin(False), lines, watchdog=20)

        def found(o):
            d = o.split(" # D")
            return (o.split(" # D")[0].strip(), d[1].strip().split("=>")[1] if len(d) > 1 and "=>" in d[1] else "-")
        base, fails, n, nontriv = {}, [], 0, 0
        for (p_, v), o in zip(owner, out):
            if v is None:
                base[p_] = found(o)
                continue
            n += 1
            if found(o) != base.get(p_):
                fails.append((f"phrase-blanks:{p_}", v, f"the phrase {p_!r} typed as {v!r} finds {C.unhex(found(o)[1])!r} ({found(o)[0][:40]}), "
                              f"with single spaces {C.unhex(base[p_][1])!r} ({base[p_][0][:40]})"))
            elif base[p_][1] != "-":
                nontriv += 1
        return {"evaluations": n, "nontrivial": nontriv, "spec_fail": fails[:10], "dist": {"phrase-blank-variants": n, "phrases": len(base)}}


class C01(ExprProp):
    """Theorems (Props/C01.lean): on plain numbers `+ - * / ^` of the evaluator are exactly the exact-arithmetic operations for all rationals and integer exponents (the `pow` loop by induction), division by zero including 0^negative is an error; with C06's `C06_query` every well-formed expression under every admissible layout evaluates to its exact denotation. Correspondence: expression trees with big literals and every operator mix, implementation = model = independent exact evaluator."""
    id = "C01"
    module = "Anything.Props.C01"
    extra_modules = ["Anything.Props.C01Query"]
    trusted = ["num-bigint / num-rational arithmetic (tied to Lean's Rat by sampling)", "Spec.Arith.denote is human input"]

    def cases(self, rng, tier):
        items = []
        n = 4000 if tier == "quick" else 80000
        for i in range(n):
            depth = rng.range(1, 6 if tier == "quick" else 9)
            e = G.rand_expr(rng, depth)
            items.append((e, G.layout_for(e, rng, "canon" if i % 2 else "random"), f"random-depth{depth}"))
        # division by zero family
        L, B, P = G.Lit, G.mk_bin, G.Paren
        for z in ["0", "0.0", "-0", "0e5", "0%"]:
            for a in ["1", "-7.5", "0"]:
                items.append((B("/", L(a), L(z)), [], "divzero"))
                items.append((B("/", L(a), P(B("-", L("2"), L("2")))), [], "divzero"))
            for k in ["-1", "-3", "0", "2"]:
                items.append((B("^", L(z.rstrip("%")) if z.endswith("%") else L(z), L(k)), [], "zero-pow"))
        for b in ["2", "-2", "0.5", "1e3", "-1.5"]:
            for k in range(-6, 7):
                items.append((B("^", L(b), L(str(k))), [], "pow-grid"))
        for k in ["0.5", "1.5", "1e-1"]:
            items.append((B("^", L("2"), L(k)), [], "non-integer-power"))
        # big operands
        for _ in range(300 if tier == "quick" else 3000):
            a = "".join(str(rng.below(10)) for _ in range(rng.range(30, 160)))
            b = "".join(str(rng.below(10)) for _ in range(rng.range(30, 160))) + "." + str(rng.below(1000))
            items.append((B(rng.choice("+-*/"), L(a), L(b)), [], "big"))
        cases = expr_cases(items)
        # long flat chains: nothing in the property bounds the length of an expression (the parser
        # refills its token buffer as it goes; hundreds and thousands of tokens must behave like ten).
        # Expected value by Python's integer arithmetic (same precedence, left association).
        if tier == "quick":
            lengths = list(range(40, 400, 7)) + [64, 65, 66, 128, 129, 256, 257, 512, 513, 1024, 1025, 1500, 2500]
        else:
            lengths = list(range(2, 700)) + [1023, 1024, 1025, 1026, 2048, 2049, 4096, 4097, 5000, 20000]
        for n_ in lengths:
            for ops in ("+", "+-*"):
                vals = [str(rng.range(1, 9)) for _ in range(n_)]
                text = vals[0]
                used = []
                for v_ in vals[1:]:
                    op = rng.choice(ops)
                    used.append(op)
                    text += (" " + op + " " if op in "+-" or rng.chance(1, 2) else op) + v_
                want = flat_value([int(x) for x in vals], used)
                cases.append(Case("query " + C.hexs(text), "long-chain", text[:60] + f"… ({n_} operands)", expect=f"{want}/1"))
        return cases


class C10(ExprProp):
    """Theorems C10_floor/ceil/round(+_char)/builtin_*/arity_*: num-rational's integer algorithms (mirrored in the model) equal the order-theoretic floor, ceiling, round-half-away and round-to-n-digits for every rational; unit carried through; wrong arity is an error. Correspondence on a boundary grid. End to end: `C10_query` (Props/C10Query.lean) — calls written as queries over arbitrary argument expressions. Unified language (Props/UnifiedQuery.lean): `C10_query_unified_full` — floor/ceil/round/round(e, n) over quantity expressions with fact leaves. Full language (Props/FullQuery.lean): `C10_query_nested` — a call ANYWHERE in an expression keeps the unit and rounds the magnitude."""
    id = "C10"
    needs_knobs = ("builtins",)
    extra_modules = ["Anything.Props.C10Query", "Anything.Props.UnifiedQuery", "Anything.Props.FullQuery"]
    module = "Anything.Props.C10"
    trusted = ["Spec.Arith.floorI/ceilI/roundHalfAway/roundTo are human input (order-theoretic definitions)"]

    def spec_verdict(self, case, impl, spec):
        if isinstance(case.expect, tuple):  # unit-carrying case: (value, unit)
            items = impl[2:].split(" | ") if impl.startswith("R ") else [impl]
            want = f"OK {case.expect[0]} {case.expect[1]}"
            return None if items == [want] else f"expected {want}"
        return super().spec_verdict(case, impl, spec)

    def cases(self, rng, tier):
        L, Call = G.Lit, G.Call
        items = []
        grid = []
        for k in range(-4, 5):
            for frac in ["", ".5", ".49", ".51", ".25", ".75", ".001", ".999", ".50000000000000000001", ".49999999999999999999"]:
                for sign in ["", "-"]:
                    if k < 0 and sign == "-":
                        continue
                    grid.append(f"{sign}{abs(k)}{frac}" if k >= 0 or sign == "" else None)
                    if k < 0:
                        grid[-1] = f"-{abs(k)}{frac}"
        grid = sorted(set(g for g in grid if g))
        for x in grid:
            for f in ("floor", "ceil", "round"):
                items.append((Call(f, [L(x)]), [], "grid-1"))
        # around the ends of machine words (a shortcut through i32 / i64 / i128 / f64 goes wrong only
        # within one unit of ±2^31, ±2^63, ±2^127, 2^53 …)
        for k in (7, 8, 15, 16, 24, 31, 32, 52, 53, 63, 64, 65, 127, 128, 129):
            for base in (2 ** k, -(2 ** k)):
                for d in (-2, -1, 0, 1):
                    for frac in ("", ".5", ".25", ".75", ".0000000001", ".9999999999"):
                        x = base + d
                        lit = (f"{x}{frac}" if x >= 0 else f"-{abs(x)}{frac}")
                        for f in ("floor", "ceil", "round"):
                            items.append((Call(f, [L(lit)]), [], "word-edges"))
                        if frac in (".5", ".25"):
                            items.append((Call("round", [L(lit), L("1")]), [], "word-edges"))
                            items.append((Call("floor", [G.mk_bin("/", L(str(2 * x + 1)), L("2"))]), [], "word-edges"))
                            items.append((Call("ceil", [G.mk_bin("/", L(str(2 * x + 1)), L("2"))]), [], "word-edges"))
        digits = list(range(-6, 7))
        vals = ["1234567.891234567", "-1234567.891234567", "0.5", "-0.5", "2.5", "-2.5", "15", "-15", "1250", "0.000125",
                "-0.000125", "999999.9999995", "0.05", "-0.05", "149.999999", "150"]
        for x in vals:
            for n in digits:
                items.append((Call("round", [L(x), L(str(n))]), [], "grid-2"))
        # the whole range of digit counts, far beyond what a machine word holds (10^20 > 2^64,
        # 10^39 > 2^128, 10^309 > f64::MAX), on values with non-terminating and very long expansions
        wide = list(range(-70, 71)) + [100, -100, 127, 128, -128, 255, 256, -256, 300, -300, 310, -310]
        LONG = "12345678901234567890123456789012345678901234567890.12345678901234567890123456789012345678901234567890"
        for n_ in wide:
            for x in (G.mk_bin("/", L("1"), L("3")), G.mk_bin("/", L("-20000000000000000000000000000000000000000000001"), L("7")),
                      L(LONG), L("-" + LONG), L("0.5")):
                items.append((Call("round", [x, L(str(n_))]), [], "wide-n"))
        n = 800 if tier == "quick" else 20000
        for _ in range(n):
            x = G.rand_literal(rng, allow_pct=False).s
            f = rng.choice(["floor", "ceil", "round", "round"])
            args = [L(x)]
            if f == "round" and rng.chance(1, 2):
                args.append(L(str(rng.range(-6, 6))))
            items.append((Call(f, args), G.layout_for(Call(f, args), rng, rng.choice(["canon", "tight", "random"])), "random"))
        # arity
        for f in ("floor", "ceil", "round"):
            for k in (0, 2, 3):
                if f == "round" and k == 2:
                    continue
                items.append((Call(f, [L(str(i + 1)) for i in range(k)]), [], "arity"))
        cases = expr_cases(items)
        # a call inside a NON-FIRST argument of another call (`round(2.567, floor(2.5))`; arity errors
        # whose extra argument is a call)
        from . import extragen as X
        cases += X.nested_precision(rng, tier)
        # "a wrong number of arguments is an error", also when what stands between the parentheses is
        # not an argument at all (blanks, brace escapes, which parse to loose tokens)
        for f in ("floor", "ceil", "round"):
            for a in ("", " ", "{}", "{ }", "{}, {}", "  {}  "):
                for t in (f"{f}({a})", f"1 + {f}({a})"):
                    cases.append(Case("query " + C.hexs(t), "arity-no-argument", t, expect="ERR"))
        # unit carried through: f(x U) has the value of f(x) and the unit U
        from .props_units import vocab
        v = vocab()
        pending = []
        for _ in range(150 if tier == "quick" else 2000):
            w = rng.choice(v.plain_words)
            x = rng.choice(grid)
            f = rng.choice(["floor", "ceil", "round"])
            pending.append((f, x, w, None))
        for n_ in (-45, -40, -39, -38, -21, -20, -19, 19, 20, 21, 38, 39, 40, 45, 64, 128):
            for x in (LONG, "-" + LONG):
                pending.append(("round", x, rng.choice(v.plain_words), n_))
        rc, out, err = C.run_lines(C.driver_bin(), [G.expr_line(Call(f, [L(x)] + ([] if n_ is None else [L(str(n_))])), [])
                                                    for f, x, w, n_ in pending])
        for (f, x, w, n_), o in zip(pending, out):
            val = o.split(" ")[2]
            text = f"{f}({x} {w[0]}{w[1]})" if n_ is None else f"{f}({x} {w[0]}{w[1]}, {n_})"
            cases.append(Case("query " + C.hexs(text), "unit-kept", text, expect=(val, f"{w[2]}:1:{w[3]}")))
        return cases
