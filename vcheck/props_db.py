"""C14, C15, C16, C17, C18: database logic, recovery, serialisation, descriptions."""
import json
import os
import shutil
import subprocess
from pathlib import Path

from . import common as C
from .engine import Case, Prop

SCR = C.SCRATCH


def dump_facts():
    out = subprocess.run([C.harness_bin(False), "dump-facts"], capture_output=True, text=True, timeout=600).stdout
    facts = []
    for line in out.splitlines():
        f = line.split("\t")
        if f[0] == "FACT":
            facts.append({"tokens": [C.unhex(t) for t in f[1].split(";")] if f[1] != "-" else [], "value": f[2],
                          "unit": f[3], "desc": C.unhex(f[4]), "source": f[5], "file": f[6], "raw": f})
        elif f[0] == "FILEERR":
            facts.append({"error": line})
    return facts


def dbopen(mode, queries, xdg=None, crash=None, tag="q"):
    SCR.mkdir(parents=True, exist_ok=True)
    qf = SCR / f"queries-{tag}-{os.getpid()}.txt"
    qf.write_text("\n".join(C.hexs(q) for q in queries) + "\n")
    env = dict(C.ENV)
    if xdg:
        env["XDG_DATA_HOME"] = str(xdg)
        env["HOME"] = str(xdg)
    if crash is not None:
        env["ANYTHING_VERIF_CRASH"] = str(crash)
    else:
        env.pop("ANYTHING_VERIF_CRASH", None)
    p = subprocess.run([C.harness_bin(False), "dbopen", mode, str(qf)], capture_output=True, text=True, env=env, timeout=300)
    qf.unlink(missing_ok=True)
    lines = p.stdout.splitlines()
    return p.returncode, lines


def typeable(words):
    """Can the phrase be typed as a query that is one fact phrase? (letters, digits after the first word)"""
    if not words:
        return False
    for i, w in enumerate(words):
        if not w or not all(ch.isascii() and (ch.isalnum() or ch in "°'") or ch == "°" for ch in w):
            return False
        if w == "to":
            return False
        if i == 0 and w[0].isdigit():
            return False
    return True


class C14(Prop):
    """Theorems (Props/C14.lean): every index-writer construction in db.rs asks for one thread (re-extracted each run); with one worker every schedule yields the shipped document order, so in-memory, first on-disk and reopened sessions answer every query alike, ties included; with any number of workers a unique top score is schedule-independent, and a tie is not (counterexample). Correspondence: repeated real builds in memory, on disk, reopened, over every fact's words and ambiguous prefixes. tantivy's scheduler and f32 ranking are outside the model (partial). A long-lived on-disk session keeps answering from what it opened while another start recreates the index (harness `dbhold`)."""
    id = "C14"
    module = "Anything.Props.C14"
    needs_db_tables = True
    trusted = ["tantivy 0.19.2: a single indexing thread adds documents in call order; ties are broken by document order",
               "BM25 f32 scoring (not modelled)"]

    def cases(self, rng, tier):
        return []

    def scenarios(self, rng, tier):
        facts = [f for f in dump_facts() if "tokens" in f]
        qs = []
        seen = set()
        for f in facts:
            ws = f["tokens"]
            cands = [" ".join(ws)] + ws[:2] + [w[:k] for w in ws[:2] for k in (1, 2, 3)]
            for q in cands:
                if q and q not in seen and all(ch.isascii() and (ch.isalnum() or ch == " ") for ch in q):
                    seen.add(q)
                    qs.append(q)
        qs += [q for q in ["population", "pop", "a", "population s", "mass", "m", "radius", "orbit", "distance"] if q not in seen]
        if tier == "quick":
            qs = qs[:: 4] + ["population", "pop", "a", "population s"]
        builds = 6 if tier == "quick" else 40
        ref = None
        spec_fail, n = [], 0
        runs = []
        for i in range(builds):
            rc, lines = dbopen("mem", qs, tag="c14")
            runs.append((f"in-memory build {i}", lines))
        xdg = SCR / "xdg-c14"
        # several FRESH on-disk builds (a schedule-dependent order shows only now and then); many
        # more when the extracted knobs say that some writer is not single-threaded, i.e. when the
        # theorem `C14_one_thread` no longer holds and a concrete query is being searched for
        fresh = 3 if tier == "quick" else 12
        try:
            knobs = (C.LEAN / "Anything" / "Generated" / "DbConsts.lean").read_text()
            import re as _re
            w = _re.search(r"def writers : List \(Option Nat\) := \[(.*?)\]", knobs)
            if not w or any(x.strip() != "some 1" for x in w.group(1).split(",")):
                fresh = 24
        except OSError:
            fresh = 24
        for k in range(fresh):
            shutil.rmtree(xdg, ignore_errors=True)
            rc, lines = dbopen("disk", qs, xdg=xdg, tag="c14")
            runs.append((f"fresh on-disk build {k}", lines))
        for i in range(2):
            rc, lines = dbopen("disk", qs, xdg=xdg, tag="c14")
            runs.append((f"reopened on-disk {i}", lines))
        shutil.rmtree(xdg, ignore_errors=True)
        # a LONG-LIVED on-disk session keeps answering from what it opened, whatever another start
        # of the tool does to the data directory meanwhile (harness `dbhold`: the index directory is
        # recreated by a start that is killed before it commits; the session is asked again more
        # than a second later)
        held = SCR / "xdg-c14-held"
        shutil.rmtree(held, ignore_errors=True)
        dbopen("disk", qs[:5], xdg=held, tag="c14")
        qf = SCR / f"queries-c14-hold-{os.getpid()}.txt"
        hq = [q for q in ["population finland", "mass earth", "radius moon", "pop", "speed of light"]]
        qf.write_text("\n".join(C.hexs(q) for q in hq) + "\n")
        env = dict(C.ENV, XDG_DATA_HOME=str(held), HOME=str(held))
        env.pop("ANYTHING_VERIF_CRASH", None)
        hp = subprocess.run([C.harness_bin(False), "dbhold", str(qf)], capture_output=True, text=True, env=env, timeout=300)
        qf.unlink(missing_ok=True)
        shutil.rmtree(held, ignore_errors=True)
        hl = hp.stdout.splitlines()
        held_fail = None
        if "FIRST" in hl and "SECOND" in hl:
            a1, a2 = hl[hl.index("FIRST") + 1: hl.index("SECOND")], hl[hl.index("SECOND") + 1:]
            bad = [(q, x, y) for q, x, y in zip(hq, a1, a2) if x != y]
            if bad:
                q, x, y = bad[0]
                show = lambda a: C.unhex(a.split(" ")[1]) if a.startswith("A ") and len(a.split(" ")) > 1 else a
                held_fail = (f"held-session:{q}", q, f"an on-disk session kept open answers {q!r} with {show(x)!r}; after another start recreated the index directory "
                             f"and was killed before committing, the SAME session answers {show(y)!r}")
        else:
            held_fail = ("held-session:setup", "dbhold", f"the long-lived session scenario did not run: {hp.stdout[-200:]} {hp.stderr[-200:]}")
        ref_name, ref = runs[0]
        if held_fail:
            spec_fail.append(held_fail)
        for name, lines in runs[1:]:
            if len(lines) != len(ref):
                spec_fail.append((f"run:{name}", name, f"{name}: {lines[:1]}"))
                continue
            for q, a, b in zip(qs, ref[1:], lines[1:]):
                n += 1
                if a != b:
                    spec_fail.append((f"query:{q}", q, f"query {q!r}: {ref_name} -> {C.unhex(a.split(' ')[1]) if a.startswith('A ') and len(a.split(' '))>1 else a}; {name} -> {C.unhex(b.split(' ')[1]) if b.startswith('A ') and len(b.split(' '))>1 else b}"))
                    break
        return {"evaluations": n, "nontrivial": len(qs), "spec_fail": spec_fail[:10], "dist": {"queries": len(qs), "runs": len(runs)},
                "samples": [{"query": q, "answer": a} for q, a in list(zip(qs, ref[1:]))[:4]]}


CRASH_POINTS = [0, 1, 2, 3, 4, 5, 6, 10, 11, 12, 13, 14, 15, 17, 16]
PRIOR = ["absent", "complete", "other-version", "other-data", "meta-missing", "meta-truncated", "meta-garbage",
         "index-missing", "index-damaged", "index-emptied",
         # an index that opens but does NOT hold the shipped data (committed empty), under metadata of
         # this version whose data hash is wrong / absent / null: "written for other data"
         "stale-wrong-hash", "stale-no-hash", "stale-null-hash",
         # an index that opens and holds an EARLIER GENERATION of the data (a withdrawn constant, a
         # revised one), under metadata of this version with another data hash / of another version
         "olddocs-wrong-hash", "olddocs-other-version", "olddocs-no-hash",
         # a healthy index of ANOTHER LAYOUT (other analyzer) under metadata of another version /
         # no metadata; and an index that still opens although segment files are gone (a removal
         # of the old index that was interrupted), under metadata that does not vouch for it
         "foreign-other-version", "foreign-meta-missing", "partial-meta-missing", "partial-other-version"]


def make_prior(xdg, kind, template):
    shutil.rmtree(xdg, ignore_errors=True)
    if kind == "absent":
        return
    shutil.copytree(template, xdg)
    facts = xdg / "facts"
    meta = facts / "meta.json"
    if kind == "complete":
        return
    j = json.loads(meta.read_text())
    if kind == "other-version":
        j["version"] = "0.0.1"
        meta.write_text(json.dumps(j))
    elif kind == "other-data":
        j["database_hash"] = "0" * 32
        meta.write_text(json.dumps(j))
    elif kind == "meta-missing":
        meta.unlink()
    elif kind == "meta-truncated":
        meta.write_text(meta.read_text()[:17])
    elif kind == "meta-garbage":
        meta.write_text("\x00\x01garbage{{")
    elif kind == "index-missing":
        shutil.rmtree(facts / "index")
    elif kind == "index-damaged":
        (facts / "index" / "meta.json").unlink()
    elif kind == "index-emptied":
        for f in (facts / "index").iterdir():
            f.unlink()
    elif kind.startswith("foreign-"):
        subprocess.run([C.harness_bin(False), "dbforeign", str(facts / "index")], capture_output=True, text=True, timeout=120, env=C.ENV)
        if kind == "foreign-other-version":
            j["version"] = "0.0.3"
            meta.write_text(json.dumps(j))
        else:
            meta.unlink()
    elif kind.startswith("partial-"):
        for f in (facts / "index").iterdir():
            if f.suffix in (".term", ".idx", ".pos"):
                f.unlink()
        if kind == "partial-other-version":
            j["version"] = "0.0.4"
            meta.write_text(json.dumps(j))
        else:
            meta.unlink()
    elif kind.startswith("olddocs-"):
        subprocess.run([C.harness_bin(False), "dbstale", str(facts / "index")], capture_output=True, text=True, timeout=120, env=C.ENV)
        if kind == "olddocs-wrong-hash":
            j["database_hash"] = "e" * 32
        elif kind == "olddocs-other-version":
            j["version"] = "0.0.2"
        else:
            j.pop("database_hash", None)
        meta.write_text(json.dumps(j))
    elif kind.startswith("stale-"):
        # a start killed right after the index was created leaves a committed EMPTY index
        shutil.rmtree(facts / "index")
        meta.unlink()
        dbopen("disk", ["c"], xdg=xdg, crash=11, tag="c15prior")
        if kind == "stale-wrong-hash":
            j["database_hash"] = "f" * 32
        elif kind == "stale-no-hash":
            j.pop("database_hash", None)
        else:
            j["database_hash"] = None
        meta.write_text(json.dumps(j))


def meta_state(xdg, current):
    m = xdg / "facts" / "meta.json"
    if not m.exists():
        return "absent"
    try:
        j = json.loads(m.read_text())
        return "current" if j == current else "other"
    except Exception:
        return "garbage"


def same_shape_other_data():
    """History "the index was written for OTHER data of the same shape": a build whose shipped
    data differs from this tree's in one number, while every asset keeps its name, byte length
    and modification time, creates the on-disk index; then the build with this tree's data starts
    on that directory and must answer like a fresh in-memory database.

    Debug builds read the assets at run time from the crate's own `db/` directory, so this needs a
    copy of the working tree: it is made under /var/tmp (outside /repo and /verif), `any` is built
    there (target directory seeded from the runner's own build of `any`, so only the crate itself
    is compiled), and the copy, with its build output, is removed before returning.
    Returns (status, detail): status in {"ok", "fail", "setup"}."""
    import gzip, zlib
    copy = Path("/var/tmp") / f"verif-c15-copy-{os.getpid()}"
    xdg = SCR / "xdg-c15-shape"
    query = "standard gravity g0"
    try:
        shutil.rmtree(copy, ignore_errors=True)
        rc = subprocess.run(["rsync", "-a", "--exclude", "/target", "--exclude", "/.git", str(C.REPO) + "/", str(copy) + "/"],
                            capture_output=True, text=True, timeout=600)
        if rc.returncode != 0:
            return "setup", "rsync failed: " + rc.stderr[-200:]
        if C.ANY_TARGET.exists():
            subprocess.run(["cp", "-r", str(C.ANY_TARGET), str(copy / "target")], timeout=600)
        env = dict(C.ENV)
        env.pop("RUSTFLAGS", None)
        with C.Lock("cargo"):
            b = subprocess.run(["cargo", "build", "--offline", "--bin", "any", "--manifest-path", str(copy / "Cargo.toml"),
                                "--target-dir", str(copy / "target")], capture_output=True, text=True, timeout=1800, env=env, cwd=str(copy))
        if b.returncode != 0:
            return "setup", "build of the copy failed: " + b.stderr[-300:]
        any_bin = copy / "target" / "debug" / "any"
        asset = copy / "db" / "files.bin.gz"
        shipped = asset.read_bytes()
        st = asset.stat()
        raw = gzip.decompress(shipped)
        pat = bytes.fromhex("1a0002fe25")   # CBOR uint32 196133, the numerator of 196133/20000 = 9.80665
        if raw.count(pat) != 1:
            return "setup", "the numerator of standard gravity was not found in files.bin.gz"
        i = raw.index(pat)
        variant = None
        for num in [196200] + list(range(196134, 197134)):
            new = raw[:i] + b"\x1a" + num.to_bytes(4, "big") + raw[i + 5:]
            for lvl in (9, 8, 7, 6, 5, 4):
                c = zlib.compressobj(lvl, zlib.DEFLATED, 31, 9)
                out = c.compress(new) + c.flush()
                if len(out) == len(shipped) and out != shipped:
                    variant = out
                    break
            if variant:
                break
        if variant is None:
            return "setup", "no same-length variant of files.bin.gz found"

        def run(fresh_dir=False):
            e = dict(env, XDG_DATA_HOME=str(xdg), HOME=str(xdg))
            e.pop("ANYTHING_VERIF_CRASH", None)
            if fresh_dir:
                shutil.rmtree(xdg, ignore_errors=True)
            xdg.mkdir(parents=True, exist_ok=True)
            r = subprocess.run([str(any_bin), query], capture_output=True, text=True, timeout=120, env=e)
            return (r.stdout + r.stderr).strip()

        def put(data):
            asset.write_bytes(data)
            os.utime(asset, ns=(st.st_atime_ns, st.st_mtime_ns))

        put(variant)
        out1 = run(fresh_dir=True)
        put(shipped)
        out2 = run()
        ref = run(fresh_dir=True)
        if out1 == ref:
            return "setup", f"the altered data did not change the answer ({out1!r})"
        if out2 != ref:
            return "fail", (f"history: a build whose db/files.bin.gz gives standard gravity another numerator (same name, {len(shipped)} bytes, "
                            f"same modification time) creates the index and answers `{query}` with {out1!r}; the build with the shipped data then "
                            f"starts on that data directory and answers {out2!r}; a fresh data directory answers {ref!r}")
        return "ok", f"other data of the same shape: {out1!r} -> rebuilt -> {out2!r}"
    except Exception as e:  # setup trouble is not a verdict on the code
        return "setup", f"{type(e).__name__}: {e}"
    finally:
        shutil.rmtree(copy, ignore_errors=True)
        shutil.rmtree(xdg, ignore_errors=True)


def foreign_build_histories(probes, fresh, tmpl, current, tier):
    """Histories in which ANOTHER build of the same version with other data (one number of
    db/files.bin.gz changed) starts on our data directory — complete or killed at a crash point —
    between our own starts. The other build is the `any` binary of a scratch copy of the working
    tree compiled with the hooks on (copy and build output under /var/tmp, removed before
    returning). After every history a complete start of OURS must answer like a fresh in-memory
    database, and the metadata states after each step are compared with the model's prediction
    (`recover <prior> f<cp>,…`). Returns (status, detail, n, nontrivial, spec_fail, corr_fail)."""
    import gzip
    copy = Path("/var/tmp") / f"verif-c15-foreign-{os.getpid()}"
    xdg = SCR / "xdg-c15-foreign"
    probes = list(probes) + ["standard gravity g0"]     # the constant the other build ships differently
    rc, fresh = dbopen("mem", probes, tag="c15")
    try:
        shutil.rmtree(copy, ignore_errors=True)
        rc = subprocess.run(["rsync", "-a", "--exclude", "/target", "--exclude", "/.git", str(C.REPO) + "/", str(copy) + "/"],
                            capture_output=True, text=True, timeout=600)
        if rc.returncode != 0:
            return "setup", "rsync failed", 0, 0, [], []
        asset = copy / "db" / "files.bin.gz"
        raw = gzip.decompress(asset.read_bytes())
        pat = bytes.fromhex("1a0002fe25")
        if raw.count(pat) != 1:
            return "setup", "the numerator of standard gravity was not found in files.bin.gz", 0, 0, [], []
        i = raw.index(pat)
        asset.write_bytes(gzip.compress(raw[:i] + b"\x1a" + (196200).to_bytes(4, "big") + raw[i + 5:]))
        if (C.HARNESS / "target").exists():
            # the harness build has the dependencies compiled with the hooks' flags
            subprocess.run(["cp", "-r", str(C.HARNESS / "target"), str(copy / "target")], timeout=900)
        env = dict(C.ENV, RUSTFLAGS="--cfg anything_verif")
        with C.Lock("cargo"):
            b = subprocess.run(["cargo", "build", "--offline", "--release", "--bin", "any", "--manifest-path", str(copy / "Cargo.toml"),
                                "--target-dir", str(copy / "target")], capture_output=True, text=True, timeout=2400, env=env, cwd=str(copy))
        if b.returncode != 0:
            return "setup", "build of the other build failed: " + b.stderr[-300:], 0, 0, [], []
        other = copy / "target" / "release" / "any"

        def other_start(cp):
            e = dict(C.ENV, XDG_DATA_HOME=str(xdg), HOME=str(xdg))
            e.pop("ANYTHING_VERIF_CRASH", None)
            if cp is not None:
                e["ANYTHING_VERIF_CRASH"] = str(cp)
            subprocess.run([str(other), "standard gravity g0"], capture_output=True, text=True, timeout=120, env=e)

        pts = CRASH_POINTS if tier == "thorough" else [1, 4, 5, 6, 11, 12, 13, 14, 15, 17]
        hist = []
        for prior in ("complete", "absent", "other-data", "meta-missing", "index-missing") if tier == "thorough" else ("complete", "absent"):
            for cp in pts + [None]:
                hist.append((prior, [("f", cp)]))
                hist.append((prior, [("f", cp), ("a", 11)]))
            hist.append((prior, [("f", None), ("a", 13), ("f", 13)]))
            hist.append((prior, [("f", 13), ("f", 5), ("a", 5)]))
        tok = lambda ev: ("f" if ev[0] == "f" else "") + ("full" if ev[1] is None else str(ev[1]))
        rc, pred, err = C.run_lines(C.driver_bin(), ["recover " + p_ + " " + ",".join(tok(e) for e in evs) for p_, evs in hist])
        spec_fail, corr_fail, n, nontriv = [], [], 0, 0
        for (prior, evs), pr in zip(hist, pred):
            make_prior(xdg, prior, tmpl)
            trace = []
            for who, cp in evs:
                if who == "f":
                    other_start(cp)
                else:
                    dbopen("disk", probes, xdg=xdg, crash=cp, tag="c15")
                trace.append(meta_state(xdg, current))
            rc, lines = dbopen("disk", probes, xdg=xdg, tag="c15")
            n += 1
            name = f"prior={prior} then " + ", ".join(("the other build" if w == "f" else "this build") + (" completes a start" if c is None else f" is killed at crash point {c}") for w, c in evs)
            observed = "M " + ",".join(trace) + " F " + meta_state(xdg, current) + (" ANSWERS-FRESH" if lines == fresh else " ANSWERS-DIFFER")
            if lines != fresh:
                diff = [C.unhex(l.split(" ")[1]) if l.startswith("A ") and len(l.split(" ")) > 1 else l for l, r in zip(lines, fresh) if l != r][:3]
                spec_fail.append((f"history:foreign:{prior}:{[tok(e) for e in evs]}", name,
                                  f"{name}: a complete start of this build then answers differently from a fresh in-memory database: {diff}"))
            else:
                nontriv += 1
            if pr != observed:
                corr_fail.append((name, observed, pr))
        return "ok", f"{n} histories with another build of the same version", n, nontriv, spec_fail[:10], corr_fail[:10]
    except Exception as e:
        return "setup", f"{type(e).__name__}: {e}", 0, 0, [], []
    finally:
        shutil.rmtree(copy, ignore_errors=True)
        shutil.rmtree(xdg, ignore_errors=True)


class C15(Prop):
    """Theorems (Props/C15.lean): the rebuild state machine keeps the invariant `metadata says current and the index opens => the committed index is the shipped data` through every step, crash prefix and listed damage, so every history ends with fresh answers and the metadata is written only after the commit; correspondence: real runs aborted at each crash point from every prior directory state, followed by restarts, compared with the model's predicted metadata state and with a freshly built in-memory database. Also in the model and in the real histories: in-memory sessions with the same directory, starts of ANOTHER build of the same version with other data (`C15_inv_foreign`; a second real build from a scratch copy), other data of the same shape."""
    id = "C15"
    module = "Anything.Props.C15"
    trusted = ["tantivy: commit is atomic, an uncommitted writer is invisible after restart", "file system: each modelled step is atomic; File::create + write is two steps"]

    def cases(self, rng, tier):
        return []

    def scenarios(self, rng, tier):
        probes = ["population finland", "mass earth", "population world", "radius moon", "distance sun", "mass sun",
                  "population sweden", "orbital period mars", "nothing such thing", "c", "mass vulcan", "population atlantis"]
        nfacts = len([f for f in dump_facts() if "tokens" in f])
        rc, fresh = dbopen("mem", probes, tag="c15")
        tmpl = SCR / "xdg-c15-template"
        shutil.rmtree(tmpl, ignore_errors=True)
        rc, lines = dbopen("disk", probes, xdg=tmpl, tag="c15")
        current = json.loads((tmpl / "facts" / "meta.json").read_text())
        spec_fail, corr_fail, n, nontriv = [], [], 0, 0
        hist = []
        for prior in PRIOR:
            for cp in CRASH_POINTS + [None]:
                hist.append((prior, [cp]))
        # two crashed runs in a row
        second = CRASH_POINTS if tier == "thorough" else [1, 4, 12, 13, 17]
        for prior in PRIOR if tier == "thorough" else ["complete", "index-missing", "other-data", "meta-garbage"]:
            for cp1 in (CRASH_POINTS if tier == "thorough" else [0, 1, 4, 11, 12, 13, 17]):
                for cp2 in second:
                    hist.append((prior, [cp1, cp2]))
        xdg = SCR / "xdg-c15"
        # model predictions for all histories in one driver call
        rc, pred, err = C.run_lines(C.driver_bin(), ["recover " + p + " " + ",".join("full" if c is None else str(c) for c in cps) for p, cps in hist])
        for (prior, cps), pr in zip(hist, pred):
            make_prior(xdg, prior, tmpl)
            trace = []
            for cp in cps:
                rc, lines = dbopen("disk", probes, xdg=xdg, crash=cp, tag="c15")
                trace.append(meta_state(xdg, current))
            # after the crashed runs: the metadata must not claim "current" unless a plain restart answers correctly
            rc, lines = dbopen("disk", probes, xdg=xdg, tag="c15")
            n += 1
            name = f"prior={prior} crashes={cps}"
            final_meta = meta_state(xdg, current)
            observed = "M " + ",".join(trace) + " F " + final_meta + (" ANSWERS-FRESH" if lines == fresh else " ANSWERS-DIFFER")
            cnt = subprocess.run([C.harness_bin(False), "dbcount", str(xdg / "facts" / "index")], capture_output=True, text=True, timeout=120, env=C.ENV).stdout.strip()
            if lines != fresh:
                diff = [C.unhex(l.split(" ")[1]) if l.startswith("A ") and len(l.split(" ")) > 1 else l for l, r in zip(lines, fresh) if l != r][:3]
                spec_fail.append((f"history:{prior}:{cps}", name, f"{name}: answers after restart differ from a fresh in-memory database: {diff}"))
            elif cnt != f"COUNT {nfacts}":
                spec_fail.append((f"history:{prior}:{cps}", name, f"{name}: after a complete start the index holds `{cnt}` documents, the shipped data has {nfacts} constants"))
            else:
                nontriv += 1
            if pr != observed:
                corr_fail.append((name, observed, pr))
        # an IN-MEMORY session (`Db::in_memory()`) started with the same data directory between two
        # on-disk starts must leave the directory alone: whatever state it was in — also after a
        # build that was killed — the next on-disk start still answers from the shipped data
        mem_hist = [(prior, []) for prior in PRIOR] + [(prior, [cp]) for prior in ("absent", "complete", "other-data", "index-emptied", "other-version")
                                                       for cp in (CRASH_POINTS if tier == "thorough" else [1, 4, 10, 11, 12, 13])]
        rc, mpred, err = C.run_lines(C.driver_bin(), ["recover " + p_ + " " + ",".join([str(c) for c in cps_] + ["mem"]) for p_, cps_ in mem_hist])
        for (prior, cps), pr in zip(mem_hist, mpred):
            make_prior(xdg, prior, tmpl)
            trace = []
            for cp in cps:
                dbopen("disk", probes, xdg=xdg, crash=cp, tag="c15")
                trace.append(meta_state(xdg, current))
            rc, mlines = dbopen("mem", probes, xdg=xdg, tag="c15")
            trace.append(meta_state(xdg, current))
            rc, lines = dbopen("disk", probes, xdg=xdg, tag="c15")
            n += 1
            name = f"prior={prior} crashes={cps} then an in-memory session, then an on-disk start"
            observed = "M " + ",".join(trace) + " F " + meta_state(xdg, current) + (" ANSWERS-FRESH" if lines == fresh else " ANSWERS-DIFFER")
            if pr != observed:
                corr_fail.append((name, observed, pr))
            if mlines != fresh:
                spec_fail.append((f"history:mem:{prior}:{cps}", name, f"{name}: the in-memory session itself answers differently from a fresh one"))
            elif lines != fresh:
                diff = [C.unhex(l.split(" ")[1]) if l.startswith("A ") and len(l.split(" ")) > 1 else l for l, r in zip(lines, fresh) if l != r][:3]
                spec_fail.append((f"history:mem:{prior}:{cps}", name, f"{name}: answers differ from a fresh in-memory database: {diff}"))
            else:
                nontriv += 1
        # LEFTOVER SIDE FILES: an interrupted atomic write (or an editor, a backup tool) leaves a
        # sibling of meta.json holding a COMPLETE metadata record of this very build. Such a file must
        # not vouch for anything: from every listed state, after builds killed around the commit, the
        # next complete start answers from the shipped data and the metadata states are those the model
        # predicts for the same history without the side files (they are no part of the model's state)
        side_names = ["meta.json.tmp", "meta.json.bak", "meta.json~", ".meta.json.tmp", "meta.json.new", "meta.json.old", "meta.tmp", "meta.json.swp"]
        side_hist = [(prior, cps) for prior in ("complete", "index-missing", "index-emptied", "meta-missing", "stale-wrong-hash", "olddocs-wrong-hash", "other-data", "absent")
                     for cps in ([], [10], [11], [12], [13], [4, 11], [11, 11])]
        rc, spred, err = C.run_lines(C.driver_bin(), ["recover " + p_ + " " + ",".join([str(c) for c in cps_] + ["full"]) for p_, cps_ in side_hist])
        for (prior, cps), pr in zip(side_hist, spred):
            make_prior(xdg, prior, tmpl)
            (xdg / "facts").mkdir(parents=True, exist_ok=True)
            for sn in side_names:
                (xdg / "facts" / sn).write_text(json.dumps(current))
            trace = []
            for cp in cps:
                dbopen("disk", probes, xdg=xdg, crash=cp, tag="c15")
                trace.append(meta_state(xdg, current))
            rc, lines = dbopen("disk", probes, xdg=xdg, tag="c15")
            trace.append(meta_state(xdg, current))
            rc, lines2 = dbopen("disk", probes, xdg=xdg, tag="c15")
            n += 1
            name = f"prior={prior} plus leftover side files ({', '.join(side_names[:3])}, …) holding a complete current metadata record, crashes={cps}, then a complete start"
            observed = "M " + ",".join(trace) + " F " + meta_state(xdg, current) + (" ANSWERS-FRESH" if lines2 == fresh else " ANSWERS-DIFFER")
            if pr != observed:
                corr_fail.append((name, observed, pr))
            bad = lines if lines != fresh else (lines2 if lines2 != fresh else None)
            if bad is not None:
                diff = [C.unhex(l.split(" ")[1]) if l.startswith("A ") and len(l.split(" ")) > 1 else l for l, r in zip(bad, fresh) if l != r][:3]
                spec_fail.append((f"history:side:{prior}:{cps}", name, f"{name}: answers differ from a fresh in-memory database: {diff}"))
            else:
                nontriv += 1
        # ANOTHER build of the same version that ships other data, on the same data directory: its
        # starts, complete or killed at the crash points, interleaved with ours (needs a second build
        # with the hooks on: thorough tier, and quick tier when db.rs / config.rs differ from the pin)
        from . import fingerprints as _fp
        foreign = "not run (quick tier, db.rs and config.rs as pinned)"
        if tier == "thorough" or _fp.stale_for("C15"):
            status, detail, fn_, fnon, ffails, fcorr = foreign_build_histories(probes, fresh, tmpl, current, tier)
            foreign = status + ": " + detail[:160]
            n += fn_
            nontriv += fnon
            spec_fail = ffails + spec_fail
            corr_fail = fcorr + corr_fail
        shutil.rmtree(xdg, ignore_errors=True)
        shutil.rmtree(tmpl, ignore_errors=True)
        # "written for other data" with NOTHING but the content different (same asset names, byte
        # lengths, modification times): needs a scratch copy of the tree and a build of it, so it
        # runs in the thorough tier, and in the quick tier whenever src/db.rs or src/config.rs
        # differ from the pinned commit
        from . import fingerprints
        shape = "not run (quick tier, db.rs and config.rs as pinned)"
        if tier == "thorough" or fingerprints.stale_for("C15"):
            status, detail = same_shape_other_data()
            shape = status + ": " + detail[:200]
            n += 1
            if status == "fail":
                spec_fail.insert(0, ("history:same-shape-other-data", "same-shape-other-data", detail))
            elif status == "ok":
                nontriv += 1
        return {"evaluations": n, "nontrivial": nontriv, "spec_fail": spec_fail[:10], "corr_fail": corr_fail[:10],
                "dist": {"histories": len(hist), "prior_states": len(PRIOR), "crash_points": len(CRASH_POINTS), "same-shape-other-data: " + shape: 1, "foreign-build histories: " + foreign: 1},
                "samples": [{"history": f"prior={p} crashes={c}"} for p, c in hist[:: max(1, len(hist) // 5)][:5]]}


class C16(Prop):
    """Theorems (Props/C16.lean): for every shipped constant whose words can be typed (777 of 878; kernel run of lexer, parser and evaluator models on each) the query of its words performs exactly one lookup of exactly that phrase; the query's terms are the constant's indexed terms (also permuted), no word loses all its terms; top-1 returns a carrier of all words whenever carriers outscore non-carriers. That separation for tantivy's BM25 is established per run by exhaustive execution over all shipped constants and their word permutations, not proved (partial). Unified language (Props/UnifiedQuery.lean): `C16_phrase_in_expression` — every fact leaf of an expression is looked up exactly once with exactly its phrase."""
    id = "C16"
    module = "Anything.Props.C16"
    extra_modules = ["Anything.Props.FactQuery", "Anything.Props.UnifiedQuery"]
    needs_db_tables = True
    trusted = ["tantivy n-gram tokenizer, query parser and BM25 ranking (validated by exhaustive execution, not proved)"]

    def cases(self, rng, tier):
        return []

    def scenarios(self, rng, tier):
        facts = dump_facts()
        spec_fail = []
        for f in facts:
            if "error" in f:
                spec_fail.append(("decode", f["error"], f"shipped data does not decode: {f['error']}"))
        facts = [f for f in facts if "tokens" in f]
        qs, owners = [], []
        typ = 0
        for f in facts:
            if not typeable(f["tokens"]):
                continue
            typ += 1
            perms = [f["tokens"]]
            if len(f["tokens"]) > 1:
                perms.append(list(reversed(f["tokens"])))
                if tier == "thorough" and len(f["tokens"]) > 2:
                    t = f["tokens"]
                    perms += [t[1:] + t[:1], t[2:] + t[:2]]
            for p in perms:
                if p[0][0].isdigit():
                    continue
                qs.append(" ".join(p))
                owners.append(f)
        # through the whole query path (parser + evaluator), with descriptions
        lines = [f"query {C.hexs(q)} describe" for q in qs]
        rc, impl, err = C.run_lines(C.harness_bin(False), lines, watchdog=20)
        rc, ans = dbopen("mem", qs, tag="c16")
        ans = ans[1:]
        n, nontriv = 0, 0
        for q, f, im, a in zip(qs, owners, impl, ans):
            n += 1
            if not a.startswith("A ") or a in ("A NONE", "A ERR"):
                spec_fail.append((f"query:{q}", q, f"{q!r}: nothing found ({a})"))
                continue
            parts = a.split(" ")
            toks = [C.unhex(t).lower() for t in parts[4].split(";")] if len(parts) > 4 and parts[4] else []
            missing = [w for w in q.split(" ") if w.lower() not in toks]
            if missing:
                spec_fail.append((f"query:{q}", q, f"{q!r}: returned constant {C.unhex(parts[1])!r} does not carry {missing}"))
                continue
            if not im.startswith("R OK ") or " | " in im.split(" # D")[0]:
                spec_fail.append((f"query:{q}", q, f"{q!r}: the query did not evaluate to one value: {im[:80]}"))
                continue
            d = im.split(" # D")
            if len(d) != 2 or d[1].strip() != f"{C.hexs(q)}=>{parts[1]}":
                spec_fail.append((f"query:{q}", q, f"{q!r}: expected exactly one lookup of exactly that phrase, got {d[1:]!r}"))
                continue
            nontriv += 1
        return {"evaluations": n, "nontrivial": nontriv, "spec_fail": spec_fail[:10],
                "dist": {"constants": len(facts), "typeable": typ, "queries": len(qs)},
                "samples": [{"query": q, "answer": C.unhex(a.split(' ')[1]) if a.startswith('A ') and len(a.split(' ')) > 1 else a} for q, a in list(zip(qs, ans))[:: max(1, len(qs) // 4)][:4]]}


class C17(Prop):
    """Theorems (Props/C17.lean): value-level and byte-level round trips for big integers, rationals, units, states, compounds, constants (all values; UTF-8 round trip proved), encode injective, identifiers unique and decode to their unit, JSON printer injective, identifiers recorded at the pinned commit still denote the same unit. Correspondence: implementation bytes = model bytes for random rationals/compounds, every unit, every shipped constant; bytes written by the pinned build and every shipped fact decode to the same units by name; every typed unit name survives a round trip by display name."""
    id = "C17"
    module = "Anything.Props.C17"
    needs_tables = True
    trusted = ["serde_cbor / serde_json / num serde wire formats (modelled, tied byte for byte by the correspondence)"]

    def spec_verdict(self, case, impl, spec):
        return "round trip failed or encoding error: " + impl if ("RTFAIL" in impl or impl.startswith("PANIC") or impl == "B ERR" or impl == "B ?") else None

    def nontrivial(self, case, impl):
        return impl.startswith("B ") and len(impl) > 8

    def cases(self, rng, tier):
        from . import translator as T
        m = T.meta()
        if m is None:
            # the tables could not be extracted (reported as a broken obligation by the engine):
            # fall back to the identifiers recorded at the pinned commit
            ids = sorted(int(l.split("\t")[1]) for l in (C.VERIF / "pinned" / "unit_bytes.tsv").read_text().splitlines() if l)
        else:
            ids = sorted(set(m["idmap"].values()))
        bases = ["KiloGram", "Candela", "Meter", "Second", "Ampere", "Kelvin", "Mole", "Byte"]
        keys = [f"D{i}" for i in ids] + bases
        out = []
        for k in keys:
            for p, x in ((1, 0), (-1, 3), (2, -24), (23, 24), (-25, -25), (256, 255), (-70000, 70000)):
                out.append(Case(f"cbor unit {k}:{p}:{x}", "every-unit", f"{k}^{p} prefix {x}"))
        for a in (0, 1, -1, 2 ** 32 - 1, 2 ** 32, 2 ** 32 + 1, 2 ** 64, -2 ** 64, 2 ** 31, 23, 24, 255, 256, 65535, 65536, 2 ** 96 - 1):
            out.append(Case(f"cbor rat {a}/1", "limb-edges", f"{a}"))
            out.append(Case(f"cbor rat 1/{abs(a) + 1}", "limb-edges", f"1/{abs(a) + 1}"))
        # where the CBOR length header changes shape: arrays of 23 / 24 / 25 and 255 / 256 / 257 limbs
        # (a limb is 32 bits), maps of 23 / 24 / 25 and more units, powers and prefixes at the i32 ends
        for limbs in (22, 23, 24, 25, 26, 255, 256, 257, 300):
            for a in (2 ** (32 * limbs) - 1, 2 ** (32 * limbs), -(2 ** (32 * limbs)) - 12345, 2 ** (32 * limbs - 1)):
                out.append(Case(f"cbor rat {a}/1", "limb-edges", f"±2^{32 * limbs}…"))
                out.append(Case(f"cbor rat 7/{abs(a) + 2}", "limb-edges", f"7/(2^{32 * limbs}…)"))
        for size in (22, 23, 24, 25, 26, 40, len(keys)):
            for rep in range(3):
                ks = list(keys)
                for i in range(len(ks) - 1, 0, -1):
                    j = rng.below(i + 1)
                    ks[i], ks[j] = ks[j], ks[i]
                u = ",".join(f"{k}:{rng.choice([-3, -1, 1, 2, 24, -25])}:{rng.choice([-24, -3, 0, 3, 24])}" for k in ks[:size])
                out.append(Case(f"cbor unit {u}", "big-compound", f"{size} units"))
        for k in ("Meter", "Second", f"D{ids[0]}", f"D{ids[-1]}"):
            for p in (2 ** 31 - 1, -(2 ** 31), 2 ** 31 - 2, -(2 ** 31) + 1, 2 ** 16, -(2 ** 16) - 1, 2 ** 24, 2 ** 8, -(2 ** 8) - 1):
                for x in (0, 2 ** 31 - 1, -(2 ** 31)):
                    out.append(Case(f"cbor unit {k}:{p}:{x}", "state-edges", f"{k}^{p} prefix {x}"))
        n = 1500 if tier == "quick" else 40000
        for _ in range(n):
            a = rng.range(-2 ** rng.range(0, 300), 2 ** rng.range(0, 300))
            b = rng.range(1, 2 ** rng.range(0, 300))
            out.append(Case(f"cbor rat {a}/{b}", "random-rat", f"{a}/{b}"))
        for _ in range(n):
            d = {}
            for _ in range(rng.range(0, 5)):
                d[rng.choice(keys)] = (rng.choice([-300, -25, -24, -3, -2, -1, 1, 2, 3, 23, 24, 255, 256, 70000]),
                                       rng.choice([-30, -25, -24, -1, 0, 3, 23, 24, 300]))
            u = ",".join(f"{k}:{p}:{x}" for k, (p, x) in d.items()) or "-"
            out.append(Case(f"cbor unit {u}", "random-compound", u))
        for f in dump_facts():
            if "raw" not in f:
                continue
            r = f["raw"]
            out.append(Case(f"cbor const {r[5]} {r[1]} {r[4]} {r[2]} {r[3]}", "shipped-constant", f["desc"]))
        # constants (not only the shipped ones) with every kind of unit: none, one unit, compounds,
        # and compounds whose base dimensions cancel while the unit is not empty (`km/ft`, `min/s`)
        fixed = ["-", "Meter:1:0", "Meter:1:3,D" + str(ids[0]) + ":-1:0", "Second:-1:0", "Meter:1:3,Meter:-1:0"]
        from .props_units import vocab
        v = vocab()
        classes = [ws for ws in v.by_dims.values() if len({w[2] for w in ws if not w[6]}) >= 2]
        for _ in range(300 if tier == "quick" else 5000):
            if rng.chance(1, 2):
                ws = [w for w in rng.choice(classes) if not w[6]]
                a = rng.choice(ws)
                b = rng.choice([w for w in ws if w[2] != a[2]])
                pw = rng.choice([1, 1, 2, -1])
                u = f"{a[2]}:{pw}:{a[3]},{b[2]}:{-pw}:{b[3]}"
            else:
                d = {}
                for _ in range(rng.range(0, 4)):
                    d[rng.choice(keys)] = (rng.choice([-3, -2, -1, 1, 2, 3]), rng.choice([-24, -3, 0, 3, 24]))
                u = ",".join(f"{k}:{p_}:{x}" for k, (p_, x) in d.items()) or "-"
            val = f"{rng.range(-10 ** 6, 10 ** 6)}/{rng.range(1, 1000)}"
            src_ = rng.choice(["-", "0", "7", "4294967296"])
            toks = ";".join(C.hexs(w) for w in rng.choice([["speed", "light"], ["x"], ["Ünï", "cødé"], []])) or "-"
            out.append(Case(f"cbor const {src_} {toks} {C.hexs('a constant')} {val} {u}", "random-constant", f"constant with unit {u}"))
        for u in fixed:
            out.append(Case(f"cbor const - {C.hexs('w')} {C.hexs('d')} 3/1 {u}", "random-constant", f"constant with unit {u}"))
        return out


    def scenarios(self, rng, tier):
        """Stored data keeps its meaning across builds: bytes written by the pinned build for
        every derived unit, and every shipped fact, must decode with the build under test to
        the unit of the same name (pinned/*.tsv, recorded by tools/mkpinned.py)."""
        fails, n, ok = [], 0, 0
        rows = [l.split("\t") for l in (C.VERIF / "pinned" / "unit_bytes.tsv").read_text().splitlines() if l]
        rc, dec, err = C.run_lines(C.harness_bin(False), [f"cbor deunitname {r[3]}" for r in rows], watchdog=10)
        for r, d in zip(rows, dec):
            n += 1
            f = d.split(" ")
            if f[:2] == ["B", "OK"] and f[2] == r[2]:
                ok += 1
            else:
                got = C.unhex(f[2]) if len(f) > 2 else d
                fails.append((f"stored-unit:{r[0]}", f"cbor deunitname {r[3]}",
                              f"bytes written for unit {r[0]} ({C.unhex(r[2])!r}, id {r[1]}) by the pinned build now decode as {got!r}"))
        # every reference unit name: what is typed, written and read back is displayed the same
        from . import refsweep as R
        names = sorted({r[0] for r in R.rows() if R.typeable(r[0])})
        rc, rt, err = C.run_lines(C.harness_bin(False), [f"cbor unitword {C.hexs(nm)}" for nm in names], watchdog=10)
        for nm, o in zip(names, rt):
            n += 1
            f = o.split(" ")
            if f[:2] == ["B", "OK"] and f[2] == f[3]:
                ok += 1
            elif f[:2] == ["B", "NOPARSE"]:
                ok += 1   # not a unit word of this build: C05's business
            else:
                shown = (C.unhex(f[2]), C.unhex(f[3])) if len(f) > 3 else o
                fails.append((f"unitword:{nm}", f"cbor unitword {C.hexs(nm)}",
                              f"unit word {nm!r} is written and read back as a different unit: {shown}"))
        pinned = [l.split("\t") for l in (C.VERIF / "pinned" / "facts.tsv").read_text().splitlines() if l]
        now = {}
        for f in dump_facts():
            if "raw" in f:
                r = f["raw"]
                now[(r[6], r[1], r[4])] = (r[2], r[7] if len(r) > 7 else "?")
        for (fname, toks, value, unit, desc) in pinned:
            n += 1
            got = now.get((fname, toks, desc))
            if got == (value, unit):
                ok += 1
            else:
                words = " ".join(C.unhex(t) for t in toks.split(";")) if toks != "-" else ""
                fails.append((f"shipped-fact:{fname}:{words}", words,
                              f"shipped fact {C.unhex(desc)!r} ({fname}) decoded as {value} {C.unhex(unit) if unit != '-' else ''} by the pinned build, now "
                              + (f"{got[0]} {C.unhex(got[1]) if got[1] not in ('-', '?') else got[1]}" if got else "missing")))
        return {"evaluations": n, "nontrivial": ok, "spec_fail": fails[:40], "dist": {"pinned-unit-bytes": len(rows), "pinned-shipped-facts": len(pinned)},
                "samples": [{"input": f"cbor deunitname {rows[0][3]}", "implementation": dec[0] if dec else None}]}


class C18(Prop):
    """Theorems (Props/C18.lean): values do not depend on the describe flag; no log without it; the log appends, independent of the incoming log; every entry is a successful lookup paired with that constant's description; the value depends on the database only through the reported phrases (and each is needed); order (right operand first); results of several queries = results in isolation, also permuted. Correspondence: expressions mixing literals and facts with and without descriptions in varying orders; isolation scenario (fresh instance per phrase vs shared instance in several orders, case variants, capitalised operators). Unified language (Props/UnifiedQuery.lean): `C18_query_unified` — same values with and without describe and the exact log for quantity expressions with fact leaves. Full language (Props/FullQuery.lean): `C18_query_full` — describe does not change the value and the log is the lookups in evaluation order, for the whole language. The description block printed by `any --describe` is compared with lines composed independently from the library's descriptions and the database's source records."""
    id = "C18"
    module = "Anything.Props.C18"
    extra_modules = ["Anything.Props.FactQuery", "Anything.Props.UnifiedQuery", "Anything.Props.FullQuery"]
    needs_tables = True
    trusted = ["lookups are answered by the real database and handed to the model as a table"]

    def observable(self, line):
        return line

    def nontrivial(self, case, impl):
        return " # D " in impl and "=>" in impl

    def prepare(self, cases, impl_lines):
        self._by_text = {}
        for c, im in zip(cases, impl_lines):
            self._by_text.setdefault(c.text, {})[c.tag.split(":")[0]] = im

    def spec_verdict(self, case, impl, spec):
        if impl.startswith("PANIC"):
            return "panic"
        both = self._by_text.get(case.text, {})
        plain, desc = both.get("plain"), both.get("describe")
        if plain is None or desc is None:
            return None
        if desc.split(" # D")[0].rstrip() != plain.rstrip():
            return f"values differ with descriptions enabled: {plain[:80]} vs {desc[:80]}"
        if case.tag.startswith("describe") and case.expect is not None:
            got = desc.split(" # D")[1].split() if " # D" in desc else []
            got_ph = sorted(g.split("=>")[0] for g in got)
            if got_ph != sorted(case.expect):
                return f"descriptions {[C.unhex(g) for g in got_ph]} are not the looked-up phrases {[C.unhex(g) for g in sorted(case.expect)]}"
        return None

    ISO_PHRASES = ["population finland", "population sweden", "mass earth", "mass sun", "radius moon", "population world",
                   "distance sun", "mass moon", "radius earth", "population norway",
                   # spellings that differ only in letter case, and words that tantivy's query
                   # parser treats as operators when capitalised: different phrases, possibly
                   # different facts, which no shared state may confuse
                   "mass not earth", "mass NOT earth", "Mass Earth", "MASS EARTH", "mass Earth", "population or finland",
                   "population OR finland", "mass and sun", "mass AND sun", "Population Finland", "POPULATION FINLAND",
                   "radius not moon", "radius NOT moon", "mass NOT sun", "mass not sun", "pop", "Pop", "POP", "a", "A"]

    def scenarios(self, rng, tier):
        """Isolation: each phrase must get, on a database instance that has already answered
        other phrases (in several different orders), the answer it gets from a fresh
        instance."""
        P = list(self.ISO_PHRASES)
        orders = [P, list(reversed(P))]
        for _ in range(2 if tier == "quick" else 8):
            q = list(P)
            for i in range(len(q) - 1, 0, -1):
                j = rng.below(i + 1)
                q[i], q[j] = q[j], q[i]
            orders.append(q + q[: len(q) // 2])
        fresh = {}
        for p in P:   # one fresh process (hence database instance) per phrase
            rc, res, err = C.run_lines(C.harness_bin(False), ["lookup " + C.hexs(p)], watchdog=30)
            fresh[p] = res[0] if res else "?"
        fails, n = [], 0
        for oi, order in enumerate(orders):
            rc, res, err = C.run_lines(C.harness_bin(False), ["lookup " + C.hexs(p) for p in order], watchdog=30)
            for k, (p, r) in enumerate(zip(order, res)):
                n += 1
                if r != fresh[p]:
                    fails.append((f"isolation:{p}", " ; ".join(order[:k + 1]),
                                  f"lookup of {p!r} answered {r[:80]} after {k} other lookups on the same instance, but {fresh[p][:80]} on a fresh one"))
        distinct = len(set(fresh.values()))
        # what `any --describe` REPORTS: one line per looked-up constant in evaluation order, each
        # with its own description and its own source (constants with and without a source mixed,
        # several results in one query) — composed independently from the library's descriptions
        ok_b, _log = C.build_any_binary(False)
        src_less = ["pi", "speed of light", "standard gravity g0"]
        sourced = ["population finland", "mass earth", "radius moon", "population world", "mass of earth", "distance sun"]
        dq = ["pi * population finland", "population finland * pi", "(mass of earth) (pi)", "(pi) (mass of earth) (pi)",
              "speed of light to km/s", "2 * pi * radius moon", "pi", "mass earth", "nosuchfact here * pi", "pi * nosuchfact here"]
        for _ in range(40 if tier == "quick" else 600):
            k = rng.range(2, 4)
            parts = [rng.choice(src_less if rng.chance(1, 2) else sourced) for _ in range(k)]
            form = rng.below(3)
            if form == 0:
                dq.append((" " + rng.choice("*/") + " ").join(parts))
            elif form == 1:
                dq.append(" ".join(f"({p_})" for p_ in parts))
            else:
                dq.append(f"({parts[0]} * {parts[1]}) ({' * '.join(parts[1:])})")
        dl = []
        for q in dq:
            dl += ["libdesc " + C.hexs(q), "clidesc " + C.hexs(q)]
        rc, dout, err = C.run_lines(C.harness_bin(False), dl, watchdog=30) if ok_b else (1, [], "")
        dn = 0
        for i, q in enumerate(dq):
            if 2 * i + 1 >= len(dout):
                break
            want, got = dout[2 * i], dout[2 * i + 1]
            dn += 1
            if want != got:
                show = lambda e: [C.unhex(x) for x in e[2:].split("|")] if e.startswith("E ") and e != "E -" else e
                fails.append((f"cli-describe:{q}", q, f"`any --describe '{q}'` reports {show(got)}, the library looked up and described {show(want)}"))
        return {"evaluations": n + len(P) + dn, "nontrivial": sum(1 for v in fresh.values() if v.startswith("L OK")),
                "spec_fail": fails[:20], "dist": {"isolation-lookups": n, "fresh-instance-lookups": len(P), "distinct-answers": distinct, "cli-describe-queries": dn},
                "samples": [{"input": "lookup " + p, "implementation": fresh[p][:100]} for p in P[10:14]]}

    def cases(self, rng, tier):
        phrases = ["population finland", "population sweden", "mass earth", "mass sun", "radius moon", "population world",
                   "distance sun", "mass moon", "radius earth", "population norway"]
        rc, res, err = C.run_lines(C.harness_bin(False), ["lookup " + C.hexs(p) for p in phrases], watchdog=20)
        good = [p for p, r in zip(phrases, res) if r.startswith("L OK")]
        out = []
        n = 250 if tier == "quick" else 6000
        texts = []
        for _ in range(n):
            k = rng.range(1, 4)
            parts, used = [], []
            for i in range(k):
                if rng.chance(2, 3):
                    p = rng.choice(good)
                    parts.append(p)
                    used.append(p)
                else:
                    parts.append(str(rng.range(1, 9)))
                if i < k - 1:
                    parts.append(rng.choice(["*", "/", "*", "/", "+"]))
            t = " ".join(parts)
            if rng.chance(1, 6):
                t = "round( " + t + " )"
            if rng.chance(1, 8) and used:
                t = t + " * nosuchfact here"   # a failing lookup after successful ones
            texts.append((t, used))
        # one query string with SEVERAL results that look up the same phrase again (the results of
        # one query share one description log)
        for _ in range(60 if tier == "quick" else 1500):
            p1, p2 = rng.choice(good), rng.choice(good)
            form = rng.below(5)
            if form == 0:
                t, used = f"({p1}) (2 * {p1})", [p1, p1]
            elif form == 1:
                t, used = f"{p1} (3 / {p1})", [p1, p1]
            elif form == 2:
                t, used = f"({p1}) ({p2}) ({p1})", [p1, p2, p1]
            elif form == 3:
                t, used = f"({p1} * 2) ({p1} * {p1})", [p1, p1, p1]
            else:
                t, used = f"(1) ({p1}) (2) ({p1} / {p2})", [p1, p2, p1]
            texts.append((t, used))
        # a fact under one cast or a chain of casts is looked up (and described) ONCE
        UNITS = {"mass": ["kg", "g", "lb", "t", "ounces"], "radius": ["m", "km", "mi", "ft", "au"], "distance": ["m", "km", "mi", "ly", "au"]}
        for _ in range(40 if tier == "quick" else 800):
            p1 = rng.choice([p for p in good if p.split(" ")[0] in UNITS] or good)
            us = UNITS.get(p1.split(" ")[0], ["m"])
            k = rng.range(1, 3)
            chain = "".join(" to " + rng.choice(us) for _ in range(k))
            form = rng.below(4)
            if form == 0:
                t, used = p1 + chain, [p1]
            elif form == 1:
                t, used = f"2 * {p1}" + chain, [p1]
            elif form == 2:
                t, used = f"({p1}{chain}) + ({p1}{chain})", [p1, p1]
            else:
                t, used = "pi" + "".join(" to " + rng.choice(["m", "km", "cm"]) for _ in range(k)), ["pi"]
            texts.append((t, used))
        # several queries against the same instance, in varying orders (duplicates included)
        order = list(range(len(texts))) + [rng.below(len(texts)) for _ in range(len(texts) // 2)]
        for i in order:
            t, used = texts[i]
            out.append(Case(f"query {C.hexs(t)}", "plain", t))
            # an expression that fails at some point may log fewer descriptions: only constrain error-free ones
            exp = [C.hexs(p) for p in used] if "nosuchfact" not in t and "+" not in t else None
            out.append(Case(f"query {C.hexs(t)} describe", "describe", t, expect=exp))
        return out
