"""C08 (printed decimals) and C19 (command line output)."""
from . import common as C
from .engine import Case, Prop


class C08(Prop):
    """Theorems (Props/C08.lean) about the printing model + correspondence: the printed text read back is the value cut off toward zero at the last printed digit, with the continuation mark exactly when something non-zero was cut off; all three printing paths, every digit budget. `Props/C08Reader.lean`: mark-free printed text fed to the model of the tool's OWN reader (`Number.fromStr`) gives back exactly the printed value (`C08_reader_roundtrip_partial`, up to the reader's u32 counters; implementation side: C07's `printed-by-the-tool` family)."""
    id = "C08"
    needs_knobs = ("default",)
    module = "Anything.Props.C08"
    extra_modules = ["Anything.Props.C08Reader"]   # printer ∘ the tool's own reader (Number.fromStr) = identity on mark-free text
    trusted = ["Spec.Printed (read-back and faithfulness) is human input"]

    def nontrivial(self, case, impl):
        return impl.startswith("S ") and len(impl) > 3

    def prepare(self, cases, impl_lines):
        req = []
        for c, im in zip(cases, impl_lines):
            f = c.line.split(" ")
            text = im[2:] if im.startswith("S ") else ""
            req.append(f"readback {C.hexs(text)} {f[1]} {f[2]}")
        rc, out, err = C.run_lines(C.driver_bin(), req, timeout=1800)
        self._v = {id(c): o for c, o in zip(cases, out)}

    def spec_verdict(self, case, impl, spec):
        if not impl.startswith("S "):
            return f"no text: {impl}"
        if case.line.split(" ")[5] != "1":
            return None  # the mark is switched off: the property speaks about the default
        v = self._v.get(id(case), "V ?")
        return None if v == "V ACCEPT" else v[2:]

    def cases(self, rng, tier):
        out = []
        N, D = (60, 40) if tier == "quick" else (150, 120)
        lims = (1, 2, 3, 6, 12) if tier == "quick" else range(1, 21)
        els = (1, 2, 8, 12) if tier == "quick" else range(1, 16)
        step = 1 if tier == "quick" else 7
        k = 0
        for num in range(-N, N + 1):
            for den in range(1, D + 1):
                for lim in lims:
                    for el in els:
                        k += 1
                        if k % step:
                            continue
                        out.append(Case(f"disp {num} {den} {lim} {el} 1", "grid", f"{num}/{den} limit={lim} exp={el}"))
        # values sitting exactly on a digit budget
        for lim in range(1, 21):
            for el in (1, 4, 8, 12, 15):
                for base in (10 ** lim, 10 ** lim + 1, 10 ** lim - 1, 10 ** (el + 1), 10 ** el, 10 ** (el + lim), 10 ** (el + lim) + 5):
                    for den in (1, 2, 8, 3, 10 ** lim, 10 ** (lim + 1), 3 * 10 ** lim):
                        out.append(Case(f"disp {base} {den} {lim} {el} 1", "budget-edge", f"{base}/{den} limit={lim} exp={el}"))
                        out.append(Case(f"disp {-base} {den} {lim} {el} 1", "budget-edge", f"{-base}/{den} limit={lim} exp={el}"))
                        out.append(Case(f"disp 1 {base * den} {lim} {el} 1", "budget-edge", f"1/{base*den} limit={lim} exp={el}"))
        n = 4000 if tier == "quick" else 100000
        for _ in range(n):
            a = rng.range(-10 ** rng.range(0, 45), 10 ** rng.range(0, 45))
            b = rng.range(1, 10 ** rng.range(0, 45))
            if rng.chance(1, 3):
                b = 2 ** rng.range(0, 30) * 5 ** rng.range(0, 30)  # terminating
            lim, el = rng.range(1, 20), rng.range(1, 15)
            out.append(Case(f"disp {a} {b} {lim} {el} {0 if rng.chance(1, 10) else 1}", "random", f"{a}/{b} limit={lim} exp={el}"))
        # every order of magnitude up to 10^720 and down to 10^-720 (the exponent that is printed is
        # a digit COUNT of a big integer: estimates by bit length go wrong only at a few hundred
        # digits), just above, at and just below a power of ten
        ks = range(0, 721) if tier == "thorough" else list(range(0, 721, 3)) + [205, 206, 264, 351, 410, 469, 497, 256, 257, 512, 513, 681, 682]
        for k in ks:
            p10 = 10 ** k
            for num, den in ((p10, 1), (p10 + 1, 1), (p10 - 1, 1), (1002 * p10, 1000), (9999999999999999 * p10, 10 ** 15), (1, p10), (3, 1002 * p10)):
                if num == 0:
                    continue
                for lim, el in ((12, 12), (3, 2)):
                    out.append(Case(f"disp {num} {den} {lim} {el} 1", "magnitude", f"10^{k} family {num if k < 30 else '…'}/{den if k < 30 else '…'} limit={lim} exp={el}"))
        return out


class C19(Prop):
    """Theorems (Props/C19.lean): the printing loop stated outright (exact/decimal number, space iff the unit has a numerator, plural only when the value is not one, one item per result, errors do not stop the loop) + correspondence between the real `any` binary and the model applied to the library's results. `C19_power_text`: the superscript digits the model writes for a unit power read back to exactly that power. Diagnostics are compared by kind and by line:column against the library's error range; a query handed over as several arguments prints what it prints as one."""
    id = "C19"
    needs_knobs = ("cli",)
    module = "Anything.Props.C19"
    needs_tables = True
    watchdog_s = 30
    trusted = ["codespan-reporting diagnostic layout (reduced to message kind and start column)", "structopt argument handling"]

    def pre_build(self):
        ok, log = C.build_any_binary(False)
        import shutil
        shutil.rmtree(C.SCRATCH / "xdg-cli", ignore_errors=True)
        (C.SCRATCH / "xdg-cli").mkdir(parents=True, exist_ok=True)
        return [("cargo build --bin any from /repo working tree (hooks off)", ok, log[-400:] if not ok else "")]

    def observable(self, line):
        # diagnostics: kind and 1-based start column (ASCII queries) -> compare kind only
        f = line.split(" ")
        if f[0] != "O" or len(f) < 2:
            return line
        items = []
        for it in f[1].split("|"):
            if it.startswith("D"):
                items.append("D")
            else:
                items.append(it)
        return "O " + "|".join(items) + " " + " ".join(f[2:])

    def nontrivial(self, case, impl):
        return " L" in impl or "|L" in impl

    def scenarios(self, rng, tier):
        """A query handed over as SEVERAL arguments (`any 2 m + 3 m`, the way a shell passes it)
        prints what the same query prints as one argument, in both modes."""
        from . import mixgen as M
        qs = ["2 m + 3 m", "1 / 3", "10 km to mi", "1 + 2 3 + 4", "5 - -2", "mass earth * 2", "3 kg m / s^2", "round(10 / 3, 2) m",
              "1 / 0 + 1", "2 ^ 10", "50 % * 4", "20 °C to K", "1 m + 1 s", "( 1 + 2 ) * 3", "- 5", "speed of light to km/s"]
        for _ in range(60 if tier == "quick" else 1500):
            qs.append(M.canonical(M.expr(rng, rng.range(0, 2))))
        lines = []
        for q in qs:
            for mode in ("exact", "decimal"):
                lines.append(f"cli {C.hexs(q)} {mode}")
                lines.append(f"clisplit {C.hexs(q)} {mode}")
        rc, out, err = C.run_lines(C.harness_bin(False), lines, watchdog=self.watchdog_s)
        fails, n, nontriv = [], 0, 0
        for i in range(0, len(out) - 1, 2):
            q = qs[i // 4]
            n += 1
            if out[i] != out[i + 1]:
                fails.append((f"split-args:{q}", q, f"`any {q}` (several arguments) prints {out[i + 1][:120]}, `any '{q}'` (one argument) prints {out[i][:120]}"))
            elif " L" in out[i] or "|L" in out[i]:
                nontriv += 1
        return {"evaluations": n, "nontrivial": nontriv, "spec_fail": fails[:10], "dist": {"split-argument-runs": n}}

    def prepare(self, cases, impl_lines):
        """The direct oracle: what the LIBRARY computed for each query (harness `query`,
        in-process), rendered by the model of the printing loop (`render`). A difference
        between that and what the binary printed is a printing fault on that very query."""
        qlines = ["query " + c.line.split(" ")[1] for c in cases]
        rc, lib, err = C.run_lines(C.harness_bin(False), qlines, watchdog=self.watchdog_s)
        req = []
        for c, r in zip(cases, lib):
            mode = c.line.split(" ")[2]
            req.append(f"render {C.hexs(r)} {mode}")
        out = C.run_driver(req)
        self._expected = {}
        for c, r, o in zip(cases, lib, out):
            if r.startswith("R ") and "PANIC" not in r and "UNSUPPORTED" not in r and o.startswith("O "):
                self._expected[id(c)] = (o, r)

    def spec_verdict(self, case, impl, spec):
        if not impl.endswith("X0"):
            return f"binary exited abnormally: {impl[-10:]}"
        if isinstance(case.expect, tuple) and case.expect[0] == "PLURAL":
            items = impl.split(" ")[1].split("|")
            line = C.unhex(items[0][1:]) if items and items[0].startswith("L") else ""
            if not line.endswith(" " + case.expect[1]):
                return f"`{case.text}` printed {line!r}: the unit must be spelled {case.expect[1]!r} (plural only when the value is not one; names as recorded at the pinned commit)"
        exp = self._expected.get(id(case))
        if exp is None:
            return None
        # where the diagnostic points: the library's range start, as line and column (counted in
        # characters) of the query text the program was given
        text = case.text if isinstance(case.text, str) else ""
        try:
            src = bytes.fromhex(case.line.split(" ")[1]) if case.line.split(" ")[1] != "-" else b""
        except ValueError:
            src = text.encode()
        got_pos = [it.split(":", 1)[1] for it in impl.split(" ")[1].split("|") if it.startswith("D") and ":" in it]
        want_pos = []
        for it in exp[0].split(" ")[1].split("|"):
            if it.startswith("D") and ":" in it:
                try:
                    pre = src[: int(it.split(":", 1)[1])].decode("utf-8")
                    want_pos.append(f"{pre.count(chr(10)) + 1}:{len(pre) - (pre.rfind(chr(10)) + 1) + 1}")
                except (ValueError, UnicodeDecodeError):
                    want_pos.append("?")
        if len(got_pos) == len(want_pos) and "?" not in want_pos and got_pos != want_pos and self.observable(impl) == self.observable(exp[0]):
            return (f"the diagnostics of `{text}` point at line:column {got_pos}, but the library reported errors starting at {want_pos} "
                    f"({exp[1][:100]})")
        if self.observable(impl) != self.observable(exp[0]):
            def show(line):
                return [C.unhex(it[1:]) if it.startswith("L") else it for it in line.split(" ")[1].split("|")]
            return f"binary printed {show(impl)} but the library computed {exp[1][:120]}, which prints as {show(exp[0])}"
        return None

    def cases(self, rng, tier):
        from . import exprgen as G
        from . import qgen as Q
        from .props_units import vocab
        v = vocab()
        out = []
        texts = ["1", "1 m", "2 m", "1 decade", "2 decades", "-1 century", "1/3", "2/6", "1e30", "1e-30", "1/7 s",
                 "1 1/s", "3 kg/s", "1 m/s^2", "0.5 km", "1 + ", ")", "1 m + 1 s", "1 +  ) 2", "population finland",
                 "population finland / population world", "1 foot to m", "12c", "1 mile to yards", "10 cables", "1 cable",
                 "1 link", "5 links", "100%", "1000000000000", "1000000000000.5", "123456789012345678901234567890",
                 "1 V*A to W", "7 % 3", "1 ; 2", "1 2 3", "3 m 4 s"]
        for t in texts:
            for mode in ("exact", "decimal"):
                out.append(Case(f"cli {C.hexs(t)} {mode}", "fixed", t))
        # every unit whose plural spelling differs from its singular, at values that are one,
        # a unit fraction 1/n, another fraction, and an integer (the plural is decided by
        # "the value is not one", nothing else)
        # (names as recorded at the pinned commit — pinned/unit_bytes.tsv — not as the current
        # source spells them: a singular/plural mix-up in a unit's own table must not be followed)
        self._plural = {}
        for l in (C.VERIF / "pinned" / "unit_bytes.tsv").read_text().splitlines():
            f = l.split("\t")
            if len(f) < 5:
                continue
            sg, pl = C.unhex(f[2]), C.unhex(f[4])
            if sg != pl and sg.isascii() and sg.isalpha():   # a name that can be typed as one word
                self._plural[sg] = pl
        for u in sorted(self._plural):
            for val in ("1", "0.5", "0.25", "0.1", "0.125", "0.75", "2", "1.5", "-1", "-0.5"):
                for mode in ("exact", "decimal"):
                    c = Case(f"cli {C.hexs(val + ' ' + u)} {mode}", "plural-sweep", f"{val} {u}")
                    c.expect = ("PLURAL", u if val == "1" else self._plural[u])
                    out.append(c)
        # unit powers of one, two and three digits, positive and negative, and prefixes that have
        # no symbol of their own (printed as e<n>)
        for pw in list(range(2, 14)) + [19, 20, 21, 25, 30, 99, 100, 101, 120, 123, 1000, 1234]:
            for u in ("m", "s"):
                for t in (f"2 {u}^{pw}", f"3 kg/{u}^{pw}", f"1 {u}^-{pw}"):
                    out.append(Case(f"cli {C.hexs(t)} decimal", "power-sweep", t))
        # every power up to 1100 once (a truncation to 8 or 10 bits, a wrong digit loop bound, ...
        # show up only at particular exponents), and a sample of larger ones
        for pw in list(range(2, 1101 if tier != "quick" else 700)) + [4095, 4096, 4097, 65535, 65536, 65537, 99999, 1000001, 16777217]:
            t = f"1 m^{pw}" if pw % 2 else f"1 s^-{pw}"
            out.append(Case(f"cli {C.hexs(t)} decimal", "power-range", t))
        # every prefix on a handful of units, gram among them (it is stored as kilogram with a bias):
        # the unit that is PRINTED must be the one that was typed
        from .props_units import vocab as _vocab
        _v = _vocab()
        for pf in sorted({p_[0] for p_ in _v.prefixes if len(p_[0]) <= 2 and p_[0].isascii()}):
            for u in ("g", "m", "s", "A", "K", "mol", "cd", "B", "N", "J", "W", "Pa", "l", "t", "V", "Hz"):
                if pf + u == "dal":
                    continue   # read as decilitre: the recorded logos finding of C05, not a printing matter
                for t in (f"3 {pf}{u}", f"1 / 2 {pf}{u}"):
                    out.append(Case(f"cli {C.hexs(t)} exact", "prefix-display", t))
        # diagnostics must point INTO the query as it was given, blanks at its start included
        for pad in ("", " ", "   ", "\t", "        ", " \t "):
            for t in ("(2) (1/0) (3)", "1 m + 1 s", "(1) round(1,2,3)", "(1) 2 m^2 to s", "1 / 0", "nosuchfact xyz", "(7) (1 m to s) (8) (2 / 0)"):
                out.append(Case(f"cli {C.hexs(pad + t + pad)} decimal", "padded-errors", pad + t + pad))
        # orders of magnitude in the default decimal format (the printed exponent is a digit count)
        for k in list(range(13, 720, 11 if tier == "quick" else 1)) + [205, 206, 264, 351, 410, 469, 497]:
            for t in (f"10^{k}", f"1.002 * 10^{k}", f"1 / 10^{k}", f"3 m * 10^{k}"):
                out.append(Case(f"cli {C.hexs(t)} decimal", "magnitude", t))
        # several results in one query, values and errors in every order (what is printed for one
        # result must come after everything printed for the results before it)
        import itertools as _it
        parts = ["(2)", "(1/0)", "(3 km to m)", "(1 m + 1 s)", "(7 s)", "(nosuchfact here)"]
        for k in (2, 3):
            for tup in _it.permutations(parts, k):
                t = " ".join(tup)
                out.append(Case(f"cli {C.hexs(t)} decimal", "several-results", t))
        # … and every KIND of unit next to every other in one invocation (what is printed for one
        # result must not depend on the results before it): no unit, a numerator only, a
        # denominator only, both, singular and plural, exact and decimal
        kinds = ["(2)", "(1/2)", "(3 m)", "(1 m)", "(1/2 s)", "(1 / 2 s)", "(4 kg/s)", "(1/s^2)", "(1 kg/s)", "(2 / 3 m^2)", "(1/0)", "(0.5 ft)"]
        for a, b in _it.permutations(kinds, 2):
            for mode in ("decimal", "exact"):
                out.append(Case(f"cli {C.hexs(a + ' ' + b)} {mode}", "unit-kinds-in-a-row", a + " " + b))
        for tup in _it.permutations(["(3 m)", "(1/2 s)", "(2)", "(1/s^2)"], 3):
            out.append(Case(f"cli {C.hexs(' '.join(tup))} exact", "unit-kinds-in-a-row", " ".join(tup)))
        for t in ("3 m / (1 s * 2 kg)", "6 / (2 s * 1 m)", "4.2 kJ/kg*K", "1 W/m^2*K^4", "1 kg*m^2/s^3*A^2", "1/(1 s * 1 m * 1 kg)",
                  "2 N*m/(1 s * 1 K)", "1 mol/(1 s * 1 cd * 1 B)"):
            for mode in ("exact", "decimal"):
                out.append(Case(f"cli {C.hexs(t)} {mode}", "several-denominators", t))
        for t in ("2 m^6 * 2 m^6", "1 km^12", "1 m^5 * 1 m^7 / 1 s^13", "1 mm^2 * 1 km", "1 dam * 1 hm", "3 Mg", "1 kg * 1 Mg"):
            out.append(Case(f"cli {C.hexs(t)} decimal", "power-sweep", t))
        n = 120 if tier == "quick" else 900
        for i in range(n):
            k = rng.below(4)
            if k == 0:
                e = G.rand_expr(rng, 3, calls=True)
                lay = G.layout_for(e, rng, "canon")
                line = G.expr_line(e, lay)
            else:
                terms = Q.rand_unit(v, rng, 2, pool=[w for w in v.plain_words if w[0] in ("", "k", "m")])
                e = Q.Qty(rng.choice(["1", "2", "0.5", "1/3"]) if False else rng.choice(["1", "2", "0.5", "-1", "3"]), terms)
                if k == 2:
                    e = G.Bin(rng.choice("*/"), e, Q.Qty("2", Q.rand_unit(v, rng, 1)))
                if k == 3:
                    e = G.Bin("+", e, Q.Qty("1", Q.rand_unit(v, rng, 1)))
                line = Q.qexpr_line(e, Q.layout_q(e, rng, "canon"))
            rc, o, err = C.run_lines(C.driver_bin(), [line])
            text = C.unhex(o[0].split(" ")[1])
            out.append(Case(f"cli {C.hexs(text)} {'exact' if i % 2 else 'decimal'}", f"random-{k}", text))
        # malformed stream
        toks = ["1", "+", "(", ")", "m", "to", "*", "^", ",", "foo", " ", "2.5", "%", "{", "}"]
        for _ in range(40 if tier == "quick" else 300):
            t = "".join(rng.choice(toks) for _ in range(rng.range(1, 7)))
            out.append(Case(f"cli {C.hexs(t)} decimal", "malformed", t))
        return out
