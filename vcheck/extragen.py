"""Generator families added after the eleventh round of seeded changes (used by C01/C06, C10, C03, C05)."""
import math
from fractions import Fraction

from . import common as C
from .engine import Case


def long_call_chains(rng, tier):
    """P1: sums of many calls in one query (every two-argument call, group and one-argument call leaves the parser in the state it found it)"""
    out=[]
    lengths = [5, 30, 64, 100, 126, 127, 128, 129, 200, 300] if tier=="quick" else list(range(1, 400, 3))
    for n_ in lengths:
        for kind in ("round2", "mixed"):
            total = Fraction(0); parts=[]
            for i in range(n_):
                n100 = rng.range(1, 9999)
                x = Fraction(n100, 100)
                k = "round2" if kind=="round2" else rng.choice(["round2","floor","ceil","round1","group"])
                xs = f"{n100 // 100}.{n100 % 100:02d}"
                if k=="round2":
                    d=rng.range(0,1); parts.append(f"round({xs}, {d})"); 
                    q = x*10**d; r = Fraction(math.floor(q+Fraction(1,2))) / 10**d   # x>0: half away from zero = floor(q+1/2)
                    total += r
                elif k=="floor": parts.append(f"floor({xs})"); total += math.floor(x)
                elif k=="ceil": parts.append(f"ceil({xs})"); total += math.ceil(x)
                elif k=="round1": parts.append(f"round({xs})"); total += math.floor(x+Fraction(1,2))
                else: parts.append(f"({xs})"); total += x
            t=" + ".join(parts)
            out.append(Case("query "+C.hexs(t), "long-call-chain", t[:50]+f"… ({n_} calls)", expect=f"{total.numerator}/{total.denominator}"))
    return out

def nested_precision(rng, tier):
    """P4: a call inside a NON-FIRST argument of another call"""
    out=[]
    for x in ("2.567","1234.5","-0.125","99.995"):
        for inner, val in (("floor(2.5)",2),("ceil(0.2)",1),("round(-1.4)",-1),("floor(-1.5)",-2),("round(1.5)",2),("floor(0.9)",0)):
            X=Fraction(x); q=X*Fraction(10)**val
            r=(math.floor(q+Fraction(1,2)) if q>=0 else -math.floor(-q+Fraction(1,2)))
            R=Fraction(r)/Fraction(10)**val
            for t in (f"round({x}, {inner})", f"round({x},{inner})", f"round( {x} , {inner} )", f"1 + round({x}, {inner})"):
                w = R+1 if t.startswith("1 +") else R
                out.append(Case("query "+C.hexs(t), "call-in-later-argument", t, expect=f"{w.numerator}/{w.denominator}"))
    for t in ("floor(1, floor(2))","ceil(1, round(2.5))","round(1, 2, floor(3))","floor(floor(1), floor(2))","round(1.5, 1, ceil(0.5))"):
        out.append(Case("query "+C.hexs(t), "call-in-later-argument", t, expect="ERR"))
    return out

def prefix_power_sweep(rng, tier):
    """P2: 10^(prefix*power) for every product up to 90 and beyond (word sizes: 10^19 < 2^64 < 10^20, 10^38 < 2^128 < 10^39)"""
    out=[]
    PFX={"k":3,"m":-3,"da":1,"d":-1,"h":2,"c":-2,"M":6,"G":9,"n":-9,"Y":24,"y":-24,"T":12,"p":-12}
    ks = list(range(1, 46)) if tier!="quick" else [1,2,3,6,7,10,12,13,14,19,20,21,26,32,38,39,40,43,45]
    for pf,p in PFX.items():
        for k in ks:
            if abs(p*k) > 200: continue
            for sign in (1,-1):
                kk=k*sign
                e=p*kk
                val = Fraction(10)**e
                t=f"1 {pf}m^{kk} to m^{kk}"
                out.append(Case("query "+C.hexs(t), "prefix-power", t, expect=("ABS", f"R OK {val.numerator}/{val.denominator} Meter:{kk}:0")))
                t=f"3 s^{kk} to {pf}s^{kk}"
                val2 = 3/ (Fraction(10)**e)
                out.append(Case("query "+C.hexs(t), "prefix-power", t, expect=("ABS", f"R OK {val2.numerator}/{val2.denominator} Second:{kk}:{p}")))
    return out

def one_inside_unit(rng, tier):
    """P3: a literal 1 inside a unit expression is a neutral factor; groups of spellings that must read alike"""
    out=[]
    units=["m","s","kg","N","km","ms","J","A"]
    gi=0
    for _ in range(60 if tier=="quick" else 600):
        a,b,c=rng.choice(units),rng.choice(units),rng.choice(units)
        if len({a,b,c})<3: continue
        groups=[
            [f"{a}/{b}/{c}", f"{a}/{b} 1/{c}", f"{a}/{b}*1/{c}"],
            [f"{a}/{b} {c}", f"{a}/1 {b} {c}", f"{a}/1*{b}*{c}"],
            [f"{a} {b}/{c}", f"{a} 1 {b}/{c}", f"{a}*1*{b}/{c}", f"1 {a} {b}/{c}"],
            [f"1/{a}/{b}", f"1/{a} 1/{b}"],
        ]
        for g in groups:
            gi+=1
            for t in g:
                for line,txt in (("unit "+C.hexs(t), t), ("query "+C.hexs("3 "+t), "3 "+t)):
                    c_=Case(line, "one-inside-unit", txt); c_.group=f"one:{gi}:{line.split(' ')[0]}:{g[0]}"
                    out.append(c_)
    return out
