from .engine import main_for


def props():
    from . import props_lex, props_expr, props_units, props_display, props_db, props_words
    table = {}
    for mod in (props_lex, props_expr, props_units, props_display, props_db, props_words):
        for name in dir(mod):
            obj = getattr(mod, name)
            if isinstance(obj, type) and hasattr(obj, "id") and name.startswith("C") and name[1:].isdigit():
                table[obj.id] = obj
    return table


def main(pid, argv):
    t = props()
    if pid not in t:
        print(f"unknown property {pid}; have {sorted(t)}")
        raise SystemExit(2)
    main_for(t[pid](), argv)
