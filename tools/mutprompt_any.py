#!/usr/bin/env python3
"""Prompt for a third-round mutant agent: all property statements, a code region to work in,
free choice of property — asked for the change it believes hardest to detect."""
import json, sys
tag, region = sys.argv[1], sys.argv[2]
props = []
for l in open('/verif/properties.jsonl'):
    j = json.loads(l)
    props.append(f"{j['id']} — {j['title']}: {j['statement']}")
print(f"""You are helping to evaluate a verification setup for a Rust project (udoprog/anything: `any`, a unit-aware calculator with exact rational arithmetic, a hand-written lexer/parser, dimensional analysis and a tantivy-indexed fact lookup).

Work ONLY inside the scratch git worktree /tmp/mut-{tag} (a checkout of the project; a warm cargo `target/` directory is already there). Do not read or touch /repo or /verif. There is no network: always pass --offline to cargo. Always wrap runs of the built binary or of your own test programs in `timeout 60`.

The project is claimed to satisfy these semantic properties:

""" + "\n\n".join(props) + f"""

Task: working in this region of the code — {region} — write ONE change to the source that breaks one of these properties (your choice; say which) while the project still compiles and its existing test suite still passes unchanged (`cd /tmp/mut-{tag} && cargo test --workspace --offline --no-fail-fast`: 58 tests + 14 doc-tests, all must pass). Choose the change you believe a thorough property checker (one that evaluates many generated queries against an independent exact oracle, sweeps every unit and prefix, compares token streams and trees, runs crash/restart scenarios, and so on) is MOST LIKELY TO MISS:
* a realistic regression (refactor slip, off-by-one, shortcut taken too early, stale variable, two sites that each look fine alone), small (a few lines), not sabotage obvious at a glance, no change to tests;
* it must need something specific to manifest — an unusual input shape, a particular multi-step sequence, a boundary value, a rarely used unit / prefix / token spelling / branch, a particular interleaving or fault — while all common inputs keep behaving correctly. Prefer a defect that needs TWO cooperating sites (each change looks fine alone), or state carried between calls or runs, or a fault at a particular moment. Think about corners a generator would not naturally reach: boundary magnitudes, rarely combined features, unusual but legal spellings, state carried between calls, the 2nd/3rd iteration of a loop, inputs longer than usual.

Also write a demonstration: a Rust integration test (tests/demo_{tag}.rs using the public `anything` API) or a small shell script around the `any` binary that FAILS with your change and PASSES on the unchanged code. Verify both directions yourself. IMPORTANT: do NOT use `git stash` (the stash stack is shared by several worktrees that other people are using at the same time); save your change with `git diff -- src tools > /tmp/mut-{tag}-out/patch.diff`, remove it with `git apply -R /tmp/mut-{tag}-out/patch.diff`, run the demonstration, re-apply with `git apply /tmp/mut-{tag}-out/patch.diff`.

Deliver in /tmp/mut-{tag}-out/ :
* patch.diff — `git diff` of the source change only (without the demonstration),
* the demonstration file(s) named demo_{tag}.rs or demo_{tag}.sh, plus RUN.md saying exactly how to run it,
* report.md — which property it breaks and why, what the change is, what it needs in order to manifest, why you think a checker would miss it, and the commands you ran with their results (write it with a shell heredoc if a tool refuses).
Leave the worktree with the change applied and the demonstration NOT in tests/; do not commit. Finish with a 10-line summary that starts with the property id.""")
