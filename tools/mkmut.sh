#!/bin/sh
# usage: mkmut.sh <tag>   -> scratch worktree /tmp/mut-<tag> of /repo HEAD with a warm target dir
set -e
t=$1
git -C /repo worktree add --detach /tmp/mut-$t HEAD >/dev/null 2>&1
cp -r /repo/target /tmp/mut-$t/target
mkdir -p /tmp/mut-$t-out
echo /tmp/mut-$t
