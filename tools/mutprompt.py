#!/usr/bin/env python3
"""Print the prompt given to a mutant-writing sub-agent: property text only, nothing from /verif."""
import json, sys
pid, tag = sys.argv[1], sys.argv[2]
extra = sys.argv[3] if len(sys.argv) > 3 else ""
for l in open('/verif/properties.jsonl'):
    j = json.loads(l)
    if j['id'] == pid:
        break
j = {k: j[k] for k in ('title', 'statement', 'quantifier', 'why_tests_cant', 'anchors')}
print(f"""You are helping to evaluate a verification setup for a Rust project (udoprog/anything: `any`, a unit-aware calculator with exact rational arithmetic, a hand-written lexer/parser, dimensional analysis and a tantivy-indexed fact lookup).

Work ONLY inside the scratch git worktree /tmp/mut-{tag} (a checkout of the project; a warm cargo `target/` directory is already there). Do not read or touch /repo or /verif. There is no network: always pass --offline to cargo. Always wrap runs of the built binary or of your own test programs in `timeout 60` (some inputs make the evaluator run for hours).

Task: write a change to the project's source code that BREAKS the following semantic property while the project still compiles and its existing test suite still passes unchanged (`cd /tmp/mut-{tag} && cargo test --workspace --offline --no-fail-fast` : 58 tests, all must pass).

Property:
{json.dumps(j, indent=1, ensure_ascii=False)}

Requirements for the change:
* It must be a realistic regression — the kind of slip a developer makes in a refactor or "optimisation" (wrong branch condition, off-by-one, dropped or reordered step, stale variable, a shortcut taken too early, two sites that each look fine alone) — not sabotage that is obvious at a glance, and not a change to tests.
* It must need something specific to manifest (an unusual input, a particular multi-step sequence of operations, a crash or fault at a particular point, a particular interleaving, a rarely used unit/prefix/branch), NOT something ordinary use would expose at once. Common inputs should still behave correctly.
* Keep it small (a few lines, one or two files under src/ or the generated tables).
{extra}
Also write a demonstration: a Rust integration test file (e.g. tests/demo_{tag}.rs using the public `anything` API) or a small shell script around the `any` binary that FAILS with your change and PASSES on the unchanged code. Verify both directions yourself. IMPORTANT: do NOT use `git stash` (the stash stack is shared by several worktrees that other people are using at the same time); instead save your change with `git diff -- src tools > /tmp/mut-{tag}-out/patch.diff`, remove it with `git apply -R /tmp/mut-{tag}-out/patch.diff`, run the demonstration, and re-apply it with `git apply /tmp/mut-{tag}-out/patch.diff`.

Deliver in /tmp/mut-{tag}-out/ :
* patch.diff — `git diff` of the source change only (without the demonstration),
* the demonstration file(s) plus RUN.md saying exactly how to run it,
* report.md — what the change is, why it breaks the property, what it needs in order to manifest, and the commands you ran with their results (test suite with the change; demonstration with and without the change).
Leave the worktree with the change applied; do not commit. Finish with a 10-line summary.""")
