#!/usr/bin/env python3
"""Record, from the tree as it is NOW, what stored data must keep meaning in later builds
(C17 'stable identifier'): for every derived unit its identifier, name and the CBOR bytes
this build writes for it; every shipped fact as this build decodes it (unit by name).
Run once at the pinned commit (and again, deliberately, when identifiers are meant to
change together with a regenerated database). Output is committed under /verif/pinned and
lean/Anything/Spec/PinnedIds.lean."""
import subprocess, sys
from pathlib import Path
sys.path.insert(0, str(Path(__file__).resolve().parent.parent))
from vcheck import common as C, translator as T

ok, detail = T.regenerate()
assert ok, detail
idmap = T.meta()["idmap"]           # rust path -> id
lines = [f"cbor unit D{i}:1:0" for _, i in sorted(idmap.items())]
rc, enc, err = C.run_lines(C.harness_bin(False), lines)
rows = []
for (path, i), e in zip(sorted(idmap.items()), enc):
    b = e.split(" ")[1]
    rc, dec, err = C.run_lines(C.harness_bin(False), [f"cbor deunitname {b}"])
    name = dec[0].split(" ")[2]
    rc, nm, err = C.run_lines(C.harness_bin(False), [f"cbor unitnames D{i}:1:0"])
    plur = nm[0].split(" ")[2]
    rows.append((path, i, name, b, plur))
(C.VERIF / "pinned" / "unit_bytes.tsv").write_text("".join(f"{p}\t{i}\t{n}\t{b}\t{pl}\n" for p, i, n, b, pl in rows))
out = subprocess.run([C.harness_bin(False), "dump-facts"], capture_output=True, text=True, timeout=600).stdout
facts = []
for line in out.splitlines():
    f = line.split("\t")
    if f[0] == "FACT":
        facts.append((f[6], f[1], f[2], f[7], f[4]))
(C.VERIF / "pinned" / "facts.tsv").write_text("".join("\t".join(r) + "\n" for r in facts))
lean = ["import Anything.Model.UnitTypes",
        "/-! RECORDED by tools/mkpinned.py at the pinned commit: the numeric identifier and the",
        "display name of every derived unit. Human-reviewed input (it is what `stable identifier`",
        "refers to); not regenerated on every run. -/", "", "namespace Anything.Spec.Pinned", "",
        "/-- `(identifier, singular display name)` -/", "def ids : List (Nat × List Char) := ["]
names = []
for p, i, n, b, pl in rows:
    s = bytes.fromhex(n).decode() if n != "-" else ""
    s2 = bytes.fromhex(pl).decode() if pl != "-" else ""
    names.append((i, s, s2, p))
    lean.append(f"  ({i}, [" + ", ".join(f"Char.ofNat {ord(c)}" for c in s) + f"]),  -- {p} {s}")
lean[-1] = lean[-1].replace("]),  --", "])   --", 1)
lean += ["]", "", "/-- `(identifier, singular, plural)` display names -/", "def names : List (Nat × List Char × List Char) := ["]
lc = lambda t: "[" + ", ".join(f"Char.ofNat {ord(c)}" for c in t) + "]"
lean.append(",\n".join(f"  ({i}, {lc(a)}, {lc(b2)})" for i, a, b2, _ in names))
lean += ["]", "", "end Anything.Spec.Pinned"]
(C.LEAN / "Anything" / "Spec" / "PinnedIds.lean").write_text("\n".join(lean) + "\n")
from vcheck import fingerprints
fingerprints.PINNED.write_text(__import__("json").dumps(fingerprints.current(), indent=1, sort_keys=True) + "\n")
print(len(rows), "units,", len(facts), "facts,", len(fingerprints.current()), "source hashes")
