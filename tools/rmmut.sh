#!/bin/sh
# usage: rmmut.sh <tag>   -> remove the scratch worktree and its outputs
t=$1
git -C /repo worktree remove --force /tmp/mut-$t 2>/dev/null
rm -rf /tmp/mut-$t /tmp/mut-$t-out
git -C /repo worktree prune
