#!/usr/bin/env python3
"""Render seeded/README.md: which validated property-breaking change is caught by which check."""
import glob, json, os
rows = ["# Seeded changes (validated: compile, keep the 58-test suite green, break the property)", "",
        "Each directory holds `patch.diff`, the demonstration, `RUN.md`, `verify/` (what tools/vermut.sh observed) and `meta.json`.",
        "Apply with `git -C /repo apply seeded/<id>/patch.diff`, run the checks, undo with `git -C /repo checkout -- .` (tools/trymut.sh does all three and then rewrites the evidence from the unchanged tree).", "",
        "| id | property | change | needs, to manifest | detected by |", "|---|---|---|---|---|"]
for d in sorted(glob.glob('/verif/seeded/*/meta.json')):
    m = json.load(open(d)); sid = os.path.basename(os.path.dirname(d))
    det = '; '.join(f"**{k}**: {v}" for k, v in m['detected_by'].items())
    esc = lambda s: s.replace("|", "\\|")
    rows.append(f"| {sid} | {m['property']} | {esc(m['change'])} | {esc(m['needs'])} | {esc(det)} |")
open('/verif/seeded/README.md', 'w').write("\n".join(rows) + "\n")
print(len(rows) - 7, "rows")
