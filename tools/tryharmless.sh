#!/bin/bash
# usage: tryharmless.sh <patch>   apply a behaviour-preserving rewrite to /repo, run every quick
# check (all must stay silent), undo it, and rewrite the evidence from the unchanged tree.
p=$1
cd /verif
git -C /repo apply $p || { echo "PATCH DOES NOT APPLY to /repo"; exit 2; }
alarms=0
for pid in C01 C02 C03 C04 C05 C06 C07 C08 C09 C10 C11 C12 C13 C14 C15 C16 C17 C18 C19; do
  out=$(timeout 1800 ./check $pid --tier quick 2>&1 | grep -E "VIOLATION|^check")
  if echo "$out" | grep -q "VIOLATION\|exit 1"; then alarms=$((alarms+1)); echo "$out" | cut -c1-200; fi
done
echo "alarms=$alarms"
git -C /repo checkout -- .
# the evidence files must describe the unchanged tree: rewrite them
for pid in C01 C02 C03 C04 C05 C06 C07 C08 C09 C10 C11 C12 C13 C14 C15 C16 C17 C18 C19; do timeout 1800 ./check $pid --tier quick > /dev/null 2>&1 || echo "WARNING: $pid does not pass on the unchanged tree"; done
python3 -c "
import sys; sys.path.insert(0,'/verif')
from vcheck import translator, translator_db, translator_knobs
print(translator.regenerate()); print(translator_db.regenerate()); print(translator_knobs.regenerate())" 2>&1 | grep -v WARNING
