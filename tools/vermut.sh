#!/bin/bash
# usage: vermut.sh <tag> <demo-kind: rs|sh> <demo-file-name>
# Confirms in the scratch worktree: suite passes with the change; demo fails with it, passes without.
t=$1; kind=$2; demo=$3
w=/tmp/mut-$t; out=/tmp/mut-$t-out
cd $w || exit 2
export CARGO_NET_OFFLINE=true
mkdir -p $out/verify
# make sure the change is applied exactly as patch.diff says
git checkout -q -- . 2>/dev/null
git apply $out/patch.diff || { echo "PATCH DOES NOT APPLY"; exit 2; }
rm -f tests/demo_* 
echo "== suite with change"
cargo test --workspace --offline --no-fail-fast 2>&1 | awk '/^test result:/ {p+=$4; f+=$6} END {print "passed=" p " failed=" f}' | tee $out/verify/suite_with.txt
if [ $kind = rs ]; then
  cp $out/$demo tests/$demo
  echo "== demo with change"
  timeout 900 cargo test --offline --test ${demo%.rs} 2>&1 | grep -E "^test result|^test .*(FAILED|ok)$" | tee $out/verify/demo_with.txt
  git apply -R $out/patch.diff
  echo "== demo without change"
  timeout 900 cargo test --offline --test ${demo%.rs} 2>&1 | grep -E "^test result|^test .*(FAILED|ok)$" | tee $out/verify/demo_without.txt
  rm -f tests/$demo
else
  cargo build --offline --bin any 2>&1 | tail -1
  echo "== demo with change"
  (ANY=$w/target/debug/any timeout 900 bash $out/$demo; echo "exit=$?") 2>&1 | tail -5 | tee $out/verify/demo_with.txt
  git apply -R $out/patch.diff
  cargo build --offline --bin any 2>&1 | tail -1
  echo "== demo without change"
  (ANY=$w/target/debug/any timeout 900 bash $out/$demo; echo "exit=$?") 2>&1 | tail -5 | tee $out/verify/demo_without.txt
fi
git apply $out/patch.diff
