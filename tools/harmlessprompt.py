#!/usr/bin/env python3
"""Prompt for an agent that writes a HARMLESS, behaviour-preserving rewrite (false-alarm test)."""
import sys
tag, region, ideas = sys.argv[1], sys.argv[2], sys.argv[3]
print(f"""You are helping to evaluate a verification setup for a Rust project (udoprog/anything: `any`, a unit-aware calculator).

Work ONLY inside the scratch git worktree /tmp/mut-{tag} (a checkout of the project; a warm cargo `target/` directory is already there). Do not read or touch /repo or /verif. No network: always pass --offline to cargo. Do NOT use `git stash`.

Task: write a BEHAVIOUR-PRESERVING refactoring of this region of the code — {region}. The observable behaviour of the library and of the `any` binary must stay EXACTLY the same for every input (same values, same units, same errors with the same ranges, same printed text, same files written in the same order); only the way the code is written changes. Make it a realistic maintenance change of moderate size (30–150 changed lines): {ideas}. Do not change tests, public API, Cargo.toml or the shipped data. Do not "fix" anything you think is a bug.

Then: `cd /tmp/mut-{tag} && cargo test --workspace --offline --no-fail-fast` must pass (58 tests + 14 doc-tests). Also convince yourself of equivalence: build the unchanged binary first (copy target/debug/any aside before you edit), and compare the outputs of the old and the new binary on at least 200 varied queries (numbers, units, conversions, errors, blanks, facts, `--exact`), always under `timeout 60`; report the comparison.

Deliver in /tmp/mut-{tag}-out/ : patch.diff (`git diff -- src tools`), report.md (what was rewritten, why it is equivalent, the comparison you ran; write it with a shell heredoc if a tool refuses). Leave the worktree with the change applied; do not commit. Finish with a 6-line summary.""")
