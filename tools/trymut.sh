#!/bin/bash
# usage: trymut.sh <patch> <pid>...   apply to /repo, run quick checks, undo
p=$1; shift
cd /verif
git -C /repo apply $p || { echo "PATCH DOES NOT APPLY to /repo"; exit 2; }
for pid in "$@"; do
  timeout 1800 ./check $pid --tier quick 2>&1 | grep -E "VIOLATION|KNOWN|^check" 
done
git -C /repo checkout -- .
git -C /repo status --short | head -3
# the evidence files must describe the unchanged tree: rewrite them
for pid in "$@"; do
  timeout 1800 ./check $pid --tier quick > /dev/null 2>&1 || echo "WARNING: $pid does not pass on the unchanged tree"
done
# bring the regenerated tables back to the unchanged tree
python3 -c "
import sys; sys.path.insert(0,'/verif')
from vcheck import translator, translator_db, translator_knobs
print(translator.regenerate()); print(translator_db.regenerate()); print(translator_knobs.regenerate())" 2>&1 | grep -v WARNING
