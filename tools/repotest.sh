#!/bin/sh
# Run the repository's baseline suite (guard off) and print a one-line summary.
cd /repo && cargo test --workspace --offline --no-fail-fast 2>&1 | awk '/^test result:/ {p+=$4; f+=$6} /FAILED|panicked/ {print} END {print "passed=" p " failed=" f}'
