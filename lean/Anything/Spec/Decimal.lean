/-!
# Independent specification of decimal literals (C07)

Written from the property text, not from the code: a literal is an optional sign,
digits, an optional fraction (a point with digits on either side, at least one
mantissa digit overall), an optional exponent (marker, optional sign, at least
one digit) and an optional percent sign. Its value is the rational it spells.
-/

namespace Anything.Spec.Decimal

inductive Sign | plus | minus
  deriving DecidableEq, Repr

/-- Decimal digits are kept as numbers `0..9`. -/
structure Exponent where
  upper : Bool            -- `E` rather than `e`
  sign : Option Sign
  digits : List Nat       -- non-empty when well-formed
  deriving DecidableEq, Repr

structure Literal where
  sign : Option Sign
  int : List Nat          -- digits before the point (leading zeros allowed)
  frac : Option (List Nat)  -- `some ds` iff a point is written; `ds` may be empty
  exp : Option Exponent
  percent : Bool
  deriving DecidableEq, Repr

/-- Value of a digit string read in base ten. -/
def digitsVal : List Nat → Nat
  | ds => ds.foldl (fun acc d => acc * 10 + d) 0

def fracDigits (l : Literal) : List Nat := l.frac.getD []

def Exponent.val (e : Exponent) : Nat := digitsVal e.digits

def Exponent.WF (e : Exponent) : Prop := e.digits ≠ [] ∧ ∀ d ∈ e.digits, d < 10

instance (e : Exponent) : Decidable e.WF := by unfold Exponent.WF; exact inferInstance

/-- Well-formedness: every digit is `< 10`, at least one mantissa digit, at
least one exponent digit if an exponent is written. -/
def Literal.WF (l : Literal) : Prop :=
  (∀ d ∈ l.int, d < 10) ∧ (∀ d ∈ fracDigits l, d < 10) ∧
  (l.int ≠ [] ∨ fracDigits l ≠ []) ∧
  (match l.exp with | none => True | some e => e.WF)

instance (l : Literal) : Decidable l.WF := by
  unfold Literal.WF
  cases l.exp <;> exact inferInstance

def signFactor : Option Sign → Rat
  | some .minus => -1
  | _ => 1

/-- The rational number the literal spells. -/
def value (l : Literal) : Rat :=
  let mant : Rat := (digitsVal (l.int ++ fracDigits l) : Nat)
  let scaled := mant / (10 : Rat) ^ (fracDigits l).length
  let withExp := match l.exp with
    | none => scaled
    | some e => match e.sign with
      | some .minus => scaled / (10 : Rat) ^ e.val
      | _ => scaled * (10 : Rat) ^ e.val
  let v := signFactor l.sign * withExp
  if l.percent then v / 100 else v

def digitChar (d : Nat) : Char := Char.ofNat ('0'.toNat + d)

def renderSign : Option Sign → List Char
  | none => []
  | some .plus => ['+']
  | some .minus => ['-']

def renderExp : Option Exponent → List Char
  | none => []
  | some e => [if e.upper then 'E' else 'e'] ++ renderSign e.sign ++ e.digits.map digitChar

def renderFrac : Option (List Nat) → List Char
  | none => []
  | some ds => '.' :: ds.map digitChar

/-- The literal without its percent sign: what the number parser is given. -/
def renderNumber (l : Literal) : List Char :=
  renderSign l.sign ++ (l.int.map digitChar ++ (renderFrac l.frac ++ renderExp l.exp))

def render (l : Literal) : List Char :=
  renderNumber l ++ (if l.percent then ['%'] else [])

/-! ## Reading a string back as a literal (used at run time only; every answer is
re-checked against `render`, so this parser is not trusted). -/

def isDigitC (c : Char) : Bool := '0'.toNat ≤ c.toNat && c.toNat ≤ '9'.toNat

def spanDigits : List Char → List Nat × List Char
  | [] => ([], [])
  | c :: cs => if isDigitC c then
      let (ds, r) := spanDigits cs
      ((c.toNat - '0'.toNat) :: ds, r)
    else ([], c :: cs)

def readSign : List Char → Option Sign × List Char
  | '+' :: r => (some .plus, r)
  | '-' :: r => (some .minus, r)
  | s => (none, s)

def parse (s : List Char) : Option Literal :=
  let (sg, s1) := readSign s
  let (int, s2) := spanDigits s1
  let (frac, s3) := match s2 with
    | '.' :: r => let (ds, r') := spanDigits r; (some ds, r')
    | _ => (none, s2)
  let (exp, s4) := match s3 with
    | c :: r =>
      if c == 'e' || c == 'E' then
        let (esg, r1) := readSign r
        let (ds, r2) := spanDigits r1
        (some { upper := c == 'E', sign := esg, digits := ds : Exponent }, r2)
      else (none, s3)
    | [] => (none, s3)
  let (pct, s5) := match s4 with
    | '%' :: r => (true, r)
    | _ => (false, s4)
  let l : Literal := { sign := sg, int := int, frac := frac, exp := exp, percent := pct }
  if s5 == [] && decide l.WF && render l == s then some l else none

end Anything.Spec.Decimal
