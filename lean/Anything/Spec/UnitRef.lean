import Anything.Spec.SI
/-!
# Reference table of unit names and SI prefixes (C05) — human input, with sources

Sources: SI brochure, 9th ed. (tables 4, 7, 8) and the 8th-ed. table of accepted
non-SI units; International Yard and Pound agreement of 1959 (yd = 0.9144 m,
lb = 0.45359237 kg) with the customary derived lengths and masses; US customary
liquid measure from the 231 in³ gallon; CGPM 1901 standard gravity; the exact SI
defining constants (`c`, `e`). A name maps to a *set* of admissible exact scales
because some names are ambiguous across those sources (`ton`, `t`, `pint`, `gal`).
Derived rows are computed from their defining relation. Rows marked
`selfDocumented` have no normative definition in those sources and record the
meaning written in the repository's own documentation.
-/

namespace Anything.Spec.UnitRef
open Anything Anything.Spec.SI

structure Row where
  names : List String
  dims : DimVec                 -- kg, cd, m, s, A, K, mol, B
  scales : List Rat             -- admissible exact values of one unit in base SI
  selfDocumented : Bool := false
  note : String := ""

def inch : Rat := 254 / 10000
def ft : Rat := 12 * inch
def yd : Rat := 3 * ft
def mi : Rat := 1760 * yd
def lb : Rat := 45359237 / 100000000
def g0 : Rat := 980665 / 100000
def galUS : Rat := 231 * inch ^ 3
def galImp : Rat := 454609 / 100000000
def julianYear : Rat := 31557600
def nmi : Rat := 1852

def dM : DimVec := [1, 0, 0, 0, 0, 0, 0, 0]
def dL : DimVec := [0, 0, 1, 0, 0, 0, 0, 0]
def dT : DimVec := [0, 0, 0, 1, 0, 0, 0, 0]
def dL2 : DimVec := [0, 0, 2, 0, 0, 0, 0, 0]
def dL3 : DimVec := [0, 0, 3, 0, 0, 0, 0, 0]

def table : List Row := [
  -- SI base units (brochure table 2); the name `g` is the gram
  { names := ["s", "sec", "second", "seconds"], dims := dT, scales := [1] },
  { names := ["m", "metre", "meter", "meters"], dims := dL, scales := [1] },
  { names := ["g", "gram"], dims := dM, scales := [1 / 1000] },
  { names := ["A", "ampere", "amperes"], dims := [0, 0, 0, 0, 1, 0, 0, 0], scales := [1] },
  { names := ["K", "kelvin", "kelvins"], dims := [0, 0, 0, 0, 0, 1, 0, 0], scales := [1] },
  { names := ["mol", "mols", "mole", "moles"], dims := [0, 0, 0, 0, 0, 0, 1, 0], scales := [1] },
  { names := ["cd", "candela", "candelas"], dims := [0, 1, 0, 0, 0, 0, 0, 0], scales := [1] },
  { names := ["B", "byte"], dims := [0, 0, 0, 0, 0, 0, 0, 1], scales := [1], selfDocumented := true },
  -- time (brochure table 8: min, h, d; week, Julian year and its multiples by convention)
  { names := ["minute", "minutes", "min", "mins"], dims := dT, scales := [60] },
  { names := ["h", "hr", "hour", "hours"], dims := dT, scales := [3600] },
  { names := ["dy", "day", "days"], dims := dT, scales := [86400] },
  { names := ["wk", "week", "weeks"], dims := dT, scales := [7 * 86400] },
  { names := ["mth", "mths", "month", "months"], dims := dT, scales := [julianYear / 12], selfDocumented := true },
  { names := ["y", "yr", "yrs", "year", "years"], dims := dT, scales := [julianYear], selfDocumented := true },
  { names := ["decade", "decades"], dims := dT, scales := [10 * julianYear], selfDocumented := true },
  { names := ["century", "centuries"], dims := dT, scales := [100 * julianYear], selfDocumented := true },
  { names := ["M", "millenium", "milleniums", "millenia"], dims := dT, scales := [1000 * julianYear], selfDocumented := true },
  -- mass
  { names := ["ton", "tons", "tonne", "tonnes"], dims := dM, scales := [1000, 2000 * lb, 2240 * lb],
    note := "tonne (SI table 8), short ton, long ton" },
  { names := ["Da", "dalton", "daltons"], dims := dM, scales := [166053906660 / 10 ^ 38],
    note := "SI brochure 9th ed. table 8: 1.660 539 066 60 e-27 kg" },
  { names := ["gr", "grain", "grains"], dims := dM, scales := [lb / 7000] },
  { names := ["dr", "drachm", "drachms"], dims := dM, scales := [lb / 256] },
  { names := ["oz", "ounce", "ounces"], dims := dM, scales := [lb / 16] },
  { names := ["lb", "pound", "pounds"], dims := dM, scales := [lb] },
  { names := ["st", "stone", "stones"], dims := dM, scales := [14 * lb] },
  { names := ["qr", "qtr", "quarter", "quarters"], dims := dM, scales := [28 * lb] },
  { names := ["cwt", "hundredweight", "hundredweights"], dims := dM, scales := [112 * lb, 100 * lb] },
  { names := ["t"], dims := dM, scales := [1000, 2240 * lb], note := "SI symbol of the tonne; also used for the long ton" },
  { names := ["slug", "slugs"], dims := dM, scales := [lb * g0 / ft] },
  -- volume
  { names := ["l", "L", "litre", "litres"], dims := dL3, scales := [1 / 1000] },
  { names := ["cc"], dims := dL3, scales := [1 / 1000000] },
  { names := ["gal", "gals", "gallon", "gallons"], dims := dL3, scales := [galUS, galImp] },
  { names := ["pint", "pints"], dims := dL3, scales := [galUS / 8, galImp / 8, 5506104713575 / 10 ^ 16],
    note := "US liquid, imperial, US dry" },
  { names := ["quart", "quarts"], dims := dL3, scales := [galUS / 4, galImp / 4] },
  { names := ["cup", "cups"], dims := dL3, scales := [galUS / 16, 240 / 1000000, 250 / 1000000] },
  { names := ["gill", "gills"], dims := dL3, scales := [galUS / 32, galImp / 32] },
  { names := ["floz", "flozs"], dims := dL3, scales := [galUS / 128, galImp / 160] },
  { names := ["tbsp", "tbsps", "tablespoon", "tablespoons"], dims := dL3, scales := [galUS / 256, 15 / 1000000] },
  { names := ["tsp", "tsps", "teaspoon", "teaspoons"], dims := dL3, scales := [galUS / 768, 5 / 1000000] },
  -- area
  { names := ["ha", "hectare", "hectares"], dims := dL2, scales := [10000] },
  { names := ["perch", "perches"], dims := dL2, scales := [(ft * 33 / 2) ^ 2] },
  { names := ["rood", "roods"], dims := dL2, scales := [40 * (ft * 33 / 2) ^ 2] },
  { names := ["acre", "acres"], dims := dL2, scales := [4840 * yd ^ 2] },
  -- pseudo-units of the tool
  { names := ["a", "acc", "acceleration"], dims := [0, 0, 1, -2, 0, 0, 0, 0], scales := [1], selfDocumented := true },
  { names := ["v", "vel", "velocity"], dims := [0, 0, 1, -1, 0, 0, 0, 0], scales := [1], selfDocumented := true },
  { names := ["gforce", "g-force"], dims := [0, 0, 1, -2, 0, 0, 0, 0], scales := [g0], note := "CGPM 1901" },
  { names := ["sp"], dims := dT, scales := [1], selfDocumented := true },
  -- SI derived units with special names (brochure table 4)
  { names := ["N", "newton", "newtons"], dims := [1, 0, 1, -2, 0, 0, 0, 0], scales := [1] },
  { names := ["Pa", "pascal", "pascals"], dims := [1, 0, -1, -2, 0, 0, 0, 0], scales := [1] },
  { names := ["J", "joule"], dims := [1, 0, 2, -2, 0, 0, 0, 0], scales := [1] },
  { names := ["btu"], dims := [1, 0, 2, -2, 0, 0, 0, 0], scales := [1055, 105505585262 / 10 ^ 8, 1054350 / 1000],
    selfDocumented := true },
  { names := ["eV", "electronvolt", "electronvolts"], dims := [1, 0, 2, -2, 0, 0, 0, 0],
    scales := [1602176634 / 10 ^ 28] },
  { names := ["W", "watt", "watts"], dims := [1, 0, 2, -3, 0, 0, 0, 0], scales := [1] },
  { names := ["C", "coulomb", "coulombs"], dims := [0, 0, 0, 1, 1, 0, 0, 0], scales := [1] },
  { names := ["V", "volt", "volts"], dims := [1, 0, 2, -3, -1, 0, 0, 0], scales := [1] },
  { names := ["F", "farad", "farads"], dims := [-1, 0, -2, 4, 2, 0, 0, 0], scales := [1] },
  { names := ["Ω", "ohm", "ohms"], dims := [1, 0, 2, -3, -2, 0, 0, 0], scales := [1] },
  { names := ["S", "siemens"], dims := [-1, 0, -2, 3, 2, 0, 0, 0], scales := [1] },
  { names := ["Wb", "weber", "webers"], dims := [1, 0, 2, -2, -1, 0, 0, 0], scales := [1] },
  { names := ["T", "tesla", "teslas"], dims := [1, 0, 0, -2, -1, 0, 0, 0], scales := [1] },
  { names := ["H", "henry", "henrys", "henries"], dims := [1, 0, 2, -2, -2, 0, 0, 0], scales := [1] },
  { names := ["lm", "lumen", "lumens"], dims := [0, 1, 0, 0, 0, 0, 0, 0], scales := [1] },
  { names := ["lx", "lux"], dims := [0, 1, -2, 0, 0, 0, 0, 0], scales := [1] },
  { names := ["Bq", "becquerel", "becquerels"], dims := [0, 0, 0, -1, 0, 0, 0, 0], scales := [1] },
  { names := ["Gy", "gray", "grays"], dims := [0, 0, 2, -2, 0, 0, 0, 0], scales := [1] },
  { names := ["Sv", "sievert", "sieverts"], dims := [0, 0, 2, -2, 0, 0, 0, 0], scales := [1] },
  { names := ["kat", "katal", "katals"], dims := [0, 0, 0, -1, 0, 0, 1, 0], scales := [1] },
  -- velocity, length
  { names := ["c"], dims := [0, 0, 1, -1, 0, 0, 0, 0], scales := [299792458] },
  { names := ["kt", "knot", "knots"], dims := [0, 0, 1, -1, 0, 0, 0, 0], scales := [nmi / 3600] },
  { names := ["au"], dims := dL, scales := [149597870700] },
  { names := ["ftm", "fathom", "fathoms"], dims := dL, scales := [2 * yd] },
  { names := ["cable", "cables"], dims := dL, scales := [nmi / 10, 720 * ft, 608 * ft] },
  { names := ["NM", "nmi"], dims := dL, scales := [nmi] },
  { names := ["link", "links"], dims := dL, scales := [66 * ft / 100] },
  { names := ["rd", "rod", "rods"], dims := dL, scales := [ft * 33 / 2] },
  { names := ["th", "thou", "thous"], dims := dL, scales := [inch / 1000] },
  { names := ["Bc", "barleycorn", "barleycorns"], dims := dL, scales := [inch / 3] },
  { names := ["in", "inch", "inches"], dims := dL, scales := [inch] },
  { names := ["hand", "hands"], dims := dL, scales := [4 * inch] },
  { names := ["ft", "feet", "feets"], dims := dL, scales := [ft] },
  { names := ["yd", "yard", "yards"], dims := dL, scales := [yd] },
  { names := ["ch", "chain", "chains"], dims := dL, scales := [66 * ft] },
  { names := ["fur", "furlong", "furlongs"], dims := dL, scales := [660 * ft] },
  { names := ["mi", "mile", "miles"], dims := dL, scales := [mi] },
  { names := ["lea", "league", "leagues"], dims := dL, scales := [3 * mi] }
]

/-- Offset temperature scales: `(names, slope, zero point in kelvin)`. -/
def affineTable : List (List String × Rat × Rat) := [
  (["°C", "celsius"], 1, 27315 / 100),
  (["°F", "fahrenheit"], 5 / 9, 27315 / 100 - 32 * 5 / 9)
]

/-- The twenty SI prefixes (brochure table 7): symbol, name, power of ten. -/
def prefixes : List (String × String × Int) := [
  ("Y", "yotta", 24), ("Z", "zetta", 21), ("E", "exa", 18), ("P", "peta", 15), ("T", "tera", 12),
  ("G", "giga", 9), ("M", "mega", 6), ("k", "kilo", 3), ("h", "hecto", 2), ("da", "deca", 1),
  ("d", "deci", -1), ("c", "centi", -2), ("m", "milli", -3), ("μ", "micro", -6), ("n", "nano", -9),
  ("p", "pico", -12), ("f", "femto", -15), ("a", "atto", -18), ("z", "zepto", -21), ("y", "yocto", -24)
]

def findRow (name : List Char) : Option Row := table.find? (fun r => r.names.any (fun n => n.toList == name))

def findAffine (name : List Char) : Option (Rat × Rat) :=
  (affineTable.find? (fun r => r.1.any (fun n => n.toList == name))).map (·.2)

def refPrefix (lit : List Char) : Option Int :=
  (prefixes.find? (fun p => p.1.toList == lit || p.2.1.toList == lit)).map (·.2.2)

/-- Names whose scale in the repository matches no admissible reading; each is
pinned by a test of the repository's own suite and recorded as a known finding. -/
def knownDeviations : List String := ["pint", "pints", "Da", "dalton", "daltons", "ftm", "fathom", "fathoms", "slug", "slugs"]

/-- Verdict on one unit-name literal of the extracted table: effective scale
`10^bias · factor` and dimensions against the reference. -/
def checkName (lit : List Char) (k : UnitKey) (bias : Int) : String :=
  match findAffine lit with
  | some (m, a) =>
    (match scaleOf k with
     | .affine m' a' => if m = m' ∧ a = a' ∧ dimsOf k = [0, 0, 0, 0, 0, 1, 0, 0] then "OK" else "BAD affine parameters"
     | _ => "BAD expected an offset scale")
  | none =>
    match findRow lit with
    | none => "NOREF"
    | some r =>
      let eff := Arith.zpow 10 bias * linFactor k
      if isAffine k then "BAD unexpected offset scale"
      else if dimsOf k ≠ r.dims then "BAD dimensions"
      else if r.scales.contains eff then "OK"
      else "BAD scale"

end Anything.Spec.UnitRef
