import Anything.Model.UnitTypes
/-! RECORDED by tools/mkpinned.py at the pinned commit: the numeric identifier and the
display name of every derived unit. Human-reviewed input (it is what `stable identifier`
refers to); not regenerated on every run. -/

namespace Anything.Spec.Pinned

/-- `(identifier, singular display name)` -/
def ids : List (Nat × List Char) := [
  (2863985516, [Char.ofNat 97]),  -- ACCELERATION a
  (2082853468, [Char.ofNat 66, Char.ofNat 113]),  -- BECQUEREL Bq
  (4118630549, [Char.ofNat 67]),  -- COULOMB C
  (3466881141, [Char.ofNat 70]),  -- FARAD F
  (3089834321, [Char.ofNat 103]),  -- GFORCE g
  (1611201717, [Char.ofNat 71, Char.ofNat 121]),  -- GRAY Gy
  (4012288469, [Char.ofNat 72]),  -- HENRY H
  (2521157679, [Char.ofNat 107, Char.ofNat 97, Char.ofNat 116]),  -- KATAL kat
  (898832578, [Char.ofNat 108, Char.ofNat 109]),  -- LUMEN lm
  (2908765805, [Char.ofNat 108, Char.ofNat 120]),  -- LUX lx
  (353022001, [Char.ofNat 78]),  -- NEWTON N
  (1281889753, [Char.ofNat 937]),  -- OHM Ω
  (3581253485, [Char.ofNat 80, Char.ofNat 97]),  -- PASCAL Pa
  (3631692201, [Char.ofNat 83]),  -- SIEMENS S
  (3440369467, [Char.ofNat 83, Char.ofNat 118]),  -- SIEVERT Sv
  (1147115270, [Char.ofNat 115, Char.ofNat 112]),  -- SPECIFIC_IMPULSE sp
  (1930761383, [Char.ofNat 84]),  -- TESLA T
  (1205679580, [Char.ofNat 118]),  -- VELOCITY v
  (658988256, [Char.ofNat 86]),  -- VOLT V
  (2843211920, [Char.ofNat 87]),  -- WATT W
  (1774873610, [Char.ofNat 87, Char.ofNat 98]),  -- WEBER Wb
  (3829888978, [Char.ofNat 97, Char.ofNat 99, Char.ofNat 114, Char.ofNat 101]),  -- area::ACRE acre
  (3207462927, [Char.ofNat 104, Char.ofNat 97]),  -- area::HECTARE ha
  (4048801938, [Char.ofNat 112, Char.ofNat 101, Char.ofNat 114, Char.ofNat 99, Char.ofNat 104]),  -- area::PERCH perch
  (542383331, [Char.ofNat 114, Char.ofNat 111, Char.ofNat 111, Char.ofNat 100]),  -- area::ROOD rood
  (3481565844, [Char.ofNat 98, Char.ofNat 116, Char.ofNat 117]),  -- energy::BTU btu
  (8051841, [Char.ofNat 101, Char.ofNat 86]),  -- energy::ELECTRONVOLT eV
  (3766052723, [Char.ofNat 74]),  -- energy::JOULE J
  (3348159317, [Char.ofNat 97, Char.ofNat 117]),  -- length::AU au
  (3553165344, [Char.ofNat 66, Char.ofNat 99]),  -- length::BARLEYCORN Bc
  (3642302754, [Char.ofNat 99, Char.ofNat 97, Char.ofNat 98, Char.ofNat 108, Char.ofNat 101]),  -- length::CABLE cable
  (3906701589, [Char.ofNat 99, Char.ofNat 104]),  -- length::CHAIN ch
  (1356152752, [Char.ofNat 102, Char.ofNat 116, Char.ofNat 109]),  -- length::FATHOM ftm
  (3553165313, [Char.ofNat 102, Char.ofNat 116]),  -- length::FOOT ft
  (3553165376, [Char.ofNat 102, Char.ofNat 117, Char.ofNat 114]),  -- length::FURLONG fur
  (3553165360, [Char.ofNat 104, Char.ofNat 97, Char.ofNat 110, Char.ofNat 100]),  -- length::HAND hand
  (3553165312, [Char.ofNat 105, Char.ofNat 110]),  -- length::INCH in
  (3553165316, [Char.ofNat 108, Char.ofNat 101, Char.ofNat 97]),  -- length::LEAGUE lea
  (2518177391, [Char.ofNat 108, Char.ofNat 105, Char.ofNat 110, Char.ofNat 107]),  -- length::LINK link
  (3553165315, [Char.ofNat 109, Char.ofNat 105]),  -- length::MILE mi
  (3613916546, [Char.ofNat 78, Char.ofNat 77]),  -- length::NAUTICAL_MILE NM
  (2060832621, [Char.ofNat 114, Char.ofNat 100]),  -- length::ROD rd
  (3553165328, [Char.ofNat 116, Char.ofNat 104]),  -- length::THOU th
  (3553165314, [Char.ofNat 121, Char.ofNat 100]),  -- length::YARD yd
  (2505588576, [Char.ofNat 68, Char.ofNat 97]),  -- mass::DALTON Da
  (2740530060, [Char.ofNat 100, Char.ofNat 114]),  -- mass::DRACHM dr
  (4096923961, [Char.ofNat 103, Char.ofNat 114]),  -- mass::GRAIN gr
  (4185545088, [Char.ofNat 104, Char.ofNat 117, Char.ofNat 110, Char.ofNat 100, Char.ofNat 114, Char.ofNat 101, Char.ofNat 100, Char.ofNat 119, Char.ofNat 101, Char.ofNat 105, Char.ofNat 103, Char.ofNat 104, Char.ofNat 116]),  -- mass::HUNDREDWEIGHT hundredweight
  (2084259802, [Char.ofNat 111, Char.ofNat 122]),  -- mass::OUNCE oz
  (3762825782, [Char.ofNat 108, Char.ofNat 98]),  -- mass::POUND lb
  (553023611, [Char.ofNat 113, Char.ofNat 114]),  -- mass::QUARTER qr
  (686486555, [Char.ofNat 115, Char.ofNat 108, Char.ofNat 117, Char.ofNat 103]),  -- mass::SLUG slug
  (3358063885, [Char.ofNat 115, Char.ofNat 116]),  -- mass::STONE st
  (3434832998, [Char.ofNat 116]),  -- mass::TON t
  (2065028312, [Char.ofNat 116, Char.ofNat 111, Char.ofNat 110]),  -- mass::TONNE ton
  (3728342790, [Char.ofNat 176, Char.ofNat 67]),  -- temperature::CELSIUS °C
  (981617578, [Char.ofNat 176, Char.ofNat 70]),  -- temperature::FAHRENHEIT °F
  (1021980672, [Char.ofNat 99, Char.ofNat 101, Char.ofNat 110, Char.ofNat 116, Char.ofNat 117, Char.ofNat 114, Char.ofNat 121]),  -- time::CENTURY century
  (1021968387, [Char.ofNat 100, Char.ofNat 121]),  -- time::DAY dy
  (1021976576, [Char.ofNat 100, Char.ofNat 101, Char.ofNat 99, Char.ofNat 97, Char.ofNat 100, Char.ofNat 101]),  -- time::DECADE decade
  (1021968385, [Char.ofNat 104, Char.ofNat 114]),  -- time::HOUR hr
  (1021984768, [Char.ofNat 109, Char.ofNat 105, Char.ofNat 108, Char.ofNat 108, Char.ofNat 101, Char.ofNat 110, Char.ofNat 105, Char.ofNat 117, Char.ofNat 109]),  -- time::MILLENIUM millenium
  (1021968384, [Char.ofNat 109, Char.ofNat 105, Char.ofNat 110]),  -- time::MINUTE min
  (1021968389, [Char.ofNat 109, Char.ofNat 116, Char.ofNat 104]),  -- time::MONTH mth
  (1021968388, [Char.ofNat 119, Char.ofNat 107]),  -- time::WEEK wk
  (1021972480, [Char.ofNat 121, Char.ofNat 114]),  -- time::YEAR yr
  (3360971096, [Char.ofNat 107, Char.ofNat 116]),  -- velocity::KNOT kt
  (2390987750, [Char.ofNat 99]),  -- velocity::LIGHT_SPEED c
  (3010028704, [Char.ofNat 99, Char.ofNat 99]),  -- volume::CUBIC_CENTIMETER cc
  (470846374, [Char.ofNat 99, Char.ofNat 117, Char.ofNat 112]),  -- volume::CUP cup
  (470846376, [Char.ofNat 102, Char.ofNat 108, Char.ofNat 32, Char.ofNat 111, Char.ofNat 122]),  -- volume::FLUID_OUNCE fl oz
  (470846371, [Char.ofNat 103, Char.ofNat 97, Char.ofNat 108, Char.ofNat 108, Char.ofNat 111, Char.ofNat 110]),  -- volume::GALLON gallon
  (470846375, [Char.ofNat 103, Char.ofNat 105, Char.ofNat 108, Char.ofNat 108]),  -- volume::GILL gill
  (470846370, [Char.ofNat 108]),  -- volume::LITRE l
  (470846372, [Char.ofNat 112, Char.ofNat 105, Char.ofNat 110, Char.ofNat 116]),  -- volume::PINT pint
  (470846373, [Char.ofNat 113, Char.ofNat 117, Char.ofNat 97, Char.ofNat 114, Char.ofNat 116]),  -- volume::QUART quart
  (470846377, [Char.ofNat 116, Char.ofNat 98, Char.ofNat 115, Char.ofNat 112]),  -- volume::TABLE_SPOON tbsp
  (470846378, [Char.ofNat 116, Char.ofNat 115, Char.ofNat 112])   -- volume::TEA_SPOON tsp
]

/-- `(identifier, singular, plural)` display names -/
def names : List (Nat × List Char × List Char) := [
  (2863985516, [Char.ofNat 97], [Char.ofNat 97]),
  (2082853468, [Char.ofNat 66, Char.ofNat 113], [Char.ofNat 66, Char.ofNat 113]),
  (4118630549, [Char.ofNat 67], [Char.ofNat 67]),
  (3466881141, [Char.ofNat 70], [Char.ofNat 70]),
  (3089834321, [Char.ofNat 103], [Char.ofNat 103]),
  (1611201717, [Char.ofNat 71, Char.ofNat 121], [Char.ofNat 71, Char.ofNat 121]),
  (4012288469, [Char.ofNat 72], [Char.ofNat 72]),
  (2521157679, [Char.ofNat 107, Char.ofNat 97, Char.ofNat 116], [Char.ofNat 107, Char.ofNat 97, Char.ofNat 116]),
  (898832578, [Char.ofNat 108, Char.ofNat 109], [Char.ofNat 108, Char.ofNat 109]),
  (2908765805, [Char.ofNat 108, Char.ofNat 120], [Char.ofNat 108, Char.ofNat 120]),
  (353022001, [Char.ofNat 78], [Char.ofNat 78]),
  (1281889753, [Char.ofNat 937], [Char.ofNat 937]),
  (3581253485, [Char.ofNat 80, Char.ofNat 97], [Char.ofNat 80, Char.ofNat 97]),
  (3631692201, [Char.ofNat 83], [Char.ofNat 83]),
  (3440369467, [Char.ofNat 83, Char.ofNat 118], [Char.ofNat 83, Char.ofNat 118]),
  (1147115270, [Char.ofNat 115, Char.ofNat 112], [Char.ofNat 115, Char.ofNat 112]),
  (1930761383, [Char.ofNat 84], [Char.ofNat 84]),
  (1205679580, [Char.ofNat 118], [Char.ofNat 118]),
  (658988256, [Char.ofNat 86], [Char.ofNat 86]),
  (2843211920, [Char.ofNat 87], [Char.ofNat 87]),
  (1774873610, [Char.ofNat 87, Char.ofNat 98], [Char.ofNat 87, Char.ofNat 98]),
  (3829888978, [Char.ofNat 97, Char.ofNat 99, Char.ofNat 114, Char.ofNat 101], [Char.ofNat 97, Char.ofNat 99, Char.ofNat 114, Char.ofNat 101, Char.ofNat 115]),
  (3207462927, [Char.ofNat 104, Char.ofNat 97], [Char.ofNat 104, Char.ofNat 97]),
  (4048801938, [Char.ofNat 112, Char.ofNat 101, Char.ofNat 114, Char.ofNat 99, Char.ofNat 104], [Char.ofNat 112, Char.ofNat 101, Char.ofNat 114, Char.ofNat 99, Char.ofNat 104, Char.ofNat 101, Char.ofNat 115]),
  (542383331, [Char.ofNat 114, Char.ofNat 111, Char.ofNat 111, Char.ofNat 100], [Char.ofNat 114, Char.ofNat 111, Char.ofNat 111, Char.ofNat 100, Char.ofNat 115]),
  (3481565844, [Char.ofNat 98, Char.ofNat 116, Char.ofNat 117], [Char.ofNat 98, Char.ofNat 116, Char.ofNat 117, Char.ofNat 115]),
  (8051841, [Char.ofNat 101, Char.ofNat 86], [Char.ofNat 101, Char.ofNat 86]),
  (3766052723, [Char.ofNat 74], [Char.ofNat 74]),
  (3348159317, [Char.ofNat 97, Char.ofNat 117], [Char.ofNat 97, Char.ofNat 117]),
  (3553165344, [Char.ofNat 66, Char.ofNat 99], [Char.ofNat 66, Char.ofNat 99]),
  (3642302754, [Char.ofNat 99, Char.ofNat 97, Char.ofNat 98, Char.ofNat 108, Char.ofNat 101], [Char.ofNat 99, Char.ofNat 97, Char.ofNat 98, Char.ofNat 108, Char.ofNat 101, Char.ofNat 115]),
  (3906701589, [Char.ofNat 99, Char.ofNat 104], [Char.ofNat 99, Char.ofNat 104]),
  (1356152752, [Char.ofNat 102, Char.ofNat 116, Char.ofNat 109], [Char.ofNat 102, Char.ofNat 116, Char.ofNat 109]),
  (3553165313, [Char.ofNat 102, Char.ofNat 116], [Char.ofNat 102, Char.ofNat 116]),
  (3553165376, [Char.ofNat 102, Char.ofNat 117, Char.ofNat 114], [Char.ofNat 102, Char.ofNat 117, Char.ofNat 114]),
  (3553165360, [Char.ofNat 104, Char.ofNat 97, Char.ofNat 110, Char.ofNat 100], [Char.ofNat 104, Char.ofNat 97, Char.ofNat 110, Char.ofNat 100]),
  (3553165312, [Char.ofNat 105, Char.ofNat 110], [Char.ofNat 105, Char.ofNat 110]),
  (3553165316, [Char.ofNat 108, Char.ofNat 101, Char.ofNat 97], [Char.ofNat 108, Char.ofNat 101, Char.ofNat 97]),
  (2518177391, [Char.ofNat 108, Char.ofNat 105, Char.ofNat 110, Char.ofNat 107], [Char.ofNat 108, Char.ofNat 105, Char.ofNat 110, Char.ofNat 107, Char.ofNat 115]),
  (3553165315, [Char.ofNat 109, Char.ofNat 105], [Char.ofNat 109, Char.ofNat 105]),
  (3613916546, [Char.ofNat 78, Char.ofNat 77], [Char.ofNat 78, Char.ofNat 77]),
  (2060832621, [Char.ofNat 114, Char.ofNat 100], [Char.ofNat 114, Char.ofNat 100]),
  (3553165328, [Char.ofNat 116, Char.ofNat 104], [Char.ofNat 116, Char.ofNat 104]),
  (3553165314, [Char.ofNat 121, Char.ofNat 100], [Char.ofNat 121, Char.ofNat 100]),
  (2505588576, [Char.ofNat 68, Char.ofNat 97], [Char.ofNat 68, Char.ofNat 97]),
  (2740530060, [Char.ofNat 100, Char.ofNat 114], [Char.ofNat 100, Char.ofNat 114]),
  (4096923961, [Char.ofNat 103, Char.ofNat 114], [Char.ofNat 103, Char.ofNat 114]),
  (4185545088, [Char.ofNat 104, Char.ofNat 117, Char.ofNat 110, Char.ofNat 100, Char.ofNat 114, Char.ofNat 101, Char.ofNat 100, Char.ofNat 119, Char.ofNat 101, Char.ofNat 105, Char.ofNat 103, Char.ofNat 104, Char.ofNat 116], [Char.ofNat 104, Char.ofNat 117, Char.ofNat 110, Char.ofNat 100, Char.ofNat 114, Char.ofNat 101, Char.ofNat 100, Char.ofNat 119, Char.ofNat 101, Char.ofNat 105, Char.ofNat 103, Char.ofNat 104, Char.ofNat 116]),
  (2084259802, [Char.ofNat 111, Char.ofNat 122], [Char.ofNat 111, Char.ofNat 122]),
  (3762825782, [Char.ofNat 108, Char.ofNat 98], [Char.ofNat 108, Char.ofNat 98]),
  (553023611, [Char.ofNat 113, Char.ofNat 114], [Char.ofNat 113, Char.ofNat 114]),
  (686486555, [Char.ofNat 115, Char.ofNat 108, Char.ofNat 117, Char.ofNat 103], [Char.ofNat 115, Char.ofNat 108, Char.ofNat 117, Char.ofNat 103]),
  (3358063885, [Char.ofNat 115, Char.ofNat 116], [Char.ofNat 115, Char.ofNat 116]),
  (3434832998, [Char.ofNat 116], [Char.ofNat 116]),
  (2065028312, [Char.ofNat 116, Char.ofNat 111, Char.ofNat 110], [Char.ofNat 116, Char.ofNat 111, Char.ofNat 110, Char.ofNat 115]),
  (3728342790, [Char.ofNat 176, Char.ofNat 67], [Char.ofNat 176, Char.ofNat 67]),
  (981617578, [Char.ofNat 176, Char.ofNat 70], [Char.ofNat 176, Char.ofNat 70]),
  (1021980672, [Char.ofNat 99, Char.ofNat 101, Char.ofNat 110, Char.ofNat 116, Char.ofNat 117, Char.ofNat 114, Char.ofNat 121], [Char.ofNat 99, Char.ofNat 101, Char.ofNat 110, Char.ofNat 116, Char.ofNat 117, Char.ofNat 114, Char.ofNat 105, Char.ofNat 101, Char.ofNat 115]),
  (1021968387, [Char.ofNat 100, Char.ofNat 121], [Char.ofNat 100, Char.ofNat 121]),
  (1021976576, [Char.ofNat 100, Char.ofNat 101, Char.ofNat 99, Char.ofNat 97, Char.ofNat 100, Char.ofNat 101], [Char.ofNat 100, Char.ofNat 101, Char.ofNat 99, Char.ofNat 97, Char.ofNat 100, Char.ofNat 101, Char.ofNat 115]),
  (1021968385, [Char.ofNat 104, Char.ofNat 114], [Char.ofNat 104, Char.ofNat 114]),
  (1021984768, [Char.ofNat 109, Char.ofNat 105, Char.ofNat 108, Char.ofNat 108, Char.ofNat 101, Char.ofNat 110, Char.ofNat 105, Char.ofNat 117, Char.ofNat 109], [Char.ofNat 109, Char.ofNat 105, Char.ofNat 108, Char.ofNat 108, Char.ofNat 101, Char.ofNat 110, Char.ofNat 105, Char.ofNat 97]),
  (1021968384, [Char.ofNat 109, Char.ofNat 105, Char.ofNat 110], [Char.ofNat 109, Char.ofNat 105, Char.ofNat 110]),
  (1021968389, [Char.ofNat 109, Char.ofNat 116, Char.ofNat 104], [Char.ofNat 109, Char.ofNat 116, Char.ofNat 104]),
  (1021968388, [Char.ofNat 119, Char.ofNat 107], [Char.ofNat 119, Char.ofNat 107]),
  (1021972480, [Char.ofNat 121, Char.ofNat 114], [Char.ofNat 121, Char.ofNat 114]),
  (3360971096, [Char.ofNat 107, Char.ofNat 116], [Char.ofNat 107, Char.ofNat 116]),
  (2390987750, [Char.ofNat 99], [Char.ofNat 99]),
  (3010028704, [Char.ofNat 99, Char.ofNat 99], [Char.ofNat 99, Char.ofNat 99]),
  (470846374, [Char.ofNat 99, Char.ofNat 117, Char.ofNat 112], [Char.ofNat 99, Char.ofNat 117, Char.ofNat 112, Char.ofNat 115]),
  (470846376, [Char.ofNat 102, Char.ofNat 108, Char.ofNat 32, Char.ofNat 111, Char.ofNat 122], [Char.ofNat 102, Char.ofNat 108, Char.ofNat 32, Char.ofNat 111, Char.ofNat 122, Char.ofNat 115]),
  (470846371, [Char.ofNat 103, Char.ofNat 97, Char.ofNat 108, Char.ofNat 108, Char.ofNat 111, Char.ofNat 110], [Char.ofNat 103, Char.ofNat 97, Char.ofNat 108, Char.ofNat 108, Char.ofNat 111, Char.ofNat 110, Char.ofNat 115]),
  (470846375, [Char.ofNat 103, Char.ofNat 105, Char.ofNat 108, Char.ofNat 108], [Char.ofNat 103, Char.ofNat 105, Char.ofNat 108, Char.ofNat 108, Char.ofNat 115]),
  (470846370, [Char.ofNat 108], [Char.ofNat 108]),
  (470846372, [Char.ofNat 112, Char.ofNat 105, Char.ofNat 110, Char.ofNat 116], [Char.ofNat 112, Char.ofNat 105, Char.ofNat 110, Char.ofNat 116, Char.ofNat 115]),
  (470846373, [Char.ofNat 113, Char.ofNat 117, Char.ofNat 97, Char.ofNat 114, Char.ofNat 116], [Char.ofNat 113, Char.ofNat 117, Char.ofNat 97, Char.ofNat 114, Char.ofNat 116, Char.ofNat 115]),
  (470846377, [Char.ofNat 116, Char.ofNat 98, Char.ofNat 115, Char.ofNat 112], [Char.ofNat 116, Char.ofNat 98, Char.ofNat 115, Char.ofNat 112, Char.ofNat 115]),
  (470846378, [Char.ofNat 116, Char.ofNat 115, Char.ofNat 112], [Char.ofNat 116, Char.ofNat 115, Char.ofNat 112, Char.ofNat 115])
]

end Anything.Spec.Pinned
