import Anything.Spec.SI
/-!
# Quantity expressions: AST, rendering, SI denotation (C02–C04, C09, C13)
-/

namespace Anything.Spec.Quantity
open Anything Anything.Spec Anything.Spec.SI

/-- One written factor of a unit expression: the literals as typed and the power. -/
structure RTerm where
  pfxLit : List Char
  nameLit : List Char
  power : Int
  deriving Repr

def lookupLit (tbl : List (List Char × WordAction)) (lit : List Char) : Option WordAction :=
  (tbl.find? (fun r => r.1 == lit)).map (·.2)

/-- Meaning of a written factor according to the extracted word tables: the prefix
literal must be a prefix, the name literal a unit name. -/
def resolve (t : RTerm) : Option UTerm :=
  let p? : Option Int :=
    if t.pfxLit.isEmpty then some 0 else
    match lookupLit Generated.combined t.pfxLit with
    | some (.pfx p _) => some p
    | _ => none
  let u? : Option (UnitKey × Int) :=
    match lookupLit Generated.unitsOnly t.nameLit with
    | some (.unit k bias) => some (k, bias)
    | _ => none
  match p?, u? with
  | some p, some (k, bias) => some { pfx := p + bias, key := k, power := t.power }
  | _, _ => none

def resolveAll (ts : List RTerm) : Option UnitSem := ts.mapM resolve

inductive QExpr
  | num (l : Decimal.Literal)
  | qty (l : Decimal.Literal) (u : List RTerm)
  | bin (op : Arith.BinOp) (a b : QExpr)
  | paren (e : QExpr)
  | cast (e : QExpr) (u : List RTerm)
  | fact (phrase : List Char) (v : Rat) (u : List (UnitKey × Int × Int))
  deriving Repr

/-- Quantity of a literal with a unit. A lone offset scale with power one denotes a
point on that scale; any other use of an offset scale has no denotation here. -/
def qtyOf (interval : Bool) (x : Rat) (sem : UnitSem) : Except QErr Q :=
  if interval || proportional sem then .ok ⟨x * scale sem, dims sem⟩
  else match sem with
    | [t] => if t.power = 1 then .ok ⟨pointToKelvin t.key t.pfx x, dims sem⟩ else .error .offsetScale
    | _ => .error .offsetScale

/-- Value of a quantity expressed in a target unit (`to`). -/
def inUnit (interval : Bool) (q : Q) (sem : UnitSem) : Except QErr Rat :=
  if q.dim ≠ dims sem then .error .dims
  else if interval || proportional sem then .ok (q.si / scale sem)
  else match sem with
    | [t] => if t.power = 1 then
        match scaleOf t.key with
        | .affine m a => .ok ((q.si - a) / m / Arith.zpow 10 t.pfx)
        | .linear f => .ok (q.si / (Arith.zpow 10 t.pfx * f))
      else .error .offsetScale
    | _ => .error .offsetScale

/-- A plain number is dimensionless but adopts the other operand's dimension under
`+`/`-` (the property's rule for plain numbers). It is tracked separately. -/
structure Val where
  q : Q
  plain : Bool      -- a plain number: no unit at all
  unit : Option UnitSem  -- the unit the tool is expected to express the value in, when determined
  deriving Repr

/-- `interval = true` reads every degree of an offset scale as an interval (pure
factor), the alternative C09 allows for compound uses of such a scale. -/
def denote (interval : Bool) : QExpr → Except QErr Val
  | .fact _ v u =>
    let q := siOfResult v u
    .ok { q := q, plain := u.isEmpty, unit := none }
  | .num l => .ok { q := ⟨Decimal.value l, DimVec.zero⟩, plain := true, unit := some [] }
  | .qty l u =>
    match resolveAll u with
    | none => .error .other
    | some sem => match qtyOf interval (Decimal.value l) sem with
      | .ok q => .ok { q := q, plain := false, unit := some sem }
      | .error e => .error e
  | .paren e => denote interval e
  | .cast e u =>
    match denote interval e, resolveAll u with
    | .ok v, some sem =>
      if v.plain then .ok { q := ⟨v.q.si * scale sem, dims sem⟩, plain := false, unit := some sem }  -- a plain number adopts the unit
      else match inUnit interval v.q sem with
        | .ok _ => .ok { q := v.q, plain := false, unit := some sem }
        | .error e => .error e
    | .error e, _ => .error e
    | _, none => .error .other
  | .bin op a b =>
    match denote interval a, denote interval b with
    | .ok x, .ok y =>
      match op with
      | .add | .sub =>
        -- plain numbers adopt the unit of the other side: x + (y U) means (x U) + (y U)
        let f := if op = .add then qadd else qsub
        if x.plain && !y.plain then
          match y.unit with
          | some sem => if interval || proportional sem then
              (f ⟨x.q.si * scale sem, y.q.dim⟩ y.q).map (fun q => { q := q, plain := false, unit := y.unit })
            else .error .offsetScale
          | none => .error .other
        else if !x.plain && y.plain then
          match x.unit with
          | some sem => if interval || proportional sem then
              (f x.q ⟨y.q.si * scale sem, x.q.dim⟩).map (fun q => { q := q, plain := false, unit := x.unit })
            else .error .offsetScale
          | none => .error .other
        else (f x.q y.q).map (fun q => { q := q, plain := x.plain && y.plain, unit := if x.plain && y.plain then some [] else none })
      | .mul => .ok { q := qmul x.q y.q, plain := x.plain && y.plain, unit := none }
      | .div => (qdiv x.q y.q).map (fun q => { q := q, plain := x.plain && y.plain, unit := none })
      | .pow =>
        if !y.plain then .error .power
        else if !Arith.isInt y.q.si then .error .power
        else (qpow x.q y.q.si.num).map (fun q => { q := q, plain := x.plain, unit := none })
    | .error e, _ => .error e
    | _, .error e => .error e

/-! ## Rendering -/

def renderInt (n : Int) : List Char := (toString n).toList

def renderTerm (t : RTerm) (p : Int) : List Char :=
  t.pfxLit ++ t.nameLit ++ (if p = 1 then [] else ['^'] ++ renderInt p)

def joinStar : List (List Char) → List Char
  | [] => []
  | [x] => x
  | x :: xs => x ++ ['*'] ++ joinStar xs

/-- Numerator factors joined by `*`, then one `/` followed by the denominator factors
(everything after the `/` is inverted). A unit without numerator is written `1/…`. -/
def renderUnit (u : List RTerm) : List Char :=
  let nums := u.filter (fun t => t.power > 0)
  let dens := u.filter (fun t => t.power < 0)
  let n := joinStar (nums.map (fun t => renderTerm t t.power))
  let d := joinStar (dens.map (fun t => renderTerm t (-t.power)))
  (if nums.isEmpty then ['1'] else n) ++ (if dens.isEmpty then [] else ['/'] ++ d)

def render : QExpr → Arith.Layout → List Char × Arith.Layout
  | .fact phrase _ _, ws => (phrase, ws)
  | .num l, ws => (Decimal.renderNumber l, ws)
  | .qty l u, ws =>
    let (b, ws) := Arith.nextBlank ws
    (Decimal.renderNumber l ++ b ++ renderUnit u, ws)
  | .bin op a b, ws =>
    let (sa, ws) := render a ws
    let (b1, ws) := Arith.nextBlank ws
    let (b2, ws) := Arith.nextBlank ws
    let (sb, ws) := render b ws
    (sa ++ b1 ++ op.sym ++ b2 ++ sb, ws)
  | .paren e, ws =>
    let (b1, ws) := Arith.nextBlank ws
    let (se, ws) := render e ws
    let (b2, ws) := Arith.nextBlank ws
    (['('] ++ b1 ++ se ++ b2 ++ [')'], ws)
  | .cast e u, ws =>
    let (se, ws) := render e ws
    let (b1, ws) := Arith.nextBlank ws
    let (b2, ws) := Arith.nextBlank ws
    (se ++ b1 ++ ['t', 'o'] ++ b2 ++ renderUnit u, ws)

def renderQuery (e : QExpr) (ws : Arith.Layout) : List Char :=
  let (b0, ws) := Arith.nextBlank ws
  let (s, ws) := render e ws
  let (b1, _) := Arith.nextBlank ws
  b0 ++ s ++ b1

end Anything.Spec.Quantity
