import Anything.Spec.UnitRef
import Anything.Model.Compound
/-!
# Valid readings of a unit word (C05)

A word is read as a sequence of pieces, each an optional SI prefix followed by a
unit name; `-` may separate prefix, name and pieces. The literal tables are the
extracted ones (their agreement with the reference table is a separate
obligation, `refcheck`).
-/

namespace Anything.Spec.Words
open Anything

def isPrefixOf : List Char → List Char → Bool
  | [], _ => true
  | _ :: _, [] => false
  | a :: as, b :: bs => a == b && isPrefixOf as bs

def skipSep : List Char → List Char
  | '-' :: r => skipSep r
  | s => s

/-- All name literals (from both lexers) with unit and bias. -/
def nameTable : List (List Char × UnitKey × Int) :=
  (Generated.unitsOnly ++ Generated.combined).filterMap fun (lit, act) =>
    match act with
    | .unit k b => some (lit, k, b)
    | _ => none

def prefixTable : List (List Char × Int) :=
  Generated.combined.filterMap fun (lit, act) =>
    match act with
    | .pfx p _ => some (lit, p)
    | _ => none

/-- All readings of `w` as `(stored prefix, unit)` pieces. -/
def readings : Nat → List Char → List (List (Int × UnitKey))
  | 0, _ => []
  | fuel + 1, w =>
    let w := skipSep w
    if w.isEmpty then [[]] else
    let heads : List (Int × List Char) :=
      (0, w) :: prefixTable.filterMap (fun (lit, p) => if isPrefixOf lit w then some (p, skipSep (w.drop lit.length)) else none)
    heads.flatMap fun (p, rest) =>
      nameTable.flatMap fun (lit, k, b) =>
        if !lit.isEmpty && isPrefixOf lit rest then
          (readings fuel (rest.drop lit.length)).map (fun tl => (p + b, k) :: tl)
        else []

/-- The compound a reading denotes (every piece with power one); `none` if the
same unit occurs with two different prefixes. -/
def compoundOf (r : List (Int × UnitKey)) : Option Compound :=
  r.foldlM (fun c (p, k) => match Compound.update c k 1 p with
    | .ok c' => some c'
    | .error _ => none) []

end Anything.Spec.Words
