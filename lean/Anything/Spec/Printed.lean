import Anything.Spec.Arith
/-!
# Independent specification of printed decimals (C08)

`readBack` reads a printed text `[-]d[.ddd][…][e±k]` as a decimal with its
exponent; `Faithful r text` says the text is `r` cut off toward zero at the last
printed digit, with the continuation mark exactly when something non-zero was
cut off.
-/

namespace Anything.Spec.Printed
open Anything.Spec

structure Read where
  neg : Bool
  intDigits : List Nat
  fracDigits : List Nat
  mark : Bool
  exp : Int
  deriving Repr

def isDigitC (c : Char) : Bool := '0'.toNat ≤ c.toNat && c.toNat ≤ '9'.toNat

def spanDigits : List Char → List Nat × List Char
  | [] => ([], [])
  | c :: cs => if isDigitC c then
      let (ds, r) := spanDigits cs
      ((c.toNat - '0'.toNat) :: ds, r)
    else ([], c :: cs)

/-- Parse the printed form; `none` if the text is not of that form. -/
def readBack (s : List Char) : Option Read :=
  let (neg, s) := match s with | '-' :: r => (true, r) | _ => (false, s)
  let (int, s) := spanDigits s
  if int.isEmpty then none else
  let (frac, s) := match s with
    | '.' :: r => spanDigits r
    | _ => ([], s)
  let (mark, s) := match s with | '…' :: r => (true, r) | _ => (false, s)
  match s with
  | [] => some { neg := neg, intDigits := int, fracDigits := frac, mark := mark, exp := 0 }
  | 'e' :: r =>
    let (eneg, r) := match r with | '-' :: t => (true, t) | _ => (false, r)
    let (ed, r) := spanDigits r
    if ed.isEmpty || !r.isEmpty then none
    else
      let e : Int := (Decimal.digitsVal ed : Nat)
      some { neg := neg, intDigits := int, fracDigits := frac, mark := mark, exp := if eneg then -e else e }
  | _ => none

/-- Unsigned value of the printed digits. -/
def Read.magnitude (r : Read) : Rat :=
  ((Decimal.digitsVal (r.intDigits ++ r.fracDigits) : Nat) : Rat) / (10 : Rat) ^ r.fracDigits.length
    * Arith.zpow 10 r.exp

/-- One unit in the last printed place. -/
def Read.ulp (r : Read) : Rat := Arith.zpow 10 (r.exp - r.fracDigits.length)

/-- The printed text is `x` cut off toward zero at its last printed digit, signed
correctly, and the mark is present exactly when the cut-off part is non-zero. -/
def faithful (x : Rat) (r : Read) : Bool :=
  let a := if x < 0 then -x else x
  let m := r.magnitude
  decide (m ≤ a) && decide (a < m + r.ulp) && (r.mark == decide (m ≠ a))
    && (r.neg == decide (x < 0 ∧ True)) 

/-- Verdict used at run time. -/
def verdict (x : Rat) (text : List Char) : String :=
  match readBack text with
  | none => "REJECT unreadable"
  | some r =>
    let a := if x < 0 then -x else x
    let m := r.magnitude
    if !(decide (m ≤ a) && decide (a < m + r.ulp)) then "REJECT not the value cut off toward zero at the last digit"
    else if r.mark != decide (m ≠ a) then
      (if r.mark then "REJECT continuation mark although nothing non-zero was cut off"
       else "REJECT digits cut off without continuation mark")
    else if r.neg != decide (x < 0) then "REJECT sign"
    else "ACCEPT"

end Anything.Spec.Printed
