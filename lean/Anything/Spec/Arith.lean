import Anything.Spec.Decimal
/-!
# Independent specification of numeric expressions (C01, C06, C10)

An expression AST, its exact rational denotation, the documented grammar's
notion of "this tree is what its own rendering denotes" (`WF`), and a renderer
parameterised by a layout (a stream of blank strings, one per optional blank
position). Written from the property texts, not from the code.
-/

namespace Anything.Spec.Arith
open Anything.Spec

inductive BinOp | add | sub | mul | div | pow
  deriving DecidableEq, Repr

inductive Fn | round | floor | ceil
  deriving DecidableEq, Repr

inductive NExpr
  | lit (l : Decimal.Literal)
  | bin (op : BinOp) (a b : NExpr)
  | paren (e : NExpr)
  | call (f : Fn) (args : List NExpr)
  deriving Repr

inductive ArithErr | divByZero | nonIntegerPower | arity | other
  deriving DecidableEq, Repr

/-- Documented precedence: `^` (10) > `*` `/` (3) > `+` `-` (2) > `to` (1). -/
def BinOp.prio : BinOp → Nat
  | .add => 2 | .sub => 2 | .mul => 3 | .div => 3 | .pow => 10

def isInt (r : Rat) : Bool := r.den == 1

/-- `x ^ n` for an integer `n`, as a rational. -/
def zpow (x : Rat) (n : Int) : Rat :=
  if 0 ≤ n then x ^ n.toNat else 1 / x ^ n.natAbs

/-- Greatest integer not above `x`. -/
def floorI (x : Rat) : Int := x.floor
/-- Least integer not below `x`. -/
def ceilI (x : Rat) : Int := -((-x).floor)
/-- Nearest integer, halves away from zero. -/
def roundHalfAway (x : Rat) : Int :=
  if 0 ≤ x then (x + 1/2).floor else -((-x + 1/2).floor)
/-- Nearest multiple of `10^-n`, halves away from zero. -/
def roundTo (x : Rat) (n : Int) : Rat :=
  (roundHalfAway (x * zpow 10 n) : Rat) / zpow 10 n

def applyBin (op : BinOp) (a b : Rat) : Except ArithErr Rat :=
  match op with
  | .add => .ok (a + b)
  | .sub => .ok (a - b)
  | .mul => .ok (a * b)
  | .div => if b = 0 then .error .divByZero else .ok (a / b)
  | .pow =>
    if !isInt b then .error .nonIntegerPower
    else if a = 0 ∧ b.num < 0 then .error .divByZero
    else .ok (zpow a b.num)

def applyFn (f : Fn) (args : List Rat) : Except ArithErr Rat :=
  match f, args with
  | .floor, [x] => .ok (floorI x)
  | .ceil, [x] => .ok (ceilI x)
  | .round, [x] => .ok (roundHalfAway x)
  | .round, [x, n] => if isInt n then .ok (roundTo x n.num) else .error .other
  | _, _ => .error .arity

mutual
def denote : NExpr → Except ArithErr Rat
  | .lit l => .ok (Decimal.value l)
  | .bin op a b =>
    match denote a, denote b with
    | .ok x, .ok y => applyBin op x y
    | .error e, _ => .error e
    | _, .error e => .error e
  | .paren e => denote e
  | .call f args =>
    match denoteList args with
    | .ok vs => applyFn f vs
    | .error e => .error e
def denoteList : List NExpr → Except ArithErr (List Rat)
  | [] => .ok []
  | e :: es =>
    match denote e, denoteList es with
    | .ok v, .ok vs => .ok (v :: vs)
    | .error e, _ => .error e
    | _, .error e => .error e
end

/-- Priority of the outermost construct; atoms bind tightest. -/
def NExpr.prio : NExpr → Nat
  | .bin op _ _ => op.prio
  | _ => 100

mutual
/-- The AST is the one the documented grammar assigns to its own rendering:
left-associative operators, so the left child may have the same priority but the
right child must bind strictly tighter. -/
def WF : NExpr → Prop
  | .lit l => l.WF
  | .bin op a b => WF a ∧ WF b ∧ op.prio ≤ a.prio ∧ op.prio < b.prio
  | .paren e => WF e
  | .call _ args => WFList args
def WFList : List NExpr → Prop
  | [] => True
  | e :: es => WF e ∧ WFList es
end

def BinOp.sym : BinOp → List Char
  | .add => ['+'] | .sub => ['-'] | .mul => ['*'] | .div => ['/'] | .pow => ['^']

def Fn.name : Fn → List Char
  | .round => "round".toList | .floor => "floor".toList | .ceil => "ceil".toList

/-- A layout: the strings written at the successive optional blank positions. -/
abbrev Layout := List (List Char)

def nextBlank : Layout → List Char × Layout
  | [] => ([' '], [])
  | w :: ws => (w, ws)

mutual
/-- Render with the layout threaded left to right. Blank positions: between a
number and its `%`, on both sides of a binary operator, inside parentheses next
to both delimiters, and on both sides of the commas of a call. -/
def render : NExpr → Layout → List Char × Layout
  | .lit l, ws =>
    if l.percent then
      let (b, ws) := nextBlank ws
      (Decimal.renderNumber l ++ b ++ ['%'], ws)
    else (Decimal.renderNumber l, ws)
  | .bin op a b, ws =>
    let (sa, ws) := render a ws
    let (b1, ws) := nextBlank ws
    let (b2, ws) := nextBlank ws
    let (sb, ws) := render b ws
    (sa ++ b1 ++ op.sym ++ b2 ++ sb, ws)
  | .paren e, ws =>
    let (b1, ws) := nextBlank ws
    let (se, ws) := render e ws
    let (b2, ws) := nextBlank ws
    (['('] ++ b1 ++ se ++ b2 ++ [')'], ws)
  | .call f args, ws =>
    let (b1, ws) := nextBlank ws
    let (sargs, ws) := renderArgs args ws
    let (b2, ws) := nextBlank ws
    (f.name ++ ['('] ++ b1 ++ sargs ++ b2 ++ [')'], ws)
def renderArgs : List NExpr → Layout → List Char × Layout
  | [], ws => ([], ws)
  | [e], ws => render e ws
  | e :: es, ws =>
    let (se, ws) := render e ws
    let (b1, ws) := nextBlank ws
    let (b2, ws) := nextBlank ws
    let (rest, ws) := renderArgs es ws
    (se ++ b1 ++ [','] ++ b2 ++ rest, ws)
end

/-- Whole query: leading blank, expression, trailing blank. -/
def renderQuery (e : NExpr) (ws : Layout) : List Char :=
  let (b0, ws) := nextBlank ws
  let (s, ws) := render e ws
  let (b1, _) := nextBlank ws
  b0 ++ s ++ b1

end Anything.Spec.Arith
