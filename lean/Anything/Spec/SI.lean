import Anything.Spec.Arith
import Anything.Generated.Tables
/-!
# Independent specification of quantities (C02, C03, C04, C09, C13)

A quantity denotes a value in base SI units together with a dimension vector.
The scale of a unit name is read from the unit table extracted from the working
tree (`Generated.units`); that the table itself carries the standard values is
C05's business. Offset scales (`°C`, `°F`) have no proportional scale: they
denote a *point* only when they stand alone with power one, handled by
`pointToKelvin` (C09).
-/

namespace Anything.Spec.SI
open Anything Anything.Spec

/-- Dimension vector over the eight base units. -/
abbrev DimVec := List Int   -- length 8, indexed by `Base.idx`

def DimVec.zero : DimVec := List.replicate 8 0
def DimVec.add (a b : DimVec) : DimVec := List.zipWith (· + ·) a b
def DimVec.smul (n : Int) (a : DimVec) : DimVec := a.map (n * ·)
def DimVec.single (b : Base) (n : Int) : DimVec :=
  (List.range 8).map (fun i => if i = b.idx then n else 0)

def findUnit (id : Nat) : Option UnitDef := Generated.units.find? (fun u => u.id == id)

/-- Dimensions of one unit. -/
def dimsOf : UnitKey → DimVec
  | .base b => DimVec.single b 1
  | .derived id => match findUnit id with
    | some d => d.dims.foldl (fun acc (b, c) => DimVec.add acc (DimVec.single b c)) DimVec.zero
    | none => DimVec.zero

/-- How a unit relates to base SI. -/
inductive Scale
  | linear (f : Rat)                 -- x unit = f·x base
  | affine (m a : Rat)               -- a point x on the scale is m·x + a kelvin; an interval is m·x
  deriving Repr

def scaleOf : UnitKey → Scale
  | .base _ => .linear 1
  | .derived id => match findUnit id with
    | some d => match d.conv with
      | .none => .linear 1
      | .factor n dd => .linear ((n : Rat) / (dd : Rat))
      | .offset n dd => .affine 1 ((n : Rat) / (dd : Rat))
      | .methods tmN tmD taN taD _ _ _ _ => .affine ((tmN : Rat) / (tmD : Rat)) ((taN : Rat) / (taD : Rat))
    | none => .linear 1

def isAffine (k : UnitKey) : Bool := match scaleOf k with | .affine _ _ => true | _ => false

/-- Proportional factor of a unit (for an affine scale: the size of one degree). -/
def linFactor (k : UnitKey) : Rat := match scaleOf k with | .linear f => f | .affine m _ => m

/-- One factor of a unit expression: prefix exponent, unit, power. -/
structure UTerm where
  pfx : Int
  key : UnitKey
  power : Int
  deriving Repr

abbrev UnitSem := List UTerm

def dims (u : UnitSem) : DimVec :=
  u.foldl (fun acc t => DimVec.add acc (DimVec.smul t.power (dimsOf t.key))) DimVec.zero

/-- Proportional scale of a unit expression: `∏ (10^prefix · factor)^power`. -/
def scale (u : UnitSem) : Rat :=
  u.foldl (fun acc t => acc * Arith.zpow (Arith.zpow 10 t.pfx * linFactor t.key) t.power) 1

def proportional (u : UnitSem) : Bool := u.all (fun t => !isAffine t.key)

/-- A quantity in base SI. -/
structure Q where
  si : Rat
  dim : DimVec
  deriving Repr

inductive QErr | dims | divByZero | power | offsetScale | other
  deriving Repr, DecidableEq

def qadd (a b : Q) : Except QErr Q := if a.dim = b.dim then .ok ⟨a.si + b.si, a.dim⟩ else .error .dims
def qsub (a b : Q) : Except QErr Q := if a.dim = b.dim then .ok ⟨a.si - b.si, a.dim⟩ else .error .dims
def qmul (a b : Q) : Q := ⟨a.si * b.si, DimVec.add a.dim b.dim⟩
def qdiv (a b : Q) : Except QErr Q :=
  if b.si = 0 then .error .divByZero else .ok ⟨a.si / b.si, DimVec.add a.dim (DimVec.smul (-1) b.dim)⟩
def qpow (a : Q) (n : Int) : Except QErr Q :=
  if a.si = 0 ∧ n < 0 then .error .divByZero else .ok ⟨Arith.zpow a.si n, DimVec.smul n a.dim⟩

/-- SI reading of a canonical result `(value, [(key, power, prefix)])` as printed by
the implementation (proportional units only). -/
def siOfResult (v : Rat) (u : List (UnitKey × Int × Int)) : Q :=
  let sem : UnitSem := u.map (fun (k, p, x) => { pfx := x, key := k, power := p })
  ⟨v * scale sem, dims sem⟩

/-- Kelvin reading of a point on a temperature scale (unit alone, power one). -/
def pointToKelvin (k : UnitKey) (pfx : Int) (x : Rat) : Rat :=
  match scaleOf k with
  | .linear f => Arith.zpow 10 pfx * f * x
  | .affine m a => m * (Arith.zpow 10 pfx * x) + a

end Anything.Spec.SI
