import Anything.Model.Grammar
import Anything.Model.Number
import Anything.Model.UnitWord
import Anything.Model.Compound
import Anything.Model.RatNum
/-!
# Model of `src/eval.rs`, `src/eval/builtin.rs`, `src/query.rs`

Errors carry their kind and byte span (start, end). Spans are recomputed from
the tree: a node starts where its first leaf starts and an empty node is a point
at the byte length of everything before it.
-/

namespace Anything

inductive ErrKind
  | syntaxError | divideByZero | lookupError | illegalOperation | conversionNotPossible
  | illegalCast | parseRational | badNumber | unexpected | expected | missing | illegalUnit
  | missingFunction | argumentMismatch | badArgument | nonFinite | missingNode | prefixMismatch
  | illegalUnitNumber | illegalPowerUnit | illegalPowerNonInteger | treeError
  deriving DecidableEq, Repr

def ErrKind.name : ErrKind → String
  | .syntaxError => "syntaxError" | .divideByZero => "divideByZero" | .lookupError => "lookupError"
  | .illegalOperation => "illegalOperation" | .conversionNotPossible => "conversionNotPossible"
  | .illegalCast => "illegalCast" | .parseRational => "parseRational" | .badNumber => "badNumber"
  | .unexpected => "unexpected" | .expected => "expected" | .missing => "missing"
  | .illegalUnit => "illegalUnit" | .missingFunction => "missingFunction"
  | .argumentMismatch => "argumentMismatch" | .badArgument => "badArgument"
  | .nonFinite => "nonFinite" | .missingNode => "missingNode" | .prefixMismatch => "prefixMismatch"
  | .illegalUnitNumber => "illegalUnitNumber" | .illegalPowerUnit => "illegalPowerUnit"
  | .illegalPowerNonInteger => "illegalPowerNonInteger" | .treeError => "treeError"

inductive EvalErr
  | err (k : ErrKind) (s e : Nat)
  | panic (site : String)
  | unsupported (what : String)   -- model limit (sin/cos go through f64)
  deriving Repr

structure Numeric where
  value : Rat
  unit : Compound
  deriving Repr, Inhabited

/-- A constant as far as evaluation is concerned. -/
structure Fact where
  value : Rat
  unit : Compound
  description : List Char
  deriving Repr, Inhabited

inductive LookupResult
  | found (c : Fact)
  | nothing
  | error

/-- The database is a parameter of the evaluator. -/
abbrev Db := List Char → LookupResult

structure Desc where
  phrase : List Char
  description : List Char
  deriving Repr, DecidableEq

/-- Evaluation monad: the description log survives errors (it is a `&mut Vec`
shared by all results of a query). -/
abbrev EvalM (α : Type) := List Desc → (Except EvalErr α × List Desc)

instance : Monad EvalM where
  pure a := fun d => (.ok a, d)
  bind m f := fun d => match m d with
    | (.ok a, d') => f a d'
    | (.error e, d') => (.error e, d')

def EvalM.throw {α} (e : EvalErr) : EvalM α := fun d => (.error e, d)
def EvalM.log (x : Desc) : EvalM Unit := fun d => (.ok (), d ++ [x])

namespace Eval

structure Cfg where
  db : Db
  describe : Bool := false
  debug : Bool := true

def err {α} (k : ErrKind) (s e : Nat) : EvalM α := EvalM.throw (.err k s e)

/-- A tree together with the byte offset at which it starts. -/
structure At where
  off : Nat
  t : Tree

def At.stop (a : At) : Nat := a.off + a.t.len

/-- Children with their start offsets. -/
def kidsAt (off : Nat) : List Tree → List At
  | [] => []
  | t :: ts => { off := off, t := t } :: kidsAt (off + t.len) ts

def At.kids (a : At) : List At := kidsAt a.off a.t.kids

/-- `str::parse::<i32>`. -/
def parseI32 (s : List Char) : Option Int :=
  let (neg, ds) := match s with
    | '-' :: r => (true, r)
    | '+' :: r => (false, r)
    | _ => (false, s)
  if ds.isEmpty || !ds.all Lexer.isDigit then none
  else
    let v : Int := (ds.foldl (fun acc c => acc * 10 + Number.digitVal c) 0 : Nat)
    let v := if neg then -v else v
    if v < -2147483648 || v > 2147483647 then none else some v

def add (s e : Nat) (a b : Numeric) (sub : Bool) : EvalM Numeric :=
  match Compound.factor a.unit b.unit b.value with
  | .ok (some bv) =>
    let unit := if a.unit.isEmpty then b.unit else a.unit
    pure { value := if sub then a.value - bv else a.value + bv, unit := unit }
  | .ok none => err .illegalOperation s e
  | .error _ => err .conversionNotPossible s e

def mulDiv (cfg : Cfg) (s e : Nat) (a b : Numeric) (div : Bool) : EvalM Numeric :=
  match Compound.mul cfg.debug a.unit b.unit (if div then -1 else 1) a.value b.value with
  | .error .conversion => err .conversionNotPossible s e
  | .error .zeroPower => EvalM.throw (.panic "Compound::new zero power")
  | .ok (unit, av, bv) =>
    if div then
      if bv = 0 then err .divideByZero s e else pure { value := av / bv, unit := unit }
    else pure { value := av * bv, unit := unit }

/-- The `while !pow.is_zero()` loop of `pow`. -/
def powLoop (b : Rat) : Nat → Rat → Rat
  | 0, v => v
  | n + 1, v => powLoop b n (v * b)

def pow (s e : Nat) (base p : Numeric) : EvalM Numeric :=
  if !p.unit.isEmpty then err .illegalPowerUnit s e
  else if p.value.den ≠ 1 then err .illegalPowerNonInteger s e
  else
    let n := p.value.num
    if !base.unit.isEmpty && (n < -2147483648 || n > 2147483647 || !Compound.powFits base.unit n) then
      err .badArgument s e
    else
      let unit := if base.unit.isEmpty then base.unit else Compound.checkedPow base.unit n
      if n = 0 then pure { value := 1, unit := unit }
      else if base.value = 0 then
        if n < 0 then err .divideByZero s e else pure { value := base.value, unit := unit }
      else
        let b := if n < 0 then 1 / base.value else base.value
        pure { value := powLoop b n.natAbs 1, unit := unit }

/-- `Children::next_node`: drop leading children without children of their own. -/
def nextNode : List At → List At
  | [] => []
  | a :: rest => if a.t.hasChildren then a :: rest else nextNode rest

theorem nextNode_length_le (l : List At) : (nextNode l).length ≤ l.length := by
  induction l with
  | nil => simp [nextNode]
  | cons a rest ih =>
    simp only [nextNode]
    split
    · simp
    · simp only [List.length_cons]; omega

/-- The `while let Some(result) = parser.next().transpose()` loop of the WORD branch:
parse one `(prefix, unit)` at a time and `update` the compound right away. -/
def wordUnits (cur : Int) : Nat → List Char → Compound → Option (UnitKey × Int) →
    Except ErrKind (Compound × Option (UnitKey × Int))
  | 0, _, _, _ => .error .illegalUnit
  | fuel + 1, s, c, last =>
    if s.isEmpty then .ok (c, last) else
    match UnitWord.parse s with
    | none => .error .illegalUnit
    | some (rest, pfx, u) =>
      match Compound.update c u cur pfx with
      | .error _ => .error .prefixMismatch
      | .ok c' =>
        if rest.length < s.length then wordUnits cur fuel rest c' (some (u, pfx))
        else .error .illegalUnit

/-- `eval::unit`: iterate the children that have children (`next_node`).
`pending = some (last, op)` means an `OP_POWER` node `op` has just been seen and
the next node (tokens skipped) is its exponent. -/
def unitLoop (cur : Int) (c : Compound) (last : Option (UnitKey × Int))
    (pending : Option (Option (UnitKey × Int) × At)) : List At → EvalM Compound
  | [] =>
    match pending with
    | none => pure c
    | some (_, op) => err .unexpected op.off op.stop
  | a :: rest =>
    if !a.t.hasChildren then unitLoop cur c last pending rest
    else match pending with
    | some (lastTaken, _) =>
      -- `(last.take(), nodes.next_node())` with `Some(node)`
      match lastTaken with
      | some (name, pfx) =>
        if a.t.kind == .NUMBER then
          match parseI32 a.t.text with
          | none => err .badNumber a.off a.stop
          | some p =>
            let delta := (p - 1) * cur
            if delta < -2147483648 || delta > 2147483647 then err .illegalUnitNumber a.off a.stop
            else if delta ≠ 0 then
              match Compound.update c name delta pfx with
              | .ok c' => unitLoop cur c' none none rest
              | .error _ => err .prefixMismatch a.off a.stop
            else unitLoop cur c none none rest
        else err .unexpected a.off a.stop
      | none => err .unexpected a.off a.stop
    | none =>
      match a.t.kind with
      | .NUMBER =>
        match parseI32 a.t.text with
        | none => err .badNumber a.off a.stop
        | some p =>
          if p ≠ 1 then err .illegalUnitNumber a.off a.stop else unitLoop cur c last none rest
      | .WORD =>
        match wordUnits cur (a.t.text.length + 1) a.t.text c last with
        | .ok (c', last') => unitLoop cur c' last' none rest
        | .error k => err k a.off a.stop
      | .OP_POWER => unitLoop cur c none (some (last, a)) rest
      | .OP_DIV => unitLoop (-cur) c last none rest
      | .WHITESPACE => unitLoop cur c last none rest
      | .OP_MUL => unitLoop cur c last none rest
      | _ => err .unexpected a.off a.stop

def unit (kids : List At) : EvalM Compound := unitLoop 1 [] none none kids

/-- `builtin::one`. -/
def one (s e : Nat) (args : List Numeric) : EvalM Numeric :=
  match args with
  | [a] => pure a
  | _ => err .argumentMismatch s e

def builtinRound (cfg : Cfg) (s e : Nat) (args : List Numeric) : EvalM Numeric :=
  match args with
  | [first] =>
    let v : Rat := if first.value.den = 1 then first.value else (RatNum.round first.value : Rat)
    pure { first with value := v }
  | [first, second] =>
    match RatNum.toI32 second.value with
    | none => err .badArgument s e
    | some n =>
      let v : Rat :=
        if n ≥ 0 && first.value.den = 1 then first.value
        else if n = 0 then (RatNum.round first.value : Rat)
        else
          let ten := ratZPow 10 n
          ((RatNum.round (first.value * ten) : Int) : Rat) / ten
      if cfg.debug && !(n > 0 || v.den = 1) then EvalM.throw (.panic "round debug_assert")
      else pure { first with value := v }
  | _ => err .argumentMismatch s e

def builtinFloor (s e : Nat) (args : List Numeric) : EvalM Numeric := do
  let first ← one s e args
  pure { first with value := (RatNum.floor first.value : Rat) }

def builtinCeil (s e : Nat) (args : List Numeric) : EvalM Numeric := do
  let first ← one s e args
  pure { first with value := (RatNum.ceil first.value : Rat) }

/-- The delayed first operand of an OPERATION. -/
inductive Delayed
  | node (a : At)
  | num (n : Numeric)

mutual

/-- `eval::eval`. `fuel` bounds the tree depth. -/
def eval (cfg : Cfg) : Nat → At → EvalM Numeric
  | 0, _ => EvalM.throw (.panic "fuel")
  | fuel + 1, a =>
    match a.t.kind with
    | .OPERATION =>
      match a.kids.filter (fun k => k.t.hasChildren) with
      | [] => err .missingNode a.off a.stop
      | base :: rest => do
        let base ← opFold cfg fuel a (.node base) rest
        force cfg fuel base
    | .NUMBER =>
      match Number.fromStr a.t.text with
      | some r => pure { value := r, unit := [] }
      | none => err .parseRational a.off a.stop
    | .WITH_UNIT =>
      match a.kids with
      | [] => err .missingNode a.off a.stop
      | valueNode :: rest =>
        match nextNode rest with
        | [] => err .missingNode a.off a.stop
        | u :: _ =>
          if u.t.kind != .UNIT then err .expected u.off u.stop
          else do
            let v ← eval cfg fuel valueNode
            let c ← unit u.kids
            pure { value := v.value, unit := c }
    | .SENTENCE => lookup cfg a
    | .WORD => lookup cfg a
    | .PERCENTAGE =>
      match a.kids with
      | [] => err .unexpected a.off a.stop
      | n :: _ =>
        if n.t.kind != .NUMBER then err .unexpected n.off n.stop
        else match Number.fromStr n.t.text with
          | some r => pure { value := r / 100, unit := [] }
          | none => err .parseRational a.off a.stop
    | .FN_CALL =>
      match a.kids.filter (fun k => k.t.hasChildren) with
      | name :: rest =>
        if name.t.kind != .FN_NAME then err .unexpected a.off a.stop
        else match rest with
          | arguments :: _ =>
            if arguments.t.kind != .FN_ARGUMENTS then err .unexpected a.off a.stop
            else do
              let args ← evalArgs cfg fuel (arguments.kids.filter (fun k => k.t.hasChildren))
              let nm := String.ofList name.t.text
              if nm == "round" then builtinRound cfg a.off a.stop args
              else if nm == "floor" then builtinFloor a.off a.stop args
              else if nm == "ceil" then builtinCeil a.off a.stop args
              else if nm == "sin" || nm == "cos" then
                match args with
                | [_] => EvalM.throw (.unsupported "sin/cos go through f64")
                | _ => err .argumentMismatch a.off a.stop
              else err .missingFunction a.off a.stop
          | [] => err .unexpected a.off a.stop
      | [] => err .unexpected a.off a.stop
    | .ERROR => err .syntaxError a.off a.stop
    | _ => err .unexpected a.off a.stop

def evalArgs (cfg : Cfg) : Nat → List At → EvalM (List Numeric)
  | _, [] => pure []
  | 0, _ :: _ => EvalM.throw (.panic "fuel")
  | fuel + 1, a :: rest => do
    let v ← eval cfg fuel a
    let vs ← evalArgs cfg fuel rest
    pure (v :: vs)

def force (cfg : Cfg) : Nat → Delayed → EvalM Numeric
  | _, .num n => pure n
  | 0, .node _ => EvalM.throw (.panic "fuel")
  | fuel + 1, .node a => eval cfg fuel a

/-- The `while let (Some(op), Some(rhs))` loop of the OPERATION branch. -/
def opFold (cfg : Cfg) : Nat → At → Delayed → List At → EvalM Delayed
  | _, _, base, [] => pure base
  | _, _, base, [_] => pure base
  | 0, _, _, _ :: _ :: _ => EvalM.throw (.panic "fuel")
  | fuel + 1, node, base, op :: rhs :: rest =>
    let s := node.off
    let e := node.stop
    match op.t.kind with
    | .OP_CAST => do
      let target ← unit rhs.kids
      let lhs ← force cfg fuel base
      match Compound.factor target lhs.unit lhs.value with
      | .ok (some v) => opFold cfg fuel node (.num { value := v, unit := target }) rest
      | .ok none => err .illegalCast s e
      | .error _ => err .conversionNotPossible s e
    | .ERROR => err .syntaxError op.off op.stop
    | k =>
      if k == .OP_ADD || k == .OP_SUB || k == .OP_DIV || k == .OP_MUL || k == .OP_IMPLICIT_MUL
          || k == .OP_POWER then do
        let r ← eval cfg fuel rhs
        let b ← force cfg fuel base
        let v ← (if k == .OP_ADD then add s e b r false
          else if k == .OP_SUB then add s e b r true
          else if k == .OP_DIV then mulDiv cfg s e b r true
          else if k == .OP_POWER then pow s e b r
          else mulDiv cfg s e b r false : EvalM Numeric)
        opFold cfg fuel node (.num v) rest
      else err .unexpected op.off op.stop

/-- The SENTENCE | WORD branch. -/
def lookup (cfg : Cfg) (a : At) : EvalM Numeric :=
  let s := a.t.text
  match cfg.db s with
  | .error => err .lookupError a.off a.stop
  | .nothing => err .missing a.off a.stop
  | .found c => do
    if cfg.describe then EvalM.log { phrase := s, description := c.description }
    pure { value := c.value, unit := c.unit }

end

mutual
/-- Number of tree elements: bounds both the nesting depth and the length of
every operator chain, hence the fuel `eval` needs. -/
def size : Tree → Nat
  | .tok _ _ _ => 1
  | .node _ _ ks => sizeList ks + 1
def sizeList : List Tree → Nat
  | [] => 0
  | t :: ts => size t + sizeList ts
end

/-- `Query`: evaluate every root child that is not a WHITESPACE token. -/
def queryLoop (cfg : Cfg) : List At → List Desc → List (Except EvalErr Numeric) × List Desc
  | [], d => ([], d)
  | a :: rest, d =>
    if a.t.kind == .WHITESPACE then queryLoop cfg rest d
    else
      let (r, d') := eval cfg (2 * size a.t + 2) a d
      let (rs, d'') := queryLoop cfg rest d'
      (r :: rs, d'')

/-- `parse` + `query`: results in order and the description log. -/
def query (cfg : Cfg) (src : List Char) : Except BErr (List (Except EvalErr Numeric) × List Desc) :=
  match Grammar.parseRoot src with
  | .error e => .error e
  | .ok forest => .ok (queryLoop cfg (kidsAt 0 forest) [])

/-- `impl FromStr for Compound`. -/
def compoundFromStr (src : List Char) : Except BErr (Except EvalErr Compound) :=
  match Grammar.parseUnit src with
  | .error e => .error e
  | .ok forest =>
    match kidsAt 0 forest with
    | [] => .ok (unit [] []).1
    | a :: _ =>
      if a.t.kind == .UNIT then .ok (unit a.kids []).1
      else .ok (.error (.err .expected a.off a.stop))

end Eval
end Anything
