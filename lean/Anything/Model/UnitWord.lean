import Anything.Generated.Tables
/-!
# Model of `generated::unit::parse` and `UnitParser`

logos lexers over literal tokens: the longest literal that is a prefix of the
remaining input, else an error.
-/

namespace Anything.UnitWord
open Anything

def isPrefix : List Char → List Char → Bool
  | [], _ => true
  | _ :: _, [] => false
  | a :: as, b :: bs => a == b && isPrefix as bs

/-- Longest literal of `table` that is a prefix of `s` (first one wins among equals). -/
def longest (table : List (List Char × WordAction)) (s : List Char) :
    Option (List Char × WordAction) :=
  table.foldl (fun best row =>
    if isPrefix row.1 s then
      match best with
      | none => some row
      | some b => if b.1.length < row.1.length then some row else some b
    else best) none

inductive Phase1
  | done (rest : List Char) (pfx : Int) (u : UnitKey)
  | cont (rest : List Char) (pfx : Int)
  | fail

/-- First loop (the `Combined` lexer). -/
def phase1 (table : List (List Char × WordAction)) : Nat → Int → List Char → Phase1
  | 0, _, _ => .fail
  | fuel + 1, pfx, s =>
    if s.isEmpty then .fail else
    match longest table s with
    | none => .fail
    | some (lit, .unit u bias) => .done (s.drop lit.length) (pfx + bias) u
    | some (lit, .pfx p alone) =>
      let rest := s.drop lit.length
      match rest.isEmpty, alone with
      | true, some (u, bias) => .done [] (pfx + bias) u
      | _, _ => .cont rest (pfx + p)
    | some (lit, .sep) =>
      if lit.isEmpty then .fail else phase1 table fuel pfx (s.drop lit.length)

/-- Second loop (the `Units` lexer). -/
def phase2 (table : List (List Char × WordAction)) : Nat → Int → List Char →
    Option (List Char × Int × UnitKey)
  | 0, _, _ => none
  | fuel + 1, pfx, s =>
    if s.isEmpty then none else
    match longest table s with
    | none => none
    | some (lit, .unit u bias) => some (s.drop lit.length, pfx + bias, u)
    | some (_, .pfx _ _) => none   -- the `Units` enum has no prefix variants
    | some (lit, .sep) =>
      if lit.isEmpty then none else phase2 table fuel pfx (s.drop lit.length)

/-- `generated::unit::parse`: `(remainder, prefix, unit)`. -/
def parse (s : List Char) : Option (List Char × Int × UnitKey) :=
  match phase1 Generated.combined (s.length + 1) 0 s with
  | .fail => none
  | .done rest p u => some (rest, p, u)
  | .cont rest p => phase2 Generated.unitsOnly (rest.length + 1) p rest

/-- The `while let Some(result) = parser.next().transpose()` loop of `eval::unit`:
all `(prefix, unit)` pairs of a word, or `none` if some remainder is not a unit. -/
def parseAll : Nat → List Char → Option (List (Int × UnitKey))
  | 0, _ => none
  | fuel + 1, s =>
    if s.isEmpty then some [] else
    match parse s with
    | none => none
    | some (rest, p, u) =>
      if rest.length < s.length then
        match parseAll fuel rest with
        | none => none
        | some l => some ((p, u) :: l)
      else none

def parseWord (s : List Char) : Option (List (Int × UnitKey)) := parseAll (s.length + 1) s

end Anything.UnitWord
