import Anything.Model.Display
import Anything.Model.Eval
/-!
# Model of unit display (`src/unit.rs`, `src/compound.rs`, `src/prefix.rs`) and of
the result printing loop of `src/bin/any.rs`
-/

namespace Anything.UnitDisplay
open Anything

/-- `impl Display for Prefix`, keyed by the constant's name. -/
def prefixSymbol : String → List Char
  | "YOTTA" => ['Y'] | "ZETTA" => ['Z'] | "EXA" => ['E'] | "PETA" => ['P'] | "TERA" => ['T']
  | "GIGA" => ['G'] | "MEGA" => ['M'] | "KILO" => ['k'] | "HECTO" => ['h'] | "DECA" => ['d', 'a']
  | "NONE" => [] | "DECI" => ['d'] | "CENTI" => ['c'] | "MILLI" => ['m'] | "MICRO" => ['μ']
  | "NANO" => ['n'] | "PICO" => ['p'] | "FEMTO" => ['f'] | "ATTO" => ['a'] | "ZEPTO" => ['z']
  | "YOCTO" => ['y'] | _ => ['?']

/-- `Prefix::find`: the greatest table entry not above `pow` (the lowest entry if
there is none) and the difference `entry - pow`. The table is sorted ascending. -/
def prefixFind (pow : Int) : String × Int :=
  let tbl := Generated.prefixConsts
  let le := tbl.filter (fun e => e.2 ≤ pow)
  match le.getLast?, tbl.head? with
  | some e, _ => (e.1, e.2 - pow)
  | none, some e => (e.1, e.2 - pow)
  | none, none => ("NONE", 0)

def superscript (d : Nat) : Char :=
  match d with
  | 0 => '⁰' | 1 => '¹' | 2 => '²' | 3 => '³' | 4 => '⁴' | 5 => '⁵' | 6 => '⁶' | 7 => '⁷' | 8 => '⁸'
  | _ => '⁹'

def suffix (u : UnitKey) (pluralize : Bool) : List Char :=
  match u with
  | .base .Second => ['s'] | .base .KiloGram => ['g'] | .base .Meter => ['m'] | .base .Ampere => ['A']
  | .base .Kelvin => ['K'] | .base .Mole => ['m', 'o', 'l'] | .base .Candela => ['c', 'd']
  | .base .Byte => ['B']
  | .derived id => match Units.find? id with
    | some d => if pluralize then d.plur else d.sing
    | none => []

def prefixBias : UnitKey → Int
  | .base .KiloGram => 3
  | _ => 0

/-- `impl Display for unit::Display`. `n` is `1` or `-1`. -/
def unit (u : UnitKey) (st : State) (pluralize : Bool) (n : Int) : List Char :=
  let (name, extra) := prefixFind (st.pfx + prefixBias u)
  let pre := if extra = 0 then prefixSymbol name
    else ['e'] ++ Display.intStr extra ++ prefixSymbol name
  let power : Nat := (st.power * n).toNat   -- `as u32`; non-negative by construction
  let sup := if power = 1 then []
    else if power < 10 then [superscript power]
    else (Display.natDigits power).map superscript
  pre ++ suffix u pluralize ++ sup

def joinDot : List (List Char) → List Char
  | [] => []
  | [x] => x
  | x :: xs => x ++ ['⋅'] ++ joinDot xs

/-- `impl Display for compound::Display`. -/
def compound (c : Compound) (pluralize : Bool) : List Char :=
  let pos := c.filter (fun e => e.2.power ≥ 0)
  let neg := c.filter (fun e => e.2.power < 0)
  let pl := if pos.length == 1 then pluralize else false
  let first := match pos with
    | [] => []
    | e :: rest => unit e.1 e.2 pl 1 :: rest.map (fun e => unit e.1 e.2 false 1)
  joinDot first ++ (if neg.isEmpty then [] else ['/'] ++ joinDot (neg.map (fun e => unit e.1 e.2 false (-1))))

end Anything.UnitDisplay

namespace Anything.Cli
open Anything

/-- One output item of the binary's result loop. -/
inductive Item
  | line (text : List Char)
  | diagnostic (k : ErrKind) (s e : Nat)
  | other (what : String)
  deriving Repr

/-- The `Ok(value)` arm of the loop in `main`. -/
def renderValue (exact : Bool) (v : Numeric) : List Char :=
  let num := if exact then
      (if v.value.den ≠ 1 then Display.intStr v.value.num ++ ['/'] ++ Display.natStr v.value.den
       else Display.intStr v.value.num)
    else Display.fmt { limit := 12, exponentLimit := 12, showContinuation := true } v.value
  num ++ (if Compound.hasNumerator v.unit then [' '] else [])
    ++ UnitDisplay.compound v.unit (v.value ≠ 1)

/-- The whole loop: one item per library result, in order; errors do not stop it. -/
def render (exact : Bool) (results : List (Except EvalErr Numeric)) : List Item :=
  results.map fun r => match r with
    | .ok v => .line (renderValue exact v)
    | .error (.err k s e) => .diagnostic k s e
    | .error (.panic w) => .other s!"panic {w}"
    | .error (.unsupported w) => .other s!"unsupported {w}"

end Anything.Cli
