/-!
# Model of the on-disk open / rebuild logic (`src/db.rs::open_inner`, `open_index`,
`src/config.rs`) as a state machine over the data directory (C15)

The directory state abstracts what the code can observe: whether `meta.json`
exists / parses / matches this version and the hash of the shipped data, and
whether the index directory exists, opens, and which documents are *committed*
in it. Each step is one externally visible effect; a run killed at crash point
`k` performs exactly the steps before that point.

Assumed (trusted base, validated by the correspondence): a tantivy commit is
atomic and uncommitted documents are invisible after a restart; `File::create`
truncates (an empty `meta.json` does not parse) and the JSON is written in a
second step.
-/

namespace Anything.Recovery

inductive MetaSt
  | absent
  | garbage
  | parsed (versionOk hashOk : Bool)
  deriving DecidableEq, Repr

def MetaSt.current : MetaSt := .parsed true true

inductive Content | empty | old | current
  deriving DecidableEq, Repr

inductive IndexSt
  | absent                -- no index directory
  | unopenable            -- directory exists, `Index::open_in_dir` fails
  | opens (c : Content)   -- opens; `c` is what is committed
  deriving DecidableEq, Repr

structure Dir where
  md : MetaSt
  index : IndexSt
  deriving DecidableEq, Repr

/-- Outcome of a run: the directory afterwards, and the answers if the run got as
far as answering (`some true` = the answers of the shipped data). -/
structure Outcome where
  dir : Dir
  answers : Option Bool
  deriving DecidableEq, Repr

/-- Crash points as numbered by the hooks in `src/db.rs` / `src/config.rs`. -/
abbrev Crash := Option Nat

def hit (cp : Crash) (k : Nat) : Bool := cp == some k

/-- `open_inner(false)` killed at `cp` (or run to completion for `none`). -/
def run (d : Dir) (cp : Crash) : Outcome :=
  let (vOk, hOk) := match d.md with
    | .parsed v h => (v, h)
    | _ => (false, false)
  let opensNow := match d.index with | .opens _ => true | _ => false
  -- open_index
  if vOk && opensNow then
    afterOpen d (!hOk) cp
  else
    -- invalidate the metadata, then destroy and recreate the index
    let metaExists := d.md != .absent
    let d1 : Dir := if metaExists then { d with md := .absent } else d
    if metaExists && hit cp 0 then ⟨d1, none⟩ else
    let dirExists := d1.index != .absent
    let d2 : Dir := if dirExists then { d1 with index := .absent } else d1
    if dirExists && hit cp 1 then ⟨d2, none⟩ else
    if hit cp 2 then ⟨d2, none⟩ else
    let d3 : Dir := { d2 with index := .unopenable }     -- create_dir_all
    if hit cp 3 then ⟨d3, none⟩ else
    let d4 : Dir := { d3 with index := .opens .empty }   -- Index::create_in_dir
    afterOpen d4 true cp
where
  /-- Everything after `open_index` returned. -/
  afterOpen (d : Dir) (rebuild : Bool) (cp : Crash) : Outcome :=
    if hit cp 4 then ⟨d, none⟩ else
    if !rebuild then
      ⟨d, some (d.index == .opens .current)⟩
    else
      if hit cp 6 then ⟨d, none⟩ else                               -- entering the rebuild block
      -- the metadata stops vouching for the index before it is rewritten in place
      let metaExists := d.md != .absent
      let d := if metaExists then { d with md := .absent } else d
      if metaExists && hit cp 5 then ⟨d, none⟩ else
      if hit cp 10 || hit cp 11 || hit cp 12 then ⟨d, none⟩ else   -- writer, delete_all, adds: uncommitted
      let d5 : Dir := { d with index := .opens .current }          -- commit
      if hit cp 13 || hit cp 14 || hit cp 15 then ⟨d5, none⟩ else
      let d6 : Dir := { d5 with md := .garbage }                 -- File::create truncates
      if hit cp 17 then ⟨d6, none⟩ else
      let d7 : Dir := { d6 with md := .current }                 -- JSON written
      if hit cp 16 then ⟨d7, none⟩ else
      ⟨d7, some true⟩

/-- A history of killed runs. -/
def runs (d : Dir) : List Crash → Dir
  | [] => d
  | cp :: rest => runs (run d cp).dir rest

/-- The invariant: if the metadata says "current" and the index opens, then the
committed index is the shipped data. -/
def invB (d : Dir) : Bool :=
  d.md != .current || (match d.index with
    | .opens c => c == .current
    | _ => true)

def Inv (d : Dir) : Prop := invB d = true

instance (d : Dir) : Decidable (Inv d) := by unfold Inv; exact inferInstance

/-- The prior states the property lists (by name, as used by the scenario runner). -/
def prior : String → Option Dir
  | "absent" => some ⟨.absent, .absent⟩
  | "complete" => some ⟨.current, .opens .current⟩
  | "other-version" => some ⟨.parsed false true, .opens .current⟩
  | "other-data" => some ⟨.parsed true false, .opens .old⟩
  | "meta-missing" => some ⟨.absent, .opens .current⟩
  | "meta-truncated" => some ⟨.garbage, .opens .current⟩
  | "meta-garbage" => some ⟨.garbage, .opens .current⟩
  | "index-missing" => some ⟨.current, .absent⟩
  | "index-damaged" => some ⟨.current, .unopenable⟩
  | "index-emptied" => some ⟨.current, .unopenable⟩
  | "stale-wrong-hash" => some ⟨.parsed true false, .opens .empty⟩
  | "stale-no-hash" => some ⟨.parsed true false, .opens .empty⟩
  | "stale-null-hash" => some ⟨.parsed true false, .opens .empty⟩
  | "olddocs-wrong-hash" => some ⟨.parsed true false, .opens .old⟩
  | "olddocs-other-version" => some ⟨.parsed false true, .opens .old⟩
  | "olddocs-no-hash" => some ⟨.parsed true false, .opens .old⟩
  | "foreign-other-version" => some ⟨.parsed false true, .opens .old⟩
  | "foreign-meta-missing" => some ⟨.absent, .opens .old⟩
  | "partial-meta-missing" => some ⟨.absent, .opens .old⟩
  | "partial-other-version" => some ⟨.parsed false true, .opens .old⟩
  | _ => none

/-- Damage done to the data directory between two starts (the states the property
lists): metadata removed, truncated / garbage, written by another version, written
for other data; index directory removed, or present but not openable. None of them
makes `meta.json` say "current". -/
inductive Damage
  | metaRemoved | metaGarbage | metaOtherVersion (hashOk : Bool) | metaOtherData
  | indexRemoved | indexUnopenable
  deriving DecidableEq, Repr

def damage (d : Dir) : Damage → Dir
  | .metaRemoved => { d with md := .absent }
  | .metaGarbage => { d with md := .garbage }
  | .metaOtherVersion h => { d with md := .parsed false h }
  | .metaOtherData => { d with md := .parsed true false }
  | .indexRemoved => { d with index := .absent }
  | .indexUnopenable => { d with index := .unopenable }

/-! ### Another build on the same data directory

A build of the SAME version that ships OTHER data (a development build, a packaged build with an
updated database) runs the same code with the roles of the two data sets exchanged: what is
"current" for it is "old" for the tool under test and the other way round. `flip` changes the
point of view; a run of the other build is `run` between two flips. The metadata flag `hashOk`
means "records MY data hash"; metadata recording neither hash looks foreign to both builds
(`theirs = false`), metadata recording the other build's hash is `parsed v false` for the tool
under test and current for the other build (`theirs = true`). -/

def flipContent : Content → Content
  | .current => .old
  | .old => .current
  | .empty => .empty

def flipIndex : IndexSt → IndexSt
  | .opens c => .opens (flipContent c)
  | i => i

/-- `theirs`: metadata that does not record my hash records the other build's. -/
def flipMeta (theirs : Bool) : MetaSt → MetaSt
  | .parsed v true => .parsed v false
  | .parsed v false => .parsed v theirs
  | m => m

def flip (theirs : Bool) (d : Dir) : Dir := ⟨flipMeta theirs d.md, flipIndex d.index⟩

/-- A start of the other build, killed at `cp` or complete, seen from the tool under test.
Metadata the other build leaves untouched keeps its meaning; metadata it writes records ITS
hash. -/
def runOther (theirs : Bool) (d : Dir) (cp : Crash) : Dir :=
  let d' := (run (flip theirs d) cp).dir
  let md := if d'.md == flipMeta theirs d.md then d.md else flipMeta true d'.md
  ⟨md, flipIndex d'.index⟩

/-- One event in the life of the data directory. -/
inductive Event
  | start (cp : Crash)       -- a start of the tool, killed at `cp` (or complete)
  | damaged (x : Damage)
  | memSession               -- `Db::in_memory()` with this data directory: `open_inner(true)`
  | foreign (theirs : Bool) (cp : Crash)   -- a start of ANOTHER build of the same version with other data
  deriving DecidableEq, Repr

/-- `open_inner(true)`: the index lives in RAM and neither `meta.json` nor the index directory
is read, removed, created or written; the session answers from the shipped data. -/
def runMem (d : Dir) : Outcome := ⟨d, some true⟩

def event (d : Dir) : Event → Dir
  | .start cp => (run d cp).dir
  | .damaged x => damage d x
  | .memSession => (runMem d).dir
  | .foreign t cp => runOther t d cp

def history (d : Dir) (es : List Event) : Dir := es.foldl event d

/-- The crash points the hooks define. -/
def crashPoints : List Nat := [0, 1, 2, 3, 4, 5, 6, 10, 11, 12, 13, 14, 15, 16, 17]

def MetaSt.show : MetaSt → String
  | .absent => "absent"
  | .garbage => "garbage"
  | .parsed true true => "current"
  | .parsed _ _ => "other"

end Anything.Recovery
