/-!
# num-rational 0.4.2 rounding algorithms, mirrored line for line

`BigInt` `/` and `%` truncate toward zero (`Int.tdiv`, `Int.tmod`); a `Ratio` is
always reduced with a positive denominator, like Lean's `Rat`.
-/

namespace Anything.RatNum

/-- `Ratio::trunc`. -/
def trunc (x : Rat) : Int := Int.tdiv x.num x.den

/-- `Ratio::floor`. -/
def floor (x : Rat) : Int :=
  if x < 0 then Int.tdiv (x.num - x.den + 1) x.den else Int.tdiv x.num x.den

/-- `Ratio::ceil`. -/
def ceil (x : Rat) : Int :=
  if x < 0 then Int.tdiv x.num x.den else Int.tdiv (x.num + x.den - 1) x.den

/-- `Ratio::round`: compares the unsigned fractional part `a/b` with one half
using integer arithmetic only. -/
def round (x : Rat) : Int :=
  let a : Nat := (Int.tmod x.num x.den).natAbs
  let b : Nat := x.den
  let halfOrLarger : Bool := if b % 2 = 0 then decide (a ≥ b / 2) else decide (a ≥ b / 2 + 1)
  if halfOrLarger then (if x ≥ 0 then trunc x + 1 else trunc x - 1) else trunc x

/-- `Ratio::<BigInt>::to_i32` (`ToPrimitive`): the truncated integer part, if it fits. -/
def toI32 (x : Rat) : Option Int :=
  let t := trunc x
  if t < -2147483648 || t > 2147483647 then none else some t

end Anything.RatNum
