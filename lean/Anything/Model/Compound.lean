import Anything.Model.AMap
import Anything.Generated.Tables
/-!
# Model of `src/powers.rs`, `src/unit.rs` (powers / conversion) and `src/compound.rs`

`i32` arithmetic is modelled with unbounded `Int`: on the input class the
properties quantify over no intermediate leaves the `i32` range (C11 states
the bound); overflow behaviour itself is not modelled.
-/

namespace Anything
open AMap

/-- `Ratio::pow(i32)`: negative exponents go through `recip`. (`recip` of zero
panics in num-rational; every base used here is a non-zero table constant or
ten — table fact `Props.C03.factors_ne_zero`.) -/
def ratZPow (x : Rat) (n : Int) : Rat :=
  if 0 ≤ n then x ^ n.toNat else (1 / x) ^ n.natAbs

def mkFrac (n d : Nat) : Rat := (n : Rat) / (d : Rat)
def mkFracI (n d : Int) : Rat := (n : Rat) / (d : Rat)

namespace Units

def find? (id : Nat) : Option UnitDef := Generated.units.find? (fun u => u.id == id)

/-- `Unit::conversion`. -/
def conversion : UnitKey → Conversion
  | .base _ => .none
  | .derived id => match find? id with
    | some d => d.conv
    | none => .none

end Units

abbrev Powers := AMap Int

namespace Powers

/-- `Powers::insert`: accumulate; an entry that reaches zero is removed and a
zero power is never inserted. -/
def insert (p : Powers) (u : UnitKey) (power : Int) : Powers :=
  match AMap.get? p u with
  | none => if power ≠ 0 then AMap.insert p u power else p
  | some old => if old + power = 0 then AMap.erase p u else AMap.insert p u (old + power)

end Powers

/-- `Unit::powers`: returns the updated powers and whether the unit is derived. -/
def UnitKey.powers (u : UnitKey) (p : Powers) (power : Int) : Powers × Bool :=
  match u with
  | .base _ => (Powers.insert p u power, false)
  | .derived id =>
    match Units.find? id with
    | some d => (d.dims.foldl (fun acc (b, c) => Powers.insert acc (.base b) (power * c)) p, true)
    | none => (p, true)

/-- Conversion error (`CompoundError`). -/
inductive CErr | conversion | zeroPower
  deriving DecidableEq, Repr

namespace Compound

def empty : Compound := []

/-- `Compound::update`. `Except.error expected` is `Err(state.prefix)`. -/
def update (c : Compound) (u : UnitKey) (power pfx : Int) : Except Int Compound :=
  match AMap.get? c u with
  | none => .ok (AMap.insert c u { power := power, pfx := pfx })
  | some st =>
    if st.pfx ≠ pfx then .error st.pfx
    else
      let np := st.power + power
      if np = 0 then .ok (AMap.erase c u) else .ok (AMap.insert c u { st with power := np })

/-- `Compound::update_power`. -/
def updatePower (c : Compound) (u : UnitKey) (power : Int) : Compound :=
  match AMap.get? c u with
  | none => c
  | some st => AMap.insert c u { st with power := power }

def hasNumerator (c : Compound) : Bool := c.any (fun e => e.2.power > 0)

/-- `base_units`: derived names with their powers, and the accumulated base powers. -/
def baseUnits (c : Compound) : List (UnitKey × Int) × Powers :=
  c.foldl (fun (acc : List (UnitKey × Int) × Powers) (e : UnitKey × State) =>
    let (p', isDer) := e.1.powers acc.2 e.2.power
    (if isDer then acc.1 ++ [(e.1, e.2.power)] else acc.1, p')) ([], [])

/-- `Compound::is_scale`. -/
def isScale (c : Compound) (st : State) : Bool := c.length == 1 && st.power == 1

/-- The compound `Compound::checked_pow` builds when no power overflows. -/
def checkedPow (c : Compound) (n : Int) : Compound :=
  (c.map (fun e => (e.1, { e.2 with power := e.2.power * n }))).filter (fun e => e.2.power ≠ 0)

/-- `state.power.checked_mul(n)` succeeds for every unit: all products fit an `i32`
(otherwise `checked_pow` is `None`). -/
def powFits (c : Compound) (n : Int) : Bool :=
  c.all (fun e => decide (-2147483648 ≤ e.2.power * n) && decide (e.2.power * n ≤ 2147483647))

/-- `apply_conversion`. -/
def applyConversion (pow : Int) (ratio : Rat) (scale : Bool) : Conversion → Except CErr Rat
  | .none => .ok ratio
  | .methods tmN tmD taN taD fmN fmD faN faD =>
    if !scale || pow.natAbs ≠ 1 then .error .conversion
    else if pow < 0 then .ok (mkFracI fmN fmD * ratio + mkFracI faN faD)
    else .ok (mkFracI tmN tmD * ratio + mkFracI taN taD)
  | .factor n d =>
    if pow ≠ 0 then .ok (ratio * ratZPow (mkFrac n d) pow) else .ok ratio
  | .offset n d =>
    if !scale || pow.natAbs ≠ 1 then .error .conversion
    else .ok (ratio + mkFrac n d * (pow : Rat))

def tenPow (e : Int) : Rat := ratZPow 10 e

/-- The `for (name, state) in &other.names` loop of `factor` / `mul`. -/
def scaleIn (affine : Bool) (names : Compound) (value : Rat) : Except CErr Rat :=
  names.foldlM (fun v (e : UnitKey × State) =>
    applyConversion e.2.power (v * tenPow (e.2.pfx * e.2.power)) (affine && isScale names e.2)
      (Units.conversion e.1)) value

/-- The `for (name, state) in &self.names` loop of `factor`. -/
def scaleOut (names : Compound) (value : Rat) : Except CErr Rat :=
  names.foldlM (fun v (e : UnitKey × State) => do
    let v' ← applyConversion (-e.2.power) v (isScale names e.2) (Units.conversion e.1)
    pure (v' / tenPow (e.2.pfx * e.2.power))) value

/-- The dimension comparison of `factor`. -/
def sameBases (l r : Powers) : Bool :=
  l.length == r.length && r.all (fun (e : UnitKey × Int) => AMap.get? l e.1 == some e.2)

/-- `Compound::factor`: `.ok (some v)` = `Ok(true)` with the converted value,
`.ok none` = `Ok(false)`. -/
def factor (self other : Compound) (value : Rat) : Except CErr (Option Rat) :=
  if self.isEmpty || other.isEmpty then .ok (some value)
  else
    let lhs := (baseUnits self).2
    let rhs := (baseUnits other).2
    if !sameBases lhs rhs then .ok none
    else do
      let v ← scaleIn true other value
      let v ← scaleOut self v
      pure (some v)

/-- `inner_match`; `fuel` bounds the `while *cur != 0` loop (`|cur|` suffices). -/
def innerMatch (s base dec : Int) : Nat → Int → Option Int
  | 0, _ => none
  | fuel + 1, cur =>
    if cur = 0 then none
    else
      let p := base * cur
      if p.sign = s.sign && p * p.sign ≤ s * s.sign then some cur
      else innerMatch s base dec fuel (cur - dec)

/-- `bases_match`. -/
def basesMatch (power : Int) (powers : Powers) (names : Compound) : Option Int :=
  let dec := power.sign
  powers.foldlM (fun cur (e : UnitKey × Int) =>
    match AMap.get? names e.1 with
    | none => none
    | some st => innerMatch st.power e.2 dec (cur.natAbs + 1) cur) power

/-- One iteration of `reconstruct`. -/
def reconstructStep (acc : Rat × Compound) (d : UnitKey × Int × Int) : Except CErr (Rat × Compound) :=
  let (out, names) := acc
  let (unit, power, n) := d
  let (powers, isDer) := unit.powers [] 1
  if !isDer then .ok acc
  else match basesMatch (power * n) powers names with
    | none => .ok acc
    | some modPower =>
      let names := powers.foldl (fun (nm : Compound) (e : UnitKey × Int) =>
        match AMap.get? nm e.1 with
        | none => nm
        | some st =>
          let np := st.power - e.2 * modPower
          if np = 0 then AMap.erase nm e.1 else AMap.insert nm e.1 { st with power := np }) names
      let names := match AMap.get? names unit with
        | none => AMap.insert names unit { power := modPower, pfx := 0 }
        | some st => AMap.insert names unit { st with power := st.power + modPower }
      match applyConversion (-modPower) out false (Units.conversion unit) with
      | .error e => .error e
      | .ok out' => .ok (out', names)

def reconstruct (der : List (UnitKey × Int × Int)) (out : Rat) (names : Compound) :
    Except CErr (Rat × Compound) :=
  der.foldlM reconstructStep (out, names)

/-- `Compound::mul`. Returns the unit and the rescaled `lhs`, `rhs`.
`debug` selects the debug-assertion build (`Compound::new` asserts no zero power). -/
def mul (debug : Bool) (self other : Compound) (n : Int) (lhs rhs : Rat) :
    Except CErr (Compound × Rat × Rat) :=
  if self.isEmpty || other.isEmpty then
    if self.isEmpty then
      -- `.collect()` through `FromIterator`, which drops zero powers
      .ok ((other.map (fun e => (e.1, { e.2 with power := e.2.power * n }))).filter (fun e => e.2.power ≠ 0),
           lhs, rhs)
    else .ok (self, lhs, rhs)
  else
    let (lhsDer, lhsBases) := baseUnits self
    let (rhsDer, rhsBases) := baseUnits other
    let names : Compound := lhsBases.foldl (fun nm (e : UnitKey × Int) =>
      AMap.insert nm e.1 { power := e.2, pfx := 0 }) []
    let names : Compound := rhsBases.foldl (fun nm (e : UnitKey × Int) =>
      match AMap.get? nm e.1 with
      | none => AMap.insert nm e.1 { power := e.2 * n, pfx := 0 }
      | some st =>
        let np := st.power + e.2 * n
        if np = 0 then AMap.erase nm e.1 else AMap.insert nm e.1 { st with power := np }) names
    match scaleIn false self lhs with
    | .error e => .error e
    | .ok lhs' =>
      match scaleIn false other rhs with
      | .error e => .error e
      | .ok rhs' =>
        let der := lhsDer.map (fun e => (e.1, e.2, (1 : Int))) ++ rhsDer.map (fun e => (e.1, e.2, n))
        match reconstruct der lhs' names with
        | .error e => .error e
        | .ok (lhs'', names') =>
          if debug && names'.any (fun e => e.2.power = 0) then .error .zeroPower
          else .ok (names', lhs'', rhs')

end Compound
end Anything
