/-!
# Model of `src/rational/display.rs` (decimal printing with digit budgets)

Branch for branch. Text is a `List Char`.
-/

namespace Anything.Display

structure Spec where
  limit : Nat := 6
  exponentLimit : Nat := 8
  showContinuation : Bool := true
  deriving Repr

def digitChar (d : Nat) : Char := Char.ofNat ('0'.toNat + d)

/-- Decimal digits of a natural number, most significant first (`to_string`). -/
def natDigits (n : Nat) : List Nat :=
  (Nat.toDigits 10 n).map (fun c => c.toNat - '0'.toNat)

def natStr (n : Nat) : List Char := Nat.toDigits 10 n

/-- `digits`: number of decimal digits minus one. -/
def digitsLoop : Nat → Nat → Nat → Nat
  | 0, _, count => count
  | fuel + 1, rem, count => if rem = 0 then count else digitsLoop fuel (rem / 10) (count + 1)

def digits (x : Nat) : Nat := digitsLoop x (x / 10) 0

/-- One step of `emit`: `none` when the remainder is exhausted. -/
def emitStep (rem den : Nat) : Option (Nat × Nat) :=
  if rem = 0 then none
  else
    let r := rem * 10
    let d := r / den
    some (d, r - den * d)

/-- `emit(..).take(n)`: the digits produced and the remainder afterwards. -/
def emitTake (den : Nat) : Nat → Nat → List Nat × Nat
  | 0, rem => ([], rem)
  | n + 1, rem =>
    match emitStep rem den with
    | none => ([], rem)
    | some (d, rem') =>
      let (ds, r) := emitTake den n rem'
      (d :: ds, r)

def cont (spec : Spec) (b : Bool) : List Char := if b && spec.showContinuation then ['…'] else []

/-- `format_whole`. -/
def formatWhole (spec : Spec) (neg : Bool) (rem div den : Nat) : List Char :=
  let sign := if neg then ['-'] else []
  if rem = 0 then sign ++ natStr div
  else
    let (ds, rem') := if spec.limit > 0 then emitTake den spec.limit rem else ([], rem)
    sign ++ natStr div ++ (if spec.limit > 0 then ['.'] ++ ds.map digitChar else [])
      ++ cont spec (rem' ≠ 0)

/-- `format_big`. -/
def formatBig (spec : Spec) (neg : Bool) (rem div den : Nat) : List Char :=
  let sign := if neg then ['-'] else []
  let s := natDigits div
  match s with
  | [] => sign
  | first :: rest =>
    let printed := rest.take spec.limit
    let used := printed.length
    let cut := rest.drop spec.limit
    let head := sign ++ [digitChar first] ++ (if rest.isEmpty then [] else ['.']) ++ printed.map digitChar
    if !cut.isEmpty then
      head ++ cont spec (cut.any (· ≠ 0) || rem ≠ 0)
        ++ (if cut.length + used > 0 then ['e'] ++ natStr (cut.length + used) else [])
    else
      let remaining := spec.limit - used
      let (ds, rem') := if remaining > 0 then emitTake den remaining rem else ([], rem)
      head ++ ds.map digitChar ++ cont spec (rem' ≠ 0)
        ++ (if used > 0 then ['e'] ++ natStr used else [])

/-- State of the small-number loop. -/
structure Small where
  out : List Char := []
  exp : Int := -1
  init : Bool := true
  dot : Bool := true
  takesExp : Bool := true

/-- The `while n > 0` loop of the small path; `fuel` bounds the leading zeros. -/
def smallLoop (spec : Spec) (neg : Bool) (den : Nat) : Nat → Nat → Nat → Small → Small × Nat
  | 0, _, rem, st => (st, rem)
  | _ + 1, 0, rem, st => (st, rem)
  | fuel + 1, n + 1, rem, st =>
    match emitStep rem den with
    | none => (st, rem)
    | some (d, rem') =>
      if d = 0 && st.takesExp then smallLoop spec neg den fuel (n + 1) rem' { st with exp := st.exp - 1 }
      else
        let st := { st with takesExp := false }
        if st.init then
          let sign := if neg then ['-'] else []
          if st.exp.natAbs ≥ spec.exponentLimit then
            smallLoop spec neg den fuel n rem' { st with init := false, out := st.out ++ sign ++ [digitChar d] }
          else
            let zeros := List.replicate (st.exp.natAbs - 1) '0'
            smallLoop spec neg den fuel n rem'
              { st with init := false, out := st.out ++ sign ++ ['0', '.'] ++ zeros ++ [digitChar d],
                        exp := 0, dot := false }
        else
          let pre := if st.dot then ['.'] else []
          smallLoop spec neg den fuel n rem' { st with dot := false, out := st.out ++ pre ++ [digitChar d] }

def intStr (i : Int) : List Char := if i < 0 then '-' :: natStr i.natAbs else natStr i.natAbs

/-- `impl fmt::Display for Display`. -/
def fmt (spec : Spec) (r : Rat) : List Char :=
  let neg := r < 0
  let num := r.num.natAbs
  let den := r.den
  let div := num / den
  let rem := num - den * div
  if digits div ≥ spec.exponentLimit then formatBig spec neg rem div den
  else if div ≠ 0 || rem = 0 then formatWhole spec neg rem div den
  else
    let (st, rem') := smallLoop spec neg den (den + spec.limit + 1) spec.limit rem {}
    st.out ++ cont spec (rem' ≠ 0) ++ (if st.exp ≠ 0 then ['e'] ++ intStr st.exp else [])

end Anything.Display
