/-!
# Basic datatypes of the model (import-free)

Names follow DESIGN.md Appendix C. Everything here is executable and free of
Mathlib so that the driver links as a native executable.
-/

namespace Anything

/-- `Syntax` of `src/syntax/parser.rs`, same variant order. -/
inductive Syntax
  | WHITESPACE | STAR | STARSTAR | SLASH | PLUS | DASH | CARET | COMMA
  | OPEN_PAREN | CLOSE_PAREN | OPEN_BRACE | CLOSE_BRACE | TO | WORD | SENTENCE | NUMBER
  | WITH_UNIT | UNIT | FN_NAME | FN_ARGUMENTS | FN_CALL | PERCENTAGE | OP_CAST | OP_ADD
  | OP_SUB | OP_IMPLICIT_MUL | OP_MUL | OP_DIV | OP_POWER | OPERATOR | OPERATION | ERROR | EOF
  deriving DecidableEq, Repr, Inhabited

def Syntax.name : Syntax → String
  | .WHITESPACE => "WHITESPACE" | .STAR => "STAR" | .STARSTAR => "STARSTAR" | .SLASH => "SLASH"
  | .PLUS => "PLUS" | .DASH => "DASH" | .CARET => "CARET" | .COMMA => "COMMA"
  | .OPEN_PAREN => "OPEN_PAREN" | .CLOSE_PAREN => "CLOSE_PAREN" | .OPEN_BRACE => "OPEN_BRACE"
  | .CLOSE_BRACE => "CLOSE_BRACE" | .TO => "TO" | .WORD => "WORD" | .SENTENCE => "SENTENCE"
  | .NUMBER => "NUMBER" | .WITH_UNIT => "WITH_UNIT" | .UNIT => "UNIT" | .FN_NAME => "FN_NAME"
  | .FN_ARGUMENTS => "FN_ARGUMENTS" | .FN_CALL => "FN_CALL" | .PERCENTAGE => "PERCENTAGE"
  | .OP_CAST => "OP_CAST" | .OP_ADD => "OP_ADD" | .OP_SUB => "OP_SUB"
  | .OP_IMPLICIT_MUL => "OP_IMPLICIT_MUL" | .OP_MUL => "OP_MUL" | .OP_DIV => "OP_DIV"
  | .OP_POWER => "OP_POWER" | .OPERATOR => "OPERATOR" | .OPERATION => "OPERATION"
  | .ERROR => "ERROR" | .EOF => "EOF"

/-- A lexed token: its kind and the characters it covers. The Rust token stores
the byte length, which is `utf8Len text`. -/
structure Token where
  kind : Syntax
  text : List Char
  deriving DecidableEq, Repr, Inhabited

/-- UTF-8 length in bytes of a character list (what Rust's `len_utf8` sums to). -/
def utf8Len : List Char → Nat
  | [] => 0
  | c :: cs => c.utf8Size + utf8Len cs

theorem utf8Len_append (a b : List Char) : utf8Len (a ++ b) = utf8Len a + utf8Len b := by
  induction a with
  | nil => simp [utf8Len]
  | cons c cs ih => simp [utf8Len, ih, Nat.add_assoc]

def Token.len (t : Token) : Nat := utf8Len t.text

end Anything
