import Anything.Model.Lexer
/-!
# Model of `syntree::Builder` (as used here) and `src/syntax/parser.rs`

The builder keeps the top-level forest as a list of trees; every tree element
carries the arena index syntree would give it, because `close_at` finds its
target by that index. `open`/`close` are only ever used back to back
(`bump_node`, `bump_empty_node`), so the builder's current parent is the root
whenever a checkpoint is taken or closed.

A checkpoint is a shared mutable cell (`Rc<Cell<_>>`): `cells[i]` is the node a
cell currently points at; `checkpoint()` hands out the *same* cell again while
no node has been inserted since, and `close_at` re-targets the cell to the
wrapper it creates. The grammar relies on this aliasing.

`close_at` on a target that is not a top-level tree (it was swallowed by an
earlier `close_at`) would corrupt syntree's sibling links; the model reports it
as `BErr.nested` — `Props/C12` shows the lossless-leaves invariant for every
successful parse and the correspondence checks that the implementation never
gets there.
-/

namespace Anything

inductive Tree
  | tok (id : Nat) (kind : Syntax) (text : List Char)
  | node (id : Nat) (kind : Syntax) (kids : List Tree)
  deriving Repr, Inhabited

namespace Tree

def id : Tree → Nat
  | .tok i _ _ => i
  | .node i _ _ => i

def kind : Tree → Syntax
  | .tok _ k _ => k
  | .node _ k _ => k

def kids : Tree → List Tree
  | .tok _ _ _ => []
  | .node _ _ ks => ks

/-- syntree `has_children`. -/
def hasChildren : Tree → Bool
  | .tok _ _ _ => false
  | .node _ _ ks => !ks.isEmpty

mutual
/-- The leaves (tokens) in document order. -/
def leaves : Tree → List Token
  | .tok _ k t => [{ kind := k, text := t }]
  | .node _ _ ks => leavesList ks
def leavesList : List Tree → List Token
  | [] => []
  | t :: ts => leaves t ++ leavesList ts
end

mutual
/-- Source text covered by a tree (`&source[node.span()]`). -/
def text : Tree → List Char
  | .tok _ _ t => t
  | .node _ _ ks => textList ks
def textList : List Tree → List Char
  | [] => []
  | t :: ts => text t ++ textList ts
end

def len (t : Tree) : Nat := utf8Len t.text

end Tree

inductive BErr | nested | missingNode | fuel
  deriving DecidableEq, Repr

structure Builder where
  forest : List Tree := []
  nextId : Nat := 0
  cells : List Nat := []       -- cell index ↦ node index it points at
  last : Option Nat := none    -- the builder's own copy of the latest checkpoint
  deriving Repr, Inhabited

structure PState where
  toks : List Token
  b : Builder := {}
  deriving Repr, Inhabited

/-- State-and-error monad of the parser. -/
abbrev PM (α : Type) := PState → Except BErr (α × PState)

instance : Monad PM where
  pure a := fun s => .ok (a, s)
  bind m f := fun s => match m s with
    | .ok (a, s') => f a s'
    | .error e => .error e

def PM.fail {α} (e : BErr) : PM α := fun _ => .error e

namespace Parser

def get : PM PState := fun s => .ok (s, s)
def set (s : PState) : PM Unit := fun _ => .ok ((), s)

/-- `Parser::nth`. -/
def nth (skip n : Nat) : PM Syntax := fun s =>
  .ok ((match s.toks[skip + n]? with | some t => t.kind | none => .EOF), s)

/-- `Parser::count_skip`. -/
def countSkip : PM Nat := fun s =>
  .ok (Lexer.countWhile' (fun t : Token => t.kind == .WHITESPACE) s.toks, s)

/-- `Builder::token` through `Parser::bump`. -/
def bump : PM Unit := fun s =>
  match s.toks with
  | [] => .ok ((), s)
  | t :: rest =>
    .ok ((), { toks := rest,
               b := { s.b with forest := s.b.forest ++ [.tok s.b.nextId t.kind t.text],
                               nextId := s.b.nextId + 1 } })

/-- `Parser::skip` / the bump loops of `eat`. -/
def bumpN : Nat → PM Unit
  | 0 => pure ()
  | n + 1 => do bump; bumpN n

/-- `Parser::eat`. -/
def eat (skip : Nat) (expected : List Syntax) : PM Bool := fun s =>
  let ok := (List.range expected.length).all (fun n =>
    match s.toks[skip + n]?, expected[n]? with
    | some t, some k => t.kind == k
    | _, _ => false)
  if ok then (do bumpN skip; bumpN expected.length; pure true : PM Bool) s
  else .ok (false, s)

/-- `Parser::bump_until`. -/
def bumpUntil (kind : Syntax) : Nat → PM Unit
  | 0 => pure ()
  | fuel + 1 => fun s =>
    match s.toks with
    | [] => .ok ((), s)
    | t :: _ => (do bump; if t.kind == kind then pure () else bumpUntil kind fuel : PM Unit) s

/-- `Builder::checkpoint`. -/
def checkpoint : PM Nat := fun s =>
  let b := s.b
  match b.last with
  | some c =>
    if b.cells[c]? == some b.nextId then .ok (c, s)
    else
      let c' := b.cells.length
      .ok (c', { s with b := { b with cells := b.cells ++ [b.nextId], last := some c' } })
  | none =>
    let c' := b.cells.length
    .ok (c', { s with b := { b with cells := b.cells ++ [b.nextId], last := some c' } })

/-- Position of the top-level tree with the given arena index. -/
def findTop (forest : List Tree) (id : Nat) : Option Nat :=
  forest.findIdx? (fun t => t.id == id)

/-- `Builder::close_at`. -/
def closeAt (cell : Nat) (kind : Syntax) : PM Unit := fun s =>
  let b := s.b
  match b.cells[cell]? with
  | none => .error .missingNode
  | some id =>
    if id ≥ b.nextId then
      -- target does not exist yet: insert an empty node (the cell is not re-targeted)
      if id ≠ b.nextId then .error .missingNode
      else .ok ((), { s with b := { b with forest := b.forest ++ [.node b.nextId kind []],
                                           nextId := b.nextId + 1 } })
    else
      match findTop b.forest id with
      | none => .error .nested
      | some i =>
        .ok ((), { s with b := { b with
          forest := b.forest.take i ++ [.node b.nextId kind (b.forest.drop i)],
          nextId := b.nextId + 1,
          cells := b.cells.set cell b.nextId } })

/-- `Parser::bump_node`: `open(kind); bump(); close()`. -/
def bumpNode (kind : Syntax) : PM Unit := fun s =>
  let b := s.b
  match s.toks with
  | [] => .ok ((), { s with b := { b with forest := b.forest ++ [.node b.nextId kind []],
                                          nextId := b.nextId + 1 } })
  | t :: rest =>
    .ok ((), { toks := rest,
               b := { b with forest := b.forest ++ [.node b.nextId kind [.tok (b.nextId + 1) t.kind t.text]],
                             nextId := b.nextId + 2 } })

/-- `Parser::bump_empty_node`. -/
def bumpEmptyNode (kind : Syntax) : PM Unit := fun s =>
  let b := s.b
  .ok ((), { s with b := { b with forest := b.forest ++ [.node b.nextId kind []],
                                  nextId := b.nextId + 1 } })

end Parser
end Anything
