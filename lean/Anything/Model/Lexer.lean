import Anything.Model.Basic
/-!
# Model of `src/syntax/lexer.rs`

The Rust lexer advances a byte position character by character. The model
computes, for the remaining input, the kind of the next token and the number of
characters it covers; the token text is `take n`, the rest `drop n`. The
coverage part of C12 is then true by construction and the interesting
obligations are `n ≥ 1` (progress) and faithfulness (correspondence).
-/

namespace Anything.Lexer
open Anything

/-- Rust `char::is_whitespace` (Unicode `White_Space`). -/
def isWhitespace (c : Char) : Bool :=
  let n := c.toNat
  (0x09 ≤ n && n ≤ 0x0D) || n == 0x20 || n == 0x85 || n == 0xA0 || n == 0x1680
    || (0x2000 ≤ n && n ≤ 0x200A) || n == 0x2028 || n == 0x2029 || n == 0x202F
    || n == 0x205F || n == 0x3000

def isDigit (c : Char) : Bool := '0'.toNat ≤ c.toNat && c.toNat ≤ '9'.toNat

def isSign (c : Char) : Bool := c == '-' || c == '+'

/-- `'a'..='z' | 'A'..='Z' | '0'..='9' | '°' | '\''` -/
def isWordChar (c : Char) : Bool :=
  let n := c.toNat
  ('a'.toNat ≤ n && n ≤ 'z'.toNat) || ('A'.toNat ≤ n && n ≤ 'Z'.toNat) || isDigit c
    || c == '°' || c == '\''

/-- Number of leading characters satisfying `p`. -/
def countWhile (p : Char → Bool) : List Char → Nat
  | [] => 0
  | c :: cs => if p c then 1 + countWhile p cs else 0

/-- `countWhile` for any element type (used for token lists). -/
def countWhile' {α} (p : α → Bool) : List α → Nat
  | [] => 0
  | c :: cs => if p c then 1 + countWhile' p cs else 0

theorem countWhile_le (p : Char → Bool) (s : List Char) : countWhile p s ≤ s.length := by
  induction s with
  | nil => simp [countWhile]
  | cons c cs ih => simp only [countWhile]; split <;> simp <;> omega

/-- `consume_number`: the number of characters consumed from `s`. -/
def countNumber (dot : Bool) (s : List Char) : Nat :=
  match s with
  | [] => 0
  | a :: rest =>
    if isDigit a then 1 + countNumber dot rest
    else if a == '.' && !dot then 1 + countNumber true rest
    else if a == 'e' || a == 'E' then
      match rest with
      | [] => 0
      | b :: rest' =>
        if isSign b then
          let d := countWhile isDigit rest'
          2 + d + countNumber dot (rest'.drop d)
        else if isDigit b then
          let d := countWhile isDigit rest'
          2 + d + countNumber dot (rest'.drop d)
        else 0
    else 0
termination_by s.length
decreasing_by
  all_goals simp_wf
  all_goals (try simp only [List.length_drop]) <;> omega

theorem countNumber_le (dot : Bool) (s : List Char) : countNumber dot s ≤ s.length := by
  fun_induction countNumber dot s <;> simp only [List.length_cons, List.length_nil] <;> try omega
  all_goals
    rename_i d ih
    have := countWhile_le isDigit ‹List Char›
    simp only [List.length_drop] at ih
    omega

/-- `consume_escaped_word`: leading characters that are white space or `}`. -/
def countEscapedWord (s : List Char) : Nat :=
  countWhile (fun c => isWhitespace c || c == '}') s

/-- The next token in normal mode: kind, number of characters, new `escape` flag.
`s` is non-empty (`c` is its head). -/
def nextNormal (c : Char) (rest : List Char) : Syntax × Nat × Bool :=
  if isWhitespace c then (.WHITESPACE, 1 + countWhile isWhitespace rest, false)
  else if c == '{' then (.OPEN_BRACE, 1, true)
  else if c == '.' then
    let n := countNumber true rest
    if n == 0 then (.ERROR, 1, false) else (.NUMBER, 1 + n, false)
  else if c == ',' then (.COMMA, 1, false)
  else if isDigit c then (.NUMBER, countNumber false (c :: rest), false)
  else if c == '*' then
    match rest with
    | '*' :: _ => (.STARSTAR, 2, false)
    | _ => (.STAR, 1, false)
  else if c == '/' then (.SLASH, 1, false)
  else if c == '+' then
    let n := countNumber false rest
    if n > 0 then (.NUMBER, 1 + n, false) else (.PLUS, 1, false)
  else if c == '-' then
    let n := countNumber false rest
    if n > 0 then (.NUMBER, 1 + n, false) else (.DASH, 1, false)
  else if c == '^' then (.CARET, 1, false)
  else if c == '%' then (.PERCENTAGE, 1, false)
  else if c == '(' then (.OPEN_PAREN, 1, false)
  else if c == ')' then (.CLOSE_PAREN, 1, false)
  else
    let n := countWhile isWordChar (c :: rest)
    if n > 0 then
      if (c :: rest).take n == ['t', 'o'] then (.TO, n, false) else (.WORD, n, false)
    else (.ERROR, 1, false)

/-- `next_escape`. -/
def nextEscape (c : Char) (rest : List Char) : Syntax × Nat × Bool :=
  if isWhitespace c then (.WHITESPACE, 1 + countWhile isWhitespace rest, true)
  else if c == '}' then (.CLOSE_BRACE, 1, false)
  else
    let n := countEscapedWord (c :: rest)
    if n > 0 then (.WORD, n, true) else (.ERROR, 1, true)

def nextTok (escape : Bool) (c : Char) (rest : List Char) : Syntax × Nat × Bool :=
  if escape then nextEscape c rest else nextNormal c rest

/-- One lexer step: the token and the remaining input with the new mode. -/
def step (escape : Bool) (s : List Char) : Option (Token × List Char × Bool) :=
  match s with
  | [] => none
  | c :: rest =>
    let (k, n, e) := nextTok escape c rest
    some ({ kind := k, text := (c :: rest).take n }, (c :: rest).drop n, e)

/-- The whole token stream. `fuel` bounds the number of tokens; `lex` supplies
`s.length`, which `Props/C12` proves sufficient. -/
def lexFuel : Nat → Bool → List Char → List Token
  | 0, _, _ => []
  | fuel + 1, escape, s =>
    match step escape s with
    | none => []
    | some (t, rest, e) => t :: lexFuel fuel e rest

def lex (s : List Char) : List Token := lexFuel s.length false s

end Anything.Lexer
