import Anything.Model.Eval
/-!
# Model of the serialisation formats (C17)

* `CVal`: the RFC 8949 subset that `serde_cbor` emits for these types (unsigned,
  negative, text, byte string, array, map, null; definite lengths, shortest heads).
* value codecs: `BigInt` as `(sign, base-2^32 limbs little-endian)`, `Ratio` as a
  pair, `Unit` as a text or `{ "Derived": id }`, `State`, `Compound`, `Constant`.
* JSON form of a rational: nested arrays of integers.
-/

namespace Anything.Cbor
open Anything

inductive CVal
  | uint (n : Nat)
  | nint (n : Nat)            -- the value `-1 - n`
  | bytes (b : List Nat)
  | text (s : List Char)
  | array (xs : List CVal)
  | map (kvs : List (CVal × CVal))
  | null
  deriving Repr, Inhabited

/-- Big-endian bytes of `n` in exactly `k` bytes. -/
def beBytes : Nat → Nat → List Nat
  | 0, _ => []
  | k + 1, n => (n / 256 ^ k) % 256 :: beBytes k n

/-- Shortest-form head for major type `m` with argument `n` (`n < 2^64`). -/
def head (m n : Nat) : List Nat :=
  if n < 24 then [m * 32 + n]
  else if n < 256 then [m * 32 + 24, n]
  else if n < 65536 then (m * 32 + 25) :: beBytes 2 n
  else if n < 4294967296 then (m * 32 + 26) :: beBytes 4 n
  else (m * 32 + 27) :: beBytes 8 n

def utf8 (s : List Char) : List Nat := (String.ofList s).toUTF8.toList.map (·.toNat)

mutual
def encode : CVal → List Nat
  | .uint n => head 0 n
  | .nint n => head 1 n
  | .bytes b => head 2 b.length ++ b
  | .text s => let u := utf8 s; head 3 u.length ++ u
  | .array xs => head 4 xs.length ++ encodeList xs
  | .map kvs => head 5 kvs.length ++ encodePairs kvs
  | .null => [0xf6]
def encodeList : List CVal → List Nat
  | [] => []
  | x :: xs => encode x ++ encodeList xs
def encodePairs : List (CVal × CVal) → List Nat
  | [] => []
  | (k, v) :: rest => encode k ++ encode v ++ encodePairs rest
end

/-! ## Byte decoder (definite lengths only, as emitted) -/

def ofBe : List Nat → Nat
  | [] => 0
  | b :: bs => b * 256 ^ bs.length + ofBe bs

/-- Read a head: `(major, argument, rest)`. -/
def readHead : List Nat → Option (Nat × Nat × List Nat)
  | [] => none
  | b :: rest =>
    let m := b / 32
    let a := b % 32
    if a < 24 then some (m, a, rest)
    else
      let k := if a = 24 then 1 else if a = 25 then 2 else if a = 26 then 4 else if a = 27 then 8 else 0
      if k = 0 || rest.length < k then none
      else some (m, ofBe (rest.take k), rest.drop k)

def fromUtf8 (b : List Nat) : Option (List Char) :=
  (String.fromUTF8? (ByteArray.mk (b.map UInt8.ofNat).toArray)).map String.toList

mutual
def decode : Nat → List Nat → Option (CVal × List Nat)
  | 0, _ => none
  | fuel + 1, bs =>
    match bs with
    | 0xf6 :: rest => some (.null, rest)
    | _ =>
      match readHead bs with
      | none => none
      | some (m, n, rest) =>
        if m = 0 then some (.uint n, rest)
        else if m = 1 then some (.nint n, rest)
        else if m = 2 then (if rest.length < n then none else some (.bytes (rest.take n), rest.drop n))
        else if m = 3 then
          (if rest.length < n then none else (fromUtf8 (rest.take n)).map (fun s => (.text s, rest.drop n)))
        else if m = 4 then (decodeN fuel n rest).map (fun (xs, r) => (.array xs, r))
        else if m = 5 then (decodePairsN fuel n rest).map (fun (xs, r) => (.map xs, r))
        else none
def decodeN : Nat → Nat → List Nat → Option (List CVal × List Nat)
  | 0, _, _ => none
  | _ + 1, 0, bs => some ([], bs)
  | fuel + 1, n + 1, bs =>
    match decode fuel bs with
    | none => none
    | some (x, rest) => (decodeN fuel n rest).map (fun (xs, r) => (x :: xs, r))
def decodePairsN : Nat → Nat → List Nat → Option (List (CVal × CVal) × List Nat)
  | 0, _, _ => none
  | _ + 1, 0, bs => some ([], bs)
  | fuel + 1, n + 1, bs =>
    match decode fuel bs with
    | none => none
    | some (k, rest) =>
      match decode fuel rest with
      | none => none
      | some (v, rest) => (decodePairsN fuel n rest).map (fun (xs, r) => ((k, v) :: xs, r))
end

/-- Decode a complete item. -/
def decodeAll (bs : List Nat) : Option CVal :=
  match decode (2 * bs.length + 2) bs with
  | some (v, []) => some v
  | _ => none

/-! ## Value codecs -/

/-- Little-endian base-2^32 limbs of a natural number (`BigUint` data; zero is empty). -/
def limbs : Nat → Nat → List Nat
  | 0, _ => []
  | fuel + 1, n => if n = 0 then [] else (n % 4294967296) :: limbs fuel (n / 4294967296)

def toLimbs (n : Nat) : List Nat := limbs (n + 1) n

def ofLimbs : List Nat → Nat
  | [] => 0
  | l :: ls => l + 4294967296 * ofLimbs ls

/-- `i8` as CBOR. -/
def cInt (i : Int) : CVal := if i ≥ 0 then .uint i.toNat else .nint (-i - 1).toNat

def unCInt : CVal → Option Int
  | .uint n => some n
  | .nint n => some (-1 - (n : Int))
  | _ => none

/-- `BigInt`: `(sign, limbs)` with sign `-1`, `0`, `1`. -/
def encBigInt (i : Int) : CVal :=
  .array [cInt (if i < 0 then -1 else if i = 0 then 0 else 1), .array ((toLimbs i.natAbs).map .uint)]

def unUints : List CVal → Option (List Nat)
  | [] => some []
  | .uint n :: rest => (unUints rest).map (n :: ·)
  | _ => none

def decBigInt : CVal → Option Int
  | .array [s, .array ls] =>
    match unCInt s, unUints ls with
    | some sg, some l =>
      if l.all (· < 4294967296) then
        let m : Int := ofLimbs l
        if sg = -1 then some (-m) else if sg = 0 then (if m = 0 then some 0 else none) else if sg = 1 then some m else none
      else none
    | _, _ => none
  | _ => none

/-- `Ratio<BigInt>`: `(numer, denom)`. -/
def encRat (r : Rat) : CVal := .array [encBigInt r.num, encBigInt r.den]

def decRat : CVal → Option Rat
  | .array [n, d] =>
    match decBigInt n, decBigInt d with
    | some a, some b => if b = 0 then none else some ((a : Rat) / (b : Rat))
    | _, _ => none
  | _ => none

def str (s : String) : CVal := .text s.toList

def encUnit : UnitKey → CVal
  | .base b => str b.name
  | .derived id => .map [(str "Derived", .uint id)]

def decUnit : CVal → Option UnitKey
  | .text s => (Base.all.find? (fun b => b.name.toList == s)).map .base
  | .map [(.text k, .uint id)] =>
    if k == "Derived".toList && (Generated.units.any (fun u => u.id == id)) then some (.derived id) else none
  | _ => none

def encState (s : State) : CVal := .map [(str "power", cInt s.power), (str "prefix", cInt s.pfx)]

def decState : CVal → Option State
  | .map [(.text a, p), (.text b, x)] =>
    if a == "power".toList && b == "prefix".toList then
      match unCInt p, unCInt x with
      | some p, some x => some { power := p, pfx := x }
      | _, _ => none
    else none
  | _ => none

def encCompound (c : Compound) : CVal :=
  .map [(str "names", .map (c.map (fun e => (encUnit e.1, encState e.2))))]

def decEntries : List (CVal × CVal) → Option Compound
  | [] => some []
  | (k, v) :: rest =>
    match decUnit k, decState v, decEntries rest with
    | some u, some s, some c => some ((u, s) :: c)
    | _, _, _ => none

def decCompound : CVal → Option Compound
  | .map [(.text n, .map es)] => if n == "names".toList then decEntries es else none
  | _ => none

structure Constant where
  source : Option Nat
  tokens : List (List Char)
  description : List Char
  value : Rat
  unit : Compound
  deriving Repr

def encConstant (c : Constant) : CVal :=
  .map [ (str "source", match c.source with | some s => .uint s | none => .null),
         (str "tokens", .array (c.tokens.map .text)),
         (str "description", .text c.description),
         (str "value", encRat c.value),
         (str "unit", encCompound c.unit) ]

def unTexts : List CVal → Option (List (List Char))
  | [] => some []
  | .text s :: rest => (unTexts rest).map (s :: ·)
  | _ => none

def decConstant : CVal → Option Constant
  | .map [(.text k1, s), (.text k2, .array ts), (.text k3, .text d), (.text k4, v), (.text k5, u)] =>
    if k1 == "source".toList && k2 == "tokens".toList && k3 == "description".toList
        && k4 == "value".toList && k5 == "unit".toList then
      let src : Option (Option Nat) := match s with
        | .uint n => some (some n) | .null => some none | _ => none
      match src, unTexts ts, decRat v, decCompound u with
      | some src, some ts, some v, some u => some { source := src, tokens := ts, description := d, value := v, unit := u }
      | _, _, _, _ => none
    else none
  | _ => none

/-! ## JSON form of a rational: `[[sign,[limbs…]],[sign,[limbs…]]]` -/

def jsonNat (n : Nat) : List Char := (toString n).toList
def jsonInt (i : Int) : List Char := (toString i).toList

def jsonList (xs : List (List Char)) : List Char :=
  ['['] ++ (List.intercalate [','] xs) ++ [']']

def jsonBigInt (i : Int) : List Char :=
  jsonList [jsonInt (if i < 0 then -1 else if i = 0 then 0 else 1), jsonList ((toLimbs i.natAbs).map jsonNat)]

def jsonRat (r : Rat) : List Char := jsonList [jsonBigInt r.num, jsonBigInt r.den]

end Anything.Cbor
