import Anything.Model.UnitTypes
/-!
# Sorted association lists standing in for `BTreeMap<Unit, _>`

Sortedness / no-duplicates is a separately proved invariant (`Lemmas/AMap`).
-/

namespace Anything.AMap
open Anything

abbrev AMap (α : Type) := List (UnitKey × α)

def get? {α} : AMap α → UnitKey → Option α
  | [], _ => none
  | (k, v) :: rest, key => if k = key then some v else get? rest key

/-- `BTreeMap::insert`: replace or insert at the sorted position. -/
def insert {α} : AMap α → UnitKey → α → AMap α
  | [], key, v => [(key, v)]
  | (k, w) :: rest, key, v =>
    if k = key then (key, v) :: rest
    else if key.lt k then (key, v) :: (k, w) :: rest
    else (k, w) :: insert rest key v

def erase {α} : AMap α → UnitKey → AMap α
  | [], _ => []
  | (k, w) :: rest, key => if k = key then rest else (k, w) :: erase rest key

def contains {α} (m : AMap α) (key : UnitKey) : Bool := (get? m key).isSome

end Anything.AMap
