import Anything.Model.Lexer
/-!
# Model of `impl FromStr for Rational` (`src/rational/mod.rs`)

Branch for branch; `u32` counters carry their `checked_*` overflow tests.
-/

namespace Anything.Number
open Anything Anything.Lexer

def u32Max : Nat := 4294967295

def digitVal (c : Char) : Nat := c.toNat - '0'.toNat

/-- The exponent loop (`for b in it`), state `(exp, init)`. `none` = `Err`. -/
def expLoop (exp : Nat) (init : Bool) : List Char → Option Nat
  | [] => some exp
  | b :: rest =>
    if b == '0' && !init then expLoop exp init rest
    else if isDigit b then
      let m := exp * 10
      if m > u32Max then none
      else if m + digitVal b > u32Max then none
      else expLoop (m + digitVal b) true rest
    else none

/-- Optional sign at the head of the byte stream: `(neg, rest)`. -/
def takeSign : List Char → Bool × List Char
  | '-' :: rest => (true, rest)
  | '+' :: rest => (false, rest)
  | s => (false, s)

/-- The main loop, state `(dot, init, dots, out)`; returns `(out, dots)`. -/
def mainLoop (dot init : Bool) (dots : Nat) (out : Rat) : List Char → Option (Rat × Nat)
  | [] => some (out, dots)
  | b :: rest =>
    if b == '0' && !init then mainLoop dot init dots out rest
    else if isDigit b then
      let out' := out * 10 + (digitVal b : Nat)
      if dot then
        if dots + 1 > u32Max then none
        else mainLoop dot true (dots + 1) out' rest
      else mainLoop dot true dots out' rest
    else if b == '.' && !dot then mainLoop true true dots out rest
    else if b == 'e' || b == 'E' then
      let (neg, rest') := takeSign rest
      match expLoop 0 false rest' with
      | none => none
      | some exp =>
        if neg then some (out / (10 : Rat) ^ exp, dots) else some (out * (10 : Rat) ^ exp, dots)
    else none

/-- `str::parse::<Rational>`; `none` is `ParseRationalError`. -/
def fromStr (s : List Char) : Option Rat :=
  let (neg, rest) := takeSign s
  match mainLoop false false 0 0 rest with
  | none => none
  | some (out, dots) =>
    let out := out / (10 : Rat) ^ dots
    some (if neg then -out else out)

end Anything.Number
