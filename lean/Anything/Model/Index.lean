import Anything.Generated.Facts
import Anything.Generated.DbConsts
import Anything.Model.Eval
/-!
# Model of the repository's use of the search index (`src/db.rs`): C14, C16

What is logic of this repository: which documents are handed to the index writer and in
which order (`Db::load_bytes`: one document per constant, one `name` value per token,
the constant as stored payload), with how many indexing threads, which analyzer both
sides go through (`ngram(min, max, prefix_only) + LowerCaser`), that a phrase is given to
the query parser as is, and that the answer is the top document (`TopDocs::with_limit(1)`).
The knobs come from `Generated.Db` (extracted from the source on every run).

What is tantivy's and only ASSUMED here (trusted base): a writer with one indexing thread
produces the documents in the order of the `add_document` calls; equal scores are ranked
by (segment ordinal, document id); the query parser makes the phrase an OR of the terms
the field's analyzer produces from its blank-separated words; scores are BM25 in `f32`
(abstracted as an arbitrary function into a linear order).
-/

namespace Anything.Index
open Anything

/-- A document: the tokens of the `name` field, and the stored constant identified by its
position in shipped order. -/
structure Doc where
  tokens : List (List Char)
  payload : Nat
  deriving DecidableEq, Repr

def docsFrom : Nat → List Generated.FactRow → List Doc
  | _, [] => []
  | i, r :: rest => { tokens := r.tokens, payload := i } :: docsFrom (i + 1) rest

/-- The documents in the order `open_inner` hands them to the writer. -/
def shippedDocs : List Doc := docsFrom 0 Generated.facts

/-! ### The analyzer (same on the indexing and on the query side) -/

def lowerWord (w : List Char) : List Char :=
  if Generated.Db.lowerCaser then w.map Char.toLower else w

/-- `NgramTokenizer::new(min, max, prefix_only = true)`: the prefixes of lengths `min..max`. -/
def ngramsOf (mn mx : Nat) (w : List Char) : List (List Char) :=
  ((List.range (mx + 1)).filter (fun k => mn ≤ k && k ≤ w.length)).map (fun k => w.take k)

def analyze (w : List Char) : List (List Char) :=
  ngramsOf Generated.Db.ngramMin Generated.Db.ngramMax (lowerWord w)

def docTerms (d : Doc) : List (List Char) := d.tokens.flatMap analyze

/-- Blank-separated words of a phrase. -/
def splitBlanks : List Char → List (List Char)
  | [] => []
  | c :: cs =>
    if c = ' ' then [] :: splitBlanks cs
    else match splitBlanks cs with
      | [] => [[c]]
      | w :: ws => (c :: w) :: ws

def words (phrase : List Char) : List (List Char) := (splitBlanks phrase).filter (· ≠ [])

def queryTerms (phrase : List Char) : List (List Char) := (words phrase).flatMap analyze

def joinWords : List (List Char) → List Char
  | [] => []
  | [w] => w
  | w :: ws => w ++ [' '] ++ joinWords ws

/-! ### The index and the ranking, abstractly -/

/-- Segments in segment-ordinal order, documents in document-id order. -/
abbrev Idx := List (List Doc)

/-- How `workers` indexing threads may split the documents: which worker takes the i-th
document, and in which order the workers' segments end up. -/
structure Schedule where
  assign : Nat → Nat
  order : List Nat

def takenBy (σ : Schedule) (workers k : Nat) : Nat → List Doc → List Doc
  | _, [] => []
  | i, d :: rest =>
    if σ.assign i % workers = k then d :: takenBy σ workers k (i + 1) rest else takenBy σ workers k (i + 1) rest

def build (workers : Nat) (σ : Schedule) (docs : List Doc) : Idx :=
  σ.order.map (fun k => takenBy σ workers k 0 docs)

/-- Top document under a score (`none` = no match): the FIRST document in index order
attaining the greatest score. -/
def top1Loop (score : Doc → Option Nat) : Option (Nat × Doc) → List Doc → Option (Nat × Doc)
  | best, [] => best
  | best, d :: rest =>
    match score d, best with
    | none, _ => top1Loop score best rest
    | some s, none => top1Loop score (some (s, d)) rest
    | some s, some (b, bd) => if b < s then top1Loop score (some (s, d)) rest else top1Loop score (some (b, bd)) rest

def top1 (score : Doc → Option Nat) (ix : Idx) : Option Doc := (top1Loop score none ix.flatten).map (·.2)

/-! ### Which facts are in the scope of "can be typed", and the one-lookup check -/

def phraseOf (r : Generated.FactRow) : List Char := joinWords r.tokens

/-- The phrase lexes into words (numbers allowed after the first word) separated by
blanks, none of them the keyword `to`. -/
def typeable (r : Generated.FactRow) : Bool :=
  let toks := Lexer.lex (phraseOf r)
  !r.tokens.isEmpty && r.tokens.all (· ≠ []) &&
  (match toks with | t :: _ => t.kind == .WORD | [] => false) &&
  toks.all (fun t => t.kind == .WORD || t.kind == .WHITESPACE || t.kind == .NUMBER)

/-- A database that knows exactly one phrase. -/
def onlyDb (phrase : List Char) : Db := fun p =>
  if p = phrase then .found { value := 7, unit := [], description := phrase } else .error

/-- Evaluating the phrase as a query performs exactly one lookup, of exactly that phrase:
with a database that knows only this phrase the result is that fact, and it is reported. -/
def oneLookup (r : Generated.FactRow) : Bool :=
  let q := phraseOf r
  match Eval.query { db := onlyDb q, describe := true, debug := true } q with
  | .ok ([.ok v], [d]) => v.value == 7 && v.unit.isEmpty && d.phrase == q
  | _ => false

end Anything.Index
