import Anything.Model.Basic
/-!
# Unit datatypes shared by the generated tables and the model
-/

namespace Anything

/-- Base units, in the variant order of `enum Unit` (after `Derived`). -/
inductive Base
  | KiloGram | Candela | Meter | Second | Ampere | Kelvin | Mole | Byte
  deriving DecidableEq, Repr, Inhabited

def Base.idx : Base → Nat
  | .KiloGram => 0 | .Candela => 1 | .Meter => 2 | .Second => 3
  | .Ampere => 4 | .Kelvin => 5 | .Mole => 6 | .Byte => 7

def Base.name : Base → String
  | .KiloGram => "KiloGram" | .Candela => "Candela" | .Meter => "Meter" | .Second => "Second"
  | .Ampere => "Ampere" | .Kelvin => "Kelvin" | .Mole => "Mole" | .Byte => "Byte"

def Base.all : List Base :=
  [.KiloGram, .Candela, .Meter, .Second, .Ampere, .Kelvin, .Mole, .Byte]

/-- `enum Unit`: `Derived` (ordered by id) sorts before every base unit. -/
inductive UnitKey
  | derived (id : Nat)
  | base (b : Base)
  deriving DecidableEq, Repr, Inhabited

/-- Total order key reproducing the derived `Ord` of `Unit`. -/
def UnitKey.rank : UnitKey → Nat × Nat
  | .derived id => (0, id)
  | .base b => (1, b.idx)

def UnitKey.lt (a b : UnitKey) : Bool :=
  let (a1, a2) := a.rank
  let (b1, b2) := b.rank
  a1 < b1 || (a1 == b1 && a2 < b2)

def UnitKey.show : UnitKey → String
  | .derived id => s!"D{id}"
  | .base b => b.name

/-- `Conversion` of `src/unit.rs`. Fractions are kept as numerator/denominator
pairs (kernel-reducible); `methods` holds the two affine maps recovered by
probing the closures: `to x = tm * x + ta`, `from x = fm * x + fa`. -/
inductive Conversion
  | none
  | factor (n d : Nat)
  | offset (n d : Nat)
  | methods (tmN tmD taN taD fmN fmD faN faD : Int)
  deriving DecidableEq, Repr, Inhabited

/-- One derived unit as extracted from the working tree. -/
structure UnitDef where
  id : Nat
  dims : List (Base × Int)   -- `powers(p = 1)`, in map order
  conv : Conversion
  sing : List Char
  plur : List Char
  deriving Repr, Inhabited

/-- What a literal of the generated word lexers does. -/
inductive WordAction
  | unit (u : UnitKey) (bias : Int)
  | pfx (p : Int) (alone : Option (UnitKey × Int))  -- special case when nothing follows
  | sep
  deriving DecidableEq, Repr, Inhabited

structure State where
  power : Int
  pfx : Int
  deriving DecidableEq, Repr, Inhabited

/-- `Compound`: association list kept strictly sorted by `UnitKey.lt` (invariant
proved separately, not a subtype). -/
abbrev Compound := List (UnitKey × State)

end Anything
