import Anything.Model.Parser
/-!
# Model of `src/syntax/grammar.rs` (branch for branch)

Every loop and every recursive descent takes `fuel`; `parseRoot` supplies an
amount proportional to the number of tokens. Running out of fuel is an explicit
outcome (`BErr.fuel`) which the correspondence would expose.
-/

namespace Anything.Grammar
open Anything Anything.Parser Syntax

/-- `operation::op`'s table: priority, node kind, whether the right operand is a unit. -/
def opInfo : Syntax → Option (Nat × Syntax × Bool)
  | .TO => some (1, .OP_CAST, true)
  | .PLUS => some (2, .OP_ADD, false)
  | .DASH => some (2, .OP_SUB, false)
  | .STAR => some (3, .OP_MUL, false)
  | .SLASH => some (3, .OP_DIV, false)
  | .CARET => some (10, .OP_POWER, false)
  | .STARSTAR => some (10, .OP_POWER, false)
  | _ => none

/-- The "trailing no-skip symbols" loop of `unit`: `some 1` = `break Skip::ONE`,
`none` = `break 'outer`. -/
def unitTrail : Nat → PM (Option Nat)
  | 0 => PM.fail .fuel
  | fuel + 1 => do
    let k ← nth 0 0
    let kind? : Option Syntax := match k with
      | .WORD => some .WORD | .TO => some .WORD | .NUMBER => some .NUMBER
      | .STAR => some .OP_MUL | .SLASH => some .OP_DIV
      | .CARET => some .OP_POWER | .STARSTAR => some .OP_POWER
      | _ => none
    match kind? with
    | some kind => do bumpNode kind; unitTrail fuel
    | none => if k == .WHITESPACE then pure (some 1) else pure none

/-- The `'outer` loop of `unit`. `c` is the checkpoint once taken. -/
def unitLoop : Nat → Option Nat → Nat → PM (Option Nat)
  | 0, _, _ => PM.fail .fuel
  | fuel + 1, c, skip => do
    let k ← nth skip 0
    if k == .NUMBER || k == .WORD then do
      bumpN skip
      let c ← (match c with
        | some c => pure (some c)
        | none => do let c ← checkpoint; pure (some c) : PM (Option Nat))
      bumpNode k
      match ← unitTrail fuel with
      | some skip' => unitLoop fuel c skip'
      | none => pure c
    else pure c

/-- `grammar::unit`. -/
def unit (fuel skip : Nat) : PM (Option Nat) := do
  let c ← unitLoop fuel none skip
  match c with
  | some c => do closeAt c .UNIT; pure (some c)
  | none => pure none

/-- Word loops of `value`: bump `WORD` nodes while the next non-blank token has one
of the given kinds. Returns the number of words and the final skip. -/
def wordLoop (allowNumber : Bool) : Nat → Nat → Nat → PM (Nat × Nat)
  | 0, _, _ => PM.fail .fuel
  | fuel + 1, skip, words => do
    let k ← nth skip 0
    if k == .WORD || (allowNumber && k == .NUMBER) then do
      bumpN skip
      bumpNode .WORD
      let skip' ← countSkip
      wordLoop allowNumber fuel skip' (words + 1)
    else pure (words, skip)

/-- Close the remaining stack frames, innermost first. -/
def closeAll : List (Nat × Nat × Bool) → PM Unit
  | [] => pure ()
  | (c, _, _) :: rest => do closeAt c .OPERATION; closeAll rest

/-- The `while let Some(prev) = stack.last_mut()` loop of `operation` (head = top). -/
def reduce (cur prio : Nat) (extra : Bool) : List (Nat × Nat × Bool) → PM (List (Nat × Nat × Bool))
  | [] => pure []
  | (c, pr, ex) :: rest =>
    if prio < pr then do
      closeAt c .OPERATION
      match rest with
      | (c2, pr2, ex2) :: rest2 =>
        if pr2 ≥ prio then reduce cur prio extra ((c2, pr2, ex2) :: rest2)
        else pure ((c, prio, extra) :: (c2, pr2, ex2) :: rest2)
      | [] => pure [(c, prio, extra)]
    else if prio > pr then pure ((cur, prio, extra) :: (c, pr, ex) :: rest)
    else pure ((c, pr, ex) :: rest)

mutual

/-- `grammar::value`. -/
def value : Nat → Nat → PM (Option Nat)
  | 0, _ => PM.fail .fuel
  | fuel + 1, skip => do
    let k ← nth skip 0
    match k with
    | .OPEN_BRACE => do
      bumpN skip
      let start ← checkpoint
      bump
      let c ← checkpoint
      let skip ← countSkip
      let (words, skip) ← wordLoop false fuel skip 0
      if words > 1 then closeAt c .SENTENCE
      if !(← eat skip [.CLOSE_BRACE]) then do
        let s ← Parser.get
        bumpUntil .CLOSE_BRACE s.toks.length
        pure none
      else pure (some start)
    | .WORD => do
      bumpN skip
      let start ← checkpoint
      let c ← checkpoint
      bumpNode .WORD
      if (← nth 0 0) == .OPEN_PAREN then do
        closeAt c .FN_NAME
        bump
        if !(← callArguments fuel) then pure none
        else do
          closeAt c .FN_CALL
          pure (some start)
      else do
        let skip ← countSkip
        let (words, _) ← wordLoop true fuel skip 0
        if words > 0 then closeAt c .SENTENCE
        pure (some start)
    | .NUMBER => do
      bumpN skip
      let c ← checkpoint
      bump
      let skip ← countSkip
      let kind ← (do
        if (← nth skip 0) == .PERCENTAGE then do
          bumpN skip
          bump
          pure .PERCENTAGE
        else do
          match ← unit fuel skip with
          | some _ => pure .WITH_UNIT
          | none => pure .NUMBER : PM Syntax)
      closeAt c kind
      pure (some c)
    | .OPEN_PAREN => do
      bumpN skip
      let c ← checkpoint
      bump
      let skip ← countSkip
      match ← operation fuel skip with
      | none => pure none
      | some skip => do
        if !(← eat skip [.CLOSE_PAREN]) then pure none
        else do
          closeAt c .OPERATION
          pure (some c)
    | _ => pure none

/-- The argument loop of `call_arguments`; returns `none` for `return Ok(false)`. -/
def argsLoop : Nat → PM (Option Nat)
  | 0 => PM.fail .fuel
  | fuel + 1 => do
    let skip ← countSkip
    if (← nth skip 0) == .CLOSE_PAREN then pure (some skip)
    else
      match ← operation fuel skip with
      | none => pure none
      | some skip => do
        if !(← eat skip [.COMMA]) then pure (some skip)
        else argsLoop fuel

/-- `grammar::call_arguments`. -/
def callArguments : Nat → PM Bool
  | 0 => PM.fail .fuel
  | fuel + 1 => do
    let c ← checkpoint
    match ← argsLoop fuel with
    | none => pure false
    | some skip => do
      closeAt c .FN_ARGUMENTS
      eat skip [.CLOSE_PAREN]

/-- The main loop of `operation`. -/
def opLoop : Nat → Nat → List (Nat × Nat × Bool) → Bool → Nat → PM (Option Nat)
  | 0, _, _, _, _ => PM.fail .fuel
  | fuel + 1, opn, stack, first, skip => do
    let isUnit := match stack with
      | (_, _, u) :: _ => u
      | [] => false
    let cur? ← (if isUnit then do bumpN skip; unit fuel 0 else value fuel skip : PM (Option Nat))
    match cur? with
    | none => pure none
    | some cur => do
      let curSkip ← countSkip
      match opInfo (← nth curSkip 0) with
      | none => do
        closeAll stack
        pure (some curSkip)
      | some (prio, operator, extra) => do
        let stack := if first then (opn, prio, extra) :: stack else stack
        let stack ← reduce cur prio extra stack
        bumpN curSkip
        bumpNode operator
        let skip ← countSkip
        opLoop fuel opn stack false skip

/-- `grammar::operation`. -/
def operation : Nat → Nat → PM (Option Nat)
  | 0, _ => PM.fail .fuel
  | fuel + 1, skip => do
    let opn ← checkpoint
    opLoop fuel opn [] true skip

end

/-- The loop of `grammar::root`. -/
def rootLoop : Nat → Nat → Bool → Nat → PM Bool
  | 0, _, _, _ => PM.fail .fuel
  | fuel + 1, c, error, skip => do
    let k ← nth skip 0
    if k == .EOF then do
      bumpN skip
      pure error
    else if k == .OPEN_BRACE || k == .OPEN_PAREN || k == .WORD || k == .NUMBER then do
      match ← operation fuel skip with
      | some s => rootLoop fuel c error s
      | none => do
        closeAt c .ERROR
        rootLoop fuel c error skip
    else do
      bumpN skip
      bump
      let skip ← countSkip
      rootLoop fuel c true skip

/-- `grammar::root`. -/
def root (fuel : Nat) : PM Unit := do
  let skip ← countSkip
  let c ← checkpoint
  let error ← rootLoop fuel c false skip
  if error then closeAt c .ERROR

def fuelFor (toks : List Token) : Nat := 4 * toks.length + 16

/-- `Parser::parse_root` on an already lexed input. -/
def parseRootToks (toks : List Token) : Except BErr (List Tree) :=
  match root (fuelFor toks) { toks := toks } with
  | .ok (_, s) => .ok s.b.forest
  | .error e => .error e

def parseRoot (src : List Char) : Except BErr (List Tree) := parseRootToks (Lexer.lex src)

/-- `Parser::parse_unit`. -/
def parseUnit (src : List Char) : Except BErr (List Tree) :=
  let toks := Lexer.lex src
  let m : PM Unit := do
    match ← unit (fuelFor toks) 0 with
    | none => bumpEmptyNode .ERROR
    | some _ => pure ()
  match m { toks := toks } with
  | .ok (_, s) => .ok s.b.forest
  | .error e => .error e

end Anything.Grammar
