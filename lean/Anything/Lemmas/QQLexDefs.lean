import Anything.Lemmas.QQDefs
import Anything.Lemmas.C06Lex
/-!
# Quantity expressions end to end — token lists and layout conditions

`toksQ e ws`: the in-order token list of the rendering of `e` under the layout `ws` (one
WHITESPACE token per non-empty blank; a written unit expression contributes `unitToks`).
`LayoutOKQ e ws`: which layouts are admissible — exactly those under which the model's lexer and
grammar read the rendering as `e`.
-/

namespace Anything.QQ
open Anything Anything.Lexer Anything.Spec Anything.Spec.Arith Anything.Spec.Decimal
open Anything.Spec.Quantity Anything.C06

/-- The layout that remains after rendering. -/
abbrev afterQ (e : QExpr) (ws : Layout) : Layout := (Quantity.render e ws).2

/-- The `to` token. -/
def toTok : Token := ⟨.TO, ['t', 'o']⟩

/-- In-order token list of a quantity expression under a layout (threaded as in `render`). -/
def toksQ : QExpr → Layout → List Token
  | .num l, _ => [⟨.NUMBER, renderNumber l⟩]
  | .qty l u, ws => [⟨.NUMBER, renderNumber l⟩] ++ blankTok (blank1 ws) ++ unitToks u
  | .bin op a b, ws =>
    let ws1 := afterQ a ws
    toksQ a ws ++ blankTok (blank1 ws1) ++ [opTok op] ++ blankTok (blank1 (rest1 ws1)) ++
      toksQ b (rest1 (rest1 ws1))
  | .paren e, ws =>
    [⟨.OPEN_PAREN, ['(']⟩] ++ blankTok (blank1 ws) ++ toksQ e (rest1 ws) ++
      blankTok (blank1 (afterQ e (rest1 ws))) ++ [⟨.CLOSE_PAREN, [')']⟩]
  | .cast e u, ws =>
    let ws1 := afterQ e ws
    toksQ e ws ++ blankTok (blank1 ws1) ++ [toTok] ++ blankTok (blank1 (rest1 ws1)) ++ unitToks u
  | .fact _ _ _, _ => []

/-- The rendering ends with a written unit expression: next to it `*`, `/`, `^` and a word
would continue the unit expression instead of the expression. -/
def endsUnit : QExpr → Bool
  | .qty _ _ => true
  | .cast _ _ => true
  | .bin _ _ b => endsUnit b
  | _ => false

/-- The leftmost operand is a number written without a sign. -/
def startsUnsignedQ : QExpr → Bool
  | .num l => l.sign.isNone
  | .qty l _ => l.sign.isNone
  | .bin _ a _ => startsUnsignedQ a
  | .cast e _ => startsUnsignedQ e
  | _ => false

/-- A word the query lexer reads as ONE `WORD` token: letters, digits, `°`, `'`, not beginning
with a digit, and not the keyword `to`. -/
def WordLit (w : List Char) : Prop :=
  (∃ c r, w = c :: r ∧ isDigit c = false) ∧ (∀ c ∈ w, isWordChar c = true) ∧ w ≠ ['t', 'o']

/-- Every written factor (non-zero power) is spelled as one lexer word. -/
def UnitLexOK (u : List RTerm) : Prop := ∀ t ∈ u, t.power ≠ 0 → WordLit (word t)

/-- A text that may directly follow a number: it does not continue the number. After `e` / `E`
there must be a character that is neither a sign nor a digit (`3eV` is fine, `3e2x` is not). -/
def GlueOK (s : List Char) : Prop :=
  ∀ c r, s = c :: r → isDigit c = false ∧ c ≠ '.' ∧
    ((c = 'e' ∨ c = 'E') → ∃ b r', r = b :: r' ∧ isSign b = false ∧ isDigit b = false)

/-- The admissible layouts.
* every blank position holds white space only (possibly nothing);
* number and unit of a literal may be glued (`3km`) unless the unit text would continue the number
  (`1/s`, which begins with a digit, needs the blank);
* a binary `+`/`-` directly followed by an unsigned literal is followed by a blank (C06);
* where the left operand ends with a unit, `*`, `/`, `^` and `to` are preceded by a blank (glued
  to the unit they would continue the unit expression);
* `to` is followed by a blank (else `to` and the unit form one word). -/
def LayoutOKQ : QExpr → Layout → Prop
  | .num l, _ => l.WF
  | .qty l u, ws => l.WF ∧ UnitLexOK u ∧ Blank (blank1 ws) ∧
      (blank1 ws = [] → GlueOK (renderUnit u))
  | .bin op a b, ws =>
    let ws1 := afterQ a ws
    LayoutOKQ a ws ∧ Blank (blank1 ws1) ∧ Blank (blank1 (rest1 ws1)) ∧
      LayoutOKQ b (rest1 (rest1 ws1)) ∧
      ((op = .add ∨ op = .sub) → blank1 (rest1 ws1) = [] → startsUnsignedQ b = false) ∧
      (endsUnit a = true → (op = .mul ∨ op = .div ∨ op = .pow) → blank1 ws1 ≠ [])
  | .paren e, ws =>
    Blank (blank1 ws) ∧ LayoutOKQ e (rest1 ws) ∧ Blank (blank1 (afterQ e (rest1 ws)))
  | .cast e u, ws =>
    let ws1 := afterQ e ws
    LayoutOKQ e ws ∧ UnitLexOK u ∧ Blank (blank1 ws1) ∧ Blank (blank1 (rest1 ws1)) ∧
      blank1 (rest1 ws1) ≠ [] ∧ (endsUnit e = true → blank1 ws1 ≠ [])
  | .fact _ _ _, _ => False

/-- Side conditions on the layout of a whole query: leading blank, expression, trailing blank. -/
def QueryLayoutOKQ (e : QExpr) (ws : Layout) : Prop :=
  Blank (blank1 ws) ∧ LayoutOKQ e (rest1 ws) ∧ Blank (blank1 (afterQ e (rest1 ws)))

/-- Token list of a whole query. -/
def queryToksQ (e : QExpr) (ws : Layout) : List Token :=
  blankTok (blank1 ws) ++ toksQ e (rest1 ws) ++ blankTok (blank1 (afterQ e (rest1 ws)))

end Anything.QQ
