import Anything.Lemmas.FQLex
import Anything.Lemmas.QQLaws
import Anything.Model.Index
/-!
# Fact phrases end to end — the shipped constants are phrases that can be typed

A decidable form of `PhraseOK` for a list of words joined by single blanks, and the kernel check
that every shipped constant in the scope of C16 (`Index.typeable`) passes it.
-/

namespace Anything.FQ
open Anything Anything.Lexer Anything.QQ Anything.C06

/-- Executable form of `PWord`. -/
def pwordCheck (w : List Char) : Bool := wordLitCheck w || numWordB w

/-- Executable form of `PhraseOK` for words joined by single blanks. -/
def phraseCheck (ws : List (List Char)) : Bool :=
  match ws with
  | [] => false
  | f :: rest => wordLitCheck f && rest.all pwordCheck

theorem phraseOK_of_check {f : List Char} {rest : List (List Char)}
    (h : phraseCheck (f :: rest) = true) : PhraseOK f (singleBlanks rest) := by
  simp only [phraseCheck, Bool.and_eq_true, List.all_eq_true] at h
  refine ⟨wordLit_of_check h.1, ?_⟩
  intro bw hbw
  simp only [singleBlanks, List.mem_map] at hbw
  obtain ⟨w, hw, rfl⟩ := hbw
  refine ⟨?_, by simp, ?_⟩
  · intro c hc
    simp only [List.mem_singleton] at hc
    subst hc; decide
  · have := h.2 w hw
    simp only [pwordCheck, Bool.or_eq_true] at this
    rcases this with h1 | h1
    · exact Or.inl (wordLit_of_check h1)
    · exact Or.inr (numWord_of_full h1)

/-- The text of a phrase with single blanks is `Index.joinWords` of its words. -/
theorem phraseText_single (f : List Char) (rest : List (List Char)) :
    phraseText f (singleBlanks rest) = Index.joinWords (f :: rest) := by
  induction rest generalizing f with
  | nil => simp [phraseText, singleBlanks, moreText, Index.joinWords]
  | cons w rest ih =>
    have := ih w
    simp only [phraseText, singleBlanks, moreText, List.map_cons, List.flatMap_cons,
      Index.joinWords, List.append_assoc, List.cons_append,
      List.nil_append] at this ⊢
    rw [← this]

/-- **Kernel check over the shipped table**: every constant whose words can be typed
(`Index.typeable`, the scope of C16) consists of a lexer word followed by lexer words or number
words. -/
theorem shipped_phraseCheck :
    Generated.factChunks.all (fun c => c.all (fun r => !Index.typeable r || phraseCheck r.tokens))
      = true := by
  decide +kernel

theorem shipped_phraseOK (r : Generated.FactRow) (hr : r ∈ Generated.facts)
    (ht : Index.typeable r = true) :
    ∃ f rest, r.tokens = f :: rest ∧ PhraseOK f (singleBlanks rest) ∧
      phraseText f (singleBlanks rest) = Index.phraseOf r := by
  have h := shipped_phraseCheck
  simp only [List.all_eq_true] at h
  simp only [Generated.facts, List.mem_flatten] at hr
  obtain ⟨c, hc, hrc⟩ := hr
  have := h c hc r hrc
  simp only [ht, Bool.not_true, Bool.false_or] at this
  cases htk : r.tokens with
  | nil => rw [htk] at this; simp [phraseCheck] at this
  | cons f rest =>
    rw [htk] at this
    exact ⟨f, rest, rfl, phraseOK_of_check this, by
      rw [phraseText_single, Index.phraseOf, htk]⟩

/-- **Kernel check over the shipped table**: every word of every constant in scope is a lexer
word (none begins with a digit, none is the keyword `to`) — so the words can be typed in any
order. -/
theorem shipped_wordsCheck :
    Generated.factChunks.all (fun c => c.all (fun r =>
      !Index.typeable r || (!r.tokens.isEmpty && r.tokens.all wordLitCheck))) = true := by
  decide +kernel

theorem shipped_perm_phraseOK (r : Generated.FactRow) (hr : r ∈ Generated.facts)
    (ht : Index.typeable r = true) (ws : List (List Char)) (hp : ws.Perm r.tokens) :
    ∃ f rest, ws = f :: rest ∧ PhraseOK f (singleBlanks rest) ∧
      phraseText f (singleBlanks rest) = Index.joinWords ws := by
  have h := shipped_wordsCheck
  simp only [List.all_eq_true] at h
  simp only [Generated.facts, List.mem_flatten] at hr
  obtain ⟨c, hc, hrc⟩ := hr
  have := h c hc r hrc
  simp only [ht, Bool.not_true, Bool.false_or, Bool.and_eq_true, Bool.not_eq_true',
    List.isEmpty_eq_false_iff, List.all_eq_true] at this
  obtain ⟨hne, hall⟩ := this
  cases hws : ws with
  | nil =>
    rw [hws] at hp
    exact absurd hp.symm.eq_nil hne
  | cons f rest =>
    have hmem : ∀ w ∈ f :: rest, wordLitCheck w = true :=
      fun w hw => hall w (hp.subset (hws ▸ hw))
    refine ⟨f, rest, rfl, phraseOK_of_check ?_, phraseText_single f rest⟩
    simp only [phraseCheck, Bool.and_eq_true, List.all_eq_true, pwordCheck, Bool.or_eq_true]
    exact ⟨hmem f (by simp), fun w hw => Or.inl (hmem w (by simp [hw]))⟩

end Anything.FQ
