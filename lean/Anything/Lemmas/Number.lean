import Anything.Model.Number
import Anything.Spec.Decimal
import Mathlib.Tactic.Ring
import Mathlib.Tactic.FieldSimp
import Mathlib.Tactic.Linarith
import Mathlib.Tactic.IntervalCases
import Mathlib.Tactic.NormNum
import Mathlib.Tactic.Positivity
import Mathlib.Algebra.Order.Field.Rat
/-!
# Lemmas about the number-parser model (helper file for `Props/C07`)
-/

namespace Anything.Lemmas.Number
open Anything Anything.Number Anything.Lexer Anything.Spec.Decimal

theorem digitChar_facts : ∀ d : Fin 10,
    isDigit (digitChar d.val) = true ∧ digitVal (digitChar d.val) = d.val ∧
    ((digitChar d.val == '0') = (d.val == 0)) ∧ (digitChar d.val == '.') = false ∧
    (digitChar d.val == 'e') = false ∧ (digitChar d.val == 'E') = false ∧
    (digitChar d.val == '-') = false ∧ (digitChar d.val == '+') = false := by
  decide

theorem digitsVal_cons (d : Nat) (ds : List Nat) :
    digitsVal (d :: ds) = d * 10 ^ ds.length + digitsVal ds := by
  unfold digitsVal
  have gen : ∀ (l : List Nat) (a : Nat),
      l.foldl (fun acc d => acc * 10 + d) a = a * 10 ^ l.length + l.foldl (fun acc d => acc * 10 + d) 0 := by
    intro l
    induction l with
    | nil => intro a; simp
    | cons x xs ih =>
      intro a
      simp only [List.foldl_cons, List.length_cons]
      rw [ih (a * 10 + x), ih (0 * 10 + x)]
      ring
  simp only [List.foldl_cons]
  rw [gen ds (0 * 10 + d)]
  ring

theorem digitsVal_nil : digitsVal [] = 0 := rfl

theorem digitsVal_append (a b : List Nat) :
    digitsVal (a ++ b) = digitsVal a * 10 ^ b.length + digitsVal b := by
  induction a with
  | nil => simp [digitsVal_nil]
  | cons x xs ih =>
    simp only [List.cons_append, digitsVal_cons, ih, List.length_append]
    ring

theorem digitsVal_lt (ds : List Nat) (h : ∀ d ∈ ds, d < 10) : digitsVal ds < 10 ^ ds.length := by
  induction ds with
  | nil => simp [digitsVal_nil]
  | cons x xs ih =>
    have hx : x < 10 := h x (by simp)
    have := ih (fun d hd => h d (by simp [hd]))
    rw [digitsVal_cons]
    simp only [List.length_cons, pow_succ]
    nlinarith

/-- Consuming a run of digits in the main loop. -/
theorem mainLoop_digits (ds : List Nat) (hd : ∀ d ∈ ds, d < 10) :
    ∀ (dot init : Bool) (dots : Nat) (out : Rat) (rest : List Char),
    (init = false → out = 0 ∧ dot = false) →
    (dot = true → dots + ds.length ≤ u32Max) →
    mainLoop dot init dots out (ds.map digitChar ++ rest) =
      mainLoop dot (init || ds.any (· ≠ 0)) (if dot then dots + ds.length else dots)
        (out * (10 : Rat) ^ ds.length + (digitsVal ds : Nat)) rest := by
  induction ds with
  | nil => intro dot init dots out rest _ _; simp [digitsVal_nil]
  | cons d ds ih =>
    intro dot init dots out rest hinv hb
    have hd10 : d < 10 := hd d (by simp)
    obtain ⟨f1, f2, f3, f4, f5, f6, _, _⟩ := digitChar_facts ⟨d, hd10⟩
    simp only at f1 f2 f3 f4 f5 f6
    have hds : ∀ x ∈ ds, x < 10 := fun x hx => hd x (by simp [hx])
    simp only [List.map_cons, List.cons_append]
    rw [mainLoop]
    by_cases hz : (d == 0) = true ∧ init = false
    · -- leading zero skipped
      obtain ⟨hz0, hi⟩ := hz
      obtain ⟨ho, hdot⟩ := hinv hi
      have hd0 : d = 0 := by simpa using hz0
      subst hd0 hi ho hdot
      simp only [f3, beq_self_eq_true, Bool.not_false, Bool.and_self, ↓reduceIte]
      rw [ih hds false false dots 0 rest (by simp) (by simp)]
      simp [digitsVal_cons]
    · have hcond : (digitChar d == '0' && !init) = false := by
        rw [f3]
        cases init <;> simp_all
      simp only [hcond, Bool.false_eq_true, ↓reduceIte, f1, f2]
      cases hdot : dot with
      | false =>
        simp only [Bool.false_eq_true, ↓reduceIte]
        rw [ih hds false true dots _ rest (by simp) (by simp)]
        have : (init || (d :: ds).any (· ≠ 0)) = true := by
          cases init with
          | true => simp
          | false =>
            have : d ≠ 0 := by
              intro h; apply hz; simp [h]
            simp [this]
        simp only [this, Bool.true_or, digitsVal_cons, List.length_cons, Bool.false_eq_true, ↓reduceIte]
        congr 1
        push_cast
        ring
      | true =>
        subst hdot
        have hb' := hb rfl
        simp only [List.length_cons] at hb'
        have : ¬ dots + 1 > u32Max := by omega
        simp only [this, ↓reduceIte]
        rw [ih hds true true (dots + 1) _ rest (by simp) (by intro _; omega)]
        have hi : init = true := by
          cases init with
          | true => rfl
          | false => exact absurd (hinv rfl).2 (by simp)
        subst hi
        simp only [Bool.true_or, ↓reduceIte, digitsVal_cons, List.length_cons]
        congr 1
        · omega
        · push_cast; ring

/-- The exponent loop over a run of digits. -/
theorem expLoop_digits (ds : List Nat) (hd : ∀ d ∈ ds, d < 10) :
    ∀ (exp : Nat) (init : Bool),
    (init = false → exp = 0) →
    exp * 10 ^ ds.length + digitsVal ds ≤ u32Max →
    expLoop exp init (ds.map digitChar) = some (exp * 10 ^ ds.length + digitsVal ds) := by
  induction ds with
  | nil => intro exp init _ _; simp [expLoop, digitsVal_nil]
  | cons d ds ih =>
    intro exp init hinv hb
    have hd10 : d < 10 := hd d (by simp)
    obtain ⟨f1, f2, f3, _⟩ := digitChar_facts ⟨d, hd10⟩
    simp only at f1 f2 f3
    have hds : ∀ x ∈ ds, x < 10 := fun x hx => hd x (by simp [hx])
    simp only [List.map_cons]
    rw [expLoop]
    simp only [digitsVal_cons, List.length_cons] at hb ⊢
    by_cases hz : (d == 0) = true ∧ init = false
    · obtain ⟨hz0, hi⟩ := hz
      have he := hinv hi
      have hd0 : d = 0 := by simpa using hz0
      subst hd0 hi he
      simp only [f3, beq_self_eq_true, Bool.not_false, Bool.and_self, ↓reduceIte]
      rw [ih hds 0 false (by simp) (by simpa using hb)]
      simp
    · have hcond : (digitChar d == '0' && !init) = false := by
        rw [f3]
        cases init <;> simp_all
      simp only [hcond, Bool.false_eq_true, ↓reduceIte, f1, f2]
      have hpos : 1 ≤ 10 ^ ds.length := Nat.one_le_pow _ _ (by norm_num)
      have h1 : exp * 10 + d ≤ u32Max := by
        have : (exp * 10 + d) * 1 ≤ (exp * 10 + d) * 10 ^ ds.length := Nat.mul_le_mul_left _ hpos
        have e : (exp * 10 + d) * 10 ^ ds.length = exp * 10 ^ (ds.length + 1) + d * 10 ^ ds.length := by ring
        omega
      have h2 : ¬ exp * 10 > u32Max := by omega
      have h3 : ¬ exp * 10 + d > u32Max := by omega
      simp only [h2, h3, ↓reduceIte]
      rw [ih hds (exp * 10 + d) true (by simp) (by
        have e : (exp * 10 + d) * 10 ^ ds.length = exp * 10 ^ (ds.length + 1) + d * 10 ^ ds.length := by ring
        omega)]
      congr 1
      ring

end Anything.Lemmas.Number
