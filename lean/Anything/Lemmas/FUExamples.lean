import Anything.Lemmas.FULaws
import Anything.Lemmas.UQExamples
import Anything.Lemmas.C9QExamples
/-!
# The full expression language — sample data for the non-vacuity examples of
`Props/FullQuery.lean`
-/

namespace Anything.FU.Ex
open Anything Anything.Eval Anything.Spec Anything.Spec.Arith Anything.Spec.Decimal
open Anything.Spec.Quantity Anything.Spec.SI Anything.C06 Anything.QQ Anything.QQ.Ex Anything.UQ
open Anything.UQ.Ex Anything.C9Q Anything.C9Q.Ex Anything.FU Anything.Props.C09

/-- A percent literal with the given digits: `50%`. -/
def pctLit (ds : List Nat) : Literal :=
  { sign := none, int := ds, frac := none, exp := none, percent := true }

/-- A literal with a fraction: `98.6`. -/
def fracLit (ds fs : List Nat) : Literal :=
  { sign := none, int := ds, frac := some fs, exp := none, percent := false }

def kmps : List RTerm := [T "k" "m" 1, T "" "s" (-1)]

/-- `floor( 2 * speed of light to km/s ) + 50 %`. -/
def exFull : FExprU :=
  .bin .add (.call .floor (.cast (.bin .mul (.num (natLit [2])) (ofQ sol)) kmps) none)
    (.num (pctLit [5, 0]))

/-- `floor( 98.6 °F to °C )`. -/
def exTemp : FExprU := .call .floor (.cast (.qty (fracLit [9, 8] [6]) [degF]) [degC]) none

/-- `( 20 °C to K ) * 2`. -/
def exTempK : FExprU := .bin .mul (.paren (.cast (.qty (natLit [2, 0]) [degC]) [kel])) (.num (natLit [2]))

/-- `round( 10 m / 3 , 2 )`. -/
def exRound2 : FExprU :=
  .call .round (.bin .div (.qty (natLit [1, 0]) m) (.num (natLit [3]))) (some (natLit [2]))

/-- `round( 1 + 2 , 1 ) * 50 % to m`. -/
def exNest : FExprU :=
  .cast (.bin .mul (.call .round (.bin .add (.num (natLit [1])) (.num (natLit [2]))) (some (natLit [1])))
    (.num (pctLit [5, 0]))) m

/-- `20 °C * 2`. -/
def exBadMul : FExprU := .bin .mul (.qty (natLit [2, 0]) [degC]) (.num (natLit [2]))

/-- `20 to °C`. -/
def exBadCast : FExprU := .cast (.num (natLit [2, 0])) [degC]

/-- `floor( 20 °C ) * 2 m`. -/
def exRefused : FExprU :=
  .bin .mul (.call .floor (.qty (natLit [2, 0]) [degC]) none) (.qty (natLit [2]) m)

deriving instance DecidableEq for Numeric
deriving instance DecidableEq for EvalErr

/-- A configuration with an empty database. -/
def nodb : Cfg := { db := fun _ => .nothing }

/-- `round( 2.55 , 1.5 )`. -/
def exRoundFrac : FExprU := .call .round (.num (fracLit [2] [5, 5])) (some (fracLit [1] [5]))

theorem unitOK_kmps : UnitOK kmps := unitOK_of_check (by decide +kernel)

theorem litOK_pct (d₁ d₂ : Nat) (h₁ : d₁ < 10) (h₂ : d₂ < 10) : LitOK (pctLit [d₁, d₂]) := by
  refine ⟨⟨?_, ?_, ?_, ?_⟩, ?_, ?_⟩ <;> simp [pctLit, fracDigits, Number.u32Max, h₁, h₂]

theorem litOKQ_frac : LitOKQ (fracLit [9, 8] [6]) := by
  refine ⟨⟨⟨?_, ?_, ?_, ?_⟩, ?_, ?_⟩, rfl⟩ <;> simp [fracLit, fracDigits, Number.u32Max]

theorem litOKQ_20 : LitOKQ (natLit [2, 0]) := by
  refine ⟨⟨⟨?_, ?_, ?_, ?_⟩, ?_, ?_⟩, rfl⟩ <;> simp [natLit, fracDigits, Number.u32Max]

/-- What the kernel can compute about a value of the specification: plain?, unit determined?,
unit (if determined) proportional?, dimensions. -/
def vinfo (v : Val) : Bool × Bool × Bool × DimVec :=
  (v.plain, v.unit.isSome, (v.unit.map proportional).getD true, v.q.dim)

/-- The same about the denotation of an expression. -/
def info (e : FExprU) : Option (Bool × Bool × Bool × DimVec) := (denoteF e).toOption.map vinfo

theorem info_of {e : FExprU} {v : Val} {i : Bool × Bool × Bool × DimVec} (hi : info e = some i)
    (hv : denoteF e = .ok v) : vinfo v = i := by
  simp only [info, hv, Except.toOption, Option.map_some, Option.some.injEq] at hi
  exact hi

theorem noOffset_of_vinfo {v : Val} {a b : Bool} {d : DimVec} (h : vinfo v = (a, b, true, d)) :
    NoOffset v := by
  intro sem hs
  simp only [vinfo, hs, Option.map_some, Option.getD_some, Prod.mk.injEq] at h
  exact h.2.2.1

/-- `exFull` is in the scope of every theorem of `Props/FullQuery.lean`. -/
theorem exFull_in_scope : WFF exFull ∧ QueryLayoutOKF exFull [] ∧ UnitsOKF cfg1 exFull ∧
    DeterminateF exFull ∧ ¬ PowRiskF exFull := by
  have hwf : WFF exFull := by
    refine ⟨⟨⟨(by decide : Literal.WF _), phraseU_sol, ?_, ?_⟩, fun n h => nomatch h⟩,
      (by decide : Literal.WF _), ?_, ?_⟩ <;> simp [ofQ, sol, qprioF, BinOp.prio]
  have hres : resolveAll kmps = some (kmps.map rs) := unitOK_resolve_rs unitOK_kmps
  refine ⟨hwf, queryLayoutOKF_nil _ hwf
    ⟨⟨⟨trivial, trivial⟩, unitLexOK_of_check (by decide +kernel)⟩, trivial⟩, ?_, ?_, ?_⟩
  · exact ⟨⟨⟨⟨(litOKQ_digit 2 (by omega)).1, sol_unitsOK, fun h => nomatch h⟩, Or.inl unitOK_kmps⟩,
      fun n h => nomatch h⟩, litOK_pct 5 0 (by omega) (by omega), fun h => nomatch h⟩
  · -- DeterminateF
    have i1 : info (.num (natLit [2])) = some (true, true, true, DimVec.zero) := by decide +kernel
    have i2 : info (ofQ sol) = some (false, false, true, [0, 0, 1, -1, 0, 0, 0, 0]) := by
      decide +kernel
    have i3 : info (.bin .mul (.num (natLit [2])) (ofQ sol)) =
        some (false, false, true, [0, 0, 1, -1, 0, 0, 0, 0]) := by decide +kernel
    have i4 : info (.cast (.bin .mul (.num (natLit [2])) (ofQ sol)) kmps) =
        some (false, true, true, [0, 0, 1, -1, 0, 0, 0, 0]) := by decide +kernel
    have i5 : info (.call .floor (.cast (.bin .mul (.num (natLit [2])) (ofQ sol)) kmps) none) =
        some (false, true, true, [0, 0, 1, -1, 0, 0, 0, 0]) := by decide +kernel
    have i6 : info (.num (pctLit [5, 0])) = some (true, true, true, DimVec.zero) := by decide +kernel
    refine ⟨⟨⟨⟨trivial, trivial, fun x y hx hy => ?_⟩, fun v sem hv hsem => ?_⟩,
      fun v hv => ?_, fun n h => nomatch h⟩, trivial, fun x y hx hy => ?_⟩
    · exact ⟨noOffset_of_vinfo (info_of i1 hx), noOffset_of_vinfo (info_of i2 hy),
        fun h => by rcases h with h | h <;> cases h⟩
    · rw [hres] at hsem
      cases hsem
      have h3 := info_of i3 hv
      simp only [vinfo, Prod.mk.injEq] at h3
      refine Or.inl ⟨noOffset_of_vinfo (info_of i3 hv), by decide +kernel, Or.inr ⟨?_, by decide +kernel⟩⟩
      rw [h3.2.2.2]
      decide
    · have h4 := info_of i4 hv
      simp only [vinfo, Prod.mk.injEq] at h4
      exact h4.2.1
    · have h5 := info_of i5 hx
      have h6 := info_of i6 hy
      refine ⟨noOffset_of_vinfo h5, noOffset_of_vinfo h6, fun _ => ?_⟩
      simp only [vinfo, Prod.mk.injEq] at h5 h6
      exact Or.inr (Or.inr (Or.inl ⟨h5.1, h6.1, h5.2.1⟩))
  · simp [exFull, PowRiskF, ofQ, sol]

/-- `exTemp` (`floor( 98.6 °F to °C )`) is in scope: lone offset scales at a leaf and as a cast
target, inside a call. -/
theorem exTemp_in_scope : WFF exTemp ∧ QueryLayoutOKF exTemp [] ∧ UnitsOKF cfg1 exTemp ∧
    DeterminateF exTemp ∧ ¬ PowRiskF exTemp := by
  have hwf : WFF exTemp := ⟨⟨(by decide : Literal.WF _), rfl⟩, fun n h => nomatch h⟩
  refine ⟨hwf, queryLayoutOKF_nil _ hwf ⟨unitLexOK_written written_degF, unitLexOK_written written_degC⟩,
    ?_, ?_, ?_⟩
  · exact ⟨⟨⟨litOKQ_frac, Or.inr ⟨_, _, _, rfl, written_degF⟩⟩, Or.inr ⟨_, _, _, rfl, written_degC⟩⟩,
      fun n h => nomatch h⟩
  · have i1 : info (.qty (fracLit [9, 8] [6]) [degF]) = some (false, true, false, dimK) := by
      decide +kernel
    have i2 : info (.cast (.qty (fracLit [9, 8] [6]) [degF]) [degC]) =
        some (false, true, false, dimK) := by decide +kernel
    refine ⟨⟨trivial, fun v sem hv hsem => ?_⟩, fun v hv => ?_, fun n h => nomatch h⟩
    · rw [resolveAll_written written_degC] at hsem
      cases hsem
      have h1 := info_of i1 hv
      simp only [vinfo, Prod.mk.injEq] at h1
      exact Or.inr ⟨h1.1, h1.2.2.2, dims_scale .C 0⟩
    · have h2 := info_of i2 hv
      simp only [vinfo, Prod.mk.injEq] at h2
      exact h2.2.1
  · simp [exTemp, PowRiskF]

end Anything.FU.Ex
