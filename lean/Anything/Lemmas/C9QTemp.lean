import Anything.Lemmas.C9QUnits
import Anything.Props.C09
/-!
# C09 end to end — the temperature scales as they are written

* `Written s pe t`: the written factor `t` is the scale `s` (kelvin, `°C`, `°F`) in one of its
  table spellings behind an SI-prefix literal of exponent `pe` (or none), with power one;
* `written_facts`: such a word is resolved by the specification and read by the unit-word parser
  as exactly this prefix and this scale, is one lexer word and may be glued to a number — one
  kernel-evaluated check over the 41 prefix literals × 7 spellings;
* `evQ_convert`, `evQ_chain`: the reference evaluation of a conversion and of a chain of
  conversions, by `C09_convert`.
-/

namespace Anything.C9Q
open Anything Anything.Eval Anything.Spec Anything.Spec.Arith Anything.Spec.Decimal
open Anything.Spec.Quantity Anything.Spec.SI Anything.C06 Anything.QQ Anything.Props.C09

/-! ### Spellings -/

/-- The table spellings of the three scales (`Generated.unitsOnly`). -/
def spellings : TScale → List (List Char)
  | .K => [['K'], ['k', 'e', 'l', 'v', 'i', 'n'], ['k', 'e', 'l', 'v', 'i', 'n', 's']]
  | .C => [['°', 'C'], ['c', 'e', 'l', 's', 'i', 'u', 's']]
  | .F => [['°', 'F'], ['f', 'a', 'h', 'r', 'e', 'n', 'h', 'e', 'i', 't']]

/-- The SI-prefix literals of the word table (`Generated.combined`) with their exponents, and the
empty prefix. -/
def pfxLits : List (List Char × Int) :=
  ([], 0) :: Generated.combined.filterMap (fun r =>
    match r.2 with
    | .pfx p _ => some (r.1, p)
    | _ => none)

/-- The two kinds of prefixed spellings the tool does not read as "prefix, scale":
`μ…` (the micro sign is not a word character of the query lexer: such a word cannot be typed) and
`ccelsius` (the unit-word parser takes `cc`, the cubic centimetre, first and fails). -/
def excluded (p n : List Char) : Bool :=
  p == ['μ'] || (p == ['c'] && n == ['c', 'e', 'l', 's', 'i', 'u', 's'])

/-- The written factor `t` is the scale `s` in a table spelling, behind an SI-prefix literal of
exponent `pe` (or without prefix, `pe = 0`), with power one. -/
structure Written (s : TScale) (pe : Int) (t : RTerm) : Prop where
  pfx : (t.pfxLit, pe) ∈ pfxLits
  name : t.nameLit ∈ spellings s
  pow : t.power = 1
  typed : excluded t.pfxLit t.nameLit = false

/-- The executable check behind `written_facts`. -/
def writtenCheck (p : List Char × Int) (s : TScale) (n : List Char) : Bool :=
  excluded p.1 n ||
  ((resolve ⟨p.1, n, 1⟩).map (fun x => (x.pfx, x.key, x.power)) == some (p.2, key s, 1) &&
   UnitWord.parseWord (p.1 ++ n) == some [(p.2, key s)] &&
   wordLitCheck (p.1 ++ n) && glueCheck (p.1 ++ n))

theorem wc_K : (pfxLits.all fun p => writtenCheck p .K ['K']) = true := by decide +kernel
theorem wc_kelvin : (pfxLits.all fun p => writtenCheck p .K ['k', 'e', 'l', 'v', 'i', 'n']) = true := by
  decide +kernel
theorem wc_kelvins :
    (pfxLits.all fun p => writtenCheck p .K ['k', 'e', 'l', 'v', 'i', 'n', 's']) = true := by
  decide +kernel
theorem wc_C : (pfxLits.all fun p => writtenCheck p .C ['°', 'C']) = true := by decide +kernel
theorem wc_celsius :
    (pfxLits.all fun p => writtenCheck p .C ['c', 'e', 'l', 's', 'i', 'u', 's']) = true := by
  decide +kernel
theorem wc_F : (pfxLits.all fun p => writtenCheck p .F ['°', 'F']) = true := by decide +kernel
theorem wc_fahrenheit :
    (pfxLits.all fun p => writtenCheck p .F ['f', 'a', 'h', 'r', 'e', 'n', 'h', 'e', 'i', 't']) = true := by
  decide +kernel

/-- Every prefix literal in front of every spelling of every scale passes the check (one
kernel-evaluated table check per spelling). -/
theorem writtenCheck_all (s : TScale) (n : List Char) (hn : n ∈ spellings s) (p : List Char × Int)
    (hp : p ∈ pfxLits) : writtenCheck p s n = true := by
  cases s <;> simp only [spellings, List.mem_cons, List.not_mem_nil, or_false] at hn
  · rcases hn with rfl | rfl | rfl
    · exact List.all_eq_true.mp wc_K p hp
    · exact List.all_eq_true.mp wc_kelvin p hp
    · exact List.all_eq_true.mp wc_kelvins p hp
  · rcases hn with rfl | rfl
    · exact List.all_eq_true.mp wc_C p hp
    · exact List.all_eq_true.mp wc_celsius p hp
  · rcases hn with rfl | rfl
    · exact List.all_eq_true.mp wc_F p hp
    · exact List.all_eq_true.mp wc_fahrenheit p hp

theorem written_facts {s : TScale} {pe : Int} {t : RTerm} (h : Written s pe t) :
    resolve t = some ⟨pe, key s, 1⟩ ∧ UnitWord.parseWord (word t) = some [(pe, key s)] ∧
      WordLit (word t) ∧ GlueOK (word t) := by
  obtain ⟨p, n, k⟩ := t
  obtain ⟨h1, h2, h3, h4⟩ := h
  simp only at h1 h2 h3 h4
  subst h3
  have h7 := writtenCheck_all s n h2 (p, pe) h1
  simp only [writtenCheck, h4, Bool.false_or, Bool.and_eq_true, beq_iff_eq] at h7
  exact ⟨resolve_of_fields _ _ _ h7.1.1.1, h7.1.1.2, wordLit_of_check h7.1.2, glueOK_of_check h7.2⟩

theorem written_rs {s : TScale} {pe : Int} {t : RTerm} (h : Written s pe t) :
    rs t = ⟨pe, key s, 1⟩ := rs_of_resolve (written_facts h).1

theorem written_wordOK {s : TScale} {pe : Int} {t : RTerm} (h : Written s pe t) : WordOK t :=
  ⟨⟨_, (written_facts h).1, (written_facts h).2.1⟩, by rw [h.pow]; decide⟩

/-- The written scale, alone, stands for the compound `cmp s pe` of `Props/C09`. -/
theorem unitOf_written {s : TScale} {pe : Int} {t : RTerm} (h : Written s pe t) :
    unitOf [t] = some (cmp s pe) := by
  have hp : t.power = 1 := h.pow
  have hn : nums [t] = [t] := by simp [nums, hp]
  have hd : dens [t] = [] := by simp [dens, hp]
  simp only [unitOf, allUpds, numUpds, denUpds, hn, hd, List.flatMap_cons, List.flatMap_nil,
    List.append_nil, termUpds, hp, ↓reduceIte, runUpds, written_rs h, Compound.update, AMap.get?]
  rfl

theorem unitRuns_written {s : TScale} {pe : Int} {t : RTerm} (h : Written s pe t) :
    UnitRuns [t] :=
  ⟨fun x hx => by rw [List.mem_singleton.mp hx]; exact written_wordOK h, _, unitOf_written h⟩

theorem renderUnit_written {s : TScale} {pe : Int} {t : RTerm} (h : Written s pe t) :
    renderUnit [t] = word t := by
  have hp : t.power = 1 := h.pow
  simp [renderUnit, hp, joinStar, renderTerm]

theorem unitLexOK_written {s : TScale} {pe : Int} {t : RTerm} (h : Written s pe t) :
    UnitLexOK [t] := by
  intro x hx _
  rw [List.mem_singleton.mp hx]
  exact (written_facts h).2.2.1

theorem glueOK_written {s : TScale} {pe : Int} {t : RTerm} (h : Written s pe t) :
    GlueOK (renderUnit [t]) := by
  rw [renderUnit_written h]; exact (written_facts h).2.2.2

/-! ### One conversion -/

/-- `x <p><s> to <q><t>`. -/
abbrev convE (l : Literal) (t₁ t₂ : RTerm) : QExpr := .cast (.qty l [t₁]) [t₂]

theorem castQ_cmp (t : TScale) (q : Int) (s : TScale) (p : Int) (x : Rat) :
    castQ (cmp t q) { value := x, unit := cmp s p } =
      some { value := fromK t (toK s (x * (10 : Rat) ^ p)) / (10 : Rat) ^ q, unit := cmp t q } := by
  have := C09_convert t q s p x
  unfold convert at this
  simp only [castQ, this]

theorem evQ_qty_written (cfg : Cfg) (l : Literal) {s : TScale} {p : Int} {t₁ : RTerm}
    (h₁ : Written s p t₁) : evQ cfg (.qty l [t₁]) = some { value := value l, unit := cmp s p } := by
  simp [evQ, unitOf_written h₁]

/-- The reference evaluation of one conversion: `C09_convert`. -/
theorem evQ_convert (cfg : Cfg) (l : Literal) {s t : TScale} {p q : Int} {t₁ t₂ : RTerm}
    (h₁ : Written s p t₁) (h₂ : Written t q t₂) :
    evQ cfg (convE l t₁ t₂) =
      some { value := fromK t (toK s (value l * (10 : Rat) ^ p)) / (10 : Rat) ^ q,
             unit := cmp t q } := by
  simp only [evQ, unitOf_written h₁, unitOf_written h₂, Option.map_some, castQ_cmp]

theorem wfq_convE (l : Literal) (t₁ t₂ : RTerm) (hl : l.WF) : WFQ (convE l t₁ t₂) := hl

theorem inScope_convE {l : Literal} {s t : TScale} {p q : Int} {t₁ t₂ : RTerm} (hl : LitOKQ l)
    (h₁ : Written s p t₁) (h₂ : Written t q t₂) : InScope (convE l t₁ t₂) :=
  ⟨⟨hl, unitRuns_written h₁⟩, unitRuns_written h₂⟩

/-- The admissible layouts of a conversion, spelled out: five blanks (before the number, between
number and unit, before `to`, after `to`, at the end) of white space only, those around `to` not
empty. -/
theorem layout_convE {l : Literal} {s t : TScale} {p q : Int} {t₁ t₂ : RTerm} (hl : l.WF)
    (h₁ : Written s p t₁) (h₂ : Written t q t₂) (b0 b1 b2 b3 b4 : List Char) :
    QueryLayoutOKQ (convE l t₁ t₂) [b0, b1, b2, b3, b4] ↔
      Blank b0 ∧ Blank b1 ∧ Blank b2 ∧ Blank b3 ∧ Blank b4 ∧ b2 ≠ [] ∧ b3 ≠ [] := by
  have g1 := glueOK_written h₁
  have u1 := unitLexOK_written h₁
  have u2 := unitLexOK_written h₂
  simp only [QueryLayoutOKQ, LayoutOKQ, convE, afterQ, render_cast, render_qty, blank1, rest1,
    nextBlank, endsUnit, forall_const, ne_eq]
  constructor
  · rintro ⟨a0, ⟨⟨_, _, a1, _⟩, _, a2, a3, n3, n2⟩, a4⟩
    exact ⟨a0, a1, a2, a3, a4, n2, n3⟩
  · rintro ⟨a0, a1, a2, a3, a4, n2, n3⟩
    exact ⟨a0, ⟨⟨hl, u1, a1, fun _ => g1⟩, u2, a2, a3, n3, n2⟩, a4⟩

/-! ### Chains of conversions -/

/-- `e` is a chain of conversions of the literal `l` written on the scale `s₀` (prefix exponent
`p₀`): `l t₀ to t₁ to … to tₙ` with every `tᵢ` a written scale and parentheses around any initial
part — `((x s₀ to s₁) to s₂) to s₃`, `x s₀ to s₁ to s₂`, … — ending on the scale `s` with prefix
exponent `p`. -/
inductive TChain (l : Literal) (s₀ : TScale) (p₀ : Int) : QExpr → TScale → Int → Prop
  | start {t₀ : RTerm} : Written s₀ p₀ t₀ → TChain l s₀ p₀ (.qty l [t₀]) s₀ p₀
  | conv {e : QExpr} {s : TScale} {p : Int} {t' : RTerm} {s' : TScale} {p' : Int} :
      TChain l s₀ p₀ e s p → Written s' p' t' → TChain l s₀ p₀ (.cast e [t']) s' p'
  | paren {e : QExpr} {s : TScale} {p : Int} : TChain l s₀ p₀ e s p → TChain l s₀ p₀ (.paren e) s p

theorem wfq_chain {l : Literal} {s₀ : TScale} {p₀ : Int} {e : QExpr} {s : TScale} {p : Int}
    (h : TChain l s₀ p₀ e s p) (hl : l.WF) : WFQ e := by
  induction h with
  | start _ => exact hl
  | conv _ _ ih => exact ih
  | paren _ ih => exact ih

theorem inScope_chain {l : Literal} {s₀ : TScale} {p₀ : Int} {e : QExpr} {s : TScale} {p : Int}
    (h : TChain l s₀ p₀ e s p) (hl : LitOKQ l) : InScope e := by
  induction h with
  | start h₀ => exact ⟨hl, unitRuns_written h₀⟩
  | conv _ h' ih => exact ⟨ih, unitRuns_written h'⟩
  | paren _ ih => exact ih

theorem unitsLexOK_chain {l : Literal} {s₀ : TScale} {p₀ : Int} {e : QExpr} {s : TScale} {p : Int}
    (h : TChain l s₀ p₀ e s p) : UnitsLexOK e := by
  induction h with
  | start h₀ => exact unitLexOK_written h₀
  | conv _ h' ih => exact ⟨ih, unitLexOK_written h'⟩
  | paren _ ih => exact ih

/-- The reference evaluation of a chain ends where the direct conversion does. -/
theorem evQ_chain (cfg : Cfg) {l : Literal} {s₀ : TScale} {p₀ : Int} {e : QExpr} {s : TScale}
    {p : Int} (h : TChain l s₀ p₀ e s p) :
    evQ cfg e = some { value := fromK s (toK s₀ (value l * (10 : Rat) ^ p₀)) / (10 : Rat) ^ p,
                       unit := cmp s p } := by
  induction h with
  | start h₀ =>
    rw [evQ_qty_written cfg l h₀, fromK_toK]
    have h2 : (10 : Rat) ^ p₀ ≠ 0 := zpow_ne_zero _ (by norm_num)
    rw [mul_div_cancel_right₀ _ h2]
  | @conv e s p t' s' p' _ h' ih =>
    simp only [evQ, unitOf_written h', ih, castQ_cmp]
    have h1 : (10 : Rat) ^ p ≠ 0 := zpow_ne_zero _ (by norm_num)
    rw [div_mul_cancel₀ _ h1, toK_fromK]
  | paren _ ih => simpa [evQ] using ih

end Anything.C9Q
