import Anything.Model.Eval
import Anything.Spec.Arith
/-!
# C06 — definitions shared by the helper files and `Props/C06`

`Represents t e`: the syntax tree `t` is one of the shapes the grammar builds for the
expression `e`, described only through what the evaluator looks at (node kinds, the children
that have children of their own, the source text of number nodes).
-/

namespace Anything.C06
open Anything Anything.Eval Anything.Spec Anything.Spec.Arith Anything.Spec.Decimal

/-- Node kind of the operator node the grammar builds for a binary operator. -/
def opKind : BinOp → Syntax
  | .add => .OP_ADD | .sub => .OP_SUB | .mul => .OP_MUL | .div => .OP_DIV | .pow => .OP_POWER

/-- The children the evaluator iterates over (`Children::next_node`, `has_children`). -/
def opKids (ks : List Tree) : List Tree := ks.filter Tree.hasChildren

/-- `FoldR R acc [o₁, x₁, …, oₙ, xₙ] e`: the operator nodes `oᵢ` and operand trees `xᵢ`
(related to expressions by `R`) extend `acc` to the LEFT-nested expression
`e = (((acc o₁ e₁) o₂ e₂) … oₙ eₙ)`. -/
inductive FoldR (R : Tree → NExpr → Prop) : NExpr → List Tree → NExpr → Prop
  | nil (acc : NExpr) : FoldR R acc [] acc
  | cons {acc : NExpr} {o x : Tree} {op : BinOp} {b e : NExpr} {rest : List Tree} :
      o.kind = opKind op → R x b → FoldR R (.bin op acc b) rest e →
      FoldR R acc (o :: x :: rest) e

/-- Argument trees against argument expressions, one to one. -/
inductive ArgsR (R : Tree → NExpr → Prop) : List Tree → List NExpr → Prop
  | nil : ArgsR R [] []
  | cons {x : Tree} {e : NExpr} {xs : List Tree} {es : List NExpr} :
      R x e → ArgsR R xs es → ArgsR R (x :: xs) (e :: es)

/-- The tree `t` represents the expression `e`.

* `num`: a NUMBER node (with a child) whose source text is the literal;
* `pct`: a PERCENTAGE node whose first child is the NUMBER token of the literal;
* `paren`: an OPERATION node with exactly one child that has children — the shape of `( e )`;
* `chain`: an OPERATION node whose children with children are `x₀ o₁ x₁ … oₙ xₙ` (`n ≥ 1`)
  represents the left-nested `((e₀ o₁ e₁) o₂ e₂) …`;
* `call0` / `call`: an FN_CALL node whose children with children are the FN_NAME node and — unless
  the argument list is empty, in which case the FN_ARGUMENTS node has no children — the
  FN_ARGUMENTS node, whose children with children represent the arguments. -/
inductive Represents : Tree → NExpr → Prop
  | num {t : Tree} {l : Literal} : t.kind = .NUMBER → t.hasChildren = true → l.percent = false →
      t.text = renderNumber l → Represents t (.lit l)
  | pct {id : Nat} {n : Tree} {ks : List Tree} {l : Literal} : n.kind = .NUMBER →
      n.text = renderNumber l → l.percent = true →
      Represents (.node id .PERCENTAGE (n :: ks)) (.lit l)
  | paren {id : Nat} {ks : List Tree} {x : Tree} {e : NExpr} : opKids ks = [x] →
      Represents x e → Represents (.node id .OPERATION ks) (.paren e)
  | chain {id : Nat} {ks : List Tree} {x₀ : Tree} {rest : List Tree} {e₀ e : NExpr} :
      opKids ks = x₀ :: rest → rest ≠ [] → Represents x₀ e₀ →
      FoldR Represents e₀ rest e → Represents (.node id .OPERATION ks) e
  | call0 {id : Nat} {ks : List Tree} {nm : Tree} {f : Fn} : opKids ks = [nm] →
      Represents (.node id .FN_CALL ks) (.call f [])
  | call {id aid : Nat} {ks aks : List Tree} {nm : Tree} {f : Fn} {x : Tree} {xs : List Tree}
      {args : List NExpr} {more : List Tree} :
      opKids ks = nm :: .node aid .FN_ARGUMENTS aks :: more → nm.kind = .FN_NAME →
      nm.text = f.name → opKids aks = x :: xs → ArgsR Represents (x :: xs) args →
      Represents (.node id .FN_CALL ks) (.call f args)

set_option inductive.autoPromoteIndices false in
/-- `FoldR` with all operators of ONE priority `p` (an index, so that the relation can be nested
in `RepresentsL`). -/
inductive FoldRL (R : Tree → NExpr → Prop) : Nat → NExpr → List Tree → NExpr → Prop
  | nil (p : Nat) (acc : NExpr) : FoldRL R p acc [] acc
  | cons {p : Nat} {acc : NExpr} {o x : Tree} {op : BinOp} {b e : NExpr} {rest : List Tree} :
      o.kind = opKind op → op.prio = p → R x b → FoldRL R p (.bin op acc b) rest e →
      FoldRL R p acc (o :: x :: rest) e

/-- The tree `t` represents `e` *and* is levelled the way the grammar builds it: the operators of
every OPERATION node — at any depth — are of one precedence level. Same rules as `Represents`,
with `FoldRL` in the `chain` rule. -/
inductive RepresentsL : Tree → NExpr → Prop
  | num {t : Tree} {l : Literal} : t.kind = .NUMBER → t.hasChildren = true → l.percent = false →
      t.text = renderNumber l → RepresentsL t (.lit l)
  | pct {id : Nat} {n : Tree} {ks : List Tree} {l : Literal} : n.kind = .NUMBER →
      n.text = renderNumber l → l.percent = true →
      RepresentsL (.node id .PERCENTAGE (n :: ks)) (.lit l)
  | paren {id : Nat} {ks : List Tree} {x : Tree} {e : NExpr} : opKids ks = [x] →
      RepresentsL x e → RepresentsL (.node id .OPERATION ks) (.paren e)
  | chain {id : Nat} {ks : List Tree} {x₀ : Tree} {rest : List Tree} {e₀ e : NExpr} {p : Nat} :
      opKids ks = x₀ :: rest → rest ≠ [] → RepresentsL x₀ e₀ →
      FoldRL RepresentsL p e₀ rest e → RepresentsL (.node id .OPERATION ks) e
  | call0 {id : Nat} {ks : List Tree} {nm : Tree} {f : Fn} : opKids ks = [nm] →
      RepresentsL (.node id .FN_CALL ks) (.call f [])
  | call {id aid : Nat} {ks aks : List Tree} {nm : Tree} {f : Fn} {x : Tree} {xs : List Tree}
      {args : List NExpr} {more : List Tree} :
      opKids ks = nm :: .node aid .FN_ARGUMENTS aks :: more → nm.kind = .FN_NAME →
      nm.text = f.name → opKids aks = x :: xs → ArgsR RepresentsL (x :: xs) args →
      RepresentsL (.node id .FN_CALL ks) (.call f args)

/-- A plain number. -/
def plain (x : Rat) : Numeric := { value := x, unit := [] }

/-- How a result of the evaluator matches a result of the specification: the same value as a
plain number, or an error (of the `err kind span` form — never a panic of the model) for an
error; the description log is untouched either way. -/
def Outcome (r : Except ArithErr Rat) (d : List Desc)
    (res : Except EvalErr Numeric × List Desc) : Prop :=
  match r with
  | .ok v => res = (.ok (plain v), d)
  | .error _ => ∃ k s e, res = (.error (.err k s e), d)

/-- The `u32` guards of the number reader (see `C07_fromStr`). -/
def LitOK (l : Literal) : Prop :=
  l.WF ∧ (fracDigits l).length ≤ Number.u32Max ∧ ∀ e, l.exp = some e → e.val ≤ Number.u32Max

mutual
/-- Every literal of the expression is well formed and within the reader's `u32` guards. -/
def LitsOK : NExpr → Prop
  | .lit l => LitOK l
  | .bin _ a b => LitsOK a ∧ LitsOK b
  | .paren e => LitsOK e
  | .call _ args => LitsOKList args
def LitsOKList : List NExpr → Prop
  | [] => True
  | e :: es => LitsOK e ∧ LitsOKList es
end

mutual
/-- The second argument of every two-argument `round` is, when it has a value, an integer in
the `i32` range (the code truncates it with `to_i32`; outside this the specification and the
code differ, see the report in `Props/C06`). -/
def RoundOK : NExpr → Prop
  | .lit _ => True
  | .bin _ a b => RoundOK a ∧ RoundOK b
  | .paren e => RoundOK e
  | .call f args => RoundOKList args ∧
      (f = .round → ∀ a b, args = [a, b] → ∀ n, denote b = .ok n →
        isInt n = true ∧ -2147483648 ≤ n.num ∧ n.num ≤ 2147483647)
def RoundOKList : List NExpr → Prop
  | [] => True
  | e :: es => RoundOK e ∧ RoundOKList es
end

end Anything.C06
