import Anything.Lemmas.UQDefs
import Anything.Lemmas.QQQuery
/-!
# The unified expression language — the evaluator on trees that represent an expression (values)

`Lemmas/QQEval.lean` over `RepU`, with looked-up constants as leaves. The induction is carried out
for configurations WITHOUT `describe` (the log is then untouched, `EvalSim.Built.noLog`), and
transferred to every configuration by `EvalSim.Built.sameVal`: the value never depends on
`describe` nor on the log. The log is the subject of `Lemmas/UQLog.lean`.
-/

namespace Anything.UQ
open Anything Anything.Eval Anything.Spec Anything.Spec.Arith Anything.Spec.Decimal
open Anything.Spec.Quantity Anything.Spec.SI Anything.C06 Anything.Props.C04 Anything.QQ

/-- An error of kind `k` is an acceptable answer for `e`: the specification has no value, or
`e` raises a quantity to a power and the error is `badArgument`. -/
def BadOKU (e : QExpr) (k : ErrKind) : Prop :=
  (∃ x, denote false e = .error x) ∨ (PowRiskU e ∧ k = .badArgument)

theorem outcomeU_iff (e : QExpr) (d : List Desc) (res : Except EvalErr Numeric × List Desc) :
    OutcomeU e d res ↔
      (∃ v r, denote false e = .ok v ∧ res = (.ok r, d) ∧ Agree r v ∧ PowBoundedU r e) ∨
      (∃ k s t, res = (.error (.err k s t), d) ∧ BadOKU e k) := by
  obtain ⟨r0, d0⟩ := res
  unfold OutcomeU OutcomeV BadOKU
  cases hd : denote false e with
  | ok v =>
    constructor
    · rintro ⟨⟨r, hr, ha⟩ | ⟨hp, s, t, hr⟩, hlog⟩
      · simp only at hr hlog; subst hr hlog; exact Or.inl ⟨v, r, rfl, rfl, ha⟩
      · simp only at hr hlog; subst hr hlog; exact Or.inr ⟨_, s, t, rfl, Or.inr ⟨hp, rfl⟩⟩
    · rintro (⟨v', r, hv, hr, ha⟩ | ⟨k, s, t, hr, hb⟩)
      · cases hv; cases hr; exact ⟨Or.inl ⟨r, rfl, ha⟩, rfl⟩
      · cases hr
        rcases hb with ⟨x, hx⟩ | ⟨hp, rfl⟩
        · cases hx
        · exact ⟨Or.inr ⟨hp, s, t, rfl⟩, rfl⟩
  | error x =>
    constructor
    · rintro ⟨⟨k, s, t, hr⟩, hlog⟩
      simp only at hr hlog; subst hr hlog
      exact Or.inr ⟨k, s, t, rfl, Or.inl ⟨x, rfl⟩⟩
    · rintro (⟨v', r, hv, _, _, _⟩ | ⟨k, s, t, hr, _⟩)
      · cases hv
      · cases hr; exact ⟨⟨k, s, t, rfl⟩, rfl⟩

theorem badOKU_binL {op : BinOp} {a b : QExpr} {k : ErrKind} (h : BadOKU a k) : BadOKU (.bin op a b) k := by
  rcases h with ⟨x, hx⟩ | ⟨hp, hk⟩
  · left; rw [denote_bin, hx]; exact ⟨_, rfl⟩
  · right; exact ⟨Or.inl hp, hk⟩

theorem badOKU_binR {op : BinOp} {a b : QExpr} {k : ErrKind} (h : BadOKU b k) : BadOKU (.bin op a b) k := by
  rcases h with ⟨x, hx⟩ | ⟨hp, hk⟩
  · left; rw [denote_bin, hx]
    cases denote false a <;> exact ⟨_, rfl⟩
  · right; exact ⟨Or.inr (Or.inl hp), hk⟩

theorem badOKU_cast {a : QExpr} {u : List RTerm} {k : ErrKind} (h : BadOKU a k) : BadOKU (.cast a u) k := by
  rcases h with ⟨x, hx⟩ | ⟨hp, hk⟩
  · left; rw [denote_cast, hx]; exact ⟨_, rfl⟩
  · right; exact ⟨hp, hk⟩

theorem badOKU_fold {R : Tree → QExpr → Prop} {acc e : QExpr} {ts : List Tree} {k : ErrKind}
    (h : FoldRQL R p acc ts e) : BadOKU acc k → BadOKU e k := by
  induction h with
  | nil p acc => exact id
  | cons _ _ _ _ ih => exact fun hb => ih (badOKU_binL hb)
  | cast _ _ _ _ ih => exact fun hb => ih (badOKU_cast hb)

theorem unitsOKU_fold {R : Tree → QExpr → Prop} {acc e : QExpr} {ts : List Tree}
    (h : FoldRQL R p acc ts e) : UnitsOKU cfg e → UnitsOKU cfg acc := by
  induction h with
  | nil p acc => exact id
  | cons _ _ _ _ ih => exact fun he => (ih he).1
  | cast _ _ _ _ ih => exact fun he => (ih he).1

theorem determinateU_fold {R : Tree → QExpr → Prop} {acc e : QExpr} {ts : List Tree}
    (h : FoldRQL R p acc ts e) : Determinate e → Determinate acc := by
  induction h with
  | nil p acc => exact id
  | cons _ _ _ _ ih => exact fun he => (ih he).1
  | cast _ _ _ _ ih => exact fun he => (ih he).1

/-! ### Bounds on the unit powers -/

theorem powBoundedU_nil (v : Rat) (e : QExpr) : PowBoundedU { value := v, unit := [] } e :=
  fun _ _ _ h => (nomatch h)

/-- The result of a binary step respects the bound of the compound expression. -/
theorem bin_boundU {cfg : Cfg} {op : BinOp} {s e : Nat} {ra rb r : Numeric} {a : QExpr} {l : Literal}
    {b : QExpr} {d d' : List Desc} (h : binEval cfg op s e ra rb d = (.ok r, d'))
    (ha : PowBoundedU ra a) (hb : PowBoundedU rb b) (hpow : op = .pow → b = .num l ∧ rb.value = value l) :
    PowBoundedU r (.bin op a b) := by
  intro B hB en hen
  cases op with
  | add =>
    simp only [powBoundU] at hB
    cases hpa : powBoundU a with
    | none => rw [hpa] at hB; simp at hB
    | some x =>
      cases hpb : powBoundU b with
      | none => rw [hpa, hpb] at hB; simp at hB
      | some y =>
        rw [hpa, hpb] at hB
        simp only [Option.some.injEq] at hB
        rcases add_unit h with hu | hu <;> rw [hu] at hen
        · have := ha x hpa en hen; omega
        · have := hb y hpb en hen; omega
  | sub =>
    simp only [powBoundU] at hB
    cases hpa : powBoundU a with
    | none => rw [hpa] at hB; simp at hB
    | some x =>
      cases hpb : powBoundU b with
      | none => rw [hpa, hpb] at hB; simp at hB
      | some y =>
        rw [hpa, hpb] at hB
        simp only [Option.some.injEq] at hB
        rcases add_unit h with hu | hu <;> rw [hu] at hen
        · have := ha x hpa en hen; omega
        · have := hb y hpb en hen; omega
  | mul => simp [powBoundU] at hB
  | div => simp [powBoundU] at hB
  | pow =>
    obtain ⟨rfl, hv⟩ := hpow rfl
    simp only [powBoundU, Option.map_eq_some_iff] at hB
    obtain ⟨x, hpa, rfl⟩ := hB
    have hu := pow_ok_unit (show Eval.pow s e ra rb d = (.ok r, d') from h)
    rw [hu] at hen
    split at hen
    · have := ha x hpa en hen
      exact Nat.le_trans this (by
        rename_i hemp
        have : ra.unit = [] := by simpa using hemp
        rw [this] at hen; cases hen)
    · rw [hv] at hen
      exact checkedPow_bound _ (ha x hpa) en hen

/-! ### One step of the operator loop -/

theorem step_binU (cfg : Cfg) (F : Nat) (node : At) (base : Delayed) (oa xa : At) (rest : List At)
    (op : BinOp) (acc b : QExpr) (d : List Desc) (ho : oa.t.kind = opKind op)
    (hx : OutcomeU b d (eval cfg F xa d)) (hbase : OutcomeU acc d (force cfg F base d))
    (hadd : (op = .add ∨ op = .sub) → ∀ x y, denote false acc = .ok x → denote false b = .ok y →
      AddOK x y)
    (hpow : op = .pow → ∃ l, b = .num l) :
    (∃ v r, denote false (.bin op acc b) = .ok v ∧ Agree r v ∧ PowBoundedU r (.bin op acc b) ∧
      opFold cfg (F + 1) node base (oa :: xa :: rest) d = opFold cfg F node (.num r) rest d) ∨
    (∃ k s t, opFold cfg (F + 1) node base (oa :: xa :: rest) d = (.error (.err k s t), d) ∧
      BadOKU (.bin op acc b) k) := by
  rw [opFold_step cfg F node base oa xa rest op ho]
  simp only [bind_apply]
  rcases (outcomeU_iff _ _ _).mp hx with ⟨y, rb, hy, hrb, hab, hbb⟩ | ⟨k, s, t, hr, hbad⟩
  · rw [hrb]
    simp only
    rcases (outcomeU_iff _ _ _).mp hbase with ⟨x, ra, hxv, hra, haa, hba⟩ | ⟨k, s, t, hr, hbad⟩
    · rw [hra]
      simp only
      have hlit : op = .pow → ∃ l, b = .num l ∧ rb.value = value l ∧ y.plain = true := by
        intro h
        obtain ⟨l, rfl⟩ := hpow h
        rw [denote_num] at hy
        cases hy
        have := (hab.plain_eq rfl).1
        exact ⟨l, rfl, by rw [this], rfl⟩
      have hstep := bin_step cfg op node.off node.stop ra rb x y d haa hab
        (fun h => hadd h x y hxv hy)
        (fun h => by obtain ⟨l, _, _, hp⟩ := hlit h; exact hp)
      have hden : denote false (.bin op acc b) = binVal op x y := by rw [denote_bin, hxv, hy]
      cases hv : binVal op x y with
      | ok v =>
        rw [hv] at hstep
        rcases hstep with ⟨r, hr, har⟩ | ⟨hop, hxp, hov, hr⟩
        · left
          refine ⟨v, r, hden.trans hv, har, ?_, by rw [hr]⟩
          by_cases hop : op = .pow
          · obtain ⟨l, hbl, hvl, _⟩ := hlit hop
            exact bin_boundU (l := l) hr hba hbb (fun _ => ⟨hbl, hvl⟩)
          · exact bin_boundU (l := ⟨none, [], none, none, false⟩) hr hba hbb (fun h => absurd h hop)
        · right
          refine ⟨_, _, _, by rw [hr], Or.inr ⟨Or.inr (Or.inr ⟨hop, ⟨x, hxv, hxp⟩, ?_⟩), rfl⟩⟩
          rintro ⟨B, l, hpB, hbl, hn1, hn2⟩
          obtain ⟨l', hbl', hvl, _⟩ := hlit hop
          rw [hbl] at hbl'
          cases hbl'
          rw [hvl] at hov
          have hfit := powFits_of_bound (hba B hpB) hn2
          rcases hov with h | h | h
          · omega
          · omega
          · rw [hfit] at h; cases h
      | error err =>
        rw [hv] at hstep
        obtain ⟨k, hk⟩ := hstep
        right
        exact ⟨k, _, _, by rw [hk], Or.inl ⟨err, hden.trans hv⟩⟩
    · rw [hr]; right; exact ⟨k, s, t, rfl, badOKU_binL hbad⟩
  · rw [hr]; right; exact ⟨k, s, t, rfl, badOKU_binR hbad⟩

theorem step_castU (cfg : Cfg) (hU : UnitFacts) (F : Nat) (node : At) (base : Delayed) (oa xa : At)
    (rest : List At) (acc : QExpr) (u : List RTerm) (d : List Desc) (ho : oa.t.kind = .OP_CAST)
    (hx : RepUnit xa.t u) (hu : UnitOK u) (hbase : OutcomeU acc d (force cfg F base d))
    (hok : ∀ v sem, denote false acc = .ok v → resolveAll u = some sem → CastOK v sem) :
    (∃ v r, denote false (.cast acc u) = .ok v ∧ Agree r v ∧ PowBoundedU r (.cast acc u) ∧
      opFold cfg (F + 1) node base (oa :: xa :: rest) d = opFold cfg F node (.num r) rest d) ∨
    (∃ k s t, opFold cfg (F + 1) node base (oa :: xa :: rest) d = (.error (.err k s t), d) ∧
      BadOKU (.cast acc u) k) := by
  obtain ⟨sem, hsem, hps⟩ := hU.res u hu
  obtain ⟨T, hT, hTs, pT, kT, bT⟩ := hU.fwd xa.t u sem xa.off d hx hu hsem
  rw [at_eta] at hT
  rcases (outcomeU_iff _ _ _).mp hbase with ⟨x, ra, hxv, hra, haa, _⟩ | ⟨k, s, t, hr, hbad⟩
  · rw [Props.C02.opFold_cast cfg F node oa xa rest base d d d T ra ho hT hra]
    have hstep := cast_step T ra x sem hTs pT kT hps haa (hok x sem hxv hsem)
    have hden : denote false (.cast acc u) = castVal x sem := by rw [denote_cast, hxv, hsem]
    cases hv : castVal x sem with
    | ok v =>
      rw [hv] at hstep
      obtain ⟨w, hw, haw⟩ := hstep
      left
      refine ⟨v, _, hden.trans hv, haw, ?_, by rw [hw]⟩
      intro B hB en hen
      simp only [powBoundU, hsem, Option.map_some, Option.some.injEq] at hB
      rw [← hB]
      exact bT en hen
    | error err =>
      rw [hv] at hstep
      right
      exact ⟨_, _, _, by rw [hstep], Or.inl ⟨err, hden.trans hv⟩⟩
  · right
    refine ⟨k, s, t, ?_, badOKU_cast hbad⟩
    rw [opFold]
    simp only [ho, bind, hT, hr]

/-! ### The operator loop and the evaluator -/

/-- The statement proved by induction on the fuel. -/
def EvalOKU (cfg : Cfg) (f : Nat) : Prop :=
  ∀ (t : Tree) (e : QExpr) (off : Nat) (d : List Desc), 2 * size t ≤ f → RepU t e →
    UnitsOKU cfg e → Determinate e → OutcomeU e d (eval cfg f ⟨off, t⟩ d)

/-- Outcome of the operator loop: a forced result that agrees, or an acceptable error. -/
def FoldOutU (e : QExpr) (d : List Desc) (res : Except EvalErr Delayed × List Desc) : Prop :=
  (∃ v r, denote false e = .ok v ∧ res = (.ok (.num r), d) ∧ Agree r v ∧ PowBoundedU r e) ∨
  (∃ k s t, res = (.error (.err k s t), d) ∧ BadOKU e k)

theorem outcome_numU (cfg : Cfg) (F : Nat) {acc : QExpr} {v : Val} {r : Numeric} (d : List Desc)
    (hv : denote false acc = .ok v) (ha : Agree r v) (hb : PowBoundedU r acc) :
    OutcomeU acc d (force cfg F (.num r) d) := by
  rw [force_num]
  exact (outcomeU_iff _ _ _).mpr (Or.inl ⟨v, r, hv, rfl, ha, hb⟩)

theorem fold_numU (cfg : Cfg) (hU : UnitFacts) (N : Nat) (ih : ∀ f, f ≤ N → EvalOKU cfg f)
    {acc e : QExpr} {ts : List Tree} (h : FoldRQL RepU p acc ts e) :
    ∀ (rest : List At) (F : Nat) (v : Val) (r : Numeric) (node : At) (d : List Desc),
      rest.map (·.t) = ts → F ≤ N + 1 → denote false acc = .ok v → Agree r v → PowBoundedU r acc →
      2 * sizeList ts ≤ F → UnitsOKU cfg e → Determinate e →
      FoldOutU e d (opFold cfg F node (.num r) rest d) := by
  induction h with
  | nil p acc =>
    intro rest F v r node d hr _ hv ha hb _ _ _
    have : rest = [] := by simpa using hr
    subst this
    left
    refine ⟨v, r, hv, ?_, ha, hb⟩
    cases F <;> simp [opFold, pure]
  | @cons p acc o x op b e ts' ho hop hx htail ihf =>
    intro rest F v r node d hr hF hv ha hbd hsz hu hdet
    match rest, hr with
    | oa :: xa :: rest', hr =>
      simp only [List.map_cons, List.cons.injEq] at hr
      obtain ⟨h1, h2, h3⟩ := hr
      simp only [sizeList] at hsz
      have hxs := C06.size_pos x
      have hos := C06.size_pos o
      obtain ⟨F', rfl⟩ : ∃ F', F = F' + 1 := ⟨F - 1, by omega⟩
      have hub := unitsOKU_fold htail hu
      have hdb := determinateU_fold htail hdet
      simp only [UnitsOKU] at hub
      simp only [Determinate] at hdb
      have hxo := ih F' (by omega) x b xa.off d (by omega) hx hub.2.1 hdb.2.1
      rw [← h2, at_eta] at hxo
      rcases step_binU cfg F' node (.num r) oa xa rest' op acc b d (h1 ▸ ho) hxo
        (outcome_numU cfg F' d hv ha hbd) hdb.2.2 hub.2.2 with
        ⟨v', r', hv', ha', hb', heq⟩ | ⟨k, s, t, heq, hbad⟩
      · rw [heq]
        exact ihf rest' F' v' r' node d h3 (by omega) hv' ha' hb' (by omega) hu hdet
      · right
        exact ⟨k, s, t, heq, badOKU_fold htail hbad⟩
  | @cast p acc o x u e ts' ho hp1 hx htail ihf =>
    intro rest F v r node d hr hF hv ha hbd hsz hu hdet
    match rest, hr with
    | oa :: xa :: rest', hr =>
      simp only [List.map_cons, List.cons.injEq] at hr
      obtain ⟨h1, h2, h3⟩ := hr
      simp only [sizeList] at hsz
      have hxs := C06.size_pos x
      have hos := C06.size_pos o
      obtain ⟨F', rfl⟩ : ∃ F', F = F' + 1 := ⟨F - 1, by omega⟩
      have hub := unitsOKU_fold htail hu
      have hdb := determinateU_fold htail hdet
      simp only [UnitsOKU] at hub
      simp only [Determinate] at hdb
      rcases step_castU cfg hU F' node (.num r) oa xa rest' acc u d (h1 ▸ ho) (h2 ▸ hx) hub.2
        (outcome_numU cfg F' d hv ha hbd) hdb.2 with
        ⟨v', r', hv', ha', hb', heq⟩ | ⟨k, s, t, heq, hbad⟩
      · rw [heq]
        exact ihf rest' F' v' r' node d h3 (by omega) hv' ha' hb' (by omega) hu hdet
      · right
        exact ⟨k, s, t, heq, badOKU_fold htail hbad⟩

theorem denote_fact (p : List Char) (v : Rat) (u : List (UnitKey × Int × Int)) :
    denote false (.fact p v u) = .ok { q := siOfResult v u, plain := u.isEmpty, unit := none } := by
  rw [Quantity.denote]

theorem siOfResult_resultUnit (v : Rat) (c : Compound) :
    siOfResult v (resultUnit c) = siQ { value := v, unit := c } := by
  simp [siOfResult, resultUnit, siQ, semOf, List.map_map, Function.comp_def]

theorem natAbs_le_sum {α : Type} (f : α → Nat) : ∀ (l : List α) (x : α), x ∈ l → f x ≤ (l.map f).sum
  | [], _, h => nomatch h
  | a :: l, x, h => by
    rcases List.mem_cons.mp h with rfl | h
    · simp
    · have := natAbs_le_sum f l x h
      simp only [List.map_cons, List.sum_cons]
      omega

theorem evalOKU_all (cfg : Cfg) (hdesc : cfg.describe = false) (hU : UnitFacts) :
    ∀ f, EvalOKU cfg f := by
  intro f
  induction f using Nat.strong_induction_on with
  | _ f ih =>
    intro t e off d hsz hrep hu hdet
    have hpos := C06.size_pos t
    obtain ⟨F, rfl⟩ : ∃ F, f = F + 1 := ⟨f - 1, by omega⟩
    have ih' : ∀ g, g ≤ F → EvalOKU cfg g := fun g hg => ih g (by omega)
    cases hrep with
    | @num _ l hk hc ht =>
      simp only [UnitsOKU] at hu
      simp only [eval, hk, ht, fromStr_lit l hu.1, value_percent_false' l hu.2]
      refine (outcomeU_iff _ _ _).mpr (Or.inl ⟨_, _, denote_num l, rfl, ?_, powBoundedU_nil _ _⟩)
      exact ⟨by rw [siQ_nil], fun _ => rfl, fun sem h => by cases h; exact ⟨sameUnit_nil, rfl⟩,
        fun _ h => (nomatch h), fun _ h => (nomatch h)⟩
    | @qty id v un rest more l u hk ht hop hun =>
      simp only [UnitsOKU] at hu
      obtain ⟨hlit, huo⟩ := hu
      obtain ⟨sem, hsem, hps⟩ := hU.res u huo
      have hL : ((kidsAt (off + v.len) rest).filter (fun k => k.t.hasChildren)).map (·.t) =
          opKids rest := by rw [filter_kids_map, kidsAt_map]
      rw [hop] at hL
      obtain ⟨ua, morea, hLeq, hua, _⟩ := map_eq_cons hL
      obtain ⟨tl, hnn⟩ := nextNode_of_filter hLeq
      obtain ⟨T, hT, hTs, pT, kT, bT⟩ := hU.fwd un u sem ua.off d hun huo hsem
      rw [← hua, at_eta] at hT
      simp only [At.kids] at hT
      have hkind : (ua.t.kind != Syntax.UNIT) = false := by rw [hua, hun.1]; rfl
      have hs1 := opKids_size_le rest
      simp only [hop, sizeList, size_node] at hs1 hsz
      have pv := C06.size_pos v
      have pu := C06.size_pos un
      obtain ⟨F', rfl⟩ : ∃ F', F = F' + 1 := ⟨F - 1, by omega⟩
      have hval : eval cfg (F' + 1) ⟨off, v⟩ d =
          (.ok { value := value l, unit := [] }, d) := by
        simp only [eval, hk, ht, fromStr_lit l hlit.1, value_percent_false' l hlit.2]
        rfl
      rw [eval]
      simp only [kind_node, At.kids, kids_node, kidsAt, hnn, hkind, Bool.false_eq_true,
        ↓reduceIte, bind_apply, hval, hT, pure]
      refine (outcomeU_iff _ _ _).mpr (Or.inl
        ⟨Val.mk ⟨value l * scale sem, dims sem⟩ false (some sem), _, ?_, rfl, ?_, ?_⟩)
      · rw [denote_qty, hsem]
        simp [qtyOf, hps]
      · refine ⟨?_, fun h => (nomatch h), ?_, pT, kT⟩
        · simp [siQ, hTs.1, hTs.2]
        · intro sem' h
          cases h
          exact ⟨hTs, hps⟩
      · intro B hB en hen
        simp only [powBoundU, hsem, Option.map_some, Option.some.injEq] at hB
        rw [← hB]
        exact bT en hen
    | @fact _ p v u hk hc ht =>
      obtain ⟨c, hdb, hv, hcu, hprop, hknown⟩ := hu
      have hev : eval cfg (F + 1) ⟨off, t⟩ d = (.ok { value := c.value, unit := c.unit }, d) := by
        have hlk : eval cfg (F + 1) ⟨off, t⟩ = lookup cfg ⟨off, t⟩ := by
          by_cases hm : factMore p = []
          · simp only [hm, ↓reduceIte] at hk; simp only [eval, hk]
          · simp only [hm, ↓reduceIte] at hk; simp only [eval, hk]
        rw [hlk]
        simp only [lookup, ht, hdb, hdesc]
        rfl
      rw [hev]
      subst hv hcu
      refine (outcomeU_iff _ _ _).mpr (Or.inl ⟨_, _, denote_fact p _ _, rfl, ?_, ?_⟩)
      · refine ⟨(siOfResult_resultUnit _ _).symm, ?_, fun _ h => (nomatch h), hprop, hknown⟩
        intro hp
        simpa [resultUnit] using hp
      · intro B hB en hen
        simp only [powBoundU, Option.some.injEq] at hB
        rw [← hB]
        have := natAbs_le_sum (fun t : UnitKey × Int × Int => t.2.1.natAbs) (resultUnit c.unit)
          (en.1, en.2.power, en.2.pfx) (List.mem_map.mpr ⟨en, hen, rfl⟩)
        simpa using this
    | @paren id ks x e' hop hx =>
      simp only [UnitsOKU] at hu
      simp only [Determinate] at hdet
      have hL := at_opKids ⟨off, .node id .OPERATION ks⟩
      simp only [kids_node, hop] at hL
      obtain ⟨xa, hLeq, hxa⟩ := map_eq_one hL
      have hs1 := opKids_size_le ks
      simp only [hop, sizeList, size_node] at hs1 hsz
      obtain ⟨F', rfl⟩ : ∃ F', F = F' + 1 := ⟨F - 1, by omega⟩
      simp only [eval, kind_node, hLeq, opFold, bind_apply, pure, force]
      have := ih' F' (by omega) x e' xa.off d (by omega) hx hu hdet
      rw [← hxa, at_eta] at this
      simpa [OutcomeU, OutcomeV, denote_paren, PowRiskU, PowBoundedU, powBoundU] using this
    | @chain id ks x₀ rest0 e₀ _ p hop hne hx0 hp0 hfold0 =>
      have hL := at_opKids ⟨off, .node id .OPERATION ks⟩
      simp only [kids_node, hop] at hL
      obtain ⟨x0a, L1, hLeq, hx0a, hL1⟩ := map_eq_cons hL
      have hs1 := opKids_size_le ks
      simp only [hop, sizeList, size_node] at hs1 hsz
      have p0 := C06.size_pos x₀
      have hu0 := unitsOKU_fold hfold0 hu
      have hd0 := determinateU_fold hfold0 hdet
      -- the outcome of the first operand, whenever it is forced
      have hbase : ∀ G, G ≤ F → 2 * size x₀ + 1 ≤ G →
          OutcomeU e₀ d (force cfg G (.node x0a) d) := by
        intro G hG hGs
        obtain ⟨G', rfl⟩ : ∃ G', G = G' + 1 := ⟨G - 1, by omega⟩
        rw [force_node]
        have := ih' G' (by omega) x₀ e₀ x0a.off d (by omega) hx0 hu0 hd0
        rwa [← hx0a, at_eta] at this
      -- the first step, then the rest of the chain
      have key : FoldOutU e d (opFold cfg F ⟨off, .node id .OPERATION ks⟩ (.node x0a) L1 d) := by
        cases hfold0 with
        | nil => exact absurd rfl hne
        | @cons _ _ o x₁ op b _ rest ho hopp hx1 htail =>
          obtain ⟨oa, L2, rfl, hoa, hL2⟩ := map_eq_cons hL1
          obtain ⟨x1a, resta, rfl, hx1a, hresta⟩ := map_eq_cons hL2
          simp only [sizeList] at hs1 hsz
          have p1 := C06.size_pos x₁
          have p2 := C06.size_pos o
          obtain ⟨F', rfl⟩ : ∃ F', F = F' + 1 := ⟨F - 1, by omega⟩
          have hub := unitsOKU_fold htail hu
          have hdb := determinateU_fold htail hdet
          simp only [UnitsOKU] at hub
          simp only [Determinate] at hdb
          have hxo := ih' F' (by omega) x₁ b x1a.off d (by omega) hx1 hub.2.1 hdb.2.1
          rw [← hx1a, at_eta] at hxo
          rcases step_binU cfg F' ⟨off, .node id .OPERATION ks⟩ (.node x0a) oa x1a resta op e₀ b d
            (hoa ▸ ho) hxo (hbase F' (by omega) (by omega)) hdb.2.2 hub.2.2 with
            ⟨v', r', hv', ha', hb', heq⟩ | ⟨k, s, t, heq, hbad⟩
          · rw [heq]
            exact fold_numU cfg hU (F' + 1) ih' htail resta F' v' r' _ d hresta (by omega) hv' ha'
              hb' (by omega) hu hdet
          · right
            exact ⟨k, s, t, heq, badOKU_fold htail hbad⟩
        | @cast _ _ o x₁ u _ rest ho hp1 hx1 htail =>
          obtain ⟨oa, L2, rfl, hoa, hL2⟩ := map_eq_cons hL1
          obtain ⟨x1a, resta, rfl, hx1a, hresta⟩ := map_eq_cons hL2
          simp only [sizeList] at hs1 hsz
          have p1 := C06.size_pos x₁
          have p2 := C06.size_pos o
          obtain ⟨F', rfl⟩ : ∃ F', F = F' + 1 := ⟨F - 1, by omega⟩
          have hub := unitsOKU_fold htail hu
          have hdb := determinateU_fold htail hdet
          simp only [UnitsOKU] at hub
          simp only [Determinate] at hdb
          rcases step_castU cfg hU F' ⟨off, .node id .OPERATION ks⟩ (.node x0a) oa x1a resta e₀ u d
            (hoa ▸ ho) (hx1a ▸ hx1) hub.2 (hbase F' (by omega) (by omega)) hdb.2 with
            ⟨v', r', hv', ha', hb', heq⟩ | ⟨k, s, t, heq, hbad⟩
          · rw [heq]
            exact fold_numU cfg hU (F' + 1) ih' htail resta F' v' r' _ d hresta (by omega) hv' ha'
              hb' (by omega) hu hdet
          · right
            exact ⟨k, s, t, heq, badOKU_fold htail hbad⟩
      simp only [eval, kind_node, hLeq, bind_apply]
      rcases key with ⟨v, r, hv, hr, ha, hb⟩ | ⟨k, s, t, hr, hbad⟩
      · rw [hr]
        simp only [force_num]
        exact (outcomeU_iff _ _ _).mpr (Or.inl ⟨v, r, hv, rfl, ha, hb⟩)
      · rw [hr]
        exact (outcomeU_iff _ _ _).mpr (Or.inr ⟨k, s, t, rfl, hbad⟩)

/-- **The evaluator on trees that represent a quantity expression.** -/
theorem eval_repU (cfg : Cfg) (hdesc : cfg.describe = false) (hU : UnitFacts) (t : Tree)
    (e : QExpr) (off fuel : Nat) (d : List Desc) (h : RepU t e) (hu : UnitsOKU cfg e)
    (hdet : Determinate e) (hf : 2 * size t ≤ fuel) : OutcomeU e d (eval cfg fuel ⟨off, t⟩ d) :=
  evalOKU_all cfg hdesc hU fuel t e off d hf h hu hdet
