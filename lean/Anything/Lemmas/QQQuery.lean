import Anything.Lemmas.QQEval
import Anything.Lemmas.QQUnit
import Anything.Lemmas.QQLex
import Anything.Lemmas.QQRoot
import Anything.Lemmas.C06Root
/-!
# Quantity expressions end to end — `Eval.query` on a rendered query

Lexer (`Lemmas/QQLex`), parser (`Lemmas/QQShift`, `QQFrames`, `QQOperands`, `QQParse`, `QQRoot`),
`eval::unit` (`Lemmas/QQUnit`) and evaluator (`Lemmas/QQEval`) put together.
-/

namespace Anything.QQ
open Anything Anything.Eval Anything.Spec Anything.Spec.Arith Anything.Spec.Decimal
open Anything.Spec.Quantity Anything.Spec.SI Anything.C06 Anything.Props.C04

/-- The facts about `eval::unit` the evaluator theorem needs. -/
theorem unitFacts : UnitFacts where
  fwd := fun x u sem off d hx hu hs => by
    obtain ⟨T, h1, h2, h3, h4, _⟩ := unit_forward x u sem off d hx hu hs
    exact ⟨T, h1, h2, h3, h4, unit_power_le x u sem off d T hx hu hs h1⟩
  res := fun u hu => by
    obtain ⟨sem, hs⟩ := unitOK_resolves u hu
    exact ⟨sem, hs, unitOK_proportional u sem hu hs⟩

/-- What `Eval.query` answers, against the specification: exactly one result and no descriptions;
a value that agrees with `denote false e`, or an `err` when the specification has no value; only
for an expression that raises a quantity to a power possibly the `badArgument` refusal. -/
def QueryOutcomeQ (e : QExpr)
    (res : Except BErr (List (Except EvalErr Numeric) × List Desc)) : Prop :=
  match denote false e with
  | .ok v => (∃ r, res = .ok ([.ok r], []) ∧ Agree r v) ∨
      (PowRisk e ∧ ∃ s t, res = .ok ([.error (.err .badArgument s t)], []))
  | .error _ => ∃ k s t, res = .ok ([.error (.err k s t)], [])

/-- **Parser correctness on rendered queries.** -/
theorem parse_renderQ (e : QExpr) (ws : Layout) (hwf : WFQ e) (hl : QueryLayoutOKQ e ws) :
    ∃ forest, Grammar.parseRoot (renderQuery e ws) = .ok forest ∧ ForestOKQ forest e := by
  obtain ⟨forest, hp, hF⟩ := parse_toksQ e ws hwf hl
  refine ⟨forest, ?_, hF⟩
  unfold Grammar.parseRoot
  rw [lex_queryQ e ws hl, hp]

theorem query_renderQ (cfg : Cfg) (e : QExpr) (ws : Layout) (hwf : WFQ e)
    (hl : QueryLayoutOKQ e ws) (hu : UnitsOK e) (hdet : Determinate e) :
    QueryOutcomeQ e (Eval.query cfg (renderQuery e ws)) := by
  obtain ⟨forest, hparse, Wt, x, Wt', hf, hWt, hWt', hx⟩ := parse_renderQ e ws hwf hl
  unfold Eval.query
  rw [hparse]
  simp only
  rw [hf, List.append_assoc]
  obtain ⟨off, h1⟩ := queryLoop_ws cfg Wt hWt ([x] ++ Wt') 0
  rw [h1]
  simp only [List.singleton_append, kidsAt, queryLoop, representsQ_kind hx, Bool.false_eq_true,
    ↓reduceIte]
  obtain ⟨off2, h2⟩ := queryLoop_ws cfg Wt' hWt' [] (off + x.len)
  have h2' := h2 []
  simp only [List.append_nil, kidsAt, queryLoop] at h2'
  have hev := eval_representsQ cfg unitFacts x e off (2 * size x + 2) [] (repQL_to_repQ hx) hu hdet
    (by omega)
  unfold OutcomeQ at hev
  unfold QueryOutcomeQ
  cases hd : denote false e with
  | ok v =>
    rw [hd] at hev
    rcases hev with ⟨r, hr, ha, _⟩ | ⟨hp, s, t, hr⟩
    · left
      refine ⟨r, ?_, ha⟩
      simp only [hr, h2']
    · right
      refine ⟨hp, s, t, ?_⟩
      simp only [hr, h2']
  | error y =>
    rw [hd] at hev
    obtain ⟨k, s, t, hk⟩ := hev
    refine ⟨k, s, t, ?_⟩
    simp only [hk, h2']

end Anything.QQ
