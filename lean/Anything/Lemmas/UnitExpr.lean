import Anything.Lemmas.Mul
import Anything.Lemmas.Words
import Anything.Model.Eval
/-!
# Unit expressions: semantic effect of `Compound::update` and of the WORD loop (C05)
-/

namespace Anything
open AMap Spec

/-- **`Compound::update`**, when it succeeds on a sorted compound, adds `δ` to the power
of `u`: the dimensions grow by `δ · dim u` and the scale is multiplied by
`(10^pfx · factor u)^δ`; the compound stays sorted. -/
theorem update_sem {c c' : Compound} (hs : AMap.Sorted c) {u : UnitKey} {δ pfx : Int}
    (h : Compound.update c u δ pfx = .ok c') :
    AMap.Sorted c' ∧ (∀ k, dimsFn c' k = dimsFn c k + δ * dimOfKey u k) ∧
      scaleC c' = scaleC c * term (u, { power := δ, pfx := pfx }) := by
  unfold Compound.update at h
  cases hget : AMap.get? c u with
  | none =>
    simp only [hget, Except.ok.injEq] at h
    subst h
    refine ⟨AMap.sorted_insert hs _ _, fun k => ?_, ?_⟩
    · rw [dimsFn_perm (AMap.perm_insert hs u _) k, dimsFn_cons, AMap.erase_of_none hget]; ring
    · rw [scaleC_perm (AMap.perm_insert hs u _), scaleC_cons, AMap.erase_of_none hget]; ring
  | some st =>
    simp only [hget] at h
    split at h
    · simp at h
    · rename_i hp
      have hp : st.pfx = pfx := by simpa using hp
      have hB : (10 : Rat) ^ pfx * lin u ≠ 0 :=
        mul_ne_zero (zpow_ne_zero _ (by norm_num)) (lin_ne_zero u)
      have hc := AMap.perm_erase hget
      have hst : term (u, st) = ((10 : Rat) ^ pfx * lin u) ^ st.power := by simp [term, hp]
      split at h
      · rename_i hz
        simp only [Except.ok.injEq] at h
        subst h
        refine ⟨AMap.sorted_erase hs _, fun k => ?_, ?_⟩
        · rw [dimsFn_perm hc k, dimsFn_cons]
          have : δ = -st.power := by omega
          rw [this]; simp only; ring
        · rw [scaleC_perm hc, scaleC_cons, hst]
          have : δ = -st.power := by omega
          simp only [term, this, zpow_neg]
          field_simp
      · simp only [Except.ok.injEq] at h
        subst h
        refine ⟨AMap.sorted_insert hs _ _, fun k => ?_, ?_⟩
        · rw [dimsFn_perm (AMap.perm_insert hs u _) k, dimsFn_cons, dimsFn_perm hc k, dimsFn_cons]
          simp only; ring
        · rw [scaleC_perm (AMap.perm_insert hs u _), scaleC_cons, scaleC_perm hc, scaleC_cons, hst]
          simp only [term, hp]
          rw [zpow_add₀ hB]; ring

/-- The `update` calls of one WORD: every piece with the power `cur`. -/
def applyPieces (cur : Int) : Compound → List (Int × UnitKey) → Except Int Compound
  | c, [] => .ok c
  | c, (p, u) :: l =>
    match Compound.update c u cur p with
    | .ok c' => applyPieces cur c' l
    | .error e => .error e

/-- The pieces of a word as an (unsorted) list of factors, each with the power `cur`. -/
def piecesC (cur : Int) (l : List (Int × UnitKey)) : Compound :=
  l.map (fun pu => (pu.2, { power := cur, pfx := pu.1 }))

/-- The unit a following `^` applies to: the last piece, else what it was before. -/
def lastPiece : List (Int × UnitKey) → Option (UnitKey × Int) → Option (UnitKey × Int)
  | [], last => last
  | (p, u) :: l, _ => lastPiece l (some (u, p))

theorem dimsFn_append (a b : Compound) (k : UnitKey) : dimsFn (a ++ b) k = dimsFn a k + dimsFn b k := by
  simp [dimsFn]

theorem scaleC_append (a b : Compound) : scaleC (a ++ b) = scaleC a * scaleC b := by
  simp [scaleC]

theorem dimsFn_nil (k : UnitKey) : dimsFn [] k = 0 := by simp [dimsFn]
theorem scaleC_nil : scaleC [] = 1 := by simp [scaleC]

theorem applyPieces_sem {cur : Int} {l : List (Int × UnitKey)} {c c' : Compound} (hs : AMap.Sorted c)
    (h : applyPieces cur c l = .ok c') :
    AMap.Sorted c' ∧ (∀ k, dimsFn c' k = dimsFn c k + dimsFn (piecesC cur l) k) ∧
      scaleC c' = scaleC c * scaleC (piecesC cur l) := by
  induction l generalizing c with
  | nil =>
    simp only [applyPieces, Except.ok.injEq] at h
    subst h
    exact ⟨hs, fun k => by simp [piecesC, dimsFn_nil], by simp [piecesC, scaleC_nil]⟩
  | cons pu l ih =>
    obtain ⟨p, u⟩ := pu
    simp only [applyPieces] at h
    split at h
    · rename_i c1 h1
      obtain ⟨s1, d1, sc1⟩ := update_sem hs h1
      obtain ⟨s2, d2, sc2⟩ := ih s1 h
      refine ⟨s2, fun k => ?_, ?_⟩
      · rw [d2, d1]
        simp only [piecesC, List.map_cons, dimsFn_cons]
        ring
      · rw [sc2, sc1]
        simp only [piecesC, List.map_cons, scaleC_cons]
        ring
    · simp at h

/-- The WORD loop of `eval::unit` is `parseAll` followed by the `update`s. -/
theorem wordUnits_ok {cur : Int} {fuel : Nat} {s : List Char} {c c' : Compound}
    {last last' : Option (UnitKey × Int)}
    (h : Eval.wordUnits cur fuel s c last = .ok (c', last')) :
    ∃ l, UnitWord.parseAll fuel s = some l ∧ applyPieces cur c l = .ok c' ∧ last' = lastPiece l last := by
  induction fuel generalizing s c last with
  | zero => simp [Eval.wordUnits] at h
  | succ fuel ih =>
    simp only [Eval.wordUnits] at h
    split at h
    · rename_i he
      simp only [Except.ok.injEq, Prod.mk.injEq] at h
      obtain ⟨rfl, rfl⟩ := h
      exact ⟨[], by simp [UnitWord.parseAll, he], rfl, rfl⟩
    · rename_i he
      split at h
      · simp at h
      · rename_i rest pfx u hp
        split at h
        · simp at h
        · rename_i c1 h1
          split at h
          · rename_i hlt
            obtain ⟨tl, h2, h3, h4⟩ := ih h
            refine ⟨(pfx, u) :: tl, ?_, ?_, ?_⟩
            · simp [UnitWord.parseAll, he, hp, hlt, h2]
            · simp [applyPieces, h1, h3]
            · simpa [lastPiece] using h4
          · simp at h

/-- Conversely: an accepted word whose `update`s all succeed is accepted by the loop. -/
theorem wordUnits_of_pieces {cur : Int} {fuel : Nat} {s : List Char} {c c' : Compound}
    {last : Option (UnitKey × Int)} {l : List (Int × UnitKey)}
    (hp : UnitWord.parseAll fuel s = some l) (ha : applyPieces cur c l = .ok c') :
    Eval.wordUnits cur fuel s c last = .ok (c', lastPiece l last) := by
  induction fuel generalizing s c last l with
  | zero => simp [UnitWord.parseAll] at hp
  | succ fuel ih =>
    rcases UnitWord.parseAll_cons hp with ⟨rfl, rfl⟩ | ⟨rest, p, u, tl, h1, hlt, htl, rfl⟩
    · simp only [applyPieces, Except.ok.injEq] at ha
      subst ha
      simp [Eval.wordUnits, lastPiece]
    · have hne : s.isEmpty = false := by
        cases s with
        | nil => simp at hlt
        | cons _ _ => rfl
      simp only [applyPieces] at ha
      split at ha
      · rename_i c1 hc1
        simp [Eval.wordUnits, hne, h1, hc1, hlt, ih htl ha, lastPiece]
      · simp at ha

/-! ### Specification-level reading of an arbitrary list of factors -/

/-- A specification-level unit expression as a list of model entries (not sorted, a
unit may occur several times). -/
def ofSem (sem : SI.UnitSem) : Compound := sem.map (fun t => (t.key, { power := t.power, pfx := t.pfx }))

theorem semOf_ofSem (sem : SI.UnitSem) : semOf (ofSem sem) = sem := by
  simp [semOf, ofSem, Function.comp_def]

/-- Dimensions of a specification-level unit expression, through `dimsFn`. -/
theorem dims_sem (sem : SI.UnitSem) : SI.dims sem = vecOf (fun b => dimsFn (ofSem sem) (.base b)) := by
  conv_lhs => rw [← semOf_ofSem sem]
  exact dims_semOf _

/-- Scale of a specification-level unit expression, through `scaleC`. -/
theorem scale_sem (sem : SI.UnitSem) : SI.scale sem = scaleC (ofSem sem) := by
  conv_lhs => rw [← semOf_ofSem sem]
  exact scale_semOf _

theorem ofSem_append (a b : SI.UnitSem) : ofSem (a ++ b) = ofSem a ++ ofSem b := by
  simp [ofSem]

/-- **`Compound::update`, entry by entry**: only the entry of `u` changes; an absent
unit is entered with power `δ`; a present one (which must carry the same prefix)
gets `δ` added to its power and is removed when that makes it zero. -/
theorem update_entry {c c' : Compound} (hs : AMap.Sorted c) {u : UnitKey} {δ pfx : Int}
    (h : Compound.update c u δ pfx = .ok c') :
    (∀ k, k ≠ u → AMap.get? c' k = AMap.get? c k) ∧
    (AMap.get? c u = none → AMap.get? c' u = some { power := δ, pfx := pfx }) ∧
    (∀ st, AMap.get? c u = some st → st.pfx = pfx ∧
      AMap.get? c' u = if st.power + δ = 0 then none else some { power := st.power + δ, pfx := pfx }) := by
  unfold Compound.update at h
  cases hget : AMap.get? c u with
  | none =>
    simp only [hget, Except.ok.injEq] at h
    subst h
    refine ⟨fun k hk => AMap.get?_insert_ne _ _ (Ne.symm hk), fun _ => AMap.get?_insert_self _ _ _, ?_⟩
    intro st hst; simp at hst
  | some st =>
    simp only [hget] at h
    split at h
    · simp at h
    · rename_i hp
      have hp : st.pfx = pfx := by simpa using hp
      split at h
      · rename_i hz
        simp only [Except.ok.injEq] at h
        subst h
        refine ⟨fun k hk => AMap.get?_erase_ne _ (Ne.symm hk), fun hn => by simp at hn, ?_⟩
        intro st' hst'
        simp only [Option.some.injEq] at hst'
        subst hst'
        exact ⟨hp, by simp [hz, AMap.get?_erase_self hs]⟩
      · rename_i hz
        simp only [Except.ok.injEq] at h
        subst h
        refine ⟨fun k hk => AMap.get?_insert_ne _ _ (Ne.symm hk), fun hn => by simp at hn, ?_⟩
        intro st' hst'
        simp only [Option.some.injEq] at hst'
        subst hst'
        refine ⟨hp, ?_⟩
        rw [AMap.get?_insert_self]
        simp [hz, hp]

theorem ofSem_pieces (cur : Int) (l : List (Int × UnitKey)) :
    ofSem (l.map (fun pu => ({ pfx := pu.1, key := pu.2, power := cur } : SI.UTerm))) = piecesC cur l := by
  simp [ofSem, piecesC]

end Anything
