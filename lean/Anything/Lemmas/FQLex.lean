import Anything.Lemmas.FQDefs
import Anything.Lemmas.QQLex
/-!
# Fact phrases end to end — the lexer on phrases and on rendered mixed expressions

* `numWord_of_full`: a word that the number scanner consumes completely is a `NumWord`
  (decidable criterion `numWordB`);
* `lex_phrase`: a phrase that can be typed lexes into `phraseToks`;
* `lex_f`, `lex_queryF`: the analogue of `C06.lex_e`, `C06.lex_query` for `FExpr`.
-/

namespace Anything.FQ
open Anything Anything.Lexer Anything.Spec Anything.Spec.Arith Anything.Spec.Decimal
open Anything.C06 Anything.QQ Anything.Lemmas.Number

/-! ### Number words -/

theorem cw_append (p : Char → Bool) (l r : List Char) :
    countWhile p (l ++ r) =
      if countWhile p l = l.length then l.length + countWhile p r else countWhile p l := by
  induction l with
  | nil => simp [countWhile]
  | cons c l ih =>
    simp only [List.cons_append, countWhile, List.length_cons]
    by_cases hc : p c = true
    · simp only [hc, ↓reduceIte, ih]
      split <;> rename_i h
      · rw [if_pos (by omega)]; omega
      · rw [if_neg (by omega)]
    · simp [hc]

theorem cw_digits_numEnd (l rest : List Char) (h : NumEnd rest) :
    countWhile isDigit (l ++ rest) = countWhile isDigit l := by
  rw [cw_append]
  split
  · rename_i heq
    have : countWhile isDigit rest = 0 := by
      cases rest with
      | nil => rfl
      | cons c r => simp [countWhile, numEnd_head h c r rfl]
    omega
  · rfl

/-- The number scanner consumes `w` completely, so it consumes exactly `w` when something that
does not continue a number follows. -/
theorem cn_full_append (dot : Bool) (w : List Char) :
    ∀ rest, countNumber dot w = w.length → NumEnd rest →
      countNumber dot (w ++ rest) = w.length := by
  fun_induction countNumber dot w with
  | case1 dot => intro rest _ hr; simpa using hr dot
  | case2 dot a r ha ih =>
    intro rest hfull hr
    simp only [List.length_cons] at hfull
    rw [List.cons_append, countNumber.eq_def]
    simp only [ha, ↓reduceIte, List.length_cons]
    rw [ih rest (by omega) hr]; omega
  | case3 dot a r ha hdot ih =>
    intro rest hfull hr
    simp only [List.length_cons] at hfull
    rw [List.cons_append, countNumber.eq_def]
    simp only [ha, Bool.false_eq_true, ↓reduceIte, hdot, List.length_cons]
    rw [ih rest (by omega) hr]; omega
  | case4 dot a ha hdot he =>
    intro rest hfull _
    simp at hfull
  | case5 dot a ha hdot he b r' hb d ih =>
    intro rest hfull hr
    have hdv : countWhile isDigit r' = d := rfl
    clear_value d
    simp only [List.length_cons] at hfull
    have hd : d ≤ r'.length := hdv ▸ countWhile_le isDigit r'
    have hc := countNumber_le dot (r'.drop d)
    simp only [List.length_drop] at hc
    have hfull' : countNumber dot (List.drop d r') = (List.drop d r').length := by
      simp only [List.length_drop]; omega
    rw [List.cons_append, List.cons_append, countNumber.eq_def]
    simp only [ha, Bool.false_eq_true, ↓reduceIte, hdot, he, hb, List.length_cons]
    rw [cw_digits_numEnd r' rest hr, hdv, List.drop_append_of_le_length hd, ih rest hfull' hr]
    simp only [List.length_drop]; omega
  | case6 dot a ha hdot he b r' hb hb' d ih =>
    intro rest hfull hr
    have hdv : countWhile isDigit r' = d := rfl
    clear_value d
    simp only [List.length_cons] at hfull
    have hd : d ≤ r'.length := hdv ▸ countWhile_le isDigit r'
    have hc := countNumber_le dot (r'.drop d)
    simp only [List.length_drop] at hc
    have hfull' : countNumber dot (List.drop d r') = (List.drop d r').length := by
      simp only [List.length_drop]; omega
    rw [List.cons_append, List.cons_append, countNumber.eq_def]
    simp only [ha, Bool.false_eq_true, ↓reduceIte, hdot, he, hb, hb', List.length_cons]
    rw [cw_digits_numEnd r' rest hr, hdv, List.drop_append_of_le_length hd, ih rest hfull' hr]
    simp only [List.length_drop]; omega
  | case7 dot a ha hdot he b r' hb hb' =>
    intro rest hfull _
    simp at hfull
  | case8 dot a r ha hdot he =>
    intro rest hfull _
    simp at hfull

/-- Decidable criterion for number words. -/
def numWordB (w : List Char) : Bool :=
  (match w with | c :: _ => isDigit c | [] => false) && countNumber false w == w.length

theorem numWord_of_full {w : List Char} (h : numWordB w = true) : NumWord w := by
  simp only [numWordB, Bool.and_eq_true, beq_iff_eq] at h
  obtain ⟨h1, h2⟩ := h
  refine ⟨?_, fun rest hr => cn_full_append false w rest h2 hr⟩
  cases w with
  | nil => simp at h1
  | cons c r => exact ⟨c, r, rfl, h1⟩

/-- Digit strings are number words. -/
theorem numWord_digits {ds : List Char} (hne : ds ≠ []) (hd : ∀ c ∈ ds, isDigit c = true) :
    NumWord ds := by
  refine ⟨?_, fun rest hr => ?_⟩
  · cases ds with
    | nil => exact absurd rfl hne
    | cons c r => exact ⟨c, r, rfl, hd c (by simp)⟩
  · rw [cn_digitChars ds hd, hr false]; rfl

/-! ### Phrases -/

/-- What may follow a word of a phrase: neither a word character nor a continuation of a number. -/
def StopP (rest : List Char) : Prop := WordStop rest ∧ NumEnd rest

theorem exprStop_stopP {s : List Char} (h : ExprStop s) : StopP s :=
  ⟨unitStop_wordStop (exprStop_unitStop h), numStop_numEnd (exprStop_numStop h)⟩

theorem blank_stopP {b s : List Char} (hb : Blank b) (hne : b ≠ []) : StopP (b ++ s) :=
  ⟨unitStop_wordStop (blank_unitStop hb hne), unitStop_numEnd (blank_unitStop hb hne)⟩

theorem wordLit_head {w : List Char} (h : WordLit w) :
    ∃ c r, w = c :: r ∧ isWordChar c = true ∧ isDigit c = false := by
  obtain ⟨⟨c, r, rfl, hd⟩, hall, _⟩ := h
  exact ⟨c, r, rfl, hall c (by simp), hd⟩

theorem wkind_wordLit {w : List Char} (h : WordLit w) : wkind w = .WORD := by
  obtain ⟨c, r, rfl, _, hd⟩ := wordLit_head h
  simp [wkind, hd]

theorem wkind_numWord {w : List Char} (h : NumWord w) : wkind w = .NUMBER := by
  obtain ⟨⟨c, r, rfl, hd⟩, _⟩ := h
  simp [wkind, hd]

theorem pword_noWS {w : List Char} (h : PWord w) (rest : List Char) : NoWS (w ++ rest) := by
  rcases h with h | h
  · obtain ⟨c, r, rfl, hw, _⟩ := wordLit_head h
    exact head_cons (wordChar_noWS hw)
  · obtain ⟨⟨c, r, rfl, hd⟩, _⟩ := h
    exact head_cons (digit_noWS hd)

/-- One word of a phrase is one token. -/
theorem lex_pword {w rest : List Char} {ts : List Token} (hw : PWord w) (hr : StopP rest)
    (h : Lexes rest ts) : Lexes (w ++ rest) (⟨wkind w, w⟩ :: ts) := by
  rcases hw with hw | hw
  · rw [wkind_wordLit hw]
    exact lex_wordLit hw hr.1 h
  · rw [wkind_numWord hw]
    obtain ⟨⟨c, r, rfl, hd⟩, hfull⟩ := hw
    have hsplit : (c :: r) ++ rest = c :: (r ++ rest) := rfl
    refine lexes_cons (c := c) (r := r ++ rest) hsplit (by simp) ?_ h
    rw [nn_digit c _ (digit_tests' hd), ← hsplit, hfull rest hr.2]

theorem lex_nonemptyBlank {b rest : List Char} {ts : List Token} (hb : Blank b) (hne : b ≠ [])
    (hr : NoWS rest) (h : Lexes rest ts) : Lexes (b ++ rest) (⟨.WHITESPACE, b⟩ :: ts) := by
  have := lex_blank hb hr h
  simpa [blankTok, hne] using this

theorem lex_more : ∀ (more : More) (rest : List Char) (ts : List Token), MoreOK more →
    StopP rest → Lexes rest ts → Lexes (moreText more ++ rest) (moreToks more ++ ts)
  | [], rest, ts, _, _, h => by simpa [moreText, moreToks] using h
  | (b, w) :: more, rest, ts, hm, hr, h => by
    obtain ⟨hb, hne, hw⟩ := hm (b, w) (by simp)
    have hm' : MoreOK more := fun x hx => hm x (by simp [hx])
    have ih := lex_more more rest ts hm' hr h
    have hstop : StopP (moreText more ++ rest) := by
      cases more with
      | nil => simpa [moreText] using hr
      | cons bw more' =>
        obtain ⟨hb', hne', _⟩ := hm' bw (by simp)
        have : moreText (bw :: more') ++ rest = bw.1 ++ (bw.2 ++ moreText more' ++ rest) := by
          simp [moreText]
        rw [this]
        exact blank_stopP hb' hne'
    have htxt : moreText ((b, w) :: more) ++ rest = b ++ (w ++ (moreText more ++ rest)) := by
      simp [moreText]
    have htok : moreToks ((b, w) :: more) ++ ts =
        ⟨.WHITESPACE, b⟩ :: ⟨wkind w, w⟩ :: (moreToks more ++ ts) := by
      simp [moreToks]
    rw [htxt, htok]
    exact lex_nonemptyBlank hb hne (pword_noWS hw _) (lex_pword hw hstop ih)

theorem stopP_more (more : More) (rest : List Char) (hm : MoreOK more) (hr : StopP rest) :
    StopP (moreText more ++ rest) := by
  cases more with
  | nil => simpa [moreText] using hr
  | cons bw more' =>
    obtain ⟨hb', hne', _⟩ := hm bw (by simp)
    have : moreText (bw :: more') ++ rest = bw.1 ++ (bw.2 ++ moreText more' ++ rest) := by
      simp [moreText]
    rw [this]
    exact blank_stopP hb' hne'

/-- **The lexer on a phrase.** -/
theorem lex_phrase (first : List Char) (more : More) (rest : List Char) (ts : List Token)
    (hp : PhraseOK first more) (hr : StopP rest) (h : Lexes rest ts) :
    Lexes (phraseText first more ++ rest) (phraseToks first more ++ ts) := by
  obtain ⟨hf, hm⟩ := hp
  have := lex_wordLit hf (stopP_more more rest hm hr).1 (lex_more more rest ts hm hr h)
  simpa [phraseText, phraseToks] using this

/-! ### Rendering in projection form -/

theorem render_litF (l : Literal) (ws : Layout) :
    render (.lit l) ws = if l.percent then (renderNumber l ++ blank1 ws ++ ['%'], rest1 ws)
      else (renderNumber l, ws) := by
  simp only [render]

theorem render_factF (first : List Char) (more : More) (ws : Layout) :
    render (.fact first more) ws = (phraseText first more, ws) := by
  simp only [render]

theorem render_binF (op : BinOp) (a b : FExpr) (ws : Layout) :
    render (.bin op a b) ws =
      ((render a ws).1 ++ blank1 (afterF a ws) ++ op.sym ++ blank1 (rest1 (afterF a ws)) ++
        (render b (rest1 (rest1 (afterF a ws)))).1, afterF b (rest1 (rest1 (afterF a ws)))) := by
  simp only [render]

theorem render_parenF (e : FExpr) (ws : Layout) :
    render (.paren e) ws =
      (['('] ++ blank1 ws ++ (render e (rest1 ws)).1 ++ blank1 (afterF e (rest1 ws)) ++ [')'],
        rest1 (afterF e (rest1 ws))) := by
  simp only [render]

theorem renderQueryF_eq (e : FExpr) (ws : Layout) :
    renderQuery e ws =
      blank1 ws ++ (render e (rest1 ws)).1 ++ blank1 (afterF e (rest1 ws)) := by
  simp only [renderQuery]

/-! ### The first character of a rendering -/

/-- What the first character of an operand is like. -/
structure StartOK (glue : Bool) (c : Char) : Prop where
  noWS : isWhitespace c = false
  noStar : c ≠ '*'
  safe : glue = false → isDigit c = false ∧ c ≠ '.' ∧ c ≠ 'e' ∧ c ≠ 'E'

theorem render_headF : ∀ (e : FExpr) (ws : Layout), WFF e →
    ∃ c r, (render e ws).1 = c :: r ∧ StartOK (gluesToSign e) c
  | .lit l, ws, h => by
    obtain ⟨c, r, hr, hc, hsg⟩ := renderNumber_head l h
    rw [render_litF]
    split
    · exact ⟨c, r ++ (blank1 ws ++ ['%']), by simp [hr], (operandStart_facts c hc).1,
        (operandStart_facts c hc).2, fun hg => signedStart_facts c (hsg hg)⟩
    · exact ⟨c, r, hr, (operandStart_facts c hc).1, (operandStart_facts c hc).2,
        fun hg => signedStart_facts c (hsg hg)⟩
  | .fact first more, ws, h => by
    obtain ⟨c, r, rfl, hw, hd⟩ := wordLit_head h.1
    rw [render_factF]
    refine ⟨c, r ++ moreText more, by simp [phraseText], wordChar_noWS hw, ?_, fun hg => ?_⟩
    · intro hc; subst hc; exact absurd hw (by decide)
    · simp only [gluesToSign, Bool.or_eq_false_iff, beq_eq_false_iff_ne] at hg
      refine ⟨hd, ?_, hg.1, hg.2⟩
      intro hc; subst hc; exact absurd hw (by decide)
  | .bin op a b, ws, h => by
    obtain ⟨c, r, hr, hc⟩ := render_headF a ws h.1
    rw [render_binF]
    exact ⟨c, _, by simp only [hr, List.cons_append]; rfl, hc⟩
  | .paren e, ws, _ => by
    rw [render_parenF]
    exact ⟨'(', _, by simp only [List.cons_append, List.nil_append]; rfl, by decide, by decide,
      fun _ => by decide⟩

theorem noWS_of_startF {s r : List Char} {c : Char} {g : Bool} (hs : s = c :: r)
    (hc : StartOK g c) (rest : List Char) : NoWS (s ++ rest) := by
  rw [hs]; exact head_cons hc.noWS

/-- What may follow a binary operator: a blank and then an operand. -/
theorem after_opF {b2 sb r rest : List Char} {c : Char} {g : Bool} (hb : Blank b2)
    (hs : sb = c :: r) (hc : StartOK g c) :
    Head (fun c => c ≠ '*') (b2 ++ (sb ++ rest)) ∧
    ((b2 = [] → g = false) → NumStop (b2 ++ (sb ++ rest))) := by
  constructor
  · refine head_append (fun x hx => (ws_not_num (hb x hx)).2.2.2.2.1) ?_
    rw [hs]; exact head_cons hc.noStar
  · intro hsg
    cases b2 with
    | nil =>
      rw [hs]
      exact head_cons (hc.safe (hsg rfl))
    | cons x b2' =>
      obtain ⟨a1, a2, a3, a4, _⟩ := ws_not_num (hb x (by simp))
      exact head_cons ⟨a1, a2, a3, a4⟩

/-! ### Lexing a rendered expression -/

theorem lex_f : ∀ (e : FExpr) (ws : Layout) (rest : List Char) (ts : List Token),
    WFF e → LayoutOKF e ws → ExprStop rest → Lexes rest ts →
    Lexes ((render e ws).1 ++ rest) (toksF e ws ++ ts)
  | .lit l, ws, rest, ts, hwf, hl, hs, h => by
    rw [render_litF]
    simp only [toksF]
    by_cases hp : l.percent = true
    · simp only [hp, ↓reduceIte, List.append_assoc, List.cons_append, List.nil_append]
      have hb := hl hp
      refine lex_number hwf ?_ (lex_blank hb (head_cons (by decide)) (lex_pct h))
      intro c r hcr
      cases hbl : blank1 ws with
      | nil =>
        rw [hbl] at hcr
        simp only [List.nil_append, List.cons.injEq] at hcr
        rw [← hcr.1]; decide
      | cons x b' =>
        rw [hbl] at hcr
        simp only [List.cons_append, List.cons.injEq] at hcr
        obtain ⟨a1, a2, a3, a4, _⟩ := ws_not_num (hb x (by simp [hbl]))
        rw [← hcr.1]; exact ⟨a1, a2, a3, a4⟩
    · have hp' : l.percent = false := by simpa using hp
      simp only [hp', Bool.false_eq_true, ↓reduceIte, List.cons_append, List.nil_append]
      exact lex_number hwf (exprStop_numStop hs) h
  | .fact first more, ws, rest, ts, hwf, _, hs, h => by
    rw [render_factF]
    simp only [toksF]
    exact lex_phrase first more rest ts hwf (exprStop_stopP hs) h
  | .bin op a b, ws, rest, ts, hwf, hl, hs, h => by
    obtain ⟨wa, wb, _, _⟩ := hwf
    obtain ⟨ha, hb1, hb2, hb, hsg⟩ := hl
    obtain ⟨c, r, hcr, hc⟩ := render_headF b (rest1 (rest1 (afterF a ws))) wb
    rw [render_binF]
    simp only [toksF, List.append_assoc]
    obtain ⟨ao1, ao2⟩ := after_opF (rest := rest) hb2 hcr hc
    refine lex_f a ws _ _ wa ha (exprStop_blank hb1 (sym_stop op _))
      (lex_blank hb1 (sym_noWS op _) (lex_op ao1 (fun hop => ao2 fun hnil => hsg hop hnil)
        (lex_blank hb2 (noWS_of_startF hcr hc rest) (lex_f b _ rest ts wb hb hs h))))
  | .paren e, ws, rest, ts, hwf, hl, hs, h => by
    obtain ⟨hb1, he, hb2⟩ := hl
    obtain ⟨c, r, hcr, hc⟩ := render_headF e (rest1 ws) hwf
    rw [render_parenF]
    simp only [toksF, List.append_assoc]
    exact lex_open (lex_blank hb1 (noWS_of_startF hcr hc _)
      (lex_f e _ _ _ hwf he (exprStop_blank hb2 (head_cons (Or.inr (by decide))))
        (lex_blank hb2 (head_cons (by decide)) (lex_close h))))

/-- The lexer on a rendered query. -/
theorem lex_queryF (e : FExpr) (ws : Layout) (hwf : WFF e) (h : QueryLayoutOKF e ws) :
    lex (renderQuery e ws) = queryToksF e ws := by
  obtain ⟨hb0, he, hb1⟩ := h
  obtain ⟨c, r, hcr, hc⟩ := render_headF e (rest1 ws) hwf
  apply lexes_lex
  have : renderQuery e ws = blank1 ws ++ ((render e (rest1 ws)).1 ++
      (blank1 (afterF e (rest1 ws)) ++ [])) := by
    simp [renderQueryF_eq]
  rw [this]
  have h2 : queryToksF e ws = blankTok (blank1 ws) ++ (toksF e (rest1 ws) ++
      (blankTok (blank1 (afterF e (rest1 ws))) ++ [])) := by
    simp [queryToksF]
  rw [h2]
  exact lex_blank hb0 (noWS_of_startF hcr hc _)
    (lex_f e _ _ _ hwf he (exprStop_blank hb1 (head_nil _)) (lex_blank hb1 (head_nil _) lexes_nil))

/-! ### The default layout is admissible -/

theorem afterF_nil : ∀ e : FExpr, (render e []).2 = []
  | .lit l => by rw [render_litF]; split <;> rfl
  | .fact f m => by rw [render_factF]
  | .bin op a b => by
    rw [render_binF]
    simp only [afterF, afterF_nil a, rest1_nil]
    exact afterF_nil b
  | .paren e => by
    rw [render_parenF]
    simp only [afterF, rest1_nil, afterF_nil e]

theorem layoutOKF_nil : ∀ e : FExpr, LayoutOKF e []
  | .lit _ => fun _ => blank_default
  | .fact _ _ => trivial
  | .bin op a b => by
    simp only [LayoutOKF, afterF, afterF_nil a, rest1_nil]
    exact ⟨layoutOKF_nil a, blank_default, blank_default, layoutOKF_nil b,
      fun _ hb => absurd hb blank1_nil_ne⟩
  | .paren e => by
    simp only [LayoutOKF]
    refine ⟨blank_default, layoutOKF_nil e, ?_⟩
    show Blank (blank1 (render e []).2)
    rw [afterF_nil e]; exact blank_default

theorem queryLayoutOKF_nil (e : FExpr) : QueryLayoutOKF e [] := by
  refine ⟨blank_default, layoutOKF_nil e, ?_⟩
  show Blank (blank1 (render e []).2)
  rw [afterF_nil e]; exact blank_default

end Anything.FQ
