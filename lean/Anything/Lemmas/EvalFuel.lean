import Anything.Lemmas.EvalCtx
/-!
# The evaluator's fuel is immaterial (for C11)

With at least `2 * size` fuel the four mutually recursive functions return exactly what they
return with any larger amount: fuel is only a device to make the recursion structural.
-/

namespace Anything.Eval

theorem bind_congr_sat {α β : Type} {P : EvalErr → Prop} {Q : α → Prop} {m : EvalM α}
    {f g : α → EvalM β} (hm : Sat P Q m) (h : ∀ a, Q a → f a = g a) : m >>= f = m >>= g := by
  funext d
  rw [bind_apply', bind_apply']
  have hq := (hm d).2
  rcases hmd : m d with ⟨r, d'⟩
  rw [hmd] at hq
  cases r with
  | error e => rfl
  | ok a => simp only; rw [h a (hq a rfl)]

theorem fuel_all (cfg : Cfg) : ∀ fuel fuel', fuel ≤ fuel' →
    (∀ a, 2 * size a.t ≤ fuel → eval cfg fuel' a = eval cfg fuel a) ∧
    (∀ l, 2 * sizeAts l + 1 ≤ fuel → evalArgs cfg fuel' l = evalArgs cfg fuel l) ∧
    (∀ b, dneed b ≤ fuel → force cfg fuel' b = force cfg fuel b) ∧
    (∀ node b l, 2 * sizeAts l + dneed b ≤ fuel →
      opFold cfg fuel' node b l = opFold cfg fuel node b l) := by
  intro fuel
  induction fuel with
  | zero =>
    intro fuel' _
    refine ⟨?_, ?_, ?_, ?_⟩
    · intro a h; have := size_pos a.t; omega
    · intro l h; omega
    · intro b h
      cases b with
      | node a => simp only [dneed] at h; omega
      | num n => simp only [force]
    · intro node b l h
      match l, h with
      | [], _ => simp only [opFold]
      | [_], _ => simp only [opFold]
      | x :: y :: _, h =>
        simp only [sizeAts_cons] at h
        have := size_pos x.t
        omega
  | succ fuel ih =>
    intro fuel' hle
    obtain ⟨f', rfl⟩ : ∃ f', fuel' = f' + 1 := ⟨fuel' - 1, by omega⟩
    obtain ⟨ihE, ihA, ihF, ihO⟩ := ih f' (by omega)
    have hsat := sat_all (ctx_fuel cfg) fuel
    refine ⟨?_, ?_, ?_, ?_⟩
    · -- eval
      intro a hfuel
      simp only [eval]
      split
      · -- OPERATION
        split
        · rfl
        · rename_i base rest hf
          have hS := filter_kids_size a (fun k => k.t.hasChildren)
          rw [hf, sizeAts_cons] at hS
          have hneed : 2 * sizeAts rest + dneed (.node base) ≤ fuel := by simp only [dneed]; omega
          rw [ihO a (.node base) rest hneed]
          apply bind_congr_sat (hsat.2.2.2 a (.node base) rest trivial trivial (fun _ _ => trivial) hneed)
          intro b' hb'
          exact ihF b' (by have := hb'.2; simp only [dneed] at this ⊢; omega)
      · rfl
      · -- WITH_UNIT
        split
        · rfl
        · rename_i valueNode rest hk
          have hS := sizeAts_kids a
          rw [hk, sizeAts_cons] at hS
          rw [ihE valueNode (by omega)]
      · rfl
      · rfl
      · rfl
      · -- FN_CALL
        split
        · rename_i name rest hf
          have hS := filter_kids_size a (fun k => k.t.hasChildren)
          rw [hf] at hS
          split
          · rfl
          · split
            · rename_i arguments tl
              have hSa : size arguments.t ≤ sizeAts (name :: arguments :: tl) :=
                sizeAts_mem_le (by simp)
              have hSk := filter_kids_size arguments (fun k => k.t.hasChildren)
              rw [ihA _ (by omega)]
            · rfl
        · rfl
      · rfl
      · rfl
    · -- evalArgs
      intro l hfuel
      cases l with
      | nil => simp only [evalArgs]
      | cons a rest =>
        simp only [evalArgs]
        rw [sizeAts_cons] at hfuel
        have := size_pos a.t
        rw [ihE a (by omega), ihA rest (by omega)]
    · -- force
      intro b hfuel
      cases b with
      | node a =>
        simp only [force]
        simp only [dneed] at hfuel
        exact ihE a (by omega)
      | num n => simp only [force]
    · -- opFold
      intro node b l hfuel
      match l, hfuel with
      | [], _ => simp only [opFold]
      | [_], _ => simp only [opFold]
      | op :: rhs :: rest, hfuel =>
        simp only [sizeAts_cons] at hfuel
        have := size_pos op.t
        have := size_pos rhs.t
        have e1 := ihE rhs (by omega)
        have e2 := ihF b (by omega)
        have e3 : ∀ v : Numeric, opFold cfg f' node (.num v) rest = opFold cfg fuel node (.num v) rest :=
          fun v => ihO node (.num v) rest (by simp only [dneed]; omega)
        simp only [opFold, e1, e2, e3]

theorem eval_fuel_irrelevant (cfg : Cfg) (fuel : Nat) (a : At) (h : 2 * size a.t ≤ fuel) :
    eval cfg fuel a = eval cfg (2 * size a.t) a :=
  (fuel_all cfg (2 * size a.t) fuel h).1 a (Nat.le_refl _)

end Anything.Eval
