import Anything.Lemmas.C06Eval
import Anything.Lemmas.QQLex1
/-!
# Fact phrases end to end — definitions shared by `Lemmas/FQ*.lean` and `Props/FactQuery.lean`

* phrases: a first word and further `(blank, word)` pairs (`PhraseOK`), their text and tokens;
* `FExpr`: expressions over number literals AND fact phrases with `+ - * / ^` and parentheses,
  their rendering under a layout (`render`, `renderQuery`), token list (`toksF`), admissible
  layouts (`LayoutOKF`) and the grammar's own reading (`WFF`);
* `RepF`: the tree shapes the grammar builds for an `FExpr` (levelled: one OPERATION node per
  maximal run of equal-priority operators, the first operand of a run not itself such a run);
* the denotation relative to a database: `evalD` (in the evaluator's log monad, errors without
  spans), its value part `denote` and its log part `logD`, and the evaluation order `order`.
-/

namespace Anything.FQ
open Anything Anything.Lexer Anything.Eval Anything.Spec Anything.Spec.Arith Anything.Spec.Decimal
open Anything.C06 Anything.QQ

/-! ### Phrases -/

/-- A later word of a phrase that the lexer reads as ONE `NUMBER` token: it begins with a digit
and, whenever what follows does not continue a number (`NumEnd`), the number token is exactly the
word. Digit strings (`numWord_digits`) and e.g. `1e5`, `3.25` are such words. -/
def NumWord (w : List Char) : Prop :=
  (∃ c r, w = c :: r ∧ isDigit c = true) ∧
    ∀ rest, NumEnd rest → countNumber false (w ++ rest) = w.length

/-- A word of a phrase after the first one: a lexer word (`WordLit`: word characters, not
beginning with a digit, not the keyword `to`) or a number word. -/
def PWord (w : List Char) : Prop := WordLit w ∨ NumWord w

/-- The words after the first, each with the blank run that precedes it. -/
abbrev More := List (List Char × List Char)

/-- Every further word is preceded by a non-empty run of white space. -/
def MoreOK (more : More) : Prop := ∀ bw ∈ more, Blank bw.1 ∧ bw.1 ≠ [] ∧ PWord bw.2

/-- A phrase that can be typed: a lexer word, then words or numbers separated by blank runs. -/
def PhraseOK (first : List Char) (more : More) : Prop := WordLit first ∧ MoreOK more

def moreText (more : More) : List Char := more.flatMap (fun bw => bw.1 ++ bw.2)

/-- The phrase as typed (with its blank runs): this is what is looked up. -/
def phraseText (first : List Char) (more : More) : List Char := first ++ moreText more

/-- Token kind of a word: NUMBER when it begins with a digit. -/
def wkind (w : List Char) : Syntax :=
  match w with
  | c :: _ => if isDigit c then .NUMBER else .WORD
  | [] => .WORD

def moreToks (more : More) : List Token :=
  more.flatMap (fun bw => [⟨.WHITESPACE, bw.1⟩, ⟨wkind bw.2, bw.2⟩])

/-- The tokens of a phrase: WORD, then WHITESPACE and WORD / NUMBER alternating. -/
def phraseToks (first : List Char) (more : More) : List Token := ⟨.WORD, first⟩ :: moreToks more

/-- The phrase made of the given words joined by single blanks. -/
def singleBlanks (ws : List (List Char)) : More := ws.map (fun w => ([' '], w))

/-! ### Expressions -/

/-- Expressions mixing number literals and fact phrases. -/
inductive FExpr
  | lit (l : Literal)
  | fact (first : List Char) (more : More)
  | bin (op : BinOp) (a b : FExpr)
  | paren (e : FExpr)

/-- Priority of the outermost construct; atoms bind tightest. -/
def FExpr.prio : FExpr → Nat
  | .bin op _ _ => op.prio
  | _ => 100

/-- The AST is the one the documented grammar assigns to its own rendering (left-associative
operators: the right child binds strictly tighter); literals are well formed; phrases can be
typed. -/
def WFF : FExpr → Prop
  | .lit l => l.WF
  | .fact first more => PhraseOK first more
  | .bin op a b => WFF a ∧ WFF b ∧ op.prio ≤ a.prio ∧ op.prio < b.prio
  | .paren e => WFF e

/-- Render with the layout threaded left to right: blank positions between a number and its `%`,
on both sides of a binary operator and inside parentheses next to both delimiters (as
`Spec.Arith.render`). The blank runs INSIDE a phrase belong to the phrase. -/
def render : FExpr → Layout → List Char × Layout
  | .lit l, ws =>
    if l.percent then
      let (b, ws) := nextBlank ws
      (renderNumber l ++ b ++ ['%'], ws)
    else (renderNumber l, ws)
  | .fact first more, ws => (phraseText first more, ws)
  | .bin op a b, ws =>
    let (sa, ws) := render a ws
    let (b1, ws) := nextBlank ws
    let (b2, ws) := nextBlank ws
    let (sb, ws) := render b ws
    (sa ++ b1 ++ op.sym ++ b2 ++ sb, ws)
  | .paren e, ws =>
    let (b1, ws) := nextBlank ws
    let (se, ws) := render e ws
    let (b2, ws) := nextBlank ws
    (['('] ++ b1 ++ se ++ b2 ++ [')'], ws)

/-- Whole query: leading blank, expression, trailing blank. -/
def renderQuery (e : FExpr) (ws : Layout) : List Char :=
  let (b0, ws) := nextBlank ws
  let (s, ws) := render e ws
  let (b1, _) := nextBlank ws
  b0 ++ s ++ b1

/-- The layout that remains after rendering. -/
abbrev afterF (e : FExpr) (ws : Layout) : Layout := (render e ws).2

/-- In-order token list of an expression under a layout. -/
def toksF : FExpr → Layout → List Token
  | .lit l, ws =>
    if l.percent then
      [⟨.NUMBER, renderNumber l⟩] ++ blankTok (blank1 ws) ++ [⟨.PERCENTAGE, ['%']⟩]
    else [⟨.NUMBER, renderNumber l⟩]
  | .fact first more, _ => phraseToks first more
  | .bin op a b, ws =>
    let ws1 := afterF a ws
    toksF a ws ++ blankTok (blank1 ws1) ++ [opTok op] ++ blankTok (blank1 (rest1 ws1)) ++
      toksF b (rest1 (rest1 ws1))
  | .paren e, ws =>
    [⟨.OPEN_PAREN, ['(']⟩] ++ blankTok (blank1 ws) ++ toksF e (rest1 ws) ++
      blankTok (blank1 (afterF e (rest1 ws))) ++ [⟨.CLOSE_PAREN, [')']⟩]

/-- The leftmost operand would be glued to a directly preceding `+` / `-` by the lexer: an
unsigned literal, or a phrase beginning with `e` / `E` (`+e5` is a number token). -/
def gluesToSign : FExpr → Bool
  | .lit l => l.sign.isNone
  | .fact first _ =>
    match first with
    | c :: _ => c == 'e' || c == 'E'
    | [] => false
  | .bin _ a _ => gluesToSign a
  | .paren _ => false

/-- The admissible layouts: every blank position holds white space only (possibly nothing), and
a binary `+` / `-` directly followed by an operand that `gluesToSign` is followed by a blank. -/
def LayoutOKF : FExpr → Layout → Prop
  | .lit l, ws => l.percent = true → Blank (blank1 ws)
  | .fact _ _, _ => True
  | .bin op a b, ws =>
    let ws1 := afterF a ws
    LayoutOKF a ws ∧ Blank (blank1 ws1) ∧ Blank (blank1 (rest1 ws1)) ∧
      LayoutOKF b (rest1 (rest1 ws1)) ∧
      ((op = .add ∨ op = .sub) → blank1 (rest1 ws1) = [] → gluesToSign b = false)
  | .paren e, ws =>
    Blank (blank1 ws) ∧ LayoutOKF e (rest1 ws) ∧ Blank (blank1 (afterF e (rest1 ws)))

def QueryLayoutOKF (e : FExpr) (ws : Layout) : Prop :=
  Blank (blank1 ws) ∧ LayoutOKF e (rest1 ws) ∧ Blank (blank1 (afterF e (rest1 ws)))

def queryToksF (e : FExpr) (ws : Layout) : List Token :=
  blankTok (blank1 ws) ++ toksF e (rest1 ws) ++ blankTok (blank1 (afterF e (rest1 ws)))

/-! ### Trees -/

set_option inductive.autoPromoteIndices false in
/-- `FoldF R p acc [o₁, x₁, …, oₙ, xₙ] e`: operator nodes of ONE priority `p` and operand trees
extend `acc` to the LEFT-nested `e = (((acc o₁ e₁) o₂ e₂) … oₙ eₙ)`. -/
inductive FoldF (R : Tree → FExpr → Prop) : Nat → FExpr → List Tree → FExpr → Prop
  | nil (p : Nat) (acc : FExpr) : FoldF R p acc [] acc
  | cons {p : Nat} {acc : FExpr} {o x : Tree} {op : BinOp} {b e : FExpr} {rest : List Tree} :
      o.kind = opKind op → op.prio = p → R x b → FoldF R p (.bin op acc b) rest e →
      FoldF R p acc (o :: x :: rest) e

/-- The tree `t` is the one the grammar builds for the expression `e`.

* `num`: a NUMBER node (with a child) whose source text is the literal;
* `pct`: a PERCENTAGE node whose first child is the NUMBER token of the literal;
* `fact`: a WORD node (one word) or a SENTENCE node (several) whose source text is the phrase;
* `paren`: an OPERATION node with exactly one child that has children;
* `chain`: an OPERATION node whose children with children are `x₀ o₁ x₁ … oₙ xₙ` (`n ≥ 1`), all
  operators of one priority `p`, the first operand NOT itself an operator application of
  priority `p`; it represents the left-nested `((e₀ o₁ e₁) o₂ e₂) …`. -/
inductive RepF : Tree → FExpr → Prop
  | num {t : Tree} {l : Literal} : t.kind = .NUMBER → t.hasChildren = true →
      l.percent = false → t.text = renderNumber l → RepF t (.lit l)
  | pct {id : Nat} {n : Tree} {ks : List Tree} {l : Literal} : n.kind = .NUMBER →
      n.text = renderNumber l → l.percent = true →
      RepF (.node id .PERCENTAGE (n :: ks)) (.lit l)
  | fact {t : Tree} {first : List Char} {more : More} :
      t.kind = (if more = [] then Syntax.WORD else Syntax.SENTENCE) → t.hasChildren = true →
      t.text = phraseText first more → RepF t (.fact first more)
  | paren {id : Nat} {ks : List Tree} {x : Tree} {e : FExpr} : opKids ks = [x] →
      RepF x e → RepF (.node id .OPERATION ks) (.paren e)
  | chain {id : Nat} {ks : List Tree} {x₀ : Tree} {rest : List Tree} {e₀ e : FExpr} {p : Nat} :
      opKids ks = x₀ :: rest → rest ≠ [] → RepF x₀ e₀ → e₀.prio ≠ p →
      FoldF RepF p e₀ rest e → RepF (.node id .OPERATION ks) e

/-! ### Denotation relative to a database -/

/-- Errors with their spans forgotten (spans are byte offsets into the query text). -/
def stripErr : EvalErr → EvalErr
  | .err k _ _ => .err k 0 0
  | e => e

def strip {α : Type} : Except EvalErr α → Except EvalErr α
  | .ok a => .ok a
  | .error e => .error (stripErr e)

/-- The lookup of a phrase (spec level: errors carry no span). -/
def lookupD (cfg : Cfg) (p : List Char) : EvalM Numeric :=
  match cfg.db p with
  | .error => err .lookupError 0 0
  | .nothing => err .missing 0 0
  | .found c => do
    if cfg.describe then EvalM.log { phrase := p, description := c.description }
    pure { value := c.value, unit := c.unit }

/-- **The denotation**, in the evaluator's own log monad: literals are plain numbers, a phrase
is looked up in `cfg.db` (and reported when `cfg.describe`), operators combine the values of
their operands with the evaluator's arithmetic on quantities (`Eval.add`, `Eval.mulDiv`,
`Eval.pow`, proved correct in C01–C04, C13). ORDER: the right operand is evaluated before the
left one — except that in a run `x₀ o₁ x₁ o₂ x₂ …` of operators of equal priority (one
OPERATION node) the accumulated left part is, of course, evaluated before the next operand:
`x₁, x₀, x₂, x₃, …`. -/
def evalD (cfg : Cfg) : FExpr → EvalM Numeric
  | .lit l => pure (plain (value l))
  | .fact first more => lookupD cfg (phraseText first more)
  | .paren e => evalD cfg e
  | .bin op a b =>
    if a.prio = op.prio then do
      let va ← evalD cfg a
      let vb ← evalD cfg b
      binEval cfg op 0 0 va vb
    else do
      let vb ← evalD cfg b
      let va ← evalD cfg a
      binEval cfg op 0 0 va vb

/-- Value of a lookup. -/
def lookupV (db : Db) (p : List Char) : Except EvalErr Numeric :=
  match db p with
  | .error => .error (.err .lookupError 0 0)
  | .nothing => .error (.err .missing 0 0)
  | .found c => .ok { value := c.value, unit := c.unit }

/-- The evaluator's arithmetic as a function (it neither reads nor writes the log). -/
def arithV (cfg : Cfg) (op : BinOp) (a b : Numeric) : Except EvalErr Numeric :=
  (binEval cfg op 0 0 a b []).1

/-- The value part of the denotation: computed from the looked-up constants; it does not depend
on `cfg.describe`. (The first error in evaluation order wins.) -/
def denote (cfg : Cfg) : FExpr → Except EvalErr Numeric
  | .lit l => .ok (plain (value l))
  | .fact first more => lookupV cfg.db (phraseText first more)
  | .paren e => denote cfg e
  | .bin op a b =>
    if a.prio = op.prio then
      match denote cfg a with
      | .error x => .error x
      | .ok va =>
        match denote cfg b with
        | .error x => .error x
        | .ok vb => arithV cfg op va vb
    else
      match denote cfg b with
      | .error x => .error x
      | .ok vb =>
        match denote cfg a with
        | .error x => .error x
        | .ok va => arithV cfg op va vb

/-- What a lookup reports. -/
def lookupLog (db : Db) (p : List Char) : List Desc :=
  match db p with
  | .found c => [{ phrase := p, description := c.description }]
  | _ => []

/-- The log part of the denotation: the successful lookups in evaluation order — up to the
first error, if any — each with its constant's description. -/
def logD (cfg : Cfg) : FExpr → List Desc
  | .lit _ => []
  | .fact first more => lookupLog cfg.db (phraseText first more)
  | .paren e => logD cfg e
  | .bin op a b =>
    if a.prio = op.prio then
      logD cfg a ++ (match denote cfg a with | .ok _ => logD cfg b | .error _ => [])
    else
      logD cfg b ++ (match denote cfg b with | .ok _ => logD cfg a | .error _ => [])

/-- The phrases of an expression in evaluation order. -/
def order : FExpr → List (List Char)
  | .lit _ => []
  | .fact first more => [phraseText first more]
  | .paren e => order e
  | .bin op a b => if a.prio = op.prio then order a ++ order b else order b ++ order a

/-- Every literal is within the number reader's `u32` guards (`C07_guard_*`). -/
def LitsOKF : FExpr → Prop
  | .lit l => LitOK l
  | .fact _ _ => True
  | .bin _ a b => LitsOKF a ∧ LitsOKF b
  | .paren e => LitsOKF e

end Anything.FQ
