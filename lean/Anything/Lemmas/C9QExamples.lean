import Anything.Lemmas.C9QSpec
import Anything.Lemmas.C9QPlain
import Anything.Lemmas.QQExamples
/-!
# C09 end to end — sample data for the non-vacuity examples of `Props/C09Query.lean`
-/

namespace Anything.C9Q.Ex
open Anything Anything.Spec.Quantity Anything.C9Q Anything.Props.C09

/-- `°C`, `°F`, `K`, `m°C`, `kK`, `celsius`. -/
def degC : RTerm := ⟨[], ['°', 'C'], 1⟩
def degF : RTerm := ⟨[], ['°', 'F'], 1⟩
def kel : RTerm := ⟨[], ['K'], 1⟩
def milliC : RTerm := ⟨['m'], ['°', 'C'], 1⟩
def kiloK : RTerm := ⟨['k'], ['K'], 1⟩
def celsiusW : RTerm := ⟨[], ['c', 'e', 'l', 's', 'i', 'u', 's'], 1⟩
/-- `°C^2`, `1/°C`, `°C*m/ft`. -/
def degC2 : List RTerm := [⟨[], ['°', 'C'], 2⟩]
def perC : List RTerm := [⟨[], ['°', 'C'], -1⟩]
def cmft : List RTerm := [⟨[], ['°', 'C'], 1⟩, ⟨[], ['m'], 1⟩, ⟨[], ['f', 't'], -1⟩]

theorem written_degC : Written .C 0 degC := ⟨by decide +kernel, by decide, rfl, by decide⟩
theorem written_degF : Written .F 0 degF := ⟨by decide +kernel, by decide, rfl, by decide⟩
theorem written_kel : Written .K 0 kel := ⟨by decide +kernel, by decide, rfl, by decide⟩
theorem written_milliC : Written .C (-3) milliC := ⟨by decide +kernel, by decide, rfl, by decide⟩
theorem written_kiloK : Written .K 3 kiloK := ⟨by decide +kernel, by decide, rfl, by decide⟩
theorem written_celsius : Written .C 0 celsiusW := ⟨by decide +kernel, by decide, rfl, by decide⟩

end Anything.C9Q.Ex
