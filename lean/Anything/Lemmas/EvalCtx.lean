import Anything.Lemmas.EvalSat
import Anything.Lemmas.EvalSpans
import Anything.Lemmas.EvalRound
import Anything.Lemmas.KnownUnits
/-!
# The two instances of `Eval.Ctx` used by C11

* `ctx_fuel`: for arbitrary trees, no result is the model's own `"fuel"` outcome.
* `ctx_main toks strict`: for nodes located in the token list `toks`, every `.err` carries a
  well-formed span; with `strict` no `.panic` is accepted at all, and then units must be
  tracked (`AllKnown`) in debug builds to discharge the zero-power assertion of
  `Compound::mul`. `strict := False` gives the span theorem without any hypothesis on the
  database.
-/

namespace Anything.Eval

/-- Anything but the model's own fuel exhaustion. -/
def NotFuel : EvalErr → Prop
  | .panic site => site ≠ "fuel"
  | _ => True

theorem ctx_fuel (cfg : Cfg) :
    Ctx cfg NotFuel (fun _ => True) (fun _ => True) (fun _ => True) where
  kids := fun _ _ _ _ => trivial
  perr := fun _ _ _ => trivial
  unsup := fun _ => trivial
  unil := trivial
  upow := fun _ _ _ => trivial
  kparse := fun _ _ _ _ _ => trivial
  uupd := fun _ _ _ _ _ _ _ _ => trivial
  udb := fun _ _ _ => trivial
  umul := by
    intro x y div l r _ _
    split
    · trivial
    · trivial
    · show _ ≠ _
      decide
  round := fun a args _ _ => sat_round cfg _ _ args (fun _ => trivial) (fun _ _ => trivial)

/-- The database only holds constants whose units are units of the table. -/
def DbKnown (db : Db) : Prop := ∀ s c, db s = .found c → AllKnown c.unit

/-- Errors have well-formed spans; with `strict`, there is no panic. -/
def Allowed (toks : List Token) (strict : Prop) : EvalErr → Prop
  | .err _ s e => Span toks s e
  | .panic _ => ¬ strict
  | .unsupported _ => True

theorem ctx_main (cfg : Cfg) (toks : List Token) (strict : Prop)
    (hdb : strict → cfg.debug = true → DbKnown cfg.db) :
    Ctx cfg (Allowed toks strict) (Loc toks)
      (fun u => strict → cfg.debug = true → known u = true)
      (fun c => strict → cfg.debug = true → AllKnown c) where
  kids := fun _ ha => loc_kids ha
  perr := fun _ ha _ => loc_span ha
  unsup := fun _ => trivial
  unil := fun _ _ => allKnown_nil
  upow := fun _ n h hs hd => allKnown_checkedPow (h hs hd) n
  kparse := fun _ _ _ _ h _ _ => parse_known h
  uupd := fun _ _ _ _ _ hc hk hupd hs hd => allKnown_update (hc hs hd) (hk hs hd) hupd
  udb := fun s c h hs hd => hdb hs hd s c h
  umul := by
    intro x y div l r hx hy
    have hn : (if div = true then (-1 : Int) else 1) ≠ 0 := by split <;> decide
    split
    · rename_i res hres
      exact fun hs hd => allKnown_mul _ _ _ _ _ _ (hx hs hd) (hy hs hd) res hres
    · trivial
    · rename_i hres
      intro hs
      cases hd : cfg.debug with
      | false => rw [hd] at hres; exact mul_release_no_zeroPower _ _ _ _ _ hres
      | true =>
        exact mul_no_zeroPower _ _ _ _ _ _ hn (allKnown_hasBases (hx hs hd))
          (allKnown_hasBases (hy hs hd)) hres
  round := fun a args ha hargs => sat_round cfg _ _ args (fun _ => loc_span ha) hargs

/-- Units stay units of the table (no claim about errors). -/
theorem ctx_known (cfg : Cfg) (hdb : DbKnown cfg.db) :
    Ctx cfg (fun _ => True) (fun _ => True) (fun u => known u = true) AllKnown where
  kids := fun _ _ _ _ => trivial
  perr := fun _ _ _ => trivial
  unsup := fun _ => trivial
  unil := allKnown_nil
  upow := fun _ n h => allKnown_checkedPow h n
  kparse := fun _ _ _ _ h => parse_known h
  uupd := fun _ _ _ _ _ hc hk hupd => allKnown_update hc hk hupd
  udb := hdb
  umul := by
    intro x y div l r hx hy
    split
    · rename_i res hres
      exact allKnown_mul _ _ _ _ _ _ hx hy res hres
    · trivial
    · trivial
  round := fun a args _ hargs => sat_round cfg _ _ args (fun _ => trivial) hargs

/-- `eval::unit` only builds compounds of known units. -/
theorem unit_known (kids : List At) (d : List Desc) (c : Compound)
    (h : (unit kids d).1 = .ok c) : AllKnown c :=
  (sat_unit (ctx_known { db := fun _ => .nothing } (fun _ _ hh => by cases hh)) kids
    (fun _ _ => trivial) d).2 c h

end Anything.Eval
