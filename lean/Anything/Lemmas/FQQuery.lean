import Anything.Lemmas.FQRoot
import Anything.Lemmas.FQEval
/-!
# Fact phrases end to end — `Eval.query` on rendered mixed expressions, and histories of queries
-/

namespace Anything.FQ
open Anything Anything.Eval Anything.Grammar Anything.Spec.Arith Anything.C06

/-- The run of the evaluator on the single tree of a forest, for every incoming log. -/
theorem queryLoop_forestF (cfg : Cfg) (forest : List Tree) (e : FExpr) (hF : ForestOKF forest e)
    (hl : LitsOKF e) :
    ∃ r, strip r = denote cfg e ∧ ∀ d, queryLoop cfg (kidsAt 0 forest) d =
      ([r], d ++ if cfg.describe then logD cfg e else []) := by
  obtain ⟨Wt, x, Wt', hf, hWt, hWt', hx⟩ := hF
  obtain ⟨off, h1⟩ := queryLoop_ws cfg Wt hWt ([x] ++ Wt') 0
  obtain ⟨off2, h2⟩ := queryLoop_ws cfg Wt' hWt' [] (off + x.len)
  obtain ⟨r, t, hr, -⟩ := (built_eval cfg cfg rfl (2 * size x + 2) ⟨off, x⟩).log
  have hsim := eval_repF cfg x e off (2 * size x + 2) [] hx hl (by omega)
  rw [hr [], evalD_run] at hsim
  obtain ⟨hs1, hs2⟩ := hsim
  simp only [List.nil_append] at hs1 hs2
  refine ⟨r, hs1, fun d => ?_⟩
  rw [hf, List.append_assoc, h1]
  simp only [List.singleton_append, kidsAt, queryLoop, repF_kind hx, Bool.false_eq_true,
    ↓reduceIte]
  have h2' := h2 (d ++ t)
  simp only [List.append_nil, kidsAt, queryLoop] at h2'
  rw [hr d, h2', hs2]

/-- `Eval.query` with an incoming description vector (a caller may reuse one vector across
queries; `Eval.query` is the case of the empty vector). -/
def queryFrom (cfg : Cfg) (src : List Char) (d : List Desc) :
    Except BErr (List (Except EvalErr Numeric) × List Desc) :=
  match parseRoot src with
  | .error e => .error e
  | .ok forest => .ok (queryLoop cfg (kidsAt 0 forest) d)

theorem queryFrom_nil (cfg : Cfg) (src : List Char) : queryFrom cfg src [] = Eval.query cfg src := rfl

/-- **Whole pipeline on a rendered mixed expression**, for every incoming description vector. -/
theorem queryFrom_renderF (cfg : Cfg) (e : FExpr) (ws : Layout) (hwf : WFF e)
    (hl : QueryLayoutOKF e ws) (hlit : LitsOKF e) :
    ∃ r, strip r = denote cfg e ∧ ∀ d, queryFrom cfg (renderQuery e ws) d =
      .ok ([r], d ++ if cfg.describe then logD cfg e else []) := by
  obtain ⟨forest, hparse, hF⟩ := parse_renderF e ws hwf hl
  obtain ⟨r, hr, hq⟩ := queryLoop_forestF cfg forest e hF hlit
  refine ⟨r, hr, fun d => ?_⟩
  unfold queryFrom
  rw [hparse]
  simp only [hq d]

theorem query_renderF (cfg : Cfg) (e : FExpr) (ws : Layout) (hwf : WFF e)
    (hl : QueryLayoutOKF e ws) (hlit : LitsOKF e) :
    ∃ r, strip r = denote cfg e ∧ Eval.query cfg (renderQuery e ws) =
      .ok ([r], if cfg.describe then logD cfg e else []) := by
  obtain ⟨r, hr, hq⟩ := queryFrom_renderF cfg e ws hwf hl hlit
  exact ⟨r, hr, by rw [← queryFrom_nil, hq []]; simp⟩

/-! ### Histories -/

/-- A history: query texts evaluated one after the other against ONE database, each with its own
`describe` flag, all sharing one description vector. Results per query, and the final vector. -/
def runAll (cfg : Cfg) :
    List (Bool × List Char) → List Desc →
      List (Except BErr (List (Except EvalErr Numeric))) × List Desc
  | [], d => ([], d)
  | (b, src) :: rest, d =>
    match queryFrom { cfg with describe := b } src d with
    | .error e => ((.error e) :: (runAll cfg rest d).1, (runAll cfg rest d).2)
    | .ok (r, d1) => ((.ok r) :: (runAll cfg rest d1).1, (runAll cfg rest d1).2)

/-- The results of a query do not depend on the incoming vector, nor on `describe`. -/
theorem queryFrom_results (cfg : Cfg) (b : Bool) (src : List Char) (d : List Desc) :
    (queryFrom { cfg with describe := b } src d).map Prod.fst =
      (Eval.query cfg src).map Prod.fst := by
  unfold queryFrom Eval.query
  cases parseRoot src with
  | error e => rfl
  | ok forest =>
    simp only [Except.map]
    congr 1
    simp only [queryLoop_eq]
    apply List.map_congr_left
    intro a _
    exact ((built_eval { cfg with describe := b } cfg rfl (qFuel a) a).sameVal rfl [] [])

theorem runAll_results (cfg : Cfg) : ∀ (qs : List (Bool × List Char)) (d : List Desc),
    (runAll cfg qs d).1 = qs.map (fun q => (Eval.query cfg q.2).map Prod.fst)
  | [], d => rfl
  | (b, src) :: rest, d => by
    have h := queryFrom_results cfg b src d
    simp only [runAll, List.map_cons]
    cases hq : queryFrom { cfg with describe := b } src d with
    | error e =>
      rw [hq] at h
      simp only [runAll_results cfg rest d]
      rw [← h]; rfl
    | ok p =>
      obtain ⟨r, d1⟩ := p
      rw [hq] at h
      simp only [runAll_results cfg rest d1]
      rw [← h]; rfl

/-- A query run on an incoming vector `d` is the isolated run with `d` in front of its log. -/
theorem queryFrom_eq (cfg : Cfg) (src : List Char) (d : List Desc) :
    queryFrom cfg src d = (Eval.query cfg src).map (fun p => (p.1, d ++ p.2)) := by
  unfold queryFrom Eval.query
  cases parseRoot src with
  | error e => rfl
  | ok forest =>
    simp only [Except.map]
    congr 1
    simp only [queryLoop_eq, List.nil_append]

/-- What a query reports when evaluated alone. -/
def logAlone (cfg : Cfg) (q : Bool × List Char) : List Desc :=
  match Eval.query { cfg with describe := q.1 } q.2 with
  | .ok p => p.2
  | .error _ => []

/-- The shared vector after a history: the incoming vector followed by what each query reports
when evaluated alone, in the order of the history. -/
theorem runAll_log (cfg : Cfg) : ∀ (qs : List (Bool × List Char)) (d : List Desc),
    (runAll cfg qs d).2 = d ++ (qs.map (logAlone cfg)).flatten
  | [], d => by simp [runAll]
  | (b, src) :: rest, d => by
    have h := queryFrom_eq { cfg with describe := b } src d
    simp only [runAll, List.map_cons, List.flatten_cons, logAlone]
    cases hq : Eval.query { cfg with describe := b } src with
    | error e =>
      rw [hq] at h
      simp only [Except.map] at h
      simp only [h, runAll_log cfg rest d, List.nil_append]
    | ok p =>
      rw [hq] at h
      simp only [Except.map] at h
      simp only [h, runAll_log cfg rest (d ++ p.2), List.append_assoc]

/-! ### Small facts used by `Props/FactQuery` -/

instance (b : List Char) : Decidable (Blank b) := by unfold Blank; exact inferInstance

theorem renderQuery_fact (first : List Char) (more : More) (b0 b1 : List Char) :
    renderQuery (.fact first more) [b0, b1] = b0 ++ phraseText first more ++ b1 := by
  simp [renderQuery, render, Spec.Arith.nextBlank]

theorem queryLayout_fact (first : List Char) (more : More) (b0 b1 : List Char) (h0 : Blank b0)
    (h1 : Blank b1) : QueryLayoutOKF (.fact first more) [b0, b1] :=
  ⟨h0, trivial, h1⟩

theorem strip_err_inv {r : Except EvalErr Numeric} {k : ErrKind}
    (h : strip r = .error (.err k 0 0)) : ∃ s t, r = .error (.err k s t) := by
  cases r with
  | ok v => cases h
  | error e =>
    cases e with
    | err k' s t =>
      simp only [strip, stripErr, Except.error.injEq, EvalErr.err.injEq] at h
      exact ⟨s, t, by rw [h.1]⟩
    | panic s => cases h
    | unsupported s => cases h

theorem strip_ok_inv {r : Except EvalErr Numeric} {v : Numeric} (h : strip r = .ok v) :
    r = .ok v := by
  cases r with
  | ok w => exact h
  | error e => cases h

theorem foldF_bin {R : Tree → FExpr → Prop} {p : Nat} {acc e : FExpr} {ts : List Tree}
    (h : FoldF R p acc ts e) : ts ≠ [] ∨ (∃ op a b, acc = .bin op a b) → ∃ op a b, e = .bin op a b := by
  induction h with
  | nil p acc => intro h; exact h.elim (fun h => absurd rfl h) id
  | cons _ _ _ _ ih => intro _; exact ih (Or.inr ⟨_, _, _, rfl⟩)

/-- Inversion: the tree of a phrase. -/
theorem repF_fact_inv {x : Tree} {first : List Char} {more : More} (h : RepF x (.fact first more)) :
    x.kind = (if more = [] then Syntax.WORD else Syntax.SENTENCE) ∧ x.hasChildren = true ∧
      x.text = phraseText first more := by
  cases h with
  | fact hk hc ht => exact ⟨hk, hc, ht⟩
  | chain _ hne _ _ hf =>
    obtain ⟨op, a, b, h⟩ := foldF_bin hf (Or.inl hne)
    cases h

/-! ### The byte offset of a single phrase -/

theorem queryLoop_ws_off (cfg : Cfg) (W : List Tree) (hW : WSTrees W) (rest : List Tree) :
    ∀ (off : Nat) (d : List Desc), queryLoop cfg (kidsAt off (W ++ rest)) d =
      queryLoop cfg (kidsAt (off + utf8Len (Tree.textList W)) rest) d := by
  induction W with
  | nil => intro off d; simp [Tree.textList, utf8Len]
  | cons t W ih =>
    intro off d
    obtain ⟨id, text, rfl⟩ := hW t (by simp)
    have := ih (fun x hx => hW x (by simp [hx])) (off + (Tree.tok id .WHITESPACE text).len) d
    simp only [Tree.len, Tree.text] at this
    simp only [List.cons_append, kidsAt, queryLoop, Tree.kind, beq_self_eq_true, ↓reduceIte,
      Tree.textList, Tree.text, Tree.len, utf8Len_append]
    rw [this, Nat.add_assoc]

theorem leavesList_ws {W : List Tree} (h : WSTrees W) :
    ∀ t ∈ Tree.leavesList W, t.kind = .WHITESPACE := by
  induction W with
  | nil => intro t ht; simp [Tree.leavesList] at ht
  | cons x W ih =>
    intro t ht
    obtain ⟨id, text, rfl⟩ := h x (by simp)
    simp only [Tree.leavesList, Tree.leaves, List.singleton_append, List.mem_cons] at ht
    rcases ht with rfl | ht
    · rfl
    · exact ih (fun y hy => h y (by simp [hy])) t ht

/-- In the forest of a single phrase the leading blank leaves are exactly the white space typed
in front of the phrase. -/
theorem phrase_lead (first : List Char) (more : More) (b0 b1 : List Char)
    (hp : PhraseOK first more) (h0 : Blank b0) (h1 : Blank b1) (forest Wt Wt' : List Tree) (x : Tree)
    (hparse : parseRoot (b0 ++ phraseText first more ++ b1) = .ok forest)
    (hf : forest = Wt ++ [x] ++ Wt') (hWt : WSTrees Wt) (hx : x.text = phraseText first more) :
    Tree.textList Wt = b0 := by
  have hl := Props.C12.C12_parse_leaves _ forest hparse
  have hlex : Lexer.lex (b0 ++ phraseText first more ++ b1) =
      blankTok b0 ++ (⟨.WORD, first⟩ :: (moreToks more ++ blankTok b1)) := by
    have := lex_queryF (.fact first more) [b0, b1] hp (queryLayout_fact first more b0 b1 h0 h1)
    rw [renderQuery_fact] at this
    rw [this]
    simp [queryToksF, toksF, phraseToks, blank1, rest1, afterF, render, Spec.Arith.nextBlank]
  rw [hlex, hf, Tree.leavesList_append, Tree.leavesList_append, Tree.leavesList_singleton] at hl
  have hLws := leavesList_ws hWt
  have hXtext : (Tree.leaves x).flatMap Token.text = phraseText first more := by
    rw [← Tree.text_eq_leaves, hx]
  obtain ⟨c, r, hfirst, hwc, _⟩ := wordLit_head hp.1
  rw [Tree.textList_eq_leaves]
  by_cases hb : b0 = []
  · subst hb
    simp only [blankTok, ↓reduceIte, List.nil_append] at hl
    cases hL : Tree.leavesList Wt with
    | nil => simp
    | cons t L2 =>
      rw [hL] at hl
      simp only [List.cons_append, List.cons.injEq] at hl
      have := hLws t (by rw [hL]; simp)
      rw [hl.1] at this
      cases this
  · simp only [blankTok, hb, ↓reduceIte, List.singleton_append] at hl
    cases hL : Tree.leavesList Wt with
    | nil =>
      exfalso
      rw [hL] at hl
      simp only [List.nil_append] at hl
      cases hX : Tree.leaves x with
      | nil =>
        rw [hX] at hXtext
        simp [phraseText, hfirst] at hXtext
      | cons t X2 =>
        rw [hX] at hl hXtext
        simp only [List.cons_append, List.cons.injEq] at hl
        rw [hl.1] at hXtext
        cases b0 with
        | nil => exact hb rfl
        | cons w b0' =>
          simp only [List.flatMap_cons, List.cons_append, phraseText, hfirst,
            List.cons.injEq] at hXtext
          have hw := h0 w (by simp)
          rw [hXtext.1, QQ.wordChar_noWS hwc] at hw
          exact Bool.false_ne_true hw
    | cons t L2 =>
      rw [hL] at hl
      simp only [List.cons_append, List.cons.injEq] at hl
      cases L2 with
      | nil => simp [hl.1]
      | cons t2 L3 =>
        exfalso
        simp only [List.cons_append, List.cons.injEq] at hl
        have := hLws t2 (by rw [hL]; simp)
        rw [hl.2.1] at this
        cases this

/-- `Eval.query` on a single phrase, with the exact byte spans: the one result is the lookup of
the phrase at the node that starts after the leading white space and covers the phrase. -/
theorem query_phrase_exact (cfg : Cfg) (first : List Char) (more : More) (b0 b1 : List Char)
    (hp : PhraseOK first more) (h0 : Blank b0) (h1 : Blank b1) :
    Eval.query cfg (b0 ++ phraseText first more ++ b1) =
      .ok (match cfg.db (phraseText first more) with
        | .found c => ([.ok { value := c.value, unit := c.unit }],
            if cfg.describe then
              [{ phrase := phraseText first more, description := c.description }] else [])
        | .nothing => ([.error (.err .missing (utf8Len b0)
            (utf8Len b0 + utf8Len (phraseText first more)))], [])
        | .error => ([.error (.err .lookupError (utf8Len b0)
            (utf8Len b0 + utf8Len (phraseText first more)))], [])) := by
  obtain ⟨forest, hparse, Wt, x, Wt', hf, hWt, hWt', hx⟩ :=
    parse_renderF (.fact first more) [b0, b1] hp (queryLayout_fact first more b0 b1 h0 h1)
  rw [renderQuery_fact] at hparse
  obtain ⟨hk, hc, htx⟩ := repF_fact_inv hx
  have hlead := phrase_lead first more b0 b1 hp h0 h1 forest Wt Wt' x hparse hf hWt htx
  obtain ⟨off2, h2⟩ := queryLoop_ws cfg Wt' hWt' [] (0 + utf8Len b0 + x.len)
  have hev : ∀ d, eval cfg (2 * size x + 2) ⟨0 + utf8Len b0, x⟩ d =
      lookup cfg ⟨0 + utf8Len b0, x⟩ d := by
    intro d
    by_cases hm : more = []
    · simp only [hm, ↓reduceIte] at hk
      have : 2 * size x + 2 = (2 * size x + 1) + 1 := by omega
      rw [this]; simp only [eval, hk]
    · simp only [hm, ↓reduceIte] at hk
      have : 2 * size x + 2 = (2 * size x + 1) + 1 := by omega
      rw [this]; simp only [eval, hk]
  unfold Eval.query
  rw [hparse]
  simp only
  rw [hf, List.append_assoc, queryLoop_ws_off cfg Wt hWt, hlead]
  simp only [List.singleton_append, kidsAt, queryLoop, repF_kind hx, Bool.false_eq_true,
    ↓reduceIte, hev, lookup_apply, htx]
  have h2' := fun d => h2 d
  simp only [List.append_nil, kidsAt, queryLoop, Tree.len, htx, Nat.zero_add] at h2'
  simp only [At.stop, Tree.len, htx, Nat.zero_add]
  cases cfg.db (phraseText first more) with
  | found c =>
    simp only [h2']
    cases cfg.describe <;> simp
  | nothing => simp only [h2']
  | error => simp only [h2']

end Anything.FQ
