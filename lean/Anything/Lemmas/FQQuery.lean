import Anything.Lemmas.FQRoot
import Anything.Lemmas.FQEval
/-!
# Fact phrases end to end — `Eval.query` on rendered mixed expressions, and histories of queries
-/

namespace Anything.FQ
open Anything Anything.Eval Anything.Grammar Anything.Spec.Arith Anything.C06

/-- The run of the evaluator on the single tree of a forest, for every incoming log. -/
theorem queryLoop_forestF (cfg : Cfg) (forest : List Tree) (e : FExpr) (hF : ForestOKF forest e)
    (hl : LitsOKF e) :
    ∃ r, strip r = denote cfg e ∧ ∀ d, queryLoop cfg (kidsAt 0 forest) d =
      ([r], d ++ if cfg.describe then logD cfg e else []) := by
  obtain ⟨Wt, x, Wt', hf, hWt, hWt', hx⟩ := hF
  obtain ⟨off, h1⟩ := queryLoop_ws cfg Wt hWt ([x] ++ Wt') 0
  obtain ⟨off2, h2⟩ := queryLoop_ws cfg Wt' hWt' [] (off + x.len)
  obtain ⟨r, t, hr, -⟩ := (built_eval cfg cfg rfl (2 * size x + 2) ⟨off, x⟩).log
  have hsim := eval_repF cfg x e off (2 * size x + 2) [] hx hl (by omega)
  rw [hr [], evalD_run] at hsim
  obtain ⟨hs1, hs2⟩ := hsim
  simp only [List.nil_append] at hs1 hs2
  refine ⟨r, hs1, fun d => ?_⟩
  rw [hf, List.append_assoc, h1]
  simp only [List.singleton_append, kidsAt, queryLoop, repF_kind hx, Bool.false_eq_true,
    ↓reduceIte]
  have h2' := h2 (d ++ t)
  simp only [List.append_nil, kidsAt, queryLoop] at h2'
  rw [hr d, h2', hs2]

/-- `Eval.query` with an incoming description vector (a caller may reuse one vector across
queries; `Eval.query` is the case of the empty vector). -/
def queryFrom (cfg : Cfg) (src : List Char) (d : List Desc) :
    Except BErr (List (Except EvalErr Numeric) × List Desc) :=
  match parseRoot src with
  | .error e => .error e
  | .ok forest => .ok (queryLoop cfg (kidsAt 0 forest) d)

theorem queryFrom_nil (cfg : Cfg) (src : List Char) : queryFrom cfg src [] = Eval.query cfg src := rfl

/-- **Whole pipeline on a rendered mixed expression**, for every incoming description vector. -/
theorem queryFrom_renderF (cfg : Cfg) (e : FExpr) (ws : Layout) (hwf : WFF e)
    (hl : QueryLayoutOKF e ws) (hlit : LitsOKF e) :
    ∃ r, strip r = denote cfg e ∧ ∀ d, queryFrom cfg (renderQuery e ws) d =
      .ok ([r], d ++ if cfg.describe then logD cfg e else []) := by
  obtain ⟨forest, hparse, hF⟩ := parse_renderF e ws hwf hl
  obtain ⟨r, hr, hq⟩ := queryLoop_forestF cfg forest e hF hlit
  refine ⟨r, hr, fun d => ?_⟩
  unfold queryFrom
  rw [hparse]
  simp only [hq d]

theorem query_renderF (cfg : Cfg) (e : FExpr) (ws : Layout) (hwf : WFF e)
    (hl : QueryLayoutOKF e ws) (hlit : LitsOKF e) :
    ∃ r, strip r = denote cfg e ∧ Eval.query cfg (renderQuery e ws) =
      .ok ([r], if cfg.describe then logD cfg e else []) := by
  obtain ⟨r, hr, hq⟩ := queryFrom_renderF cfg e ws hwf hl hlit
  exact ⟨r, hr, by rw [← queryFrom_nil, hq []]; simp⟩

/-! ### Histories -/

/-- A history: query texts evaluated one after the other against ONE database, each with its own
`describe` flag, all sharing one description vector. Results per query, and the final vector. -/
def runAll (cfg : Cfg) :
    List (Bool × List Char) → List Desc →
      List (Except BErr (List (Except EvalErr Numeric))) × List Desc
  | [], d => ([], d)
  | (b, src) :: rest, d =>
    match queryFrom { cfg with describe := b } src d with
    | .error e => ((.error e) :: (runAll cfg rest d).1, (runAll cfg rest d).2)
    | .ok (r, d1) => ((.ok r) :: (runAll cfg rest d1).1, (runAll cfg rest d1).2)

/-- The results of a query do not depend on the incoming vector, nor on `describe`. -/
theorem queryFrom_results (cfg : Cfg) (b : Bool) (src : List Char) (d : List Desc) :
    (queryFrom { cfg with describe := b } src d).map Prod.fst =
      (Eval.query cfg src).map Prod.fst := by
  unfold queryFrom Eval.query
  cases parseRoot src with
  | error e => rfl
  | ok forest =>
    simp only [Except.map]
    congr 1
    simp only [queryLoop_eq]
    apply List.map_congr_left
    intro a _
    exact ((built_eval { cfg with describe := b } cfg rfl (qFuel a) a).sameVal rfl [] [])

theorem runAll_results (cfg : Cfg) : ∀ (qs : List (Bool × List Char)) (d : List Desc),
    (runAll cfg qs d).1 = qs.map (fun q => (Eval.query cfg q.2).map Prod.fst)
  | [], d => rfl
  | (b, src) :: rest, d => by
    have h := queryFrom_results cfg b src d
    simp only [runAll, List.map_cons]
    cases hq : queryFrom { cfg with describe := b } src d with
    | error e =>
      rw [hq] at h
      simp only [runAll_results cfg rest d]
      rw [← h]; rfl
    | ok p =>
      obtain ⟨r, d1⟩ := p
      rw [hq] at h
      simp only [runAll_results cfg rest d1]
      rw [← h]; rfl

/-- A query run on an incoming vector `d` is the isolated run with `d` in front of its log. -/
theorem queryFrom_eq (cfg : Cfg) (src : List Char) (d : List Desc) :
    queryFrom cfg src d = (Eval.query cfg src).map (fun p => (p.1, d ++ p.2)) := by
  unfold queryFrom Eval.query
  cases parseRoot src with
  | error e => rfl
  | ok forest =>
    simp only [Except.map]
    congr 1
    simp only [queryLoop_eq, List.nil_append]

/-- What a query reports when evaluated alone. -/
def logAlone (cfg : Cfg) (q : Bool × List Char) : List Desc :=
  match Eval.query { cfg with describe := q.1 } q.2 with
  | .ok p => p.2
  | .error _ => []

/-- The shared vector after a history: the incoming vector followed by what each query reports
when evaluated alone, in the order of the history. -/
theorem runAll_log (cfg : Cfg) : ∀ (qs : List (Bool × List Char)) (d : List Desc),
    (runAll cfg qs d).2 = d ++ (qs.map (logAlone cfg)).flatten
  | [], d => by simp [runAll]
  | (b, src) :: rest, d => by
    have h := queryFrom_eq { cfg with describe := b } src d
    simp only [runAll, List.map_cons, List.flatten_cons, logAlone]
    cases hq : Eval.query { cfg with describe := b } src with
    | error e =>
      rw [hq] at h
      simp only [Except.map] at h
      simp only [h, runAll_log cfg rest d, List.nil_append]
    | ok p =>
      rw [hq] at h
      simp only [Except.map] at h
      simp only [h, runAll_log cfg rest (d ++ p.2), List.append_assoc]

end Anything.FQ
