import Anything.Model.UnitWord
import Mathlib.Data.List.Basic
/-!
# The unit-word lexers: what a successful `UnitWord.parse` has consumed (C05)

Generic in the literal table: `longest` returns a row of the table whose literal is
a prefix of the input and no longer literal of the table is; the two loops consume
separator literals, then one prefix literal and/or one unit-name literal.
-/

namespace Anything.UnitWord
open Anything

abbrev Table := List (List Char × WordAction)

theorem isPrefix_append (a r : List Char) : isPrefix a (a ++ r) = true := by
  induction a with
  | nil => rfl
  | cons x xs ih => simp [isPrefix, ih]

theorem isPrefix_split {a s : List Char} (h : isPrefix a s = true) : s = a ++ s.drop a.length := by
  induction a generalizing s with
  | nil => simp
  | cons x xs ih =>
    cases s with
    | nil => simp [isPrefix] at h
    | cons y ys =>
      simp only [isPrefix, Bool.and_eq_true, beq_iff_eq] at h
      obtain ⟨rfl, h2⟩ := h
      simp only [List.length_cons, List.drop_succ_cons, List.cons_append, List.cons.injEq, true_and]
      exact ih h2

theorem isPrefix_iff {a s : List Char} : isPrefix a s = true ↔ ∃ r, s = a ++ r :=
  ⟨fun h => ⟨_, isPrefix_split h⟩, fun ⟨r, h⟩ => h ▸ isPrefix_append a r⟩

/-- `lit` is a longest literal of `table` that is a prefix of `s`. -/
def IsLongest (table : Table) (lit s : List Char) : Prop :=
  isPrefix lit s = true ∧ ∀ row ∈ table, isPrefix row.1 s = true → row.1.length ≤ lit.length

private abbrev stepFn (s : List Char) :=
  fun (best : Option (List Char × WordAction)) (row : List Char × WordAction) =>
    if isPrefix row.1 s then
      match best with
      | none => some row
      | some b => if b.1.length < row.1.length then some row else some b
    else best

theorem longest_aux (s : List Char) (l : Table) :
    ∀ (best : Option (List Char × WordAction)) (r : List Char × WordAction),
      l.foldl (stepFn s) best = some r →
      (best = some r ∨ (r ∈ l ∧ isPrefix r.1 s = true)) ∧
      (∀ b, best = some b → b.1.length ≤ r.1.length) ∧
      (∀ row ∈ l, isPrefix row.1 s = true → row.1.length ≤ r.1.length) := by
  induction l with
  | nil =>
    intro best r h
    simp only [List.foldl_nil] at h
    subst h
    refine ⟨Or.inl rfl, fun b hb => ?_, fun _ h => by simp at h⟩
    simp only [Option.some.injEq] at hb; subst hb; exact Nat.le_refl _
  | cons row rest ih =>
    intro best r h
    simp only [List.foldl_cons] at h
    obtain ⟨h1, h2, h3⟩ := ih _ r h
    by_cases hp : isPrefix row.1 s = true
    · cases best with
      | none =>
        simp only [stepFn, hp, ↓reduceIte] at h1 h2
        have hrow : row.1.length ≤ r.1.length := h2 row rfl
        refine ⟨?_, fun b hb => by simp at hb, ?_⟩
        · rcases h1 with h1 | ⟨h1, h1'⟩
          · simp only [Option.some.injEq] at h1; subst h1
            exact Or.inr ⟨List.mem_cons_self, hp⟩
          · exact Or.inr ⟨List.mem_cons_of_mem _ h1, h1'⟩
        · intro x hx hxp
          rcases List.mem_cons.mp hx with rfl | hx
          · exact hrow
          · exact h3 x hx hxp
      | some b =>
        simp only [stepFn, hp, ↓reduceIte] at h1 h2
        by_cases hlt : b.1.length < row.1.length
        · simp only [hlt, ↓reduceIte] at h1 h2
          have hrow : row.1.length ≤ r.1.length := h2 row rfl
          refine ⟨?_, fun b' hb' => ?_, ?_⟩
          · rcases h1 with h1 | ⟨h1, h1'⟩
            · simp only [Option.some.injEq] at h1; subst h1
              exact Or.inr ⟨List.mem_cons_self, hp⟩
            · exact Or.inr ⟨List.mem_cons_of_mem _ h1, h1'⟩
          · simp only [Option.some.injEq] at hb'; subst hb'; omega
          · intro x hx hxp
            rcases List.mem_cons.mp hx with rfl | hx
            · exact hrow
            · exact h3 x hx hxp
        · simp only [hlt, ↓reduceIte] at h1 h2
          have hb : b.1.length ≤ r.1.length := h2 b rfl
          refine ⟨?_, fun b' hb' => ?_, ?_⟩
          · rcases h1 with h1 | ⟨h1, h1'⟩
            · exact Or.inl h1
            · exact Or.inr ⟨List.mem_cons_of_mem _ h1, h1'⟩
          · simp only [Option.some.injEq] at hb'; subst hb'; exact hb
          · intro x hx hxp
            rcases List.mem_cons.mp hx with rfl | hx
            · omega
            · exact h3 x hx hxp
    · have hp' : isPrefix row.1 s = false := by simpa using hp
      simp only [stepFn, hp', Bool.false_eq_true, ↓reduceIte] at h1 h2
      refine ⟨?_, h2, ?_⟩
      · rcases h1 with h1 | ⟨h1, h1'⟩
        · exact Or.inl h1
        · exact Or.inr ⟨List.mem_cons_of_mem _ h1, h1'⟩
      · intro x hx hxp
        rcases List.mem_cons.mp hx with rfl | hx
        · rw [hp'] at hxp; exact absurd hxp (by simp)
        · exact h3 x hx hxp

/-- `longest` returns a row of the table; its literal is a prefix of the input and
no literal of the table that is a prefix of the input is longer. -/
theorem longest_some {table : Table} {s : List Char} {r : List Char × WordAction}
    (h : longest table s = some r) : r ∈ table ∧ IsLongest table r.1 s := by
  obtain ⟨h1, _, h3⟩ := longest_aux s table none r h
  rcases h1 with h1 | ⟨h1, h1'⟩
  · simp at h1
  · exact ⟨h1, h1', h3⟩

theorem longest_aux_none (s : List Char) (l : Table) :
    ∀ (best : Option (List Char × WordAction)), l.foldl (stepFn s) best = none →
      best = none ∧ ∀ row ∈ l, isPrefix row.1 s = false := by
  induction l with
  | nil => intro best h; exact ⟨h, fun _ h => by simp at h⟩
  | cons row rest ih =>
    intro best h
    simp only [List.foldl_cons] at h
    obtain ⟨h1, h2⟩ := ih _ h
    by_cases hp : isPrefix row.1 s = true
    · cases best <;> simp only [stepFn, hp, ↓reduceIte] at h1
      · simp at h1
      · split at h1 <;> simp at h1
    · have hp' : isPrefix row.1 s = false := by simpa using hp
      simp only [stepFn, hp', Bool.false_eq_true, ↓reduceIte] at h1
      refine ⟨h1, fun x hx => ?_⟩
      rcases List.mem_cons.mp hx with rfl | hx
      · exact hp'
      · exact h2 x hx

/-- `longest` fails only when no literal of the table is a prefix of the input. -/
theorem longest_none {table : Table} {s : List Char} (h : longest table s = none) :
    ∀ row ∈ table, isPrefix row.1 s = false :=
  (longest_aux_none s table none h).2

/-- A concatenation of non-empty separator literals of `table`. -/
inductive Seps (table : Table) : List Char → Prop
  | nil : Seps table []
  | cons {lit r : List Char} : (lit, WordAction.sep) ∈ table → lit ≠ [] → Seps table r →
      Seps table (lit ++ r)

/-- First loop, `Done` outcome: separators, then either a unit literal (its bias added
to the prefix) or a prefix literal with a stand-alone meaning and nothing after it. -/
theorem phase1_done {table : Table} {fuel : Nat} {pfx : Int} {s rest : List Char} {p : Int} {u : UnitKey}
    (h : phase1 table fuel pfx s = .done rest p u) :
    ∃ seps lit, Seps table seps ∧ s = seps ++ lit ++ rest ∧ IsLongest table lit (lit ++ rest) ∧
      ((∃ bias, (lit, WordAction.unit u bias) ∈ table ∧ p = pfx + bias) ∨
       (∃ q bias, (lit, WordAction.pfx q (some (u, bias))) ∈ table ∧ rest = [] ∧ p = pfx + bias)) := by
  induction fuel generalizing s with
  | zero => simp [phase1] at h
  | succ fuel ih =>
    simp only [phase1] at h
    split at h
    · simp at h
    · split at h
      · simp at h
      · rename_i lit u' bias hl
        obtain ⟨hm, hlong⟩ := longest_some hl
        have hs := isPrefix_split hlong.1
        simp only [Phase1.done.injEq] at h
        obtain ⟨h1, h2, h3⟩ := h
        subst h1 h2 h3
        refine ⟨[], lit, Seps.nil, by simpa using hs, ?_, Or.inl ⟨bias, hm, rfl⟩⟩
        simp only at hs hlong
        rw [← hs]; exact hlong
      · rename_i lit q alone hl
        obtain ⟨hm, hlong⟩ := longest_some hl
        have hs := isPrefix_split hlong.1
        simp only at hs hlong hm
        split at h
        · rename_i u' bias he
          simp only [Phase1.done.injEq] at h
          obtain ⟨h1, h2, h3⟩ := h
          subst h1 h2 h3
          have he' : s.drop lit.length = [] := by simpa using he
          refine ⟨[], lit, Seps.nil, by rw [he'] at hs; simpa using hs, ?_,
            Or.inr ⟨q, bias, hm, rfl, rfl⟩⟩
          rw [he'] at hs
          rw [← hs]; exact hlong
        · simp at h
      · rename_i lit hl
        obtain ⟨hm, hlong⟩ := longest_some hl
        have hs := isPrefix_split hlong.1
        simp only at hs hlong hm
        split at h
        · simp at h
        · rename_i hne
          obtain ⟨seps, lit', hsep, hs', hlong', hcase⟩ := ih h
          refine ⟨lit ++ seps, lit', Seps.cons hm (by simpa using hne) hsep, ?_, hlong', hcase⟩
          rw [hs, hs']
          simp [List.append_assoc]

/-- First loop, "continue with the `Units` lexer" outcome: separators, then a prefix
literal whose exponent is added. -/
theorem phase1_cont {table : Table} {fuel : Nat} {pfx : Int} {s rest : List Char} {p : Int}
    (h : phase1 table fuel pfx s = .cont rest p) :
    ∃ seps lit q alone, Seps table seps ∧ s = seps ++ lit ++ rest ∧ IsLongest table lit (lit ++ rest) ∧
      (lit, WordAction.pfx q alone) ∈ table ∧ p = pfx + q ∧ (rest = [] → alone = none) := by
  induction fuel generalizing s with
  | zero => simp [phase1] at h
  | succ fuel ih =>
    simp only [phase1] at h
    split at h
    · simp at h
    · split at h
      · simp at h
      · simp at h
      · rename_i lit q alone hl
        obtain ⟨hm, hlong⟩ := longest_some hl
        have hs := isPrefix_split hlong.1
        simp only at hs hlong hm
        split at h
        · simp at h
        · rename_i alone _ _ hcase
          simp only [Phase1.cont.injEq] at h
          obtain ⟨h1, h2⟩ := h
          subst h1 h2
          refine ⟨[], lit, q, alone, Seps.nil, by simpa using hs, ?_, hm, rfl, ?_⟩
          · rw [← hs]; exact hlong
          · intro he
            cases alone with
            | none => rfl
            | some ub =>
              exfalso
              exact hcase ub.1 ub.2 (by simp [he]) rfl
      · rename_i lit hl
        obtain ⟨hm, hlong⟩ := longest_some hl
        have hs := isPrefix_split hlong.1
        simp only at hs hlong hm
        split at h
        · simp at h
        · rename_i hne
          obtain ⟨seps, lit', q, alone, hsep, hs', hlong', hrest⟩ := ih h
          refine ⟨lit ++ seps, lit', q, alone, Seps.cons hm (by simpa using hne) hsep, ?_, hlong', hrest⟩
          rw [hs, hs']
          simp [List.append_assoc]

/-- Second loop: separators, then a unit literal. -/
theorem phase2_some {table : Table} {fuel : Nat} {pfx : Int} {s rest : List Char} {p : Int} {u : UnitKey}
    (h : phase2 table fuel pfx s = some (rest, p, u)) :
    ∃ seps lit bias, Seps table seps ∧ s = seps ++ lit ++ rest ∧ IsLongest table lit (lit ++ rest) ∧
      (lit, WordAction.unit u bias) ∈ table ∧ p = pfx + bias := by
  induction fuel generalizing s with
  | zero => simp [phase2] at h
  | succ fuel ih =>
    simp only [phase2] at h
    split at h
    · simp at h
    · split at h
      · simp at h
      · rename_i lit u' bias hl
        obtain ⟨hm, hlong⟩ := longest_some hl
        have hs := isPrefix_split hlong.1
        simp only at hs hlong hm
        simp only [Option.some.injEq, Prod.mk.injEq] at h
        obtain ⟨h1, h2, h3⟩ := h
        subst h1 h2 h3
        refine ⟨[], lit, bias, Seps.nil, by simpa using hs, ?_, hm, rfl⟩
        rw [← hs]; exact hlong
      · simp at h
      · rename_i lit hl
        obtain ⟨hm, hlong⟩ := longest_some hl
        have hs := isPrefix_split hlong.1
        simp only at hs hlong hm
        split at h
        · simp at h
        · rename_i hne
          obtain ⟨seps, lit', bias, hsep, hs', hrest⟩ := ih h
          refine ⟨lit ++ seps, lit', bias, Seps.cons hm (by simpa using hne) hsep, ?_, hrest⟩
          rw [hs, hs']
          simp [List.append_assoc]

/-- When `-` is the only separator literal, a run of separators is a run of dashes. -/
theorem Seps.replicate {table : Table} (hsep : ∀ lit, (lit, WordAction.sep) ∈ table → lit = ['-'])
    {seps : List Char} (h : Seps table seps) : ∃ k, seps = List.replicate k '-' := by
  induction h with
  | nil => exact ⟨0, rfl⟩
  | cons hm _ _ ih =>
    obtain ⟨k, hk⟩ := ih
    refine ⟨k + 1, ?_⟩
    rw [hsep _ hm, hk]
    rfl

theorem length_lt_of_split {s seps lit rest : List Char} (h : s = seps ++ lit ++ rest) (hl : lit ≠ []) :
    rest.length < s.length := by
  subst h
  have : 0 < lit.length := List.length_pos_iff.mpr hl
  simp only [List.length_append]
  omega

end Anything.UnitWord
