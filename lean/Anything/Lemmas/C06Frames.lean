import Anything.Lemmas.C06Defs
import Anything.Lemmas.C06Shift
import Anything.Lemmas.C06Builder
/-!
# C06, stage D — the operator stack against the forest

`StackOK b n G stack st`: the part `G` of the forest built by the current `operation` (it starts
at forest position `n`) is the concatenation of one segment per stack frame, bottom frame first;
the segment of a frame `(cell, priority, _)` matched with the abstract frame `(acc, o)` of the
specification-level machine (`Lemmas/C06Shift.lean`) reads `x₀ o₁ x₁ … oₖ xₖ o` — an operand
chain representing `acc`, all of whose operators have the priority of `o` (`RepresentsL`,
`FoldRL`), followed by the node of the pending operator `o` — and the frame's checkpoint cell
points at the start of the segment.
-/

namespace Anything.C06
open Anything Anything.Parser Anything.Grammar Anything.PTotal Anything.Spec.Arith

/-! ### Segments -/

theorem opKids_append (a b : List Tree) : opKids (a ++ b) = opKids a ++ opKids b := by
  simp [opKids]

theorem opKids_ws {W : List Tree} (h : WSTrees W) : opKids W = [] := by
  simp only [opKids, List.filter_eq_nil_iff]
  intro t ht
  obtain ⟨id, text, rfl⟩ := h t ht
  simp [Tree.hasChildren]

theorem foldRL_snoc {R : Tree → NExpr → Prop} {p : Nat} {acc e b : NExpr} {ts : List Tree}
    {o x : Tree} {op : BinOp} (h : FoldRL R p acc ts e) (ho : o.kind = opKind op)
    (hp : op.prio = p) (hx : R x b) : FoldRL R p acc (ts ++ [o, x]) (.bin op e b) := by
  induction h with
  | nil p acc => exact .cons ho hp hx (.nil _ _)
  | cons h1 h2 h3 _ ih => exact .cons h1 h2 h3 (ih hp)

/-- An operand chain of level `p` without a pending operator. -/
def OpenSeg (p : Nat) (Y : List Tree) (v : NExpr) : Prop :=
  ∃ y ys e₀, opKids Y = y :: ys ∧ RepresentsL y e₀ ∧ FoldRL RepresentsL p e₀ ys v

/-- An operand chain of the level of `o` followed by the node of the pending operator `o`. -/
def SegOK (S : List Tree) (acc : NExpr) (o : BinOp) : Prop :=
  ∃ y ys e₀ on, opKids S = y :: (ys ++ [on]) ∧ RepresentsL y e₀ ∧
    FoldRL RepresentsL o.prio e₀ ys acc ∧ on.kind = opKind o

theorem node_hasChildren {id : Nat} {k : Syntax} {ks : List Tree} {x : Tree} {r : List Tree}
    (h : opKids ks = x :: r) : (Tree.node id k ks).hasChildren = true := by
  cases ks with
  | nil => simp [opKids] at h
  | cons _ _ => rfl

theorem hasChildren_of_represents {x : Tree} {e : NExpr} (h : RepresentsL x e) :
    x.hasChildren = true := by
  cases h with
  | num _ hc _ _ => exact hc
  | pct _ _ _ => rfl
  | paren hk _ => exact node_hasChildren hk
  | chain hk _ _ _ => exact node_hasChildren hk
  | call0 hk => exact node_hasChildren hk
  | call hk _ _ _ _ => exact node_hasChildren hk

theorem opKids_single {x : Tree} (h : x.hasChildren = true) : opKids [x] = [x] := by
  simp [opKids, h]

theorem openSeg_single {W : List Tree} {x : Tree} {e : NExpr} (p : Nat) (hW : WSTrees W)
    (hx : RepresentsL x e) : OpenSeg p (W ++ [x]) e :=
  ⟨x, [], e, by rw [opKids_append, opKids_ws hW, opKids_single (hasChildren_of_represents hx)]; rfl,
    hx, .nil _ _⟩

theorem segOK_ws {S W : List Tree} {acc : NExpr} {o : BinOp} (h : SegOK S acc o) (hW : WSTrees W) :
    SegOK (S ++ W) acc o := by
  obtain ⟨y, ys, e₀, on, hk, hy, hf, ho⟩ := h
  exact ⟨y, ys, e₀, on, by rw [opKids_append, opKids_ws hW, hk]; simp, hy, hf, ho⟩

/-- Equal priority: the frame absorbs the operand. -/
theorem segOK_extend {S : List Tree} {x : Tree} {acc b : NExpr} {o : BinOp} (h : SegOK S acc o)
    (hx : RepresentsL x b) : OpenSeg o.prio (S ++ [x]) (.bin o acc b) := by
  obtain ⟨y, ys, e₀, on, hk, hy, hf, ho⟩ := h
  refine ⟨y, ys ++ [on, x], e₀, ?_, hy, foldRL_snoc hf ho rfl hx⟩
  rw [opKids_append, hk, opKids_single (hasChildren_of_represents hx)]
  simp

/-- Higher priority on the stack: the frame is closed into one OPERATION node, all of whose
operators have the priority of the frame. -/
theorem segOK_close {S : List Tree} {x : Tree} {acc b : NExpr} {o : BinOp} (id : Nat)
    (h : SegOK S acc o) (hx : RepresentsL x b) :
    RepresentsL (.node id .OPERATION (S ++ [x])) (.bin o acc b) := by
  obtain ⟨y, ys, e₀, hk, hy, hf⟩ := segOK_extend h hx
  refine .chain hk ?_ hy hf
  intro hnil
  subst hnil
  obtain ⟨y', ys', e₀', on, hk', _, _, _⟩ := h
  rw [opKids_append, hk', opKids_single (hasChildren_of_represents hx)] at hk
  simp at hk

/-- The operator node is appended: an open segment becomes a frame segment. -/
theorem openSeg_op {Y W : List Tree} {on : Tree} {v : NExpr} {o : BinOp} (h : OpenSeg o.prio Y v)
    (hW : WSTrees W) (hon : on.kind = opKind o) (hc : on.hasChildren = true) :
    SegOK (Y ++ W ++ [on]) v o := by
  obtain ⟨y, ys, e₀, hk, hy, hf⟩ := h
  exact ⟨y, ys, e₀, on, by
    rw [opKids_append, opKids_append, opKids_ws hW, hk, opKids_single hc]; simp, hy, hf, hon⟩

/-! ### The stack -/

inductive StackOK (b : Builder) (n : Nat) :
    List Tree → List (Nat × Nat × Bool) → Stack → Prop
  | nil : StackOK b n [] [] []
  | cons {G S : List Tree} {c : Nat} {acc : NExpr} {o : BinOp}
      {stack : List (Nat × Nat × Bool)} {st : Stack} :
      StackOK b n G stack st → SegOK S acc o → Pos b c (n + G.length) →
      StackOK b n (G ++ S) ((c, o.prio, false) :: stack) ((acc, o) :: st)

theorem StackOK.mono {b b' : Builder} {n : Nat} {G : List Tree}
    {stack : List (Nat × Nat × Bool)} {st : Stack} (h : StackOK b n G stack st)
    (he : Ext (n + G.length) b b') : StackOK b' n G stack st := by
  induction h with
  | nil => exact .nil
  | @cons G S c acc o stack st _ hseg hpos ih =>
    have hle : n + G.length ≤ n + (G ++ S).length := by simp
    exact .cons (ih (he.mono hle)) hseg (he.pos c _ hle hpos)

theorem StackOK.ws {b : Builder} {n : Nat} {G W : List Tree}
    {stack : List (Nat × Nat × Bool)} {st : Stack} (h : StackOK b n G stack st)
    (hne : st ≠ []) (hW : WSTrees W) : StackOK b n (G ++ W) stack st := by
  cases h with
  | nil => exact absurd rfl hne
  | cons h1 hseg hpos =>
    rw [List.append_assoc]
    exact .cons h1 (segOK_ws hseg hW) hpos

theorem StackOK.stack_ne {b : Builder} {n : Nat} {G : List Tree}
    {stack : List (Nat × Nat × Bool)} {st : Stack} (h : StackOK b n G stack st)
    (hne : st ≠ []) : stack ≠ [] := by
  cases h with
  | nil => exact absurd rfl hne
  | cons _ _ _ => simp

end Anything.C06
