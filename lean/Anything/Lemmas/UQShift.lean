import Anything.Lemmas.UQDefs
import Anything.Lemmas.QQShift
/-!
# The unified expression language — precedence climbing

The specification-level machine of `Lemmas/QQShift.lean` (`flatQ`, `reduceQ`, `runQ`, `closeAllQ`)
is used unchanged; its correctness is re-proved for `WFS` (phrases are atoms), and the last operand
read is shown to be an atom (`AtomOpd`).
-/

namespace Anything.UQ
open Anything.Spec Anything.Spec.Arith Anything.Spec.Quantity Anything.C06 Anything.QQ

theorem run_flatU : ∀ (e : QExpr), WFS e → ∀ st : StackQ, topPrioQ st < qprio e →
    EquivQ (qprio e) (runQ st (flatQ e).1 (flatQ e).2) (st, .ex e)
  | .num l, _, st, _ => ⟨fun _ _ => rfl, rfl⟩
  | .qty l u, _, st, _ => ⟨fun _ _ => rfl, rfl⟩
  | .paren e, _, st, _ => ⟨fun _ _ => rfl, rfl⟩
  | .fact _ _ _, _, st, _ => ⟨fun _ _ => rfl, rfl⟩
  | .cast a u, hwf, st, hst => by
    simp only [WFS] at hwf
    simp only [qprio] at hst ⊢
    have hnil := topPrioQ_lt_one hst
    subst hnil
    have ea := run_flatU a hwf [] (by simpa [topPrioQ] using qprio_pos a)
    simp only [flatQ, runQ_append, runQ]
    rw [ea.1 .cast (by have := qprio_pos a; simp only [QOp.prio_cast]; omega)]
    refine ⟨fun op hop => ?_, ?_⟩
    · have h1 : ¬ op.prio < 1 := by have := qop_prio_pos op; omega
      have h2 : ¬ 1 < op.prio := by omega
      simp only [reduceQ, QOp.prio_cast, h1, h2, ↓reduceIte, mk, QOpd.get]
    · simp only [reduceQ, closeAllQ, mk, QOpd.get]
  | .bin o a b, hwf, st, hst => by
    simp only [WFS] at hwf
    obtain ⟨wa, wb, hpa, hpb⟩ := hwf
    simp only [qprio] at hst ⊢
    have ea := run_flatU a wa st (by omega)
    simp only [flatQ, runQ_append, runQ]
    rw [ea.1 (.bin o) hpa, reduceQ_push (.ex a) (.bin o) st hst]
    have eb := run_flatU b wb ((a, .bin o) :: st) (by simpa only [topPrioQ, QOp.prio_bin] using hpb)
    simp only [QOpd.get] at eb ⊢
    refine ⟨fun op hop => ?_, ?_⟩
    · rw [eb.1 op (by omega)]
      simp only [reduceQ, QOp.prio_bin]
      by_cases hlt : op.prio < o.prio
      · simp only [hlt, ↓reduceIte, mk]
      · have heq : ¬ o.prio < op.prio := by omega
        simp only [hlt, heq, ↓reduceIte, mk]
        rw [reduceQ_push _ op st (by omega)]
        rfl
    · rw [eb.2]; rfl

/-- **Precedence-climbing correctness.** -/
theorem closeAll_run_flatU (e : QExpr) (hwf : WFS e) :
    closeAllQ (runQ [] (flatQ e).1 (flatQ e).2).2 (runQ [] (flatQ e).1 (flatQ e).2).1 = .ex e := by
  have := (run_flatU e hwf [] (by simpa [topPrioQ] using qprio_pos e)).2
  simpa [closeAllQ] using this

theorem wt_runU : ∀ (e : QExpr), WFS e → ∀ st : StackQ, NoTo st →
    WTq (runQ st (flatQ e).1 (flatQ e).2).1 (runQ st (flatQ e).1 (flatQ e).2).2 ∧
    (2 ≤ qprio e → ∃ x, (runQ st (flatQ e).1 (flatQ e).2).2 = .ex x)
  | .num l, _, st, h => ⟨h, fun _ => ⟨_, rfl⟩⟩
  | .qty l u, _, st, h => ⟨h, fun _ => ⟨_, rfl⟩⟩
  | .paren e, _, st, h => ⟨h, fun _ => ⟨_, rfl⟩⟩
  | .fact _ _ _, _, st, h => ⟨h, fun _ => ⟨_, rfl⟩⟩
  | .cast a u, hwf, st, h => by
    simp only [WFS] at hwf
    obtain ⟨wa, _⟩ := wt_runU a hwf st h
    obtain ⟨v, hv⟩ := reduceQ_to _ _ wa
    simp only [flatQ, runQ_append, runQ, hv, qprio]
    exact ⟨⟨v, rfl⟩, fun h => by omega⟩
  | .bin o a b, hwf, st, h => by
    simp only [WFS] at hwf
    obtain ⟨wfa, wfb, hpa, hpb⟩ := hwf
    have h2 := two_le_prio o
    obtain ⟨wa, xa⟩ := wt_runU a wfa st h
    obtain ⟨x, hx⟩ := xa (by omega)
    rw [hx] at wa
    have hn : NoTo (reduceQ (.ex x) (.bin o) (runQ st (flatQ a).1 (flatQ a).2).1) :=
      noTo_reduce o _ _ wa
    obtain ⟨wb, xb⟩ := wt_runU b wfb _ hn
    simp only [flatQ, runQ_append, runQ, hx]
    exact ⟨wb, fun _ => xb (by omega)⟩

/-! ### The last operand read is an atom -/

/-- An operand that `Grammar.value` / `Grammar.unit` reads in one go: an expression that is not
an operator application, or a unit. -/
def AtomOpd : QOpd → Prop
  | .ex e => qprio e = 100
  | .un _ => True

theorem prio_lt_100 (op : BinOp) : op.prio < 100 := by cases op <;> decide

theorem qop_prio_lt_100 (op : QOp) : op.prio < 100 := by
  cases op with
  | bin b => exact prio_lt_100 b
  | cast => decide

theorem runQ_last_atom : ∀ (l : List (QOp × QOpd)) (st : StackQ) (cur : QOpd),
    AtomOpd cur → (∀ x ∈ l, AtomOpd x.2) → AtomOpd (runQ st cur l).2
  | [], _, _, h, _ => h
  | (op, x) :: rest, st, cur, _, hl =>
    runQ_last_atom rest _ x (hl (op, x) (by simp)) (fun y hy => hl y (by simp [hy]))

theorem flatQ_atoms : ∀ e : QExpr, AtomOpd (flatQ e).1 ∧ ∀ x ∈ (flatQ e).2, AtomOpd x.2
  | .num _ => ⟨rfl, fun _ h => nomatch h⟩
  | .qty _ _ => ⟨rfl, fun _ h => nomatch h⟩
  | .paren _ => ⟨rfl, fun _ h => nomatch h⟩
  | .fact _ _ _ => ⟨rfl, fun _ h => nomatch h⟩
  | .cast a u => by
    obtain ⟨h1, h2⟩ := flatQ_atoms a
    refine ⟨h1, fun x hx => ?_⟩
    simp only [flatQ, List.mem_append, List.mem_singleton] at hx
    rcases hx with hx | rfl
    · exact h2 x hx
    · trivial
  | .bin op a b => by
    obtain ⟨h1, h2⟩ := flatQ_atoms a
    obtain ⟨h3, h4⟩ := flatQ_atoms b
    refine ⟨h1, fun x hx => ?_⟩
    simp only [flatQ, List.mem_append, List.mem_cons] at hx
    rcases hx with hx | rfl | hx
    · exact h2 x hx
    · exact h3
    · exact h4 x hx

/-- After reading the flat form of any expression the current operand is an atom. -/
theorem run_flat_atom (e : QExpr) (st : StackQ) :
    AtomOpd (runQ st (flatQ e).1 (flatQ e).2).2 :=
  runQ_last_atom _ st _ (flatQ_atoms e).1 (flatQ_atoms e).2

end Anything.UQ
