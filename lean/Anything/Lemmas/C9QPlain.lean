import Anything.Lemmas.C9QTemp
/-!
# C09 end to end — a lone scale next to another lone scale or a plain number

Where no offset scale is misused nothing is refused: `x s ± y t` converts the right operand, as a
POINT, to the left unit (`Eval.add` goes through `Compound.factor`, `C09_convert`); a plain number
next to a temperature adopts its unit under `+`, `-` and scales it under `*`, `/` — no zero point
is involved.
-/

namespace Anything.C9Q
open Anything Anything.Eval Anything.Spec Anything.Spec.Arith Anything.Spec.Decimal
open Anything.Spec.Quantity Anything.Spec.SI Anything.C06 Anything.QQ Anything.Props.C09

/-- `+` / `-` of two lone scales: the right operand is converted, as a POINT, to the left unit. -/
theorem addQ_cmp (s : TScale) (p : Int) (t : TScale) (q : Int) (x y : Rat) (sub : Bool) :
    addQ { value := x, unit := cmp s p } { value := y, unit := cmp t q } sub =
      some { value := if sub then x - fromK s (toK t (y * (10 : Rat) ^ q)) / (10 : Rat) ^ p
                      else x + fromK s (toK t (y * (10 : Rat) ^ q)) / (10 : Rat) ^ p,
             unit := cmp s p } := by
  have := C09_convert s p t q y
  unfold convert at this
  simp only [addQ, this]
  rfl

theorem addQ_plain_right (s : TScale) (p : Int) (x y : Rat) (sub : Bool) :
    addQ { value := x, unit := cmp s p } { value := y, unit := [] } sub =
      some { value := if sub then x - y else x + y, unit := cmp s p } := by
  simp [addQ, Compound.factor, Props.C09.cmp]

theorem addQ_plain_left (s : TScale) (p : Int) (x y : Rat) (sub : Bool) :
    addQ { value := y, unit := [] } { value := x, unit := cmp s p } sub =
      some { value := if sub then y - x else y + x, unit := cmp s p } := by
  simp [addQ, Compound.factor, Props.C09.cmp]

theorem mulQ_plain_right (cfg : Cfg) (s : TScale) (p : Int) (x y : Rat) :
    mulDivQ cfg { value := x, unit := cmp s p } { value := y, unit := [] } false =
      some { value := x * y, unit := cmp s p } := by
  simp [mulDivQ, Compound.mul, Props.C09.cmp]

theorem mulQ_plain_left (cfg : Cfg) (s : TScale) (p : Int) (x y : Rat) :
    mulDivQ cfg { value := y, unit := [] } { value := x, unit := cmp s p } false =
      some { value := y * x, unit := cmp s p } := by
  simp [mulDivQ, Compound.mul, Props.C09.cmp]

theorem divQ_plain_right (cfg : Cfg) (s : TScale) (p : Int) (x y : Rat) (hy : y ≠ 0) :
    mulDivQ cfg { value := x, unit := cmp s p } { value := y, unit := [] } true =
      some { value := x / y, unit := cmp s p } := by
  simp [mulDivQ, Compound.mul, Props.C09.cmp, hy]

/-- `x s + y t`, `x s - y t` for lone written scales. -/
theorem evQ_sum_lone (cfg : Cfg) (op : BinOp) (hop : op = .add ∨ op = .sub) (l₁ l₂ : Literal)
    {s t : TScale} {p q : Int} {t₁ t₂ : RTerm} (h₁ : Written s p t₁) (h₂ : Written t q t₂) :
    evQ cfg (.bin op (.qty l₁ [t₁]) (.qty l₂ [t₂])) =
      some { value :=
               if op = .sub then value l₁ - fromK s (toK t (value l₂ * (10 : Rat) ^ q)) / (10 : Rat) ^ p
               else value l₁ + fromK s (toK t (value l₂ * (10 : Rat) ^ q)) / (10 : Rat) ^ p,
             unit := cmp s p } := by
  simp only [evQ, unitOf_written h₁, unitOf_written h₂, Option.map_some]
  rcases hop with rfl | rfl <;> simp [binQ, addQ_cmp]

/-- `x s + y`, `x s - y`, `y + x s`, `y - x s`: the plain number adopts the unit. -/
theorem evQ_plain_addsub (cfg : Cfg) (op : BinOp) (hop : op = .add ∨ op = .sub) (l₁ l₂ : Literal)
    {s : TScale} {p : Int} {t₁ : RTerm} (h₁ : Written s p t₁) :
    evQ cfg (.bin op (.qty l₁ [t₁]) (.num l₂)) =
      some { value := if op = .sub then value l₁ - value l₂ else value l₁ + value l₂,
             unit := cmp s p } ∧
    evQ cfg (.bin op (.num l₂) (.qty l₁ [t₁])) =
      some { value := if op = .sub then value l₂ - value l₁ else value l₂ + value l₁,
             unit := cmp s p } := by
  simp only [evQ, unitOf_written h₁, Option.map_some]
  rcases hop with rfl | rfl <;> simp [binQ, addQ_plain_right, addQ_plain_left]

/-- `x s * y`, `y * x s`, `x s / y`: the plain number scales the value, the unit stays. -/
theorem evQ_plain_muldiv (cfg : Cfg) (l₁ l₂ : Literal) {s : TScale} {p : Int} {t₁ : RTerm}
    (h₁ : Written s p t₁) :
    evQ cfg (.bin .mul (.qty l₁ [t₁]) (.num l₂)) =
      some { value := value l₁ * value l₂, unit := cmp s p } ∧
    evQ cfg (.bin .mul (.num l₂) (.qty l₁ [t₁])) =
      some { value := value l₂ * value l₁, unit := cmp s p } ∧
    (value l₂ ≠ 0 → evQ cfg (.bin .div (.qty l₁ [t₁]) (.num l₂)) =
      some { value := value l₁ / value l₂, unit := cmp s p }) := by
  simp only [evQ, unitOf_written h₁, Option.map_some, binQ, mulQ_plain_right, mulQ_plain_left]
  exact ⟨trivial, trivial, fun hy => divQ_plain_right cfg s p _ _ hy⟩

end Anything.C9Q
