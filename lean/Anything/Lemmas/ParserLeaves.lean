import Anything.Model.Grammar
/-!
# The token stream is invariant under every parser operation

`stream s` is the sequence of leaves already in the builder's forest followed by
the tokens still in the buffer. Every primitive of `Model/Parser.lean` and every
grammar function of `Model/Grammar.lean` leaves it unchanged whenever it returns
`.ok` (`Pres`), because tokens only ever move from the front of the buffer to the
end of the forest and `closeAt` only regroups a suffix of the forest.
-/

namespace Anything
namespace Tree

theorem leavesList_append (a b : List Tree) :
    leavesList (a ++ b) = leavesList a ++ leavesList b := by
  induction a with
  | nil => simp [leavesList]
  | cons t ts ih => simp [leavesList, ih]

theorem leavesList_singleton (t : Tree) : leavesList [t] = leaves t := by
  simp [leavesList]

theorem leavesList_wrap (f : List Tree) (i id : Nat) (k : Syntax) :
    leavesList (f.take i ++ [.node id k (f.drop i)]) = leavesList f := by
  rw [leavesList_append, leavesList_singleton, leaves, ← leavesList_append, List.take_append_drop]

mutual
theorem text_eq_leaves : ∀ t : Tree, t.text = (leaves t).flatMap Token.text
  | .tok _ _ _ => by simp [text, leaves]
  | .node _ _ ks => by simp only [text, leaves]; exact textList_eq_leaves ks
theorem textList_eq_leaves : ∀ ts : List Tree, textList ts = (leavesList ts).flatMap Token.text
  | [] => by simp [textList, leavesList]
  | t :: ts => by
    simp only [textList, leavesList, List.flatMap_append]
    rw [text_eq_leaves t, textList_eq_leaves ts]
end

end Tree

namespace PLeaves
open Parser Grammar

/-- Leaves already built, followed by the tokens still to be consumed. -/
def stream (s : PState) : List Token := Tree.leavesList s.b.forest ++ s.toks

/-- `m` keeps the token stream unchanged whenever it succeeds. -/
def Pres {α} (m : PM α) : Prop := ∀ s a s', m s = .ok (a, s') → stream s' = stream s

theorem pres_pure {α} (a : α) : Pres (pure a : PM α) := by
  intro s a' s' h
  simp only [pure, Except.ok.injEq, Prod.mk.injEq] at h
  rw [h.2]

theorem pres_bind {α β} {m : PM α} {f : α → PM β} (hm : Pres m) (hf : ∀ a, Pres (f a)) :
    Pres (m >>= f) := by
  intro s b s' h
  simp only [bind] at h
  split at h
  · rename_i a s1 h1
    rw [hf a _ _ _ h, hm _ _ _ h1]
  · cases h

theorem pres_fail {α} (e : BErr) : Pres (PM.fail e : PM α) := by
  intro s a s' h
  cases h

theorem pres_ite {α} {c : Prop} [Decidable c] {a b : PM α} (ha : Pres a) (hb : Pres b) :
    Pres (if c then a else b) := by
  split <;> assumption

theorem pres_get : Pres Parser.get := by
  intro s a s' h
  simp only [Parser.get, Except.ok.injEq, Prod.mk.injEq] at h
  rw [h.2]

theorem pres_nth (skip n : Nat) : Pres (nth skip n) := by
  intro s a s' h
  simp only [nth, Except.ok.injEq, Prod.mk.injEq] at h
  rw [h.2]

theorem pres_countSkip : Pres countSkip := by
  intro s a s' h
  simp only [countSkip, Except.ok.injEq, Prod.mk.injEq] at h
  rw [h.2]

theorem pres_bump : Pres bump := by
  intro s a s' h
  unfold bump at h
  split at h
  · simp only [Except.ok.injEq, Prod.mk.injEq] at h
    rw [h.2]
  · rename_i t rest ht
    simp only [Except.ok.injEq, Prod.mk.injEq] at h
    rw [← h.2]
    simp [stream, Tree.leavesList_append, Tree.leavesList, Tree.leaves, ht]

theorem pres_bumpN (n : Nat) : Pres (bumpN n) := by
  induction n with
  | zero => exact pres_pure _
  | succ n ih => exact pres_bind pres_bump (fun _ => ih)

theorem pres_eat (skip : Nat) (expected : List Syntax) : Pres (eat skip expected) := by
  intro s a s' h
  unfold eat at h
  simp only at h
  split at h
  · exact pres_bind (pres_bumpN _) (fun _ => pres_bind (pres_bumpN _) (fun _ => pres_pure _)) _ _ _ h
  · simp only [Except.ok.injEq, Prod.mk.injEq] at h
    rw [h.2]

theorem pres_bumpUntil (kind : Syntax) (fuel : Nat) : Pres (bumpUntil kind fuel) := by
  induction fuel with
  | zero => exact pres_pure _
  | succ n ih =>
    intro s a s' h
    unfold bumpUntil at h
    split at h
    · simp only [Except.ok.injEq, Prod.mk.injEq] at h
      rw [h.2]
    · exact pres_bind pres_bump (fun _ => pres_ite (pres_pure _) ih) _ _ _ h

theorem pres_checkpoint : Pres checkpoint := by
  intro s a s' h
  unfold checkpoint at h
  simp only at h
  split at h
  · split at h <;> simp only [Except.ok.injEq, Prod.mk.injEq] at h <;> rw [← h.2] <;> rfl
  · simp only [Except.ok.injEq, Prod.mk.injEq] at h
    rw [← h.2]; rfl

theorem pres_closeAt (cell : Nat) (kind : Syntax) : Pres (closeAt cell kind) := by
  intro s a s' h
  unfold closeAt at h
  simp only at h
  split at h
  · cases h
  · split at h
    · split at h
      · cases h
      · simp only [Except.ok.injEq, Prod.mk.injEq] at h
        rw [← h.2]
        simp [stream, Tree.leavesList_append, Tree.leavesList, Tree.leaves]
    · split at h
      · cases h
      · simp only [Except.ok.injEq, Prod.mk.injEq] at h
        rw [← h.2]
        simp only [stream, Tree.leavesList_wrap]

theorem pres_bumpNode (kind : Syntax) : Pres (bumpNode kind) := by
  intro s a s' h
  unfold bumpNode at h
  simp only at h
  split at h
  · rename_i ht
    simp only [Except.ok.injEq, Prod.mk.injEq] at h
    rw [← h.2]
    simp [stream, Tree.leavesList_append, Tree.leavesList, Tree.leaves]
  · rename_i t rest ht
    simp only [Except.ok.injEq, Prod.mk.injEq] at h
    rw [← h.2]
    simp [stream, Tree.leavesList_append, Tree.leavesList, Tree.leaves, ht]

theorem pres_bumpEmptyNode (kind : Syntax) : Pres (bumpEmptyNode kind) := by
  intro s a s' h
  unfold bumpEmptyNode at h
  simp only [Except.ok.injEq, Prod.mk.injEq] at h
  rw [← h.2]
  simp [stream, Tree.leavesList_append, Tree.leavesList, Tree.leaves]

/-- Decompose a `PM` program built from primitives with `bind`, `if`, `match`. -/
macro "pres_auto" : tactic => `(tactic| repeat (first
  | exact pres_pure _ | exact pres_fail _ | exact pres_nth _ _ | exact pres_countSkip
  | exact pres_bump | exact pres_bumpN _ | exact pres_eat _ _ | exact pres_bumpUntil _ _
  | exact pres_checkpoint | exact pres_closeAt _ _ | exact pres_bumpNode _
  | exact pres_bumpEmptyNode _ | exact pres_get
  | apply_assumption
  | refine pres_bind ?_ (fun _ => ?_)
  | apply pres_ite
  | dsimp only
  | split))

theorem pres_unitTrail (fuel : Nat) : Pres (unitTrail fuel) := by
  induction fuel with
  | zero => exact pres_fail _
  | succ n ih => unfold unitTrail; pres_auto

theorem pres_unitLoop (fuel : Nat) : ∀ c skip, Pres (unitLoop fuel c skip) := by
  induction fuel with
  | zero => intro c skip; exact pres_fail _
  | succ n ih =>
    intro c skip
    have := pres_unitTrail n
    unfold unitLoop; pres_auto

theorem pres_unit (fuel skip : Nat) : Pres (unit fuel skip) := by
  have := pres_unitLoop fuel
  unfold unit; pres_auto

theorem pres_wordLoop (b : Bool) (fuel : Nat) : ∀ skip words, Pres (wordLoop b fuel skip words) := by
  induction fuel with
  | zero => intro _ _; exact pres_fail _
  | succ n ih => intro skip words; unfold wordLoop; pres_auto

theorem pres_closeAll (st : List (Nat × Nat × Bool)) : Pres (closeAll st) := by
  induction st with
  | nil => exact pres_pure _
  | cons x rest ih => obtain ⟨c, p, e⟩ := x; unfold closeAll; pres_auto

theorem pres_reduce (cur prio : Nat) (extra : Bool) (st : List (Nat × Nat × Bool)) :
    Pres (reduce cur prio extra st) := by
  fun_induction reduce cur prio extra st <;> pres_auto

theorem pres_mutual (fuel : Nat) :
    (∀ skip, Pres (value fuel skip)) ∧ Pres (argsLoop fuel) ∧ Pres (callArguments fuel) ∧
    (∀ opn st first skip, Pres (opLoop fuel opn st first skip)) ∧
    (∀ skip, Pres (operation fuel skip)) := by
  induction fuel with
  | zero =>
    refine ⟨?_, ?_, ?_, ?_, ?_⟩ <;> intros <;> first | (unfold value; exact pres_fail _) | (unfold argsLoop; exact pres_fail _) | (unfold callArguments; exact pres_fail _) | (unfold opLoop; exact pres_fail _) | (unfold operation; exact pres_fail _)
  | succ n ih =>
    obtain ⟨ihv, iha, ihc, iho, ihop⟩ := ih
    have hw := pres_wordLoop
    have hu := pres_unit
    have hr := pres_reduce
    have hca := pres_closeAll
    refine ⟨?_, ?_, ?_, ?_, ?_⟩
    · intro skip; unfold value; pres_auto
    · unfold argsLoop; pres_auto
    · unfold callArguments; pres_auto
    · intro opn st first skip; unfold opLoop; pres_auto
    · intro skip; unfold operation; pres_auto

theorem pres_operation (fuel skip : Nat) : Pres (operation fuel skip) := (pres_mutual fuel).2.2.2.2 skip

theorem pres_rootLoop (fuel : Nat) : ∀ c e skip, Pres (rootLoop fuel c e skip) := by
  induction fuel with
  | zero => intro _ _ _; exact pres_fail _
  | succ n ih =>
    intro c e skip
    have := pres_operation
    unfold rootLoop; pres_auto

theorem pres_root (fuel : Nat) : Pres (root fuel) := by
  have := pres_rootLoop
  unfold root; pres_auto

theorem bind_ok {α β} {m : PM α} {f : α → PM β} {s s' : PState} {b : β}
    (h : (m >>= f) s = .ok (b, s')) : ∃ a s1, m s = .ok (a, s1) ∧ f a s1 = .ok (b, s') := by
  simp only [bind] at h
  split at h
  · exact ⟨_, _, ‹_›, h⟩
  · cases h

theorem bump_ok (s : PState) : ∃ s1, bump s = .ok ((), s1) ∧ s1.toks = s.toks.drop 1 := by
  unfold bump
  split
  · rename_i h; exact ⟨s, rfl, by simp [h]⟩
  · rename_i t rest h; exact ⟨_, rfl, by simp [h]⟩

theorem bumpN_ok (n : Nat) : ∀ s, ∃ s1, bumpN n s = .ok ((), s1) ∧ s1.toks = s.toks.drop n := by
  induction n with
  | zero => intro s; exact ⟨s, rfl, by simp⟩
  | succ n ih =>
    intro s
    obtain ⟨s0, h0, h0'⟩ := bump_ok s
    obtain ⟨s1, h1, h2⟩ := ih s0
    refine ⟨s1, ?_, ?_⟩
    · simp only [bumpN, bind, h0, h1]
    · rw [h2, h0', List.drop_drop, Nat.add_comm]

theorem closeAt_toks {cell : Nat} {kind : Syntax} {s s' : PState} {a : Unit}
    (h : closeAt cell kind s = .ok (a, s')) : s'.toks = s.toks := by
  unfold closeAt at h
  simp only at h
  repeat' split at h
  all_goals (cases h <;> rfl)

/-- No token of the stream is of the kind reserved for "end of input". -/
def NoEOF (l : List Token) : Prop := ∀ t ∈ l, t.kind ≠ .EOF

/-- `rootLoop` only ever stops on an empty buffer (if no token pretends to be `EOF`). -/
theorem rootLoop_drains (fuel : Nat) : ∀ c e skip s a s', rootLoop fuel c e skip s = .ok (a, s') →
    NoEOF (stream s) → s'.toks = [] := by
  induction fuel with
  | zero => intro c e skip s a s' h; cases h
  | succ n ih =>
    intro c e skip s a s' h hno
    unfold rootLoop at h
    obtain ⟨k, s0, hk, h⟩ := bind_ok h
    simp only [nth, Except.ok.injEq, Prod.mk.injEq] at hk
    obtain ⟨hk, rfl⟩ := hk
    by_cases hEOF : (k == Syntax.EOF) = true
    · -- end of input
      rw [if_pos hEOF] at h
      obtain ⟨_, s1, h1, h⟩ := bind_ok h
      obtain ⟨s1', h1', hd⟩ := bumpN_ok skip s
      rw [h1'] at h1
      simp only [Except.ok.injEq, Prod.mk.injEq, true_and] at h1
      subst h1
      simp only [pure, Except.ok.injEq, Prod.mk.injEq] at h
      rw [← h.2, hd]
      cases hget : s.toks[skip + 0]? with
      | none =>
        simp only [Nat.add_zero, List.getElem?_eq_none_iff] at hget
        exact List.drop_eq_nil_of_le hget
      | some t =>
        exfalso
        rw [hget] at hk
        have hmem : t ∈ stream s := by
          simp only [stream, List.mem_append]
          exact Or.inr (List.mem_of_getElem? hget)
        apply hno t hmem
        simpa [hk] using hEOF
    · rw [if_neg hEOF] at h
      split at h
      · obtain ⟨r, s1, h1, h⟩ := bind_ok h
        have hs1 := pres_operation _ _ _ _ _ h1
        split at h
        · exact ih _ _ _ _ _ _ h (hs1 ▸ hno)
        · obtain ⟨_, s2, h2, h⟩ := bind_ok h
          have hs2 := pres_closeAt _ _ _ _ _ h2
          exact ih _ _ _ _ _ _ h (hs2 ▸ hs1 ▸ hno)
      · obtain ⟨_, s1, h1, h⟩ := bind_ok h
        obtain ⟨_, s2, h2, h⟩ := bind_ok h
        obtain ⟨_, s3, h3, h⟩ := bind_ok h
        have hs1 := pres_bumpN _ _ _ _ h1
        have hs2 := pres_bump _ _ _ h2
        have hs3 := pres_countSkip _ _ _ h3
        exact ih _ _ _ _ _ _ h (hs3 ▸ hs2 ▸ hs1 ▸ hno)

theorem root_drains (fuel : Nat) (s : PState) (a : Unit) (s' : PState)
    (h : root fuel s = .ok (a, s')) (hno : NoEOF (stream s)) : s'.toks = [] := by
  unfold root at h
  obtain ⟨_, s1, h1, h⟩ := bind_ok h
  obtain ⟨c, s2, h2, h⟩ := bind_ok h
  obtain ⟨e, s3, h3, h⟩ := bind_ok h
  have hs1 := pres_countSkip _ _ _ h1
  have hs2 := pres_checkpoint _ _ _ h2
  have h3' := rootLoop_drains _ _ _ _ _ _ _ h3 (hs2 ▸ hs1 ▸ hno)
  split at h
  · rw [closeAt_toks h]; exact h3'
  · simp only [pure, Except.ok.injEq, Prod.mk.injEq] at h
    rw [← h.2]; exact h3'

/-- Leaves of a successful root parse are the input tokens. -/
theorem parseRootToks_leaves (toks : List Token) (forest : List Tree)
    (h : parseRootToks toks = .ok forest) (hno : NoEOF toks) : Tree.leavesList forest = toks := by
  unfold parseRootToks at h
  split at h
  · rename_i u s hr
    simp only [Except.ok.injEq] at h
    have hp := pres_root _ _ _ _ hr
    have hd := root_drains _ _ _ _ hr (by simpa [stream, Tree.leavesList] using hno)
    simp only [stream, hd, List.append_nil, Tree.leavesList, List.nil_append] at hp
    rw [← h]; exact hp
  · cases h

/-! ### The lexer never emits a token of kind `EOF` -/

theorem ite_kind {c : Prop} [Decidable c] {a b : Syntax × Nat × Bool}
    (ha : a.1 ≠ .EOF) (hb : b.1 ≠ .EOF) : (if c then a else b).1 ≠ .EOF := by
  split <;> assumption

theorem nextTok_kind (e : Bool) (c : Char) (rest : List Char) :
    (Lexer.nextTok e c rest).1 ≠ .EOF := by
  unfold Lexer.nextTok Lexer.nextEscape Lexer.nextNormal
  repeat' apply ite_kind
  all_goals first | (simp; done) | (split <;> simp)

theorem lexFuel_noEOF : ∀ (fuel : Nat) (e : Bool) (s : List Char), NoEOF (Lexer.lexFuel fuel e s) := by
  intro fuel
  induction fuel with
  | zero => intro e s t ht; simp [Lexer.lexFuel] at ht
  | succ n ih =>
    intro e s t ht
    cases s with
    | nil => simp [Lexer.lexFuel, Lexer.step] at ht
    | cons c cs =>
      simp only [Lexer.lexFuel, Lexer.step, List.mem_cons] at ht
      rcases ht with rfl | ht
      · exact nextTok_kind e c cs
      · exact ih _ _ t ht

theorem lex_noEOF (s : List Char) : NoEOF (Lexer.lex s) := lexFuel_noEOF _ _ _

end PLeaves
end Anything
