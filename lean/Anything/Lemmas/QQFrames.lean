import Anything.Lemmas.QQShift
import Anything.Lemmas.QQParseDefs
import Anything.Lemmas.C06Frames
/-!
# Quantity expressions, stage D — the operator stack against the forest

The analogue of `Lemmas/C06Frames.lean` for `QExpr`: a frame's segment reads
`x₀ o₁ x₁ … oₖ xₖ o`; for the `to` frame the pending operator node is an OP_CAST node and the
operand that extends it is a UNIT node. The frame's flag is `true` exactly for the `to` frame.
-/

namespace Anything.QQ
open Anything Anything.Parser Anything.Grammar Anything.PTotal Anything.Spec.Arith
open Anything.Spec.Quantity Anything.C06

/-- Node kind of the operator node. -/
def qopKind : QOp → Syntax
  | .bin op => opKind op
  | .cast => .OP_CAST

/-- The tree represents the operand. -/
def RepOpd (x : Tree) : QOpd → Prop
  | .ex e => RepresentsQL x e
  | .un u => RepUnit x u ∧ x.hasChildren = true

/-! ### Segments -/

theorem foldRQL_snoc {R : Tree → QExpr → Prop} {p : Nat} {acc e b : QExpr} {ts : List Tree}
    {o x : Tree} {op : BinOp} (h : FoldRQL R p acc ts e) (ho : o.kind = opKind op)
    (hp : op.prio = p) (hx : R x b) : FoldRQL R p acc (ts ++ [o, x]) (.bin op e b) := by
  induction h with
  | nil p acc => exact .cons ho hp hx (.nil _ _)
  | cons h1 h2 h3 _ ih => exact .cons h1 h2 h3 (ih hp)
  | cast h1 h2 h3 _ ih => exact .cast h1 h2 h3 (ih hp)

theorem foldRQL_snoc_cast {R : Tree → QExpr → Prop} {p : Nat} {acc e : QExpr} {ts : List Tree}
    {o x : Tree} {u : List RTerm} (h : FoldRQL R p acc ts e) (ho : o.kind = .OP_CAST)
    (hp : p = 1) (hx : RepUnit x u) : FoldRQL R p acc (ts ++ [o, x]) (.cast e u) := by
  induction h with
  | nil p acc => exact .cast ho hp hx (.nil _ _)
  | cons h1 h2 h3 _ ih => exact .cons h1 h2 h3 (ih hp)
  | cast h1 h2 h3 _ ih => exact .cast h1 h2 h3 (ih hp)

/-- An operand chain of level `p` without a pending operator. -/
def OpenSegQ (p : Nat) (Y : List Tree) (v : QExpr) : Prop :=
  ∃ y ys e₀, opKids Y = y :: ys ∧ RepresentsQL y e₀ ∧ FoldRQL RepresentsQL p e₀ ys v

/-- An operand chain of the level of `o` followed by the node of the pending operator `o`. -/
def SegOKQ (S : List Tree) (acc : QExpr) (o : QOp) : Prop :=
  ∃ y ys e₀ on, opKids S = y :: (ys ++ [on]) ∧ RepresentsQL y e₀ ∧
    FoldRQL RepresentsQL o.prio e₀ ys acc ∧ on.kind = qopKind o

theorem hasChildren_of_representsQ {x : Tree} {e : QExpr} (h : RepresentsQL x e) :
    x.hasChildren = true := by
  cases h with
  | num _ hc _ => exact hc
  | qty _ _ _ _ => rfl
  | paren hk _ => exact node_hasChildren hk
  | chain hk _ _ _ => exact node_hasChildren hk

theorem hasChildren_of_repOpd {x : Tree} {b : QOpd} (h : RepOpd x b) : x.hasChildren = true := by
  cases b with
  | ex e => exact hasChildren_of_representsQ h
  | un u => exact h.2

theorem openSegQ_single {W : List Tree} {x : Tree} {e : QExpr} (p : Nat) (hW : WSTrees W)
    (hx : RepresentsQL x e) : OpenSegQ p (W ++ [x]) e :=
  ⟨x, [], e, by rw [opKids_append, opKids_ws hW, opKids_single (hasChildren_of_representsQ hx)]; rfl,
    hx, .nil _ _⟩

theorem segOKQ_ws {S W : List Tree} {acc : QExpr} {o : QOp} (h : SegOKQ S acc o) (hW : WSTrees W) :
    SegOKQ (S ++ W) acc o := by
  obtain ⟨y, ys, e₀, on, hk, hy, hf, ho⟩ := h
  exact ⟨y, ys, e₀, on, by rw [opKids_append, opKids_ws hW, hk]; simp, hy, hf, ho⟩

/-- Equal priority: the frame absorbs the operand. -/
theorem segOKQ_extend {S : List Tree} {x : Tree} {acc : QExpr} {b : QOpd} {o : QOp}
    (h : SegOKQ S acc o) (hx : RepOpd x b) (hm : Match o b) :
    OpenSegQ o.prio (S ++ [x]) (mk o acc b) := by
  obtain ⟨y, ys, e₀, on, hk, hy, hf, ho⟩ := h
  have hkids : opKids (S ++ [x]) = y :: (ys ++ [on, x]) := by
    rw [opKids_append, hk, opKids_single (hasChildren_of_repOpd hx)]
    simp
  cases o with
  | bin op =>
    cases b with
    | ex e => exact ⟨y, ys ++ [on, x], e₀, hkids, hy, foldRQL_snoc hf ho rfl hx⟩
    | un u => exact absurd hm (by simp [Match])
  | cast =>
    cases b with
    | ex e => exact absurd hm (by simp [Match])
    | un u => exact ⟨y, ys ++ [on, x], e₀, hkids, hy, foldRQL_snoc_cast hf ho rfl hx.1⟩

/-- Higher priority on the stack: the frame is closed into one OPERATION node, all of whose
operators have the priority of the frame. -/
theorem segOKQ_close {S : List Tree} {x : Tree} {acc : QExpr} {b : QOpd} {o : QOp} (id : Nat)
    (h : SegOKQ S acc o) (hx : RepOpd x b) (hm : Match o b) :
    RepresentsQL (.node id .OPERATION (S ++ [x])) (mk o acc b) := by
  obtain ⟨y, ys, e₀, hk, hy, hf⟩ := segOKQ_extend h hx hm
  refine .chain hk ?_ hy hf
  intro hnil
  subst hnil
  obtain ⟨y', ys', e₀', on, hk', _, _, _⟩ := h
  rw [opKids_append, hk', opKids_single (hasChildren_of_repOpd hx)] at hk
  simp at hk

/-- The operator node is appended: an open segment becomes a frame segment. -/
theorem openSegQ_op {Y W : List Tree} {on : Tree} {v : QExpr} {o : QOp} (h : OpenSegQ o.prio Y v)
    (hW : WSTrees W) (hon : on.kind = qopKind o) (hc : on.hasChildren = true) :
    SegOKQ (Y ++ W ++ [on]) v o := by
  obtain ⟨y, ys, e₀, hk, hy, hf⟩ := h
  exact ⟨y, ys, e₀, on, by
    rw [opKids_append, opKids_append, opKids_ws hW, hk, opKids_single hc]; simp, hy, hf, hon⟩

/-! ### The stack -/

inductive StackOKQ (b : Builder) (n : Nat) :
    List Tree → List (Nat × Nat × Bool) → StackQ → Prop
  | nil : StackOKQ b n [] [] []
  | cons {G S : List Tree} {c : Nat} {acc : QExpr} {o : QOp}
      {stack : List (Nat × Nat × Bool)} {st : StackQ} :
      StackOKQ b n G stack st → SegOKQ S acc o → Pos b c (n + G.length) →
      StackOKQ b n (G ++ S) ((c, o.prio, o.isTo) :: stack) ((acc, o) :: st)

theorem StackOKQ.mono {b b' : Builder} {n : Nat} {G : List Tree}
    {stack : List (Nat × Nat × Bool)} {st : StackQ} (h : StackOKQ b n G stack st)
    (he : Ext (n + G.length) b b') : StackOKQ b' n G stack st := by
  induction h with
  | nil => exact .nil
  | @cons G S c acc o stack st _ hseg hpos ih =>
    have hle : n + G.length ≤ n + (G ++ S).length := by simp
    exact .cons (ih (he.mono hle)) hseg (he.pos c _ hle hpos)

theorem StackOKQ.ws {b : Builder} {n : Nat} {G W : List Tree}
    {stack : List (Nat × Nat × Bool)} {st : StackQ} (h : StackOKQ b n G stack st)
    (hne : st ≠ []) (hW : WSTrees W) : StackOKQ b n (G ++ W) stack st := by
  cases h with
  | nil => exact absurd rfl hne
  | cons h1 hseg hpos =>
    rw [List.append_assoc]
    exact .cons h1 (segOKQ_ws hseg hW) hpos

theorem StackOKQ.stack_ne {b : Builder} {n : Nat} {G : List Tree}
    {stack : List (Nat × Nat × Bool)} {st : StackQ} (h : StackOKQ b n G stack st)
    (hne : st ≠ []) : stack ≠ [] := by
  cases h with
  | nil => exact absurd rfl hne
  | cons _ _ _ => simp

/-- The flag of the top frame: `true` exactly for a `to` frame. -/
def isToTop : StackQ → Bool
  | [] => false
  | (_, o) :: _ => o.isTo

theorem StackOKQ.isUnitTop {b : Builder} {n : Nat} {G : List Tree}
    {stack : List (Nat × Nat × Bool)} {st : StackQ} (h : StackOKQ b n G stack st) :
    isUnitTop stack = isToTop st := by
  cases h <;> rfl

theorem isToTop_noTo {st : StackQ} (h : NoTo st) : isToTop st = false := by
  cases st with
  | nil => rfl
  | cons f r =>
    obtain ⟨acc, o⟩ := f
    have := h (acc, o) (by simp)
    cases o with
    | bin b => rfl
    | cast => exact absurd rfl this

end Anything.QQ
