import Anything.Lemmas.UQDefs
import Anything.Lemmas.QQParse
/-!
# The unified expression language — what may follow an operand

`Lemmas/QQParseDefs.lean` with one more follow token, the COMMA, so that an expression may be the
first argument of a two-argument call (`round(e, n)`).
-/

namespace Anything.UQ
open Anything Anything.Parser Anything.Grammar Anything.PTotal Anything.Spec.Arith
open Anything.Spec.Quantity Anything.C06 Anything.QQ

/-- Kinds that may follow an operand (after a blank): an operator, `to`, `)`, `,` or the end. -/
def FollowKindC (k : Syntax) : Prop :=
  k = .PLUS ∨ k = .DASH ∨ k = .STAR ∨ k = .SLASH ∨ k = .CARET ∨ k = .TO ∨ k = .CLOSE_PAREN ∨
    k = .COMMA ∨ k = .EOF

/-- The rest of the buffer after an operand: a blank, then a token of a `FollowKindC`. -/
def FollowC (K : List Token) : Prop :=
  ∃ Wk K', K = Wk ++ K' ∧ AllWS Wk ∧ FollowKindC (headKind K')

/-- The rest of the buffer after a written unit expression: as `FollowC`, but `*`, `/`, `^` and
`to` must be separated from the unit by a blank. -/
def UFollowC (K : List Token) : Prop :=
  ∃ Wk K', K = Wk ++ K' ∧ AllWS Wk ∧ FollowKindC (headKind K') ∧
    (Wk = [] → headKind K' = .PLUS ∨ headKind K' = .DASH ∨ headKind K' = .CLOSE_PAREN ∨
      headKind K' = .COMMA ∨ headKind K' = .EOF)

/-- What must follow the tokens of `e`. -/
def FollowsC (e : QExpr) (K : List Token) : Prop :=
  if endsUnit e = true then UFollowC K else FollowC K

theorem UFollowC.follow {K : List Token} (h : UFollowC K) : FollowC K := by
  obtain ⟨Wk, K', h1, h2, h3, _⟩ := h
  exact ⟨Wk, K', h1, h2, h3⟩

theorem FollowsC.follow {e : QExpr} {K : List Token} (h : FollowsC e K) : FollowC K := by
  unfold FollowsC at h
  split at h
  · exact h.follow
  · exact h

/-- `Grammar.unit` on the tokens of a written unit expression (cf. `QQ.UnitSpecQ`). -/
def UnitSpecC (u : List RTerm) : Prop :=
  ∃ Fu, ∀ (s : PState) (W K : List Token), C06.Good s.b → s.toks = W ++ (unitToks u ++ K) →
    AllWS W → UFollowC K →
    Tot (Grammar.unit Fu W.length) s (fun r s' => ∃ cur Wt x, r = some cur ∧ s'.toks = K ∧
      s'.b.forest = s.b.forest ++ Wt ++ [x] ∧ WSTrees Wt ∧ RepUnit x u ∧ x.hasChildren = true ∧
      Pos s'.b cur (s.b.forest.length + Wt.length) ∧ C06.Good s'.b ∧ NoNext s'.b ∧
      Ext s.b.forest.length s.b s'.b)

/-- `Grammar.value` on the operand `e` (cf. `QQ.ValueSpecQ`). -/
def ValueSpecU (e : QExpr) : Prop :=
  ∃ Fe, ∀ (ws : Layout) (s : PState) (W0 K : List Token), WFS e → LayoutOKU e ws → C06.Good s.b →
    s.toks = W0 ++ (toksU e ws ++ K) → AllWS W0 → FollowsC e K →
    Tot (Grammar.value Fe W0.length) s (fun r s' => ∃ cur Wt x, r = some cur ∧ s'.toks = K ∧
      s'.b.forest = s.b.forest ++ Wt ++ [x] ∧ WSTrees Wt ∧ RepU x e ∧
      Pos s'.b cur (s.b.forest.length + Wt.length) ∧ C06.Good s'.b ∧ NoNext s'.b ∧
      Ext s.b.forest.length s.b s'.b)

/-- The shape of the parsed forest of a query: blank leaves, one tree, blank leaves. -/
def ForestOKU (forest : List Tree) (e : QExpr) : Prop :=
  ∃ Wt x Wt', forest = Wt ++ [x] ++ Wt' ∧ WSTrees Wt ∧ WSTrees Wt' ∧ RepU x e

/-- Kinds that end an expression: `)`, `,` or the end of the input. -/
def EndKindC (k : Syntax) : Prop := k = .CLOSE_PAREN ∨ k = .COMMA ∨ k = .EOF

theorem endKindC_follow {k : Syntax} (h : EndKindC k) : FollowKindC k := by
  rcases h with h | h | h <;> simp [FollowKindC, h]

theorem followKindC_cases {k : Syntax} (h : FollowKindC k) :
    k ≠ .NUMBER ∧ k ≠ .WORD ∧ k ≠ .PERCENTAGE ∧ k ≠ .WHITESPACE ∧ k ≠ .OPEN_PAREN := by
  rcases h with h | h | h | h | h | h | h | h | h <;> subst h <;> simp

theorem followKindC_notWS {K' : List Token} (h : FollowKindC (headKind K')) : NotWSHead K' := by
  intro t r hK
  subst hK
  exact (followKindC_cases h).2.2.2.1

theorem followKindC_qopTok (op : QOp) (rest : List Token) :
    FollowKindC (headKind (qopTok op :: rest)) := by
  cases op with
  | bin b => cases b <;> simp [headKind, qopTok, opTok, FollowKindC]
  | cast => simp [headKind, qopTok, toTok, FollowKindC]

/-- The left operand of an operator: `*`, `/`, `^`, `to` are separated from a unit. -/
theorem followsC_op (a : QExpr) (b1 : List Char) (op : QOp) (rest : List Token)
    (h : endsUnit a = true →
      (op = .bin .mul ∨ op = .bin .div ∨ op = .bin .pow ∨ op = .cast) → b1 ≠ []) :
    FollowsC a (blankTok b1 ++ (qopTok op :: rest)) := by
  unfold FollowsC
  split
  · rename_i hu
    refine ⟨blankTok b1, qopTok op :: rest, rfl, allWS_blankTok b1, followKindC_qopTok op rest, ?_⟩
    intro hnil
    have hb := blankTok_eq_nil hnil
    cases op with
    | bin b =>
      cases b with
      | add => exact Or.inl rfl
      | sub => exact Or.inr (Or.inl rfl)
      | mul => exact absurd hb (h hu (by simp))
      | div => exact absurd hb (h hu (by simp))
      | pow => exact absurd hb (h hu (by simp))
    | cast => exact absurd hb (h hu (by simp))
  · exact ⟨blankTok b1, qopTok op :: rest, rfl, allWS_blankTok b1, followKindC_qopTok op rest⟩

theorem followsC_end (e : QExpr) (Wk K' : List Token) (hwk : AllWS Wk)
    (hend : EndKindC (headKind K')) : FollowsC e (Wk ++ K') := by
  unfold FollowsC
  split
  · exact ⟨Wk, K', rfl, hwk, endKindC_follow hend, fun _ => by
      rcases hend with h | h | h <;> simp [h]⟩
  · exact ⟨Wk, K', rfl, hwk, endKindC_follow hend⟩

end Anything.UQ
