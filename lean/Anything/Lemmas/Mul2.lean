import Anything.Lemmas.Mul
/-!
# `Compound::mul`: the base expansion and `reconstruct` preserve dimensions and SI value
-/

namespace Anything
open AMap Powers Spec

theorem dimOfKey_base (b : Base) (k : UnitKey) : dimOfKey (.base b) k = if UnitKey.base b = k then 1 else 0 := rfl

theorem lin_base (b : Base) : lin (.base b) = 1 := by simp [lin, SI.linFactor, SI.scaleOf]

/-- `Σ value·[key = k]` over a sorted map is the lookup. -/
theorem sum_ite_eq_pw {p : Powers} (hs : AMap.Sorted p) (k : UnitKey) :
    (p.map (fun e => e.2 * (if e.1 = k then 1 else 0))).sum = pw p k := by
  induction p with
  | nil => simp
  | cons a rest ih =>
    rw [List.map_cons, List.sum_cons, ih hs.tail]
    unfold pw
    rw [AMap.get?_cons]
    split
    · rename_i h
      have : AMap.get? rest k = none :=
        AMap.get?_eq_none_iff.mpr (fun e he => by
          have := UnitKey.ne_of_lt (hs.head_lt e he); rw [h] at this; exact this.symm)
      simp [this]
    · simp

/-- Every key produced by `base_units` is a base unit. -/
theorem baseUnits_keys_base (c : Compound) : ∀ e ∈ (Compound.baseUnits c).2, ∃ b, e.1 = .base b := by
  intro e he
  obtain ⟨hc, hp⟩ := baseUnits_spec c
  cases hk : e.1 with
  | base b => exact ⟨b, rfl⟩
  | derived id =>
    exfalso
    have h1 : AMap.get? (Compound.baseUnits c).2 e.1 = some e.2 := AMap.get?_of_mem hc.sorted he
    have h2 := hp e.1
    rw [hk, dimsFn_derived] at h2
    rw [hk] at h1
    simp only [pw, h1, Option.getD_some] at h2
    exact hc.nz e he h2

/-- `powers` of a derived unit alone: canonical, base keys, represents the unit's exponents. -/
theorem unit_powers_spec (u : UnitKey) :
    Canon (u.powers [] 1).1 ∧ (∀ k, pw (u.powers [] 1).1 k = dimOfKey u k) ∧
      ∀ e ∈ (u.powers [] 1).1, ∃ b, e.1 = .base b := by
  obtain ⟨h1, h2⟩ := powers_spec u [] 1 canon_nil
  refine ⟨h1, fun k => by rw [h2 k]; simp, ?_⟩
  intro e he
  cases hk : e.1 with
  | base b => exact ⟨b, rfl⟩
  | derived id =>
    exfalso
    have h3 : AMap.get? (u.powers [] 1).1 e.1 = some e.2 := AMap.get?_of_mem h1.sorted he
    have h4 := h2 e.1
    rw [hk, dimOfKey_derived] at h4
    rw [hk] at h3
    rw [pw_nil] at h4
    simp only [pw, h3, Option.getD_some] at h4
    exact h1.nz e he (by omega)

/-! ### The two folds that build the base expansion in `mul` -/

def names0 (lhsBases : Powers) : Compound :=
  lhsBases.foldl (fun nm (e : UnitKey × Int) => AMap.insert nm e.1 { power := e.2, pfx := 0 }) []

def names1 (rhsBases : Powers) (n : Int) (nm0 : Compound) : Compound :=
  rhsBases.foldl (fun nm (e : UnitKey × Int) =>
    match AMap.get? nm e.1 with
    | none => AMap.insert nm e.1 { power := e.2 * n, pfx := 0 }
    | some st =>
      let np := st.power + e.2 * n
      if np = 0 then AMap.erase nm e.1 else AMap.insert nm e.1 { st with power := np }) nm0

theorem names0_fold (l : Powers) (hl : AMap.Sorted l) (hb : ∀ e ∈ l, ∃ b, e.1 = .base b) :
    ∀ (acc : Compound), Good acc → (∀ e ∈ l, AMap.get? acc e.1 = none) →
      let res := l.foldl (fun nm (e : UnitKey × Int) => AMap.insert nm e.1 { power := e.2, pfx := 0 }) acc
      Good res ∧ (∀ k, dimsFn res k = dimsFn acc k + (l.map (fun e => e.2 * (if e.1 = k then 1 else 0))).sum) ∧
        scaleC res = scaleC acc := by
  induction l with
  | nil => intro acc g _; simp [g]
  | cons a rest ih =>
    intro acc g habs
    simp only [List.foldl_cons]
    have hsem := insert_sem g a.1 a.2
    have hnone : AMap.get? acc a.1 = none := habs a (by simp)
    simp only [hnone, Option.map_none, Option.getD_none, sub_zero] at hsem
    obtain ⟨g1, d1, s1⟩ := hsem
    obtain ⟨b, hbk⟩ := hb a (by simp)
    have habs' : ∀ e ∈ rest, AMap.get? (AMap.insert acc a.1 { power := a.2, pfx := 0 }) e.1 = none := by
      intro e he
      have hne : a.1 ≠ e.1 := UnitKey.ne_of_lt (hl.head_lt e he)
      rw [AMap.get?_insert_ne _ _ hne]
      exact habs e (List.mem_cons_of_mem _ he)
    have := ih hl.tail (fun e he => hb e (List.mem_cons_of_mem _ he)) _ g1 habs'
    obtain ⟨g2, d2, s2⟩ := this
    refine ⟨g2, fun k => ?_, ?_⟩
    · rw [d2 k, d1 k, List.map_cons, List.sum_cons, hbk, dimOfKey_base]
      ring
    · rw [s2, s1, hbk, lin_base]; simp

theorem names0_sem (p : Powers) (hc : Canon p) (hb : ∀ e ∈ p, ∃ b, e.1 = .base b) :
    Good (names0 p) ∧ (∀ k, dimsFn (names0 p) k = pw p k) ∧ scaleC (names0 p) = 1 := by
  have := names0_fold p hc.sorted hb [] good_nil (fun _ _ => rfl)
  obtain ⟨g, d, s⟩ := this
  refine ⟨g, fun k => ?_, ?_⟩
  · have := d k
    rw [sum_ite_eq_pw hc.sorted] at this
    simpa [dimsFn, names0] using this
  · simpa [scaleC, names0] using s

theorem names1_eq_bump (l : Powers) (n : Int) (nm0 : Compound) :
    names1 l n nm0 = l.foldl (fun nm (e : UnitKey × Int) => bump nm e.1 (e.2 * n)) nm0 := rfl

theorem bump_fold (l : Powers) (f : Int → Int) (hb : ∀ e ∈ l, ∃ b, e.1 = .base b) :
    ∀ (acc : Compound), Good acc →
      let res := l.foldl (fun nm (e : UnitKey × Int) => bump nm e.1 (f e.2)) acc
      Good res ∧ (∀ k, dimsFn res k = dimsFn acc k + (l.map (fun e => f e.2 * (if e.1 = k then 1 else 0))).sum) ∧
        scaleC res = scaleC acc := by
  induction l with
  | nil => intro acc g; simp [g]
  | cons a rest ih =>
    intro acc g
    simp only [List.foldl_cons]
    obtain ⟨g1, d1, s1⟩ := bump_sem g a.1 (f a.2)
    obtain ⟨b, hbk⟩ := hb a (by simp)
    obtain ⟨g2, d2, s2⟩ := ih (fun e he => hb e (List.mem_cons_of_mem _ he)) _ g1
    refine ⟨g2, fun k => ?_, ?_⟩
    · rw [d2 k, d1 k, List.map_cons, List.sum_cons, hbk, dimOfKey_base]
      ring
    · rw [s2, s1, hbk, lin_base]; simp

theorem sum_mul_ite (l : Powers) (n : Int) (k : UnitKey) :
    (l.map (fun e => e.2 * n * (if e.1 = k then (1 : Int) else 0))).sum
      = n * (l.map (fun e => e.2 * (if e.1 = k then 1 else 0))).sum := by
  induction l with
  | nil => simp
  | cons a rest ih => simp only [List.map_cons, List.sum_cons, ih]; ring

theorem names1_sem (p : Powers) (hc : Canon p) (hb : ∀ e ∈ p, ∃ b, e.1 = .base b) (n : Int)
    (nm0 : Compound) (g : Good nm0) :
    Good (names1 p n nm0) ∧ (∀ k, dimsFn (names1 p n nm0) k = dimsFn nm0 k + n * pw p k) ∧
      scaleC (names1 p n nm0) = scaleC nm0 := by
  rw [names1_eq_bump]
  obtain ⟨g1, d1, s1⟩ := bump_fold p (fun x => x * n) hb nm0 g
  refine ⟨g1, fun k => ?_, s1⟩
  rw [d1 k, sum_mul_ite, sum_ite_eq_pw hc.sorted]

end Anything
