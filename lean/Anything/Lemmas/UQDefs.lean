import Anything.Lemmas.QQLexDefs
import Anything.Lemmas.FQDefs
/-!
# The unified expression language — definitions shared by `Lemmas/UQ*.lean` and
`Props/UnifiedQuery.lean`

`Spec.Quantity.QExpr` with ALL its constructors: literals with and without units, `+ - * / ^`,
parentheses, `to`, AND looked-up fact phrases (`.fact phrase v u`), relative to a database.

* `splitPhrase`, `PhraseU`: a phrase `p : List Char` as typed is cut at its blank runs into a first
  word and `(blank, word)` pairs; it can be typed when the pieces are a `FQ.PhraseOK` phrase;
* `WFS` (syntax: `QQ.WFQ` with typeable phrases allowed), `FactsOK cfg` (the database answers
  every phrase with exactly the recorded constant), `WFU cfg = WFS ∧ FactsOK cfg`;
* `toksU`, `LayoutOKU`: token list and admissible layouts;
* `RepU`: the tree the grammar builds (levelled: one OPERATION node per maximal run of operators of
  one priority, the first operand of a run not itself such a run; WORD / SENTENCE leaves for facts);
* `UnitsOKU cfg`, `powBoundU`, `PowRiskU`, `OutcomeV`: the side conditions and the outcome of the
  evaluator theorem; `orderU`, `fullLog`: evaluation order and description log;
* stage 2: `CallQ` (a builtin `floor` / `ceil` / `round` applied to such an expression, with an
  optional precision), `renderCall`, `denoteCall`, token lists, layouts and tree shapes of calls.
-/

namespace Anything.UQ
open Anything Anything.Lexer Anything.Eval Anything.Spec Anything.Spec.Arith Anything.Spec.Decimal
open Anything.Spec.Quantity Anything.Spec.SI Anything.C06 Anything.QQ Anything.FQ

/-! ### Phrases as typed -/

/-- The `(blank run, word)` pairs of a text that begins with a blank run. -/
def splitMore : Nat → List Char → More
  | 0, _ => []
  | _ + 1, [] => []
  | fuel + 1, c :: s =>
    let b := (c :: s).takeWhile isWhitespace
    let r := (c :: s).dropWhile isWhitespace
    let w := r.takeWhile (fun x => !isWhitespace x)
    (b, w) :: splitMore fuel (r.dropWhile (fun x => !isWhitespace x))

/-- A phrase as typed, cut at its blank runs: the first word and the `(blank run, word)` pairs. -/
def splitPhrase (p : List Char) : List Char × More :=
  (p.takeWhile (fun x => !isWhitespace x),
    splitMore p.length (p.dropWhile (fun x => !isWhitespace x)))

abbrev factFirst (p : List Char) : List Char := (splitPhrase p).1
abbrev factMore (p : List Char) : More := (splitPhrase p).2

/-- The phrase can be typed: cut at its blank runs it is a first word (a lexer word: word
characters, not beginning with a digit, not the keyword `to`) followed by words or numbers, each
after a non-empty blank run (`FQ.PhraseOK`); `FQ.phraseText` of the pieces is the phrase again.
(`phraseU_iff` in `Lemmas/UQPhrase.lean`: exactly the texts of the `FQ.PhraseOK` phrases.) -/
def PhraseU (p : List Char) : Prop :=
  PhraseOK (factFirst p) (factMore p) ∧ phraseText (factFirst p) (factMore p) = p

/-! ### Well-formed expressions -/

/-- The AST is the one the documented grammar assigns to its own rendering (as `QQ.WFQ`:
left-associative operators, `to` loosest), literals are well formed, phrases can be typed. -/
def WFS : QExpr → Prop
  | .num l => l.WF
  | .qty l _ => l.WF
  | .bin op a b => WFS a ∧ WFS b ∧ op.prio ≤ qprio a ∧ op.prio < qprio b
  | .paren e => WFS e
  | .cast e _ => WFS e
  | .fact p _ _ => PhraseU p

/-- The canonical result unit `[(key, power, prefix)]` of a compound, in the compound's order:
what `Spec.SI.siOfResult` reads. -/
def resultUnit (c : Compound) : List (UnitKey × Int × Int) :=
  c.map (fun e => (e.1, e.2.power, e.2.pfx))

/-- The database answers the phrase with exactly this constant: value `v`, and the constant's
compound lists exactly the units `u` with these powers and prefixes. -/
def FactOK (cfg : Cfg) (p : List Char) (v : Rat) (u : List (UnitKey × Int × Int)) : Prop :=
  ∃ c, cfg.db p = .found c ∧ c.value = v ∧ resultUnit c.unit = u

def FactsOK (cfg : Cfg) : QExpr → Prop
  | .fact p v u => FactOK cfg p v u
  | .bin _ a b => FactsOK cfg a ∧ FactsOK cfg b
  | .paren e => FactsOK cfg e
  | .cast e _ => FactsOK cfg e
  | _ => True

/-- Well-formed relative to a database. -/
def WFU (cfg : Cfg) (e : QExpr) : Prop := WFS e ∧ FactsOK cfg e

/-! ### Tokens and layouts -/

/-- In-order token list (as `QQ.toksQ`; a phrase contributes `FQ.phraseToks`). -/
def toksU : QExpr → Layout → List Token
  | .num l, _ => [⟨.NUMBER, renderNumber l⟩]
  | .qty l u, ws => [⟨.NUMBER, renderNumber l⟩] ++ blankTok (blank1 ws) ++ unitToks u
  | .bin op a b, ws =>
    let ws1 := afterQ a ws
    toksU a ws ++ blankTok (blank1 ws1) ++ [opTok op] ++ blankTok (blank1 (rest1 ws1)) ++
      toksU b (rest1 (rest1 ws1))
  | .paren e, ws =>
    [⟨.OPEN_PAREN, ['(']⟩] ++ blankTok (blank1 ws) ++ toksU e (rest1 ws) ++
      blankTok (blank1 (afterQ e (rest1 ws))) ++ [⟨.CLOSE_PAREN, [')']⟩]
  | .cast e u, ws =>
    let ws1 := afterQ e ws
    toksU e ws ++ blankTok (blank1 ws1) ++ [toTok] ++ blankTok (blank1 (rest1 ws1)) ++ unitToks u
  | .fact p _ _, _ => phraseToks (factFirst p) (factMore p)

/-- The rendering ends with a phrase: glued to it the keyword `to` would continue its last word. -/
def endsFact : QExpr → Bool
  | .fact _ _ _ => true
  | .bin _ _ b => endsFact b
  | _ => false

/-- The leftmost operand would be glued to a directly preceding `+` / `-` by the lexer: an
unsigned literal, or a phrase beginning with `e` / `E` (`+e5` is a number token). -/
def gluesU : QExpr → Bool
  | .num l => l.sign.isNone
  | .qty l _ => l.sign.isNone
  | .bin _ a _ => gluesU a
  | .cast e _ => gluesU e
  | .fact p _ _ =>
    match p with
    | c :: _ => c == 'e' || c == 'E'
    | [] => false
  | .paren _ => false

/-- The admissible layouts: `QQ.LayoutOKQ`, and where the left operand of `to` ends with a phrase
the keyword is preceded by a blank. -/
def LayoutOKU : QExpr → Layout → Prop
  | .num l, _ => l.WF
  | .qty l u, ws => l.WF ∧ UnitLexOK u ∧ Blank (blank1 ws) ∧
      (blank1 ws = [] → GlueOK (renderUnit u))
  | .bin op a b, ws =>
    let ws1 := afterQ a ws
    LayoutOKU a ws ∧ Blank (blank1 ws1) ∧ Blank (blank1 (rest1 ws1)) ∧
      LayoutOKU b (rest1 (rest1 ws1)) ∧
      ((op = .add ∨ op = .sub) → blank1 (rest1 ws1) = [] → gluesU b = false) ∧
      (endsUnit a = true → (op = .mul ∨ op = .div ∨ op = .pow) → blank1 ws1 ≠ [])
  | .paren e, ws =>
    Blank (blank1 ws) ∧ LayoutOKU e (rest1 ws) ∧ Blank (blank1 (afterQ e (rest1 ws)))
  | .cast e u, ws =>
    let ws1 := afterQ e ws
    LayoutOKU e ws ∧ UnitLexOK u ∧ Blank (blank1 ws1) ∧ Blank (blank1 (rest1 ws1)) ∧
      blank1 (rest1 ws1) ≠ [] ∧ (endsUnit e = true ∨ endsFact e = true → blank1 ws1 ≠ [])
  | .fact _ _ _, _ => True

def QueryLayoutOKU (e : QExpr) (ws : Layout) : Prop :=
  Blank (blank1 ws) ∧ LayoutOKU e (rest1 ws) ∧ Blank (blank1 (afterQ e (rest1 ws)))

def queryToksU (e : QExpr) (ws : Layout) : List Token :=
  blankTok (blank1 ws) ++ toksU e (rest1 ws) ++ blankTok (blank1 (afterQ e (rest1 ws)))

/-! ### Trees -/

/-- The tree `t` is the one the grammar builds for `e`.

* `num`, `qty`, `paren`: as `QQ.RepresentsQL`;
* `fact`: a WORD node (one word) or a SENTENCE node (several) whose source text is the phrase;
* `chain`: an OPERATION node whose children with children are `x₀ o₁ x₁ … oₙ xₙ` (`n ≥ 1`), all
  operators of ONE priority `p` (an OP_CAST operator, priority 1, is followed by a UNIT node), the
  first operand NOT itself an operator application of priority `p`. -/
inductive RepU : Tree → QExpr → Prop
  | num {t : Tree} {l : Literal} : t.kind = .NUMBER → t.hasChildren = true →
      t.text = renderNumber l → RepU t (.num l)
  | qty {id : Nat} {v un : Tree} {rest more : List Tree} {l : Literal} {u : List RTerm} :
      v.kind = .NUMBER → v.text = renderNumber l → opKids rest = un :: more → RepUnit un u →
      RepU (.node id .WITH_UNIT (v :: rest)) (.qty l u)
  | fact {t : Tree} {p : List Char} {v : Rat} {u : List (UnitKey × Int × Int)} :
      t.kind = (if factMore p = [] then Syntax.WORD else Syntax.SENTENCE) → t.hasChildren = true →
      t.text = p → RepU t (.fact p v u)
  | paren {id : Nat} {ks : List Tree} {x : Tree} {e : QExpr} : opKids ks = [x] →
      RepU x e → RepU (.node id .OPERATION ks) (.paren e)
  | chain {id : Nat} {ks : List Tree} {x₀ : Tree} {rest : List Tree} {e₀ e : QExpr} {p : Nat} :
      opKids ks = x₀ :: rest → rest ≠ [] → RepU x₀ e₀ → qprio e₀ ≠ p →
      FoldRQL RepU p e₀ rest e → RepU (.node id .OPERATION ks) e

/-! ### Side conditions of the evaluator theorem -/

/-- Literals and units are in scope (`QQ.UnitsOK`); the exponent of `^` is a literal; the database
answers a phrase with exactly the recorded constant, whose unit is made of proportional units of
the unit table. -/
def UnitsOKU (cfg : Cfg) : QExpr → Prop
  | .num l => LitOKQ l
  | .qty l u => LitOKQ l ∧ UnitOK u
  | .bin op a b => UnitsOKU cfg a ∧ UnitsOKU cfg b ∧ (op = .pow → ∃ l, b = .num l)
  | .paren e => UnitsOKU cfg e
  | .cast e u => UnitsOKU cfg e ∧ UnitOK u
  | .fact p v u => ∃ c, cfg.db p = .found c ∧ c.value = v ∧ resultUnit c.unit = u ∧
      Proportional c.unit ∧ AllKnown c.unit

/-- `QQ.powBound` with the bound of a constant: the sum of the absolute values of its powers. -/
def powBoundU : QExpr → Option Nat
  | .num _ => some 0
  | .qty _ u => (resolveAll u).map (fun sem => (sem.map (fun t => t.power.natAbs)).sum)
  | .paren e => powBoundU e
  | .cast _ u => (resolveAll u).map (fun sem => (sem.map (fun t => t.power.natAbs)).sum)
  | .bin op a b =>
    match op with
    | .add | .sub =>
      (match powBoundU a, powBoundU b with
       | some x, some y => some (max x y)
       | _, _ => none)
    | .pow =>
      (match b with
       | .num l => (powBoundU a).map (fun B => B * (Decimal.value l).num.natAbs)
       | _ => none)
    | _ => none
  | .fact _ _ u => some ((u.map (fun t => t.2.1.natAbs)).sum)

def PowSafeU (a b : QExpr) : Prop :=
  ∃ B l, powBoundU a = some B ∧ b = .num l ∧ (Decimal.value l).num.natAbs ≤ 2147483647 ∧
    B * (Decimal.value l).num.natAbs ≤ 2147483647

/-- The expression contains a `^` whose base is a quantity and which is not `PowSafeU`. -/
def PowRiskU : QExpr → Prop
  | .bin op a b => PowRiskU a ∨ PowRiskU b ∨
      (op = .pow ∧ (∃ x, denote false a = .ok x ∧ x.plain = false) ∧ ¬ PowSafeU a b)
  | .paren e => PowRiskU e
  | .cast e _ => PowRiskU e
  | _ => False

def PowBoundedU (r : Numeric) (e : QExpr) : Prop :=
  ∀ B, powBoundU e = some B → ∀ en ∈ r.unit, en.2.power.natAbs ≤ B

/-- How a result of the evaluator matches the specification's reading of `e` (as `QQ.OutcomeQ`,
the log apart). -/
def OutcomeV (e : QExpr) (r : Except EvalErr Numeric) : Prop :=
  match denote false e with
  | .ok v => (∃ x, r = .ok x ∧ Agree x v ∧ PowBoundedU x e) ∨
      (PowRiskU e ∧ ∃ s t, r = .error (.err .badArgument s t))
  | .error _ => ∃ k s t, r = .error (.err k s t)

/-- Result and log: the log is untouched. -/
def OutcomeU (e : QExpr) (d : List Desc) (res : Except EvalErr Numeric × List Desc) : Prop :=
  OutcomeV e res.1 ∧ res.2 = d

/-! ### Evaluation order and the description log -/

/-- The phrases of an expression in evaluation order: the right operand before the left one,
except that along a run of operators of equal priority the accumulated left part comes first. -/
def orderU : QExpr → List (List Char)
  | .fact p _ _ => [p]
  | .bin op a b => if qprio a = op.prio then orderU a ++ orderU b else orderU b ++ orderU a
  | .paren e => orderU e
  | .cast e _ => orderU e
  | _ => []

/-- What the successful lookups of `e` report, in evaluation order. -/
def fullLog (db : Db) (e : QExpr) : List Desc := (orderU e).flatMap (lookupLog db)

/-- The description the database holds for a phrase. -/
def descOf (db : Db) (p : List Char) : List Char :=
  match db p with
  | .found c => c.description
  | _ => []

/-! ### Stage 2 — builtin calls over quantity expressions -/

/-- `floor(e)`, `ceil(e)`, `round(e)` (`prec = none`) or `round(e, n)` (`prec = some n`): a builtin
applied to an expression of the unified language, with an optional literal second argument. -/
structure CallQ where
  fn : Fn
  arg : QExpr
  prec : Option Literal

/-- Rendering (as `Spec.Arith.render` writes a call): name, `(`, blank, the argument, then either
blank `)` or blank `,` blank the number blank `)`. -/
def renderCall (c : CallQ) (ws : Layout) : List Char × Layout :=
  let (b1, ws) := nextBlank ws
  let (se, ws) := Quantity.render c.arg ws
  match c.prec with
  | none =>
    let (b2, ws) := nextBlank ws
    (c.fn.name ++ ['('] ++ b1 ++ se ++ b2 ++ [')'], ws)
  | some n =>
    let (b3, ws) := nextBlank ws
    let (b4, ws) := nextBlank ws
    let (b2, ws) := nextBlank ws
    (c.fn.name ++ ['('] ++ b1 ++ se ++ b3 ++ [','] ++ b4 ++ renderNumber n ++ b2 ++ [')'], ws)

/-- Whole query: leading blank, the call, trailing blank. -/
def renderCallQuery (c : CallQ) (ws : Layout) : List Char :=
  let (b0, ws) := nextBlank ws
  let (s, ws) := renderCall c ws
  let (b1, _) := nextBlank ws
  b0 ++ s ++ b1

/-- The rounded magnitude, by the rounding functions of `Spec.Arith`; `none`: wrong arity. -/
def roundMag (f : Fn) (prec : Option Int) (x : Rat) : Option Rat :=
  match f, prec with
  | .floor, none => some (floorI x)
  | .ceil, none => some (ceilI x)
  | .round, none => some (roundHalfAway x)
  | .round, some n => some (roundTo x n)
  | _, _ => none

/-- **Denotation of a call**: the magnitude of the argument IN THE UNIT THE ARGUMENT IS EXPRESSED
IN (`Val.unit`, when the specification determines it) is rounded, the unit is kept. No denotation
when the unit is undetermined (products, quotients, looked-up constants), the precision is not an
integer, or the arity is wrong. -/
def denoteCall (c : CallQ) : Except QErr Val :=
  match denote false c.arg with
  | .error e => .error e
  | .ok v =>
    match v.unit with
    | none => .error .other
    | some sem =>
      let prec? : Option (Option Int) :=
        match c.prec with
        | none => some none
        | some n => if Arith.isInt (Decimal.value n) then some (some (Decimal.value n).num) else none
      match prec? with
      | none => .error .other
      | some pr =>
        match roundMag c.fn pr (v.q.si / scale sem) with
        | none => .error .other
        | some m => .ok { q := ⟨m * scale sem, v.q.dim⟩, plain := v.plain, unit := some sem }

/-- Token list of a one-argument call: WORD, `(`, and then as for a parenthesised group. -/
def toksCall (f : Fn) (e : QExpr) (ws : Layout) : List Token :=
  ⟨.WORD, f.name⟩ :: toksU (.paren e) ws

/-- Admissible layouts of a one-argument call: those of the parenthesised group `( e )`. -/
def CallLayoutOK (e : QExpr) (ws : Layout) : Prop :=
  Blank (blank1 ws) ∧ LayoutOKU (.paren e) (rest1 ws) ∧
    Blank (blank1 (afterQ (.paren e) (rest1 ws)))

def callQueryToks (f : Fn) (e : QExpr) (ws : Layout) : List Token :=
  blankTok (blank1 ws) ++ toksCall f e (rest1 ws) ++
    blankTok (blank1 (afterQ (.paren e) (rest1 ws)))

/-- The tree of a one-argument call: an FN_CALL node whose children with children are the FN_NAME
node (text: the name) and the FN_ARGUMENTS node, whose one child with children is the tree of the
argument. -/
def RepCall (t : Tree) (f : Fn) (e : QExpr) : Prop :=
  ∃ id ks nm aid aks more x, t = .node id .FN_CALL ks ∧
    opKids ks = nm :: .node aid .FN_ARGUMENTS aks :: more ∧ nm.kind = .FN_NAME ∧
    nm.text = f.name ∧ opKids aks = [x] ∧ RepU x e

/-- The tree of a two-argument call: as `RepCall`, with two argument trees. -/
def RepCall2 (t : Tree) (f : Fn) (e : QExpr) (n : Literal) : Prop :=
  ∃ id ks nm aid aks more x y, t = .node id .FN_CALL ks ∧
    opKids ks = nm :: .node aid .FN_ARGUMENTS aks :: more ∧ nm.kind = .FN_NAME ∧
    nm.text = f.name ∧ opKids aks = [x, y] ∧ RepU x e ∧ RepU y (.num n)

/-- Token list of `f( e , n )` under the layout `ws` (threaded as in `renderCall`). -/
def toksCall2 (f : Fn) (e : QExpr) (n : Literal) (ws : Layout) : List Token :=
  let ws2 := afterQ e (rest1 ws)
  ⟨.WORD, f.name⟩ :: ⟨.OPEN_PAREN, ['(']⟩ ::
    (blankTok (blank1 ws) ++ (toksU e (rest1 ws) ++ (blankTok (blank1 ws2) ++
      (⟨.COMMA, [',']⟩ :: (blankTok (blank1 (rest1 ws2)) ++ (⟨.NUMBER, renderNumber n⟩ ::
        (blankTok (blank1 (rest1 (rest1 ws2))) ++ [⟨.CLOSE_PAREN, [')']⟩])))))))

/-- The layout that remains after `f( e , n )`. -/
abbrev afterCall2 (e : QExpr) (ws : Layout) : Layout :=
  rest1 (rest1 (rest1 (afterQ e (rest1 ws))))

/-- Admissible layouts of a two-argument call query: white space only at every blank position,
the argument's own layout admissible, the precision literal well formed. -/
def CallLayoutOK2 (e : QExpr) (n : Literal) (ws : Layout) : Prop :=
  let ws0 := rest1 ws
  let ws2 := afterQ e (rest1 ws0)
  Blank (blank1 ws) ∧ Blank (blank1 ws0) ∧ LayoutOKU e (rest1 ws0) ∧ Blank (blank1 ws2) ∧
    Blank (blank1 (rest1 ws2)) ∧ n.WF ∧ Blank (blank1 (rest1 (rest1 ws2))) ∧
    Blank (blank1 (afterCall2 e ws0))

def callQueryToks2 (f : Fn) (e : QExpr) (n : Literal) (ws : Layout) : List Token :=
  blankTok (blank1 ws) ++ toksCall2 f e n (rest1 ws) ++ blankTok (blank1 (afterCall2 e (rest1 ws)))

/-- The builtin's rounding of a magnitude (one argument). -/
def roundFn (f : Fn) (x : Rat) : Rat :=
  match f with
  | .floor => floorI x
  | .ceil => ceilI x
  | .round => roundHalfAway x

end Anything.UQ
