import Anything.Model.Grammar
/-!
# The parser never fails: builder invariant and fuel

`closeAt` fails when its checkpoint cell is unknown or points at a node which is no longer
a top-level tree. `Chain b L` says that the builder `b` is well formed and that the cells in
`L` (the checkpoints still in use, oldest first) point at top-level trees — or at the node
to be inserted next — in document order, two cells with the same target being the same cell.
A `closeAt` on the last cell of a chain succeeds and keeps the chain; insertions keep every
chain; `checkpoint` extends every chain. Every grammar function therefore succeeds from any
state whose chain contains the cells it is handed, provided the fuel is at least
`4 * (tokens left) + constant`; `Tot m s Q` is the total-correctness statement used for that.
-/

namespace Anything
namespace PTotal
open Parser Grammar

/-! ### Total correctness in `PM` -/

/-- `m` succeeds from `s` and the result satisfies `Q`. -/
def Tot {α} (m : PM α) (s : PState) (Q : α → PState → Prop) : Prop :=
  ∃ a s', m s = .ok (a, s') ∧ Q a s'

theorem tot_pure {α} {a : α} {s : PState} {Q : α → PState → Prop} (h : Q a s) :
    Tot (pure a : PM α) s Q := ⟨a, s, rfl, h⟩

theorem tot_seq {α β} {m : PM α} {f : α → PM β} {s : PState} {P : α → PState → Prop}
    {Q : β → PState → Prop} (hm : Tot m s P) (hf : ∀ a s1, P a s1 → Tot (f a) s1 Q) :
    Tot (m >>= f) s Q := by
  obtain ⟨a, s1, h1, hp⟩ := hm
  obtain ⟨b, s2, h2, hq⟩ := hf a s1 hp
  refine ⟨b, s2, ?_, hq⟩
  simp only [bind, h1, h2]

theorem tot_mono {α} {m : PM α} {s : PState} {P Q : α → PState → Prop} (hm : Tot m s P)
    (h : ∀ a s1, P a s1 → Q a s1) : Tot m s Q := by
  obtain ⟨a, s1, h1, hp⟩ := hm
  exact ⟨a, s1, h1, h a s1 hp⟩

/-- Number of tokens left in the buffer. -/
def n (s : PState) : Nat := s.toks.length

/-- What `nth` answers for position `i`. -/
def kAt (s : PState) (i : Nat) : Syntax :=
  match s.toks[i]? with | some t => t.kind | none => .EOF

theorem lt_of_kAt {s : PState} {i : Nat} (h : kAt s i ≠ .EOF) : i < n s := by
  unfold kAt at h
  split at h
  · rename_i t ht
    have := (List.getElem?_eq_some_iff.mp ht).1
    exact this
  · exact absurd rfl h

theorem tot_nth {skip k : Nat} {s : PState} {Q : Syntax → PState → Prop}
    (h : Q (kAt s (skip + k)) s) : Tot (nth skip k) s Q := ⟨_, s, rfl, h⟩

theorem tot_countSkip {s : PState} {Q : Nat → PState → Prop}
    (h : ∀ k, Q k s) : Tot countSkip s Q := ⟨_, s, rfl, h _⟩

theorem tot_get {s : PState} {Q : PState → PState → Prop} (h : Q s s) : Tot Parser.get s Q :=
  ⟨s, s, rfl, h⟩

/-! ### The builder invariant -/

/-- Arena indices of the top-level trees. -/
def tops (b : Builder) : List Nat := b.forest.map Tree.id

structure WF (b : Builder) : Prop where
  sorted : (tops b).Pairwise (· < ·)
  lt : ∀ v ∈ tops b, v < b.nextId
  le : ∀ (c v : Nat), b.cells[c]? = some v → v ≤ b.nextId
  last : ∀ c : Nat, b.cells[c]? = some b.nextId → b.last = some c

/-- Cell `c` points at something `closeAt` can find. -/
def CellOk (b : Builder) (c : Nat) : Prop :=
  ∃ v, b.cells[c]? = some v ∧ (v = b.nextId ∨ v ∈ tops b)

/-- `a` does not point after `a'`; if they point at the same node they are the same cell. -/
def Rel (b : Builder) (a a' : Nat) : Prop :=
  ∀ v v', b.cells[a]? = some v → b.cells[a']? = some v' → v ≤ v' ∧ (v = v' → a = a')

structure Chain (b : Builder) (L : List Nat) : Prop where
  wf : WF b
  ok : ∀ c ∈ L, CellOk b c
  ord : L.Pairwise (Rel b)

theorem Chain.sub {b : Builder} {L L' : List Nat} (h : Chain b L) (hs : L'.Sublist L) :
    Chain b L' :=
  ⟨h.wf, fun c hc => h.ok c (hs.subset hc), h.ord.sublist hs⟩

theorem chain_init : Chain {} [] := by
  refine ⟨⟨?_, ?_, ?_, ?_⟩, ?_, ?_⟩ <;> simp [tops]

/-- Appending a tree with the next arena index keeps every chain. -/
theorem Chain.insert {b : Builder} {L : List Nat} (h : Chain b L) (t : Tree)
    (ht : t.id = b.nextId) (k : Nat) (hk : b.nextId < k) :
    Chain { b with forest := b.forest ++ [t], nextId := k } L := by
  have htops : tops { b with forest := b.forest ++ [t], nextId := k } = tops b ++ [b.nextId] := by
    simp [tops, ht]
  refine ⟨⟨?_, ?_, ?_, ?_⟩, ?_, ?_⟩
  · rw [htops, List.pairwise_append]
    refine ⟨h.wf.sorted, by simp, ?_⟩
    intro a ha c hc
    simp only [List.mem_singleton] at hc
    subst hc
    exact h.wf.lt a ha
  · intro v hv
    rw [htops, List.mem_append, List.mem_singleton] at hv
    rcases hv with hv | hv
    · have := h.wf.lt v hv
      simp only; omega
    · simp only; omega
  · intro c v hv
    have := h.wf.le c v hv
    simp only; omega
  · intro c hc
    have := h.wf.le c _ hc
    simp only at this; omega
  · intro c hc
    obtain ⟨v, hv, hvv⟩ := h.ok c hc
    refine ⟨v, hv, Or.inr ?_⟩
    rw [htops, List.mem_append, List.mem_singleton]
    rcases hvv with hvv | hvv
    · exact Or.inr hvv
    · exact Or.inl hvv
  · exact h.ord

/-- A cell pointing at the next node to be inserted can be put on top of any chain. -/
theorem Chain.snoc_next {b : Builder} {L : List Nat} (h : Chain b L) {c : Nat}
    (hc : b.cells[c]? = some b.nextId) : Chain b (L ++ [c]) := by
  refine ⟨h.wf, ?_, ?_⟩
  · intro a ha
    rw [List.mem_append, List.mem_singleton] at ha
    rcases ha with ha | rfl
    · exact h.ok a ha
    · exact ⟨_, hc, Or.inl rfl⟩
  · rw [List.pairwise_append]
    refine ⟨h.ord, by simp, ?_⟩
    intro a _ a' ha'
    rw [List.mem_singleton] at ha'
    subst ha'
    intro v v' hv hv'
    rw [hc] at hv'
    cases hv'
    refine ⟨h.wf.le a v hv, ?_⟩
    intro hvv
    subst hvv
    have h1 := h.wf.last a hv
    have h2 := h.wf.last a' hc
    rw [h1] at h2
    exact Option.some.inj h2

/-- A fresh cell pointing at the next node, when no existing cell does. -/
theorem Chain.snoc_new {b : Builder} {L : List Nat} (h : Chain b L)
    (hno : ∀ c : Nat, b.cells[c]? ≠ some b.nextId) :
    Chain { b with cells := b.cells ++ [b.nextId], last := some b.cells.length }
      (L ++ [b.cells.length]) := by
  have hget : ∀ (c v : Nat), b.cells[c]? = some v → (b.cells ++ [b.nextId])[c]? = some v := by
    intro c v hv
    have := (List.getElem?_eq_some_iff.mp hv).1
    rw [List.getElem?_append_left this]; exact hv
  have hget' : ∀ (c v : Nat), (b.cells ++ [b.nextId])[c]? = some v →
      b.cells[c]? = some v ∨ (c = b.cells.length ∧ v = b.nextId) := by
    intro c v hv
    rw [List.getElem?_append] at hv
    split at hv
    · exact Or.inl hv
    · right
      have hlt := (List.getElem?_eq_some_iff.mp hv).1
      simp only [List.length_singleton] at hlt
      have hc : c = b.cells.length := by omega
      subst hc
      simp at hv
      exact ⟨rfl, hv.symm⟩
  have hlen : (b.cells ++ [b.nextId])[b.cells.length]? = some b.nextId := by simp
  have hsame : ∀ a ∈ L, ∀ v, (b.cells ++ [b.nextId])[a]? = some v → b.cells[a]? = some v := by
    intro a ha v hv
    obtain ⟨w, hw, _⟩ := h.ok a ha
    rw [hget a w hw] at hv
    rw [hw]; exact hv
  refine ⟨⟨h.wf.sorted, h.wf.lt, ?_, ?_⟩, ?_, ?_⟩
  · intro c v hv
    rcases hget' c v hv with hv | ⟨_, rfl⟩
    · exact h.wf.le c v hv
    · exact Nat.le_refl _
  · intro c hc
    rcases hget' c _ hc with hc | ⟨rfl, _⟩
    · exact absurd hc (hno c)
    · rfl
  · intro a ha
    rw [List.mem_append, List.mem_singleton] at ha
    rcases ha with ha | rfl
    · obtain ⟨v, hv, hvv⟩ := h.ok a ha
      exact ⟨v, hget a v hv, hvv⟩
    · exact ⟨_, hlen, Or.inl rfl⟩
  · rw [List.pairwise_append]
    refine ⟨?_, by simp, ?_⟩
    · refine h.ord.imp_of_mem ?_
      intro a a' ha ha' hr v v' hv hv'
      exact hr v v' (hsame a ha v hv) (hsame a' ha' v' hv')
    · intro a ha a' ha'
      rw [List.mem_singleton] at ha'
      subst ha'
      intro v v' hv hv'
      have hv := hsame a ha v hv
      rw [hlen] at hv'
      cases hv'
      refine ⟨h.wf.le a v hv, ?_⟩
      intro hvv
      subst hvv
      exact absurd hv (hno a)

theorem checkpoint_spec {s : PState} {L : List Nat} (h : Chain s.b L) :
    Tot checkpoint s (fun c s' => Chain s'.b (L ++ [c]) ∧ s'.toks = s.toks) := by
  unfold checkpoint Tot
  simp only
  have hnew : (∀ c : Nat, s.b.cells[c]? ≠ some s.b.nextId) →
      ∃ a s', Except.ok (s.b.cells.length, { s with b := { s.b with cells := s.b.cells ++ [s.b.nextId], last := some s.b.cells.length } }) = (Except.ok (a, s') : Except BErr _) ∧ Chain s'.b (L ++ [a]) ∧ s'.toks = s.toks :=
    fun hno => ⟨_, _, rfl, h.snoc_new hno, rfl⟩
  split
  · rename_i c0 hlast
    split
    · rename_i hc
      simp only [beq_iff_eq] at hc
      exact ⟨_, _, rfl, h.snoc_next hc, rfl⟩
    · rename_i hc
      simp only [beq_iff_eq] at hc
      apply hnew
      intro c hcc
      have := h.wf.last c hcc
      rw [hlast] at this
      cases this
      exact hc hcc
  · rename_i hlast
    apply hnew
    intro c hcc
    have := h.wf.last c hcc
    rw [hlast] at this
    cases this

/-- Wrapping the forest from the target of the last cell of a chain keeps the chain. -/
theorem Chain.wrap {b : Builder} {L : List Nat} {c v i : Nat} {kind : Syntax}
    (h : Chain b (L ++ [c])) (hv : b.cells[c]? = some v) (hlt : v < b.nextId)
    (hi : findTop b.forest v = some i) :
    Chain { b with forest := b.forest.take i ++ [.node b.nextId kind (b.forest.drop i)],
                   nextId := b.nextId + 1, cells := b.cells.set c b.nextId } (L ++ [c]) := by
  have htops : tops { b with forest := b.forest.take i ++ [.node b.nextId kind (b.forest.drop i)],
                             nextId := b.nextId + 1,
                             cells := b.cells.set c b.nextId } = (tops b).take i ++ [b.nextId] := by
    simp [tops, Tree.id, List.map_take]
  obtain ⟨hil, hiv, _⟩ := List.findIdx?_eq_some_iff_getElem.mp hi
  have hil' : i < (tops b).length := by simpa [tops] using hil
  have htv : (tops b)[i] = v := by simpa [tops] using hiv
  have hclt : c < b.cells.length := (List.getElem?_eq_some_iff.mp hv).1
  -- smaller targets survive the wrap
  have hsmall : ∀ w ∈ tops b, w < v → w ∈ (tops b).take i := by
    intro w hw hwv
    obtain ⟨j, hj, hjw⟩ := List.mem_iff_getElem.mp hw
    rw [List.mem_take_iff_getElem]
    have hji : j < i := by
      rcases Nat.lt_or_ge j i with hji | hji
      · exact hji
      · exfalso
        rcases Nat.eq_or_lt_of_le hji with hji | hji
        · subst hji; omega
        · have := List.pairwise_iff_getElem.mp h.wf.sorted i j hil' hj hji
          omega
    exact ⟨j, by omega, hjw⟩
  have hRel : ∀ a ∈ L, Rel b a c := by
    have := (List.pairwise_append.mp h.ord).2.2
    intro a ha
    exact this a ha c (by simp)
  have hbelow : ∀ a ∈ L ++ [c], a ≠ c → ∀ w, b.cells[a]? = some w → w < v := by
    intro a ha hac w hw
    rw [List.mem_append, List.mem_singleton] at ha
    rcases ha with ha | ha
    · have := hRel a ha w v hw hv
      rcases Nat.lt_or_ge w v with h1 | h1
      · exact h1
      · exact absurd (this.2 (by omega)) hac
    · exact absurd ha hac
  have hset : ∀ a : Nat, (b.cells.set c b.nextId)[a]? =
      if c = a then some b.nextId else b.cells[a]? := by
    intro a
    rw [List.getElem?_set]
    split
    · simp
    · rfl
  refine ⟨⟨?_, ?_, ?_, ?_⟩, ?_, ?_⟩
  · rw [htops, List.pairwise_append]
    refine ⟨h.wf.sorted.sublist (List.take_sublist _ _), by simp, ?_⟩
    intro a ha a' ha'
    rw [List.mem_singleton] at ha'
    subst ha'
    exact h.wf.lt a (List.mem_of_mem_take ha)
  · intro w hw
    rw [htops, List.mem_append, List.mem_singleton] at hw
    simp only
    rcases hw with hw | hw
    · have := h.wf.lt w (List.mem_of_mem_take hw); omega
    · omega
  · intro a w hw
    simp only at hw ⊢
    rw [hset] at hw
    split at hw
    · cases hw; omega
    · have := h.wf.le a w hw; omega
  · intro a ha
    simp only at ha
    rw [hset] at ha
    split at ha
    · have := Option.some.inj ha; omega
    · have := h.wf.le a _ ha; omega
  · intro a ha
    by_cases hac : a = c
    · subst hac
      refine ⟨b.nextId, ?_, Or.inr ?_⟩
      · simp only; rw [hset]; simp
      · rw [htops]; simp
    · obtain ⟨w, hw, hww⟩ := h.ok a ha
      have hwv := hbelow a ha hac w hw
      refine ⟨w, ?_, Or.inr ?_⟩
      · simp only; rw [hset]; rw [if_neg (Ne.symm hac)]; exact hw
      · rw [htops, List.mem_append]
        left
        rcases hww with hww | hww
        · omega
        · exact hsmall w hww hwv
  · refine h.ord.imp_of_mem ?_
    intro a a' ha ha' hr x x' hx hx'
    simp only at hx hx'
    rw [hset] at hx hx'
    by_cases hac : a = c <;> by_cases hac' : a' = c
    · subst hac; subst hac'
      simp only [↓reduceIte] at hx hx'
      cases hx; cases hx'
      exact ⟨Nat.le_refl _, fun _ => rfl⟩
    · subst hac
      rw [if_neg (Ne.symm hac')] at hx'
      have h1 := hbelow a' ha' hac' x' hx'
      have h2 := (hr v x' hv hx').1
      omega
    · subst hac'
      rw [if_neg (Ne.symm hac)] at hx
      simp only [↓reduceIte] at hx'
      cases hx'
      have h1 := hbelow a ha hac x hx
      refine ⟨by omega, fun _ => by omega⟩
    · rw [if_neg (Ne.symm hac)] at hx
      rw [if_neg (Ne.symm hac')] at hx'
      exact hr x x' hx hx'

theorem closeAt_spec {s : PState} {L : List Nat} {c : Nat} (kind : Syntax)
    (h : Chain s.b (L ++ [c])) :
    Tot (closeAt c kind) s (fun _ s' => Chain s'.b (L ++ [c]) ∧ s'.toks = s.toks) := by
  obtain ⟨v, hv, hvv⟩ := h.ok c (by simp)
  unfold closeAt Tot
  simp only [hv]
  by_cases hge : v ≥ s.b.nextId
  · have hveq : v = s.b.nextId := by
      rcases hvv with hvv | hvv
      · exact hvv
      · have := h.wf.lt v hvv; omega
    rw [if_pos hge, if_neg (by simpa using hveq)]
    exact ⟨_, _, rfl, h.insert _ rfl _ (Nat.lt_succ_self _), rfl⟩
  · rw [if_neg hge]
    have hmem : v ∈ tops s.b := by
      rcases hvv with hvv | hvv
      · omega
      · exact hvv
    cases hfi : findTop s.b.forest v with
    | none =>
      exfalso
      unfold findTop at hfi
      rw [List.findIdx?_eq_none_iff] at hfi
      simp only [tops, List.mem_map] at hmem
      obtain ⟨t, ht, htv⟩ := hmem
      have := hfi t ht
      simp [htv] at this
    | some i =>
      exact ⟨_, _, rfl, h.wrap hv (by omega) hfi, rfl⟩

/-! ### Primitives -/

theorem bump_spec {s : PState} {L : List Nat} (h : Chain s.b L) :
    Tot bump s (fun _ s' => Chain s'.b L ∧ n s' = n s - 1) := by
  unfold bump Tot n
  dsimp only
  split
  · rename_i ht
    exact ⟨_, _, rfl, h, by simp [ht]⟩
  · rename_i t rest ht
    exact ⟨_, _, rfl, h.insert _ rfl _ (Nat.lt_succ_self _), by simp [ht]⟩

theorem bumpNode_spec {s : PState} {L : List Nat} (kind : Syntax) (h : Chain s.b L) :
    Tot (bumpNode kind) s (fun _ s' => Chain s'.b L ∧ n s' = n s - 1) := by
  unfold bumpNode Tot n
  simp only
  split
  · rename_i ht
    exact ⟨_, _, rfl, h.insert _ rfl _ (Nat.lt_succ_self _), by simp [ht]⟩
  · rename_i t rest ht
    exact ⟨_, _, rfl, h.insert _ rfl _ (by omega), by simp [ht]⟩

theorem bumpN_spec {L : List Nat} (k : Nat) : ∀ {s : PState}, Chain s.b L →
    Tot (bumpN k) s (fun _ s' => Chain s'.b L ∧ n s' = n s - k) := by
  induction k with
  | zero => intro s h; exact tot_pure ⟨h, rfl⟩
  | succ k ih =>
    intro s h
    unfold bumpN
    refine tot_seq (bump_spec h) fun _ s1 ⟨h1, hn1⟩ => ?_
    refine tot_mono (ih h1) fun _ s2 ⟨h2, hn2⟩ => ⟨h2, ?_⟩
    omega

theorem eat_spec {s : PState} {L : List Nat} (skip : Nat) (expected : List Syntax)
    (h : Chain s.b L) :
    Tot (eat skip expected) s (fun r s' => Chain s'.b L ∧ n s' ≤ n s ∧
      (r = true → 0 < expected.length → n s' < n s)) := by
  unfold eat Tot
  dsimp only
  split
  · rename_i hok
    show Tot (bumpN skip >>= _) s _
    refine tot_seq (bumpN_spec skip h) fun _ s1 ⟨h1, hn1⟩ => ?_
    refine tot_seq (bumpN_spec expected.length h1) fun _ s2 ⟨h2, hn2⟩ => ?_
    refine tot_pure ⟨h2, by omega, ?_⟩
    intro _ hpos
    rw [List.all_eq_true] at hok
    have h0 := hok 0 (by simpa using hpos)
    have hlt : skip < n s := by
      unfold n
      cases hget : s.toks[skip + 0]? with
      | none => rw [hget] at h0; simp at h0
      | some t => exact (List.getElem?_eq_some_iff.mp hget).1
    omega
  · exact ⟨_, _, rfl, h, Nat.le_refl _, fun hf => by cases hf⟩

theorem bumpUntil_spec {L : List Nat} (kind : Syntax) (fuel : Nat) : ∀ {s : PState},
    Chain s.b L → Tot (bumpUntil kind fuel) s (fun _ s' => Chain s'.b L ∧ n s' ≤ n s) := by
  induction fuel with
  | zero => intro s h; exact tot_pure ⟨h, Nat.le_refl _⟩
  | succ k ih =>
    intro s h
    unfold bumpUntil Tot
    dsimp only
    split
    · exact ⟨_, _, rfl, h, Nat.le_refl _⟩
    · show Tot (bump >>= _) s _
      refine tot_seq (bump_spec h) fun _ s1 ⟨h1, hn1⟩ => ?_
      split
      · exact tot_pure ⟨h1, by omega⟩
      · refine tot_mono (ih h1) fun _ s2 ⟨h2, hn2⟩ => ⟨h2, by omega⟩

theorem tot_nth_bind {β} {skip j : Nat} {f : Syntax → PM β} {s : PState}
    {Q : β → PState → Prop} (h : ∀ k, k = kAt s (skip + j) → Tot (f k) s Q) :
    Tot (nth skip j >>= f) s Q :=
  tot_seq (tot_nth (Q := fun k s' => s' = s ∧ k = kAt s (skip + j)) ⟨rfl, rfl⟩)
    fun k _ ⟨hs, hk⟩ => hs ▸ h k hk

theorem tot_countSkip_bind {β} {f : Nat → PM β} {s : PState}
    {Q : β → PState → Prop} (h : ∀ k, Tot (f k) s Q) : Tot (countSkip >>= f) s Q :=
  tot_seq (tot_countSkip (Q := fun _ s' => s' = s) fun _ => rfl) fun k _ hs => hs ▸ h k

/-! ### Grammar: the non-recursive-descent part -/

theorem unitTrail_spec {L : List Nat} (F : Nat) : ∀ {s : PState}, Chain s.b L → n s + 1 ≤ F →
    Tot (unitTrail F) s (fun _ s' => Chain s'.b L ∧ n s' ≤ n s) := by
  induction F with
  | zero => intro s h hf; omega
  | succ F ih =>
    intro s h hf
    unfold unitTrail
    refine tot_nth_bind fun k hk => ?_
    dsimp only
    split
    · rename_i kind heq
      have hne : k ≠ .EOF := by
        intro hk'; subst hk'; simp at heq
      have hlt := lt_of_kAt (hk ▸ hne)
      refine tot_seq (bumpNode_spec kind h) fun _ s1 ⟨h1, hn1⟩ => ?_
      refine tot_mono (ih h1 (by omega)) fun _ s2 ⟨h2, hn2⟩ => ⟨h2, by omega⟩
    · split
      · exact tot_pure ⟨h, Nat.le_refl _⟩
      · exact tot_pure ⟨h, Nat.le_refl _⟩

theorem unitLoop_spec {L : List Nat} (F : Nat) : ∀ {s : PState} (c : Option Nat) (skip : Nat),
    Chain s.b (L ++ c.toList) → n s + 1 ≤ F →
    Tot (unitLoop F c skip) s (fun r s' => Chain s'.b (L ++ r.toList) ∧ n s' ≤ n s) := by
  induction F with
  | zero => intro s c skip h hf; omega
  | succ F ih =>
    intro s c skip h hf
    unfold unitLoop
    refine tot_nth_bind fun k hk => ?_
    split
    · rename_i hkk
      have hne : k ≠ .EOF := by
        intro hk'; subst hk'; simp at hkk
      have hlt := lt_of_kAt (hk ▸ hne)
      refine tot_seq (bumpN_spec skip h) fun _ s1 ⟨h1, hn1⟩ => ?_
      refine tot_seq (P := fun r s' => (∃ c', r = some c') ∧ Chain s'.b (L ++ r.toList) ∧
        n s' = n s1) ?_ fun r s2 ⟨⟨c', hr⟩, h2, hn2⟩ => ?_
      · cases c with
        | some c => exact tot_pure ⟨⟨c, rfl⟩, h1, rfl⟩
        | none =>
          simp only [Option.toList_none, List.append_nil] at h1
          refine tot_seq (checkpoint_spec h1) fun c' s2 ⟨h2, ht2⟩ => ?_
          exact tot_pure ⟨⟨c', rfl⟩, h2, by simp [n, ht2]⟩
      subst hr
      refine tot_seq (bumpNode_spec k h2) fun _ s3 ⟨h3, hn3⟩ => ?_
      refine tot_seq (unitTrail_spec F h3 (by omega)) fun r s4 ⟨h4, hn4⟩ => ?_
      split
      · refine tot_mono (ih (some c') _ h4 (by omega)) fun r s5 ⟨h5, hn5⟩ => ⟨h5, by omega⟩
      · exact tot_pure ⟨h4, by omega⟩
    · exact tot_pure ⟨h, Nat.le_refl _⟩

theorem unit_spec {L : List Nat} (F skip : Nat) {s : PState} (h : Chain s.b L)
    (hf : n s + 1 ≤ F) :
    Tot (unit F skip) s (fun r s' => Chain s'.b (L ++ r.toList) ∧ n s' ≤ n s) := by
  unfold unit
  refine tot_seq (unitLoop_spec (L := L) F none skip (by simpa using h) hf) fun r s1 ⟨h1, hn1⟩ => ?_
  split
  · rename_i c
    refine tot_seq (closeAt_spec .UNIT h1) fun _ s2 ⟨h2, ht2⟩ => ?_
    exact tot_pure ⟨h2, by simp only [n, ht2]; exact hn1⟩
  · exact tot_pure ⟨h1, hn1⟩

theorem wordLoop_spec {L : List Nat} (b : Bool) (F : Nat) : ∀ {s : PState} (skip words : Nat),
    Chain s.b L → n s + 1 ≤ F →
    Tot (wordLoop b F skip words) s (fun _ s' => Chain s'.b L ∧ n s' ≤ n s) := by
  induction F with
  | zero => intro s skip words h hf; omega
  | succ F ih =>
    intro s skip words h hf
    unfold wordLoop
    refine tot_nth_bind fun k hk => ?_
    split
    · rename_i hkk
      have hne : k ≠ .EOF := by
        intro hk'; subst hk'; simp at hkk
      have hlt := lt_of_kAt (hk ▸ hne)
      refine tot_seq (bumpN_spec skip h) fun _ s1 ⟨h1, hn1⟩ => ?_
      refine tot_seq (bumpNode_spec .WORD h1) fun _ s2 ⟨h2, hn2⟩ => ?_
      refine tot_countSkip_bind fun skip' => ?_
      refine tot_mono (ih _ _ h2 (by omega)) fun r s3 ⟨h3, hn3⟩ => ⟨h3, by omega⟩
    · exact tot_pure ⟨h, Nat.le_refl _⟩

/-- The checkpoint cells of an operator stack, bottom first. -/
def sc (st : List (Nat × Nat × Bool)) : List Nat := (st.map (·.1)).reverse

theorem sc_nil : sc [] = [] := rfl

theorem sc_cons (c p : Nat) (e : Bool) (rest : List (Nat × Nat × Bool)) :
    sc ((c, p, e) :: rest) = sc rest ++ [c] := by simp [sc]

theorem closeAll_spec {L : List Nat} : ∀ (st : List (Nat × Nat × Bool)) {s : PState},
    Chain s.b (L ++ sc st) →
    Tot (closeAll st) s (fun _ s' => Chain s'.b L ∧ n s' = n s) := by
  intro st
  induction st with
  | nil => intro s h; exact tot_pure ⟨by simpa [sc] using h, rfl⟩
  | cons x rest ih =>
    intro s h
    obtain ⟨c, p, e⟩ := x
    rw [sc_cons, ← List.append_assoc] at h
    unfold closeAll
    refine tot_seq (closeAt_spec .OPERATION h) fun _ s1 ⟨h1, ht1⟩ => ?_
    refine tot_mono (ih (h1.sub (by simp))) fun _ s2 ⟨h2, hn2⟩ => ⟨h2, ?_⟩
    rw [hn2]; simp only [n, ht1]

theorem reduce_spec {L : List Nat} (cur prio : Nat) (extra : Bool) :
    ∀ (st : List (Nat × Nat × Bool)) {s : PState}, Chain s.b (L ++ sc st) →
    (∀ c pr ex rest, st = (c, pr, ex) :: rest → pr < prio → Chain s.b (L ++ sc st ++ [cur])) →
    Tot (reduce cur prio extra st) s (fun st' s' => Chain s'.b (L ++ sc st') ∧ n s' = n s) := by
  intro st
  induction st with
  | nil => intro s h _; exact tot_pure ⟨h, rfl⟩
  | cons x rest ih =>
    intro s h hcur
    obtain ⟨c, pr, ex⟩ := x
    unfold reduce
    split
    · -- close the top frame
      rename_i hlt
      have h' := h
      rw [sc_cons, ← List.append_assoc] at h'
      refine tot_seq (closeAt_spec .OPERATION h') fun _ s1 ⟨h1, ht1⟩ => ?_
      have hn1 : n s1 = n s := by simp only [n, ht1]
      split
      · rename_i c2 pr2 ex2 rest2
        split
        · rename_i hge
          refine tot_mono (ih (h1.sub (by simp)) ?_) fun st' s2 ⟨h2, hn2⟩ => ⟨h2, by omega⟩
          intro c' pr' ex' rest' heq hlt'
          cases heq
          omega
        · refine tot_pure ⟨?_, hn1⟩
          rw [sc_cons, ← List.append_assoc]
          exact h1
      · refine tot_pure ⟨?_, hn1⟩
        rw [sc_cons, ← List.append_assoc]
        exact h1
    · split
      · rename_i hgt
        refine tot_pure ⟨?_, rfl⟩
        rw [sc_cons cur, ← List.append_assoc]
        exact hcur c pr ex rest rfl (by omega)
      · exact tot_pure ⟨h, rfl⟩

theorem closeAt_spec_n {s : PState} {L : List Nat} {c : Nat} (kind : Syntax)
    (h : Chain s.b (L ++ [c])) :
    Tot (closeAt c kind) s (fun _ s' => Chain s'.b (L ++ [c]) ∧ n s' = n s) :=
  tot_mono (closeAt_spec kind h) fun _ _ ⟨h1, ht⟩ => ⟨h1, by simp only [n, ht]⟩

theorem checkpoint_spec_n {s : PState} {L : List Nat} (h : Chain s.b L) :
    Tot checkpoint s (fun c s' => Chain s'.b (L ++ [c]) ∧ n s' = n s) :=
  tot_mono (checkpoint_spec h) fun _ _ ⟨h1, ht⟩ => ⟨h1, by simp only [n, ht]⟩

/-- `if p then (m; k) else k` as the `do` elaborator produces it for `if p then m` followed by `k`. -/
theorem tot_if_then {β} {p : Prop} [Decidable p] {m : PM PUnit} {k : PM β} {s : PState}
    {P : PState → Prop} {Q : β → PState → Prop}
    (hm : p → Tot m s (fun _ s' => P s')) (h0 : ¬p → P s) (hk : ∀ s1, P s1 → Tot k s1 Q) :
    Tot (if p then (m >>= fun _ => k) else k) s Q := by
  split
  · rename_i hp
    exact tot_seq (hm hp) fun _ s1 h1 => hk s1 h1
  · rename_i hp
    exact hk s (h0 hp)

/-! ### Grammar: the mutually recursive part -/

/-- The token kinds on which `root` enters `operation`. -/
def startKind (k : Syntax) : Prop :=
  k = .OPEN_BRACE ∨ k = .OPEN_PAREN ∨ k = .WORD ∨ k = .NUMBER

def isUnitTop : List (Nat × Nat × Bool) → Bool
  | (_, _, u) :: _ => u
  | [] => false

structure Specs (F : Nat) : Prop where
  value : ∀ {L : List Nat} {s : PState} (skip : Nat), Chain s.b L → 4 * n s + 1 ≤ F →
    Tot (value F skip) s (fun r s' => Chain s'.b (L ++ r.toList) ∧ n s' ≤ n s ∧
      (startKind (kAt s skip) → n s' < n s))
  argsLoop : ∀ {L : List Nat} {s : PState}, Chain s.b L → 4 * n s + 4 ≤ F →
    Tot (argsLoop F) s (fun _ s' => Chain s'.b L ∧ n s' ≤ n s)
  callArguments : ∀ {L : List Nat} {s : PState}, Chain s.b L → 4 * n s + 5 ≤ F →
    Tot (callArguments F) s (fun _ s' => Chain s'.b L ∧ n s' ≤ n s)
  opLoop : ∀ {L : List Nat} {s : PState} (opn : Nat) (st : List (Nat × Nat × Bool))
    (first : Bool) (skip : Nat),
    Chain s.b (L ++ sc st ++ (if first then [opn] else [])) → 4 * n s + 2 ≤ F →
    Tot (opLoop F opn st first skip) s (fun _ s' => Chain s'.b L ∧ n s' ≤ n s ∧
      (isUnitTop st = false → startKind (kAt s skip) → n s' < n s))
  operation : ∀ {L : List Nat} {s : PState} (skip : Nat), Chain s.b L → 4 * n s + 3 ≤ F →
    Tot (operation F skip) s (fun _ s' => Chain s'.b L ∧ n s' ≤ n s ∧
      (startKind (kAt s skip) → n s' < n s))

theorem value_step {F : Nat} (ih : Specs F) {L : List Nat} {s : PState} (skip : Nat)
    (h : Chain s.b L) (hf : 4 * n s + 1 ≤ F + 1) :
    Tot (value (F + 1) skip) s (fun r s' => Chain s'.b (L ++ r.toList) ∧ n s' ≤ n s ∧
      (startKind (kAt s skip) → n s' < n s)) := by
  unfold value
  refine tot_nth_bind fun k hk => ?_
  rw [Nat.add_zero] at hk
  split
  · -- `{`
    have hlt := lt_of_kAt (s := s) (i := skip) (by rw [← hk]; simp)
    refine tot_seq (bumpN_spec skip h) fun _ s1 ⟨h1, hn1⟩ => ?_
    refine tot_seq (checkpoint_spec_n h1) fun start s2 ⟨h2, hn2⟩ => ?_
    refine tot_seq (bump_spec h2) fun _ s3 ⟨h3, hn3⟩ => ?_
    refine tot_seq (checkpoint_spec_n h3) fun c s4 ⟨h4, hn4⟩ => ?_
    refine tot_countSkip_bind fun skip1 => ?_
    refine tot_seq (wordLoop_spec false F skip1 0 h4 (by omega)) fun ws s5 ⟨h5, hn5⟩ => ?_
    obtain ⟨words, skip2⟩ := ws
    dsimp only
    refine tot_if_then (P := fun s' => Chain s'.b (L ++ [start] ++ [c]) ∧ n s' = n s5)
      (fun _ => closeAt_spec_n .SENTENCE h5) (fun _ => ⟨h5, rfl⟩) fun s6 ⟨h6, hn6⟩ => ?_
    refine tot_seq (eat_spec skip2 [.CLOSE_BRACE] h6) fun b s7 ⟨h7, hn7, _⟩ => ?_
    split
    · refine tot_seq (tot_get (Q := fun _ s' => s' = s7) rfl) fun sg s8 hs8 => ?_
      subst hs8
      refine tot_seq (bumpUntil_spec .CLOSE_BRACE _ h7) fun _ s9 ⟨h9, hn9⟩ => ?_
      exact tot_pure ⟨h9.sub (by simp), by omega, fun _ => by omega⟩
    · exact tot_pure ⟨h7.sub (by simp), by omega, fun _ => by omega⟩
  · -- word, function call
    have hlt := lt_of_kAt (s := s) (i := skip) (by rw [← hk]; simp)
    refine tot_seq (bumpN_spec skip h) fun _ s1 ⟨h1, hn1⟩ => ?_
    refine tot_seq (checkpoint_spec_n h1) fun start s2 ⟨h2, hn2⟩ => ?_
    refine tot_seq (checkpoint_spec_n h2) fun c s3 ⟨h3, hn3⟩ => ?_
    refine tot_seq (bumpNode_spec .WORD h3) fun _ s4 ⟨h4, hn4⟩ => ?_
    refine tot_nth_bind fun k2 hk2 => ?_
    split
    · rename_i hparen
      have hlt4 := lt_of_kAt (s := s4) (i := 0 + 0) (by
        rw [← hk2]; intro hh; rw [hh] at hparen; simp at hparen)
      refine tot_seq (closeAt_spec_n .FN_NAME h4) fun _ s5 ⟨h5, hn5⟩ => ?_
      refine tot_seq (bump_spec h5) fun _ s6 ⟨h6, hn6⟩ => ?_
      refine tot_seq (ih.callArguments h6 (by omega)) fun b s7 ⟨h7, hn7⟩ => ?_
      split
      · exact tot_pure ⟨h7.sub (by simp), by omega, fun _ => by omega⟩
      · refine tot_seq (closeAt_spec_n .FN_CALL h7) fun _ s8 ⟨h8, hn8⟩ => ?_
        exact tot_pure ⟨h8.sub (by simp), by omega, fun _ => by omega⟩
    · refine tot_countSkip_bind fun skip1 => ?_
      refine tot_seq (wordLoop_spec true F skip1 0 h4 (by omega)) fun ws s5 ⟨h5, hn5⟩ => ?_
      obtain ⟨words, skip2⟩ := ws
      dsimp only
      refine tot_if_then (P := fun s' => Chain s'.b (L ++ [start] ++ [c]) ∧ n s' = n s5)
        (fun _ => closeAt_spec_n .SENTENCE h5) (fun _ => ⟨h5, rfl⟩) fun s6 ⟨h6, hn6⟩ => ?_
      exact tot_pure ⟨h6.sub (by simp), by omega, fun _ => by omega⟩
  · -- number
    have hlt := lt_of_kAt (s := s) (i := skip) (by rw [← hk]; simp)
    refine tot_seq (bumpN_spec skip h) fun _ s1 ⟨h1, hn1⟩ => ?_
    refine tot_seq (checkpoint_spec_n h1) fun c s2 ⟨h2, hn2⟩ => ?_
    refine tot_seq (bump_spec h2) fun _ s3 ⟨h3, hn3⟩ => ?_
    refine tot_countSkip_bind fun skip1 => ?_
    refine tot_seq (P := fun _ s' => Chain s'.b (L ++ [c]) ∧ n s' ≤ n s3) ?_
      fun kind s4 ⟨h4, hn4⟩ => ?_
    · refine tot_nth_bind fun k2 hk2 => ?_
      split
      · refine tot_seq (bumpN_spec skip1 h3) fun _ s4 ⟨h4, hn4⟩ => ?_
        refine tot_seq (bump_spec h4) fun _ s5 ⟨h5, hn5⟩ => ?_
        exact tot_pure ⟨h5, by omega⟩
      · refine tot_seq (unit_spec F skip1 h3 (by omega)) fun r s4 ⟨h4, hn4⟩ => ?_
        split
        · exact tot_pure ⟨h4.sub (by simp), hn4⟩
        · exact tot_pure ⟨h4.sub (by simp), hn4⟩
    · refine tot_seq (closeAt_spec_n kind h4) fun _ s5 ⟨h5, hn5⟩ => ?_
      exact tot_pure ⟨h5, by omega, fun _ => by omega⟩
  · -- parenthesis
    have hlt := lt_of_kAt (s := s) (i := skip) (by rw [← hk]; simp)
    refine tot_seq (bumpN_spec skip h) fun _ s1 ⟨h1, hn1⟩ => ?_
    refine tot_seq (checkpoint_spec_n h1) fun c s2 ⟨h2, hn2⟩ => ?_
    refine tot_seq (bump_spec h2) fun _ s3 ⟨h3, hn3⟩ => ?_
    refine tot_countSkip_bind fun skip1 => ?_
    refine tot_seq (ih.operation skip1 h3 (by omega)) fun r s4 ⟨h4, hn4, _⟩ => ?_
    split
    · exact tot_pure ⟨h4.sub (by simp), by omega, fun _ => by omega⟩
    · rename_i skip2
      refine tot_seq (eat_spec skip2 [.CLOSE_PAREN] h4) fun b s5 ⟨h5, hn5, _⟩ => ?_
      split
      · exact tot_pure ⟨h5.sub (by simp), by omega, fun _ => by omega⟩
      · refine tot_seq (closeAt_spec_n .OPERATION h5) fun _ s6 ⟨h6, hn6⟩ => ?_
        exact tot_pure ⟨h6, by omega, fun _ => by omega⟩
  · -- anything else
    rename_i h1 h2 h3 h4
    refine tot_pure ⟨by simpa using h, Nat.le_refl _, ?_⟩
    intro hs
    rw [← hk] at hs
    rcases hs with hs | hs | hs | hs
    · exact absurd hs h1
    · exact absurd hs h4
    · exact absurd hs h2
    · exact absurd hs h3

theorem argsLoop_step {F : Nat} (ih : Specs F) {L : List Nat} {s : PState}
    (h : Chain s.b L) (hf : 4 * n s + 4 ≤ F + 1) :
    Tot (argsLoop (F + 1)) s (fun _ s' => Chain s'.b L ∧ n s' ≤ n s) := by
  unfold argsLoop
  refine tot_countSkip_bind fun skip => ?_
  refine tot_nth_bind fun k hk => ?_
  split
  · exact tot_pure ⟨h, Nat.le_refl _⟩
  · refine tot_seq (ih.operation skip h (by omega)) fun r s1 ⟨h1, hn1, _⟩ => ?_
    split
    · exact tot_pure ⟨h1, hn1⟩
    · rename_i skip1
      refine tot_seq (eat_spec skip1 [.COMMA] h1) fun b s2 ⟨h2, hn2, hp2⟩ => ?_
      split
      · exact tot_pure ⟨h2, by omega⟩
      · rename_i hb
        have hb' : b = true := by simpa using hb
        have := hp2 hb' (by simp)
        refine tot_mono (ih.argsLoop h2 (by omega)) fun _ s3 ⟨h3, hn3⟩ => ⟨h3, by omega⟩

theorem callArguments_step {F : Nat} (ih : Specs F) {L : List Nat} {s : PState}
    (h : Chain s.b L) (hf : 4 * n s + 5 ≤ F + 1) :
    Tot (callArguments (F + 1)) s (fun _ s' => Chain s'.b L ∧ n s' ≤ n s) := by
  unfold callArguments
  refine tot_seq (checkpoint_spec_n h) fun c s1 ⟨h1, hn1⟩ => ?_
  refine tot_seq (ih.argsLoop h1 (by omega)) fun r s2 ⟨h2, hn2⟩ => ?_
  split
  · exact tot_pure ⟨h2.sub (by simp), by omega⟩
  · rename_i skip
    refine tot_seq (closeAt_spec_n .FN_ARGUMENTS h2) fun _ s3 ⟨h3, hn3⟩ => ?_
    refine tot_mono (eat_spec skip [.CLOSE_PAREN] h3) fun _ s4 ⟨h4, hn4, _⟩ =>
      ⟨h4.sub (by simp), by omega⟩

theorem opInfo_EOF : opInfo .EOF = none := rfl

theorem opLoop_step {F : Nat} (ih : Specs F) {L : List Nat} {s : PState} (opn : Nat)
    (st : List (Nat × Nat × Bool)) (first : Bool) (skip : Nat)
    (h : Chain s.b (L ++ sc st ++ (if first then [opn] else []))) (hf : 4 * n s + 2 ≤ F + 1) :
    Tot (opLoop (F + 1) opn st first skip) s (fun _ s' => Chain s'.b L ∧ n s' ≤ n s ∧
      (isUnitTop st = false → startKind (kAt s skip) → n s' < n s)) := by
  unfold opLoop
  dsimp only
  refine tot_seq (P := fun r s' =>
    Chain s'.b (L ++ sc st ++ (if first then [opn] else []) ++ r.toList) ∧ n s' ≤ n s ∧
      (isUnitTop st = false → startKind (kAt s skip) → n s' < n s)) ?_
    fun cur? s1 ⟨h1, hn1, hp1⟩ => ?_
  · show Tot (if isUnitTop st = true then _ else _) s _
    cases hu : isUnitTop st with
    | true =>
      simp only [↓reduceIte]
      refine tot_seq (bumpN_spec skip h) fun _ s1 ⟨h1, hn1⟩ => ?_
      refine tot_mono (unit_spec F 0 h1 (by omega)) fun r s2 ⟨h2, hn2⟩ =>
        ⟨h2, by omega, fun hh => by cases hh⟩
    | false =>
      simp only [Bool.false_eq_true, ↓reduceIte]
      refine tot_mono (ih.value skip h (by omega)) fun r s2 ⟨h2, hn2, hp2⟩ =>
        ⟨h2, hn2, fun _ => hp2⟩
  · split
    · exact tot_pure ⟨h1.sub (by simp), hn1, hp1⟩
    · rename_i cur _
      refine tot_countSkip_bind fun curSkip => ?_
      refine tot_nth_bind fun k2 hk2 => ?_
      split
      · refine tot_seq (closeAll_spec (L := L) st (h1.sub (by simp))) fun _ s2 ⟨h2, hn2⟩ => ?_
        exact tot_pure ⟨h2, by omega, fun a b => by have := hp1 a b; omega⟩
      · rename_i prio operator extra hop
        have hlt := lt_of_kAt (s := s1) (i := curSkip + 0) (by
          rw [← hk2]; intro hh; rw [hh, opInfo_EOF] at hop; cases hop)
        have hsc : L ++ sc (if first = true then (opn, prio, extra) :: st else st) =
            L ++ sc st ++ (if first then [opn] else []) := by
          cases first <;> simp [sc_cons]
        refine tot_seq (reduce_spec (L := L) cur prio extra _ (s := s1) ?_ ?_)
          fun st2 s2 ⟨h2, hn2⟩ => ?_
        · rw [hsc]; exact h1.sub (by simp)
        · intro _ _ _ _ _ _
          rw [hsc]; exact h1
        refine tot_seq (bumpN_spec curSkip h2) fun _ s3 ⟨h3, hn3⟩ => ?_
        refine tot_seq (bumpNode_spec operator h3) fun _ s4 ⟨h4, hn4⟩ => ?_
        refine tot_countSkip_bind fun skip' => ?_
        refine tot_mono (ih.opLoop (L := L) opn st2 false skip' (by simpa using h4) (by omega))
          fun _ s5 ⟨h5, hn5, _⟩ => ⟨h5, by omega, fun _ _ => by omega⟩

theorem operation_step {F : Nat} (ih : Specs F) {L : List Nat} {s : PState} (skip : Nat)
    (h : Chain s.b L) (hf : 4 * n s + 3 ≤ F + 1) :
    Tot (operation (F + 1) skip) s (fun _ s' => Chain s'.b L ∧ n s' ≤ n s ∧
      (startKind (kAt s skip) → n s' < n s)) := by
  unfold operation
  refine tot_seq (checkpoint_spec h) fun opn s1 ⟨h1, ht1⟩ => ?_
  have hn1 : n s1 = n s := by simp only [n, ht1]
  have hk1 : kAt s1 skip = kAt s skip := by simp only [kAt, ht1]
  refine tot_mono (ih.opLoop (L := L) opn [] true skip (by simpa [sc] using h1) (by omega))
    fun _ s2 ⟨h2, hn2, hp2⟩ => ⟨h2, by omega, fun hs => ?_⟩
  have := hp2 rfl (hk1 ▸ hs)
  omega

theorem specs : ∀ F, Specs F := by
  intro F
  induction F with
  | zero =>
    refine ⟨?_, ?_, ?_, ?_, ?_⟩ <;> intros <;> omega
  | succ F ih =>
    exact ⟨value_step ih, argsLoop_step ih, callArguments_step ih, opLoop_step ih,
      operation_step ih⟩

/-! ### The root rule -/

theorem rootLoop_spec (F : Nat) : ∀ {s : PState} (c : Nat) (e : Bool) (skip : Nat),
    Chain s.b [c] → 4 * n s + 4 ≤ F →
    Tot (rootLoop F c e skip) s (fun _ s' => Chain s'.b [c]) := by
  induction F with
  | zero => intro s c e skip h hf; omega
  | succ F ih =>
    intro s c e skip h hf
    unfold rootLoop
    refine tot_nth_bind fun k hk => ?_
    rw [Nat.add_zero] at hk
    split
    · refine tot_seq (bumpN_spec skip h) fun _ s1 ⟨h1, _⟩ => ?_
      exact tot_pure h1
    · rename_i hne
      have hlt := lt_of_kAt (s := s) (i := skip) (by
        rw [← hk]; intro hh; rw [hh] at hne; simp at hne)
      split
      · rename_i hstart
        have hsk : startKind (kAt s skip) := by
          rw [← hk]; simpa [startKind, or_assoc] using hstart
        refine tot_seq ((specs F).operation skip h (by omega)) fun r s1 ⟨h1, hn1, hp1⟩ => ?_
        have := hp1 hsk
        split
        · exact ih c e _ h1 (by omega)
        · refine tot_seq (closeAt_spec_n (L := []) .ERROR h1) fun _ s2 ⟨h2, hn2⟩ => ?_
          exact ih c e _ h2 (by omega)
      · refine tot_seq (bumpN_spec skip h) fun _ s1 ⟨h1, hn1⟩ => ?_
        refine tot_seq (bump_spec h1) fun _ s2 ⟨h2, hn2⟩ => ?_
        refine tot_countSkip_bind fun skip' => ?_
        exact ih c true _ h2 (by omega)

theorem root_spec (F : Nat) {s : PState} (h : Chain s.b []) (hf : 4 * n s + 4 ≤ F) :
    Tot (root F) s (fun _ _ => True) := by
  unfold root
  refine tot_countSkip_bind fun skip => ?_
  refine tot_seq (checkpoint_spec_n h) fun c s1 ⟨h1, hn1⟩ => ?_
  refine tot_seq (rootLoop_spec F c false skip h1 (by omega)) fun e s2 h2 => ?_
  split
  · exact tot_mono (closeAt_spec_n (L := []) .ERROR h2) fun _ _ _ => trivial
  · exact tot_pure trivial

/-- The root parser succeeds on every token list. -/
theorem parseRootToks_ok (toks : List Token) : ∃ forest, parseRootToks toks = .ok forest := by
  obtain ⟨_, s', hr, _⟩ := root_spec (fuelFor toks) (s := { toks := toks }) chain_init
    (by simp only [n, fuelFor]; omega)
  exact ⟨s'.b.forest, by simp only [parseRootToks, hr]⟩

end PTotal
end Anything
