import Anything.Model.Display
import Anything.Spec.Printed
import Anything.Lemmas.Number
/-!
# Printer/parser lemmas for printed decimals (helper file for `Props/C08`)

`render` is the shape every branch of `Display.fmt` produces; `readBack_render`
says the specification's reader recovers exactly the fields that were rendered.
-/

namespace Anything.Lemmas.Printed
open Anything Anything.Display Anything.Spec Anything.Spec.Printed
open Anything.Spec.Decimal (digitsVal)
open Anything.Lemmas.Number (digitsVal_cons digitsVal_nil digitsVal_append)

/-! ## digit characters -/

theorem digitChar_facts : ∀ d : Fin 10,
    isDigitC (digitChar d.val) = true ∧ (digitChar d.val).toNat - '0'.toNat = d.val ∧
    digitChar d.val ≠ '-' ∧ digitChar d.val ≠ '.' ∧ digitChar d.val ≠ 'e' ∧
    digitChar d.val ≠ '…' ∧ digitChar d.val = Nat.digitChar d.val := by
  decide

theorem digitChar_isDigitC {d : Nat} (h : d < 10) : isDigitC (digitChar d) = true :=
  (digitChar_facts ⟨d, h⟩).1

theorem digitChar_val {d : Nat} (h : d < 10) : (digitChar d).toNat - '0'.toNat = d :=
  (digitChar_facts ⟨d, h⟩).2.1

theorem digitChar_eq_core {d : Nat} (h : d < 10) : Nat.digitChar d = digitChar d :=
  ((digitChar_facts ⟨d, h⟩).2.2.2.2.2.2).symm

/-! ## decimal digits of a natural number -/

theorem natDigits_eq_if (n : Nat) :
    natDigits n = if n < 10 then [n] else natDigits (n / 10) ++ [n % 10] := by
  unfold natDigits
  rw [Nat.toDigits_eq_if (by decide : 1 < 10)]
  split
  · rename_i h
    simp only [List.map_cons, List.map_nil]
    have := Nat.toNat_digitChar_sub_48_of_lt_ten h
    simpa using this
  · have h2 : n % 10 < 10 := Nat.mod_lt _ (by decide)
    have := Nat.toNat_digitChar_sub_48_of_lt_ten h2
    simp only [List.map_append, List.map_cons, List.map_nil]
    congr 2

theorem natStr_eq_if (n : Nat) :
    natStr n = if n < 10 then [digitChar n] else natStr (n / 10) ++ [digitChar (n % 10)] := by
  unfold natStr
  rw [Nat.toDigits_eq_if (by decide : 1 < 10)]
  split
  · rename_i h; rw [digitChar_eq_core h]
  · rw [digitChar_eq_core (Nat.mod_lt _ (by decide))]

theorem natDigits_lt (n : Nat) : ∀ d ∈ natDigits n, d < 10 := by
  induction n using Nat.strongRecOn with
  | _ n ih =>
    rw [natDigits_eq_if]
    split
    · intro d hd; simp only [List.mem_singleton] at hd; omega
    · intro d hd
      simp only [List.mem_append, List.mem_singleton] at hd
      rcases hd with hd | hd
      · exact ih (n / 10) (by omega) d hd
      · omega

theorem natStr_eq_map (n : Nat) : natStr n = (natDigits n).map digitChar := by
  induction n using Nat.strongRecOn with
  | _ n ih =>
    rw [natDigits_eq_if, natStr_eq_if]
    split
    · rfl
    · rw [ih (n / 10) (by omega)]; simp

theorem natDigits_val (n : Nat) : digitsVal (natDigits n) = n := by
  induction n using Nat.strongRecOn with
  | _ n ih =>
    rw [natDigits_eq_if]
    split
    · simp [digitsVal]
    · rw [digitsVal_append, ih (n / 10) (by omega)]
      simp only [List.length_cons, List.length_nil, digitsVal_cons, digitsVal_nil]
      omega

theorem natDigits_ne_nil (n : Nat) : natDigits n ≠ [] := by
  rw [natDigits_eq_if]; split <;> simp

theorem natDigits_length_ge_two {n : Nat} (h : 10 ≤ n) : 2 ≤ (natDigits n).length := by
  rw [natDigits_eq_if]
  have : ¬ n < 10 := by omega
  simp only [this, ↓reduceIte, List.length_append, List.length_cons, List.length_nil]
  have := List.length_pos_iff.mpr (natDigits_ne_nil (n / 10))
  omega

/-- `digits x ≥ 1` only for numbers with at least two digits. -/
theorem ten_le_of_digits_pos {x : Nat} (h : 1 ≤ digits x) : 10 ≤ x := by
  unfold digits at h
  by_cases hx : x / 10 = 0
  · rw [hx] at h
    cases x with
    | zero => simp [digitsLoop] at h
    | succ k => simp [digitsLoop] at h
  · omega

/-! ## `spanDigits` -/

/-- The text does not start with a digit. -/
def NoDigitHead (s : List Char) : Prop := ∀ c r, s = c :: r → isDigitC c = false

theorem noDigitHead_nil : NoDigitHead [] := by intro c r h; cases h

theorem noDigitHead_cons {c : Char} (h : isDigitC c = false) (r : List Char) : NoDigitHead (c :: r) := by
  intro c' r' h'; cases h'; exact h

theorem spanDigits_noDigit {s : List Char} (h : NoDigitHead s) : spanDigits s = ([], s) := by
  cases s with
  | nil => rfl
  | cons c r => simp [spanDigits, h c r rfl]

theorem spanDigits_map (ds : List Nat) (hd : ∀ d ∈ ds, d < 10) (rest : List Char)
    (hr : NoDigitHead rest) : spanDigits (ds.map digitChar ++ rest) = (ds, rest) := by
  induction ds with
  | nil => simpa using spanDigits_noDigit hr
  | cons d ds ih =>
    have hd10 : d < 10 := hd d (by simp)
    simp only [List.map_cons, List.cons_append, spanDigits, digitChar_isDigitC hd10, ↓reduceIte,
      ih (fun x hx => hd x (by simp [hx])), digitChar_val hd10]

/-! ## rendering and reading back -/

/-- The printed form: sign, integer digits, optional point and fraction digits,
optional continuation mark, optional exponent. -/
def render (neg : Bool) (int frac : List Nat) (dot mark : Bool) (exp : Int) : List Char :=
  (if neg then ['-'] else []) ++ (int.map digitChar ++
    ((if dot then '.' :: frac.map digitChar else []) ++
      ((if mark then ['…'] else []) ++ (if exp ≠ 0 then 'e' :: intStr exp else []))))

def expPart (exp : Int) : List Char := if exp ≠ 0 then 'e' :: intStr exp else []
def markPart (mark : Bool) (exp : Int) : List Char := (if mark then ['…'] else []) ++ expPart exp
def fracPart (frac : List Nat) (dot mark : Bool) (exp : Int) : List Char :=
  (if dot then '.' :: frac.map digitChar else []) ++ markPart mark exp

theorem render_eq (neg : Bool) (int frac : List Nat) (dot mark : Bool) (exp : Int) :
    render neg int frac dot mark exp =
      (if neg then ['-'] else []) ++ (int.map digitChar ++ fracPart frac dot mark exp) := rfl

/-- The reader after the sign and the integer digits. -/
def readTail (neg : Bool) (int : List Nat) (s : List Char) : Option Read :=
  let (frac, s) := match s with
    | '.' :: r => spanDigits r
    | _ => ([], s)
  let (mark, s) := match s with | '…' :: r => (true, r) | _ => (false, s)
  match s with
  | [] => some { neg := neg, intDigits := int, fracDigits := frac, mark := mark, exp := 0 }
  | 'e' :: r =>
    let (eneg, r) := match r with | '-' :: t => (true, t) | _ => (false, r)
    let (ed, r) := spanDigits r
    if ed.isEmpty || !r.isEmpty then none
    else
      let e : Int := (Decimal.digitsVal ed : Nat)
      some { neg := neg, intDigits := int, fracDigits := frac, mark := mark, exp := if eneg then -e else e }
  | _ => none

/-- The reader after the mark. -/
def readExp (neg : Bool) (int frac : List Nat) (mark : Bool) (s : List Char) : Option Read :=
  match s with
  | [] => some { neg := neg, intDigits := int, fracDigits := frac, mark := mark, exp := 0 }
  | 'e' :: r =>
    let (eneg, r) := match r with | '-' :: t => (true, t) | _ => (false, r)
    let (ed, r) := spanDigits r
    if ed.isEmpty || !r.isEmpty then none
    else
      let e : Int := (Decimal.digitsVal ed : Nat)
      some { neg := neg, intDigits := int, fracDigits := frac, mark := mark, exp := if eneg then -e else e }
  | _ => none

theorem spanDigits_natStr (n : Nat) : spanDigits (natStr n) = (natDigits n, []) := by
  have := spanDigits_map (natDigits n) (natDigits_lt n) [] noDigitHead_nil
  rwa [List.append_nil, ← natStr_eq_map] at this

theorem natStr_head_ne_minus (n : Nat) : ∀ t, natStr n ≠ '-' :: t := by
  intro t h
  rw [natStr_eq_map] at h
  cases hds : natDigits n with
  | nil => exact natDigits_ne_nil n hds
  | cons d ds =>
    rw [hds] at h
    simp only [List.map_cons, List.cons.injEq] at h
    have hd : d < 10 := natDigits_lt n d (by simp [hds])
    exact (digitChar_facts ⟨d, hd⟩).2.2.1 h.1

theorem readExp_expPart (neg : Bool) (int frac : List Nat) (mark : Bool) (exp : Int) :
    readExp neg int frac mark (expPart exp) =
      some { neg := neg, intDigits := int, fracDigits := frac, mark := mark, exp := exp } := by
  unfold expPart
  by_cases h0 : exp = 0
  · subst h0; simp [readExp]
  · simp only [ne_eq, h0, not_false_eq_true, ↓reduceIte, readExp, intStr]
    by_cases hneg : exp < 0
    · simp only [hneg, ↓reduceIte, spanDigits_natStr, natDigits_val]
      have hne : (natDigits exp.natAbs).isEmpty = false := by
        cases h : natDigits exp.natAbs with
        | nil => exact absurd h (natDigits_ne_nil _)
        | cons _ _ => rfl
      simp only [hne, List.isEmpty_nil, Bool.not_true, Bool.or_self, Bool.false_eq_true, ↓reduceIte,
        Option.some.injEq, Read.mk.injEq, true_and]
      omega
    · simp only [hneg, ↓reduceIte]
      have : (match natStr exp.natAbs with
          | '-' :: t => (true, t)
          | _ => (false, natStr exp.natAbs)) = (false, natStr exp.natAbs) := by
        split
        · rename_i t h; exact absurd h (natStr_head_ne_minus _ t)
        · rfl
      rw [this]
      simp only [spanDigits_natStr, natDigits_val]
      have hne : (natDigits exp.natAbs).isEmpty = false := by
        cases h : natDigits exp.natAbs with
        | nil => exact absurd h (natDigits_ne_nil _)
        | cons _ _ => rfl
      simp only [hne, List.isEmpty_nil, Bool.not_true, Bool.or_self, Bool.false_eq_true, ↓reduceIte,
        Option.some.injEq, Read.mk.injEq, true_and]
      omega

theorem expPart_cases (exp : Int) : expPart exp = [] ∨ ∃ t, expPart exp = 'e' :: t := by
  unfold expPart; split
  · exact Or.inr ⟨_, rfl⟩
  · exact Or.inl rfl

theorem readTail_fracPart (neg : Bool) (int frac : List Nat) (dot mark : Bool) (exp : Int)
    (hf : ∀ d ∈ frac, d < 10) (hdot : dot = false → frac = []) :
    readTail neg int (fracPart frac dot mark exp) =
      some { neg := neg, intDigits := int, fracDigits := frac, mark := mark, exp := exp } := by
  have hexp := readExp_expPart neg int frac mark exp
  have hmarkND : NoDigitHead (markPart mark exp) := by
    unfold markPart
    cases mark with
    | true => exact noDigitHead_cons (by decide) _
    | false =>
      rcases expPart_cases exp with h | ⟨t, h⟩
      · simp only [h]; exact noDigitHead_nil
      · simp only [h]; exact noDigitHead_cons (by decide) _
  have key : ∀ (s : List Char), s = markPart mark exp →
      (match (match s with | '…' :: r => (true, r) | _ => (false, s)) with
        | (mark', s') => readExp neg int frac mark' s') =
      some { neg := neg, intDigits := int, fracDigits := frac, mark := mark, exp := exp } := by
    intro s hs
    subst hs
    unfold markPart
    cases mark with
    | true => simpa using hexp
    | false =>
      rcases expPart_cases exp with h | ⟨t, h⟩
      · rw [h] at hexp ⊢; simpa using hexp
      · rw [h] at hexp ⊢; simpa using hexp
  unfold fracPart readTail
  cases dot with
  | true =>
    simp only [↓reduceIte, List.cons_append, spanDigits_map frac hf _ hmarkND]
    exact key _ rfl
  | false =>
    have hfr : frac = [] := hdot rfl
    subst hfr
    simp only [Bool.false_eq_true, ↓reduceIte, List.nil_append]
    have : (match markPart mark exp with
        | '.' :: r => spanDigits r
        | _ => (([] : List Nat), markPart mark exp)) = ([], markPart mark exp) := by
      split
      · rename_i r h
        unfold markPart at h
        cases mark with
        | true => simp at h
        | false =>
          rcases expPart_cases exp with h' | ⟨t, h'⟩
          · rw [h'] at h; simp at h
          · rw [h'] at h; simp at h
      · rfl
    rw [this]
    exact key _ rfl

theorem readBack_eq_readTail (s : List Char) :
    readBack s =
      (let p : Bool × List Char := match s with | '-' :: r => (true, r) | _ => (false, s)
       let q := spanDigits p.2
       if q.1.isEmpty then none else readTail p.1 q.1 q.2) := by
  rfl

/-- Reading back a rendered text returns the rendered fields. -/
theorem readBack_render (neg : Bool) (int frac : List Nat) (dot mark : Bool) (exp : Int)
    (hne : int ≠ []) (hi : ∀ d ∈ int, d < 10) (hf : ∀ d ∈ frac, d < 10)
    (hdot : dot = false → frac = []) :
    readBack (render neg int frac dot mark exp) =
      some { neg := neg, intDigits := int, fracDigits := frac, mark := mark, exp := exp } := by
  have hND : NoDigitHead (fracPart frac dot mark exp) := by
    unfold fracPart
    cases dot with
    | true => exact noDigitHead_cons (by decide) _
    | false =>
      simp only [Bool.false_eq_true, ↓reduceIte, List.nil_append]
      unfold markPart
      cases mark with
      | true => exact noDigitHead_cons (by decide) _
      | false =>
        rcases expPart_cases exp with h | ⟨t, h⟩
        · simp only [h]; exact noDigitHead_nil
        · simp only [h]; exact noDigitHead_cons (by decide) _
  have hsp := spanDigits_map int hi _ hND
  have hemp : int.isEmpty = false := by
    cases int with
    | nil => exact absurd rfl hne
    | cons _ _ => rfl
  rw [readBack_eq_readTail, render_eq]
  cases neg with
  | true =>
    simp only [↓reduceIte, List.cons_append, List.nil_append, hsp, hemp, Bool.false_eq_true]
    exact readTail_fracPart true int frac dot mark exp hf hdot
  | false =>
    simp only [Bool.false_eq_true, ↓reduceIte, List.nil_append]
    have : (match List.map digitChar int ++ fracPart frac dot mark exp with
        | '-' :: r => (true, r)
        | _ => (false, List.map digitChar int ++ fracPart frac dot mark exp)) =
        (false, List.map digitChar int ++ fracPart frac dot mark exp) := by
      split
      · rename_i r h
        cases int with
        | nil => exact absurd rfl hne
        | cons d ds =>
          simp only [List.map_cons, List.cons_append, List.cons.injEq] at h
          exact absurd h.1 (digitChar_facts ⟨d, hi d (by simp)⟩).2.2.1
      · rfl
    rw [this]
    simp only [hsp, hemp, Bool.false_eq_true, ↓reduceIte]
    exact readTail_fracPart false int frac dot mark exp hf hdot

/-- The mark character occurs in a rendered text exactly when the mark was rendered. -/
theorem mark_mem_render (neg : Bool) (int frac : List Nat) (dot mark : Bool) (exp : Int)
    (hi : ∀ d ∈ int, d < 10) (hf : ∀ d ∈ frac, d < 10) :
    '…' ∈ render neg int frac dot mark exp ↔ mark = true := by
  have hmap : ∀ ds : List Nat, (∀ d ∈ ds, d < 10) → '…' ∉ ds.map digitChar := by
    intro ds hds hmem
    simp only [List.mem_map] at hmem
    obtain ⟨d, hd, he⟩ := hmem
    exact (digitChar_facts ⟨d, hds d hd⟩).2.2.2.2.2.1 he
  have hnat : ∀ n, '…' ∉ natStr n := by
    intro n; rw [natStr_eq_map]; exact hmap _ (natDigits_lt n)
  have hint : '…' ∉ intStr exp := by
    unfold intStr; split
    · simp only [List.mem_cons, not_or]; exact ⟨by decide, hnat _⟩
    · exact hnat _
  unfold render
  simp only [List.mem_append]
  constructor
  · intro h
    rcases h with h | h | h | h | h
    · split at h <;> simp at h
    · exact absurd h (hmap int hi)
    · split at h
      · simp only [List.mem_cons] at h
        rcases h with h | h
        · exact absurd h (by decide)
        · exact absurd h (hmap frac hf)
      · simp at h
    · cases mark <;> simp_all
    · split at h
      · simp only [List.mem_cons] at h
        rcases h with h | h
        · exact absurd h (by decide)
        · exact absurd h hint
      · simp at h
  · intro h; subst h; simp

end Anything.Lemmas.Printed
