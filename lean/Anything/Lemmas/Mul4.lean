import Anything.Lemmas.Mul3
/-!
# `Compound::mul`: dimensions add, SI values multiply
-/

namespace Anything
open AMap Powers Spec

theorem baseUnits_der_fold (c : Compound) : ∀ (acc : List (UnitKey × Int) × Powers),
    ∀ d ∈ (c.foldl (fun (acc : List (UnitKey × Int) × Powers) (e : UnitKey × State) =>
      let (p', isDer) := e.1.powers acc.2 e.2.power
      (if isDer then acc.1 ++ [(e.1, e.2.power)] else acc.1, p')) acc).1,
    d ∈ acc.1 ∨ ∃ e ∈ c, d.1 = e.1 := by
  induction c with
  | nil => intro acc d hd; exact Or.inl hd
  | cons e rest ih =>
    intro acc d hd
    simp only [List.foldl_cons] at hd
    rcases ih _ d hd with h | ⟨e', he', h⟩
    · simp only at h
      split at h
      · rcases List.mem_append.mp h with h | h
        · exact Or.inl h
        · simp at h; exact Or.inr ⟨e, by simp, by rw [h]⟩
      · exact Or.inl h
    · exact Or.inr ⟨e', List.mem_cons_of_mem _ he', h⟩

/-- The derived names listed by `base_units` are units of the compound. -/
theorem baseUnits_der_mem (c : Compound) : ∀ d ∈ (Compound.baseUnits c).1, ∃ e ∈ c, d.1 = e.1 := by
  intro d hd
  rcases baseUnits_der_fold c ([], []) d hd with h | h
  · simp at h
  · exact h

theorem mul_unfold (debug : Bool) (a b : Compound) (n : Int) (lhs rhs : Rat)
    (ha : a.isEmpty = false) (hb : b.isEmpty = false) :
    Compound.mul debug a b n lhs rhs =
      match Compound.scaleIn false a lhs with
      | .error e => .error e
      | .ok lhs' =>
        match Compound.scaleIn false b rhs with
        | .error e => .error e
        | .ok rhs' =>
          match Compound.reconstruct
              ((Compound.baseUnits a).1.map (fun e => (e.1, e.2, (1 : Int))) ++
                (Compound.baseUnits b).1.map (fun e => (e.1, e.2, n)))
              lhs' (names1 (Compound.baseUnits b).2 n (names0 (Compound.baseUnits a).2)) with
          | .error e => .error e
          | .ok (lhs'', names') =>
            if debug && names'.any (fun e => e.2.power = 0) then .error .zeroPower
            else .ok (names', lhs'', rhs') := by
  unfold Compound.mul
  simp only [ha, hb, Bool.or_self, Bool.false_eq_true, ↓reduceIte]
  rfl

theorem dimsFn_nil (k : UnitKey) : dimsFn [] k = 0 := rfl
theorem scaleC_nil : scaleC [] = 1 := rfl

theorem term_power_zero (e : UnitKey × State) (h : e.2.power = 0) : term e = 1 := by simp [term, h]

theorem scaleC_filter_nz (c : Compound) : scaleC (c.filter (fun e => e.2.power ≠ 0)) = scaleC c := by
  induction c with
  | nil => rfl
  | cons e rest ih =>
    rw [List.filter_cons]
    split
    · rw [scaleC_cons, scaleC_cons, ih]
    · rename_i h
      have : e.2.power = 0 := by simpa using h
      rw [scaleC_cons, term_power_zero e this, one_mul, ih]

theorem dimsFn_filter_nz (c : Compound) (k : UnitKey) :
    dimsFn (c.filter (fun e => e.2.power ≠ 0)) k = dimsFn c k := by
  induction c with
  | nil => rfl
  | cons e rest ih =>
    rw [List.filter_cons]
    split
    · rw [dimsFn_cons, dimsFn_cons, ih]
    · rename_i h
      have : e.2.power = 0 := by simpa using h
      rw [dimsFn_cons, this, ih]; simp

theorem scaleC_map_pow (c : Compound) (n : Int) :
    scaleC (c.map (fun e => (e.1, { e.2 with power := e.2.power * n }))) = scaleC c ^ n := by
  unfold scaleC
  induction c with
  | nil => simp
  | cons e rest ih =>
    simp only [List.map_cons, List.prod_cons] at ih ⊢
    rw [ih, mul_zpow]
    congr 1
    simp only [term]
    rw [zpow_mul]

theorem dimsFn_map_pow (c : Compound) (n : Int) (k : UnitKey) :
    dimsFn (c.map (fun e => (e.1, { e.2 with power := e.2.power * n }))) k = n * dimsFn c k := by
  unfold dimsFn
  induction c with
  | nil => simp
  | cons e rest ih =>
    simp only [List.map_cons, List.sum_cons] at ih ⊢
    rw [ih]; ring

/-- What `Compound::mul` guarantees about its result `(unit, lhs', rhs')`. -/
structure MulSpec (a b : Compound) (n : Int) (lhs rhs : Rat) (res : Compound × Rat × Rat) : Prop where
  dims : ∀ k, dimsFn res.1 k = dimsFn a k + n * dimsFn b k
  val : res.2.1 * res.2.2 ^ n * scaleC res.1 = (lhs * scaleC a) * (rhs * scaleC b) ^ n
  /-- the right-hand value is only rescaled by a non-zero factor -/
  rhs_zero : res.2.2 = 0 ↔ rhs = 0

/-- **`Compound::mul`** on proportional compounds: never a conversion error; the
result has the summed dimensions and the product (quotient) SI value. In a build
with debug assertions the only other outcome is the zero-power assertion. -/
theorem mul_spec (debug : Bool) (a b : Compound) (n : Int) (lhs rhs : Rat)
    (pa : Proportional a) (pb : Proportional b) :
    (∃ res, Compound.mul debug a b n lhs rhs = .ok res ∧ MulSpec a b n lhs rhs res) ∨
      (debug = true ∧ Compound.mul debug a b n lhs rhs = .error .zeroPower) := by
  cases a with
  | nil =>
    left
    refine ⟨((b.map (fun e => (e.1, { e.2 with power := e.2.power * n }))).filter (fun e => e.2.power ≠ 0), lhs, rhs),
      by simp [Compound.mul], ?_, ?_, ?_⟩
    · intro k; simp only; rw [dimsFn_filter_nz, dimsFn_map_pow, dimsFn_nil]; ring
    · simp only; rw [scaleC_filter_nz, scaleC_map_pow, scaleC_nil, mul_zpow]; ring
    · rfl
  | cons a0 as =>
    cases b with
    | nil =>
      left
      refine ⟨(a0 :: as, lhs, rhs), by simp [Compound.mul], ?_, ?_, ?_⟩
      · intro k; simp [dimsFn_nil]
      · simp only; rw [scaleC_nil, mul_one]; ring
      · rfl
    | cons b0 bs =>
      rw [mul_unfold debug _ _ n lhs rhs rfl rfl]
      rw [scaleIn_prop false _ pa, scaleIn_prop false _ pb]
      simp only
      obtain ⟨ca, da⟩ := baseUnits_spec (a0 :: as)
      obtain ⟨cb, db⟩ := baseUnits_spec (b0 :: bs)
      obtain ⟨g0, d0, s0⟩ := names0_sem _ ca (baseUnits_keys_base _)
      obtain ⟨g1, d1, s1⟩ := names1_sem _ cb (baseUnits_keys_base _) n _ g0
      have hprop : ∀ d ∈ ((Compound.baseUnits (a0 :: as)).1.map (fun e => (e.1, e.2, (1 : Int))) ++
          (Compound.baseUnits (b0 :: bs)).1.map (fun e => (e.1, e.2, n))), isProp d.1 = true := by
        intro d hd
        rcases List.mem_append.mp hd with hd | hd
        · simp only [List.mem_map] at hd
          obtain ⟨x, hx, rfl⟩ := hd
          obtain ⟨e, he, h⟩ := baseUnits_der_mem _ x hx
          simp only; rw [h]; exact pa e he
        · simp only [List.mem_map] at hd
          obtain ⟨x, hx, rfl⟩ := hd
          obtain ⟨e, he, h⟩ := baseUnits_der_mem _ x hx
          simp only; rw [h]; exact pb e he
      have inv0 : RInv (fun k => dimsFn (a0 :: as) k + n * dimsFn (b0 :: bs) k) (lhs * scaleC (a0 :: as))
          (lhs * scaleC (a0 :: as), names1 (Compound.baseUnits (b0 :: bs)).2 n (names0 (Compound.baseUnits (a0 :: as)).2)) :=
        ⟨g1, fun k => by rw [d1 k, d0 k, da k, db k], by simp only; rw [s1, s0, mul_one]⟩
      obtain ⟨acc', hrec, inv'⟩ := reconstruct_inv _ _ _ hprop _ inv0
      simp only at hrec
      rw [hrec]
      obtain ⟨out', names'⟩ := acc'
      simp only
      by_cases hz : (debug && names'.any (fun e => e.2.power = 0)) = true
      · right
        have hd : debug = true := by simp only [Bool.and_eq_true] at hz; exact hz.1
        refine ⟨hd, ?_⟩
        simp only [hz, ↓reduceIte]
      · left
        simp only [hz, Bool.false_eq_true, ↓reduceIte]
        refine ⟨_, rfl, ?_, ?_, ?_⟩
        · exact inv'.dims
        · have := inv'.val
          simp only at this ⊢
          rw [← this]; ring
        · simp only
          have := scale_ne_zero (b0 :: bs)
          constructor
          · intro h; rcases mul_eq_zero.mp h with h | h
            · exact h
            · exact absurd h this
          · intro h; rw [h, zero_mul]

end Anything
