import Anything.Lemmas.Mul2
/-!
# `reconstruct`: every iteration keeps the dimensions and the SI value
-/

namespace Anything
open AMap Powers Spec

/-- The base update inside `reconstruct`. -/
def baseUpd (modPower : Int) (nm : Compound) (e : UnitKey × Int) : Compound :=
  match AMap.get? nm e.1 with
  | none => nm
  | some st =>
    let np := st.power - e.2 * modPower
    if np = 0 then AMap.erase nm e.1 else AMap.insert nm e.1 { st with power := np }

theorem baseUpd_eq_bump (modPower : Int) (nm : Compound) (e : UnitKey × Int)
    (h : (AMap.get? nm e.1).isSome) : baseUpd modPower nm e = bump nm e.1 (-(e.2 * modPower)) := by
  unfold baseUpd bump
  cases hg : AMap.get? nm e.1 with
  | none => simp [hg] at h
  | some st => simp only [Int.sub_eq_add_neg]

/-- `bases_match` succeeds only if every base of the unit is present. -/
theorem basesMatch_present (dec : Int) (names : Compound) (powers : Powers) :
    ∀ (cur m : Int),
      powers.foldlM (fun cur (e : UnitKey × Int) =>
        match AMap.get? names e.1 with
        | none => none
        | some st => Compound.innerMatch st.power e.2 dec (cur.natAbs + 1) cur) cur = some m →
      ∀ e ∈ powers, (AMap.get? names e.1).isSome := by
  induction powers with
  | nil => intro _ _ _ e he; simp at he
  | cons a rest ih =>
    intro cur m h e he
    rw [List.foldlM_cons] at h
    cases hg : AMap.get? names a.1 with
    | none => simp [hg] at h
    | some st =>
      simp only [hg] at h
      cases hi : Compound.innerMatch st.power a.2 dec (cur.natAbs + 1) cur with
      | none => simp [hi] at h
      | some c =>
        simp only [hi, Option.bind_eq_bind, Option.bind_some] at h
        rcases List.mem_cons.mp he with he | he
        · subst he; simp [hg]
        · exact ih c m h e he

theorem baseUpd_fold (modPower : Int) (l : Powers) (hl : AMap.Sorted l)
    (hb : ∀ e ∈ l, ∃ b, e.1 = .base b) :
    ∀ (acc : Compound), Good acc → (∀ e ∈ l, (AMap.get? acc e.1).isSome) →
      let res := l.foldl (baseUpd modPower) acc
      Good res ∧
        (∀ k, dimsFn res k = dimsFn acc k - modPower * (l.map (fun e => e.2 * (if e.1 = k then 1 else 0))).sum) ∧
        scaleC res = scaleC acc := by
  induction l with
  | nil => intro acc g _; simp [g]
  | cons a rest ih =>
    intro acc g hp
    simp only [List.foldl_cons]
    rw [baseUpd_eq_bump modPower acc a (hp a (by simp))]
    obtain ⟨g1, d1, s1⟩ := bump_sem g a.1 (-(a.2 * modPower))
    obtain ⟨b, hbk⟩ := hb a (by simp)
    have hp' : ∀ e ∈ rest, (AMap.get? (bump acc a.1 (-(a.2 * modPower))) e.1).isSome := by
      intro e he
      have hne : a.1 ≠ e.1 := UnitKey.ne_of_lt (hl.head_lt e he)
      rw [get?_bump_ne g _ hne]
      exact hp e (List.mem_cons_of_mem _ he)
    obtain ⟨g2, d2, s2⟩ := ih hl.tail (fun e he => hb e (List.mem_cons_of_mem _ he)) _ g1 hp'
    refine ⟨g2, fun k => ?_, ?_⟩
    · rw [d2 k, d1 k, List.map_cons, List.sum_cons, hbk, dimOfKey_base]
      ring
    · rw [s2, s1, hbk, lin_base]; simp

/-- The derived-unit update at the end of a `reconstruct` iteration. -/
def derUpd (nm : Compound) (unit : UnitKey) (modPower : Int) : Compound :=
  match AMap.get? nm unit with
  | none => AMap.insert nm unit { power := modPower, pfx := 0 }
  | some st => AMap.insert nm unit { st with power := st.power + modPower }

theorem derUpd_sem {nm : Compound} (g : Good nm) (unit : UnitKey) (modPower : Int) :
    Good (derUpd nm unit modPower) ∧
      (∀ k, dimsFn (derUpd nm unit modPower) k = dimsFn nm k + modPower * dimOfKey unit k) ∧
      scaleC (derUpd nm unit modPower) = scaleC nm * lin unit ^ modPower := by
  unfold derUpd
  cases hget : AMap.get? nm unit with
  | none =>
    have := insert_sem g unit modPower
    simp only [hget, Option.map_none, Option.getD_none, sub_zero] at this
    exact this
  | some st =>
    have hp : st.pfx = 0 := g.pfx0 _ (AMap.mem_of_get? hget)
    have := insert_sem g unit (st.power + modPower)
    simp only [hget, Option.map_some, Option.getD_some, add_sub_cancel_left] at this
    have e : ({ st with power := st.power + modPower } : State) = { power := st.power + modPower, pfx := 0 } := by
      cases st; simp_all
    simp only [e]
    exact this

/-- What `reconstruct` keeps invariant. -/
structure RInv (D : UnitKey → Int) (V : Rat) (acc : Rat × Compound) : Prop where
  good : Good acc.2
  dims : ∀ k, dimsFn acc.2 k = D k
  val : acc.1 * scaleC acc.2 = V

/-- **One iteration of `reconstruct`** for a proportional unit: never an error, and the
dimensions and the SI value of `(out, names)` are unchanged. -/
theorem reconstructStep_inv (D : UnitKey → Int) (V : Rat) (acc : Rat × Compound)
    (d : UnitKey × Int × Int) (hprop : isProp d.1 = true) (h : RInv D V acc) :
    ∃ acc', Compound.reconstructStep acc d = .ok acc' ∧ RInv D V acc' := by
  obtain ⟨out, names⟩ := acc
  obtain ⟨unit, power, n⟩ := d
  obtain ⟨hc, hpw, hbase⟩ := unit_powers_spec unit
  unfold Compound.reconstructStep
  simp only
  cases hder : (unit.powers [] 1).2 with
  | false => exact ⟨_, by simp, h⟩
  | true =>
    simp only [Bool.not_true, Bool.false_eq_true, ↓reduceIte]
    cases hbm : Compound.basesMatch (power * n) (unit.powers [] 1).1 names with
    | none => exact ⟨_, rfl, h⟩
    | some modPower =>
      simp only
      have hpres := basesMatch_present _ names _ _ _ hbm
      obtain ⟨g1, d1, s1⟩ := baseUpd_fold modPower (unit.powers [] 1).1 hc.sorted hbase names h.good hpres
      obtain ⟨g2, d2, s2⟩ := derUpd_sem g1 unit modPower
      have hconv := applyConversion_prop unit hprop (-modPower) out false
      refine ⟨(out * lin unit ^ (-modPower),
        derUpd (List.foldl (baseUpd modPower) names (unit.powers [] 1).1) unit modPower), ?_, ?_⟩
      · rw [hconv]; rfl
      · refine ⟨g2, fun k => ?_, ?_⟩
        · rw [d2 k, d1 k, sum_ite_eq_pw hc.sorted, hpw k, h.dims k]; ring
        · show out * lin unit ^ (-modPower) * scaleC _ = V
          rw [s2, s1, ← h.val, zpow_neg]
          have := zpow_ne_zero modPower (lin_ne_zero unit)
          field_simp

/-- **`reconstruct`**: any number of iterations. -/
theorem reconstruct_inv (D : UnitKey → Int) (V : Rat) (der : List (UnitKey × Int × Int))
    (hprop : ∀ d ∈ der, isProp d.1 = true) :
    ∀ (acc : Rat × Compound), RInv D V acc →
      ∃ acc', Compound.reconstruct der acc.1 acc.2 = .ok acc' ∧ RInv D V acc' := by
  unfold Compound.reconstruct
  induction der with
  | nil => intro acc h; exact ⟨acc, rfl, h⟩
  | cons d rest ih =>
    intro acc h
    obtain ⟨acc1, h1, i1⟩ := reconstructStep_inv D V acc d (hprop d (by simp)) h
    obtain ⟨acc2, h2, i2⟩ := ih (fun x hx => hprop x (List.mem_cons_of_mem _ hx)) acc1 i1
    refine ⟨acc2, ?_, i2⟩
    rw [List.foldlM_cons]
    show (Compound.reconstructStep (acc.1, acc.2) d >>= _) = _
    rw [h1]
    exact h2

end Anything
