import Anything.Lemmas.UQQuery
import Anything.Lemmas.UQLaws
import Anything.Props.C10
/-!
# Stage 2 — builtin calls over quantity expressions: `floor(e)`, `ceil(e)`, `round(e)`

Lexer, parser, evaluator and `Eval.query` on the text of a one-argument builtin call whose
argument is an expression of the unified language (`Lemmas/UQDefs.lean`: `CallQ`, `renderCall`,
`toksCall`, `RepCall`). The argument is parsed by `Grammar.operation` inside `callArguments`, so
`OpSpecU` (followed by `)`) applies; the builtins keep the unit and round the magnitude
(`Props/C10`: `C10_builtin_floor`, `C10_builtin_ceil`, `C10_builtin_round1`).
-/

namespace Anything.UQ
open Anything Anything.Lexer Anything.Parser Anything.Grammar Anything.PTotal Anything.Spec
open Anything.Spec.Arith Anything.Spec.Decimal Anything.Spec.Quantity Anything.C06 Anything.QQ

/-! ### Rendering -/

theorem renderCall_none (f : Fn) (e : QExpr) (ws : Layout) :
    renderCall ⟨f, e, none⟩ ws =
      (f.name ++ (Quantity.render (.paren e) ws).1, (Quantity.render (.paren e) ws).2) := by
  rw [render_parenQ]
  simp [renderCall]

theorem renderCallQuery_none (f : Fn) (e : QExpr) (ws : Layout) :
    renderCallQuery ⟨f, e, none⟩ ws =
      blank1 ws ++ ((f.name ++ (Quantity.render (.paren e) (rest1 ws)).1) ++
        (blank1 (afterQ (.paren e) (rest1 ws)) ++ [])) := by
  simp [renderCallQuery, renderCall_none]

/-! ### Lexer -/

theorem render_paren_head (e : QExpr) (ws : Layout) :
    ∃ r, (Quantity.render (.paren e) ws).1 = '(' :: r := by
  rw [render_parenQ]
  exact ⟨_, by simp only [List.cons_append, List.nil_append]; rfl⟩

theorem fnName_noWS (f : Fn) (rest : List Char) : NoWS (f.name ++ rest) := by
  cases f <;> exact head_cons (by decide)

/-- **The lexer on a rendered one-argument call.** -/
theorem lex_callQuery (f : Fn) (e : QExpr) (ws : Layout) (hwf : WFS e) (hl : CallLayoutOK e ws) :
    Lexer.lex (renderCallQuery ⟨f, e, none⟩ ws) = callQueryToks f e ws := by
  obtain ⟨hb0, he, hb1⟩ := hl
  apply lexes_lex
  rw [renderCallQuery_none]
  have h2 : callQueryToks f e ws = blankTok (blank1 ws) ++ (⟨.WORD, f.name⟩ ::
      (toksU (.paren e) (rest1 ws) ++ (blankTok (blank1 (afterQ (.paren e) (rest1 ws))) ++ []))) := by
    simp [callQueryToks, toksCall]
  rw [h2]
  refine lex_blank hb0 (by rw [List.append_assoc]; exact fnName_noWS f _) ?_
  have hlex := lex_u (.paren e) (rest1 ws) (blank1 (afterQ (.paren e) (rest1 ws)) ++ [])
    (blankTok (blank1 (afterQ (.paren e) (rest1 ws))) ++ []) hwf he
    (exprStop_stopU _ (exprStop_blank hb1 (head_nil _)))
    (lex_blank hb1 (head_nil _) lexes_nil)
  obtain ⟨r, hr⟩ := render_paren_head e (rest1 ws)
  rw [hr] at hlex ⊢
  rw [List.append_assoc]
  exact lex_word hlex

/-! ### Parser -/

theorem headKind_toksU_ne_close (e : QExpr) (ws : Layout) (K : List Token) (hwf : WFS e) :
    (headKind (toksU e ws ++ K) == Syntax.CLOSE_PAREN) = false := by
  obtain ⟨t, r, h, hk⟩ := toksU_head e ws hwf
  rw [h]
  simp only [List.cons_append, headKind]
  rcases hk with h | h | h <;> rw [h] <;> rfl

/-- `argsLoop` on the one argument `e` followed by a blank and the closing parenthesis. -/
theorem argsLoop_one (e : QExpr) : ∃ Fe, ∀ (ws : Layout) (s : PState) (Wa Wk K : List Token),
    WFS e → LayoutOKU e ws → C06.Good s.b →
    s.toks = Wa ++ (toksU e ws ++ (Wk ++ ⟨.CLOSE_PAREN, [')']⟩ :: K)) → AllWS Wa → AllWS Wk →
    Tot (argsLoop Fe) s (fun r s' => ∃ Wt x, r = some Wk.length ∧
      s'.toks = Wk ++ ⟨.CLOSE_PAREN, [')']⟩ :: K ∧
      s'.b.forest = s.b.forest ++ Wt ++ [x] ∧ WSTrees Wt ∧ RepU x e ∧
      C06.Good s'.b ∧ NoNext s'.b ∧ Ext s.b.forest.length s.b s'.b) := by
  obtain ⟨Fo, ho⟩ := opSpecU e
  refine ⟨Fo + 1, ?_⟩
  intro ws s Wa Wk K hwf hlay hg ht hwa hwk
  unfold argsLoop
  refine tot_countSkip_ws Wa _ ht hwa (toksU_notWS e ws _ hwf) ?_
  refine tot_nth_ws Wa _ ht ?_
  simp only [headKind_toksU_ne_close e ws _ hwf, Bool.false_eq_true, ↓reduceIte]
  refine tot_seq (ho ws s Wa Wk (⟨.CLOSE_PAREN, [')']⟩ :: K) hwf hlay hg ht hwa hwk (Or.inl rfl))
    fun r s1 ⟨Wt, x, hr, ht1, hf1, hWt, hx, g1, n1, e1⟩ => ?_
  subst hr
  simp only
  have hno := eat_no (s := s1) Wk (⟨.CLOSE_PAREN, [')']⟩ :: K) .COMMA ht1 (by simp [headKind])
  refine ⟨some Wk.length, s1, ?_, Wt, x, rfl, ht1, hf1, hWt, hx, g1, n1, e1⟩
  simp only [bind, hno]; rfl

/-- `callArguments` on `blank e blank )`: an FN_ARGUMENTS node around the argument, then the
blank and the closing parenthesis. -/
theorem callArguments_one (e : QExpr) : ∃ Fe, ∀ (ws : Layout) (s : PState) (K : List Token),
    WFS e → LayoutOKU (.paren e) ws → C06.Good s.b →
    s.toks = blankTok (blank1 ws) ++ (toksU e (rest1 ws) ++
      (blankTok (blank1 (afterQ e (rest1 ws))) ++ ⟨.CLOSE_PAREN, [')']⟩ :: K)) →
    Tot (callArguments Fe) s (fun r s' => ∃ aid aks tail x, r = true ∧ s'.toks = K ∧
      s'.b.forest = s.b.forest ++ [.node aid .FN_ARGUMENTS aks] ++ tail ∧ opKids tail = [] ∧
      opKids aks = [x] ∧ RepU x e ∧
      C06.Good s'.b ∧ NoNext s'.b ∧ Ext s.b.forest.length s.b s'.b) := by
  obtain ⟨Fa, ha⟩ := argsLoop_one e
  refine ⟨Fa + 1, ?_⟩
  intro ws s K hwf hlay hg ht
  obtain ⟨_, le, _⟩ := hlay
  unfold callArguments
  refine tot_seq (checkpoint_exact hg) fun c s1 ⟨ht1, hf1, _, g1, p1, e1⟩ => ?_
  refine tot_seq (ha (rest1 ws) s1 _ _ K hwf le g1 (ht1.trans ht) (allWS_blankTok _)
    (allWS_blankTok _)) fun r s2 ⟨Wt, x, hr, ht2, hf2, hWt, hx, g2, n2, e2⟩ => ?_
  subst hr
  simp only
  have p2 : Pos s2.b c s.b.forest.length := hf1 ▸ e2.pos c _ (Nat.le_refl _) (hf1 ▸ p1)
  refine tot_seq (closeAt_wrap .FN_ARGUMENTS g2 n2 p2 (by rw [hf2, hf1]; simp))
    fun _ s3 ⟨ht3, ⟨aid, hf3⟩, g3, _, _, e3⟩ => ?_
  have hf3' : s3.b.forest = s.b.forest ++ [.node aid .FN_ARGUMENTS (Wt ++ [x])] := by
    rw [hf3, hf2, hf1, List.append_assoc, List.take_left' rfl, List.drop_left' rfl]
  refine tot_mono (eat_yes _ ⟨.CLOSE_PAREN, [')']⟩ K .CLOSE_PAREN (ht3.trans ht2)
    (allWS_blankTok _) rfl g3)
    fun b s4 ⟨hb, ht4, ⟨Fw, idc, hf4, hFw, _⟩, g4, n4, e4⟩ => ?_
  refine ⟨aid, Wt ++ [x], Fw ++ [.tok idc .CLOSE_PAREN [')']], x, hb, ht4,
    by rw [hf4, hf3']; simp, ?_, ?_, hx, g4, n4, ?_⟩
  · rw [opKids_append, opKids_ws hFw, opKids_tok]; rfl
  · rw [opKids_append, opKids_ws hWt, opKids_single (hasChildren_of_repU hx)]; rfl
  · exact e1.trans (((hf1 ▸ e2).trans e3).trans (e4.mono (by rw [hf3']; simp)))

/-- **`Grammar.value` on a one-argument call**: a WORD token glued to `(` is a function name; the
tree is an FN_CALL node `[FN_NAME, (, FN_ARGUMENTS [argument], )]`. -/
theorem value_callU (f : Fn) (e : QExpr) : ∃ Fe, ∀ (ws : Layout) (s : PState) (W0 K : List Token),
    WFS e → LayoutOKU (.paren e) ws → C06.Good s.b →
    s.toks = W0 ++ (toksCall f e ws ++ K) → AllWS W0 →
    Tot (Grammar.value Fe W0.length) s (fun r s' => ∃ cur Wt x, r = some cur ∧ s'.toks = K ∧
      s'.b.forest = s.b.forest ++ Wt ++ [x] ∧ WSTrees Wt ∧ RepCall x f e ∧
      Pos s'.b cur (s.b.forest.length + Wt.length) ∧ C06.Good s'.b ∧ NoNext s'.b ∧
      Ext s.b.forest.length s.b s'.b) := by
  obtain ⟨Fc, hc⟩ := callArguments_one e
  refine ⟨Fc + 1, ?_⟩
  intro ws s W0 K hwf hlay hg ht hw0
  have ht : s.toks = W0 ++ (⟨.WORD, f.name⟩ :: ⟨.OPEN_PAREN, ['(']⟩ ::
      (blankTok (blank1 ws) ++ (toksU e (rest1 ws) ++
        (blankTok (blank1 (afterQ e (rest1 ws))) ++ ⟨.CLOSE_PAREN, [')']⟩ :: K)))) := by
    rw [ht]; simp [toksCall, toksU]
  unfold Grammar.value
  refine tot_nth_ws W0 _ ht ?_
  simp only [headKind]
  refine tot_seq (bumpN_ws W0 ht hw0 hg) fun _ s1 ⟨ht1, ⟨Wt, hf1, hWt, hlen⟩, g1, _, e1⟩ => ?_
  refine tot_seq (checkpoint_exact g1) fun start s2 ⟨ht2, hf2, _, g2, p2, e2⟩ => ?_
  refine tot_seq (checkpoint_exact g2) fun c s3 ⟨ht3, hf3, _, g3, p3, e3⟩ => ?_
  have ht3' := (ht3.trans ht2).trans ht1
  refine tot_seq (bumpNode_exact .WORD ht3' g3) fun _ s4 ⟨ht4, ⟨idw, idt, hf4⟩, g4, n4, e4⟩ => ?_
  have ht4' : s4.toks = [] ++ (⟨.OPEN_PAREN, ['(']⟩ :: (blankTok (blank1 ws) ++
      (toksU e (rest1 ws) ++ (blankTok (blank1 (afterQ e (rest1 ws))) ++
        ⟨.CLOSE_PAREN, [')']⟩ :: K)))) := ht4
  refine tot_nth_ws [] _ ht4' ?_
  simp only [headKind, beq_self_eq_true, ↓reduceIte]
  have hl1 : s1.b.forest.length = s.b.forest.length + Wt.length := by rw [hf1]; simp
  have hl2 : s2.b.forest.length = s1.b.forest.length := by rw [hf2]
  have hl3 : s3.b.forest.length = s1.b.forest.length := by rw [hf3, hf2]
  have hf4' : s4.b.forest = (s.b.forest ++ Wt) ++ [.node idw .WORD [.tok idt .WORD f.name]] := by
    rw [hf4, hf3, hf2, hf1]
  have e3' : Ext s1.b.forest.length s2.b s3.b := hl2 ▸ e3
  have e4' : Ext s1.b.forest.length s3.b s4.b := hl3 ▸ e4
  have p4 : Pos s4.b c (s.b.forest.length + Wt.length) :=
    hl1 ▸ e4'.pos c _ (Nat.le_refl _) (hl2 ▸ p3)
  refine tot_seq (closeAt_wrap .FN_NAME g4 n4 p4 (by rw [hf4']; simp))
    fun _ s5 ⟨ht5, ⟨idn, hf5⟩, g5, _, _, e5⟩ => ?_
  have hl : s.b.forest.length + Wt.length = (s.b.forest ++ Wt).length := by simp
  rw [hf4', hl, List.take_left' rfl, List.drop_left' rfl] at hf5
  refine tot_seq (bump_exact (ht5.trans ht4) g5) fun _ s6 ⟨ht6, ⟨idp, hf6⟩, g6, _, e6⟩ => ?_
  refine tot_seq (hc ws s6 K hwf hlay g6 ht6)
    fun r s7 ⟨aid, aks, tail, x, hr, ht7, hf7, htail, haks, hx, g7, n7, e7⟩ => ?_
  subst hr
  simp only [Bool.not_true, Bool.false_eq_true, ↓reduceIte]
  have e5' : Ext s1.b.forest.length s4.b s5.b := hl1 ▸ e5
  have e6' : Ext s1.b.forest.length s5.b s6.b := e6.mono (by rw [hf5, hl1]; simp)
  have e7' : Ext s1.b.forest.length s6.b s7.b := e7.mono (by rw [hf6, hf5, hl1]; simp)
  have e27 : Ext s1.b.forest.length s2.b s7.b :=
    (((e3'.trans e4').trans e5').trans e6').trans e7'
  have p7 : Pos s7.b c (s.b.forest.length + Wt.length) :=
    hl1 ▸ ((e4'.trans e5').trans (e6'.trans e7')).pos c _ (Nat.le_refl _) (hl2 ▸ p3)
  have hf7' : s7.b.forest = (s.b.forest ++ Wt) ++
      (.node idn .FN_NAME [.node idw .WORD [.tok idt .WORD f.name]] ::
        .tok idp .OPEN_PAREN ['('] :: .node aid .FN_ARGUMENTS aks :: tail) := by
    rw [hf7, hf6, hf5]; simp
  refine tot_seq (closeAt_wrap .FN_CALL g7 n7 p7 (by rw [hf7']; simp))
    fun _ s8 ⟨ht8, ⟨idc, hf8⟩, g8, n8, _, e8⟩ => ?_
  rw [hf7', hl, List.take_left' rfl, List.drop_left' rfl] at hf8
  have e28 : Ext s1.b.forest.length s2.b s8.b := e27.trans (hl1 ▸ e8)
  refine tot_pure ⟨start, Wt, _, rfl, ht8.trans ht7, hf8, hWt, ?_,
    hl1 ▸ e28.pos start _ (Nat.le_refl _) p2, g8, n8,
    e1.trans ((e2.trans e28).mono (by omega))⟩
  -- the tree represents the call
  have hnm : opKids [Tree.node idn .FN_NAME [.node idw .WORD [.tok idt .WORD f.name]]] =
      [Tree.node idn .FN_NAME [.node idw .WORD [.tok idt .WORD f.name]]] := rfl
  have hsplit : (Tree.node idn .FN_NAME [.node idw .WORD [.tok idt .WORD f.name]] ::
        .tok idp .OPEN_PAREN ['('] :: .node aid .FN_ARGUMENTS aks :: tail) =
      [Tree.node idn .FN_NAME [.node idw .WORD [.tok idt .WORD f.name]]] ++
        [.tok idp .OPEN_PAREN ['(']] ++ [.node aid .FN_ARGUMENTS aks] ++ tail := by simp
  refine ⟨idc, _, .node idn .FN_NAME [.node idw .WORD [.tok idt .WORD f.name]], aid, aks, [], x,
    rfl, ?_, rfl, ?_, haks, hx⟩
  · rw [hsplit]
    simp only [opKids_append, hnm, opKids_tok, htail, List.append_nil]
    rw [opKids_single (node_hasChildren haks)]
    rfl
  · simp [Tree.text, Tree.textList]

/-- `operation` on a one-argument call followed by a blank and the end of the input: one loop
iteration, nothing to close. -/
theorem operation_callU (f : Fn) (e : QExpr) : ∃ Fe, ∀ (ws : Layout) (s : PState)
    (W0 Wk : List Token), WFS e → LayoutOKU (.paren e) ws → C06.Good s.b →
    s.toks = W0 ++ (toksCall f e ws ++ (Wk ++ [])) → AllWS W0 → AllWS Wk →
    Tot (operation Fe W0.length) s (fun r s' => ∃ Wt x, r = some Wk.length ∧ s'.toks = Wk ++ [] ∧
      s'.b.forest = s.b.forest ++ Wt ++ [x] ∧ WSTrees Wt ∧ RepCall x f e ∧
      C06.Good s'.b ∧ NoNext s'.b ∧ Ext s.b.forest.length s.b s'.b) := by
  obtain ⟨Fv, hv⟩ := value_callU f e
  refine ⟨Fv + 1 + 1, ?_⟩
  intro ws s W0 Wk hwf hlay hg ht hw0 hwk
  unfold operation
  refine tot_seq (checkpoint_exact hg) fun opn s1 ⟨ht1, hf1, _, g1, p1, e1⟩ => ?_
  rw [opLoop_unfold _ _ _ _ _ rfl]
  refine tot_seq (hv ws s1 W0 (Wk ++ []) hwf hlay g1 (ht1.trans ht) hw0)
    fun r s2 ⟨cur, Wt, x, hr, ht2, hf2, hWt, hx, _, g2, n2, e2⟩ => ?_
  subst hr
  simp only
  unfold afterValue
  have hnw : NotWSHead ([] : List Token) := fun t r h => by cases h
  refine tot_countSkip_ws Wk [] ht2 hwk hnw ?_
  refine tot_nth_ws Wk [] ht2 ?_
  have : opInfo (headKind ([] : List Token)) = none := rfl
  simp only [this, closeAll]
  refine tot_seq (tot_pure (Q := fun _ s' => s' = s2) rfl) fun _ s3 hs => ?_
  subst hs
  exact tot_pure ⟨Wt, x, rfl, ht2, by rw [hf2, hf1], hWt, hx, g2, n2, e1.trans (hf1 ▸ e2)⟩

/-- The shape of the parsed forest of a call query: blank leaves, one FN_CALL tree, blank leaves. -/
def ForestCall (forest : List Tree) (f : Fn) (e : QExpr) : Prop :=
  ∃ Wt x Wt', forest = Wt ++ [x] ++ Wt' ∧ WSTrees Wt ∧ WSTrees Wt' ∧ RepCall x f e

theorem root_callU (f : Fn) (e : QExpr) (ws : Layout) (hwf : WFS e) (hl : CallLayoutOK e ws) :
    ∃ F, Tot (root F) { toks := callQueryToks f e ws } (fun _ s' => ForestCall s'.b.forest f e) := by
  obtain ⟨Fo, ho⟩ := operation_callU f e
  obtain ⟨hb0, hle, hb1⟩ := hl
  refine ⟨Fo + 2, ?_⟩
  have ht : ({ toks := callQueryToks f e ws } : PState).toks = blankTok (blank1 ws) ++
      (toksCall f e (rest1 ws) ++ (blankTok (blank1 (afterQ (.paren e) (rest1 ws))) ++ [])) := by
    simp [callQueryToks]
  have hnw : NotWSHead (toksCall f e (rest1 ws) ++
      (blankTok (blank1 (afterQ (.paren e) (rest1 ws))) ++ [])) := by
    intro t r h
    simp only [toksCall, List.cons_append, List.cons.injEq] at h
    rw [← h.1]; simp
  unfold root
  refine tot_countSkip_ws _ _ ht (allWS_blankTok _) hnw ?_
  refine tot_seq (checkpoint_exact (s := { toks := callQueryToks f e ws }) good_init)
    fun c s1 ⟨ht1, hf1, _, g1, _, _⟩ => ?_
  have hf1' : s1.b.forest = [] := hf1
  refine tot_seq (P := fun r s' => r = false ∧ ForestCall s'.b.forest f e) ?_ fun r s2 ⟨hr, hF⟩ => ?_
  · unfold rootLoop
    refine tot_nth_ws _ _ (ht1.trans ht) ?_
    have k1 : (headKind (toksCall f e (rest1 ws) ++
        (blankTok (blank1 (afterQ (.paren e) (rest1 ws))) ++ [])) == Syntax.EOF) = false := rfl
    have k2 : (headKind (toksCall f e (rest1 ws) ++
        (blankTok (blank1 (afterQ (.paren e) (rest1 ws))) ++ [])) == Syntax.OPEN_BRACE ||
        headKind (toksCall f e (rest1 ws) ++
        (blankTok (blank1 (afterQ (.paren e) (rest1 ws))) ++ [])) == Syntax.OPEN_PAREN ||
        headKind (toksCall f e (rest1 ws) ++
        (blankTok (blank1 (afterQ (.paren e) (rest1 ws))) ++ [])) == Syntax.WORD ||
        headKind (toksCall f e (rest1 ws) ++
        (blankTok (blank1 (afterQ (.paren e) (rest1 ws))) ++ [])) == Syntax.NUMBER) = true := rfl
    simp only [k1, k2, Bool.false_eq_true, ↓reduceIte]
    refine tot_seq (tot_le (le_operation (Nat.le_succ Fo) _)
      (ho (rest1 ws) s1 _ _ hwf hle g1 (ht1.trans ht) (allWS_blankTok _) (allWS_blankTok _)))
      fun r s2 ⟨Wt, x, hr, ht2, hf2, hWt, hx, g2, _, _⟩ => ?_
    subst hr
    simp only
    unfold rootLoop
    refine tot_nth_ws _ [] ht2 ?_
    simp only [headKind, beq_self_eq_true, ↓reduceIte]
    refine tot_seq (bumpN_ws _ ht2 (allWS_blankTok _) g2)
      fun _ s3 ⟨_, ⟨Wt', hf3, hWt', _⟩, _, _, _⟩ => ?_
    exact tot_pure ⟨rfl, Wt, x, Wt', by rw [hf3, hf2, hf1']; simp, hWt, hWt', hx⟩
  subst hr
  simp only [Bool.false_eq_true, ↓reduceIte]
  exact tot_pure hF

/-- **Parser correctness on a rendered call query.** -/
theorem parse_callU (f : Fn) (e : QExpr) (ws : Layout) (hwf : WFS e) (hl : CallLayoutOK e ws) :
    ∃ forest, Grammar.parseRoot (renderCallQuery ⟨f, e, none⟩ ws) = .ok forest ∧
      ForestCall forest f e := by
  obtain ⟨F, _, s', hroot, hF⟩ := root_callU f e ws hwf hl
  refine ⟨s'.b.forest, ?_, hF⟩
  unfold Grammar.parseRoot
  rw [lex_callQuery f e ws hwf hl]
  unfold parseRootToks
  have hmax : fuelFor (callQueryToks f e ws) ≤ max F (fuelFor (callQueryToks f e ws)) :=
    Nat.le_max_right _ _
  have h1 := PFuel.root_fuel_irrelevant (callQueryToks f e ws) _ hmax
  have h2 := PFuel.le_root_of_le (Nat.le_max_left F (fuelFor (callQueryToks f e ws))) _ _ hroot
  rw [← h1, h2]

end Anything.UQ
