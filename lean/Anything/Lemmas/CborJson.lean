import Anything.Lemmas.CborValue
/-!
# The JSON form of a rational determines the rational (C17)

The model has a JSON *printer* only (`jsonRat`); these lemmas show that the printed
text is an unambiguous (self-delimiting) code: equal texts come from equal rationals.
-/

namespace Anything.Cbor
open Anything

/-! ## Generic self-delimiting argument -/

/-- A character that cannot continue a decimal number. -/
def Stop (r : List Char) : Prop := ∀ c ∈ r.head?, c.isDigit = false

theorem span_unique (l₁ l₂ r₁ r₂ : List Char)
    (h₁ : ∀ c ∈ l₁, c.isDigit = true) (h₂ : ∀ c ∈ l₂, c.isDigit = true)
    (s₁ : Stop r₁) (s₂ : Stop r₂) (h : l₁ ++ r₁ = l₂ ++ r₂) : l₁ = l₂ ∧ r₁ = r₂ := by
  induction l₁ generalizing l₂ with
  | nil =>
    cases l₂ with
    | nil => exact ⟨rfl, by simpa using h⟩
    | cons b l₂ =>
      exfalso
      simp only [List.nil_append, List.cons_append] at h
      subst h
      have := s₁ b (by simp)
      rw [h₂ b (by simp)] at this
      cases this
  | cons a l₁ ih =>
    cases l₂ with
    | nil =>
      exfalso
      simp only [List.nil_append, List.cons_append] at h
      subst h
      have := s₂ a (by simp)
      rw [h₁ a (by simp)] at this
      cases this
    | cons b l₂ =>
      simp only [List.cons_append, List.cons.injEq] at h
      obtain ⟨rfl, h⟩ := h
      obtain ⟨rfl, rfl⟩ := ih l₂ (fun c hc => h₁ c (by simp [hc])) (fun c hc => h₂ c (by simp [hc])) h
      exact ⟨rfl, rfl⟩

theorem jsonNat_eq (n : Nat) : jsonNat n = Nat.toDigits 10 n := by
  simp [jsonNat]

theorem jsonNat_digits (n : Nat) : ∀ c ∈ jsonNat n, c.isDigit = true := by
  rw [jsonNat_eq]
  intro c hc
  exact Nat.isDigit_of_mem_toDigits (by decide) (by decide) hc

theorem jsonNat_inj {n m : Nat} (h : jsonNat n = jsonNat m) : n = m := by
  rw [jsonNat_eq, jsonNat_eq] at h
  have := congrArg (fun l => Nat.ofDigitChars 10 l 0) h
  simpa [Nat.ofDigitChars_toDigits] using this

theorem jsonNat_unique (n m : Nat) (r₁ r₂ : List Char) (s₁ : Stop r₁) (s₂ : Stop r₂)
    (h : jsonNat n ++ r₁ = jsonNat m ++ r₂) : n = m ∧ r₁ = r₂ := by
  obtain ⟨h1, h2⟩ := span_unique _ _ _ _ (jsonNat_digits n) (jsonNat_digits m) s₁ s₂ h
  exact ⟨jsonNat_inj h1, h2⟩

theorem jsonNat_head (n : Nat) : ∃ c t, jsonNat n = c :: t ∧ c.isDigit = true := by
  have hne : jsonNat n ≠ [] := by rw [jsonNat_eq]; exact Nat.toDigits_ne_nil
  match h : jsonNat n with
  | [] => exact absurd h hne
  | c :: t => exact ⟨c, t, rfl, jsonNat_digits n c (by simp [h])⟩

/-! ## Lists of limbs -/

/-- The items after the first one, each preceded by a comma, then the closing bracket. -/
def jsonTail : List Nat → List Char → List Char
  | [], r => ']' :: r
  | x :: t, r => ',' :: (jsonNat x ++ jsonTail t r)

theorem jsonTail_stop (t : List Nat) (r : List Char) : Stop (jsonTail t r) := by
  cases t <;> (intro c hc; simp [jsonTail] at hc; subst hc; decide)

theorem intercalate_tail (x : Nat) (t : List Nat) (r : List Char) :
    List.intercalate [','] ((x :: t).map jsonNat) ++ ']' :: r = jsonNat x ++ jsonTail t r := by
  induction t generalizing x with
  | nil => simp [List.intercalate, jsonTail]
  | cons y t ih =>
    have := ih y
    simp only [List.intercalate, List.map_cons, List.intersperse_cons_cons, List.flatten_cons,
      List.append_assoc, jsonTail] at this ⊢
    rw [this]
    rfl

theorem jsonList_limbs (l : List Nat) (r : List Char) :
    jsonList (l.map jsonNat) ++ r =
      '[' :: (match l with | [] => ']' :: r | x :: t => jsonNat x ++ jsonTail t r) := by
  cases l with
  | nil => simp [jsonList, List.intercalate]
  | cons x t =>
    have := intercalate_tail x t r
    simp only [jsonList, List.append_assoc, List.cons_append, List.nil_append] at this ⊢
    rw [this]

theorem jsonTail_unique (t₁ t₂ : List Nat) (r₁ r₂ : List Char)
    (h : jsonTail t₁ r₁ = jsonTail t₂ r₂) : t₁ = t₂ ∧ r₁ = r₂ := by
  induction t₁ generalizing t₂ with
  | nil =>
    cases t₂ with
    | nil => simpa [jsonTail] using h
    | cons y t₂ => simp [jsonTail] at h
  | cons x t₁ ih =>
    cases t₂ with
    | nil => simp [jsonTail] at h
    | cons y t₂ =>
      simp only [jsonTail, List.cons.injEq, true_and] at h
      obtain ⟨rfl, h'⟩ := jsonNat_unique _ _ _ _ (jsonTail_stop _ _) (jsonTail_stop _ _) h
      obtain ⟨rfl, rfl⟩ := ih t₂ h'
      exact ⟨rfl, rfl⟩

theorem jsonLimbs_unique (l₁ l₂ : List Nat) (r₁ r₂ : List Char)
    (h : jsonList (l₁.map jsonNat) ++ r₁ = jsonList (l₂.map jsonNat) ++ r₂) :
    l₁ = l₂ ∧ r₁ = r₂ := by
  rw [jsonList_limbs, jsonList_limbs] at h
  simp only [List.cons.injEq, true_and] at h
  cases l₁ with
  | nil =>
    cases l₂ with
    | nil => simpa using h
    | cons y t₂ =>
      exfalso
      obtain ⟨c, t, e, hc⟩ := jsonNat_head y
      simp only [e, List.cons_append, List.cons.injEq] at h
      rw [← h.1] at hc
      revert hc; decide
  | cons x t₁ =>
    cases l₂ with
    | nil =>
      exfalso
      obtain ⟨c, t, e, hc⟩ := jsonNat_head x
      simp only [e, List.cons_append, List.cons.injEq] at h
      rw [h.1] at hc
      revert hc; decide
    | cons y t₂ =>
      simp only at h
      obtain ⟨rfl, h'⟩ := jsonNat_unique _ _ _ _ (jsonTail_stop _ _) (jsonTail_stop _ _) h
      obtain ⟨rfl, rfl⟩ := jsonTail_unique _ _ _ _ h'
      exact ⟨rfl, rfl⟩

/-! ## Big integers and rationals -/

theorem toLimbs_inj {n m : Nat} (h : toLimbs n = toLimbs m) : n = m := by
  rw [← ofLimbs_toLimbs n, ← ofLimbs_toLimbs m, h]

theorem jsonBigInt_eq (i : Int) (r : List Char) :
    jsonBigInt i ++ r =
      '[' :: ((if i < 0 then ['-', '1'] else if i = 0 then ['0'] else ['1']) ++
        ',' :: (jsonList ((toLimbs i.natAbs).map jsonNat) ++ ']' :: r)) := by
  have e1 : jsonInt (-1) = ['-', '1'] := by decide
  have e2 : jsonInt 0 = ['0'] := by decide
  have e3 : jsonInt 1 = ['1'] := by decide
  unfold jsonBigInt
  by_cases h1 : i < 0
  · simp [h1, e1, jsonList, List.intercalate]
  · by_cases h2 : i = 0
    · simp [h2, e2, jsonList, List.intercalate]
    · simp [h1, h2, e3, jsonList, List.intercalate]

/-- The sign field as printed. -/
def jsonSign (i : Int) : List Char := if i < 0 then ['-', '1'] else if i = 0 then ['0'] else ['1']

theorem jsonSign_cases (i : Int) :
    (i < 0 ∧ jsonSign i = ['-', '1']) ∨ (i = 0 ∧ jsonSign i = ['0']) ∨ (0 < i ∧ jsonSign i = ['1']) := by
  unfold jsonSign
  by_cases h1 : i < 0
  · simp [h1]
  · by_cases h2 : i = 0
    · simp [h2]
    · right; right; simp [h1, h2]; omega

theorem jsonBigInt_unique (i j : Int) (r₁ r₂ : List Char)
    (h : jsonBigInt i ++ r₁ = jsonBigInt j ++ r₂) : i = j ∧ r₁ = r₂ := by
  rw [jsonBigInt_eq, jsonBigInt_eq] at h
  simp only [List.cons.injEq, true_and] at h
  change jsonSign i ++ _ = jsonSign j ++ _ at h
  rcases jsonSign_cases i with ⟨hi, ei⟩ | ⟨hi, ei⟩ | ⟨hi, ei⟩ <;>
  rcases jsonSign_cases j with ⟨hj, ej⟩ | ⟨hj, ej⟩ | ⟨hj, ej⟩ <;>
  rw [ei, ej] at h <;>
  simp only [List.cons_append, List.nil_append, List.cons.injEq, true_and, false_and,
    Char.reduceEq] at h
  all_goals
    obtain ⟨hl, hr⟩ := jsonLimbs_unique _ _ _ _ h
    have := toLimbs_inj hl
    simp only [List.cons.injEq, true_and] at hr
    exact ⟨by omega, hr⟩

theorem jsonRat_eq (r : Rat) :
    jsonRat r = '[' :: (jsonBigInt r.num ++ ',' :: (jsonBigInt r.den ++ [']'])) := by
  simp [jsonRat, jsonList, List.intercalate]

theorem jsonRat_inj {r s : Rat} (h : jsonRat r = jsonRat s) : r = s := by
  rw [jsonRat_eq, jsonRat_eq] at h
  simp only [List.cons.injEq, true_and] at h
  obtain ⟨hn, h⟩ := jsonBigInt_unique _ _ _ _ h
  simp only [List.cons.injEq, true_and] at h
  obtain ⟨hd, _⟩ := jsonBigInt_unique _ _ _ _ h
  exact Rat.ext hn (by exact_mod_cast hd)

end Anything.Cbor
