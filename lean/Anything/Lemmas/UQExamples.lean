import Anything.Lemmas.UQLaws
import Anything.Lemmas.QQExamples
/-!
# The unified expression language — sample data for the non-vacuity examples of
`Props/UnifiedQuery.lean`

A one-constant database (`speed of light` ↦ 299 792 458 m/s), three expressions and the
(kernel-evaluated) checks that they are in the scope of the theorems.
-/

namespace Anything.UQ.Ex
open Anything Anything.Eval Anything.Spec Anything.Spec.Arith Anything.Spec.Decimal
open Anything.Spec.Quantity Anything.Spec.SI Anything.C06 Anything.QQ Anything.QQ.Ex Anything.FQ
open Anything.UQ

/-- `speed of light`, as typed. -/
def solPhrase : List Char := ['s', 'p', 'e', 'e', 'd', ' ', 'o', 'f', ' ', 'l', 'i', 'g', 'h', 't']

/-- The compound `m/s` as the tool stores it. -/
def mps : Compound := [(.base .Meter, ⟨1, 0⟩), (.base .Second, ⟨-1, 0⟩)]

def solFact : Fact := ⟨299792458, mps, ['c']⟩

/-- A small database: one constant. -/
def db1 : Db := fun s => if s = solPhrase then .found solFact else .nothing

def cfg1 : Cfg := { db := db1, describe := true }

def km : List RTerm := [T "k" "m" 1]
def kg : List RTerm := [T "k" "g" 1]
def joule : List RTerm := [T "" "J" 1]

/-- The leaf: phrase, value, and the units `[(key, power, prefix)]` of the compound. -/
def sol : QExpr := .fact solPhrase 299792458 (resultUnit mps)

/-- `(speed of light * 2 s) to km`. -/
def ex : QExpr := .cast (.paren (.bin .mul sol (.qty (natLit [2]) s))) km

/-- `1 kg * speed of light ^ 2 to J`. -/
def emc2 : QExpr := .cast (.bin .mul (.qty (natLit [1]) kg) (.bin .pow sol (.num (natLit [2])))) joule

/-- `speed of light + 3`. -/
def solPlus3 : QExpr := .bin .add sol (.num (natLit [3]))

theorem unitOK_km : UnitOK km := unitOK_of_check (by decide +kernel)
theorem unitOK_kg : UnitOK kg := unitOK_of_check (by decide +kernel)
theorem unitOK_joule : UnitOK joule := unitOK_of_check (by decide +kernel)

theorem phraseU_sol : PhraseU solPhrase := by
  have hsplit : splitPhrase solPhrase = (['s', 'p', 'e', 'e', 'd'],
      [([' '], ['o', 'f']), ([' '], ['l', 'i', 'g', 'h', 't'])]) := by decide +kernel
  unfold PhraseU factFirst factMore
  rw [hsplit]
  refine ⟨⟨wordLit_of_check (by decide +kernel), ?_⟩, by decide +kernel⟩
  intro bw hbw
  simp only [List.mem_cons, List.not_mem_nil, or_false] at hbw
  rcases hbw with rfl | rfl
  · exact ⟨by decide, by decide, Or.inl (wordLit_of_check (by decide +kernel))⟩
  · exact ⟨by decide, by decide, Or.inl (wordLit_of_check (by decide +kernel))⟩

theorem mps_prop : Proportional mps := by
  intro e he
  simp only [mps, List.mem_cons, List.not_mem_nil, or_false] at he
  rcases he with rfl | rfl <;> rfl

theorem mps_known : AllKnown mps := by
  intro e he
  simp only [mps, List.mem_cons, List.not_mem_nil, or_false] at he
  rcases he with rfl | rfl <;> rfl

theorem sol_unitsOK : UnitsOKU cfg1 sol :=
  ⟨solFact, by simp [cfg1, db1], rfl, rfl, mps_prop, mps_known⟩


end Anything.UQ.Ex
