import Anything.Lemmas.FQFrames
import Anything.Lemmas.FQLex
import Anything.Lemmas.C06Parse
/-!
# Fact phrases end to end — the grammar on phrases and on rendered mixed expressions

* `value_phrase`: `Grammar.value` on the tokens of a phrase builds one WORD node (one word) or one
  SENTENCE node whose text is exactly the phrase — for ALL word lists;
* the `opLoop` stack invariant of `Lemmas/C06Parse.lean` over `FExpr` (`reduce_sim`,
  `closeAll_sim`, `LoopSpecF`, `OpSpecF`).
-/

namespace Anything.FQ
open Anything Anything.Parser Anything.Grammar Anything.PTotal Anything.Spec.Arith Anything.C06

/-! ### The word loop of `value` -/

theorem textList_append (a b : List Tree) :
    Tree.textList (a ++ b) = Tree.textList a ++ Tree.textList b := by
  induction a with
  | nil => simp [Tree.textList]
  | cons t ts ih => simp [Tree.textList, ih]

theorem wkind_ok (w : List Char) :
    (wkind w == Syntax.WORD || (true && wkind w == Syntax.NUMBER)) = true := by
  unfold wkind
  split
  · split <;> simp
  · simp

theorem wkind_notWS (w : List Char) : wkind w ≠ .WHITESPACE := by
  unfold wkind
  split
  · split <;> simp
  · simp

/-- The number of blanks `countSkip` sees in front of the remaining words. -/
def skipOf (more : More) (Wk : List Token) : Nat :=
  match more with
  | [] => Wk.length
  | _ :: _ => 1

theorem tot_countSkip_more {β} {f : Nat → PM β} {s : PState} {Q : β → PState → Prop}
    (more : More) (Wk K' : List Token) (ht : s.toks = moreToks more ++ (Wk ++ K'))
    (hwk : AllWS Wk) (hk : NotWSHead K') (h : Tot (f (skipOf more Wk)) s Q) :
    Tot (countSkip >>= f) s Q := by
  cases more with
  | nil => exact tot_countSkip_ws Wk K' (by simpa [moreToks] using ht) hwk hk h
  | cons bw more' =>
    refine tot_countSkip_ws [⟨.WHITESPACE, bw.1⟩]
      (⟨wkind bw.2, bw.2⟩ :: (moreToks more' ++ (Wk ++ K'))) (by simpa [moreToks] using ht)
      (fun t ht' => by simp only [List.mem_singleton] at ht'; subst ht'; rfl)
      (fun t r htr => by cases htr; exact wkind_notWS _) h

theorem bumpN_one {s : PState} {t : Token} {rest : List Token} (ht : s.toks = t :: rest)
    (h : C06.Good s.b) :
    Tot (bumpN 1) s (fun _ s' => s'.toks = rest ∧
      (∃ id, s'.b.forest = s.b.forest ++ [.tok id t.kind t.text]) ∧
      C06.Good s'.b ∧ NoNext s'.b ∧ Ext s.b.forest.length s.b s'.b) := by
  simp only [bumpN]
  exact tot_then_pure (bump_exact ht h)

/-- The word loop across the remaining words of a phrase: every `(blank, word)` pair becomes a
WHITESPACE leaf and a WORD node; the loop stops in front of the first token (after blanks) that
is neither a WORD nor a NUMBER. -/
theorem wordLoop_more : ∀ (more : More) {s : PState} (F words : Nat) (Wk K' : List Token),
    s.toks = moreToks more ++ (Wk ++ K') → AllWS Wk → NotWSHead K' →
    headKind K' ≠ .WORD → headKind K' ≠ .NUMBER → C06.Good s.b → more.length + 1 ≤ F →
    Tot (wordLoop true F (skipOf more Wk) words) s (fun r s' =>
      r.1 = words + more.length ∧ s'.toks = Wk ++ K' ∧
      ∃ G, s'.b.forest = s.b.forest ++ G ∧ Tree.textList G = moreText more ∧
        G.length = 2 * more.length ∧ C06.Good s'.b ∧
        (NoNext s.b ∨ more ≠ [] → NoNext s'.b) ∧ Ext s.b.forest.length s.b s'.b)
  | [], s, F, words, Wk, K', ht, hwk, hk, hw, hn, hg, hF => by
    obtain ⟨F', rfl⟩ : ∃ F', F = F' + 1 := ⟨F - 1, by simp at hF; omega⟩
    have ht' : s.toks = Wk ++ K' := by simpa [moreToks] using ht
    unfold wordLoop
    simp only [skipOf]
    refine tot_nth_ws Wk K' ht' ?_
    have : (headKind K' == Syntax.WORD || (true && headKind K' == Syntax.NUMBER)) = false := by
      simp [hw, hn]
    simp only [this, Bool.false_eq_true, ↓reduceIte]
    exact tot_pure ⟨by simp, ht', [], by simp, by simp [Tree.textList, moreText], rfl, hg,
      fun h => h.elim id (fun h => absurd rfl h), Ext.refl (Nat.le_refl _)⟩
  | (b, w) :: more, s, F, words, Wk, K', ht, hwk, hk, hw, hn, hg, hF => by
    obtain ⟨F', rfl⟩ : ∃ F', F = F' + 1 := ⟨F - 1, by simp at hF; omega⟩
    have ht' : s.toks = [⟨.WHITESPACE, b⟩] ++ (⟨wkind w, w⟩ :: (moreToks more ++ (Wk ++ K'))) := by
      simpa [moreToks] using ht
    unfold wordLoop
    simp only [skipOf]
    refine tot_nth_ws [⟨.WHITESPACE, b⟩] _ ht' ?_
    simp only [headKind, wkind_ok, ↓reduceIte]
    refine tot_seq (bumpN_one ht' hg) fun _ s1 ⟨ht1, ⟨id1, hf1⟩, g1, _, e1⟩ => ?_
    refine tot_seq (bumpNode_exact .WORD ht1 g1) fun _ s2 ⟨ht2, ⟨id2, id3, hf2⟩, g2, n2, e2⟩ => ?_
    refine tot_countSkip_more more Wk K' ht2 hwk hk ?_
    refine tot_mono (wordLoop_more more F' (words + 1) Wk K' ht2 hwk hk hw hn g2
      (by simp at hF; omega)) fun r s3 ⟨hr, ht3, G, hf3, hG, hGl, g3, n3, e3⟩ => ?_
    refine ⟨by simp only [List.length_cons]; omega, ht3,
      [.tok id1 .WHITESPACE b, .node id2 .WORD [.tok id3 (wkind w) w]] ++ G, ?_, ?_,
      by simp [hGl]; omega, g3, fun _ => n3 (Or.inl n2), ?_⟩
    · rw [hf3, hf2, hf1]; simp
    · rw [textList_append, hG]
      simp [Tree.textList, Tree.text, moreText]
    · have e12 : Ext s.b.forest.length s.b s2.b := e1.trans (e2.mono (by rw [hf1]; simp))
      exact e12.trans (e3.mono (by rw [hf2, hf1]; simp))

/-! ### `value` on a phrase -/

/-- **`Grammar.value` on a phrase.** For every first word and every list of further words (WORD
or NUMBER tokens, each preceded by one WHITESPACE token), in operand position and followed — after
an optional blank — by an operator, a closing delimiter or the end of the input: the blank in
front is skipped and ONE tree is appended, a WORD node for a single word, otherwise a SENTENCE
node, whose source text is exactly the phrase. -/
theorem value_phrase {s : PState} (F : Nat) (W : List Token) (first : List Char) (more : More)
    (K : List Token) (ht : s.toks = W ++ (phraseToks first more ++ K)) (hw : AllWS W)
    (hK : Follow K) (h : C06.Good s.b) (hF : more.length + 1 ≤ F) :
    Tot (value (F + 1) W.length) s (fun r s' => ∃ cur Wt x, r = some cur ∧ s'.toks = K ∧
      s'.b.forest = s.b.forest ++ Wt ++ [x] ∧ WSTrees Wt ∧ Wt.length = W.length ∧
      x.kind = (if more = [] then Syntax.WORD else Syntax.SENTENCE) ∧ x.hasChildren = true ∧
      x.text = phraseText first more ∧
      Pos s'.b cur (s.b.forest.length + W.length) ∧ C06.Good s'.b ∧ NoNext s'.b ∧
      Ext s.b.forest.length s.b s'.b) := by
  obtain ⟨Wk, K', rfl, hwk, hfk⟩ := hK
  have hnw := followKind_notWS hfk
  have hkinds : headKind K' ≠ .WORD ∧ headKind K' ≠ .NUMBER ∧ headKind K' ≠ .OPEN_PAREN := by
    rcases hfk with h | h | h | h | h | h | h | h <;> rw [h] <;> simp
  have ht0 : s.toks = W ++ (⟨.WORD, first⟩ :: (moreToks more ++ (Wk ++ K'))) := by
    simpa [phraseToks] using ht
  unfold value
  refine tot_nth_ws W _ ht0 ?_
  simp only [headKind]
  refine tot_seq (bumpN_ws W ht0 hw h) fun _ s1 ⟨ht1, ⟨Wt, hf1, hWt, hlen⟩, g1, _, e1⟩ => ?_
  refine tot_seq (checkpoint_exact g1) fun start s2 ⟨ht2, hf2, _, g2, p2, e2⟩ => ?_
  refine tot_seq (checkpoint_exact g2) fun c s3 ⟨ht3, hf3, _, g3, p3, e3⟩ => ?_
  refine tot_seq (bumpNode_exact .WORD (ht3.trans (ht2.trans ht1)) g3)
    fun _ s4 ⟨ht4, ⟨idw, idt, hf4⟩, g4, n4, e4⟩ => ?_
  -- the next token is not `(`
  have hnext : kAt s4 (0 + 0) ≠ .OPEN_PAREN := by
    unfold kAt
    rw [ht4]
    cases more with
    | nil =>
      simp only [moreToks, List.flatMap_nil, List.nil_append]
      cases Wk with
      | nil =>
        cases K' with
        | nil => simp
        | cons t r => simpa [headKind] using hkinds.2.2
      | cons t r => simp [hwk t (by simp)]
    | cons bw more' => simp [moreToks]
  refine tot_nth_bind fun k hk => ?_
  have hk' : (k == Syntax.OPEN_PAREN) = false := by rw [hk]; simpa using hnext
  simp only [hk', Bool.false_eq_true, ↓reduceIte]
  have hl1 : s1.b.forest.length = s.b.forest.length + W.length := by rw [hf1]; simp [hlen]
  have hf4' : s4.b.forest = (s.b.forest ++ Wt) ++ [.node idw .WORD [.tok idt .WORD first]] := by
    rw [hf4, hf3, hf2, hf1]
  have hl4 : s4.b.forest.length = s.b.forest.length + W.length + 1 := by
    rw [hf4']; simp [hlen]; omega
  -- both checkpoints sit at the first word
  have p3' : Pos s3.b start s1.b.forest.length := by
    exact e3.pos start _ (by rw [hf2]) p2
  have p3c : Pos s3.b c s1.b.forest.length := by rwa [hf2] at p3
  have hl3 : s3.b.forest.length = s1.b.forest.length := by rw [hf3, hf2]
  have e4' : Ext s1.b.forest.length s3.b s4.b := hl3 ▸ e4
  have p4 : Pos s4.b start s1.b.forest.length := e4'.pos start _ (Nat.le_refl _) p3'
  have p4c : Pos s4.b c s1.b.forest.length := e4'.pos c _ (Nat.le_refl _) p3c
  have e14 : Ext s1.b.forest.length s1.b s4.b := (e2.trans (hf2 ▸ e3)).trans e4'
  refine tot_countSkip_more more Wk K' ht4 hwk hnw ?_
  refine tot_seq (wordLoop_more more F 0 Wk K' ht4 hwk hnw hkinds.1 hkinds.2.1 g4 hF)
    fun r s5 ⟨hr, ht5, G, hf5, hG, hGl, g5, n5, e5⟩ => ?_
  obtain ⟨words, sk⟩ := r
  simp only at hr ⊢
  have hle15 : s1.b.forest.length ≤ s4.b.forest.length := by omega
  have e5' : Ext s1.b.forest.length s4.b s5.b := e5.mono hle15
  have p5 : Pos s5.b start s1.b.forest.length := e5'.pos start _ (Nat.le_refl _) p4
  have p5c : Pos s5.b c s1.b.forest.length := e5'.pos c _ (Nat.le_refl _) p4c
  have hf5' : s5.b.forest = (s.b.forest ++ Wt) ++ (.node idw .WORD [.tok idt .WORD first] :: G) := by
    rw [hf5, hf4']; simp
  have hle : s.b.forest.length ≤ s1.b.forest.length := by omega
  by_cases hm : more = []
  · -- a single word: no SENTENCE node
    subst hm
    have hw0 : ¬ words > 0 := by simp at hr; omega
    have hG0 : G = [] := List.eq_nil_of_length_eq_zero (by simpa using hGl)
    subst hG0
    simp only [hw0, ↓reduceIte]
    refine tot_pure ⟨start, Wt, .node idw .WORD [.tok idt .WORD first], rfl, ht5, by simpa using hf5',
      hWt, hlen, rfl, rfl, by simp [Tree.text, Tree.textList, phraseText, moreText], hl1 ▸ p5, g5,
      n5 (Or.inl n4), e1.trans ((e14.trans e5').mono hle)⟩
  · have hw1 : words > 0 := by
      have : more.length > 0 := List.length_pos_of_ne_nil hm
      simp at hr; omega
    simp only [hw1, ↓reduceIte, hm]
    refine tot_seq (closeAt_wrap .SENTENCE g5 (n5 (Or.inr hm)) p5c (by rw [hf5]; simp; omega))
      fun _ s6 ⟨ht6, ⟨ids, hf6⟩, g6, n6, _, e6⟩ => ?_
    have hlsw : s1.b.forest.length = (s.b.forest ++ Wt).length := by rw [hl1]; simp [hlen]
    rw [hf5', hlsw, List.take_left' rfl, List.drop_left' rfl] at hf6
    refine tot_pure ⟨start, Wt, .node ids .SENTENCE (.node idw .WORD [.tok idt .WORD first] :: G), rfl,
      ht6.trans ht5, hf6, hWt, hlen, rfl, rfl, ?_, ?_, g6, n6,
      e1.trans (((e14.trans e5').trans (hlsw ▸ e6)).mono hle)⟩
    · simp [Tree.text, Tree.textList, phraseText, hG]
    · have := (hlsw ▸ e6 : Ext s1.b.forest.length s5.b s6.b).pos start _ (Nat.le_refl _) p5
      exact hl1 ▸ this

/-! ### `reduce` simulates `reduceA` -/

theorem reduceA_lt {cur acc : FExpr} {op o : BinOp} {st : Stack} (h : op.prio < o.prio) :
    reduceA cur op ((acc, o) :: st) = reduceA (.bin o acc cur) op st := by
  simp [reduceA, h]

theorem reduceA_eq {cur acc : FExpr} {op o : BinOp} {st : Stack} (h1 : ¬ op.prio < o.prio)
    (h2 : ¬ o.prio < op.prio) :
    reduceA cur op ((acc, o) :: st) = (.bin o acc cur, op) :: st := by
  simp [reduceA, h1, h2]

/-- The result of `reduce`, described against the specification-level `reduceA`. -/
def ReduceOut (P : List Tree) (ecur : FExpr) (op : BinOp) (st : Stack)
    (stack' : List (Nat × Nat × Bool)) (b' : Builder) : Prop :=
  ∃ G1 Y v st1 c1 stack1, reduceA ecur op st = (v, op) :: st1 ∧
    stack' = (c1, op.prio, false) :: stack1 ∧ b'.forest = P ++ G1 ++ Y ∧
    StackOK b' P.length G1 stack1 st1 ∧ OpenSeg op.prio Y v ∧ Pos b' c1 (P.length + G1.length)

theorem reduce_sim (cur : Nat) (op : BinOp) (P : List Tree) :
    ∀ (stack : List (Nat × Nat × Bool)) (st : Stack) (G : List Tree) (x : Tree) (ecur : FExpr)
      {s : PState}, StackOK s.b P.length G stack st → st ≠ [] → s.b.forest = P ++ G ++ [x] →
      RepF x ecur → op.prio < ecur.prio → C06.Good s.b → NoNext s.b →
      (topPrio st < op.prio → Pos s.b cur (P.length + G.length)) →
      Tot (reduce cur op.prio false stack) s (fun stack' s' =>
        s'.toks = s.toks ∧ C06.Good s'.b ∧ NoNext s'.b ∧ Ext P.length s.b s'.b ∧
        ReduceOut P ecur op st stack' s'.b) := by
  intro stack
  induction stack with
  | nil =>
    intro st G x ecur s hso hne
    cases hso
    exact absurd rfl hne
  | cons f rest ih =>
    intro st G x ecur s hso _ hf hx hpe hg hn hcur
    cases hso with
    | @cons G' S c acc o _ st' hso' hseg hpos =>
    unfold reduce
    by_cases h1 : op.prio < o.prio
    · -- close the frame
      simp only [h1, ↓reduceIte]
      have hf' : s.b.forest = P ++ G' ++ (S ++ [x]) := by rw [hf]; simp
      obtain ⟨htk, hdr⟩ := take_drop_at P G' (S ++ [x])
      refine tot_seq (closeAt_wrap .OPERATION hg hn hpos (by rw [hf']; simp))
        fun _ s1 ⟨ht1, ⟨id, hf1⟩, g1, n1, p1, e1⟩ => ?_
      rw [hf', htk, hdr] at hf1
      have hN := segOK_close id hseg hx
      have hso1 : StackOK s1.b P.length G' rest st' := hso'.mono e1
      have hle : P.length ≤ P.length + G'.length := Nat.le_add_right _ _
      have hpn : (FExpr.bin o acc ecur).prio ≠ op.prio := by
        simp only [prio_bin]; omega
      have hOpen : OpenSeg op.prio [Tree.node id .OPERATION (S ++ [x])] (.bin o acc ecur) :=
        openSeg_single (W := []) op.prio wsTrees_nil hN hpn
      have hro : ∀ stack' b', ReduceOut P (.bin o acc ecur) op st' stack' b' →
          ReduceOut P ecur op ((acc, o) :: st') stack' b' := by
        intro stack' b' hr
        unfold ReduceOut at hr ⊢
        rw [reduceA_lt h1]; exact hr
      cases hso' with
      | nil =>
        exact tot_pure ⟨ht1, g1, n1, e1.mono hle, hro _ _
          ⟨[], _, _, [], c, [], rfl, rfl, hf1, .nil, hOpen, p1⟩⟩
      | @cons G'' S2 c2 acc2 o2 rest2 st'' hso'' hseg2 hpos2 =>
        simp only
        by_cases h3 : o2.prio ≥ op.prio
        · simp only [h3, ↓reduceIte]
          refine tot_mono (ih ((acc2, o2) :: st'') (G'' ++ S2) _ (.bin o acc ecur) hso1 (by simp)
            hf1 hN (by simp only [prio_bin]; exact h1) g1 n1
            (fun hlt => by simp only [topPrio] at hlt; omega))
            fun stack' s2 ⟨ht2, g2, n2, e2, hout⟩ => ?_
          exact ⟨ht2.trans ht1, g2, n2, (e1.mono hle).trans e2, hro _ _ hout⟩
        · simp only [h3, ↓reduceIte]
          refine tot_pure ⟨ht1, g1, n1, e1.mono hle, hro _ _ ⟨G'' ++ S2, _, _, _, c, _, ?_, rfl, hf1,
            hso1, hOpen, p1⟩⟩
          exact reduceA_push _ op _ (by simp only [topPrio]; omega)
    · simp only [h1, ↓reduceIte]
      by_cases h2 : op.prio > o.prio
      · -- push a new frame
        simp only [h2, ↓reduceIte]
        refine tot_pure ⟨rfl, hg, hn, Ext.refl (by rw [hf]; simp), G' ++ S, [x], ecur, _, cur, _,
          ?_, rfl, hf, .cons hso' hseg hpos,
          openSeg_single (W := []) op.prio wsTrees_nil hx (by omega),
          hcur (by simpa [topPrio] using h2)⟩
        exact reduceA_push _ op _ (by simpa [topPrio] using h2)
      · -- same priority: the frame absorbs the operand
        simp only [h2, ↓reduceIte]
        have heq : o.prio = op.prio := by omega
        refine tot_pure ⟨rfl, hg, hn, Ext.refl (by rw [hf]; simp), G', S ++ [x], _, st', c, rest,
          reduceA_eq h1 (by omega), by rw [heq], by rw [hf]; simp, hso', heq ▸ segOK_extend hseg hx, hpos⟩

/-! ### `closeAll` simulates `closeAllA` -/

theorem closeAll_sim (P : List Tree) :
    ∀ (stack : List (Nat × Nat × Bool)) (st : Stack) (G : List Tree) (x : Tree) (ecur : FExpr)
      {s : PState}, StackOK s.b P.length G stack st → s.b.forest = P ++ G ++ [x] →
      RepF x ecur → C06.Good s.b → NoNext s.b →
      Tot (closeAll stack) s (fun _ s' =>
        s'.toks = s.toks ∧ C06.Good s'.b ∧ NoNext s'.b ∧ Ext P.length s.b s'.b ∧
        ∃ x', s'.b.forest = P ++ [x'] ∧ RepF x' (closeAllA ecur st)) := by
  intro stack
  induction stack with
  | nil =>
    intro st G x ecur s hso hf hx hg hn
    cases hso
    exact tot_pure ⟨rfl, hg, hn, Ext.refl (by rw [hf]; simp), x, by simpa using hf, hx⟩
  | cons f rest ih =>
    intro st G x ecur s hso hf hx hg hn
    cases hso with
    | @cons G' S c acc o _ st' hso' hseg hpos =>
    unfold closeAll
    have hf' : s.b.forest = P ++ G' ++ (S ++ [x]) := by rw [hf]; simp
    obtain ⟨htk, hdr⟩ := take_drop_at P G' (S ++ [x])
    refine tot_seq (closeAt_wrap .OPERATION hg hn hpos (by rw [hf']; simp))
      fun _ s1 ⟨ht1, ⟨id, hf1⟩, g1, n1, p1, e1⟩ => ?_
    rw [hf', htk, hdr] at hf1
    have hN := segOK_close id hseg hx
    have hle : P.length ≤ P.length + G'.length := Nat.le_add_right _ _
    refine tot_mono (ih st' G' _ (.bin o acc ecur) (hso'.mono e1) hf1 hN g1 n1)
      fun _ s2 ⟨ht2, g2, n2, e2, hout⟩ => ?_
    exact ⟨ht2.trans ht1, g2, n2, (e1.mono hle).trans e2, hout⟩

/-! ### Loop invariants -/

def LoopInv (b : Builder) (P : List Tree) (opn : Nat) (first : Bool)
    (stack : List (Nat × Nat × Bool)) (st : Stack) : Prop :=
  if first then stack = [] ∧ st = [] ∧ b.forest = P ∧ Pos b opn P.length
  else ∃ G, b.forest = P ++ G ∧ StackOK b P.length G stack st ∧ st ≠ []

/-- The builder after the operand `x` (an atom `ecur`, checkpoint `cur`) has been parsed. -/
def AfterInv (b : Builder) (P : List Tree) (opn : Nat) (first : Bool)
    (stack : List (Nat × Nat × Bool)) (st : Stack) (cur : Nat) (ecur : FExpr) : Prop :=
  Atom ecur ∧
  if first then stack = [] ∧ st = [] ∧ ∃ W x, b.forest = P ++ W ++ [x] ∧ WSTrees W ∧
      RepF x ecur ∧ Pos b opn P.length ∧ Pos b cur (P.length + W.length)
  else ∃ G x, b.forest = P ++ G ++ [x] ∧ StackOK b P.length G stack st ∧ st ≠ [] ∧
      RepF x ecur ∧ Pos b cur (P.length + G.length)

/-- One iteration's tail when an operator follows. -/
theorem afterValue_op {s : PState} {P : List Tree} {opn : Nat} {first : Bool}
    {stack : List (Nat × Nat × Bool)} {st : Stack} {cur : Nat} {ecur : FExpr} (F : Nat)
    (op : BinOp) (Wk W2 K2 : List Token) {Q : Option Nat → PState → Prop}
    (hinv : AfterInv s.b P opn first stack st cur ecur) (hg : C06.Good s.b) (hn : NoNext s.b)
    (ht : s.toks = Wk ++ opTok op :: (W2 ++ K2)) (hwk : AllWS Wk) (hw2 : AllWS W2)
    (hk2 : NotWSHead K2)
    (hcont : ∀ s2 stack2, LoopInv s2.b P opn false stack2 (reduceA ecur op st) → C06.Good s2.b →
      s2.toks = W2 ++ K2 → Ext P.length s.b s2.b → Tot (opLoop F opn stack2 false W2.length) s2 Q) :
    Tot (afterValue F opn stack first cur) s Q := by
  have hnw : NotWSHead (opTok op :: (W2 ++ K2)) := by
    intro t r htr; cases htr; exact opTok_notWS op
  obtain ⟨hat, hinv⟩ := hinv
  unfold afterValue
  refine tot_countSkip_ws Wk _ ht hwk hnw ?_
  refine tot_nth_ws Wk _ ht ?_
  simp only [headKind, opInfo_opTok]
  have tail : ∀ (s1 : PState) (stack1 : List (Nat × Nat × Bool)) (G1 Y : List Tree) (v : FExpr)
      (st1 : Stack) (c1 : Nat) (stackr : List (Nat × Nat × Bool)),
      s1.toks = s.toks → C06.Good s1.b → Ext P.length s.b s1.b →
      reduceA ecur op st = (v, op) :: st1 → stack1 = (c1, op.prio, false) :: stackr →
      s1.b.forest = P ++ G1 ++ Y → StackOK s1.b P.length G1 stackr st1 → OpenSeg op.prio Y v →
      Pos s1.b c1 (P.length + G1.length) →
      Tot (do bumpN Wk.length; bumpNode (opKind op); let skip ← countSkip
              opLoop F opn stack1 false skip) s1 Q := by
    intro s1 stack1 G1 Y v st1 c1 stackr ht1 g1 e1 hra hst1 hf1 hso1 hopen hp1
    refine tot_seq (bumpN_ws Wk (ht1.trans ht) hwk g1)
      fun _ s2 ⟨ht2, ⟨Wt, hf2, hWt, _⟩, g2, _, e2⟩ => ?_
    refine tot_seq (bumpNode_exact (opKind op) ht2 g2)
      fun _ s3 ⟨ht3, ⟨id, id', hf3⟩, g3, n3, e3⟩ => ?_
    refine tot_countSkip_ws W2 K2 ht3 hw2 hk2 ?_
    have hle1 : P.length + G1.length ≤ s1.b.forest.length := by rw [hf1]; simp
    have e13 : Ext s1.b.forest.length s1.b s3.b := e2.trans (e3.mono (by rw [hf2]; simp))
    refine hcont s3 stack1 ?_ g3 ht3 (e1.trans (e13.mono (by rw [hf1]; simp)))
    simp only [LoopInv, Bool.false_eq_true, ↓reduceIte]
    refine ⟨G1 ++ (Y ++ Wt ++ [.node id (opKind op) [.tok id' (opTok op).kind (opTok op).text]]), ?_,
      ?_, by rw [hra]; simp⟩
    · rw [hf3, hf2, hf1]; simp
    · rw [hra, hst1]
      exact .cons (hso1.mono (e13.mono hle1)) (openSeg_op hopen hWt rfl rfl)
        (e13.pos c1 _ hle1 hp1)
  have hne : ecur.prio ≠ op.prio := by have := atom_gt hat op; omega
  cases first with
  | true =>
    simp only [↓reduceIte] at hinv
    obtain ⟨rfl, rfl, W, x, hf, hW, hx, hpo, hpc⟩ := hinv
    simp only [↓reduceIte, reduce_first]
    refine tot_seq (tot_pure (Q := fun r s' => r = [(opn, op.prio, false)] ∧ s' = s) ⟨rfl, rfl⟩)
      fun stack1 s1 ⟨hs1, hs⟩ => ?_
    subst hs
    exact tail s1 stack1 [] (W ++ [x]) ecur [] opn [] rfl hg (Ext.refl (by rw [hf]; simp)) rfl hs1
      (by rw [hf]; simp) .nil (openSeg_single op.prio hW hx hne) (by simpa using hpo)
  | false =>
    simp only [Bool.false_eq_true, ↓reduceIte] at hinv
    obtain ⟨G, x, hf, hso, hne', hx, hpc⟩ := hinv
    simp only [Bool.false_eq_true, ↓reduceIte]
    refine tot_seq (reduce_sim cur op P stack st G x ecur hso hne' hf hx (atom_gt hat op) hg hn
      (fun _ => hpc))
      fun stack1 s1 ⟨ht1, g1, _, e1, G1, Y, v, st1, c1, stackr, hra, hst1, hf1, hso1, hopen, hp1⟩ => ?_
    exact tail s1 stack1 G1 Y v st1 c1 stackr ht1 g1 e1 hra hst1 hf1 hso1 hopen hp1

/-- One iteration's tail when no operator follows: all frames are closed. -/
theorem afterValue_end {s : PState} {P : List Tree} {opn : Nat} {first : Bool}
    {stack : List (Nat × Nat × Bool)} {st : Stack} {cur : Nat} {ecur : FExpr} (F : Nat)
    (Wk K' : List Token)
    (hinv : AfterInv s.b P opn first stack st cur ecur) (hg : C06.Good s.b) (hn : NoNext s.b)
    (ht : s.toks = Wk ++ K') (hwk : AllWS Wk) (hk : EndKind (headKind K')) :
    Tot (afterValue F opn stack first cur) s (fun r s' => r = some Wk.length ∧ s'.toks = s.toks ∧
      C06.Good s'.b ∧ NoNext s'.b ∧ Ext P.length s.b s'.b ∧
      ∃ W x', s'.b.forest = P ++ W ++ [x'] ∧ WSTrees W ∧ RepF x' (closeAllA ecur st)) := by
  obtain ⟨_, hinv⟩ := hinv
  unfold afterValue
  refine tot_countSkip_ws Wk _ ht hwk (followKind_notWS (endKind_follow hk)) ?_
  refine tot_nth_ws Wk _ ht ?_
  have : opInfo (headKind K') = none := by
    rcases hk with h | h | h <;> rw [h] <;> rfl
  simp only [this]
  cases first with
  | true =>
    simp only [↓reduceIte] at hinv
    obtain ⟨rfl, rfl, W, x, hf, hW, hx, _, _⟩ := hinv
    simp only [closeAll]
    refine tot_seq (tot_pure (Q := fun _ s' => s' = s) rfl) fun _ s1 hs => ?_
    subst hs
    exact tot_pure ⟨rfl, rfl, hg, hn, Ext.refl (by rw [hf]; simp), W, x, hf, hW, hx⟩
  | false =>
    simp only [Bool.false_eq_true, ↓reduceIte] at hinv
    obtain ⟨G, x, hf, hso, _, hx, _⟩ := hinv
    refine tot_seq (closeAll_sim P stack st G x ecur hso hf hx hg hn)
      fun _ s1 ⟨ht1, g1, n1, e1, x', hf1, hx'⟩ => ?_
    exact tot_pure ⟨rfl, ht1, g1, n1, e1, [], x', by simpa using hf1, wsTrees_nil, hx'⟩

/-! ### Specifications of `value`, `opLoop` and `operation` on a rendered expression -/

def ValueSpecF (e : FExpr) : Prop :=
  ∃ Fe, ∀ (ws : Layout) (s : PState) (W0 K : List Token), WFF e → LayoutOKF e ws → C06.Good s.b →
    s.toks = W0 ++ (toksF e ws ++ K) → AllWS W0 → Follow K →
    Tot (Grammar.value Fe W0.length) s (fun r s' => ∃ cur Wt x, r = some cur ∧ s'.toks = K ∧
      s'.b.forest = s.b.forest ++ Wt ++ [x] ∧ WSTrees Wt ∧ RepF x e ∧
      Pos s'.b cur (s.b.forest.length + Wt.length) ∧ C06.Good s'.b ∧ NoNext s'.b ∧
      Ext s.b.forest.length s.b s'.b)

def LoopSpecF (e : FExpr) : Prop :=
  ∃ Fe, ∀ (ws : Layout) (s : PState) (P : List Tree) (opn : Nat) (first : Bool)
    (stack : List (Nat × Nat × Bool)) (st : Stack) (W0 K : List Token)
    (Q : Option Nat → PState → Prop) (F1 : Nat),
    WFF e → LayoutOKF e ws → LoopInv s.b P opn first stack st → C06.Good s.b →
    s.toks = W0 ++ (toksF e ws ++ K) → AllWS W0 → Follow K →
    (∀ s1 stack1 cur,
      AfterInv s1.b P opn (first && (flat e).2.isEmpty) stack1 (run st (flat e).1 (flat e).2).1 cur
        (run st (flat e).1 (flat e).2).2 →
      C06.Good s1.b → NoNext s1.b → s1.toks = K → Ext P.length s.b s1.b →
      Tot (afterValue F1 opn stack1 (first && (flat e).2.isEmpty) cur) s1 Q) →
    Tot (opLoop (Fe + F1) opn stack first W0.length) s Q

def OpSpecF (e : FExpr) : Prop :=
  ∃ Fe, ∀ (ws : Layout) (s : PState) (W0 Wk K' : List Token), WFF e → LayoutOKF e ws →
    C06.Good s.b →
    s.toks = W0 ++ (toksF e ws ++ (Wk ++ K')) → AllWS W0 → AllWS Wk → EndKind (headKind K') →
    Tot (operation Fe W0.length) s (fun r s' => ∃ Wt x, r = some Wk.length ∧ s'.toks = Wk ++ K' ∧
      s'.b.forest = s.b.forest ++ Wt ++ [x] ∧ WSTrees Wt ∧ RepF x e ∧
      C06.Good s'.b ∧ NoNext s'.b ∧ Ext s.b.forest.length s.b s'.b)

theorem loopInv_isUnit {b : Builder} {P : List Tree} {opn : Nat} {first : Bool}
    {stack : List (Nat × Nat × Bool)} {st : Stack} (h : LoopInv b P opn first stack st) :
    isUnitTop stack = false := by
  cases first with
  | true =>
    simp only [LoopInv, ↓reduceIte] at h
    rw [h.1]; rfl
  | false =>
    simp only [LoopInv, Bool.false_eq_true, ↓reduceIte] at h
    obtain ⟨G, _, hso, _⟩ := h
    exact stackOK_isUnit hso

/-- An operand that is a single `value` is read by one loop iteration. -/
theorem loop_of_value (e : FExpr) (hflat : flat e = (e, [])) (hat : Atom e) (hv : ValueSpecF e) :
    LoopSpecF e := by
  obtain ⟨Fv, hv⟩ := hv
  refine ⟨Fv + 1, ?_⟩
  intro ws s P opn first stack st W0 K Q F1 hwf hlay hinv hg ht hw0 hK hcont
  have hF : Fv + 1 + F1 = (Fv + F1) + 1 := by omega
  rw [hF, opLoop_unfold _ _ _ _ _ (loopInv_isUnit hinv)]
  refine tot_seq (tot_le (le_value (Nat.le_add_right Fv F1) _) (hv ws s W0 K hwf hlay hg ht hw0 hK))
    fun r s1 ⟨cur, Wt, x, hr, ht1, hf1, hWt, hx, hp1, g1, n1, e1⟩ => ?_
  subst hr
  simp only
  refine tot_le (le_afterValue (Nat.le_add_left F1 Fv) _ _ _ _) ?_
  simp only [hflat, List.isEmpty_nil, Bool.and_true, run] at hcont
  cases first with
  | true =>
    simp only [LoopInv, ↓reduceIte] at hinv
    obtain ⟨rfl, rfl, hf, hpo⟩ := hinv
    have hlen : s.b.forest.length = P.length := by rw [hf]
    refine hcont s1 [] cur ⟨hat, ?_⟩ g1 n1 ht1 (hlen ▸ e1)
    simp only [↓reduceIte, true_and]
    exact ⟨Wt, x, hf ▸ hf1, hWt, hx, e1.pos opn _ (by rw [hlen]) hpo, hlen ▸ hp1⟩
  | false =>
    simp only [LoopInv, Bool.false_eq_true, ↓reduceIte] at hinv
    obtain ⟨G, hf, hso, hne⟩ := hinv
    have hlen : s.b.forest.length = P.length + G.length := by rw [hf]; simp
    refine hcont s1 stack cur ⟨hat, ?_⟩ g1 n1 ht1 (e1.mono (by omega))
    simp only [Bool.false_eq_true, ↓reduceIte]
    refine ⟨G ++ Wt, x, by rw [hf1, hf]; simp, (hso.mono (hlen ▸ e1)).ws hne hWt, hne, hx, ?_⟩
    rw [hlen] at hp1
    simpa [Nat.add_assoc] using hp1

/-- The token list of an expression starts with a NUMBER, WORD or OPEN_PAREN token. -/
theorem toksF_head : ∀ (e : FExpr) (ws : Layout), ∃ t r, toksF e ws = t :: r ∧
    (t.kind = .NUMBER ∨ t.kind = .WORD ∨ t.kind = .OPEN_PAREN)
  | .lit l, ws => by
    simp only [toksF]
    split
    · exact ⟨_, _, rfl, Or.inl rfl⟩
    · exact ⟨_, _, rfl, Or.inl rfl⟩
  | .fact f m, ws => ⟨_, _, rfl, Or.inr (Or.inl rfl)⟩
  | .bin op a b, ws => by
    obtain ⟨t, r, h, hk⟩ := toksF_head a ws
    simp only [toksF, h]
    exact ⟨t, _, rfl, hk⟩
  | .paren e, ws => by
    simp only [toksF]
    exact ⟨_, _, rfl, Or.inr (Or.inr rfl)⟩

theorem toksF_notWS (e : FExpr) (ws : Layout) (K : List Token) : NotWSHead (toksF e ws ++ K) := by
  obtain ⟨t, r, h, hk⟩ := toksF_head e ws
  intro t' r' heq
  rw [h] at heq
  cases heq
  rcases hk with h | h | h <;> rw [h] <;> simp

/-- A binary expression: the loop reads `a`, the operator, then `b`. -/
theorem loop_bin (op : BinOp) (a b : FExpr) (ha : LoopSpecF a) (hb : LoopSpecF b) :
    LoopSpecF (.bin op a b) := by
  obtain ⟨Fa, ha⟩ := ha
  obtain ⟨Fb, hb⟩ := hb
  refine ⟨Fa + Fb, ?_⟩
  intro ws s P opn first stack st W0 K Q F1 hwf hlay hinv hg ht hw0 hK hcont
  simp only [WFF] at hwf
  obtain ⟨wfa, wfb, _, _⟩ := hwf
  obtain ⟨la, hb1, hb2, lb, _⟩ := hlay
  have hF : Fa + Fb + F1 = Fa + (Fb + F1) := by omega
  rw [hF]
  have hrun : run st (flat (.bin op a b)).1 (flat (.bin op a b)).2 =
      run (reduceA (run st (flat a).1 (flat a).2).2 op (run st (flat a).1 (flat a).2).1)
        (flat b).1 (flat b).2 := by
    simp only [flat, run_append, run]
  have hemp : (flat (.bin op a b)).2.isEmpty = false := by simp [flat]
  simp only [hemp, Bool.and_false, hrun] at hcont
  refine ha ws s P opn first stack st W0
    (blankTok (blank1 (afterF a ws)) ++ (opTok op :: (blankTok (blank1 (rest1 (afterF a ws))) ++
      (toksF b (rest1 (rest1 (afterF a ws))) ++ K)))) Q (Fb + F1) wfa la hinv hg
    (by rw [ht]; simp only [toksF, List.append_assoc, List.nil_append, List.cons_append]) hw0
    (follow_op _ op _) ?_
  intro s1 stack1 cur hinv1 g1 n1 ht1 e1
  refine afterValue_op (Fb + F1) op _ _ _ hinv1 g1 n1 ht1 (allWS_blankTok _) (allWS_blankTok _)
    (toksF_notWS b _ K) ?_
  intro s2 stack2 hinv2 g2 ht2 e2
  refine hb _ s2 P opn false stack2 _ _ K Q F1 wfb lb hinv2 g2 ht2 (allWS_blankTok _) hK ?_
  intro s3 stack3 cur3 hinv3 g3 n3 ht3 e3
  simp only [Bool.false_and] at hinv3 ⊢
  exact hcont s3 stack3 cur3 hinv3 g3 n3 ht3 ((e1.trans e2).trans e3)

theorem op_of_loop (e : FExpr) (hl : LoopSpecF e) : OpSpecF e := by
  obtain ⟨Fl, hl⟩ := hl
  refine ⟨Fl + 0 + 1, ?_⟩
  intro ws s W0 Wk K' hwf hlay hg ht hw0 hwk hend
  unfold operation
  refine tot_seq (checkpoint_exact hg) fun opn s1 ⟨ht1, hf1, _, g1, p1, e1⟩ => ?_
  refine hl ws s1 s.b.forest opn true [] [] W0 (Wk ++ K') _ 0 hwf hlay ?_ g1 (ht1.trans ht) hw0
    ⟨Wk, K', rfl, hwk, endKind_follow hend⟩ ?_
  · simp only [LoopInv, ↓reduceIte, true_and]
    exact ⟨hf1, p1⟩
  · intro s2 stack2 cur hinv2 g2 n2 ht2 e2
    refine tot_mono (afterValue_end 0 Wk K' hinv2 g2 n2 ht2 hwk hend)
      fun r s3 ⟨hr, ht3, g3, n3, e3, W, x', hf3, hW, hx'⟩ => ?_
    refine ⟨W, x', hr, ht3.trans ht2, hf3, hW, ?_, g3, n3, e1.trans (e2.trans e3)⟩
    have := shiftReduce_flat e hwf
    unfold shiftReduce at this
    rw [this] at hx'
    exact hx'

/-! ### Operands -/

theorem value_litF (l : Spec.Decimal.Literal) : ValueSpecF (.lit l) := by
  refine ⟨2, ?_⟩
  intro ws s W0 K _ hlay hg ht hw0 hK
  by_cases hp : l.percent = true
  · simp only [toksF, hp, ↓reduceIte, List.append_assoc, List.cons_append, List.nil_append] at ht
    refine tot_mono (value_pct 1 W0 _ (blankTok (blank1 ws)) ⟨.PERCENTAGE, ['%']⟩ K ht hw0
      (allWS_blankTok _) rfl hg)
      fun r s' ⟨cur, Wt, id, id', more, hr, ht', hf', hWt, hlen, hpos, g', n', e'⟩ => ?_
    exact ⟨cur, Wt, _, hr, ht', hf', hWt, .pct rfl rfl hp, hlen ▸ hpos, g', n', e'⟩
  · have hp' : l.percent = false := by simpa using hp
    simp only [toksF, hp', Bool.false_eq_true, ↓reduceIte, List.cons_append, List.nil_append] at ht
    refine tot_mono (value_num 0 W0 _ K ht hw0 hK hg)
      fun r s' ⟨cur, Wt, id, id', hr, ht', hf', hWt, hlen, hpos, g', n', e'⟩ => ?_
    refine ⟨cur, Wt, _, hr, ht', hf', hWt, .num rfl rfl hp' ?_, hlen ▸ hpos, g', n', e'⟩
    simp [Tree.text, Tree.textList]

theorem value_factF (first : List Char) (more : More) : ValueSpecF (.fact first more) := by
  refine ⟨more.length + 1 + 1, ?_⟩
  intro ws s W0 K _ _ hg ht hw0 hK
  simp only [toksF] at ht
  refine tot_mono (value_phrase (more.length + 1) W0 first more K ht hw0 hK hg (Nat.le_refl _))
    fun r s' ⟨cur, Wt, x, hr, ht', hf', hWt, hlen, hk, hc, htx, hpos, g', n', e'⟩ => ?_
  exact ⟨cur, Wt, x, hr, ht', hf', hWt, .fact hk hc htx, hlen ▸ hpos, g', n', e'⟩

theorem value_parenF (e : FExpr) (ho : OpSpecF e) : ValueSpecF (.paren e) := by
  obtain ⟨Fo, ho⟩ := ho
  refine ⟨Fo + 1, ?_⟩
  intro ws s W0 K hwf hlay hg ht hw0 _
  obtain ⟨hb1, le, hb2⟩ := hlay
  simp only [toksF, List.append_assoc, List.cons_append, List.nil_append] at ht
  unfold Grammar.value
  refine tot_nth_ws W0 _ ht ?_
  simp only [headKind]
  refine tot_seq (bumpN_ws W0 ht hw0 hg) fun _ s1 ⟨ht1, ⟨Wt, hf1, hWt, hlen⟩, g1, _, e1⟩ => ?_
  refine tot_seq (checkpoint_exact g1) fun c s2 ⟨ht2, hf2, _, g2, p2, e2⟩ => ?_
  refine tot_seq (bump_exact (ht2.trans ht1) g2) fun _ s3 ⟨ht3, ⟨ido, hf3⟩, g3, _, e3⟩ => ?_
  refine tot_countSkip_ws (blankTok (blank1 ws)) _ ht3 (allWS_blankTok _) (toksF_notWS e _ _) ?_
  refine tot_seq (ho (rest1 ws) s3 (blankTok (blank1 ws)) (blankTok (blank1 (afterF e (rest1 ws))))
    (⟨.CLOSE_PAREN, [')']⟩ :: K) hwf le g3 ht3 (allWS_blankTok _) (allWS_blankTok _)
    (Or.inl rfl)) fun r s4 ⟨Wt', x, hr, ht4, hf4, hWt', hx, g4, _, e4⟩ => ?_
  subst hr
  simp only
  refine tot_seq (eat_yes _ _ K .CLOSE_PAREN ht4 (allWS_blankTok _) rfl g4)
    fun b s5 ⟨hb, ht5, ⟨Fw, idc, hf5, hFw, _⟩, g5, n5, e5⟩ => ?_
  subst hb
  simp only [Bool.not_true, Bool.false_eq_true, ↓reduceIte]
  have hl1 : s1.b.forest.length = s.b.forest.length + Wt.length := by rw [hf1]; simp
  have hf3' : s3.b.forest = s.b.forest ++ Wt ++ [.tok ido .OPEN_PAREN ['(']] := by
    rw [hf3, hf2, hf1]
  have hf5' : s5.b.forest = (s.b.forest ++ Wt) ++
      (.tok ido .OPEN_PAREN ['('] :: (Wt' ++ [x] ++ Fw ++ [.tok idc .CLOSE_PAREN [')']])) := by
    rw [hf5, hf4, hf3']; simp
  have hle3 : s1.b.forest.length ≤ s3.b.forest.length := by rw [hf3', hl1]; simp
  have hle4 : s1.b.forest.length ≤ s4.b.forest.length := by rw [hf4]; simp; omega
  have e25 : Ext s1.b.forest.length s2.b s5.b :=
    ((hf2 ▸ e3 : Ext s1.b.forest.length s2.b s3.b).trans (e4.mono hle3)).trans (e5.mono hle4)
  have p5 : Pos s5.b c (s.b.forest.length + Wt.length) := hl1 ▸ e25.pos c _ (Nat.le_refl _) p2
  refine tot_seq (closeAt_wrap .OPERATION g5 n5 p5 (by rw [hf5']; simp))
    fun _ s6 ⟨ht6, ⟨id, hf6⟩, g6, n6, p6, e6⟩ => ?_
  refine tot_pure ⟨c, Wt, .node id .OPERATION (.tok ido .OPEN_PAREN ['('] ::
    (Wt' ++ [x] ++ Fw ++ [.tok idc .CLOSE_PAREN [')']])), rfl, ht6.trans ht5, ?_, hWt, ?_, p6, g6,
    n6, ?_⟩
  · rw [hf6, hf5']
    have hl : s.b.forest.length + Wt.length = (s.b.forest ++ Wt).length := by simp
    rw [hl, List.take_left' rfl, List.drop_left' rfl]
  · refine .paren ?_ hx
    rw [show (Tree.tok ido Syntax.OPEN_PAREN ['('] :: (Wt' ++ [x] ++ Fw ++ [Tree.tok idc Syntax.CLOSE_PAREN [')']]))
      = [Tree.tok ido Syntax.OPEN_PAREN ['(']] ++ Wt' ++ [x] ++ Fw ++ [Tree.tok idc Syntax.CLOSE_PAREN [')']] by simp]
    simp only [opKids_append, opKids_tok, opKids_ws hWt', opKids_ws hFw,
      opKids_single (hasChildren_of_repF hx), List.nil_append, List.append_nil]
  · have hle : s.b.forest.length ≤ s1.b.forest.length := by omega
    exact e1.trans (((e2.trans e25).trans (hl1 ▸ e6)).mono hle)

/-! ### All expressions -/

theorem loopSpecF : ∀ e : FExpr, LoopSpecF e
  | .lit l => loop_of_value _ (by simp [flat]) rfl (value_litF l)
  | .fact f m => loop_of_value _ (by simp [flat]) rfl (value_factF f m)
  | .bin op a b => loop_bin op a b (loopSpecF a) (loopSpecF b)
  | .paren e => loop_of_value _ (by simp [flat]) rfl (value_parenF e (op_of_loop e (loopSpecF e)))

theorem opSpecF (e : FExpr) : OpSpecF e := op_of_loop e (loopSpecF e)

end Anything.FQ
