import Anything.Lemmas.C9QRefuse
/-!
# C09 end to end — the shapes the property quantifies over

* `WrittenPow s pe k t`: the scale `s`, spelled as in `Written`, raised to the power `k`
  (`°C^2`, `1/°F`, …);
* `misused_pow`: a power other than one of `°C` / `°F` is a misuse (`OffsetMisused`);
* `misused_with`: an offset scale next to another unit is a misuse;
* the general refusal of a cast whose source is any expression (`evQ_cast_refused_general`).
-/

namespace Anything.C9Q
open Anything Anything.Eval Anything.Spec Anything.Spec.Arith Anything.Spec.Decimal
open Anything.Spec.Quantity Anything.Spec.SI Anything.C06 Anything.QQ Anything.Props.C09

/-! ### `resolve` does not look at the power -/

def pfxOf (p : List Char) : Option Int :=
  if p.isEmpty then some 0 else
    match lookupLit Generated.combined p with
    | some (.pfx p _) => some p
    | _ => none

def nameOf (n : List Char) : Option (UnitKey × Int) :=
  match lookupLit Generated.unitsOnly n with
  | some (.unit k bias) => some (k, bias)
  | _ => none

theorem resolve_eq (t : RTerm) : resolve t =
    match pfxOf t.pfxLit, nameOf t.nameLit with
    | some p, some (k, bias) => some { pfx := p + bias, key := k, power := t.power }
    | _, _ => none := rfl

theorem resolve_pow (p n : List Char) (k : Int) :
    resolve ⟨p, n, k⟩ = (resolve ⟨p, n, 1⟩).map (fun ut => { ut with power := k }) := by
  rw [resolve_eq, resolve_eq]
  simp only
  cases pfxOf p <;> cases nameOf n <;> rfl

/-! ### Powers of a scale -/

/-- The written factor `t` is the scale `s` (spelled as in `Written`, prefix exponent `pe`)
raised to the power `k`, an `i32`. -/
structure WrittenPow (s : TScale) (pe : Int) (k : Int) (t : RTerm) : Prop where
  base : Written s pe ⟨t.pfxLit, t.nameLit, 1⟩
  pow : t.power = k
  range : -2147483647 ≤ k ∧ k ≤ 2147483647

theorem writtenPow_resolve {s : TScale} {pe k : Int} {t : RTerm} (h : WrittenPow s pe k t) :
    resolve t = some ⟨pe, key s, k⟩ := by
  obtain ⟨p, n, k'⟩ := t
  obtain ⟨hb, hp, _⟩ := h
  simp only at hb hp
  subst hp
  rw [resolve_pow, (written_facts hb).1]
  rfl

theorem writtenPow_rs {s : TScale} {pe k : Int} {t : RTerm} (h : WrittenPow s pe k t) :
    rs t = ⟨pe, key s, k⟩ := rs_of_resolve (writtenPow_resolve h)

theorem writtenPow_wordOK {s : TScale} {pe k : Int} {t : RTerm} (h : WrittenPow s pe k t) :
    WordOK t :=
  ⟨⟨_, writtenPow_resolve h, (written_facts h.base).2.1⟩, by rw [h.pow]; exact h.range⟩

theorem coherent_single (x : UTerm) : Coherent [x] := by
  intro a ha b hb _
  rw [List.mem_singleton.mp ha, List.mem_singleton.mp hb]

theorem unitRead_pow {s : TScale} {pe k : Int} {t : RTerm} (h : WrittenPow s pe k t) :
    UnitRead [t] :=
  ⟨fun x hx => by rw [List.mem_singleton.mp hx]; exact writtenPow_wordOK h, coherent_single _⟩

theorem P_single (x : UTerm) : P [x] x.key = x.power := by simp [P]

theorem nonEmpty_pow {s : TScale} {pe k : Int} {t : RTerm} (h : WrittenPow s pe k t)
    (hk : k ≠ 0) : NonEmptyUnit ([t].map rs) := by
  refine ⟨key s, ?_⟩
  simp only [List.map_cons, List.map_nil, writtenPow_rs h]
  rw [show key s = (⟨pe, key s, k⟩ : UTerm).key from rfl, P_single]
  exact hk

theorem affine_CF : isAffine (key .C) = true ∧ isAffine (key .F) = true ∧
    isAffine (key .K) = false := by decide +kernel

theorem affine_of_ne_K {s : TScale} (h : s ≠ .K) : isAffine (key s) = true := by
  cases s
  · exact absurd rfl h
  · exact affine_CF.1
  · exact affine_CF.2.1

/-- `°C` / `°F` to a power other than one (squared, inverted, …): a misuse. -/
theorem misused_pow {s : TScale} {pe k : Int} {t : RTerm} (h : WrittenPow s pe k t)
    (hs : s ≠ .K) (hk0 : k ≠ 0) (hk1 : k ≠ 1) : OffsetMisused ([t].map rs) := by
  refine ⟨key s, affine_of_ne_K hs, ?_, Or.inl ?_⟩ <;>
  · simp only [List.map_cons, List.map_nil, writtenPow_rs h]
    rw [show key s = (⟨pe, key s, k⟩ : UTerm).key from rfl, P_single]
    assumption

/-- An offset scale next to another unit (both with a non-zero total power): a misuse. -/
theorem misused_with {sem : UnitSem} {k k' : UnitKey} (hk : isAffine k = true)
    (hP : P sem k ≠ 0) (hne : k' ≠ k) (hP' : P sem k' ≠ 0) : OffsetMisused sem :=
  ⟨k, hk, hP, Or.inr ⟨k', hne, hP'⟩⟩

/-- A `Written` scale is a `WrittenPow` with power one. -/
theorem writtenPow_of_written {s : TScale} {pe : Int} {t : RTerm} (h : Written s pe t) :
    WrittenPow s pe 1 t :=
  ⟨⟨h.pfx, h.name, rfl, h.typed⟩, h.pow, by decide⟩

/-! ### A cast of any expression -/

/-- `a to u₂` for any expression `a` whose reference value has a unit with a misused offset
scale, or whose target has one. -/
theorem evQ_cast_refused_general (cfg : Cfg) (a : QExpr) (r : Numeric) (u₂ : List RTerm)
    (ha : evQ cfg a = some r) (hr : r.unit ≠ []) (h₂ : UnitRead u₂)
    (n₂ : NonEmptyUnit (u₂.map rs)) (h : BadOffset r.unit ∨ OffsetMisused (u₂.map rs)) :
    evQ cfg (.cast a u₂) = none := by
  obtain ⟨T₂, hT₂⟩ := (unitRuns_of_read h₂).2
  simp only [evQ, ha, hT₂]
  apply castQ_refused T₂ _ (unitOf_ne_nil h₂ hT₂ n₂) hr
  rcases h with h | h
  · exact Or.inl h
  · exact Or.inr (badOffset_of_misused h₂ hT₂ h)

/-- `a ± b` for any expressions whose reference values carry units, one of them with a misused
offset scale. -/
theorem evQ_addsub_refused_general (cfg : Cfg) (op : BinOp) (hop : op = .add ∨ op = .sub)
    (a b : QExpr) (ra rb : Numeric) (ha : evQ cfg a = some ra) (hb : evQ cfg b = some rb)
    (na : ra.unit ≠ []) (nb : rb.unit ≠ []) (h : BadOffset ra.unit ∨ BadOffset rb.unit) :
    evQ cfg (.bin op a b) = none := by
  simp only [evQ, ha, hb]
  rcases hop with rfl | rfl <;> exact addQ_refused ra rb _ na nb h

/-- `a * b`, `a / b` for any expressions whose reference values carry units, one of them with an
offset scale. -/
theorem evQ_muldiv_refused_general (cfg : Cfg) (op : BinOp) (hop : op = .mul ∨ op = .div)
    (a b : QExpr) (ra rb : Numeric) (ha : evQ cfg a = some ra) (hb : evQ cfg b = some rb)
    (na : ra.unit ≠ []) (nb : rb.unit ≠ []) (h : HasOffset ra.unit ∨ HasOffset rb.unit) :
    evQ cfg (.bin op a b) = none := by
  simp only [evQ, ha, hb]
  rcases hop with rfl | rfl <;> exact mulDivQ_refused cfg ra rb _ na nb h

/-! ### Which error a refusal is -/

theorem castKind_mem {T : Compound} {r : Numeric} {k : ErrKind} (h : castKind T r = some k) :
    k = .illegalCast ∨ k = .conversionNotPossible := by
  unfold castKind at h
  cases hf : Compound.factor T r.unit r.value with
  | error c => rw [hf] at h; cases h; exact Or.inr rfl
  | ok o => cases o with
    | none => rw [hf] at h; cases h; exact Or.inl rfl
    | some v => rw [hf] at h; cases h

theorem addKind_mem {a b : Numeric} {k : ErrKind} (h : addKind a b = some k) :
    k = .illegalOperation ∨ k = .conversionNotPossible := by
  unfold addKind at h
  cases hf : Compound.factor a.unit b.unit b.value with
  | error c => rw [hf] at h; cases h; exact Or.inr rfl
  | ok o => cases o with
    | none => rw [hf] at h; cases h; exact Or.inl rfl
    | some v => rw [hf] at h; cases h

theorem mulDivKind_refused (cfg : Cfg) (a b : Numeric) (div : Bool) (ha : a.unit ≠ [])
    (hb : b.unit ≠ []) (h : HasOffset a.unit ∨ HasOffset b.unit) :
    mulDivKind cfg a b div = some .conversionNotPossible := by
  have : ∃ e, (e ∈ a.unit ∨ e ∈ b.unit) ∧ IsOffsetScale e.1 := by
    rcases h with ⟨e, he, ho⟩ | ⟨e, he, ho⟩
    · exact ⟨e, Or.inl he, ho⟩
    · exact ⟨e, Or.inr he, ho⟩
  obtain ⟨e, he, ho⟩ := this
  unfold mulDivKind
  rw [C09_mul_refused cfg.debug a.unit b.unit _ a.value b.value ha hb e he ho]

/-- The error kinds of `a to u` for an `a` that has a value. -/
theorem kinds_cast_of_some {cfg : Cfg} {a : QExpr} {r : Numeric} {u : List RTerm} {k : ErrKind}
    (ha : evQ cfg a = some r) (h : Kinds cfg (.cast a u) k) :
    k = .illegalCast ∨ k = .conversionNotPossible := by
  simp only [Kinds] at h
  rcases h with h | ⟨T, r', _, _, hk⟩
  · exact absurd h (kinds_of_some cfg a r k ha)
  · exact castKind_mem hk

/-- The error kinds of `a ± b` for `a`, `b` that have values. -/
theorem kinds_addsub_of_some {cfg : Cfg} {op : BinOp} (hop : op = .add ∨ op = .sub) {a b : QExpr}
    {ra rb : Numeric} {k : ErrKind} (ha : evQ cfg a = some ra) (hb : evQ cfg b = some rb)
    (h : Kinds cfg (.bin op a b) k) : k = .illegalOperation ∨ k = .conversionNotPossible := by
  simp only [Kinds] at h
  rcases h with h | h | ⟨ra', rb', _, _, hk⟩
  · exact absurd h (kinds_of_some cfg a ra k ha)
  · exact absurd h (kinds_of_some cfg b rb k hb)
  · rcases hop with rfl | rfl <;> exact addKind_mem hk

/-- The error kind of `a * b`, `a / b` for `a`, `b` that have values with units, one of them with
an offset scale. -/
theorem kinds_muldiv_of_some {cfg : Cfg} {op : BinOp} (hop : op = .mul ∨ op = .div) {a b : QExpr}
    {ra rb : Numeric} {k : ErrKind} (ha : evQ cfg a = some ra) (hb : evQ cfg b = some rb)
    (na : ra.unit ≠ []) (nb : rb.unit ≠ []) (ho : HasOffset ra.unit ∨ HasOffset rb.unit)
    (h : Kinds cfg (.bin op a b) k) : k = .conversionNotPossible := by
  simp only [Kinds] at h
  rcases h with h | h | ⟨ra', rb', ha', hb', hk⟩
  · exact absurd h (kinds_of_some cfg a ra k ha)
  · exact absurd h (kinds_of_some cfg b rb k hb)
  · rw [ha] at ha'; rw [hb] at hb'
    cases ha'; cases hb'
    rcases hop with rfl | rfl <;>
    · simp only [binKind, mulDivKind_refused cfg ra rb _ na nb ho, Option.some.injEq] at hk
      exact hk.symm

theorem evQ_qty_of_read (cfg : Cfg) (l : Literal) {u : List RTerm} (h : UnitRead u)
    (n : NonEmptyUnit (u.map rs)) :
    ∃ T, unitOf u = some T ∧ evQ cfg (.qty l u) = some { value := value l, unit := T } ∧ T ≠ [] := by
  obtain ⟨T, hT⟩ := (unitRuns_of_read h).2
  exact ⟨T, hT, evQ_qty cfg l hT, unitOf_ne_nil h hT n⟩

end Anything.C9Q
