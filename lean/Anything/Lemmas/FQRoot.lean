import Anything.Lemmas.FQParse
import Anything.Lemmas.C06Root
/-!
# Fact phrases end to end — the root rule and `parseRoot` on a rendered query
-/

namespace Anything.FQ
open Anything Anything.Parser Anything.Grammar Anything.PTotal Anything.Spec.Arith Anything.C06

/-- The shape of the parsed forest: blank leaves, one tree, blank leaves. -/
def ForestOKF (forest : List Tree) (e : FExpr) : Prop :=
  ∃ Wt x Wt', forest = Wt ++ [x] ++ Wt' ∧ WSTrees Wt ∧ WSTrees Wt' ∧ RepF x e

theorem headKind_toksF_start (e : FExpr) (ws : Layout) (K : List Token) :
    (headKind (toksF e ws ++ K) == Syntax.EOF) = false ∧
    (headKind (toksF e ws ++ K) == Syntax.OPEN_BRACE || headKind (toksF e ws ++ K) == Syntax.OPEN_PAREN
      || headKind (toksF e ws ++ K) == Syntax.WORD || headKind (toksF e ws ++ K) == Syntax.NUMBER) = true := by
  obtain ⟨t, r, h, hk⟩ := toksF_head e ws
  rw [h]
  simp only [List.cons_append, headKind]
  rcases hk with h | h | h <;> rw [h] <;> exact ⟨rfl, rfl⟩

theorem root_specF (e : FExpr) (ws : Layout) (hwf : WFF e) (hl : QueryLayoutOKF e ws) :
    ∃ F, Tot (root F) { toks := queryToksF e ws } (fun _ s' => ForestOKF s'.b.forest e) := by
  obtain ⟨Fo, ho⟩ := opSpecF e
  obtain ⟨hb0, hle, hb1⟩ := hl
  refine ⟨Fo + 2, ?_⟩
  have ht : ({ toks := queryToksF e ws } : PState).toks = blankTok (blank1 ws) ++
      (toksF e (rest1 ws) ++ (blankTok (blank1 (afterF e (rest1 ws))) ++ [])) := by
    simp [queryToksF]
  unfold root
  refine tot_countSkip_ws _ _ ht (allWS_blankTok _) (toksF_notWS e _ _) ?_
  refine tot_seq (checkpoint_exact (s := { toks := queryToksF e ws }) good_init)
    fun c s1 ⟨ht1, hf1, _, g1, _, _⟩ => ?_
  have hf1' : s1.b.forest = [] := hf1
  refine tot_seq (P := fun r s' => r = false ∧ ForestOKF s'.b.forest e) ?_ fun r s2 ⟨hr, hF⟩ => ?_
  · unfold rootLoop
    refine tot_nth_ws _ _ (ht1.trans ht) ?_
    obtain ⟨k1, k2⟩ := headKind_toksF_start e (rest1 ws) (blankTok (blank1 (afterF e (rest1 ws))) ++ [])
    simp only [k1, k2, Bool.false_eq_true, ↓reduceIte]
    refine tot_seq (tot_le (le_operation (Nat.le_succ Fo) _)
      (ho (rest1 ws) s1 _ _ [] hwf hle g1 (ht1.trans ht) (allWS_blankTok _) (allWS_blankTok _)
        (Or.inr (Or.inr rfl)))) fun r s2 ⟨Wt, x, hr, ht2, hf2, hWt, hx, g2, _, _⟩ => ?_
    subst hr
    simp only
    unfold rootLoop
    refine tot_nth_ws _ [] ht2 ?_
    simp only [headKind, beq_self_eq_true, ↓reduceIte]
    refine tot_seq (bumpN_ws _ ht2 (allWS_blankTok _) g2)
      fun _ s3 ⟨_, ⟨Wt', hf3, hWt', _⟩, _, _, _⟩ => ?_
    exact tot_pure ⟨rfl, Wt, x, Wt', by rw [hf3, hf2, hf1']; simp, hWt, hWt', hx⟩
  subst hr
  simp only [Bool.false_eq_true, ↓reduceIte]
  exact tot_pure hF

/-- **Parser correctness on rendered queries.** -/
theorem parse_renderF (e : FExpr) (ws : Layout) (hwf : WFF e) (hl : QueryLayoutOKF e ws) :
    ∃ forest, parseRoot (renderQuery e ws) = .ok forest ∧ ForestOKF forest e := by
  obtain ⟨F, _, s', hroot, hF⟩ := root_specF e ws hwf hl
  refine ⟨s'.b.forest, ?_, hF⟩
  unfold parseRoot parseRootToks
  rw [lex_queryF e ws hwf hl]
  have hmax : fuelFor (queryToksF e ws) ≤ max F (fuelFor (queryToksF e ws)) := Nat.le_max_right _ _
  have h1 := PFuel.root_fuel_irrelevant (queryToksF e ws) _ hmax
  have h2 := PFuel.le_root_of_le (Nat.le_max_left F (fuelFor (queryToksF e ws))) _ _ hroot
  rw [← h1, h2]

theorem repF_kind {x : Tree} {e : FExpr} (h : RepF x e) :
    (x.kind == Syntax.WHITESPACE) = false := by
  cases h with
  | num hk _ _ _ => rw [hk]; rfl
  | pct _ _ _ => rfl
  | @fact t f more hk _ _ => rw [hk]; split <;> rfl
  | paren _ _ => rfl
  | chain _ _ _ _ _ => rfl

/-- The single non-blank child of the parsed forest. -/
theorem forestOKF_filter {forest : List Tree} {e : FExpr} (h : ForestOKF forest e) :
    ∃ x, forest.filter (fun t => t.kind != .WHITESPACE) = [x] ∧ RepF x e := by
  obtain ⟨Wt, x, Wt', hf, hWt, hWt', hx⟩ := h
  have hws : ∀ W : List Tree, WSTrees W → W.filter (fun t => t.kind != .WHITESPACE) = [] := by
    intro W hW
    simp only [List.filter_eq_nil_iff]
    intro t ht
    obtain ⟨id, text, rfl⟩ := hW t ht
    simp [Tree.kind]
  refine ⟨x, ?_, hx⟩
  rw [hf, List.filter_append, List.filter_append, hws Wt hWt, hws Wt' hWt']
  have := repF_kind hx
  simp only [beq_eq_false_iff_ne, ne_eq] at this
  simp [this]

end Anything.FQ
