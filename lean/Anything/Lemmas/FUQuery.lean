import Anything.Lemmas.FULex
import Anything.Lemmas.FURoot
import Anything.Lemmas.FUEval
import Anything.Lemmas.FUSpec
/-!
# The full expression language — `Eval.query` on a rendered query

* `parse_renderF`: lexer and parser composed;
* `query_evalF`: **`Eval.query` on the text answers the reference evaluation `evalF`** — exactly
  one result, equal to the value of `evalF` up to the spans of errors, and the description log of
  `evalF` — for every well-formed expression, every admissible layout, every expression in the
  scope of the readers (`InScopeF`); no semantic side condition;
* `query_valF`: the same in terms of `valF` / `logF`;
* `query_spec`: composed with `valF_spec`, the result against the specification `denoteF`.
-/

namespace Anything.FU
open Anything Anything.Eval Anything.Spec Anything.Spec.Arith Anything.Spec.Decimal
open Anything.Spec.Quantity Anything.C06 Anything.QQ Anything.C9Q

/-- **Parser correctness on rendered queries.** -/
theorem parse_renderF (e : FExprU) (ws : Layout) (hwf : WFF e) (hl : QueryLayoutOKF e ws) :
    ∃ forest, Grammar.parseRoot (renderQuery e ws) = .ok forest ∧ ForestOKF forest e := by
  obtain ⟨forest, hp, hF⟩ := parseStatement e ws hwf hl
  refine ⟨forest, ?_, hF⟩
  unfold Grammar.parseRoot
  rw [lexQueryStatement e ws hwf hl, hp]

/-- **`Eval.query` on the rendering of an expression of the full language** (lexer, parser,
`eval::unit`, evaluator, builtins, lookups) answers the reference evaluation `evalF`. -/
theorem query_evalF (cfg : Cfg) (e : FExprU) (ws : Layout) (hwf : WFF e)
    (hl : QueryLayoutOKF e ws) (hs : InScopeF e) :
    ∃ r, Eval.query cfg (renderQuery e ws) = .ok ([r], (evalF cfg e []).2) ∧
      FQ.strip r = (evalF cfg e []).1 := by
  obtain ⟨forest, hparse, Wt, x, Wt', hf, hWt, hWt', hx⟩ := parse_renderF e ws hwf hl
  unfold Eval.query
  rw [hparse]
  simp only
  rw [hf, List.append_assoc]
  obtain ⟨off, h1⟩ := queryLoop_ws cfg Wt hWt ([x] ++ Wt') 0
  rw [h1]
  simp only [List.singleton_append, kidsAt, queryLoop, repF_kind hx, Bool.false_eq_true,
    ↓reduceIte]
  obtain ⟨off2, h2⟩ := queryLoop_ws cfg Wt' hWt' [] (off + x.len)
  have hev := evalStatement cfg x e off (2 * size x + 2) [] hx hs (by omega)
  rcases hr : eval cfg (2 * size x + 2) ⟨off, x⟩ [] with ⟨r, d'⟩
  rw [hr] at hev
  obtain ⟨hr1, hr2⟩ := hev
  simp only at hr1 hr2
  subst hr2
  have h2' := h2 (evalF cfg e []).2
  simp only [List.append_nil, kidsAt, queryLoop] at h2'
  refine ⟨r, ?_, hr1⟩
  simp only [h2']

/-- The literals and units in the scope of the specification theorem are in the scope of the
readers. -/
theorem inScope_of_unitsOK (cfg : Cfg) : ∀ e : FExprU, UnitsOKF cfg e → InScopeF e
  | .num _, h => h
  | .qty _ _, h => ⟨h.1.1, by
      rcases h.2 with hu | ⟨s, p, t, rfl, hw⟩
      · exact unitRuns_of_unitOK hu
      · exact unitRuns_written hw⟩
  | .bin _ a b, h => ⟨inScope_of_unitsOK cfg a h.1, inScope_of_unitsOK cfg b h.2.1⟩
  | .paren e, h => inScope_of_unitsOK cfg e h
  | .cast e _, h => ⟨inScope_of_unitsOK cfg e h.1, by
      rcases h.2 with hu | ⟨s, p, t, rfl, hw⟩
      · exact unitRuns_of_unitOK hu
      · exact unitRuns_written hw⟩
  | .fact _ _ _, _ => trivial
  | .call _ arg _, h => ⟨inScope_of_unitsOK cfg arg h.1, fun n hn => (h.2 n hn).1⟩

/-- `query_evalF` in terms of the value `valF` and the log `logF` of the reference evaluation. -/
theorem query_valF (cfg : Cfg) (e : FExprU) (ws : Layout) (hwf : WFF e)
    (hl : QueryLayoutOKF e ws) (hs : InScopeF e) :
    ∃ r, Eval.query cfg (renderQuery e ws) =
        .ok ([r], if cfg.describe then logF cfg e else []) ∧
      FQ.strip r = valF cfg e := by
  obtain ⟨r, h1, h2⟩ := query_evalF cfg e ws hwf hl hs
  rw [evalF_run] at h1 h2
  exact ⟨r, by simpa using h1, h2⟩

theorem strip_ok_inv {r : Except EvalErr Numeric} {x : Numeric} (h : FQ.strip r = .ok x) :
    r = .ok x := by
  cases r with
  | ok a => simpa [FQ.strip] using h
  | error z => simp [FQ.strip] at h

theorem strip_err_inv {r : Except EvalErr Numeric} {k : ErrKind} {s t : Nat}
    (h : FQ.strip r = .error (.err k s t)) : ∃ s' t', r = .error (.err k s' t') := by
  cases r with
  | ok a => simp [FQ.strip] at h
  | error z =>
    cases z with
    | err k' s' t' =>
      simp only [FQ.strip, FQ.stripErr, Except.error.injEq, EvalErr.err.injEq] at h
      exact ⟨s', t', by rw [h.1]⟩
    | panic m => simp [FQ.strip, FQ.stripErr] at h
    | unsupported m => simp [FQ.strip, FQ.stripErr] at h

/-- **`Eval.query` against the specification**: exactly one result `r` with `OutcomeF e r`, and the
log `logF` when describing. -/
theorem query_spec (cfg : Cfg) (e : FExprU) (ws : Layout) (hwf : WFF e)
    (hl : QueryLayoutOKF e ws) (hu : UnitsOKF cfg e) (hdet : DeterminateF e) :
    ∃ r, Eval.query cfg (renderQuery e ws) =
        .ok ([r], if cfg.describe then logF cfg e else []) ∧
      OutcomeF e r ∧ FQ.strip r = valF cfg e := by
  obtain ⟨r, h1, h2⟩ := query_valF cfg e ws hwf hl (inScope_of_unitsOK cfg e hu)
  refine ⟨r, h1, ?_, h2⟩
  have hspec := valF_spec cfg e hu hdet
  rw [← h2] at hspec
  unfold OutcomeF at hspec ⊢
  cases hd : denoteF e with
  | ok v =>
    rw [hd] at hspec
    simp only at hspec ⊢
    rcases hspec with ⟨x, hx, ha⟩ | ⟨hp, s, t, hx⟩
    · exact Or.inl ⟨x, strip_ok_inv hx, ha⟩
    · obtain ⟨s', t', hr⟩ := strip_err_inv hx
      exact Or.inr ⟨hp, s', t', hr⟩
  | error z =>
    rw [hd] at hspec
    simp only at hspec ⊢
    obtain ⟨k, s, t, hx⟩ := hspec
    obtain ⟨s', t', hr⟩ := strip_err_inv hx
    exact ⟨k, s', t', hr⟩

end Anything.FU
