import Anything.Lemmas.DisplayValue
import Anything.Props.C07
/-!
# Printed text fed to the tool's own number reader (helper file for `Props/C08Reader`)

A mark-free printed text is the rendering of a well-formed decimal literal, so
`C07_fromStr` applies to it.
-/

namespace Anything.Lemmas.C08Reader
open Anything Anything.Display Anything.Spec Anything.Spec.Printed Anything.Lemmas.Printed
open Anything.Spec.Decimal (digitsVal Literal Exponent Sign renderNumber renderSign renderExp
  renderFrac fracDigits value signFactor)
open Anything.Number (fromStr u32Max)

/-- The exponent of a printed text as an exponent of a literal. -/
def expOf (exp : Int) : Option Exponent :=
  if exp = 0 then none
  else some { upper := false, sign := if exp < 0 then some Sign.minus else none,
              digits := natDigits exp.natAbs }

/-- The literal a mark-free printed text spells. -/
def litOf (neg : Bool) (int frac : List Nat) (dot : Bool) (exp : Int) : Literal where
  sign := if neg then some Sign.minus else none
  int := int
  frac := if dot then some frac else none
  exp := expOf exp
  percent := false

theorem renderExp_expOf (exp : Int) : renderExp (expOf exp) = expPart exp := by
  unfold expOf expPart
  by_cases h0 : exp = 0
  · simp [h0, renderExp]
  · simp only [h0, ↓reduceIte, ne_eq, not_false_eq_true, renderExp, intStr, Bool.false_eq_true]
    by_cases hneg : exp < 0
    · simp only [hneg, ↓reduceIte, renderSign, natStr_eq_map]
      rfl
    · simp only [hneg, ↓reduceIte, renderSign, natStr_eq_map]
      rfl

theorem renderNumber_litOf (neg : Bool) (int frac : List Nat) (dot : Bool) (exp : Int) :
    renderNumber (litOf neg int frac dot exp) = render neg int frac dot false exp := by
  unfold renderNumber litOf render
  simp only [renderExp_expOf]
  have hdc : Decimal.digitChar = digitChar := rfl
  cases neg <;> cases dot <;> simp [renderSign, renderFrac, expPart, hdc]

theorem litOf_wf (neg : Bool) (int frac : List Nat) (dot : Bool) (exp : Int)
    (hne : int ≠ []) (hi : ∀ d ∈ int, d < 10) (hf : ∀ d ∈ frac, d < 10) :
    (litOf neg int frac dot exp).WF := by
  refine ⟨hi, ?_, Or.inl hne, ?_⟩
  · cases dot with
    | true => simpa [litOf, fracDigits] using hf
    | false => simp [litOf, fracDigits]
  · by_cases h0 : exp = 0
    · simp [litOf, expOf, h0]
    · simp only [litOf, expOf, h0, ↓reduceIte]
      exact ⟨natDigits_ne_nil _, natDigits_lt _⟩

theorem value_litOf (neg : Bool) (int frac : List Nat) (dot : Bool) (exp : Int)
    (hdot : dot = false → frac = []) :
    value { litOf neg int frac dot exp with percent := false } =
      (let rd : Read := { neg := neg, intDigits := int, fracDigits := frac, mark := false, exp := exp }
       if rd.neg then -rd.magnitude else rd.magnitude) := by
  have hfd : fracDigits (litOf neg int frac dot exp) = frac := by
    cases dot with
    | true => simp [litOf, fracDigits]
    | false => simp [litOf, fracDigits, hdot rfl]
  have h10 : (10 : Rat) ≠ 0 := by norm_num
  rw [Anything.Props.C07.value_eq, hfd]
  simp only [Read.magnitude, arith_zpow_eq]
  have hexp : Anything.Props.C07.applyExp
      ((digitsVal ((litOf neg int frac dot exp).int ++ frac) : Nat) / (10 : Rat) ^ frac.length)
      (litOf neg int frac dot exp).exp =
      ((digitsVal (int ++ frac) : Nat) : Rat) / (10 : Rat) ^ frac.length * (10 : Rat) ^ exp := by
    simp only [litOf, expOf]
    by_cases h0 : exp = 0
    · simp [h0, Anything.Props.C07.applyExp]
    · simp only [h0, ↓reduceIte]
      by_cases hneg : exp < 0
      · simp only [hneg, ↓reduceIte, Anything.Props.C07.applyExp, Exponent.val, natDigits_val]
        have : exp = -((exp.natAbs : Nat) : Int) := by omega
        conv_rhs => rw [this, zpow_neg, zpow_natCast]
        rw [div_eq_mul_inv]
      · simp only [hneg, ↓reduceIte, Anything.Props.C07.applyExp, Exponent.val, natDigits_val]
        have : exp = ((exp.natAbs : Nat) : Int) := by omega
        conv_rhs => rw [this, zpow_natCast]
  rw [hexp]
  cases neg <;> simp [litOf, signFactor]

/-- The tool's reader on a mark-free printed text: it returns the signed value of
the specification's reading, provided the two `u32` counters of the reader fit. -/
theorem fromStr_render (neg : Bool) (int frac : List Nat) (dot : Bool) (exp : Int)
    (hne : int ≠ []) (hi : ∀ d ∈ int, d < 10) (hf : ∀ d ∈ frac, d < 10)
    (hdot : dot = false → frac = [])
    (hfl : frac.length ≤ u32Max) (hel : exp.natAbs ≤ u32Max) :
    fromStr (render neg int frac dot false exp) =
      some (let rd : Read := { neg := neg, intDigits := int, fracDigits := frac, mark := false, exp := exp }
            if rd.neg then -rd.magnitude else rd.magnitude) := by
  rw [← renderNumber_litOf, ← value_litOf neg int frac dot exp hdot]
  apply Anything.Props.C07.C07_fromStr _ (litOf_wf neg int frac dot exp hne hi hf)
  · cases dot <;> simp [litOf, fracDigits]
    exact hfl
  · intro e he
    simp only [litOf, expOf] at he
    split at he
    · cases he
    · simp only [Option.some.injEq] at he
      subst he
      simpa [Exponent.val, natDigits_val] using hel

/-- A good mark-free text: the two readers agree. -/
theorem fromStr_good (N den : Nat) (neg : Bool) (text : List Char) (h : Good N den neg text)
    (hno : '…' ∉ text)
    (hfit : ∀ rd, readBack text = some rd → rd.fracDigits.length ≤ u32Max ∧ rd.exp.natAbs ≤ u32Max) :
    ∃ rd, readBack text = some rd ∧
      fromStr text = some (if rd.neg then -rd.magnitude else rd.magnitude) := by
  obtain ⟨int, frac, dot, mark, exp, htext, hne, hi, hf, hdot, _⟩ := h
  have hm : mark = false := by
    cases hmk : mark with
    | false => rfl
    | true =>
      exfalso; apply hno; rw [htext]
      exact (mark_mem_render neg int frac dot mark exp hi hf).mpr hmk
  subst hm
  have hrb := readBack_render neg int frac dot false exp hne hi hf hdot
  rw [← htext] at hrb
  obtain ⟨h1, h2⟩ := hfit _ hrb
  refine ⟨_, hrb, ?_⟩
  rw [htext]
  exact fromStr_render neg int frac dot exp hne hi hf hdot h1 h2

end Anything.Lemmas.C08Reader
