import Anything.Lemmas.UQFrames
import Anything.Lemmas.UQOperands
import Anything.Lemmas.FQParse
/-!
# The unified expression language — the grammar on the token list of a rendered expression

`Lemmas/QQParse.lean` over `RepU` (phrases allowed, the first operand of every chain is not an
operator application of the chain's priority), with `Grammar.value` on a phrase
(`FQ.value_phrase`, here with the follow set that contains `to`).
-/

namespace Anything.UQ
open Anything Anything.Parser Anything.Grammar Anything.PTotal Anything.Spec.Arith
open Anything.Spec.Quantity Anything.C06 Anything.QQ

theorem qprio_mk {o : QOp} {acc : QExpr} {b : QOpd} (hm : Match o b) :
    qprio (mk o acc b) = o.prio := by
  cases o <;> cases b <;> first | rfl | exact absurd hm (by simp [Match])

/-- The result of `reduce`, described against the specification-level `reduceQ`. -/
def ReduceOutU (P : List Tree) (ecur : QOpd) (op : QOp) (st : StackQ)
    (stack' : List (Nat × Nat × Bool)) (b' : Builder) : Prop :=
  ∃ G1 Y v st1 c1 stack1, reduceQ ecur op st = (v, op) :: st1 ∧
    stack' = (c1, op.prio, op.isTo) :: stack1 ∧ b'.forest = P ++ G1 ++ Y ∧
    StackOKU b' P.length G1 stack1 st1 ∧ OpenSegU op.prio Y v ∧ Pos b' c1 (P.length + G1.length)

theorem reduce_simU (cur : Nat) (op : QOp) (P : List Tree) :
    ∀ (stack : List (Nat × Nat × Bool)) (st : StackQ) (G : List Tree) (x : Tree) (ecur : QOpd)
      {s : PState}, StackOKU s.b P.length G stack st → st ≠ [] → s.b.forest = P ++ G ++ [x] →
      RepOpdU x ecur → WTq st ecur → OpFits ecur op → (∀ e, ecur = .ex e → op.prio < qprio e) →
      C06.Good s.b → NoNext s.b →
      (topPrioQ st < op.prio → Pos s.b cur (P.length + G.length)) →
      Tot (reduce cur op.prio op.isTo stack) s (fun stack' s' =>
        s'.toks = s.toks ∧ C06.Good s'.b ∧ NoNext s'.b ∧ Ext P.length s.b s'.b ∧
        ReduceOutU P ecur op st stack' s'.b) := by
  intro stack
  induction stack with
  | nil =>
    intro st G x ecur s hso hne
    cases hso
    exact absurd rfl hne
  | cons f rest ih =>
    intro st G x ecur s hso _ hf hx hwt hfit hpe hg hn hcur
    cases hso with
    | @cons G' S c acc o _ st' hso' hseg hpos =>
    have hm := wt_match hwt
    unfold reduce
    by_cases h1 : op.prio < o.prio
    · -- close the frame
      simp only [h1, ↓reduceIte]
      have hf' : s.b.forest = P ++ G' ++ (S ++ [x]) := by rw [hf]; simp
      obtain ⟨htk, hdr⟩ := take_drop_at P G' (S ++ [x])
      refine tot_seq (closeAt_wrap .OPERATION hg hn hpos (by rw [hf']; simp))
        fun _ s1 ⟨ht1, ⟨id, hf1⟩, g1, n1, p1, e1⟩ => ?_
      rw [hf', htk, hdr] at hf1
      have hN := segOKU_close id hseg hx hm
      have hso1 : StackOKU s1.b P.length G' rest st' := hso'.mono e1
      have hle : P.length ≤ P.length + G'.length := Nat.le_add_right _ _
      have hOpen : OpenSegU op.prio [Tree.node id .OPERATION (S ++ [x])] (mk o acc ecur) :=
        openSegU_single (W := []) op.prio wsTrees_nil hN (by rw [qprio_mk hm]; omega)
      have hro : ∀ stack' b', ReduceOutU P (.ex (mk o acc ecur)) op st' stack' b' →
          ReduceOutU P ecur op ((acc, o) :: st') stack' b' := by
        intro stack' b' hr
        unfold ReduceOutU at hr ⊢
        rw [reduceQ_lt h1]; exact hr
      cases hso' with
      | nil =>
        exact tot_pure ⟨ht1, g1, n1, e1.mono hle, hro _ _
          ⟨[], _, _, [], c, [], rfl, rfl, hf1, .nil, hOpen, p1⟩⟩
      | @cons G'' S2 c2 acc2 o2 rest2 st'' hso'' hseg2 hpos2 =>
        simp only
        by_cases h3 : o2.prio ≥ op.prio
        · simp only [h3, ↓reduceIte]
          refine tot_mono (ih ((acc2, o2) :: st'') (G'' ++ S2) _ (.ex (mk o acc ecur)) hso1 (by simp)
            hf1 hN (wt_close hwt) (fun u hu => nomatch hu)
            (fun e he => by cases he; rw [qprio_mk hm]; exact h1) g1 n1
            (fun hlt => by simp only [topPrioQ] at hlt; omega))
            fun stack' s2 ⟨ht2, g2, n2, e2, hout⟩ => ?_
          exact ⟨ht2.trans ht1, g2, n2, (e1.mono hle).trans e2, hro _ _ hout⟩
        · simp only [h3, ↓reduceIte]
          refine tot_pure ⟨ht1, g1, n1, e1.mono hle, hro _ _ ⟨G'' ++ S2, _, _, _, c, _, ?_, rfl, hf1,
            hso1, hOpen, p1⟩⟩
          exact reduceQ_push _ op _ (by simp only [topPrioQ]; omega)
    · simp only [h1, ↓reduceIte]
      by_cases h2 : op.prio > o.prio
      · -- push a new frame
        simp only [h2, ↓reduceIte]
        have hex : ∃ e, ecur = .ex e := by
          cases ecur with
          | ex e => exact ⟨e, rfl⟩
          | un u =>
            have := hfit u rfl
            subst this
            have := qop_prio_pos o
            simp only [QOp.prio_cast] at h2
            omega
        obtain ⟨e, rfl⟩ := hex
        refine tot_pure ⟨rfl, hg, hn, Ext.refl (by rw [hf]; simp), G' ++ S, [x], e, _, cur, _,
          ?_, rfl, hf, .cons hso' hseg hpos,
          openSegU_single (W := []) op.prio wsTrees_nil hx (by have := hpe e rfl; omega),
          hcur (by simpa [topPrioQ] using h2)⟩
        exact reduceQ_push _ op _ (by simpa [topPrioQ] using h2)
      · -- same priority: the frame absorbs the operand
        simp only [h2, ↓reduceIte]
        have heq : o.prio = op.prio := by omega
        refine tot_pure ⟨rfl, hg, hn, Ext.refl (by rw [hf]; simp), G', S ++ [x], _, st', c, rest,
          reduceQ_eq h1 (by omega), by rw [heq, isTo_eq_of_prio heq], by rw [hf]; simp, hso',
          heq ▸ segOKU_extend hseg hx hm, hpos⟩

/-! ### `closeAll` simulates `closeAllQ` -/

theorem closeAll_simU (P : List Tree) :
    ∀ (stack : List (Nat × Nat × Bool)) (st : StackQ) (G : List Tree) (x : Tree) (ecur : QOpd)
      {s : PState}, StackOKU s.b P.length G stack st → s.b.forest = P ++ G ++ [x] →
      RepOpdU x ecur → WTq st ecur → C06.Good s.b → NoNext s.b →
      Tot (closeAll stack) s (fun _ s' =>
        s'.toks = s.toks ∧ C06.Good s'.b ∧ NoNext s'.b ∧ Ext P.length s.b s'.b ∧
        ∃ x', s'.b.forest = P ++ [x'] ∧ RepOpdU x' (closeAllQ ecur st)) := by
  intro stack
  induction stack with
  | nil =>
    intro st G x ecur s hso hf hx _ hg hn
    cases hso
    exact tot_pure ⟨rfl, hg, hn, Ext.refl (by rw [hf]; simp), x, by simpa using hf, hx⟩
  | cons f rest ih =>
    intro st G x ecur s hso hf hx hwt hg hn
    cases hso with
    | @cons G' S c acc o _ st' hso' hseg hpos =>
    unfold closeAll
    have hf' : s.b.forest = P ++ G' ++ (S ++ [x]) := by rw [hf]; simp
    obtain ⟨htk, hdr⟩ := take_drop_at P G' (S ++ [x])
    refine tot_seq (closeAt_wrap .OPERATION hg hn hpos (by rw [hf']; simp))
      fun _ s1 ⟨ht1, ⟨id, hf1⟩, g1, n1, p1, e1⟩ => ?_
    rw [hf', htk, hdr] at hf1
    have hN := segOKU_close id hseg hx (wt_match hwt)
    have hle : P.length ≤ P.length + G'.length := Nat.le_add_right _ _
    refine tot_mono (ih st' G' _ (.ex (mk o acc ecur)) (hso'.mono e1) hf1 hN (wt_close hwt) g1 n1)
      fun _ s2 ⟨ht2, g2, n2, e2, hout⟩ => ?_
    exact ⟨ht2.trans ht1, g2, n2, (e1.mono hle).trans e2, hout⟩

/-! ### Loop invariants -/

/-- The builder at the head of an `opLoop` iteration: nothing built yet (`first`), or the part
`G` of the forest beyond the prefix `P` matches the stack. -/
def LoopInvU (b : Builder) (P : List Tree) (opn : Nat) (first : Bool)
    (stack : List (Nat × Nat × Bool)) (st : StackQ) : Prop :=
  if first then stack = [] ∧ st = [] ∧ b.forest = P ∧ Pos b opn P.length
  else ∃ G, b.forest = P ++ G ∧ StackOKU b P.length G stack st ∧ st ≠ []

/-- The builder after the operand `x` (representing `ecur`, checkpoint `cur`) has been parsed. -/
def AfterInvU (b : Builder) (P : List Tree) (opn : Nat) (first : Bool)
    (stack : List (Nat × Nat × Bool)) (st : StackQ) (cur : Nat) (ecur : QOpd) : Prop :=
  AtomOpd ecur ∧
  if first then stack = [] ∧ st = [] ∧ ∃ W x, b.forest = P ++ W ++ [x] ∧ WSTrees W ∧
      RepOpdU x ecur ∧ Pos b opn P.length ∧ Pos b cur (P.length + W.length)
  else ∃ G x, b.forest = P ++ G ++ [x] ∧ StackOKU b P.length G stack st ∧ st ≠ [] ∧
      RepOpdU x ecur ∧ Pos b cur (P.length + G.length)

/-- One iteration's tail when an operator follows. -/
theorem afterValue_opU {s : PState} {P : List Tree} {opn : Nat} {first : Bool}
    {stack : List (Nat × Nat × Bool)} {st : StackQ} {cur : Nat} {ecur : QOpd} (F : Nat)
    (op : QOp) (Wk W2 K2 : List Token) {Q : Option Nat → PState → Prop}
    (hinv : AfterInvU s.b P opn first stack st cur ecur) (hwt : WTq st ecur)
    (hfit : OpFits ecur op) (hg : C06.Good s.b) (hn : NoNext s.b)
    (ht : s.toks = Wk ++ qopTok op :: (W2 ++ K2)) (hwk : AllWS Wk) (hw2 : AllWS W2)
    (hk2 : NotWSHead K2)
    (hcont : ∀ s2 stack2, LoopInvU s2.b P opn false stack2 (reduceQ ecur op st) → C06.Good s2.b →
      s2.toks = W2 ++ K2 → Ext P.length s.b s2.b → Tot (opLoop F opn stack2 false W2.length) s2 Q) :
    Tot (afterValue F opn stack first cur) s Q := by
  have hnw : NotWSHead (qopTok op :: (W2 ++ K2)) := by
    intro t r htr; cases htr; exact qopTok_notWS op
  unfold afterValue
  refine tot_countSkip_ws Wk _ ht hwk hnw ?_
  refine tot_nth_ws Wk _ ht ?_
  simp only [headKind, opInfo_qopTok]
  -- common tail: the blank and the operator node are appended, then the loop goes on
  have tail : ∀ (s1 : PState) (stack1 : List (Nat × Nat × Bool)) (G1 Y : List Tree) (v : QExpr)
      (st1 : StackQ) (c1 : Nat) (stackr : List (Nat × Nat × Bool)),
      s1.toks = s.toks → C06.Good s1.b → Ext P.length s.b s1.b →
      reduceQ ecur op st = (v, op) :: st1 → stack1 = (c1, op.prio, op.isTo) :: stackr →
      s1.b.forest = P ++ G1 ++ Y → StackOKU s1.b P.length G1 stackr st1 → OpenSegU op.prio Y v →
      Pos s1.b c1 (P.length + G1.length) →
      Tot (do bumpN Wk.length; bumpNode (qopKind op); let skip ← countSkip
              opLoop F opn stack1 false skip) s1 Q := by
    intro s1 stack1 G1 Y v st1 c1 stackr ht1 g1 e1 hra hst1 hf1 hso1 hopen hp1
    refine tot_seq (bumpN_ws Wk (ht1.trans ht) hwk g1)
      fun _ s2 ⟨ht2, ⟨Wt, hf2, hWt, _⟩, g2, _, e2⟩ => ?_
    refine tot_seq (bumpNode_exact (qopKind op) ht2 g2)
      fun _ s3 ⟨ht3, ⟨id, id', hf3⟩, g3, n3, e3⟩ => ?_
    refine tot_countSkip_ws W2 K2 ht3 hw2 hk2 ?_
    have hle1 : P.length + G1.length ≤ s1.b.forest.length := by rw [hf1]; simp
    have e13 : Ext s1.b.forest.length s1.b s3.b := e2.trans (e3.mono (by rw [hf2]; simp))
    refine hcont s3 stack1 ?_ g3 ht3 (e1.trans (e13.mono (by rw [hf1]; simp)))
    simp only [LoopInvU, Bool.false_eq_true, ↓reduceIte]
    refine ⟨G1 ++ (Y ++ Wt ++ [.node id (qopKind op) [.tok id' (qopTok op).kind (qopTok op).text]]), ?_,
      ?_, by rw [hra]; simp⟩
    · rw [hf3, hf2, hf1]; simp
    · rw [hra, hst1]
      exact .cons (hso1.mono (e13.mono hle1)) (openSegU_op hopen hWt rfl rfl)
        (e13.pos c1 _ hle1 hp1)
  obtain ⟨hat, hinv⟩ := hinv
  have hpe : ∀ e, ecur = .ex e → op.prio < qprio e := by
    intro e he
    subst he
    have h100 : qprio e = 100 := hat
    have := qop_prio_lt_100 op
    omega
  cases first with
  | true =>
    simp only [↓reduceIte] at hinv
    obtain ⟨rfl, rfl, W, x, hf, hW, hx, hpo, hpc⟩ := hinv
    simp only [↓reduceIte, reduce_firstQ]
    have hex : ∃ e, ecur = .ex e := by
      cases ecur with
      | ex e => exact ⟨e, rfl⟩
      | un u => obtain ⟨acc, h⟩ := hwt; cases h
    obtain ⟨e, rfl⟩ := hex
    refine tot_seq (tot_pure (Q := fun r s' => r = [(opn, op.prio, op.isTo)] ∧ s' = s) ⟨rfl, rfl⟩)
      fun stack1 s1 ⟨hs1, hs⟩ => ?_
    subst hs
    exact tail s1 stack1 [] (W ++ [x]) e [] opn [] rfl hg (Ext.refl (by rw [hf]; simp)) rfl hs1
      (by rw [hf]; simp) .nil
      (openSegU_single op.prio hW hx (by have := hpe e rfl; omega)) (by simpa using hpo)
  | false =>
    simp only [Bool.false_eq_true, ↓reduceIte] at hinv
    obtain ⟨G, x, hf, hso, hne, hx, hpc⟩ := hinv
    simp only [Bool.false_eq_true, ↓reduceIte]
    refine tot_seq (reduce_simU cur op P stack st G x ecur hso hne hf hx hwt hfit hpe hg hn
      (fun _ => hpc))
      fun stack1 s1 ⟨ht1, g1, _, e1, G1, Y, v, st1, c1, stackr, hra, hst1, hf1, hso1, hopen, hp1⟩ => ?_
    exact tail s1 stack1 G1 Y v st1 c1 stackr ht1 g1 e1 hra hst1 hf1 hso1 hopen hp1

/-- One iteration's tail when no operator follows: all frames are closed. -/
theorem afterValue_endU {s : PState} {P : List Tree} {opn : Nat} {first : Bool}
    {stack : List (Nat × Nat × Bool)} {st : StackQ} {cur : Nat} {ecur : QOpd} (F : Nat)
    (Wk K' : List Token)
    (hinv : AfterInvU s.b P opn first stack st cur ecur) (hwt : WTq st ecur) (hg : C06.Good s.b)
    (hn : NoNext s.b)
    (ht : s.toks = Wk ++ K') (hwk : AllWS Wk) (hk : EndKindC (headKind K')) :
    Tot (afterValue F opn stack first cur) s (fun r s' => r = some Wk.length ∧ s'.toks = s.toks ∧
      C06.Good s'.b ∧ NoNext s'.b ∧ Ext P.length s.b s'.b ∧
      ∃ W x', s'.b.forest = P ++ W ++ [x'] ∧ WSTrees W ∧ RepOpdU x' (closeAllQ ecur st)) := by
  unfold afterValue
  refine tot_countSkip_ws Wk _ ht hwk (followKindC_notWS (endKindC_follow hk)) ?_
  refine tot_nth_ws Wk _ ht ?_
  have : opInfo (headKind K') = none := by
    rcases hk with h | h | h <;> rw [h] <;> rfl
  simp only [this]
  obtain ⟨_, hinv⟩ := hinv
  cases first with
  | true =>
    simp only [↓reduceIte] at hinv
    obtain ⟨rfl, rfl, W, x, hf, hW, hx, _, _⟩ := hinv
    simp only [closeAll]
    refine tot_seq (tot_pure (Q := fun _ s' => s' = s) rfl) fun _ s1 hs => ?_
    subst hs
    exact tot_pure ⟨rfl, rfl, hg, hn, Ext.refl (by rw [hf]; simp), W, x, hf, hW, hx⟩
  | false =>
    simp only [Bool.false_eq_true, ↓reduceIte] at hinv
    obtain ⟨G, x, hf, hso, _, hx, _⟩ := hinv
    refine tot_seq (closeAll_simU P stack st G x ecur hso hf hx hwt hg hn)
      fun _ s1 ⟨ht1, g1, n1, e1, x', hf1, hx'⟩ => ?_
    exact tot_pure ⟨rfl, ht1, g1, n1, e1, [], x', by simpa using hf1, wsTrees_nil, hx'⟩

/-! ### Specifications of `opLoop` and `operation` on a rendered expression -/

/-- `opLoop` across the tokens of `e` (continuation-passing): the loop arrives after the last
operand of `e` in the state the specification-level machine reaches by `runQ st (flatQ e)`. -/
def LoopSpecU (e : QExpr) : Prop :=
  ∃ Fe, ∀ (ws : Layout) (s : PState) (P : List Tree) (opn : Nat) (first : Bool)
    (stack : List (Nat × Nat × Bool)) (st : StackQ) (W0 K : List Token)
    (Q : Option Nat → PState → Prop) (F1 : Nat),
    WFS e → LayoutOKU e ws → LoopInvU s.b P opn first stack st → NoTo st → C06.Good s.b →
    s.toks = W0 ++ (toksU e ws ++ K) → AllWS W0 → FollowsC e K →
    (∀ s1 stack1 cur,
      AfterInvU s1.b P opn (first && (flatQ e).2.isEmpty) stack1 (runQ st (flatQ e).1 (flatQ e).2).1
        cur (runQ st (flatQ e).1 (flatQ e).2).2 →
      C06.Good s1.b → NoNext s1.b → s1.toks = K → Ext P.length s.b s1.b →
      Tot (afterValue F1 opn stack1 (first && (flatQ e).2.isEmpty) cur) s1 Q) →
    Tot (opLoop (Fe + F1) opn stack first W0.length) s Q

/-- `operation` on the whole expression `e` followed by `)` or the end of the input. -/
def OpSpecU (e : QExpr) : Prop :=
  ∃ Fe, ∀ (ws : Layout) (s : PState) (W0 Wk K' : List Token), WFS e → LayoutOKU e ws →
    C06.Good s.b →
    s.toks = W0 ++ (toksU e ws ++ (Wk ++ K')) → AllWS W0 → AllWS Wk → EndKindC (headKind K') →
    Tot (operation Fe W0.length) s (fun r s' => ∃ Wt x, r = some Wk.length ∧ s'.toks = Wk ++ K' ∧
      s'.b.forest = s.b.forest ++ Wt ++ [x] ∧ WSTrees Wt ∧ RepU x e ∧
      C06.Good s'.b ∧ NoNext s'.b ∧ Ext s.b.forest.length s.b s'.b)

theorem loopInvU_isUnit {b : Builder} {P : List Tree} {opn : Nat} {first : Bool}
    {stack : List (Nat × Nat × Bool)} {st : StackQ} (h : LoopInvU b P opn first stack st)
    (hnt : NoTo st) : isUnitTop stack = false := by
  cases first with
  | true =>
    simp only [LoopInvU, ↓reduceIte] at h
    rw [h.1]; rfl
  | false =>
    simp only [LoopInvU, Bool.false_eq_true, ↓reduceIte] at h
    obtain ⟨G, _, hso, _⟩ := h
    rw [hso.isUnitTop, isToTop_noTo hnt]

/-- An operand that is a single `value` is read by one loop iteration. -/
theorem loop_of_valueU (e : QExpr) (hflat : flatQ e = (.ex e, [])) (hat : qprio e = 100)
    (hv : ValueSpecU e) : LoopSpecU e := by
  obtain ⟨Fv, hv⟩ := hv
  refine ⟨Fv + 1, ?_⟩
  intro ws s P opn first stack st W0 K Q F1 hwf hlay hinv hnt hg ht hw0 hK hcont
  have hF : Fv + 1 + F1 = (Fv + F1) + 1 := by omega
  rw [hF, opLoop_unfold _ _ _ _ _ (loopInvU_isUnit hinv hnt)]
  refine tot_seq (tot_le (le_value (Nat.le_add_right Fv F1) _) (hv ws s W0 K hwf hlay hg ht hw0 hK))
    fun r s1 ⟨cur, Wt, x, hr, ht1, hf1, hWt, hx, hp1, g1, n1, e1⟩ => ?_
  subst hr
  simp only
  refine tot_le (le_afterValue (Nat.le_add_left F1 Fv) _ _ _ _) ?_
  simp only [hflat, List.isEmpty_nil, Bool.and_true, runQ] at hcont
  cases first with
  | true =>
    simp only [LoopInvU, ↓reduceIte] at hinv
    obtain ⟨rfl, rfl, hf, hpo⟩ := hinv
    have hlen : s.b.forest.length = P.length := by rw [hf]
    refine hcont s1 [] cur ⟨hat, ?_⟩ g1 n1 ht1 (hlen ▸ e1)
    simp only [↓reduceIte, true_and]
    exact ⟨Wt, x, hf ▸ hf1, hWt, hx, e1.pos opn _ (by rw [hlen]) hpo, hlen ▸ hp1⟩
  | false =>
    simp only [LoopInvU, Bool.false_eq_true, ↓reduceIte] at hinv
    obtain ⟨G, hf, hso, hne⟩ := hinv
    have hlen : s.b.forest.length = P.length + G.length := by rw [hf]; simp
    refine hcont s1 stack cur ⟨hat, ?_⟩ g1 n1 ht1 (e1.mono (by omega))
    simp only [Bool.false_eq_true, ↓reduceIte]
    refine ⟨G ++ Wt, x, by rw [hf1, hf]; simp, (hso.mono (hlen ▸ e1)).ws hne hWt, hne, hx, ?_⟩
    rw [hlen] at hp1
    simpa [Nat.add_assoc] using hp1

/-! ### Heads of token lists -/

/-- The token list of a well-formed expression starts with a NUMBER, WORD or OPEN_PAREN token. -/
theorem toksU_head : ∀ (e : QExpr) (ws : Layout), WFS e → ∃ t r, toksU e ws = t :: r ∧
    (t.kind = .NUMBER ∨ t.kind = .WORD ∨ t.kind = .OPEN_PAREN)
  | .num l, ws, _ => ⟨_, _, rfl, Or.inl rfl⟩
  | .qty l u, ws, _ => by
    simp only [toksU, List.cons_append, List.nil_append]
    exact ⟨_, _, rfl, Or.inl rfl⟩
  | .bin op a b, ws, hwf => by
    simp only [WFS] at hwf
    obtain ⟨t, r, h, hk⟩ := toksU_head a ws hwf.1
    simp only [toksU, h]
    exact ⟨t, _, rfl, hk⟩
  | .paren e, ws, _ => by
    simp only [toksU]
    exact ⟨_, _, rfl, Or.inr (Or.inr rfl)⟩
  | .cast a u, ws, hwf => by
    simp only [WFS] at hwf
    obtain ⟨t, r, h, hk⟩ := toksU_head a ws hwf
    simp only [toksU, h]
    exact ⟨t, _, rfl, hk⟩
  | .fact _ _ _, _, _ => ⟨_, _, rfl, Or.inr (Or.inl rfl)⟩

theorem toksU_notWS (e : QExpr) (ws : Layout) (K : List Token) (hwf : WFS e) :
    NotWSHead (toksU e ws ++ K) := by
  obtain ⟨t, r, h, hk⟩ := toksU_head e ws hwf
  intro t' r' heq
  rw [h] at heq
  cases heq
  rcases hk with h | h | h <;> rw [h] <;> simp

/-! ### Binary operators -/

/-- A binary expression: the loop reads `a`, the operator, then `b`. -/
theorem loop_binU (op : BinOp) (a b : QExpr) (ha : LoopSpecU a) (hb : LoopSpecU b) :
    LoopSpecU (.bin op a b) := by
  obtain ⟨Fa, ha⟩ := ha
  obtain ⟨Fb, hb⟩ := hb
  refine ⟨Fa + Fb, ?_⟩
  intro ws s P opn first stack st W0 K Q F1 hwf hlay hinv hnt hg ht hw0 hK hcont
  simp only [WFS] at hwf
  obtain ⟨wfa, wfb, hpa, _⟩ := hwf
  obtain ⟨la, hb1, hb2, lb, _, hsep⟩ := hlay
  have hF : Fa + Fb + F1 = Fa + (Fb + F1) := by omega
  rw [hF]
  have hrun : runQ st (flatQ (.bin op a b)).1 (flatQ (.bin op a b)).2 =
      runQ (reduceQ (runQ st (flatQ a).1 (flatQ a).2).2 (.bin op) (runQ st (flatQ a).1 (flatQ a).2).1)
        (flatQ b).1 (flatQ b).2 := by
    simp only [flatQ, runQ_append, runQ]
  have hemp : (flatQ (.bin op a b)).2.isEmpty = false := by simp [flatQ]
  simp only [hemp, Bool.and_false, hrun] at hcont
  obtain ⟨wta, xa⟩ := wt_runU a wfa st hnt
  obtain ⟨x, hx⟩ := xa (by have := two_le_prio op; omega)
  have hK' : FollowsC b K := hK
  refine ha ws s P opn first stack st W0
    (blankTok (blank1 (afterQ a ws)) ++ (qopTok (.bin op) :: (blankTok (blank1 (rest1 (afterQ a ws))) ++
      (toksU b (rest1 (rest1 (afterQ a ws))) ++ K)))) Q (Fb + F1) wfa la hinv hnt hg
    (by rw [ht]; simp only [toksU, qopTok, List.append_assoc, List.nil_append, List.cons_append]) hw0
    (followsC_op a _ (.bin op) _ (fun hu hop => hsep hu (by
      rcases hop with h | h | h | h
      · cases h; exact Or.inl rfl
      · cases h; exact Or.inr (Or.inl rfl)
      · cases h; exact Or.inr (Or.inr rfl)
      · cases h))) ?_
  intro s1 stack1 cur hinv1 g1 n1 ht1 e1
  refine afterValue_opU (Fb + F1) (.bin op) _ _ _ hinv1 wta (fun u hu => by rw [hx] at hu; cases hu)
    g1 n1 ht1 (allWS_blankTok _) (allWS_blankTok _) (toksU_notWS b _ K wfb) ?_
  intro s2 stack2 hinv2 g2 ht2 e2
  have hnt2 : NoTo (reduceQ (runQ st (flatQ a).1 (flatQ a).2).2 (.bin op)
      (runQ st (flatQ a).1 (flatQ a).2).1) := by
    rw [hx] at wta ⊢
    exact noTo_reduce op _ _ wta
  refine hb _ s2 P opn false stack2 _ _ K Q F1 wfb lb hinv2 hnt2 g2 ht2 (allWS_blankTok _) hK' ?_
  intro s3 stack3 cur3 hinv3 g3 n3 ht3 e3
  simp only [Bool.false_and] at hinv3 ⊢
  exact hcont s3 stack3 cur3 hinv3 g3 n3 ht3 ((e1.trans e2).trans e3)

/-! ### Casts -/

/-- A cast: the loop reads `a`, the operator `to`, then — the top frame being the `to` frame —
the unit expression. -/
theorem loop_castU (a : QExpr) (u : List RTerm) (ha : LoopSpecU a) (hu : UnitSpecC u) :
    LoopSpecU (.cast a u) := by
  obtain ⟨Fa, ha⟩ := ha
  obtain ⟨Fu, hu⟩ := hu
  refine ⟨Fa + (Fu + 1), ?_⟩
  intro ws s P opn first stack st W0 K Q F1 hwf hlay hinv hnt hg ht hw0 hK hcont
  simp only [WFS] at hwf
  obtain ⟨la, _, hb1, hb2, _, hsep⟩ := hlay
  have hF : Fa + (Fu + 1) + F1 = Fa + ((Fu + F1) + 1) := by omega
  rw [hF]
  have hrun : runQ st (flatQ (.cast a u)).1 (flatQ (.cast a u)).2 =
      (reduceQ (runQ st (flatQ a).1 (flatQ a).2).2 .cast (runQ st (flatQ a).1 (flatQ a).2).1,
        .un u) := by
    simp only [flatQ, runQ_append, runQ]
  have hemp : (flatQ (.cast a u)).2.isEmpty = false := by simp [flatQ]
  simp only [hemp, Bool.and_false, hrun] at hcont
  obtain ⟨wta, _⟩ := wt_runU a hwf st hnt
  have hUF : UFollowC K := hK
  refine ha ws s P opn first stack st W0
    (blankTok (blank1 (afterQ a ws)) ++ (qopTok .cast :: (blankTok (blank1 (rest1 (afterQ a ws))) ++
      (unitToks u ++ K)))) Q ((Fu + F1) + 1) hwf la hinv hnt hg
    (by rw [ht]; simp only [toksU, qopTok, List.append_assoc, List.nil_append, List.cons_append]) hw0
    (followsC_op a _ .cast _ (fun hu _ => hsep (Or.inl hu))) ?_
  intro s1 stack1 cur hinv1 g1 n1 ht1 e1
  refine afterValue_opU ((Fu + F1) + 1) .cast _ _ _ hinv1 wta (fun _ _ => rfl)
    g1 n1 ht1 (allWS_blankTok _) (allWS_blankTok _) (unitToks_notWS u K) ?_
  intro s2 stack2 hinv2 g2 ht2 e2
  simp only [LoopInvU, Bool.false_eq_true, ↓reduceIte] at hinv2
  obtain ⟨G, hf2, hso, hne⟩ := hinv2
  obtain ⟨v, hv⟩ := reduceQ_to _ _ wta
  have hunit : isUnitTop stack2 = true := by rw [hso.isUnitTop, hv]; rfl
  rw [opLoop_unfold_unit _ _ _ _ _ hunit]
  have hlen2 : s2.b.forest.length = P.length + G.length := by rw [hf2]; simp
  refine tot_seq (P := fun r s4 => ∃ cur Wt x, r = some cur ∧ s4.toks = K ∧
      s4.b.forest = s2.b.forest ++ Wt ++ [x] ∧ WSTrees Wt ∧ RepUnit x u ∧ x.hasChildren = true ∧
      Pos s4.b cur (s2.b.forest.length + Wt.length) ∧ C06.Good s4.b ∧ NoNext s4.b ∧
      Ext s2.b.forest.length s2.b s4.b) ?_ ?_
  · refine tot_seq (bumpN_ws _ ht2 (allWS_blankTok _) g2)
      fun _ s3 ⟨ht3, ⟨Wt1, hf3, hWt1, _⟩, g3, _, e3⟩ => ?_
    refine tot_mono (tot_le (le_unit (Nat.le_add_right Fu F1) _)
      (hu s3 [] K g3 (by simpa using ht3) allWS_nil hUF))
      fun r s4 ⟨cur4, Wt, x, hr, ht4, hf4, hWt, hx, hc, hp4, g4, n4, e4⟩ => ?_
    refine ⟨cur4, Wt1 ++ Wt, x, hr, ht4, by rw [hf4, hf3]; simp, wsTrees_append hWt1 hWt, hx, hc,
      ?_, g4, n4, e3.trans (e4.mono (by rw [hf3]; simp))⟩
    rw [hf3] at hp4
    simpa [Nat.add_assoc] using hp4
  · intro r s4 ⟨cur4, Wt, x, hr, ht4, hf4, hWt, hx, hc, hp4, g4, n4, e4⟩
    subst hr
    simp only
    refine tot_le (le_afterValue (Nat.le_add_left F1 Fu) _ _ _ _) ?_
    refine hcont s4 stack2 cur4 ⟨trivial, ?_⟩ g4 n4 ht4 ((e1.trans e2).trans (e4.mono (by omega)))
    simp only [Bool.false_eq_true, ↓reduceIte]
    refine ⟨G ++ Wt, x, by rw [hf4, hf2]; simp, (hso.mono (hlen2 ▸ e4)).ws hne hWt, hne, ⟨hx, hc⟩, ?_⟩
    rw [hlen2] at hp4
    simpa [Nat.add_assoc] using hp4

/-! ### `operation` -/

/-- `operation` = a checkpoint, the loop across the whole expression, and the final closing of all
frames; by precedence-climbing correctness (`closeAll_run_flatU`) the result represents `e`. -/
theorem op_of_loopU (e : QExpr) (hl : LoopSpecU e) : OpSpecU e := by
  obtain ⟨Fl, hl⟩ := hl
  refine ⟨Fl + 0 + 1, ?_⟩
  intro ws s W0 Wk K' hwf hlay hg ht hw0 hwk hend
  unfold operation
  refine tot_seq (checkpoint_exact hg) fun opn s1 ⟨ht1, hf1, _, g1, p1, e1⟩ => ?_
  refine hl ws s1 s.b.forest opn true [] [] W0 (Wk ++ K') _ 0 hwf hlay ?_ noTo_nil g1 (ht1.trans ht)
    hw0 (followsC_end e Wk K' hwk hend) ?_
  · simp only [LoopInvU, ↓reduceIte, true_and]
    exact ⟨hf1, p1⟩
  · intro s2 stack2 cur hinv2 g2 n2 ht2 e2
    refine tot_mono (afterValue_endU 0 Wk K' hinv2 (wt_runU e hwf [] noTo_nil).1 g2 n2 ht2 hwk hend)
      fun r s3 ⟨hr, ht3, g3, n3, e3, W, x', hf3, hW, hx'⟩ => ?_
    refine ⟨W, x', hr, ht3.trans ht2, hf3, hW, ?_, g3, n3, e1.trans (e2.trans e3)⟩
    rw [closeAll_run_flatU e hwf] at hx'
    exact hx'

/-! ### OperandsU: parenthesised groups -/

theorem value_parenU (e : QExpr) (ho : OpSpecU e) : ValueSpecU (.paren e) := by
  obtain ⟨Fo, ho⟩ := ho
  refine ⟨Fo + 1, ?_⟩
  intro ws s W0 K hwf hlay hg ht hw0 _
  obtain ⟨hb1, le, hb2⟩ := hlay
  simp only [WFS] at hwf
  simp only [toksU, List.append_assoc, List.cons_append, List.nil_append] at ht
  unfold Grammar.value
  refine tot_nth_ws W0 _ ht ?_
  simp only [headKind]
  refine tot_seq (bumpN_ws W0 ht hw0 hg) fun _ s1 ⟨ht1, ⟨Wt, hf1, hWt, hlen⟩, g1, _, e1⟩ => ?_
  refine tot_seq (checkpoint_exact g1) fun c s2 ⟨ht2, hf2, _, g2, p2, e2⟩ => ?_
  refine tot_seq (bump_exact (ht2.trans ht1) g2) fun _ s3 ⟨ht3, ⟨ido, hf3⟩, g3, _, e3⟩ => ?_
  refine tot_countSkip_ws (blankTok (blank1 ws)) _ ht3 (allWS_blankTok _) (toksU_notWS e _ _ hwf) ?_
  refine tot_seq (ho (rest1 ws) s3 (blankTok (blank1 ws)) (blankTok (blank1 (afterQ e (rest1 ws))))
    (⟨.CLOSE_PAREN, [')']⟩ :: K) hwf le g3 ht3 (allWS_blankTok _) (allWS_blankTok _)
    (Or.inl rfl)) fun r s4 ⟨Wt', x, hr, ht4, hf4, hWt', hx, g4, _, e4⟩ => ?_
  subst hr
  simp only
  refine tot_seq (eat_yes _ _ K .CLOSE_PAREN ht4 (allWS_blankTok _) rfl g4)
    fun b s5 ⟨hb, ht5, ⟨Fw, idc, hf5, hFw, _⟩, g5, n5, e5⟩ => ?_
  subst hb
  simp only [Bool.not_true, Bool.false_eq_true, ↓reduceIte]
  have hl1 : s1.b.forest.length = s.b.forest.length + Wt.length := by rw [hf1]; simp
  have hf3' : s3.b.forest = s.b.forest ++ Wt ++ [.tok ido .OPEN_PAREN ['(']] := by
    rw [hf3, hf2, hf1]
  have hf5' : s5.b.forest = (s.b.forest ++ Wt) ++
      (.tok ido .OPEN_PAREN ['('] :: (Wt' ++ [x] ++ Fw ++ [.tok idc .CLOSE_PAREN [')']])) := by
    rw [hf5, hf4, hf3']; simp
  have hle3 : s1.b.forest.length ≤ s3.b.forest.length := by rw [hf3', hl1]; simp
  have hle4 : s1.b.forest.length ≤ s4.b.forest.length := by rw [hf4]; simp; omega
  have e25 : Ext s1.b.forest.length s2.b s5.b :=
    ((hf2 ▸ e3 : Ext s1.b.forest.length s2.b s3.b).trans (e4.mono hle3)).trans (e5.mono hle4)
  have p5 : Pos s5.b c (s.b.forest.length + Wt.length) := hl1 ▸ e25.pos c _ (Nat.le_refl _) p2
  refine tot_seq (closeAt_wrap .OPERATION g5 n5 p5 (by rw [hf5']; simp))
    fun _ s6 ⟨ht6, ⟨id, hf6⟩, g6, n6, p6, e6⟩ => ?_
  refine tot_pure ⟨c, Wt, .node id .OPERATION (.tok ido .OPEN_PAREN ['('] ::
    (Wt' ++ [x] ++ Fw ++ [.tok idc .CLOSE_PAREN [')']])), rfl, ht6.trans ht5, ?_, hWt, ?_, p6, g6,
    n6, ?_⟩
  · rw [hf6, hf5']
    have hl : s.b.forest.length + Wt.length = (s.b.forest ++ Wt).length := by simp
    rw [hl, List.take_left' rfl, List.drop_left' rfl]
  · refine .paren ?_ hx
    rw [show (Tree.tok ido Syntax.OPEN_PAREN ['('] :: (Wt' ++ [x] ++ Fw ++ [Tree.tok idc Syntax.CLOSE_PAREN [')']]))
      = [Tree.tok ido Syntax.OPEN_PAREN ['(']] ++ Wt' ++ [x] ++ Fw ++ [Tree.tok idc Syntax.CLOSE_PAREN [')']] by simp]
    simp only [opKids_append, opKids_tok, opKids_ws hWt', opKids_ws hFw,
      opKids_single (hasChildren_of_repU hx), List.nil_append, List.append_nil]
  · have hle : s.b.forest.length ≤ s1.b.forest.length := by omega
    exact e1.trans (((e2.trans e25).trans (hl1 ▸ e6)).mono hle)

/-! ### Operands: phrases -/

/-- **`Grammar.value` on a phrase inside a larger expression** (`FQ.value_phrase` with the follow
set of quantity expressions, which contains `to`): in operand position, followed — after an
optional blank — by an operator, `to`, `)` or the end of the input, the words of a phrase become
ONE tree, a WORD node for a single word, otherwise a SENTENCE node, whose text is the phrase. -/
theorem value_phraseQ {s : PState} (F : Nat) (W : List Token) (first : List Char) (more : FQ.More)
    (K : List Token) (ht : s.toks = W ++ (FQ.phraseToks first more ++ K)) (hw : AllWS W)
    (hK : FollowC K) (h : C06.Good s.b) (hF : more.length + 1 ≤ F) :
    Tot (value (F + 1) W.length) s (fun r s' => ∃ cur Wt x, r = some cur ∧ s'.toks = K ∧
      s'.b.forest = s.b.forest ++ Wt ++ [x] ∧ WSTrees Wt ∧ Wt.length = W.length ∧
      x.kind = (if more = [] then Syntax.WORD else Syntax.SENTENCE) ∧ x.hasChildren = true ∧
      x.text = FQ.phraseText first more ∧
      Pos s'.b cur (s.b.forest.length + W.length) ∧ C06.Good s'.b ∧ NoNext s'.b ∧
      Ext s.b.forest.length s.b s'.b) := by
  obtain ⟨Wk, K', rfl, hwk, hfk⟩ := hK
  have hnw := followKindC_notWS hfk
  have hkinds : headKind K' ≠ .WORD ∧ headKind K' ≠ .NUMBER ∧ headKind K' ≠ .OPEN_PAREN := by
    rcases hfk with h | h | h | h | h | h | h | h | h <;> rw [h] <;> simp
  have ht0 : s.toks = W ++ (⟨.WORD, first⟩ :: (FQ.moreToks more ++ (Wk ++ K'))) := by
    simpa [FQ.phraseToks] using ht
  unfold value
  refine tot_nth_ws W _ ht0 ?_
  simp only [headKind]
  refine tot_seq (bumpN_ws W ht0 hw h) fun _ s1 ⟨ht1, ⟨Wt, hf1, hWt, hlen⟩, g1, _, e1⟩ => ?_
  refine tot_seq (checkpoint_exact g1) fun start s2 ⟨ht2, hf2, _, g2, p2, e2⟩ => ?_
  refine tot_seq (checkpoint_exact g2) fun c s3 ⟨ht3, hf3, _, g3, p3, e3⟩ => ?_
  refine tot_seq (bumpNode_exact .WORD (ht3.trans (ht2.trans ht1)) g3)
    fun _ s4 ⟨ht4, ⟨idw, idt, hf4⟩, g4, n4, e4⟩ => ?_
  -- the next token is not `(`
  have hnext : kAt s4 (0 + 0) ≠ .OPEN_PAREN := by
    unfold kAt
    rw [ht4]
    cases more with
    | nil =>
      simp only [FQ.moreToks, List.flatMap_nil, List.nil_append]
      cases Wk with
      | nil =>
        cases K' with
        | nil => simp
        | cons t r => simpa [headKind] using hkinds.2.2
      | cons t r => simp [hwk t (by simp)]
    | cons bw more' => simp [FQ.moreToks]
  refine tot_nth_bind fun k hk => ?_
  have hk' : (k == Syntax.OPEN_PAREN) = false := by rw [hk]; simpa using hnext
  simp only [hk', Bool.false_eq_true, ↓reduceIte]
  have hl1 : s1.b.forest.length = s.b.forest.length + W.length := by rw [hf1]; simp [hlen]
  have hf4' : s4.b.forest = (s.b.forest ++ Wt) ++ [.node idw .WORD [.tok idt .WORD first]] := by
    rw [hf4, hf3, hf2, hf1]
  have hl4 : s4.b.forest.length = s.b.forest.length + W.length + 1 := by
    rw [hf4']; simp [hlen]; omega
  -- both checkpoints sit at the first word
  have p3' : Pos s3.b start s1.b.forest.length := by
    exact e3.pos start _ (by rw [hf2]) p2
  have p3c : Pos s3.b c s1.b.forest.length := by rwa [hf2] at p3
  have hl3 : s3.b.forest.length = s1.b.forest.length := by rw [hf3, hf2]
  have e4' : Ext s1.b.forest.length s3.b s4.b := hl3 ▸ e4
  have p4 : Pos s4.b start s1.b.forest.length := e4'.pos start _ (Nat.le_refl _) p3'
  have p4c : Pos s4.b c s1.b.forest.length := e4'.pos c _ (Nat.le_refl _) p3c
  have e14 : Ext s1.b.forest.length s1.b s4.b := (e2.trans (hf2 ▸ e3)).trans e4'
  refine FQ.tot_countSkip_more more Wk K' ht4 hwk hnw ?_
  refine tot_seq (FQ.wordLoop_more more F 0 Wk K' ht4 hwk hnw hkinds.1 hkinds.2.1 g4 hF)
    fun r s5 ⟨hr, ht5, G, hf5, hG, hGl, g5, n5, e5⟩ => ?_
  obtain ⟨words, sk⟩ := r
  simp only at hr ⊢
  have hle15 : s1.b.forest.length ≤ s4.b.forest.length := by omega
  have e5' : Ext s1.b.forest.length s4.b s5.b := e5.mono hle15
  have p5 : Pos s5.b start s1.b.forest.length := e5'.pos start _ (Nat.le_refl _) p4
  have p5c : Pos s5.b c s1.b.forest.length := e5'.pos c _ (Nat.le_refl _) p4c
  have hf5' : s5.b.forest = (s.b.forest ++ Wt) ++ (.node idw .WORD [.tok idt .WORD first] :: G) := by
    rw [hf5, hf4']; simp
  have hle : s.b.forest.length ≤ s1.b.forest.length := by omega
  by_cases hm : more = []
  · -- a single word: no SENTENCE node
    subst hm
    have hw0 : ¬ words > 0 := by simp at hr; omega
    have hG0 : G = [] := List.eq_nil_of_length_eq_zero (by simpa using hGl)
    subst hG0
    simp only [hw0, ↓reduceIte]
    refine tot_pure ⟨start, Wt, .node idw .WORD [.tok idt .WORD first], rfl, ht5, by simpa using hf5',
      hWt, hlen, rfl, rfl, by simp [Tree.text, Tree.textList, FQ.phraseText, FQ.moreText], hl1 ▸ p5, g5,
      n5 (Or.inl n4), e1.trans ((e14.trans e5').mono hle)⟩
  · have hw1 : words > 0 := by
      have : more.length > 0 := List.length_pos_of_ne_nil hm
      simp at hr; omega
    simp only [hw1, ↓reduceIte, hm]
    refine tot_seq (closeAt_wrap .SENTENCE g5 (n5 (Or.inr hm)) p5c (by rw [hf5]; simp; omega))
      fun _ s6 ⟨ht6, ⟨ids, hf6⟩, g6, n6, _, e6⟩ => ?_
    have hlsw : s1.b.forest.length = (s.b.forest ++ Wt).length := by rw [hl1]; simp [hlen]
    rw [hf5', hlsw, List.take_left' rfl, List.drop_left' rfl] at hf6
    refine tot_pure ⟨start, Wt, .node ids .SENTENCE (.node idw .WORD [.tok idt .WORD first] :: G), rfl,
      ht6.trans ht5, hf6, hWt, hlen, rfl, rfl, ?_, ?_, g6, n6,
      e1.trans (((e14.trans e5').trans (hlsw ▸ e6)).mono hle)⟩
    · simp [Tree.text, Tree.textList, FQ.phraseText, hG]
    · have := (hlsw ▸ e6 : Ext s1.b.forest.length s5.b s6.b).pos start _ (Nat.le_refl _) p5
      exact hl1 ▸ this

/-- `Grammar.value` on a fact phrase. -/
theorem valueSpecU_fact (p : List Char) (v : Rat) (u : List (UnitKey × Int × Int)) :
    ValueSpecU (.fact p v u) := by
  refine ⟨(factMore p).length + 1 + 1, ?_⟩
  intro ws s W0 K hwf _ hg ht hw0 hK
  have hK' : FollowC K := by simpa [FollowsC, endsUnit] using hK
  simp only [toksU] at ht
  refine tot_mono (value_phraseQ ((factMore p).length + 1) W0 (factFirst p) (factMore p) K ht hw0 hK'
    hg (Nat.le_refl _))
    fun r s' ⟨cur, Wt, x, hr, ht', hf', hWt, hlen, hk, hc, htx, hpos, g', n', e'⟩ => ?_
  exact ⟨cur, Wt, x, hr, ht', hf', hWt, .fact hk hc (htx.trans hwf.2), hlen ▸ hpos, g', n', e'⟩

/-! ### Operands: literals (from `Lemmas/QQOperands.lean`) -/

theorem foldRQL_shape {R : Tree → QExpr → Prop} {p : Nat} {acc e : QExpr} {ts : List Tree}
    (h : FoldRQL R p acc ts e) :
    (ts = [] ∧ e = acc) ∨ (∃ op a b, e = .bin op a b) ∨ (∃ a u, e = .cast a u) := by
  induction h with
  | nil p acc => exact Or.inl ⟨rfl, rfl⟩
  | cons _ _ _ _ ih =>
    rcases ih with ⟨_, rfl⟩ | h | h
    · exact Or.inr (Or.inl ⟨_, _, _, rfl⟩)
    · exact Or.inr (Or.inl h)
    · exact Or.inr (Or.inr h)
  | cast _ _ _ _ ih =>
    rcases ih with ⟨_, rfl⟩ | h | h
    · exact Or.inr (Or.inr ⟨_, _, rfl⟩)
    · exact Or.inr (Or.inl h)
    · exact Or.inr (Or.inr h)

/-! ### All expressions -/

theorem loopSpecU : ∀ e : QExpr, LoopSpecU e
  | .num l => loop_of_valueU _ rfl rfl (valueSpecU_num l)
  | .qty l u => loop_of_valueU _ rfl rfl (valueSpecU_qty l u)
  | .bin op a b => loop_binU op a b (loopSpecU a) (loopSpecU b)
  | .paren e => loop_of_valueU _ rfl rfl (value_parenU e (op_of_loopU e (loopSpecU e)))
  | .cast a u => loop_castU a u (loopSpecU a) (unitSpecC u)
  | .fact p v u => loop_of_valueU _ rfl rfl (valueSpecU_fact p v u)

theorem opSpecU (e : QExpr) : OpSpecU e := op_of_loopU e (loopSpecU e)

end Anything.UQ
