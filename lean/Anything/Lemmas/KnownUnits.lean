import Anything.Lemmas.MulZero
import Anything.Model.UnitWord
/-!
# Units of the table (for C11)

A unit key is *known* when it is a base unit or the id of a derived unit of the extracted
table. Table facts (checked by evaluation): every derived unit of the table has at least one
base dimension, and the word lexers only ever name known units. Known units are preserved by
everything the evaluator does to a compound.
-/

namespace Anything
open AMap Powers

/-- A base unit, or a derived unit listed in the table. -/
def known : UnitKey → Bool
  | .base _ => true
  | .derived id => (Units.find? id).isSome

/-- Every unit of the compound is known. -/
def AllKnown (c : Compound) : Prop := ∀ e ∈ c, known e.1 = true

/-- Table fact: no derived unit of the table is dimensionless. -/
theorem table_has_bases :
    Generated.units.all (fun d => !(basesOf (.derived d.id)).isEmpty) = true := by
  decide +kernel

theorem known_hasBases (id : Nat) (h : known (.derived id) = true) : basesOf (.derived id) ≠ [] := by
  simp only [known, Units.find?] at h
  cases hf : Generated.units.find? (fun u => u.id == id) with
  | none => rw [hf] at h; cases h
  | some d =>
    have hm : d ∈ Generated.units := List.mem_of_find?_eq_some hf
    have hid : d.id = id := by
      have := List.find?_some hf
      simpa using this
    have := (List.all_eq_true.mp table_has_bases) d hm
    rw [hid] at this
    intro hh
    rw [hh] at this
    simp at this

theorem allKnown_hasBases {c : Compound} (h : AllKnown c) : HasBases c := by
  intro e he id hid
  apply known_hasBases
  rw [← hid]; exact h e he

/-! ### The word lexers only name known units -/

def actionKnown : WordAction → Bool
  | .unit u _ => known u
  | .pfx _ (some (u, _)) => known u
  | _ => true

theorem combined_known : Generated.combined.all (fun r => actionKnown r.2) = true := by
  decide +kernel

theorem unitsOnly_known : Generated.unitsOnly.all (fun r => actionKnown r.2) = true := by
  decide +kernel

theorem longest_fold_mem (s : List Char) (l : List (List Char × WordAction)) :
    ∀ (best : Option (List Char × WordAction)) (row : List Char × WordAction),
      l.foldl (fun best row =>
        if UnitWord.isPrefix row.1 s then
          match best with
          | none => some row
          | some b => if b.1.length < row.1.length then some row else some b
        else best) best = some row → row ∈ l ∨ best = some row := by
  induction l with
  | nil => intro best row h; exact Or.inr h
  | cons a rest ih =>
    intro best row h
    simp only [List.foldl_cons] at h
    rcases ih _ _ h with h | h
    · exact Or.inl (List.mem_cons_of_mem _ h)
    · split at h
      · split at h
        · simp only [Option.some.injEq] at h; subst h; exact Or.inl (by simp)
        · split at h
          · simp only [Option.some.injEq] at h; subst h; exact Or.inl (by simp)
          · exact Or.inr h
      · exact Or.inr h

theorem longest_mem {table : List (List Char × WordAction)} {s : List Char}
    {row : List Char × WordAction} (h : UnitWord.longest table s = some row) : row ∈ table := by
  rcases longest_fold_mem s table none row h with h | h
  · exact h
  · cases h

theorem phase1_known (table : List (List Char × WordAction))
    (ht : table.all (fun r => actionKnown r.2) = true) : ∀ (fuel : Nat) (pfx : Int) (s rest : List Char)
    (p : Int) (u : UnitKey), UnitWord.phase1 table fuel pfx s = .done rest p u → known u = true := by
  intro fuel
  induction fuel with
  | zero => intro pfx s rest p u h; simp [UnitWord.phase1] at h
  | succ fuel ih =>
    intro pfx s rest p u h
    simp only [UnitWord.phase1] at h
    split at h
    · cases h
    · split at h
      · cases h
      · rename_i lit u' bias hl
        have := (List.all_eq_true.mp ht) _ (longest_mem hl)
        simp only [UnitWord.Phase1.done.injEq] at h
        rw [← h.2.2]; exact this
      · rename_i lit p' alone hl
        have := (List.all_eq_true.mp ht) _ (longest_mem hl)
        split at h
        · rename_i u' bias _ _
          simp only [UnitWord.Phase1.done.injEq] at h
          rw [← h.2.2]; exact this
        · cases h
      · split at h
        · cases h
        · exact ih _ _ _ _ _ h

theorem phase2_known (table : List (List Char × WordAction))
    (ht : table.all (fun r => actionKnown r.2) = true) : ∀ (fuel : Nat) (pfx : Int) (s rest : List Char)
    (p : Int) (u : UnitKey), UnitWord.phase2 table fuel pfx s = some (rest, p, u) → known u = true := by
  intro fuel
  induction fuel with
  | zero => intro pfx s rest p u h; simp [UnitWord.phase2] at h
  | succ fuel ih =>
    intro pfx s rest p u h
    simp only [UnitWord.phase2] at h
    split at h
    · cases h
    · split at h
      · cases h
      · rename_i lit u' bias hl
        have := (List.all_eq_true.mp ht) _ (longest_mem hl)
        simp only [Option.some.injEq, Prod.mk.injEq] at h
        rw [← h.2.2]; exact this
      · cases h
      · split at h
        · cases h
        · exact ih _ _ _ _ _ h

/-- `generated::unit::parse` only yields known units. -/
theorem parse_known {s rest : List Char} {p : Int} {u : UnitKey}
    (h : UnitWord.parse s = some (rest, p, u)) : known u = true := by
  unfold UnitWord.parse at h
  split at h
  · cases h
  · rename_i hp
    simp only [Option.some.injEq, Prod.mk.injEq] at h
    rw [← h.2.2]
    exact phase1_known _ combined_known _ _ _ _ _ _ hp
  · exact phase2_known _ unitsOnly_known _ _ _ _ _ _ h

/-! ### Operations on compounds keep their units known -/

theorem allKnown_nil : AllKnown [] := fun _ h => by cases h

theorem allKnown_insert {c : Compound} (h : AllKnown c) (k : UnitKey) (st : State)
    (hk : known k = true) : AllKnown (AMap.insert c k st) := by
  intro e he
  rcases AMap.mem_insert he with he | he
  · subst he; exact hk
  · exact h e he

theorem allKnown_erase {c : Compound} (h : AllKnown c) (k : UnitKey) : AllKnown (AMap.erase c k) :=
  fun e he => h e (AMap.mem_erase he)

theorem allKnown_update {c c' : Compound} {u : UnitKey} {p pfx : Int} (h : AllKnown c)
    (hu : known u = true) (hupd : Compound.update c u p pfx = .ok c') : AllKnown c' := by
  unfold Compound.update at hupd
  split at hupd
  · simp only [Except.ok.injEq] at hupd; rw [← hupd]; exact allKnown_insert h _ _ hu
  · split at hupd
    · cases hupd
    · dsimp only at hupd
      split at hupd
      · simp only [Except.ok.injEq] at hupd; rw [← hupd]; exact allKnown_erase h _
      · simp only [Except.ok.injEq] at hupd; rw [← hupd]; exact allKnown_insert h _ _ hu

theorem allKnown_scaled {c : Compound} (h : AllKnown c) (n : Int) :
    AllKnown ((c.map (fun e => (e.1, { e.2 with power := e.2.power * n }))).filter
      (fun e => e.2.power ≠ 0)) := by
  intro e he
  simp only [List.mem_filter, List.mem_map] at he
  obtain ⟨⟨x, hx, rfl⟩, _⟩ := he
  exact h x hx

theorem allKnown_checkedPow {c : Compound} (h : AllKnown c) (n : Int) :
    AllKnown (Compound.checkedPow c n) := allKnown_scaled h n

theorem allKnown_of_base {c : Compound} (h : ∀ e ∈ c, ∃ b, e.1 = .base b) : AllKnown c := by
  intro e he
  obtain ⟨b, hb⟩ := h e he
  rw [hb]; rfl

theorem allKnown_baseUpd (m : Int) {nm : Compound} (h : AllKnown nm) (e : UnitKey × Int) :
    AllKnown (baseUpd m nm e) := by
  unfold baseUpd
  split
  · exact h
  · rename_i st hg
    dsimp only
    split
    · exact allKnown_erase h _
    · exact allKnown_insert h _ _ (h _ (AMap.mem_of_get? hg))

theorem allKnown_baseUpd_fold (m : Int) (l : Powers) : ∀ nm : Compound, AllKnown nm →
    AllKnown (l.foldl (baseUpd m) nm) := by
  induction l with
  | nil => intro nm h; exact h
  | cons a rest ih => intro nm h; exact ih _ (allKnown_baseUpd m h a)

theorem allKnown_derUpd {nm : Compound} (h : AllKnown nm) (unit : UnitKey) (m : Int)
    (hk : known unit = true) : AllKnown (derUpd nm unit m) := by
  unfold derUpd
  split <;> exact allKnown_insert h _ _ hk

theorem allKnown_bump {nm : Compound} (h : AllKnown nm) (k : UnitKey) (δ : Int)
    (hk : known k = true) : AllKnown (bump nm k δ) := by
  unfold bump
  split
  · exact allKnown_insert h _ _ hk
  · dsimp only
    split
    · exact allKnown_erase h _
    · exact allKnown_insert h _ _ hk

theorem allKnown_names0 (l : Powers) (hb : ∀ e ∈ l, ∃ b, e.1 = .base b) :
    ∀ acc : Compound, AllKnown acc →
      AllKnown (l.foldl (fun nm (e : UnitKey × Int) => AMap.insert nm e.1 { power := e.2, pfx := 0 }) acc) := by
  induction l with
  | nil => intro acc h; exact h
  | cons a rest ih =>
    intro acc h
    simp only [List.foldl_cons]
    obtain ⟨b, hbk⟩ := hb a (by simp)
    exact ih (fun e he => hb e (List.mem_cons_of_mem _ he)) _ (allKnown_insert h _ _ (by rw [hbk]; rfl))

theorem allKnown_bump_fold (l : Powers) (f : Int → Int) (hb : ∀ e ∈ l, ∃ b, e.1 = .base b) :
    ∀ acc : Compound, AllKnown acc →
      AllKnown (l.foldl (fun nm (e : UnitKey × Int) => bump nm e.1 (f e.2)) acc) := by
  induction l with
  | nil => intro acc h; exact h
  | cons a rest ih =>
    intro acc h
    simp only [List.foldl_cons]
    obtain ⟨b, hbk⟩ := hb a (by simp)
    exact ih (fun e he => hb e (List.mem_cons_of_mem _ he)) _ (allKnown_bump h _ _ (by rw [hbk]; rfl))

theorem allKnown_reconstructStep (acc acc' : Rat × Compound) (d : UnitKey × Int × Int)
    (hk : known d.1 = true) (h : AllKnown acc.2)
    (hstep : Compound.reconstructStep acc d = .ok acc') : AllKnown acc'.2 := by
  obtain ⟨out, names⟩ := acc
  obtain ⟨unit, power, n⟩ := d
  unfold Compound.reconstructStep at hstep
  simp only at hstep
  split at hstep
  · simp only [Except.ok.injEq] at hstep; rw [← hstep]; exact h
  · split at hstep
    · simp only [Except.ok.injEq] at hstep; rw [← hstep]; exact h
    · rename_i modPower _
      split at hstep
      · cases hstep
      · simp only [Except.ok.injEq] at hstep
        rw [← hstep]
        exact allKnown_derUpd (allKnown_baseUpd_fold modPower _ names h) unit modPower hk

theorem allKnown_reconstruct (der : List (UnitKey × Int × Int)) (hk : ∀ d ∈ der, known d.1 = true) :
    ∀ (acc acc' : Rat × Compound), AllKnown acc.2 →
      Compound.reconstruct der acc.1 acc.2 = .ok acc' → AllKnown acc'.2 := by
  unfold Compound.reconstruct
  induction der with
  | nil =>
    intro acc acc' h hr
    simp only [List.foldlM_nil, pure, Except.pure, Except.ok.injEq] at hr
    rw [← hr]; exact h
  | cons d rest ih =>
    intro acc acc' h hr
    rw [List.foldlM_cons] at hr
    cases hs : Compound.reconstructStep (acc.1, acc.2) d with
    | error e => rw [hs] at hr; simp [bind, Except.bind] at hr
    | ok acc1 =>
      rw [hs] at hr
      have h1 := allKnown_reconstructStep (acc.1, acc.2) acc1 d (hk d (by simp)) h hs
      exact ih (fun x hx => hk x (List.mem_cons_of_mem _ hx)) acc1 acc' h1 hr

/-- The unit `Compound::mul` returns is made of known units. -/
theorem allKnown_mul (debug : Bool) (a b : Compound) (n : Int) (l r : Rat)
    (ha : AllKnown a) (hb : AllKnown b) (res : Compound × Rat × Rat)
    (h : Compound.mul debug a b n l r = .ok res) : AllKnown res.1 := by
  cases a with
  | nil =>
    simp only [Compound.mul, List.isEmpty_nil, Bool.true_or, ↓reduceIte, Except.ok.injEq] at h
    rw [← h]
    exact allKnown_scaled hb n
  | cons a0 as =>
    cases b with
    | nil =>
      simp only [Compound.mul, List.isEmpty_cons, List.isEmpty_nil, Bool.or_true, ↓reduceIte,
        Bool.false_eq_true, Except.ok.injEq] at h
      rw [← h]; exact ha
    | cons b0 bs =>
      rw [mul_unfold debug _ _ n l r rfl rfl] at h
      have hk : ∀ d ∈ ((Compound.baseUnits (a0 :: as)).1.map (fun e => (e.1, e.2, (1 : Int))) ++
          (Compound.baseUnits (b0 :: bs)).1.map (fun e => (e.1, e.2, n))), known d.1 = true := by
        intro d hd
        rcases List.mem_append.mp hd with hd | hd
        · simp only [List.mem_map] at hd
          obtain ⟨x, hx, rfl⟩ := hd
          obtain ⟨e, he, h⟩ := baseUnits_der_mem _ x hx
          simp only; rw [h]; exact ha e he
        · simp only [List.mem_map] at hd
          obtain ⟨x, hx, rfl⟩ := hd
          obtain ⟨e, he, h⟩ := baseUnits_der_mem _ x hx
          simp only; rw [h]; exact hb e he
      have p1 : AllKnown (names1 (Compound.baseUnits (b0 :: bs)).2 n
          (names0 (Compound.baseUnits (a0 :: as)).2)) := by
        rw [names1_eq_bump]
        exact allKnown_bump_fold _ (fun x => x * n) (baseUnits_keys_base _) _
          (allKnown_names0 _ (baseUnits_keys_base _) [] allKnown_nil)
      split at h
      · cases h
      · split at h
        · cases h
        · split at h
          · cases h
          · rename_i lhs'' names' hrec
            have := allKnown_reconstruct _ hk (_, _) (lhs'', names') p1 hrec
            split at h
            · cases h
            · simp only [Except.ok.injEq] at h
              rw [← h]; exact this

end Anything
