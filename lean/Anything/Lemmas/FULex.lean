import Anything.Lemmas.FUDefs
import Anything.Lemmas.UQLex
/-!
# The full expression language — the lexer on a rendered expression

`Lemmas/UQLex.lean` ported to `FU.FExprU`: percent literals (`number blank %`) and builtin calls
(`f( e )`, `f( e , n )`) anywhere.

* `lex_f`: the lexer on a rendered expression followed by a text that does not continue its last
  token (`StopF`);
* `lexStatement : LexStatement`, `lexQueryStatement : LexQueryStatement`;
* `render_headF`: the first character of a rendering;
* `afterF_nil`, `layoutOKF_nil`, `queryLayoutOKF_nil`: the default layout is admissible.
-/

namespace Anything.FU
open Anything Anything.Lexer Anything.Spec Anything.Spec.Arith Anything.Spec.Decimal
open Anything.Spec.Quantity Anything.C06 Anything.QQ Anything.UQ Anything.Lemmas.Number

/-- What may follow the rendering of `e` for the lexer to cut the last token of `e` where the
rendering ends (`UQ.StopU`): after a written unit expression no word character and no dot; after a
phrase no word character; otherwise nothing that continues a number. -/
def StopF (e : FExprU) (rest : List Char) : Prop :=
  (endsUnitF e = true → UnitStop rest) ∧ (endsUnitF e = false → NumEnd rest) ∧
    (endsFactF e = true → WordStop rest)

theorem exprStop_stopF (e : FExprU) {s : List Char} (h : ExprStop s) : StopF e s :=
  ⟨fun _ => exprStop_unitStop h, fun _ => numStop_numEnd (exprStop_numStop h),
    fun _ => unitStop_wordStop (exprStop_unitStop h)⟩

/-- After the left operand of a cast: a blank and the keyword. -/
theorem stopF_to (e : FExprU) {b1 : List Char} (hb : Blank b1)
    (hne : endsUnitF e = true ∨ endsFactF e = true → b1 ≠ []) (rest : List Char) :
    StopF e (b1 ++ (['t', 'o'] ++ rest)) := by
  refine ⟨fun he => blank_unitStop hb (hne (Or.inl he)), fun _ => ?_,
    fun he => unitStop_wordStop (blank_unitStop hb (hne (Or.inr he)))⟩
  exact numStop_numEnd (blank_numStop hb (head_cons (by decide)))

theorem fnName_noWSF (f : Fn) (rest : List Char) : NoWS (f.name ++ rest) := by
  cases f <;> exact head_cons (by decide)

/-- The first character of a builtin's name. -/
theorem fnName_head (f : Fn) : ∃ c r, f.name = c :: r ∧ c ∈ signedStarts := by
  cases f <;> exact ⟨_, _, rfl, by decide⟩

theorem numStop_closeF (b rest : List Char) (hb : Blank b) : NumStop (b ++ ([')'] ++ rest)) :=
  exprStop_numStop (exprStop_blank hb (head_cons (Or.inr (by decide))))

/-- A blank and the percent sign do not continue a number. -/
theorem numStop_pct {b : List Char} (hb : Blank b) (rest : List Char) :
    NumStop (b ++ (['%'] ++ rest)) :=
  blank_numStop hb (head_cons (by decide))

/-- The first character of a rendered expression. -/
theorem render_headF : ∀ (e : FExprU) (ws : Layout), WFF e →
    ∃ c r, (render e ws).1 = c :: r ∧ FQ.StartOK (gluesF e) c
  | .num l, ws, h => by
    obtain ⟨c, r, hr, hc, hsg⟩ := renderNumber_head l h
    cases hp : l.percent with
    | false =>
      rw [render_num l ws hp]
      exact ⟨c, r, hr, (operandStart_facts c hc).1, (operandStart_facts c hc).2,
        fun hg => signedStart_facts c (hsg hg)⟩
    | true =>
      rw [render_pct l ws hp]
      exact ⟨c, r ++ blank1 ws ++ ['%'], by simp [hr], (operandStart_facts c hc).1,
        (operandStart_facts c hc).2, fun hg => signedStart_facts c (hsg hg)⟩
  | .qty l u, ws, h => by
    obtain ⟨c, r, hr, hc, hsg⟩ := renderNumber_head l h.1
    rw [render_qty]
    exact ⟨c, r ++ blank1 ws ++ renderUnit u, by simp [hr], (operandStart_facts c hc).1,
      (operandStart_facts c hc).2, fun hg => signedStart_facts c (hsg hg)⟩
  | .bin op a b, ws, h => by
    obtain ⟨c, r, hr, hc⟩ := render_headF a ws h.1
    rw [render_bin]
    exact ⟨c, _, by simp only [hr, List.cons_append]; rfl, hc⟩
  | .paren e, ws, _ => by
    rw [render_paren]
    exact ⟨'(', _, by simp only [List.cons_append, List.nil_append]; rfl, by decide, by decide,
      fun _ => by decide⟩
  | .cast e u, ws, h => by
    obtain ⟨c, r, hr, hc⟩ := render_headF e ws h
    rw [render_cast]
    exact ⟨c, _, by simp only [hr, List.cons_append]; rfl, hc⟩
  | .fact p v u, ws, h => by
    obtain ⟨c, r, hp, hw, hd⟩ := phraseU_head h
    subst hp
    rw [render_fact]
    refine ⟨c, r, rfl, wordChar_noWS hw, ?_, fun hg => ?_⟩
    · intro hc; subst hc; exact absurd hw (by decide)
    · simp only [gluesF, Bool.or_eq_false_iff, beq_eq_false_iff_ne] at hg
      refine ⟨hd, ?_, hg.1, hg.2⟩
      intro hc; subst hc; exact absurd hw (by decide)
  | .call f arg prec, ws, _ => by
    obtain ⟨c, r, hr, hc⟩ := fnName_head f
    have hfacts := operandStart_facts c (signed_sub c hc)
    cases prec with
    | none =>
      rw [render_call1]
      exact ⟨c, _, by simp only [hr, List.cons_append]; rfl, hfacts.1, hfacts.2,
        fun _ => signedStart_facts c hc⟩
    | some n =>
      rw [render_call2]
      exact ⟨c, _, by simp only [hr, List.cons_append]; rfl, hfacts.1, hfacts.2,
        fun _ => signedStart_facts c hc⟩

/-- **The lexer on a rendered expression** followed by a text that does not continue its last
token. -/
theorem lex_f : ∀ (e : FExprU) (ws : Layout) (rest : List Char) (ts : List Token),
    WFF e → LayoutOKF e ws → StopF e rest → Lexes rest ts →
    Lexes ((render e ws).1 ++ rest) (toksF e ws ++ ts)
  | .num l, ws, rest, ts, _, hl, hs, h => by
    cases hp : l.percent with
    | false =>
      rw [render_num l ws hp]
      simp only [toksF, hp, Bool.false_eq_true, ↓reduceIte, List.cons_append, List.nil_append]
      exact lex_number' hl.1 (hs.2.1 rfl) h
    | true =>
      have hb := hl.2 hp
      rw [render_pct l ws hp]
      simp only [toksF, hp, ↓reduceIte, pctTok, List.append_assoc, List.cons_append,
        List.nil_append]
      exact lex_number hl.1 (numStop_pct hb rest)
        (lex_blank hb (head_cons (by decide)) (lex_pct h))
  | .qty l u, ws, rest, ts, _, hl, hs, h => by
    obtain ⟨hwf, hu, hb, hg⟩ := hl
    rw [render_qty]
    simp only [toksF, List.append_assoc, List.cons_append, List.nil_append]
    exact lex_number' hwf (numEnd_unit hu hb hg rest)
      (lex_blank hb (renderUnit_noWS u hu rest) (lex_unit u hu (hs.1 rfl) h))
  | .bin op a b, ws, rest, ts, hwf, hl, hs, h => by
    obtain ⟨wa, wb, _, _⟩ := hwf
    obtain ⟨ha, hb1, hb2, hb, hsg, _⟩ := hl
    obtain ⟨c, r, hcr, hc⟩ := render_headF b (rest1 (rest1 (afterF a ws))) wb
    rw [render_bin]
    simp only [toksF, List.append_assoc]
    obtain ⟨ao1, ao2⟩ := FQ.after_opF (rest := rest) hb2 hcr hc
    refine lex_f a ws _ _ wa ha (exprStop_stopF a (exprStop_blank hb1 (sym_stop op _)))
      (lex_blank hb1 (sym_noWS op _) (lex_op ao1 (fun hop => ao2 fun hnil => hsg hop hnil)
        (lex_blank hb2 (FQ.noWS_of_startF hcr hc rest) (lex_f b _ rest ts wb hb hs h))))
  | .paren e, ws, rest, ts, hwf, hl, _, h => by
    obtain ⟨hb1, he, hb2⟩ := hl
    obtain ⟨c, r, hcr, hc⟩ := render_headF e (rest1 ws) hwf
    rw [render_paren]
    simp only [toksF, openTok, closeTok, List.append_assoc]
    exact lex_open (lex_blank hb1 (FQ.noWS_of_startF hcr hc _)
      (lex_f e _ _ _ hwf he (exprStop_stopF e (exprStop_blank hb2 (head_cons (Or.inr (by decide)))))
        (lex_blank hb2 (head_cons (by decide)) (lex_close h))))
  | .cast e u, ws, rest, ts, hwf, hl, hs, h => by
    obtain ⟨he, hu, hb1, hb2, hne2, hne1⟩ := hl
    rw [render_cast]
    simp only [toksF, List.append_assoc]
    exact lex_f e ws _ _ hwf he (stopF_to e hb1 hne1 _)
      (lex_blank hb1 (head_cons (by decide))
        (lex_to (unitStop_wordStop (blank_unitStop hb2 hne2))
          (lex_blank hb2 (renderUnit_noWS u hu rest) (lex_unit u hu (hs.1 rfl) h))))
  | .fact p v u, ws, rest, ts, hwf, _, hs, h => by
    rw [render_fact]
    simp only [toksF]
    have := FQ.lex_phrase (factFirst p) (factMore p) rest ts hwf.1 ⟨hs.2.2 rfl, hs.2.1 rfl⟩ h
    rwa [hwf.2] at this
  | .call f arg none, ws, rest, ts, hwf, hl, _, h => by
    obtain ⟨hb1, he, hb2, _⟩ := hl
    obtain ⟨c, r, hcr, hc⟩ := render_headF arg (rest1 ws) hwf.1
    rw [render_call1]
    simp only [toksF, openTok, closeTok, List.append_assoc, List.cons_append, List.nil_append]
    refine lex_word (rest := _) ?_
    refine lex_open (lex_blank hb1 (FQ.noWS_of_startF hcr hc _) ?_)
    exact lex_f arg _ _ _ hwf.1 he
      (exprStop_stopF arg (exprStop_blank hb2 (head_cons (Or.inr (by decide)))))
      (lex_blank hb2 (head_cons (by decide)) (lex_close h))
  | .call f arg (some n), ws, rest, ts, hwf, hl, _, h => by
    obtain ⟨hb1, he, hb3, hn, hb4, hb2⟩ := hl
    obtain ⟨c, r, hcr, hc⟩ := render_headF arg (rest1 ws) hwf.1
    obtain ⟨cn, rn, hcn, hcn1, _⟩ := renderNumber_head n hn
    rw [render_call2]
    simp only [toksF, openTok, closeTok, commaTok, List.append_assoc, List.cons_append,
      List.nil_append]
    refine lex_word (rest := _) ?_
    refine lex_open (lex_blank hb1 (FQ.noWS_of_startF hcr hc _) ?_)
    refine lex_f arg _ _ _ hwf.1 he
      (exprStop_stopF arg (exprStop_blank hb3 (head_cons (Or.inr (by decide))))) ?_
    refine lex_blank hb3 (head_cons (by decide)) (lex_comma ?_)
    refine lex_blank hb4 (noWS_of_start hcn hcn1 _) ?_
    refine lex_number hn (numStop_closeF _ _ hb2) ?_
    exact lex_blank hb2 (head_cons (by decide)) (lex_close h)

/-- The lexer on a rendered expression followed by `rest`. -/
theorem lexStatement : LexStatement := fun e ws rest hwf h hs =>
  lexes_lex (lex_f e ws rest _ hwf h (exprStop_stopF e hs) (lexes_lex_self rest))

/-- The lexer on a rendered query. -/
theorem lexQueryStatement : LexQueryStatement := by
  intro e ws hwf h
  obtain ⟨hb0, he, hb1⟩ := h
  obtain ⟨c, r, hcr, hc⟩ := render_headF e (rest1 ws) hwf
  apply lexes_lex
  have : renderQuery e ws = blank1 ws ++ ((render e (rest1 ws)).1 ++
      (blank1 (afterF e (rest1 ws)) ++ [])) := by
    simp [renderQuery_eq]
  rw [this]
  have h2 : queryToksF e ws = blankTok (blank1 ws) ++ (toksF e (rest1 ws) ++
      (blankTok (blank1 (afterF e (rest1 ws))) ++ [])) := by
    simp [queryToksF]
  rw [h2]
  exact lex_blank hb0 (FQ.noWS_of_startF hcr hc _)
    (lex_f e _ _ _ hwf he (exprStop_stopF e (exprStop_blank hb1 (head_nil _)))
      (lex_blank hb1 (head_nil _) lexes_nil))

/-! ### The default layout (one space at every blank position) is admissible -/

theorem afterF_nil : ∀ e : FExprU, (render e []).2 = []
  | .num l => by
    cases hp : l.percent with
    | false => rw [render_num l [] hp]
    | true => rw [render_pct l [] hp]; rfl
  | .qty l u => by rw [render_qty]; rfl
  | .bin op a b => by
    rw [render_bin]
    simp only [afterF, afterF_nil a, rest1_nil]
    exact afterF_nil b
  | .paren e => by
    rw [render_paren]
    simp only [afterF, rest1_nil, afterF_nil e]
  | .cast e u => by
    rw [render_cast]
    simp only [afterF, afterF_nil e, rest1_nil]
  | .fact p v u => by rw [render_fact]
  | .call f arg none => by
    rw [render_call1]
    simp only [afterF, rest1_nil, afterF_nil arg]
  | .call f arg (some n) => by
    rw [render_call2]
    simp only [afterF, rest1_nil, afterF_nil arg]

theorem layoutOKF_nil : ∀ e : FExprU, WFF e → UnitsLexOKF e → LayoutOKF e []
  | .num l, h, _ => ⟨h, fun _ => blank_default⟩
  | .qty l u, h, hu => ⟨h.1, hu, blank_default, fun hb => absurd hb blank1_nil_ne⟩
  | .bin op a b, h, hu => by
    simp only [WFF] at h
    simp only [LayoutOKF, afterF, afterF_nil a, rest1_nil]
    exact ⟨layoutOKF_nil a h.1 hu.1, blank_default, blank_default, layoutOKF_nil b h.2.1 hu.2,
      fun _ hb => absurd hb blank1_nil_ne, fun _ _ => blank1_nil_ne⟩
  | .paren e, h, hu => by
    simp only [WFF] at h
    simp only [LayoutOKF, afterF, rest1_nil, afterF_nil e]
    exact ⟨blank_default, layoutOKF_nil e h hu, blank_default⟩
  | .cast e u, h, hu => by
    simp only [WFF] at h
    simp only [LayoutOKF, afterF, afterF_nil e, rest1_nil]
    exact ⟨layoutOKF_nil e h hu.1, hu.2, blank_default, blank_default, blank1_nil_ne,
      fun _ => blank1_nil_ne⟩
  | .fact _ _ _, _, _ => trivial
  | .call f arg none, h, hu => by
    simp only [WFF] at h
    simp only [LayoutOKF, afterF, rest1_nil, afterF_nil arg]
    exact ⟨blank_default, layoutOKF_nil arg h.1 hu, blank_default, trivial⟩
  | .call f arg (some n), h, hu => by
    simp only [WFF] at h
    simp only [LayoutOKF, afterF, rest1_nil, afterF_nil arg]
    exact ⟨blank_default, layoutOKF_nil arg h.1 hu, blank_default, (h.2 n rfl).1, blank_default,
      blank_default⟩

/-- Every well-formed expression whose units are spelled with lexer words has an admissible
layout: the default one. -/
theorem queryLayoutOKF_nil (e : FExprU) (hwf : WFF e) (hu : UnitsLexOKF e) :
    QueryLayoutOKF e [] := by
  refine ⟨blank_default, layoutOKF_nil e hwf hu, ?_⟩
  show Blank (blank1 (render e []).2)
  rw [afterF_nil e]; exact blank_default

/-! ### Non-vacuity -/

/-- `round( 50 % , 1 )`-shaped value: a call with a precision around a percent literal. -/
example : ∃ e : FExprU, WFF e ∧ UnitsLexOKF e ∧ QueryLayoutOKF e [] := by
  have hwf : WFF (.call .round (.num ⟨none, [5, 0], none, none, true⟩)
      (some ⟨none, [1], none, none, false⟩)) := by
    refine ⟨?_, fun n hn => ?_⟩
    · simp [WFF, Literal.WF, fracDigits]
    · cases hn; simp [Literal.WF, fracDigits]
  exact ⟨_, hwf, trivial, queryLayoutOKF_nil _ hwf trivial⟩

end Anything.FU
