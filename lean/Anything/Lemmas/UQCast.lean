import Anything.Lemmas.UQLaws
/-!
# The unified expression language — `<phrase> to <unit>` between incommensurable units is
`illegalCast`

The general theorem (`eval_repU_full`) says "an error" when the specification has no value. For the
text `<phrase> to <unit>` the kind is pinned here: the tree is `[phrase leaf, OP_CAST, UNIT]`
(`repU_cast_fact_inv`), and `Compound::factor` answers `None`, which `eval` reports as
`illegalCast`.
-/

namespace Anything.UQ
open Anything Anything.Eval Anything.Spec Anything.Spec.Arith Anything.Spec.Decimal
open Anything.Spec.Quantity Anything.Spec.SI Anything.QQ Anything.FQ Anything.Props.C04
open Anything.C06 (opKids opKind at_opKids map_eq_cons map_eq_one at_eta kids_node kind_node
  opKids_size_le size_node)

/-- The last step of a non-empty chain. -/
theorem foldRQL_last {R : Tree → QExpr → Prop} {p : Nat} {acc e : QExpr} {ts : List Tree}
    (h : FoldRQL R p acc ts e) : ts ≠ [] →
    ∃ ts' o x acc', ts = ts' ++ [o, x] ∧ FoldRQL R p acc ts' acc' ∧
      ((∃ op b, o.kind = opKind op ∧ op.prio = p ∧ R x b ∧ e = .bin op acc' b) ∨
       (∃ u, o.kind = .OP_CAST ∧ p = 1 ∧ RepUnit x u ∧ e = .cast acc' u)) := by
  induction h with
  | nil p acc => intro h; exact absurd rfl h
  | @cons p acc o x op b e rest ho hop hx htail ih =>
    intro _
    by_cases hr : rest = []
    · subst hr
      cases htail
      exact ⟨[], o, x, acc, rfl, .nil _ _, Or.inl ⟨op, b, ho, hop, hx, rfl⟩⟩
    · obtain ⟨ts', o', x', acc', hts, hf, hlast⟩ := ih hr
      exact ⟨o :: x :: ts', o', x', acc', by rw [hts]; rfl, .cons ho hop hx hf, hlast⟩
  | @cast p acc o x u e rest ho hp1 hx htail ih =>
    intro _
    by_cases hr : rest = []
    · subst hr
      cases htail
      exact ⟨[], o, x, acc, rfl, .nil _ _, Or.inr ⟨u, ho, hp1, hx, rfl⟩⟩
    · obtain ⟨ts', o', x', acc', hts, hf, hlast⟩ := ih hr
      exact ⟨o :: x :: ts', o', x', acc', by rw [hts]; rfl, .cast ho hp1 hx hf, hlast⟩

/-- The tree of `<phrase> to <unit>`: an OPERATION node whose children with children are the
phrase leaf, an OP_CAST node and a UNIT node. -/
theorem repU_cast_fact_inv {t : Tree} {p : List Char} {v : Rat} {u : List (UnitKey × Int × Int)}
    {tu : List RTerm} (h : RepU t (.cast (.fact p v u) tu)) :
    ∃ id ks x0 o xu, t = .node id .OPERATION ks ∧ opKids ks = [x0, o, xu] ∧
      RepU x0 (.fact p v u) ∧ o.kind = .OP_CAST ∧ RepUnit xu tu := by
  cases h with
  | @chain id ks x₀ rest e₀ _ p' hk hne hx0 _ hfold =>
    obtain ⟨ts', o, x, acc', hts, hf, hlast⟩ := foldRQL_last hfold hne
    rcases hlast with ⟨op, b, _, _, _, he⟩ | ⟨u', ho, _, hx, he⟩
    · cases he
    · cases he
      rcases foldRQL_shape hf with ⟨hnil, hacc⟩ | ⟨_, _, _, hb⟩ | ⟨_, _, hc⟩
      · subst hnil
        subst hacc
        exact ⟨id, ks, x₀, o, x, rfl, by rw [hk, hts]; rfl, hx0, ho, hx⟩
      · cases hb
      · cases hc

/-- The tree of a phrase: a WORD or SENTENCE node whose text is the phrase. -/
theorem repU_fact_inv {t : Tree} {p : List Char} {v : Rat} {u : List (UnitKey × Int × Int)}
    (h : RepU t (.fact p v u)) :
    t.kind = (if factMore p = [] then Syntax.WORD else Syntax.SENTENCE) ∧ t.hasChildren = true ∧
      t.text = p := by
  cases h with
  | fact h1 h2 h3 => exact ⟨h1, h2, h3⟩
  | chain _ hne _ _ hf =>
    rcases foldRQL_shape hf with ⟨h, _⟩ | ⟨_, _, _, h⟩ | ⟨_, _, h⟩
    · exact absurd h hne
    · cases h
    · cases h

theorem agree_fact (c : Fact) (hprop : Proportional c.unit) (hkn : AllKnown c.unit) :
    Agree ⟨c.value, c.unit⟩ (factVal c.value (resultUnit c.unit)) := by
  refine ⟨(siOfResult_resultUnit _ _).symm, ?_, fun _ h => (nomatch h), hprop, hkn⟩
  intro hp
  simpa [factVal, resultUnit] using hp

/-- **`<phrase> to <unit>`, incommensurable: the evaluator answers `illegalCast`.** -/
theorem eval_cast_fact_illegal (cfg : Cfg) (t : Tree) (p : List Char) (c : Fact)
    (tu : List RTerm) (s₂ : UnitSem) (off fuel : Nat) (d : List Desc)
    (h : RepU t (.cast (.fact p c.value (resultUnit c.unit)) tu)) (hdb : cfg.db p = .found c)
    (hprop : Proportional c.unit) (hkn : AllKnown c.unit) (hu₂ : UnitOK tu)
    (hs₂ : resolveAll tu = some s₂) (hd₁ : dims (semOf c.unit) ≠ DimVec.zero)
    (hd₂ : dims s₂ ≠ DimVec.zero) (hne : dims (semOf c.unit) ≠ dims s₂)
    (hf : 2 * size t ≤ fuel) :
    ∃ s' t' L, eval cfg fuel ⟨off, t⟩ d = (.error (.err .illegalCast s' t'), L) := by
  obtain ⟨id, ks, x0, o, xu, rfl, hk, hx0, ho, hxu⟩ := repU_cast_fact_inv h
  have hL := at_opKids ⟨off, .node id .OPERATION ks⟩
  simp only [kids_node, hk] at hL
  obtain ⟨x0a, L1, hLeq, hx0a, hL1⟩ := map_eq_cons hL
  obtain ⟨oa, L2, rfl, hoa, hL2⟩ := map_eq_cons hL1
  obtain ⟨xua, hL3, hxua⟩ := map_eq_one hL2
  subst hL3
  -- fuel
  have hs1 := opKids_size_le ks
  simp only [hk, sizeList, size_node] at hs1 hf
  have p0 := C06.size_pos x0
  have p1 := C06.size_pos o
  have p2 := C06.size_pos xu
  obtain ⟨F, rfl⟩ : ∃ F, fuel = F + 4 := ⟨fuel - 4, by omega⟩
  -- the unit
  obtain ⟨T, hT, hTs, pT, kT, _⟩ := unitFacts.fwd xu tu s₂ xua.off d hxu hu₂ hs₂
  rw [← hxua, at_eta] at hT
  -- the phrase leaf
  obtain ⟨hkind, _, htx⟩ := repU_fact_inv hx0
  have hlk : eval cfg (F + 1) x0a = lookup cfg x0a := by
    rw [← hx0a] at hkind
    by_cases hm : factMore p = []
    · simp only [hm, ↓reduceIte] at hkind; simp only [eval, hkind]
    · simp only [hm, ↓reduceIte] at hkind; simp only [eval, hkind]
  have htext : x0a.t.text = p := by rw [hx0a]; exact htx
  obtain ⟨d2, hforce⟩ : ∃ d2, force cfg (F + 2) (.node x0a) d = (.ok ⟨c.value, c.unit⟩, d2) := by
    rw [Eval.force_node, hlk, lookup_apply, htext, hdb]
    exact ⟨_, rfl⟩
  -- the cast refuses
  have hemp : (resultUnit c.unit).isEmpty = false := by
    have hdim : (siOfResult c.value (resultUnit c.unit)).dim ≠ DimVec.zero := by
      rw [siOfResult_resultUnit]; exact hd₁
    have := dims_ne_zero_ne_nil hdim
    cases hu : resultUnit c.unit <;> simp_all
  have hstep := cast_step T ⟨c.value, c.unit⟩ (factVal c.value (resultUnit c.unit)) s₂ hTs pT kT
    (unitOK_proportional tu s₂ hu₂ hs₂) (agree_fact c hprop hkn)
    (Or.inr ⟨by simp only [factVal, siOfResult_resultUnit]; exact hd₁, hd₂⟩)
  have hcv : castVal (factVal c.value (resultUnit c.unit)) s₂ = .error .dims := by
    have hq : (siOfResult c.value (resultUnit c.unit)).dim ≠ dims s₂ := by
      rw [siOfResult_resultUnit]; exact hne
    simp [castVal, factVal, hemp, inUnit, hq]
  rw [hcv] at hstep
  simp only at hstep
  refine ⟨off, At.stop ⟨off, .node id .OPERATION ks⟩, d2, ?_⟩
  rw [show F + 4 = (F + 3) + 1 from rfl, eval_operation cfg (F + 3) _ x0a [oa, xua] rfl hLeq]
  simp only [Eval.bind_apply]
  rw [Props.C02.opFold_cast cfg (F + 2) _ oa xua [] (.node x0a) d d d2 T ⟨c.value, c.unit⟩
    (hoa ▸ ho) hT hforce, hstep]

/-- **`<phrase> to <unit>` as text, incommensurable: the single result is `illegalCast`.** -/
theorem query_cast_fact_illegal (cfg : Cfg) (p : List Char) (c : Fact) (u₂ : List RTerm)
    (s₂ : UnitSem) (ws : Layout) (hp : PhraseU p) (hdb : cfg.db p = .found c)
    (hprop : Proportional c.unit) (hkn : AllKnown c.unit) (hu₂ : UnitOK u₂)
    (hs₂ : resolveAll u₂ = some s₂) (hd₁ : dims (semOf c.unit) ≠ DimVec.zero)
    (hd₂ : dims s₂ ≠ DimVec.zero) (hne : dims (semOf c.unit) ≠ dims s₂)
    (hl : QueryLayoutOKU (.cast (.fact p c.value (resultUnit c.unit)) u₂) ws) :
    ∃ s t L, Eval.query cfg (renderQuery (.cast (.fact p c.value (resultUnit c.unit)) u₂) ws) =
      .ok ([.error (.err .illegalCast s t)], L) := by
  obtain ⟨x, off, hx, hq⟩ := query_renderU_eval cfg _ ws (show WFS (.cast (.fact p _ _) u₂) from hp) hl
  obtain ⟨s', t', L, hev⟩ := eval_cast_fact_illegal cfg x p c u₂ s₂ off (2 * size x + 2) [] hx hdb
    hprop hkn hu₂ hs₂ hd₁ hd₂ hne (by omega)
  exact ⟨s', t', L, by rw [hq, hev]⟩

end Anything.UQ
