import Anything.Lemmas.QQFrames
import Anything.Lemmas.C06Parse
/-!
# Quantity expressions, stage D — the grammar on the token list of a rendered expression

The analogue of `Lemmas/C06Parse.lean` for `QExpr`. The specifications of `Grammar.value` on a
literal (with or without unit) and of `Grammar.unit` on a written unit expression are hypotheses
here (`ValueSpecQ`, `UnitSpecQ` of `Lemmas/QQParseDefs.lean`).
-/

namespace Anything.QQ
open Anything Anything.Parser Anything.Grammar Anything.PTotal Anything.Spec.Arith
open Anything.Spec.Quantity Anything.C06

/-! ### One `opLoop` iteration whose top frame is the `to` frame -/

theorem opLoop_unfold_unit (F opn : Nat) (stack : List (Nat × Nat × Bool)) (first : Bool)
    (skip : Nat) (hu : isUnitTop stack = true) :
    opLoop (F + 1) opn stack first skip =
      ((do bumpN skip; Grammar.unit F 0 : PM (Option Nat)) >>= fun cur? =>
        match cur? with
        | none => pure none
        | some cur => afterValue F opn stack first cur) := by
  cases stack with
  | nil => exact absurd hu (by simp [isUnitTop])
  | cons f r =>
    obtain ⟨c, p, u⟩ := f
    have : u = true := hu
    subst this
    unfold opLoop afterValue; rfl

/-! ### Tokens -/

/-- The token of an operator. -/
def qopTok : QOp → Token
  | .bin op => opTok op
  | .cast => toTok

theorem opInfo_qopTok (op : QOp) :
    opInfo (qopTok op).kind = some (op.prio, qopKind op, op.isTo) := by
  cases op with
  | bin b => cases b <;> rfl
  | cast => rfl

theorem qopTok_notWS (op : QOp) : (qopTok op).kind ≠ .WHITESPACE := by
  cases op with
  | bin b => exact opTok_notWS b
  | cast => simp [qopTok, toTok]

theorem followKindQ_notWS {K' : List Token} (h : FollowKindQ (headKind K')) : NotWSHead K' := by
  intro t r hK
  subst hK
  simp only [headKind] at h
  intro hws
  rw [hws] at h
  simp [FollowKindQ] at h

/-! ### `reduce` simulates `reduceQ` -/

theorem reduceQ_lt {cur : QOpd} {acc : QExpr} {op o : QOp} {st : StackQ} (h : op.prio < o.prio) :
    reduceQ cur op ((acc, o) :: st) = reduceQ (.ex (mk o acc cur)) op st := by
  simp [reduceQ, h]

theorem reduceQ_eq {cur : QOpd} {acc : QExpr} {op o : QOp} {st : StackQ} (h1 : ¬ op.prio < o.prio)
    (h2 : ¬ o.prio < op.prio) :
    reduceQ cur op ((acc, o) :: st) = (mk o acc cur, op) :: st := by
  simp [reduceQ, h1, h2]

theorem isTo_iff_prio (o : QOp) : o.isTo = true ↔ o.prio = 1 := by
  cases o with
  | bin b => have := two_le_prio b; simp only [QOp.isTo, QOp.prio_bin]; constructor <;> intro h <;> first | cases h | omega
  | cast => simp [QOp.isTo]

theorem isTo_eq_of_prio {o op : QOp} (h : o.prio = op.prio) : o.isTo = op.isTo := by
  have h1 := isTo_iff_prio o
  have h2 := isTo_iff_prio op
  rw [h] at h1
  cases ho : o.isTo <;> cases hop : op.isTo <;> simp_all

/-- The result of `reduce`, described against the specification-level `reduceQ`. -/
def ReduceOutQ (P : List Tree) (ecur : QOpd) (op : QOp) (st : StackQ)
    (stack' : List (Nat × Nat × Bool)) (b' : Builder) : Prop :=
  ∃ G1 Y v st1 c1 stack1, reduceQ ecur op st = (v, op) :: st1 ∧
    stack' = (c1, op.prio, op.isTo) :: stack1 ∧ b'.forest = P ++ G1 ++ Y ∧
    StackOKQ b' P.length G1 stack1 st1 ∧ OpenSegQ op.prio Y v ∧ Pos b' c1 (P.length + G1.length)

/-- An operand that is a unit is followed by `to` only. -/
def OpFits (ecur : QOpd) (op : QOp) : Prop := ∀ u, ecur = .un u → op = .cast

theorem reduce_simQ (cur : Nat) (op : QOp) (P : List Tree) :
    ∀ (stack : List (Nat × Nat × Bool)) (st : StackQ) (G : List Tree) (x : Tree) (ecur : QOpd)
      {s : PState}, StackOKQ s.b P.length G stack st → st ≠ [] → s.b.forest = P ++ G ++ [x] →
      RepOpd x ecur → WTq st ecur → OpFits ecur op → C06.Good s.b → NoNext s.b →
      (topPrioQ st < op.prio → Pos s.b cur (P.length + G.length)) →
      Tot (reduce cur op.prio op.isTo stack) s (fun stack' s' =>
        s'.toks = s.toks ∧ C06.Good s'.b ∧ NoNext s'.b ∧ Ext P.length s.b s'.b ∧
        ReduceOutQ P ecur op st stack' s'.b) := by
  intro stack
  induction stack with
  | nil =>
    intro st G x ecur s hso hne
    cases hso
    exact absurd rfl hne
  | cons f rest ih =>
    intro st G x ecur s hso _ hf hx hwt hfit hg hn hcur
    cases hso with
    | @cons G' S c acc o _ st' hso' hseg hpos =>
    have hm := wt_match hwt
    unfold reduce
    by_cases h1 : op.prio < o.prio
    · -- close the frame
      simp only [h1, ↓reduceIte]
      have hf' : s.b.forest = P ++ G' ++ (S ++ [x]) := by rw [hf]; simp
      obtain ⟨htk, hdr⟩ := take_drop_at P G' (S ++ [x])
      refine tot_seq (closeAt_wrap .OPERATION hg hn hpos (by rw [hf']; simp))
        fun _ s1 ⟨ht1, ⟨id, hf1⟩, g1, n1, p1, e1⟩ => ?_
      rw [hf', htk, hdr] at hf1
      have hN := segOKQ_close id hseg hx hm
      have hso1 : StackOKQ s1.b P.length G' rest st' := hso'.mono e1
      have hle : P.length ≤ P.length + G'.length := Nat.le_add_right _ _
      have hOpen : OpenSegQ op.prio [Tree.node id .OPERATION (S ++ [x])] (mk o acc ecur) :=
        openSegQ_single (W := []) op.prio wsTrees_nil hN
      have hro : ∀ stack' b', ReduceOutQ P (.ex (mk o acc ecur)) op st' stack' b' →
          ReduceOutQ P ecur op ((acc, o) :: st') stack' b' := by
        intro stack' b' hr
        unfold ReduceOutQ at hr ⊢
        rw [reduceQ_lt h1]; exact hr
      cases hso' with
      | nil =>
        exact tot_pure ⟨ht1, g1, n1, e1.mono hle, hro _ _
          ⟨[], _, _, [], c, [], rfl, rfl, hf1, .nil, hOpen, p1⟩⟩
      | @cons G'' S2 c2 acc2 o2 rest2 st'' hso'' hseg2 hpos2 =>
        simp only
        by_cases h3 : o2.prio ≥ op.prio
        · simp only [h3, ↓reduceIte]
          refine tot_mono (ih ((acc2, o2) :: st'') (G'' ++ S2) _ (.ex (mk o acc ecur)) hso1 (by simp)
            hf1 hN (wt_close hwt) (fun u hu => nomatch hu) g1 n1
            (fun hlt => by simp only [topPrioQ] at hlt; omega))
            fun stack' s2 ⟨ht2, g2, n2, e2, hout⟩ => ?_
          exact ⟨ht2.trans ht1, g2, n2, (e1.mono hle).trans e2, hro _ _ hout⟩
        · simp only [h3, ↓reduceIte]
          refine tot_pure ⟨ht1, g1, n1, e1.mono hle, hro _ _ ⟨G'' ++ S2, _, _, _, c, _, ?_, rfl, hf1,
            hso1, hOpen, p1⟩⟩
          exact reduceQ_push _ op _ (by simp only [topPrioQ]; omega)
    · simp only [h1, ↓reduceIte]
      by_cases h2 : op.prio > o.prio
      · -- push a new frame
        simp only [h2, ↓reduceIte]
        have hex : ∃ e, ecur = .ex e := by
          cases ecur with
          | ex e => exact ⟨e, rfl⟩
          | un u =>
            have := hfit u rfl
            subst this
            have := qop_prio_pos o
            simp only [QOp.prio_cast] at h2
            omega
        obtain ⟨e, rfl⟩ := hex
        refine tot_pure ⟨rfl, hg, hn, Ext.refl (by rw [hf]; simp), G' ++ S, [x], e, _, cur, _,
          ?_, rfl, hf, .cons hso' hseg hpos, openSegQ_single (W := []) op.prio wsTrees_nil hx,
          hcur (by simpa [topPrioQ] using h2)⟩
        exact reduceQ_push _ op _ (by simpa [topPrioQ] using h2)
      · -- same priority: the frame absorbs the operand
        simp only [h2, ↓reduceIte]
        have heq : o.prio = op.prio := by omega
        refine tot_pure ⟨rfl, hg, hn, Ext.refl (by rw [hf]; simp), G', S ++ [x], _, st', c, rest,
          reduceQ_eq h1 (by omega), by rw [heq, isTo_eq_of_prio heq], by rw [hf]; simp, hso',
          heq ▸ segOKQ_extend hseg hx hm, hpos⟩

/-! ### `closeAll` simulates `closeAllQ` -/

theorem closeAll_simQ (P : List Tree) :
    ∀ (stack : List (Nat × Nat × Bool)) (st : StackQ) (G : List Tree) (x : Tree) (ecur : QOpd)
      {s : PState}, StackOKQ s.b P.length G stack st → s.b.forest = P ++ G ++ [x] →
      RepOpd x ecur → WTq st ecur → C06.Good s.b → NoNext s.b →
      Tot (closeAll stack) s (fun _ s' =>
        s'.toks = s.toks ∧ C06.Good s'.b ∧ NoNext s'.b ∧ Ext P.length s.b s'.b ∧
        ∃ x', s'.b.forest = P ++ [x'] ∧ RepOpd x' (closeAllQ ecur st)) := by
  intro stack
  induction stack with
  | nil =>
    intro st G x ecur s hso hf hx _ hg hn
    cases hso
    exact tot_pure ⟨rfl, hg, hn, Ext.refl (by rw [hf]; simp), x, by simpa using hf, hx⟩
  | cons f rest ih =>
    intro st G x ecur s hso hf hx hwt hg hn
    cases hso with
    | @cons G' S c acc o _ st' hso' hseg hpos =>
    unfold closeAll
    have hf' : s.b.forest = P ++ G' ++ (S ++ [x]) := by rw [hf]; simp
    obtain ⟨htk, hdr⟩ := take_drop_at P G' (S ++ [x])
    refine tot_seq (closeAt_wrap .OPERATION hg hn hpos (by rw [hf']; simp))
      fun _ s1 ⟨ht1, ⟨id, hf1⟩, g1, n1, p1, e1⟩ => ?_
    rw [hf', htk, hdr] at hf1
    have hN := segOKQ_close id hseg hx (wt_match hwt)
    have hle : P.length ≤ P.length + G'.length := Nat.le_add_right _ _
    refine tot_mono (ih st' G' _ (.ex (mk o acc ecur)) (hso'.mono e1) hf1 hN (wt_close hwt) g1 n1)
      fun _ s2 ⟨ht2, g2, n2, e2, hout⟩ => ?_
    exact ⟨ht2.trans ht1, g2, n2, (e1.mono hle).trans e2, hout⟩

/-! ### Loop invariants -/

/-- The builder at the head of an `opLoop` iteration: nothing built yet (`first`), or the part
`G` of the forest beyond the prefix `P` matches the stack. -/
def LoopInvQ (b : Builder) (P : List Tree) (opn : Nat) (first : Bool)
    (stack : List (Nat × Nat × Bool)) (st : StackQ) : Prop :=
  if first then stack = [] ∧ st = [] ∧ b.forest = P ∧ Pos b opn P.length
  else ∃ G, b.forest = P ++ G ∧ StackOKQ b P.length G stack st ∧ st ≠ []

/-- The builder after the operand `x` (representing `ecur`, checkpoint `cur`) has been parsed. -/
def AfterInvQ (b : Builder) (P : List Tree) (opn : Nat) (first : Bool)
    (stack : List (Nat × Nat × Bool)) (st : StackQ) (cur : Nat) (ecur : QOpd) : Prop :=
  if first then stack = [] ∧ st = [] ∧ ∃ W x, b.forest = P ++ W ++ [x] ∧ WSTrees W ∧
      RepOpd x ecur ∧ Pos b opn P.length ∧ Pos b cur (P.length + W.length)
  else ∃ G x, b.forest = P ++ G ++ [x] ∧ StackOKQ b P.length G stack st ∧ st ≠ [] ∧
      RepOpd x ecur ∧ Pos b cur (P.length + G.length)

theorem reduce_firstQ (cur opn p : Nat) (u : Bool) :
    reduce cur p u [(opn, p, u)] = pure [(opn, p, u)] := by
  unfold reduce
  simp

/-- One iteration's tail when an operator follows. -/
theorem afterValue_opQ {s : PState} {P : List Tree} {opn : Nat} {first : Bool}
    {stack : List (Nat × Nat × Bool)} {st : StackQ} {cur : Nat} {ecur : QOpd} (F : Nat)
    (op : QOp) (Wk W2 K2 : List Token) {Q : Option Nat → PState → Prop}
    (hinv : AfterInvQ s.b P opn first stack st cur ecur) (hwt : WTq st ecur)
    (hfit : OpFits ecur op) (hg : C06.Good s.b) (hn : NoNext s.b)
    (ht : s.toks = Wk ++ qopTok op :: (W2 ++ K2)) (hwk : AllWS Wk) (hw2 : AllWS W2)
    (hk2 : NotWSHead K2)
    (hcont : ∀ s2 stack2, LoopInvQ s2.b P opn false stack2 (reduceQ ecur op st) → C06.Good s2.b →
      s2.toks = W2 ++ K2 → Ext P.length s.b s2.b → Tot (opLoop F opn stack2 false W2.length) s2 Q) :
    Tot (afterValue F opn stack first cur) s Q := by
  have hnw : NotWSHead (qopTok op :: (W2 ++ K2)) := by
    intro t r htr; cases htr; exact qopTok_notWS op
  unfold afterValue
  refine tot_countSkip_ws Wk _ ht hwk hnw ?_
  refine tot_nth_ws Wk _ ht ?_
  simp only [headKind, opInfo_qopTok]
  -- common tail: the blank and the operator node are appended, then the loop goes on
  have tail : ∀ (s1 : PState) (stack1 : List (Nat × Nat × Bool)) (G1 Y : List Tree) (v : QExpr)
      (st1 : StackQ) (c1 : Nat) (stackr : List (Nat × Nat × Bool)),
      s1.toks = s.toks → C06.Good s1.b → Ext P.length s.b s1.b →
      reduceQ ecur op st = (v, op) :: st1 → stack1 = (c1, op.prio, op.isTo) :: stackr →
      s1.b.forest = P ++ G1 ++ Y → StackOKQ s1.b P.length G1 stackr st1 → OpenSegQ op.prio Y v →
      Pos s1.b c1 (P.length + G1.length) →
      Tot (do bumpN Wk.length; bumpNode (qopKind op); let skip ← countSkip
              opLoop F opn stack1 false skip) s1 Q := by
    intro s1 stack1 G1 Y v st1 c1 stackr ht1 g1 e1 hra hst1 hf1 hso1 hopen hp1
    refine tot_seq (bumpN_ws Wk (ht1.trans ht) hwk g1)
      fun _ s2 ⟨ht2, ⟨Wt, hf2, hWt, _⟩, g2, _, e2⟩ => ?_
    refine tot_seq (bumpNode_exact (qopKind op) ht2 g2)
      fun _ s3 ⟨ht3, ⟨id, id', hf3⟩, g3, n3, e3⟩ => ?_
    refine tot_countSkip_ws W2 K2 ht3 hw2 hk2 ?_
    have hle1 : P.length + G1.length ≤ s1.b.forest.length := by rw [hf1]; simp
    have e13 : Ext s1.b.forest.length s1.b s3.b := e2.trans (e3.mono (by rw [hf2]; simp))
    refine hcont s3 stack1 ?_ g3 ht3 (e1.trans (e13.mono (by rw [hf1]; simp)))
    simp only [LoopInvQ, Bool.false_eq_true, ↓reduceIte]
    refine ⟨G1 ++ (Y ++ Wt ++ [.node id (qopKind op) [.tok id' (qopTok op).kind (qopTok op).text]]), ?_,
      ?_, by rw [hra]; simp⟩
    · rw [hf3, hf2, hf1]; simp
    · rw [hra, hst1]
      exact .cons (hso1.mono (e13.mono hle1)) (openSegQ_op hopen hWt rfl rfl)
        (e13.pos c1 _ hle1 hp1)
  cases first with
  | true =>
    simp only [AfterInvQ, ↓reduceIte] at hinv
    obtain ⟨rfl, rfl, W, x, hf, hW, hx, hpo, hpc⟩ := hinv
    simp only [↓reduceIte, reduce_firstQ]
    have hex : ∃ e, ecur = .ex e := by
      cases ecur with
      | ex e => exact ⟨e, rfl⟩
      | un u => obtain ⟨acc, h⟩ := hwt; cases h
    obtain ⟨e, rfl⟩ := hex
    refine tot_seq (tot_pure (Q := fun r s' => r = [(opn, op.prio, op.isTo)] ∧ s' = s) ⟨rfl, rfl⟩)
      fun stack1 s1 ⟨hs1, hs⟩ => ?_
    subst hs
    exact tail s1 stack1 [] (W ++ [x]) e [] opn [] rfl hg (Ext.refl (by rw [hf]; simp)) rfl hs1
      (by rw [hf]; simp) .nil (openSegQ_single op.prio hW hx) (by simpa using hpo)
  | false =>
    simp only [AfterInvQ, Bool.false_eq_true, ↓reduceIte] at hinv
    obtain ⟨G, x, hf, hso, hne, hx, hpc⟩ := hinv
    simp only [Bool.false_eq_true, ↓reduceIte]
    refine tot_seq (reduce_simQ cur op P stack st G x ecur hso hne hf hx hwt hfit hg hn (fun _ => hpc))
      fun stack1 s1 ⟨ht1, g1, _, e1, G1, Y, v, st1, c1, stackr, hra, hst1, hf1, hso1, hopen, hp1⟩ => ?_
    exact tail s1 stack1 G1 Y v st1 c1 stackr ht1 g1 e1 hra hst1 hf1 hso1 hopen hp1

/-- Kinds that end an expression: `)` or the end of the input. -/
def EndKindQ (k : Syntax) : Prop := k = .CLOSE_PAREN ∨ k = .EOF

theorem endKindQ_follow {k : Syntax} (h : EndKindQ k) : FollowKindQ k := by
  rcases h with h | h <;> simp [FollowKindQ, h]

/-- One iteration's tail when no operator follows: all frames are closed. -/
theorem afterValue_endQ {s : PState} {P : List Tree} {opn : Nat} {first : Bool}
    {stack : List (Nat × Nat × Bool)} {st : StackQ} {cur : Nat} {ecur : QOpd} (F : Nat)
    (Wk K' : List Token)
    (hinv : AfterInvQ s.b P opn first stack st cur ecur) (hwt : WTq st ecur) (hg : C06.Good s.b)
    (hn : NoNext s.b)
    (ht : s.toks = Wk ++ K') (hwk : AllWS Wk) (hk : EndKindQ (headKind K')) :
    Tot (afterValue F opn stack first cur) s (fun r s' => r = some Wk.length ∧ s'.toks = s.toks ∧
      C06.Good s'.b ∧ NoNext s'.b ∧ Ext P.length s.b s'.b ∧
      ∃ W x', s'.b.forest = P ++ W ++ [x'] ∧ WSTrees W ∧ RepOpd x' (closeAllQ ecur st)) := by
  unfold afterValue
  refine tot_countSkip_ws Wk _ ht hwk (followKindQ_notWS (endKindQ_follow hk)) ?_
  refine tot_nth_ws Wk _ ht ?_
  have : opInfo (headKind K') = none := by
    rcases hk with h | h <;> rw [h] <;> rfl
  simp only [this]
  cases first with
  | true =>
    simp only [AfterInvQ, ↓reduceIte] at hinv
    obtain ⟨rfl, rfl, W, x, hf, hW, hx, _, _⟩ := hinv
    simp only [closeAll]
    refine tot_seq (tot_pure (Q := fun _ s' => s' = s) rfl) fun _ s1 hs => ?_
    subst hs
    exact tot_pure ⟨rfl, rfl, hg, hn, Ext.refl (by rw [hf]; simp), W, x, hf, hW, hx⟩
  | false =>
    simp only [AfterInvQ, Bool.false_eq_true, ↓reduceIte] at hinv
    obtain ⟨G, x, hf, hso, _, hx, _⟩ := hinv
    refine tot_seq (closeAll_simQ P stack st G x ecur hso hf hx hwt hg hn)
      fun _ s1 ⟨ht1, g1, n1, e1, x', hf1, hx'⟩ => ?_
    exact tot_pure ⟨rfl, ht1, g1, n1, e1, [], x', by simpa using hf1, wsTrees_nil, hx'⟩

/-! ### Specifications of `opLoop` and `operation` on a rendered expression -/

/-- `opLoop` across the tokens of `e` (continuation-passing): the loop arrives after the last
operand of `e` in the state the specification-level machine reaches by `runQ st (flatQ e)`. -/
def LoopSpecQ (e : QExpr) : Prop :=
  ∃ Fe, ∀ (ws : Layout) (s : PState) (P : List Tree) (opn : Nat) (first : Bool)
    (stack : List (Nat × Nat × Bool)) (st : StackQ) (W0 K : List Token)
    (Q : Option Nat → PState → Prop) (F1 : Nat),
    WFQ e → LayoutOKQ e ws → LoopInvQ s.b P opn first stack st → NoTo st → C06.Good s.b →
    s.toks = W0 ++ (toksQ e ws ++ K) → AllWS W0 → FollowsQ e K →
    (∀ s1 stack1 cur,
      AfterInvQ s1.b P opn (first && (flatQ e).2.isEmpty) stack1 (runQ st (flatQ e).1 (flatQ e).2).1
        cur (runQ st (flatQ e).1 (flatQ e).2).2 →
      C06.Good s1.b → NoNext s1.b → s1.toks = K → Ext P.length s.b s1.b →
      Tot (afterValue F1 opn stack1 (first && (flatQ e).2.isEmpty) cur) s1 Q) →
    Tot (opLoop (Fe + F1) opn stack first W0.length) s Q

/-- `operation` on the whole expression `e` followed by `)` or the end of the input. -/
def OpSpecQ (e : QExpr) : Prop :=
  ∃ Fe, ∀ (ws : Layout) (s : PState) (W0 Wk K' : List Token), WFQ e → LayoutOKQ e ws →
    C06.Good s.b →
    s.toks = W0 ++ (toksQ e ws ++ (Wk ++ K')) → AllWS W0 → AllWS Wk → EndKindQ (headKind K') →
    Tot (operation Fe W0.length) s (fun r s' => ∃ Wt x, r = some Wk.length ∧ s'.toks = Wk ++ K' ∧
      s'.b.forest = s.b.forest ++ Wt ++ [x] ∧ WSTrees Wt ∧ RepresentsQL x e ∧
      C06.Good s'.b ∧ NoNext s'.b ∧ Ext s.b.forest.length s.b s'.b)

theorem loopInvQ_isUnit {b : Builder} {P : List Tree} {opn : Nat} {first : Bool}
    {stack : List (Nat × Nat × Bool)} {st : StackQ} (h : LoopInvQ b P opn first stack st)
    (hnt : NoTo st) : isUnitTop stack = false := by
  cases first with
  | true =>
    simp only [LoopInvQ, ↓reduceIte] at h
    rw [h.1]; rfl
  | false =>
    simp only [LoopInvQ, Bool.false_eq_true, ↓reduceIte] at h
    obtain ⟨G, _, hso, _⟩ := h
    rw [hso.isUnitTop, isToTop_noTo hnt]

/-- An operand that is a single `value` is read by one loop iteration. -/
theorem loop_of_valueQ (e : QExpr) (hflat : flatQ e = (.ex e, [])) (hv : ValueSpecQ e) :
    LoopSpecQ e := by
  obtain ⟨Fv, hv⟩ := hv
  refine ⟨Fv + 1, ?_⟩
  intro ws s P opn first stack st W0 K Q F1 hwf hlay hinv hnt hg ht hw0 hK hcont
  have hF : Fv + 1 + F1 = (Fv + F1) + 1 := by omega
  rw [hF, opLoop_unfold _ _ _ _ _ (loopInvQ_isUnit hinv hnt)]
  refine tot_seq (tot_le (le_value (Nat.le_add_right Fv F1) _) (hv ws s W0 K hwf hlay hg ht hw0 hK))
    fun r s1 ⟨cur, Wt, x, hr, ht1, hf1, hWt, hx, hp1, g1, n1, e1⟩ => ?_
  subst hr
  simp only
  refine tot_le (le_afterValue (Nat.le_add_left F1 Fv) _ _ _ _) ?_
  simp only [hflat, List.isEmpty_nil, Bool.and_true, runQ] at hcont
  cases first with
  | true =>
    simp only [LoopInvQ, ↓reduceIte] at hinv
    obtain ⟨rfl, rfl, hf, hpo⟩ := hinv
    have hlen : s.b.forest.length = P.length := by rw [hf]
    refine hcont s1 [] cur ?_ g1 n1 ht1 (hlen ▸ e1)
    simp only [AfterInvQ, ↓reduceIte, true_and]
    exact ⟨Wt, x, hf ▸ hf1, hWt, hx, e1.pos opn _ (by rw [hlen]) hpo, hlen ▸ hp1⟩
  | false =>
    simp only [LoopInvQ, Bool.false_eq_true, ↓reduceIte] at hinv
    obtain ⟨G, hf, hso, hne⟩ := hinv
    have hlen : s.b.forest.length = P.length + G.length := by rw [hf]; simp
    refine hcont s1 stack cur ?_ g1 n1 ht1 (e1.mono (by omega))
    simp only [AfterInvQ, Bool.false_eq_true, ↓reduceIte]
    refine ⟨G ++ Wt, x, by rw [hf1, hf]; simp, (hso.mono (hlen ▸ e1)).ws hne hWt, hne, hx, ?_⟩
    rw [hlen] at hp1
    simpa [Nat.add_assoc] using hp1

/-! ### Heads of token lists -/

/-- The token list of a well-formed expression starts with a NUMBER or OPEN_PAREN token. -/
theorem toksQ_head : ∀ (e : QExpr) (ws : Layout), WFQ e → ∃ t r, toksQ e ws = t :: r ∧
    (t.kind = .NUMBER ∨ t.kind = .OPEN_PAREN)
  | .num l, ws, _ => ⟨_, _, rfl, Or.inl rfl⟩
  | .qty l u, ws, _ => by
    simp only [toksQ, List.cons_append, List.nil_append]
    exact ⟨_, _, rfl, Or.inl rfl⟩
  | .bin op a b, ws, hwf => by
    simp only [WFQ] at hwf
    obtain ⟨t, r, h, hk⟩ := toksQ_head a ws hwf.1
    simp only [toksQ, h]
    exact ⟨t, _, rfl, hk⟩
  | .paren e, ws, _ => by
    simp only [toksQ]
    exact ⟨_, _, rfl, Or.inr rfl⟩
  | .cast a u, ws, hwf => by
    simp only [WFQ] at hwf
    obtain ⟨t, r, h, hk⟩ := toksQ_head a ws hwf
    simp only [toksQ, h]
    exact ⟨t, _, rfl, hk⟩
  | .fact _ _ _, _, hwf => absurd hwf (by simp [WFQ])

theorem toksQ_notWS (e : QExpr) (ws : Layout) (K : List Token) (hwf : WFQ e) :
    NotWSHead (toksQ e ws ++ K) := by
  obtain ⟨t, r, h, hk⟩ := toksQ_head e ws hwf
  intro t' r' heq
  rw [h] at heq
  cases heq
  rcases hk with h | h <;> rw [h] <;> simp

theorem joinItems_head (f : RTerm → List UItem) (hf : ∀ t, ∃ r, f t = ⟨.WORD, .WORD, word t⟩ :: r)
    (t : RTerm) (ts : List RTerm) : ∃ r, joinItems ((t :: ts).map f) = ⟨.WORD, .WORD, word t⟩ :: r := by
  obtain ⟨r, hr⟩ := hf t
  cases ts with
  | nil => exact ⟨r, by simp [joinItems, hr]⟩
  | cons t' ts => exact ⟨_, by simp only [List.map_cons, joinItems, hr, List.cons_append]; rfl⟩

/-- A written unit expression starts with a NUMBER or WORD token. -/
theorem unitToks_head (u : List RTerm) : ∃ t r, unitToks u = t :: r ∧
    (t.kind = .NUMBER ∨ t.kind = .WORD) := by
  unfold unitToks unitItems
  cases hn : nums u with
  | nil =>
    simp only [List.isEmpty_nil, ↓reduceIte, oneItem, List.cons_append, List.nil_append,
      List.map_cons]
    exact ⟨_, _, rfl, Or.inl rfl⟩
  | cons t ts =>
    obtain ⟨r, hr⟩ := joinItems_head (fun t => termItems t t.power) (fun t => ⟨_, rfl⟩) t ts
    rw [hr]
    simp only [List.isEmpty_cons, Bool.false_eq_true, ↓reduceIte, List.cons_append,
      List.map_cons]
    exact ⟨_, _, rfl, Or.inr rfl⟩

theorem unitToks_notWS (u : List RTerm) (K : List Token) : NotWSHead (unitToks u ++ K) := by
  obtain ⟨t, r, h, hk⟩ := unitToks_head u
  intro t' r' heq
  rw [h] at heq
  cases heq
  rcases hk with h | h <;> rw [h] <;> simp

/-! ### What follows an operand -/

theorem blankTok_eq_nil {b : List Char} (h : blankTok b = []) : b = [] := by
  unfold blankTok at h
  split at h
  · assumption
  · cases h

theorem followKindQ_qopTok (op : QOp) (rest : List Token) :
    FollowKindQ (headKind (qopTok op :: rest)) := by
  cases op with
  | bin b => cases b <;> simp [headKind, qopTok, opTok, FollowKindQ]
  | cast => simp [headKind, qopTok, toTok, FollowKindQ]

/-- The left operand of an operator: `*`, `/`, `^`, `to` are separated from a unit. -/
theorem followsQ_op (a : QExpr) (b1 : List Char) (op : QOp) (rest : List Token)
    (h : endsUnit a = true →
      (op = .bin .mul ∨ op = .bin .div ∨ op = .bin .pow ∨ op = .cast) → b1 ≠ []) :
    FollowsQ a (blankTok b1 ++ (qopTok op :: rest)) := by
  unfold FollowsQ
  split
  · rename_i hu
    refine ⟨blankTok b1, qopTok op :: rest, rfl, allWS_blankTok b1, followKindQ_qopTok op rest, ?_⟩
    intro hnil
    have hb := blankTok_eq_nil hnil
    cases op with
    | bin b =>
      cases b with
      | add => exact Or.inl rfl
      | sub => exact Or.inr (Or.inl rfl)
      | mul => exact absurd hb (h hu (by simp))
      | div => exact absurd hb (h hu (by simp))
      | pow => exact absurd hb (h hu (by simp))
    | cast => exact absurd hb (h hu (by simp))
  · exact ⟨blankTok b1, qopTok op :: rest, rfl, allWS_blankTok b1, followKindQ_qopTok op rest⟩

theorem followsQ_end (e : QExpr) (Wk K' : List Token) (hwk : AllWS Wk)
    (hend : EndKindQ (headKind K')) : FollowsQ e (Wk ++ K') := by
  unfold FollowsQ
  split
  · exact ⟨Wk, K', rfl, hwk, endKindQ_follow hend, fun _ => by
      rcases hend with h | h <;> simp [h]⟩
  · exact ⟨Wk, K', rfl, hwk, endKindQ_follow hend⟩

/-! ### Binary operators -/

/-- A binary expression: the loop reads `a`, the operator, then `b`. -/
theorem loop_binQ (op : BinOp) (a b : QExpr) (ha : LoopSpecQ a) (hb : LoopSpecQ b) :
    LoopSpecQ (.bin op a b) := by
  obtain ⟨Fa, ha⟩ := ha
  obtain ⟨Fb, hb⟩ := hb
  refine ⟨Fa + Fb, ?_⟩
  intro ws s P opn first stack st W0 K Q F1 hwf hlay hinv hnt hg ht hw0 hK hcont
  simp only [WFQ] at hwf
  obtain ⟨wfa, wfb, hpa, _⟩ := hwf
  obtain ⟨la, hb1, hb2, lb, _, hsep⟩ := hlay
  have hF : Fa + Fb + F1 = Fa + (Fb + F1) := by omega
  rw [hF]
  have hrun : runQ st (flatQ (.bin op a b)).1 (flatQ (.bin op a b)).2 =
      runQ (reduceQ (runQ st (flatQ a).1 (flatQ a).2).2 (.bin op) (runQ st (flatQ a).1 (flatQ a).2).1)
        (flatQ b).1 (flatQ b).2 := by
    simp only [flatQ, runQ_append, runQ]
  have hemp : (flatQ (.bin op a b)).2.isEmpty = false := by simp [flatQ]
  simp only [hemp, Bool.and_false, hrun] at hcont
  obtain ⟨wta, xa⟩ := wt_run a wfa st hnt
  obtain ⟨x, hx⟩ := xa (by have := two_le_prio op; omega)
  have hK' : FollowsQ b K := hK
  refine ha ws s P opn first stack st W0
    (blankTok (blank1 (afterQ a ws)) ++ (qopTok (.bin op) :: (blankTok (blank1 (rest1 (afterQ a ws))) ++
      (toksQ b (rest1 (rest1 (afterQ a ws))) ++ K)))) Q (Fb + F1) wfa la hinv hnt hg
    (by rw [ht]; simp only [toksQ, qopTok, List.append_assoc, List.nil_append, List.cons_append]) hw0
    (followsQ_op a _ (.bin op) _ (fun hu hop => hsep hu (by
      rcases hop with h | h | h | h
      · cases h; exact Or.inl rfl
      · cases h; exact Or.inr (Or.inl rfl)
      · cases h; exact Or.inr (Or.inr rfl)
      · cases h))) ?_
  intro s1 stack1 cur hinv1 g1 n1 ht1 e1
  refine afterValue_opQ (Fb + F1) (.bin op) _ _ _ hinv1 wta (fun u hu => by rw [hx] at hu; cases hu)
    g1 n1 ht1 (allWS_blankTok _) (allWS_blankTok _) (toksQ_notWS b _ K wfb) ?_
  intro s2 stack2 hinv2 g2 ht2 e2
  have hnt2 : NoTo (reduceQ (runQ st (flatQ a).1 (flatQ a).2).2 (.bin op)
      (runQ st (flatQ a).1 (flatQ a).2).1) := by
    rw [hx] at wta ⊢
    exact noTo_reduce op _ _ wta
  refine hb _ s2 P opn false stack2 _ _ K Q F1 wfb lb hinv2 hnt2 g2 ht2 (allWS_blankTok _) hK' ?_
  intro s3 stack3 cur3 hinv3 g3 n3 ht3 e3
  simp only [Bool.false_and] at hinv3 ⊢
  exact hcont s3 stack3 cur3 hinv3 g3 n3 ht3 ((e1.trans e2).trans e3)

/-! ### Casts -/

/-- A cast: the loop reads `a`, the operator `to`, then — the top frame being the `to` frame —
the unit expression. -/
theorem loop_castQ (a : QExpr) (u : List RTerm) (ha : LoopSpecQ a) (hu : UnitSpecQ u) :
    LoopSpecQ (.cast a u) := by
  obtain ⟨Fa, ha⟩ := ha
  obtain ⟨Fu, hu⟩ := hu
  refine ⟨Fa + (Fu + 1), ?_⟩
  intro ws s P opn first stack st W0 K Q F1 hwf hlay hinv hnt hg ht hw0 hK hcont
  simp only [WFQ] at hwf
  obtain ⟨la, _, hb1, hb2, _, hsep⟩ := hlay
  have hF : Fa + (Fu + 1) + F1 = Fa + ((Fu + F1) + 1) := by omega
  rw [hF]
  have hrun : runQ st (flatQ (.cast a u)).1 (flatQ (.cast a u)).2 =
      (reduceQ (runQ st (flatQ a).1 (flatQ a).2).2 .cast (runQ st (flatQ a).1 (flatQ a).2).1,
        .un u) := by
    simp only [flatQ, runQ_append, runQ]
  have hemp : (flatQ (.cast a u)).2.isEmpty = false := by simp [flatQ]
  simp only [hemp, Bool.and_false, hrun] at hcont
  obtain ⟨wta, _⟩ := wt_run a hwf st hnt
  have hUF : UFollowQ K := hK
  refine ha ws s P opn first stack st W0
    (blankTok (blank1 (afterQ a ws)) ++ (qopTok .cast :: (blankTok (blank1 (rest1 (afterQ a ws))) ++
      (unitToks u ++ K)))) Q ((Fu + F1) + 1) hwf la hinv hnt hg
    (by rw [ht]; simp only [toksQ, qopTok, List.append_assoc, List.nil_append, List.cons_append]) hw0
    (followsQ_op a _ .cast _ (fun hu _ => hsep hu)) ?_
  intro s1 stack1 cur hinv1 g1 n1 ht1 e1
  refine afterValue_opQ ((Fu + F1) + 1) .cast _ _ _ hinv1 wta (fun _ _ => rfl)
    g1 n1 ht1 (allWS_blankTok _) (allWS_blankTok _) (unitToks_notWS u K) ?_
  intro s2 stack2 hinv2 g2 ht2 e2
  simp only [LoopInvQ, Bool.false_eq_true, ↓reduceIte] at hinv2
  obtain ⟨G, hf2, hso, hne⟩ := hinv2
  obtain ⟨v, hv⟩ := reduceQ_to _ _ wta
  have hunit : isUnitTop stack2 = true := by rw [hso.isUnitTop, hv]; rfl
  rw [opLoop_unfold_unit _ _ _ _ _ hunit]
  have hlen2 : s2.b.forest.length = P.length + G.length := by rw [hf2]; simp
  refine tot_seq (P := fun r s4 => ∃ cur Wt x, r = some cur ∧ s4.toks = K ∧
      s4.b.forest = s2.b.forest ++ Wt ++ [x] ∧ WSTrees Wt ∧ RepUnit x u ∧ x.hasChildren = true ∧
      Pos s4.b cur (s2.b.forest.length + Wt.length) ∧ C06.Good s4.b ∧ NoNext s4.b ∧
      Ext s2.b.forest.length s2.b s4.b) ?_ ?_
  · refine tot_seq (bumpN_ws _ ht2 (allWS_blankTok _) g2)
      fun _ s3 ⟨ht3, ⟨Wt1, hf3, hWt1, _⟩, g3, _, e3⟩ => ?_
    refine tot_mono (tot_le (le_unit (Nat.le_add_right Fu F1) _)
      (hu s3 [] K g3 (by simpa using ht3) allWS_nil hUF))
      fun r s4 ⟨cur4, Wt, x, hr, ht4, hf4, hWt, hx, hc, hp4, g4, n4, e4⟩ => ?_
    refine ⟨cur4, Wt1 ++ Wt, x, hr, ht4, by rw [hf4, hf3]; simp, wsTrees_append hWt1 hWt, hx, hc,
      ?_, g4, n4, e3.trans (e4.mono (by rw [hf3]; simp))⟩
    rw [hf3] at hp4
    simpa [Nat.add_assoc] using hp4
  · intro r s4 ⟨cur4, Wt, x, hr, ht4, hf4, hWt, hx, hc, hp4, g4, n4, e4⟩
    subst hr
    simp only
    refine tot_le (le_afterValue (Nat.le_add_left F1 Fu) _ _ _ _) ?_
    refine hcont s4 stack2 cur4 ?_ g4 n4 ht4 ((e1.trans e2).trans (e4.mono (by omega)))
    simp only [AfterInvQ, Bool.false_eq_true, ↓reduceIte]
    refine ⟨G ++ Wt, x, by rw [hf4, hf2]; simp, (hso.mono (hlen2 ▸ e4)).ws hne hWt, hne, ⟨hx, hc⟩, ?_⟩
    rw [hlen2] at hp4
    simpa [Nat.add_assoc] using hp4

/-! ### `operation` -/

/-- `operation` = a checkpoint, the loop across the whole expression, and the final closing of all
frames; by precedence-climbing correctness (`closeAll_run_flatQ`) the result represents `e`. -/
theorem op_of_loopQ (e : QExpr) (hl : LoopSpecQ e) : OpSpecQ e := by
  obtain ⟨Fl, hl⟩ := hl
  refine ⟨Fl + 0 + 1, ?_⟩
  intro ws s W0 Wk K' hwf hlay hg ht hw0 hwk hend
  unfold operation
  refine tot_seq (checkpoint_exact hg) fun opn s1 ⟨ht1, hf1, _, g1, p1, e1⟩ => ?_
  refine hl ws s1 s.b.forest opn true [] [] W0 (Wk ++ K') _ 0 hwf hlay ?_ noTo_nil g1 (ht1.trans ht)
    hw0 (followsQ_end e Wk K' hwk hend) ?_
  · simp only [LoopInvQ, ↓reduceIte, true_and]
    exact ⟨hf1, p1⟩
  · intro s2 stack2 cur hinv2 g2 n2 ht2 e2
    refine tot_mono (afterValue_endQ 0 Wk K' hinv2 (wt_run e hwf [] noTo_nil).1 g2 n2 ht2 hwk hend)
      fun r s3 ⟨hr, ht3, g3, n3, e3, W, x', hf3, hW, hx'⟩ => ?_
    refine ⟨W, x', hr, ht3.trans ht2, hf3, hW, ?_, g3, n3, e1.trans (e2.trans e3)⟩
    rw [closeAll_run_flatQ e hwf] at hx'
    exact hx'

/-! ### Operands: parenthesised groups -/

theorem value_parenQ (e : QExpr) (ho : OpSpecQ e) : ValueSpecQ (.paren e) := by
  obtain ⟨Fo, ho⟩ := ho
  refine ⟨Fo + 1, ?_⟩
  intro ws s W0 K hwf hlay hg ht hw0 _
  obtain ⟨hb1, le, hb2⟩ := hlay
  simp only [WFQ] at hwf
  simp only [toksQ, List.append_assoc, List.cons_append, List.nil_append] at ht
  unfold Grammar.value
  refine tot_nth_ws W0 _ ht ?_
  simp only [headKind]
  refine tot_seq (bumpN_ws W0 ht hw0 hg) fun _ s1 ⟨ht1, ⟨Wt, hf1, hWt, hlen⟩, g1, _, e1⟩ => ?_
  refine tot_seq (checkpoint_exact g1) fun c s2 ⟨ht2, hf2, _, g2, p2, e2⟩ => ?_
  refine tot_seq (bump_exact (ht2.trans ht1) g2) fun _ s3 ⟨ht3, ⟨ido, hf3⟩, g3, _, e3⟩ => ?_
  refine tot_countSkip_ws (blankTok (blank1 ws)) _ ht3 (allWS_blankTok _) (toksQ_notWS e _ _ hwf) ?_
  refine tot_seq (ho (rest1 ws) s3 (blankTok (blank1 ws)) (blankTok (blank1 (afterQ e (rest1 ws))))
    (⟨.CLOSE_PAREN, [')']⟩ :: K) hwf le g3 ht3 (allWS_blankTok _) (allWS_blankTok _)
    (Or.inl rfl)) fun r s4 ⟨Wt', x, hr, ht4, hf4, hWt', hx, g4, _, e4⟩ => ?_
  subst hr
  simp only
  refine tot_seq (eat_yes _ _ K .CLOSE_PAREN ht4 (allWS_blankTok _) rfl g4)
    fun b s5 ⟨hb, ht5, ⟨Fw, idc, hf5, hFw, _⟩, g5, n5, e5⟩ => ?_
  subst hb
  simp only [Bool.not_true, Bool.false_eq_true, ↓reduceIte]
  have hl1 : s1.b.forest.length = s.b.forest.length + Wt.length := by rw [hf1]; simp
  have hf3' : s3.b.forest = s.b.forest ++ Wt ++ [.tok ido .OPEN_PAREN ['(']] := by
    rw [hf3, hf2, hf1]
  have hf5' : s5.b.forest = (s.b.forest ++ Wt) ++
      (.tok ido .OPEN_PAREN ['('] :: (Wt' ++ [x] ++ Fw ++ [.tok idc .CLOSE_PAREN [')']])) := by
    rw [hf5, hf4, hf3']; simp
  have hle3 : s1.b.forest.length ≤ s3.b.forest.length := by rw [hf3', hl1]; simp
  have hle4 : s1.b.forest.length ≤ s4.b.forest.length := by rw [hf4]; simp; omega
  have e25 : Ext s1.b.forest.length s2.b s5.b :=
    ((hf2 ▸ e3 : Ext s1.b.forest.length s2.b s3.b).trans (e4.mono hle3)).trans (e5.mono hle4)
  have p5 : Pos s5.b c (s.b.forest.length + Wt.length) := hl1 ▸ e25.pos c _ (Nat.le_refl _) p2
  refine tot_seq (closeAt_wrap .OPERATION g5 n5 p5 (by rw [hf5']; simp))
    fun _ s6 ⟨ht6, ⟨id, hf6⟩, g6, n6, p6, e6⟩ => ?_
  refine tot_pure ⟨c, Wt, .node id .OPERATION (.tok ido .OPEN_PAREN ['('] ::
    (Wt' ++ [x] ++ Fw ++ [.tok idc .CLOSE_PAREN [')']])), rfl, ht6.trans ht5, ?_, hWt, ?_, p6, g6,
    n6, ?_⟩
  · rw [hf6, hf5']
    have hl : s.b.forest.length + Wt.length = (s.b.forest ++ Wt).length := by simp
    rw [hl, List.take_left' rfl, List.drop_left' rfl]
  · refine .paren ?_ hx
    rw [show (Tree.tok ido Syntax.OPEN_PAREN ['('] :: (Wt' ++ [x] ++ Fw ++ [Tree.tok idc Syntax.CLOSE_PAREN [')']]))
      = [Tree.tok ido Syntax.OPEN_PAREN ['(']] ++ Wt' ++ [x] ++ Fw ++ [Tree.tok idc Syntax.CLOSE_PAREN [')']] by simp]
    simp only [opKids_append, opKids_tok, opKids_ws hWt', opKids_ws hFw,
      opKids_single (hasChildren_of_representsQ hx), List.nil_append, List.append_nil]
  · have hle : s.b.forest.length ≤ s1.b.forest.length := by omega
    exact e1.trans (((e2.trans e25).trans (hl1 ▸ e6)).mono hle)

/-! ### All expressions -/

/-- The operand-level facts (proved in `Lemmas/QQOperands.lean`). -/
structure Operands : Prop where
  unit : ∀ u : List RTerm, UnitSpecQ u
  num : ∀ l : Spec.Decimal.Literal, ValueSpecQ (.num l)
  qty : ∀ (l : Spec.Decimal.Literal) (u : List RTerm), ValueSpecQ (.qty l u)

theorem loopSpecQ (ops : Operands) : ∀ e : QExpr, LoopSpecQ e
  | .num l => loop_of_valueQ _ rfl (ops.num l)
  | .qty l u => loop_of_valueQ _ rfl (ops.qty l u)
  | .bin op a b => loop_binQ op a b (loopSpecQ ops a) (loopSpecQ ops b)
  | .paren e => loop_of_valueQ _ rfl (value_parenQ e (op_of_loopQ e (loopSpecQ ops e)))
  | .cast a u => loop_castQ a u (loopSpecQ ops a) (ops.unit u)
  | .fact _ _ _ => ⟨0, fun _ _ _ _ _ _ _ _ _ _ _ hwf => absurd hwf (by simp [WFQ])⟩

theorem opSpecQ (ops : Operands) (e : QExpr) : OpSpecQ e := op_of_loopQ e (loopSpecQ ops e)

/-- `Grammar.value` on every operand. -/
theorem valueSpecQ (ops : Operands) : ∀ e : QExpr, (∀ op a b, e ≠ .bin op a b) →
    (∀ a u, e ≠ .cast a u) → ValueSpecQ e
  | .num l, _, _ => ops.num l
  | .qty l u, _, _ => ops.qty l u
  | .paren e, _, _ => value_parenQ e (opSpecQ ops e)
  | .bin op a b, h, _ => absurd rfl (h op a b)
  | .cast a u, _, h => absurd rfl (h a u)
  | .fact _ _ _, _, _ => ⟨0, fun _ _ _ _ hwf => absurd hwf (by simp [WFQ])⟩

end Anything.QQ
