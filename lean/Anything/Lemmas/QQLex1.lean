import Anything.Lemmas.QQLexDefs
/-!
# Quantity expressions end to end — lexer, part 1: rendering in projection form, the items of a
written unit expression, number / word / keyword tokens

Helper file of `Lemmas/QQLex.lean` (the analogue of `Lemmas/C06Lex.lean` for `QExpr`).
-/

namespace Anything.QQ
open Anything Anything.Lexer Anything.Spec Anything.Spec.Arith Anything.Spec.Decimal
open Anything.Spec.Quantity Anything.C06 Anything.Lemmas.Number

/-! ### Rendering in projection form -/

theorem render_num (l : Literal) (ws : Layout) :
    Quantity.render (.num l) ws = (renderNumber l, ws) := by
  simp only [Quantity.render]

theorem render_qty (l : Literal) (u : List RTerm) (ws : Layout) :
    Quantity.render (.qty l u) ws = (renderNumber l ++ blank1 ws ++ renderUnit u, rest1 ws) := by
  simp only [Quantity.render]

theorem render_binQ (op : BinOp) (a b : QExpr) (ws : Layout) :
    Quantity.render (.bin op a b) ws =
      ((Quantity.render a ws).1 ++ blank1 (afterQ a ws) ++ op.sym ++ blank1 (rest1 (afterQ a ws)) ++
        (Quantity.render b (rest1 (rest1 (afterQ a ws)))).1,
        afterQ b (rest1 (rest1 (afterQ a ws)))) := by
  simp only [Quantity.render]

theorem render_parenQ (e : QExpr) (ws : Layout) :
    Quantity.render (.paren e) ws =
      (['('] ++ blank1 ws ++ (Quantity.render e (rest1 ws)).1 ++ blank1 (afterQ e (rest1 ws)) ++ [')'],
        rest1 (afterQ e (rest1 ws))) := by
  simp only [Quantity.render]

theorem render_cast (e : QExpr) (u : List RTerm) (ws : Layout) :
    Quantity.render (.cast e u) ws =
      ((Quantity.render e ws).1 ++ blank1 (afterQ e ws) ++ ['t', 'o'] ++
        blank1 (rest1 (afterQ e ws)) ++ renderUnit u, rest1 (rest1 (afterQ e ws))) := by
  simp only [Quantity.render]

theorem render_fact (p : List Char) (v : Rat) (u : List (UnitKey × Int × Int)) (ws : Layout) :
    Quantity.render (.fact p v u) ws = (p, ws) := by
  simp only [Quantity.render]

theorem renderQuery_eq (e : QExpr) (ws : Layout) :
    Quantity.renderQuery e ws =
      blank1 ws ++ (Quantity.render e (rest1 ws)).1 ++ blank1 (afterQ e (rest1 ws)) := by
  simp only [Quantity.renderQuery]

/-! ### The written unit expression, item by item -/

/-- The text of a list of items. -/
abbrev itemsText (is : List UItem) : List Char := is.flatMap (·.text)

theorem renderTerm_items (t : RTerm) (p : Int) : renderTerm t p = itemsText (termItems t p) := by
  unfold renderTerm termItems itemsText
  split <;> simp [caretItem, word]

theorem joinStar_items (ls : List (List UItem)) :
    itemsText (joinItems ls) = joinStar (ls.map itemsText) := by
  induction ls with
  | nil => rfl
  | cons x xs ih =>
    cases xs with
    | nil => simp [joinItems, joinStar]
    | cons y ys =>
      simp only [joinItems, List.map_cons, joinStar] at ih ⊢
      simp only [itemsText, List.flatMap_append, List.flatMap_cons, starItem] at ih ⊢
      rw [ih]
      simp

theorem joinStar_terms (ts : List RTerm) (f : RTerm → Int) :
    joinStar (ts.map (fun t => renderTerm t (f t))) =
      itemsText (joinItems (ts.map (fun t => termItems t (f t)))) := by
  rw [joinStar_items, List.map_map]
  congr 1
  apply List.map_congr_left
  intro t _
  exact renderTerm_items t (f t)

theorem renderUnit_items (u : List RTerm) :
    Quantity.renderUnit u = (unitItems u).flatMap (·.text) := by
  have h1 := joinStar_terms (nums u) (fun t => t.power)
  have h2 := joinStar_terms (dens u) (fun t => -t.power)
  unfold renderUnit unitItems
  simp only [nums, dens] at h1 h2 ⊢
  rw [h1, h2, List.flatMap_append]
  congr 1
  · split <;> rename_i h <;> simp only [h, ↓reduceIte] <;> simp [oneItem, itemsText]
  · split <;> rename_i h <;> simp only [h, ↓reduceIte] <;> simp [slashItem, itemsText]


/-! ### Numbers: the weakest stop condition -/

/-- The input after a number does not continue it. -/
def NumEnd (rest : List Char) : Prop := ∀ dot, countNumber dot rest = 0

theorem numEnd_nil : NumEnd [] := fun _ => by rw [countNumber]

theorem numStop_numEnd {rest : List Char} (h : NumStop rest) : NumEnd rest :=
  fun dot => cn_stop dot rest h

theorem numEnd_head {rest : List Char} (h : NumEnd rest) :
    Head (fun c => isDigit c = false) rest := by
  intro c r hcr
  subst hcr
  cases hd : isDigit c with
  | false => rfl
  | true =>
    have := h false
    rw [countNumber.eq_def] at this
    simp [hd] at this

theorem glueOK_numEnd {s : List Char} (h : GlueOK s) : NumEnd s := by
  intro dot
  cases s with
  | nil => rw [countNumber]
  | cons c r =>
    obtain ⟨h1, h2, h3⟩ := h c r rfl
    rw [countNumber.eq_def]
    simp only [h1, Bool.false_eq_true, ↓reduceIte]
    have h2' : (c == '.') = false := by simpa using h2
    simp only [h2', Bool.false_and, Bool.false_eq_true, ↓reduceIte]
    split
    · rename_i he
      simp only [Bool.or_eq_true, beq_iff_eq] at he
      obtain ⟨b, r', rfl, hb1, hb2⟩ := h3 he
      simp [hb1, hb2]
    · rfl

theorem glueOK_append {s rest : List Char} (h : GlueOK s) (hne : s ≠ []) : GlueOK (s ++ rest) := by
  intro c r hcr
  cases s with
  | nil => exact absurd rfl hne
  | cons c' r' =>
    simp only [List.cons_append, List.cons.injEq] at hcr
    obtain ⟨rfl, rfl⟩ := hcr
    obtain ⟨h1, h2, h3⟩ := h c' r' rfl
    refine ⟨h1, h2, fun he => ?_⟩
    obtain ⟨b, r'', rfl, hb⟩ := h3 he
    exact ⟨b, r'' ++ rest, rfl, hb⟩

theorem cw_digits' (ds : List Nat) (hd : ∀ d ∈ ds, d < 10) (rest : List Char) (h : NumEnd rest) :
    countWhile isDigit (ds.map digitChar ++ rest) = ds.length := by
  induction ds with
  | nil =>
    cases rest with
    | nil => rfl
    | cons c r => simp [countWhile, numEnd_head h c r rfl]
  | cons d ds ih =>
    have h1 := digitChar_isDigit (hd d (by simp))
    simp only [List.map_cons, List.cons_append, List.length_cons, countWhile, h1, ↓reduceIte]
    rw [ih (fun x hx => hd x (by simp [hx]))]
    omega

theorem cn_exp' (dot : Bool) (exp : Option Exponent) (rest : List Char)
    (hwf : ∀ e, exp = some e → e.WF) (h : NumEnd rest) :
    countNumber dot (renderExp exp ++ rest) = (renderExp exp).length := by
  cases exp with
  | none => simpa [renderExp] using h dot
  | some e =>
    obtain ⟨hne, hd⟩ := hwf e rfl
    have hm : ∀ m : Char, (m = 'e' ∨ m = 'E') →
        isDigit m = false ∧ (m == '.') = false ∧ (m == 'e' || m == 'E') = true := by
      intro m hm; rcases hm with rfl | rfl <;> decide
    obtain ⟨c1, c2, c3⟩ := hm (if e.upper then 'E' else 'e') (by cases e.upper <;> simp)
    simp only [renderExp, List.append_assoc, List.cons_append,
      List.length_cons, List.length_append, List.length_map]
    rw [countNumber.eq_def]
    simp only [c1, c2, c3, Bool.false_eq_true, ↓reduceIte, Bool.false_and]
    cases hs : e.sign with
    | some sg =>
      have hsg : ∃ b, renderSign (some sg) = [b] ∧ isSign b = true := by
        cases sg <;> exact ⟨_, rfl, by decide⟩
      obtain ⟨b, hb, hbs⟩ := hsg
      simp only [hb, List.nil_append,
        List.cons_append, List.length_nil, List.length_cons, hbs, ↓reduceIte,
        cw_digits' e.digits hd rest h, drop_map_append, h dot]
      omega
    | none =>
      cases hds : e.digits with
      | nil => exact absurd hds hne
      | cons d ds =>
        have hd' : ∀ x ∈ ds, x < 10 := fun x hx => hd x (by simp [hds, hx])
        have hd10 : d < 10 := hd d (by simp [hds])
        obtain ⟨f1, _, _, _, _, _, f7, f8⟩ := digitChar_facts ⟨d, hd10⟩
        have hns : isSign (digitChar d) = false := by
          simp only [isSign, Bool.or_eq_false_iff]; exact ⟨f7, f8⟩
        simp only [renderSign, List.nil_append, List.map_cons, List.cons_append, hns, f1,
          Bool.false_eq_true, ↓reduceIte, cw_digits' ds hd' rest h, drop_map_append,
          h dot, List.length_nil, List.length_cons]
        omega

theorem cn_fracexp' (l : Literal) (h : l.WF) (rest : List Char) (hr : NumEnd rest) :
    countNumber false (renderFrac l.frac ++ renderExp l.exp ++ rest) =
      (renderFrac l.frac ++ renderExp l.exp).length := by
  cases hf : l.frac with
  | none =>
    simp only [renderFrac, List.nil_append]
    exact cn_exp' false l.exp rest (lit_exp_wf h) hr
  | some fs =>
    have hfs : ∀ d ∈ fs, d < 10 := by
      intro d hd; apply h.2.1; simp [fracDigits, hf, hd]
    simp only [renderFrac, List.cons_append, List.length_cons, List.length_append, List.length_map]
    rw [countNumber.eq_def]
    have c1 : isDigit '.' = false := by decide
    simp only [c1, Bool.false_eq_true, ↓reduceIte, beq_self_eq_true, Bool.not_false, Bool.and_self]
    rw [List.append_assoc, cn_digits fs hfs, cn_exp' true l.exp rest (lit_exp_wf h) hr]
    omega

theorem cn_body' (l : Literal) (h : l.WF) (rest : List Char) (hr : NumEnd rest) :
    countNumber false (body l ++ rest) = (body l).length := by
  simp only [body, List.append_assoc, List.length_append, List.length_map]
  rw [cn_digits l.int h.1, ← List.append_assoc, cn_fracexp' l h rest hr, List.length_append]

/-- `C06.lex_number` with the weakest stop condition. -/
theorem lex_number' {l : Literal} {rest : List Char} {ts : List Token} (hwf : l.WF)
    (hr : NumEnd rest) (h : Lexes rest ts) :
    Lexes (renderNumber l ++ rest) (⟨.NUMBER, renderNumber l⟩ :: ts) := by
  have hb := cn_body' l hwf rest hr
  have hne := body_ne_nil l hwf
  cases hs : l.sign with
  | some sg =>
    have hpos : countNumber false (body l ++ rest) > 0 := by
      rw [hb]; exact List.length_pos_of_ne_nil hne
    cases sg with
    | plus =>
      refine lexes_cons (c := '+') (r := body l ++ rest)
        (by simp [renderNumber_eq, hs, renderSign]) (by simp [renderNumber_eq, hs, renderSign]) ?_ h
      rw [nn_plus _ _ (by decide), if_pos hpos, hb]
      simp [renderNumber_eq, hs, renderSign, Nat.add_comm]
    | minus =>
      refine lexes_cons (c := '-') (r := body l ++ rest)
        (by simp [renderNumber_eq, hs, renderSign]) (by simp [renderNumber_eq, hs, renderSign]) ?_ h
      rw [nn_dash _ _ (by decide), if_pos hpos, hb]
      simp [renderNumber_eq, hs, renderSign, Nat.add_comm]
  | none =>
    have hrn : renderNumber l = body l := by simp [renderNumber_eq, hs, renderSign]
    rw [hrn]
    cases hi : l.int with
    | cons d ds =>
      have hd : d < 10 := hwf.1 d (by simp [hi])
      have hbody : body l = digitChar d :: (ds.map digitChar ++ (renderFrac l.frac ++ renderExp l.exp)) := by
        simp [body, hi]
      refine lexes_cons (c := digitChar d)
        (r := (ds.map digitChar ++ (renderFrac l.frac ++ renderExp l.exp)) ++ rest)
        (by rw [hbody]; rfl) hne ?_ h
      rw [nn_digit _ _ (digit_tests hd), ← List.cons_append, ← hbody, hb]
    | nil =>
      cases hf : l.frac with
      | none =>
        have := hwf.2.2.1
        simp [hi, fracDigits, hf] at this
      | some fs =>
        have hfs : ∀ d ∈ fs, d < 10 := by
          intro d hd; apply hwf.2.1; simp [fracDigits, hf, hd]
        have hfne : fs ≠ [] := by
          have := hwf.2.2.1
          simpa [hi, fracDigits, hf] using this
        have hbody : body l = '.' :: (fs.map digitChar ++ renderExp l.exp) := by
          simp [body, hi, hf, renderFrac]
        have hcn : countNumber true ((fs.map digitChar ++ renderExp l.exp) ++ rest) =
            (fs.map digitChar ++ renderExp l.exp).length := by
          rw [List.append_assoc, cn_digits fs hfs, cn_exp' true l.exp rest (lit_exp_wf hwf) hr]
          simp
        refine lexes_cons (c := '.') (r := (fs.map digitChar ++ renderExp l.exp) ++ rest)
          (by rw [hbody]; rfl) hne ?_ h
        rw [nn_dot _ _ (by decide) (by
          rw [hcn]
          have := List.length_pos_of_ne_nil hfne
          simp only [List.length_append, List.length_map]; omega), hcn, hbody]
        simp [Nat.add_comm]

/-! ### Words, digit strings, the keyword -/

/-- What may follow a written unit expression: the end of the input or a character that is
neither a word character nor a dot (so it continues neither a word nor a number). -/
def UnitStop (rest : List Char) : Prop := Head (fun c => isWordChar c = false ∧ c ≠ '.') rest

/-- The input ends here or continues with a character that is not a word character. -/
def WordStop (rest : List Char) : Prop := Head (fun c => isWordChar c = false) rest

theorem wordChar_noWS {c : Char} (h : isWordChar c = true) : isWhitespace c = false := by
  cases hw : isWhitespace c with
  | false => rfl
  | true =>
    exfalso
    have ha : 'a'.toNat = 97 := by decide
    have hz : 'z'.toNat = 122 := by decide
    have hA : 'A'.toNat = 65 := by decide
    have hZ : 'Z'.toNat = 90 := by decide
    have h0 : '0'.toNat = 48 := by decide
    have h9 : '9'.toNat = 57 := by decide
    simp only [isWordChar, isDigit, ha, hz, hA, hZ, h0, h9, Bool.or_eq_true, Bool.and_eq_true,
      decide_eq_true_eq, beq_iff_eq] at h
    simp only [isWhitespace, Bool.or_eq_true, Bool.and_eq_true, decide_eq_true_eq,
      beq_iff_eq] at hw
    rcases h with (((h | h) | h) | h) | h
    · omega
    · omega
    · omega
    · subst h; revert hw; decide
    · subst h; revert hw; decide

theorem word_tests {c : Char} (hw : isWordChar c = true) (hd : isDigit c = false) : tests c =
    [false, false, false, false, false, false, false, false, false, false, false, false, false] := by
  have hk : ∀ k ∈ ['{', '.', ',', '*', '/', '+', '-', '^', '%', '(', ')'], isWordChar k = false := by
    decide
  have hne : ∀ k ∈ ['{', '.', ',', '*', '/', '+', '-', '^', '%', '(', ')'], (c == k) = false := by
    intro k hk'
    rw [beq_eq_false_iff_ne]
    intro h; subst h
    rw [hk c hk'] at hw; exact Bool.false_ne_true hw
  simp only [tests, wordChar_noWS hw, hd]
  simp [hne]


theorem digit_noWS {c : Char} (h : isDigit c = true) : isWhitespace c = false := by
  cases hw : isWhitespace c with
  | false => rfl
  | true => rw [(ws_not_num hw).1] at h; exact absurd h Bool.false_ne_true

theorem digit_tests' {c : Char} (hd : isDigit c = true) : tests c =
    [false, false, false, false, true, false, false, false, false, false, false, false, false] := by
  have hk : ∀ k ∈ ['{', '.', ',', '*', '/', '+', '-', '^', '%', '(', ')'], isDigit k = false := by
    decide
  have hne : ∀ k ∈ ['{', '.', ',', '*', '/', '+', '-', '^', '%', '(', ')'], (c == k) = false := by
    intro k hk'
    rw [beq_eq_false_iff_ne]
    intro h; subst h
    rw [hk c hk'] at hd; exact Bool.false_ne_true hd
  simp only [tests, digit_noWS hd, hd]
  simp [hne]

theorem cw_word' (w rest : List Char) (hw : ∀ c ∈ w, isWordChar c = true) (hr : WordStop rest) :
    countWhile isWordChar (w ++ rest) = w.length := by
  induction w with
  | nil =>
    cases rest with
    | nil => rfl
    | cons c r => simp [countWhile, hr c r rfl]
  | cons c w ih =>
    simp only [List.cons_append, countWhile, hw c (by simp), ↓reduceIte, List.length_cons]
    rw [ih (fun y hy => hw y (by simp [hy]))]
    omega

theorem nn_to (c : Char) (r : List Char) (h : tests c = [false, false, false, false, false, false,
    false, false, false, false, false, false, false])
    (hn : countWhile isWordChar (c :: r) > 0)
    (hto : ((c :: r).take (countWhile isWordChar (c :: r)) == ['t', 'o']) = true) :
    nextNormal c r = (.TO, countWhile isWordChar (c :: r), false) := by
  simp only [tests, List.cons.injEq, and_true] at h
  obtain ⟨h1, h2, h3, h4, h5, h6, h7, h8, h9, h10, h11, h12, h13⟩ := h
  unfold nextNormal
  nn_neg h1; nn_neg h2; nn_neg h3; nn_neg h4; nn_neg h5; nn_neg h6; nn_neg h7; nn_neg h8; nn_neg h9
  nn_neg h10; nn_neg h11; nn_neg h12; nn_neg h13
  simp only [hn, ↓reduceIte, hto]

/-- A word literal followed by a non-word character is one `WORD` token. -/
theorem lex_wordLit {w rest : List Char} {ts : List Token} (hw : WordLit w) (hr : WordStop rest)
    (h : Lexes rest ts) : Lexes (w ++ rest) (⟨.WORD, w⟩ :: ts) := by
  obtain ⟨⟨c, r, rfl, hd⟩, hall, hto⟩ := hw
  have hcw := cw_word' (c :: r) rest hall hr
  have hsplit : (c :: r) ++ rest = c :: (r ++ rest) := rfl
  refine lexes_cons (c := c) (r := r ++ rest) hsplit (by simp) ?_ h
  rw [nn_word c (r ++ rest) (word_tests (hall c (by simp)) hd) (by rw [← hsplit, hcw]; simp) (by
    rw [← hsplit, hcw, List.take_left']
    · simpa using hto
    · rfl), ← hsplit, hcw]

/-- The keyword `to` followed by a non-word character. -/
theorem lex_to {rest : List Char} {ts : List Token} (hr : WordStop rest) (h : Lexes rest ts) :
    Lexes (['t', 'o'] ++ rest) (toTok :: ts) := by
  have hcw := cw_word' ['t', 'o'] rest (by decide) hr
  have hsplit : ['t', 'o'] ++ rest = 't' :: ('o' :: rest) := rfl
  refine lexes_cons (c := 't') (r := 'o' :: rest) hsplit (by simp) ?_ h
  rw [nn_to 't' ('o' :: rest) (by decide) (by rw [← hsplit, hcw]; simp) (by
    rw [← hsplit, hcw, List.take_left']
    · rfl
    · rfl), ← hsplit, hcw]

theorem cn_digitChars (cs : List Char) (hd : ∀ c ∈ cs, isDigit c = true) (dot : Bool)
    (rest : List Char) : countNumber dot (cs ++ rest) = cs.length + countNumber dot rest := by
  induction cs with
  | nil => simp
  | cons c cs ih =>
    simp only [List.cons_append, List.length_cons]
    rw [countNumber.eq_def]
    simp only [hd c (by simp), ↓reduceIte]
    rw [ih (fun x hx => hd x (by simp [hx]))]
    omega

/-- A non-empty string of digits followed by something that does not continue a number is one
`NUMBER` token. -/
theorem lex_digits {ds rest : List Char} {ts : List Token} (hne : ds ≠ [])
    (hd : ∀ c ∈ ds, isDigit c = true) (hr : NumEnd rest) (h : Lexes rest ts) :
    Lexes (ds ++ rest) (⟨.NUMBER, ds⟩ :: ts) := by
  cases ds with
  | nil => exact absurd rfl hne
  | cons c r =>
    have hsplit : (c :: r) ++ rest = c :: (r ++ rest) := rfl
    refine lexes_cons (c := c) (r := r ++ rest) hsplit (by simp) ?_ h
    rw [nn_digit c _ (digit_tests' (hd c (by simp))), ← hsplit, cn_digitChars _ hd, hr false]
    rfl

theorem unitStop_wordStop {rest : List Char} (h : UnitStop rest) : WordStop rest :=
  head_mono h (fun _ hc => hc.1)

theorem wordChar_e : isWordChar 'e' = true ∧ isWordChar 'E' = true := by decide

theorem wordStop_digit {c : Char} (h : isWordChar c = false) : isDigit c = false := by
  cases hd : isDigit c with
  | false => rfl
  | true => simp [isWordChar, hd] at h

theorem unitStop_numStop {rest : List Char} (h : UnitStop rest) : NumStop rest := by
  intro c r hcr
  obtain ⟨hw, hdot⟩ := h c r hcr
  refine ⟨wordStop_digit hw, hdot, ?_, ?_⟩
  · intro he; subst he; exact absurd hw (by decide)
  · intro he; subst he; exact absurd hw (by decide)

theorem unitStop_numEnd {rest : List Char} (h : UnitStop rest) : NumEnd rest :=
  numStop_numEnd (unitStop_numStop h)

end Anything.QQ
