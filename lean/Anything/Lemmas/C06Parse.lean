import Anything.Lemmas.C06Frames
import Anything.Lemmas.C06Lex
/-!
# C06, stage D — the grammar on the token list of a rendered expression
-/

namespace Anything.C06
open Anything Anything.Parser Anything.Grammar Anything.PTotal Anything.Spec.Arith

/-! ### The tail of one `opLoop` iteration -/

/-- What `opLoop` does once the operand has been parsed. -/
def afterValue (F : Nat) (opn : Nat) (stack : List (Nat × Nat × Bool)) (first : Bool) (cur : Nat) :
    PM (Option Nat) := do
  let curSkip ← countSkip
  match opInfo (← nth curSkip 0) with
  | none => do
    closeAll stack
    pure (some curSkip)
  | some (prio, operator, extra) => do
    let stack := if first then (opn, prio, extra) :: stack else stack
    let stack ← reduce cur prio extra stack
    bumpN curSkip
    bumpNode operator
    let skip ← countSkip
    opLoop F opn stack false skip

theorem opLoop_unfold (F opn : Nat) (stack : List (Nat × Nat × Bool)) (first : Bool) (skip : Nat)
    (hu : isUnitTop stack = false) :
    opLoop (F + 1) opn stack first skip =
      (value F skip >>= fun cur? =>
        match cur? with
        | none => pure none
        | some cur => afterValue F opn stack first cur) := by
  cases stack with
  | nil => unfold opLoop afterValue; rfl
  | cons f r =>
    obtain ⟨c, p, u⟩ := f
    have : u = false := hu
    subst this
    unfold opLoop afterValue; rfl

theorem le_afterValue {F F' : Nat} (h : F ≤ F') (opn : Nat) (stack : List (Nat × Nat × Bool))
    (first : Bool) (cur : Nat) :
    PFuel.Le (afterValue F opn stack first cur) (afterValue F' opn stack first cur) := by
  unfold afterValue
  le_auto [le_opLoop h _ _ _ _]

/-! ### What follows an operand -/

/-- Kinds that may follow an operand (after a blank): an operator, `)`, `,` or the end. -/
def FollowKind (k : Syntax) : Prop :=
  k = .PLUS ∨ k = .DASH ∨ k = .STAR ∨ k = .SLASH ∨ k = .CARET ∨ k = .CLOSE_PAREN ∨ k = .COMMA ∨
    k = .EOF

/-- The rest of the buffer after an operand: a blank, then a token of a `FollowKind`. -/
def Follow (K : List Token) : Prop :=
  ∃ Wk K', K = Wk ++ K' ∧ AllWS Wk ∧ FollowKind (headKind K')

theorem followKind_notWS {K' : List Token} (h : FollowKind (headKind K')) : NotWSHead K' := by
  intro t r hK
  subst hK
  simp only [headKind] at h
  intro hws
  rw [hws] at h
  simp [FollowKind] at h

theorem allWS_nil : AllWS [] := fun _ h => nomatch h

theorem allWS_append {A B : List Token} (hA : AllWS A) (hB : AllWS B) : AllWS (A ++ B) := by
  intro t ht
  rcases List.mem_append.mp ht with h | h
  · exact hA t h
  · exact hB t h

theorem allWS_blankTok (b : List Char) : AllWS (blankTok b) := by
  unfold blankTok
  split
  · exact allWS_nil
  · intro t ht
    simp only [List.mem_singleton] at ht
    subst ht; rfl

/-! ### `value` on a plain number -/

theorem unit_none {s : PState} (F : Nat) (W K : List Token) (ht : s.toks = W ++ K)
    (hk : headKind K ≠ .NUMBER ∧ headKind K ≠ .WORD) :
    Grammar.unit (F + 1) W.length s = .ok (none, s) := by
  have h1 : unitLoop (F + 1) none W.length s = .ok (none, s) := by
    unfold unitLoop
    have hn : nth W.length 0 s = .ok (headKind K, s) := by
      unfold nth headKind
      rw [ht, Nat.add_zero, List.getElem?_append_right (Nat.le_refl _), Nat.sub_self]
      cases K <;> rfl
    simp only [bind, hn]
    have : (headKind K == Syntax.NUMBER || headKind K == Syntax.WORD) = false := by
      simp [hk.1, hk.2]
    simp only [this, Bool.false_eq_true, ↓reduceIte]
    rfl
  unfold Grammar.unit
  simp only [bind, h1]
  rfl

theorem value_num {s : PState} (F : Nat) (W : List Token) (txt : List Char) (K : List Token)
    (ht : s.toks = W ++ ⟨.NUMBER, txt⟩ :: K) (hw : AllWS W) (hK : Follow K) (h : Good s.b) :
    Tot (value (F + 2) W.length) s (fun r s' => ∃ cur Wt id id', r = some cur ∧ s'.toks = K ∧
      s'.b.forest = s.b.forest ++ Wt ++ [.node id .NUMBER [.tok id' .NUMBER txt]] ∧
      WSTrees Wt ∧ Wt.length = W.length ∧ Pos s'.b cur (s.b.forest.length + W.length) ∧
      Good s'.b ∧ NoNext s'.b ∧ Ext s.b.forest.length s.b s'.b) := by
  obtain ⟨Wk, K', rfl, hwk, hfk⟩ := hK
  unfold value
  refine tot_nth_ws W _ ht ?_
  simp only [headKind]
  refine tot_seq (bumpN_ws W ht hw h) fun _ s1 ⟨ht1, ⟨Wt, hf1, hWt, hlen⟩, g1, _, e1⟩ => ?_
  refine tot_seq (checkpoint_exact g1) fun c s2 ⟨ht2, hf2, _, g2, p2, e2⟩ => ?_
  refine tot_seq (bump_exact (ht2.trans ht1) g2) fun _ s3 ⟨ht3, ⟨id', hf3⟩, g3, n3, e3⟩ => ?_
  refine tot_countSkip_ws Wk K' ht3 hwk (followKind_notWS hfk) ?_
  have hkinds : headKind K' ≠ .PERCENTAGE ∧ headKind K' ≠ .NUMBER ∧ headKind K' ≠ .WORD := by
    rcases hfk with h | h | h | h | h | h | h | h <;> rw [h] <;> simp
  refine tot_seq (P := fun kind s' => Syntax.NUMBER = kind ∧ s3 = s') ?_ fun kind s4 ⟨hkind, hs4⟩ => ?_
  · refine tot_nth_ws Wk K' ht3 ?_
    have : (headKind K' == Syntax.PERCENTAGE) = false := by simp [hkinds.1]
    simp only [this, Bool.false_eq_true, ↓reduceIte]
    refine ⟨_, s3, ?_, rfl, rfl⟩
    simp only [bind, unit_none F Wk K' ht3 hkinds.2]
    rfl
  subst hkind hs4
  have hlen3 : s3.b.forest = s.b.forest ++ Wt ++ [.tok id' .NUMBER txt] := by
    rw [hf3, hf2, hf1]
  have hpos3 : Pos s3.b c (s.b.forest.length + W.length) := by
    have := e3.pos c _ (Nat.le_refl _) (hf2 ▸ p2)
    rw [hf2, hf1] at this
    simpa [hlen] using this
  refine tot_seq (closeAt_wrap .NUMBER g3 n3 hpos3 (by rw [hlen3]; simp [hlen]))
    fun _ s5 ⟨ht5, ⟨id, hf5⟩, g5, n5, p5, e5⟩ => ?_
  refine tot_pure ⟨c, Wt, id, id', rfl, ht5.trans ht3, ?_, hWt, hlen, p5, g5, n5, ?_⟩
  · rw [hf5, hlen3]
    have hl : s.b.forest.length + W.length = (s.b.forest ++ Wt).length := by simp [hlen]
    rw [hl, List.take_left', List.drop_left'] <;> rfl
  · have hle : s.b.forest.length ≤ s1.b.forest.length := by rw [hf1]; simp
    have e23 : Ext s1.b.forest.length s1.b s3.b := e2.trans (by rw [← hf2]; exact e3)
    have e5' : Ext s1.b.forest.length s3.b s5.b := by
      have : s1.b.forest.length = s.b.forest.length + W.length := by rw [hf1]; simp [hlen]
      rw [this]; exact e5
    exact e1.trans ((e23.trans e5').mono hle)

/-! ### `value` on a percentage -/

theorem value_pct {s : PState} (F : Nat) (W : List Token) (txt : List Char) (Wp : List Token)
    (pt : Token) (K : List Token)
    (ht : s.toks = W ++ ⟨.NUMBER, txt⟩ :: (Wp ++ pt :: K)) (hw : AllWS W) (hwp : AllWS Wp)
    (hpt : pt.kind = .PERCENTAGE) (h : Good s.b) :
    Tot (Grammar.value (F + 1) W.length) s (fun r s' => ∃ cur Wt id id' more, r = some cur ∧
      s'.toks = K ∧
      s'.b.forest = s.b.forest ++ Wt ++ [.node id .PERCENTAGE (.tok id' .NUMBER txt :: more)] ∧
      WSTrees Wt ∧ Wt.length = W.length ∧ Pos s'.b cur (s.b.forest.length + W.length) ∧
      Good s'.b ∧ NoNext s'.b ∧ Ext s.b.forest.length s.b s'.b) := by
  have hnw : NotWSHead (pt :: K) := by
    intro t r htr
    cases htr
    rw [hpt]; simp
  unfold Grammar.value
  refine tot_nth_ws W _ ht ?_
  simp only [headKind]
  refine tot_seq (bumpN_ws W ht hw h) fun _ s1 ⟨ht1, ⟨Wt, hf1, hWt, hlen⟩, g1, _, e1⟩ => ?_
  refine tot_seq (checkpoint_exact g1) fun c s2 ⟨ht2, hf2, _, g2, p2, e2⟩ => ?_
  refine tot_seq (bump_exact (ht2.trans ht1) g2) fun _ s3 ⟨ht3, ⟨id', hf3⟩, g3, n3, e3⟩ => ?_
  refine tot_countSkip_ws Wp (pt :: K) ht3 hwp hnw ?_
  refine tot_seq (P := fun kind s' => Syntax.PERCENTAGE = kind ∧ s'.toks = K ∧
      (∃ Wq idp, s'.b.forest = s3.b.forest ++ Wq ++ [.tok idp pt.kind pt.text]) ∧ Good s'.b ∧
      NoNext s'.b ∧ Ext s3.b.forest.length s3.b s'.b) ?_
    fun kind s4 ⟨hkind, ht4, ⟨Wq, idp, hf4⟩, g4, n4, e4⟩ => ?_
  · refine tot_nth_ws Wp (pt :: K) ht3 ?_
    have : (headKind (pt :: K) == Syntax.PERCENTAGE) = true := by simp [headKind, hpt]
    simp only [this, ↓reduceIte]
    refine tot_seq (bumpN_ws Wp ht3 hwp g3) fun _ s4 ⟨ht4, ⟨Wq, hf4, _, _⟩, g4, _, e4⟩ => ?_
    refine tot_seq (bump_exact ht4 g4) fun _ s5 ⟨ht5, ⟨idp, hf5⟩, g5, n5, e5⟩ => ?_
    exact tot_pure ⟨rfl, ht5, ⟨Wq, idp, by rw [hf5, hf4]⟩, g5, n5,
      e4.trans (e5.mono (by rw [hf4]; simp))⟩
  subst hkind
  have hlen3 : s3.b.forest = s.b.forest ++ Wt ++ [.tok id' .NUMBER txt] := by
    rw [hf3, hf2, hf1]
  have hpos3 : Pos s3.b c (s.b.forest.length + W.length) := by
    have := e3.pos c _ (Nat.le_refl _) (hf2 ▸ p2)
    rw [hf2, hf1] at this
    simpa [hlen] using this
  have hpos4 : Pos s4.b c (s.b.forest.length + W.length) :=
    e4.pos c _ (by rw [hlen3]; simp [hlen]) hpos3
  refine tot_seq (closeAt_wrap .PERCENTAGE g4 n4 hpos4 (by rw [hf4, hlen3]; simp [hlen]))
    fun _ s5 ⟨ht5, ⟨id, hf5⟩, g5, n5, p5, e5⟩ => ?_
  refine tot_pure ⟨c, Wt, id, id', Wq ++ [.tok idp pt.kind pt.text], rfl, ht5.trans ht4, ?_, hWt,
    hlen, p5, g5, n5, ?_⟩
  · rw [hf5, hf4, hlen3]
    have hl : s.b.forest.length + W.length = (s.b.forest ++ Wt).length := by simp [hlen]
    have hassoc : s.b.forest ++ Wt ++ [Tree.tok id' .NUMBER txt] ++ Wq ++ [Tree.tok idp pt.kind pt.text]
        = (s.b.forest ++ Wt) ++ (Tree.tok id' .NUMBER txt :: (Wq ++ [Tree.tok idp pt.kind pt.text])) := by
      simp
    rw [hassoc, hl, List.take_left', List.drop_left'] <;> rfl
  · have hle : s.b.forest.length ≤ s1.b.forest.length := by rw [hf1]; simp
    have hl1 : s1.b.forest.length = s.b.forest.length + W.length := by rw [hf1]; simp [hlen]
    have e23 : Ext s1.b.forest.length s1.b s3.b := e2.trans (by rw [← hf2]; exact e3)
    have e4' : Ext s1.b.forest.length s3.b s4.b := e4.mono (by rw [hlen3, hl1]; simp [hlen])
    have e5' : Ext s1.b.forest.length s4.b s5.b := by rw [hl1]; exact e5
    exact e1.trans (((e23.trans e4').trans e5').mono hle)

/-! ### `reduce` simulates `reduceA` -/

theorem take_drop_at (P G : List Tree) (R : List Tree) :
    (P ++ G ++ R).take (P.length + G.length) = P ++ G ∧
    (P ++ G ++ R).drop (P.length + G.length) = R := by
  have hl : P.length + G.length = (P ++ G).length := by simp
  rw [hl]
  exact ⟨List.take_left' rfl, List.drop_left' rfl⟩

theorem reduceA_lt {cur acc : NExpr} {op o : BinOp} {st : Stack} (h : op.prio < o.prio) :
    reduceA cur op ((acc, o) :: st) = reduceA (.bin o acc cur) op st := by
  simp [reduceA, h]

theorem reduceA_eq {cur acc : NExpr} {op o : BinOp} {st : Stack} (h1 : ¬ op.prio < o.prio)
    (h2 : ¬ o.prio < op.prio) :
    reduceA cur op ((acc, o) :: st) = (.bin o acc cur, op) :: st := by
  simp [reduceA, h1, h2]

/-- The result of `reduce`, described against the specification-level `reduceA`. -/
def ReduceOut (P : List Tree) (ecur : NExpr) (op : BinOp) (st : Stack)
    (stack' : List (Nat × Nat × Bool)) (b' : Builder) : Prop :=
  ∃ G1 Y v st1 c1 stack1, reduceA ecur op st = (v, op) :: st1 ∧
    stack' = (c1, op.prio, false) :: stack1 ∧ b'.forest = P ++ G1 ++ Y ∧
    StackOK b' P.length G1 stack1 st1 ∧ OpenSeg op.prio Y v ∧ Pos b' c1 (P.length + G1.length)

theorem reduce_sim (cur : Nat) (op : BinOp) (P : List Tree) :
    ∀ (stack : List (Nat × Nat × Bool)) (st : Stack) (G : List Tree) (x : Tree) (ecur : NExpr)
      {s : PState}, StackOK s.b P.length G stack st → st ≠ [] → s.b.forest = P ++ G ++ [x] →
      RepresentsL x ecur → Good s.b → NoNext s.b →
      (topPrio st < op.prio → Pos s.b cur (P.length + G.length)) →
      Tot (reduce cur op.prio false stack) s (fun stack' s' =>
        s'.toks = s.toks ∧ Good s'.b ∧ NoNext s'.b ∧ Ext P.length s.b s'.b ∧
        ReduceOut P ecur op st stack' s'.b) := by
  intro stack
  induction stack with
  | nil =>
    intro st G x ecur s hso hne
    cases hso
    exact absurd rfl hne
  | cons f rest ih =>
    intro st G x ecur s hso _ hf hx hg hn hcur
    cases hso with
    | @cons G' S c acc o _ st' hso' hseg hpos =>
    unfold reduce
    by_cases h1 : op.prio < o.prio
    · -- close the frame
      simp only [h1, ↓reduceIte]
      have hf' : s.b.forest = P ++ G' ++ (S ++ [x]) := by rw [hf]; simp
      obtain ⟨htk, hdr⟩ := take_drop_at P G' (S ++ [x])
      refine tot_seq (closeAt_wrap .OPERATION hg hn hpos (by rw [hf']; simp))
        fun _ s1 ⟨ht1, ⟨id, hf1⟩, g1, n1, p1, e1⟩ => ?_
      rw [hf', htk, hdr] at hf1
      have hN := segOK_close id hseg hx
      have hso1 : StackOK s1.b P.length G' rest st' := hso'.mono e1
      have hle : P.length ≤ P.length + G'.length := Nat.le_add_right _ _
      have hOpen : OpenSeg op.prio [Tree.node id .OPERATION (S ++ [x])] (.bin o acc ecur) :=
        openSeg_single (W := []) op.prio wsTrees_nil hN
      have hro : ∀ stack' b', ReduceOut P (.bin o acc ecur) op st' stack' b' →
          ReduceOut P ecur op ((acc, o) :: st') stack' b' := by
        intro stack' b' hr
        unfold ReduceOut at hr ⊢
        rw [reduceA_lt h1]; exact hr
      cases hso' with
      | nil =>
        exact tot_pure ⟨ht1, g1, n1, e1.mono hle, hro _ _
          ⟨[], _, _, [], c, [], rfl, rfl, hf1, .nil, hOpen, p1⟩⟩
      | @cons G'' S2 c2 acc2 o2 rest2 st'' hso'' hseg2 hpos2 =>
        simp only
        by_cases h3 : o2.prio ≥ op.prio
        · simp only [h3, ↓reduceIte]
          refine tot_mono (ih ((acc2, o2) :: st'') (G'' ++ S2) _ (.bin o acc ecur) hso1 (by simp)
            hf1 hN g1 n1 (fun hlt => by simp only [topPrio] at hlt; omega))
            fun stack' s2 ⟨ht2, g2, n2, e2, hout⟩ => ?_
          exact ⟨ht2.trans ht1, g2, n2, (e1.mono hle).trans e2, hro _ _ hout⟩
        · simp only [h3, ↓reduceIte]
          refine tot_pure ⟨ht1, g1, n1, e1.mono hle, hro _ _ ⟨G'' ++ S2, _, _, _, c, _, ?_, rfl, hf1,
            hso1, hOpen, p1⟩⟩
          exact reduceA_push _ op _ (by simp only [topPrio]; omega)
    · simp only [h1, ↓reduceIte]
      by_cases h2 : op.prio > o.prio
      · -- push a new frame
        simp only [h2, ↓reduceIte]
        refine tot_pure ⟨rfl, hg, hn, Ext.refl (by rw [hf]; simp), G' ++ S, [x], ecur, _, cur, _,
          ?_, rfl, hf, .cons hso' hseg hpos, openSeg_single (W := []) op.prio wsTrees_nil hx,
          hcur (by simpa [topPrio] using h2)⟩
        exact reduceA_push _ op _ (by simpa [topPrio] using h2)
      · -- same priority: the frame absorbs the operand
        simp only [h2, ↓reduceIte]
        have heq : o.prio = op.prio := by omega
        refine tot_pure ⟨rfl, hg, hn, Ext.refl (by rw [hf]; simp), G', S ++ [x], _, st', c, rest,
          reduceA_eq h1 (by omega), by rw [heq], by rw [hf]; simp, hso', heq ▸ segOK_extend hseg hx, hpos⟩

/-! ### `closeAll` simulates `closeAllA` -/

theorem closeAll_sim (P : List Tree) :
    ∀ (stack : List (Nat × Nat × Bool)) (st : Stack) (G : List Tree) (x : Tree) (ecur : NExpr)
      {s : PState}, StackOK s.b P.length G stack st → s.b.forest = P ++ G ++ [x] →
      RepresentsL x ecur → Good s.b → NoNext s.b →
      Tot (closeAll stack) s (fun _ s' =>
        s'.toks = s.toks ∧ Good s'.b ∧ NoNext s'.b ∧ Ext P.length s.b s'.b ∧
        ∃ x', s'.b.forest = P ++ [x'] ∧ RepresentsL x' (closeAllA ecur st)) := by
  intro stack
  induction stack with
  | nil =>
    intro st G x ecur s hso hf hx hg hn
    cases hso
    exact tot_pure ⟨rfl, hg, hn, Ext.refl (by rw [hf]; simp), x, by simpa using hf, hx⟩
  | cons f rest ih =>
    intro st G x ecur s hso hf hx hg hn
    cases hso with
    | @cons G' S c acc o _ st' hso' hseg hpos =>
    unfold closeAll
    have hf' : s.b.forest = P ++ G' ++ (S ++ [x]) := by rw [hf]; simp
    obtain ⟨htk, hdr⟩ := take_drop_at P G' (S ++ [x])
    refine tot_seq (closeAt_wrap .OPERATION hg hn hpos (by rw [hf']; simp))
      fun _ s1 ⟨ht1, ⟨id, hf1⟩, g1, n1, p1, e1⟩ => ?_
    rw [hf', htk, hdr] at hf1
    have hN := segOK_close id hseg hx
    have hle : P.length ≤ P.length + G'.length := Nat.le_add_right _ _
    refine tot_mono (ih st' G' _ (.bin o acc ecur) (hso'.mono e1) hf1 hN g1 n1)
      fun _ s2 ⟨ht2, g2, n2, e2, hout⟩ => ?_
    exact ⟨ht2.trans ht1, g2, n2, (e1.mono hle).trans e2, hout⟩

/-! ### Loop invariants -/

/-- The builder at the head of an `opLoop` iteration: nothing built yet (`first`), or the part
`G` of the forest beyond the prefix `P` matches the stack. -/
def LoopInv (b : Builder) (P : List Tree) (opn : Nat) (first : Bool)
    (stack : List (Nat × Nat × Bool)) (st : Stack) : Prop :=
  if first then stack = [] ∧ st = [] ∧ b.forest = P ∧ Pos b opn P.length
  else ∃ G, b.forest = P ++ G ∧ StackOK b P.length G stack st ∧ st ≠ []

/-- The builder after the operand `x` (representing `ecur`, checkpoint `cur`) has been parsed. -/
def AfterInv (b : Builder) (P : List Tree) (opn : Nat) (first : Bool)
    (stack : List (Nat × Nat × Bool)) (st : Stack) (cur : Nat) (ecur : NExpr) : Prop :=
  if first then stack = [] ∧ st = [] ∧ ∃ W x, b.forest = P ++ W ++ [x] ∧ WSTrees W ∧
      RepresentsL x ecur ∧ Pos b opn P.length ∧ Pos b cur (P.length + W.length)
  else ∃ G x, b.forest = P ++ G ++ [x] ∧ StackOK b P.length G stack st ∧ st ≠ [] ∧
      RepresentsL x ecur ∧ Pos b cur (P.length + G.length)

theorem opInfo_opTok (op : BinOp) : opInfo (opTok op).kind = some (op.prio, opKind op, false) := by
  cases op <;> rfl

theorem opTok_notWS (op : BinOp) : (opTok op).kind ≠ .WHITESPACE := by cases op <;> simp [opTok]

theorem reduce_first (cur opn p : Nat) :
    reduce cur p false [(opn, p, false)] = pure [(opn, p, false)] := by
  unfold reduce
  simp

/-- One iteration's tail when an operator follows. -/
theorem afterValue_op {s : PState} {P : List Tree} {opn : Nat} {first : Bool}
    {stack : List (Nat × Nat × Bool)} {st : Stack} {cur : Nat} {ecur : NExpr} (F : Nat)
    (op : BinOp) (Wk W2 K2 : List Token) {Q : Option Nat → PState → Prop}
    (hinv : AfterInv s.b P opn first stack st cur ecur) (hg : Good s.b) (hn : NoNext s.b)
    (ht : s.toks = Wk ++ opTok op :: (W2 ++ K2)) (hwk : AllWS Wk) (hw2 : AllWS W2)
    (hk2 : NotWSHead K2)
    (hcont : ∀ s2 stack2, LoopInv s2.b P opn false stack2 (reduceA ecur op st) → Good s2.b →
      s2.toks = W2 ++ K2 → Ext P.length s.b s2.b → Tot (opLoop F opn stack2 false W2.length) s2 Q) :
    Tot (afterValue F opn stack first cur) s Q := by
  have hnw : NotWSHead (opTok op :: (W2 ++ K2)) := by
    intro t r htr; cases htr; exact opTok_notWS op
  unfold afterValue
  refine tot_countSkip_ws Wk _ ht hwk hnw ?_
  refine tot_nth_ws Wk _ ht ?_
  simp only [headKind, opInfo_opTok]
  -- common tail: the blank and the operator node are appended, then the loop goes on
  have tail : ∀ (s1 : PState) (stack1 : List (Nat × Nat × Bool)) (G1 Y : List Tree) (v : NExpr)
      (st1 : Stack) (c1 : Nat) (stackr : List (Nat × Nat × Bool)),
      s1.toks = s.toks → Good s1.b → Ext P.length s.b s1.b →
      reduceA ecur op st = (v, op) :: st1 → stack1 = (c1, op.prio, false) :: stackr →
      s1.b.forest = P ++ G1 ++ Y → StackOK s1.b P.length G1 stackr st1 → OpenSeg op.prio Y v →
      Pos s1.b c1 (P.length + G1.length) →
      Tot (do bumpN Wk.length; bumpNode (opKind op); let skip ← countSkip
              opLoop F opn stack1 false skip) s1 Q := by
    intro s1 stack1 G1 Y v st1 c1 stackr ht1 g1 e1 hra hst1 hf1 hso1 hopen hp1
    refine tot_seq (bumpN_ws Wk (ht1.trans ht) hwk g1)
      fun _ s2 ⟨ht2, ⟨Wt, hf2, hWt, _⟩, g2, _, e2⟩ => ?_
    refine tot_seq (bumpNode_exact (opKind op) ht2 g2)
      fun _ s3 ⟨ht3, ⟨id, id', hf3⟩, g3, n3, e3⟩ => ?_
    refine tot_countSkip_ws W2 K2 ht3 hw2 hk2 ?_
    have hle1 : P.length + G1.length ≤ s1.b.forest.length := by rw [hf1]; simp
    have e13 : Ext s1.b.forest.length s1.b s3.b := e2.trans (e3.mono (by rw [hf2]; simp))
    refine hcont s3 stack1 ?_ g3 ht3 (e1.trans (e13.mono (by rw [hf1]; simp)))
    simp only [LoopInv, Bool.false_eq_true, ↓reduceIte]
    refine ⟨G1 ++ (Y ++ Wt ++ [.node id (opKind op) [.tok id' (opTok op).kind (opTok op).text]]), ?_,
      ?_, by rw [hra]; simp⟩
    · rw [hf3, hf2, hf1]; simp
    · rw [hra, hst1]
      exact .cons (hso1.mono (e13.mono hle1)) (openSeg_op hopen hWt rfl rfl)
        (e13.pos c1 _ hle1 hp1)
  cases first with
  | true =>
    simp only [AfterInv, ↓reduceIte] at hinv
    obtain ⟨rfl, rfl, W, x, hf, hW, hx, hpo, hpc⟩ := hinv
    simp only [↓reduceIte, reduce_first]
    refine tot_seq (tot_pure (Q := fun r s' => r = [(opn, op.prio, false)] ∧ s' = s) ⟨rfl, rfl⟩)
      fun stack1 s1 ⟨hs1, hs⟩ => ?_
    subst hs
    exact tail s1 stack1 [] (W ++ [x]) ecur [] opn [] rfl hg (Ext.refl (by rw [hf]; simp)) rfl hs1
      (by rw [hf]; simp) .nil (openSeg_single op.prio hW hx) (by simpa using hpo)
  | false =>
    simp only [AfterInv, Bool.false_eq_true, ↓reduceIte] at hinv
    obtain ⟨G, x, hf, hso, hne, hx, hpc⟩ := hinv
    simp only [Bool.false_eq_true, ↓reduceIte]
    refine tot_seq (reduce_sim cur op P stack st G x ecur hso hne hf hx hg hn (fun _ => hpc))
      fun stack1 s1 ⟨ht1, g1, _, e1, G1, Y, v, st1, c1, stackr, hra, hst1, hf1, hso1, hopen, hp1⟩ => ?_
    exact tail s1 stack1 G1 Y v st1 c1 stackr ht1 g1 e1 hra hst1 hf1 hso1 hopen hp1

/-- Kinds that end an expression: `)`, `,` or the end of the input. -/
def EndKind (k : Syntax) : Prop := k = .CLOSE_PAREN ∨ k = .COMMA ∨ k = .EOF

theorem endKind_follow {k : Syntax} (h : EndKind k) : FollowKind k := by
  rcases h with h | h | h <;> simp [FollowKind, h]

/-- One iteration's tail when no operator follows: all frames are closed. -/
theorem afterValue_end {s : PState} {P : List Tree} {opn : Nat} {first : Bool}
    {stack : List (Nat × Nat × Bool)} {st : Stack} {cur : Nat} {ecur : NExpr} (F : Nat)
    (Wk K' : List Token)
    (hinv : AfterInv s.b P opn first stack st cur ecur) (hg : Good s.b) (hn : NoNext s.b)
    (ht : s.toks = Wk ++ K') (hwk : AllWS Wk) (hk : EndKind (headKind K')) :
    Tot (afterValue F opn stack first cur) s (fun r s' => r = some Wk.length ∧ s'.toks = s.toks ∧
      Good s'.b ∧ NoNext s'.b ∧ Ext P.length s.b s'.b ∧
      ∃ W x', s'.b.forest = P ++ W ++ [x'] ∧ WSTrees W ∧ RepresentsL x' (closeAllA ecur st)) := by
  unfold afterValue
  refine tot_countSkip_ws Wk _ ht hwk (followKind_notWS (endKind_follow hk)) ?_
  refine tot_nth_ws Wk _ ht ?_
  have : opInfo (headKind K') = none := by
    rcases hk with h | h | h <;> rw [h] <;> rfl
  simp only [this]
  cases first with
  | true =>
    simp only [AfterInv, ↓reduceIte] at hinv
    obtain ⟨rfl, rfl, W, x, hf, hW, hx, _, _⟩ := hinv
    simp only [closeAll]
    refine tot_seq (tot_pure (Q := fun _ s' => s' = s) rfl) fun _ s1 hs => ?_
    subst hs
    exact tot_pure ⟨rfl, rfl, hg, hn, Ext.refl (by rw [hf]; simp), W, x, hf, hW, hx⟩
  | false =>
    simp only [AfterInv, Bool.false_eq_true, ↓reduceIte] at hinv
    obtain ⟨G, x, hf, hso, _, hx, _⟩ := hinv
    refine tot_seq (closeAll_sim P stack st G x ecur hso hf hx hg hn)
      fun _ s1 ⟨ht1, g1, n1, e1, x', hf1, hx'⟩ => ?_
    exact tot_pure ⟨rfl, ht1, g1, n1, e1, [], x', by simpa using hf1, wsTrees_nil, hx'⟩

/-! ### Specifications of `value`, `opLoop` and `operation` on a rendered expression -/

/-- `value` on the operand `e`: consumes the blank `W0` and the tokens of `e`, appends the blank's
leaves and one tree representing `e`, and returns a checkpoint at that tree. -/
def ValueSpec (e : NExpr) : Prop :=
  ∃ Fe, ∀ (ws : Layout) (s : PState) (W0 K : List Token), WF e → LayoutOK e ws → Good s.b →
    s.toks = W0 ++ (toks e ws ++ K) → AllWS W0 → Follow K →
    Tot (Grammar.value Fe W0.length) s (fun r s' => ∃ cur Wt x, r = some cur ∧ s'.toks = K ∧
      s'.b.forest = s.b.forest ++ Wt ++ [x] ∧ WSTrees Wt ∧ RepresentsL x e ∧
      Pos s'.b cur (s.b.forest.length + Wt.length) ∧ Good s'.b ∧ NoNext s'.b ∧
      Ext s.b.forest.length s.b s'.b)

/-- `opLoop` across the tokens of `e` (continuation-passing): the loop arrives after the last
operand of `e` in the state the specification-level machine reaches by `run st (flat e)`. -/
def LoopSpec (e : NExpr) : Prop :=
  ∃ Fe, ∀ (ws : Layout) (s : PState) (P : List Tree) (opn : Nat) (first : Bool)
    (stack : List (Nat × Nat × Bool)) (st : Stack) (W0 K : List Token)
    (Q : Option Nat → PState → Prop) (F1 : Nat),
    WF e → LayoutOK e ws → LoopInv s.b P opn first stack st → Good s.b →
    s.toks = W0 ++ (toks e ws ++ K) → AllWS W0 → Follow K →
    (∀ s1 stack1 cur,
      AfterInv s1.b P opn (first && (flat e).2.isEmpty) stack1 (run st (flat e).1 (flat e).2).1 cur
        (run st (flat e).1 (flat e).2).2 →
      Good s1.b → NoNext s1.b → s1.toks = K → Ext P.length s.b s1.b →
      Tot (afterValue F1 opn stack1 (first && (flat e).2.isEmpty) cur) s1 Q) →
    Tot (opLoop (Fe + F1) opn stack first W0.length) s Q

/-- `operation` on the whole expression `e` followed by `)`, `,` or the end of the input. -/
def OpSpec (e : NExpr) : Prop :=
  ∃ Fe, ∀ (ws : Layout) (s : PState) (W0 Wk K' : List Token), WF e → LayoutOK e ws → Good s.b →
    s.toks = W0 ++ (toks e ws ++ (Wk ++ K')) → AllWS W0 → AllWS Wk → EndKind (headKind K') →
    Tot (operation Fe W0.length) s (fun r s' => ∃ Wt x, r = some Wk.length ∧ s'.toks = Wk ++ K' ∧
      s'.b.forest = s.b.forest ++ Wt ++ [x] ∧ WSTrees Wt ∧ RepresentsL x e ∧
      Good s'.b ∧ NoNext s'.b ∧ Ext s.b.forest.length s.b s'.b)

theorem stackOK_isUnit {b : Builder} {n : Nat} {G : List Tree} {stack : List (Nat × Nat × Bool)}
    {st : Stack} (h : StackOK b n G stack st) : isUnitTop stack = false := by
  cases h <;> rfl

theorem loopInv_isUnit {b : Builder} {P : List Tree} {opn : Nat} {first : Bool}
    {stack : List (Nat × Nat × Bool)} {st : Stack} (h : LoopInv b P opn first stack st) :
    isUnitTop stack = false := by
  cases first with
  | true =>
    simp only [LoopInv, ↓reduceIte] at h
    rw [h.1]; rfl
  | false =>
    simp only [LoopInv, Bool.false_eq_true, ↓reduceIte] at h
    obtain ⟨G, _, hso, _⟩ := h
    exact stackOK_isUnit hso

/-- An operand that is a single `value` is read by one loop iteration. -/
theorem loop_of_value (e : NExpr) (hflat : flat e = (e, [])) (hv : ValueSpec e) : LoopSpec e := by
  obtain ⟨Fv, hv⟩ := hv
  refine ⟨Fv + 1, ?_⟩
  intro ws s P opn first stack st W0 K Q F1 hwf hlay hinv hg ht hw0 hK hcont
  have hF : Fv + 1 + F1 = (Fv + F1) + 1 := by omega
  rw [hF, opLoop_unfold _ _ _ _ _ (loopInv_isUnit hinv)]
  refine tot_seq (tot_le (le_value (Nat.le_add_right Fv F1) _) (hv ws s W0 K hwf hlay hg ht hw0 hK))
    fun r s1 ⟨cur, Wt, x, hr, ht1, hf1, hWt, hx, hp1, g1, n1, e1⟩ => ?_
  subst hr
  simp only
  refine tot_le (le_afterValue (Nat.le_add_left F1 Fv) _ _ _ _) ?_
  simp only [hflat, List.isEmpty_nil, Bool.and_true, run] at hcont
  cases first with
  | true =>
    simp only [LoopInv, ↓reduceIte] at hinv
    obtain ⟨rfl, rfl, hf, hpo⟩ := hinv
    have hlen : s.b.forest.length = P.length := by rw [hf]
    refine hcont s1 [] cur ?_ g1 n1 ht1 (hlen ▸ e1)
    simp only [AfterInv, ↓reduceIte, true_and]
    exact ⟨Wt, x, hf ▸ hf1, hWt, hx, e1.pos opn _ (by rw [hlen]) hpo, hlen ▸ hp1⟩
  | false =>
    simp only [LoopInv, Bool.false_eq_true, ↓reduceIte] at hinv
    obtain ⟨G, hf, hso, hne⟩ := hinv
    have hlen : s.b.forest.length = P.length + G.length := by rw [hf]; simp
    refine hcont s1 stack cur ?_ g1 n1 ht1 (e1.mono (by omega))
    simp only [AfterInv, Bool.false_eq_true, ↓reduceIte]
    refine ⟨G ++ Wt, x, by rw [hf1, hf]; simp, (hso.mono (hlen ▸ e1)).ws hne hWt, hne, hx, ?_⟩
    rw [hlen] at hp1
    simpa [Nat.add_assoc] using hp1

/-- The token list of an expression starts with a NUMBER, WORD or OPEN_PAREN token. -/
theorem toks_head : ∀ (e : NExpr) (ws : Layout), ∃ t r, toks e ws = t :: r ∧
    (t.kind = .NUMBER ∨ t.kind = .WORD ∨ t.kind = .OPEN_PAREN)
  | .lit l, ws => by
    simp only [toks]
    split
    · exact ⟨_, _, rfl, Or.inl rfl⟩
    · exact ⟨_, _, rfl, Or.inl rfl⟩
  | .bin op a b, ws => by
    obtain ⟨t, r, h, hk⟩ := toks_head a ws
    simp only [toks, h]
    exact ⟨t, _, rfl, hk⟩
  | .paren e, ws => by
    simp only [toks]
    exact ⟨_, _, rfl, Or.inr (Or.inr rfl)⟩
  | .call f args, ws => by
    simp only [toks]
    exact ⟨_, _, rfl, Or.inr (Or.inl rfl)⟩

theorem toks_notWS (e : NExpr) (ws : Layout) (K : List Token) : NotWSHead (toks e ws ++ K) := by
  obtain ⟨t, r, h, hk⟩ := toks_head e ws
  intro t' r' heq
  rw [h] at heq
  cases heq
  rcases hk with h | h | h <;> rw [h] <;> simp

theorem follow_op (b1 : List Char) (op : BinOp) (rest : List Token) :
    Follow (blankTok b1 ++ (opTok op :: rest)) :=
  ⟨blankTok b1, opTok op :: rest, rfl, allWS_blankTok b1, by
    cases op <;> simp [headKind, opTok, FollowKind]⟩

/-- A binary expression: the loop reads `a`, the operator, then `b`. -/
theorem loop_bin (op : BinOp) (a b : NExpr) (ha : LoopSpec a) (hb : LoopSpec b) :
    LoopSpec (.bin op a b) := by
  obtain ⟨Fa, ha⟩ := ha
  obtain ⟨Fb, hb⟩ := hb
  refine ⟨Fa + Fb, ?_⟩
  intro ws s P opn first stack st W0 K Q F1 hwf hlay hinv hg ht hw0 hK hcont
  simp only [Spec.Arith.WF] at hwf
  obtain ⟨wfa, wfb, _, _⟩ := hwf
  obtain ⟨la, hb1, hb2, lb, _⟩ := hlay
  have hF : Fa + Fb + F1 = Fa + (Fb + F1) := by omega
  rw [hF]
  have hrun : run st (flat (.bin op a b)).1 (flat (.bin op a b)).2 =
      run (reduceA (run st (flat a).1 (flat a).2).2 op (run st (flat a).1 (flat a).2).1)
        (flat b).1 (flat b).2 := by
    simp only [flat, run_append, run]
  have hemp : (flat (.bin op a b)).2.isEmpty = false := by simp [flat]
  simp only [hemp, Bool.and_false, hrun] at hcont
  refine ha ws s P opn first stack st W0
    (blankTok (blank1 (after a ws)) ++ (opTok op :: (blankTok (blank1 (rest1 (after a ws))) ++
      (toks b (rest1 (rest1 (after a ws))) ++ K)))) Q (Fb + F1) wfa la hinv hg
    (by rw [ht]; simp only [toks, List.append_assoc, List.nil_append, List.cons_append]) hw0
    (follow_op _ op _) ?_
  intro s1 stack1 cur hinv1 g1 n1 ht1 e1
  refine afterValue_op (Fb + F1) op _ _ _ hinv1 g1 n1 ht1 (allWS_blankTok _) (allWS_blankTok _)
    (toks_notWS b _ K) ?_
  intro s2 stack2 hinv2 g2 ht2 e2
  refine hb _ s2 P opn false stack2 _ _ K Q F1 wfb lb hinv2 g2 ht2 (allWS_blankTok _) hK ?_
  intro s3 stack3 cur3 hinv3 g3 n3 ht3 e3
  simp only [Bool.false_and] at hinv3 ⊢
  exact hcont s3 stack3 cur3 hinv3 g3 n3 ht3 ((e1.trans e2).trans e3)

/-- `operation` = a checkpoint, the loop across the whole expression, and the final closing of all
frames; by precedence-climbing correctness (`shiftReduce_flat`) the result represents `e`. -/
theorem op_of_loop (e : NExpr) (hl : LoopSpec e) : OpSpec e := by
  obtain ⟨Fl, hl⟩ := hl
  refine ⟨Fl + 0 + 1, ?_⟩
  intro ws s W0 Wk K' hwf hlay hg ht hw0 hwk hend
  unfold operation
  refine tot_seq (checkpoint_exact hg) fun opn s1 ⟨ht1, hf1, _, g1, p1, e1⟩ => ?_
  refine hl ws s1 s.b.forest opn true [] [] W0 (Wk ++ K') _ 0 hwf hlay ?_ g1 (ht1.trans ht) hw0
    ⟨Wk, K', rfl, hwk, endKind_follow hend⟩ ?_
  · simp only [LoopInv, ↓reduceIte, true_and]
    exact ⟨hf1, p1⟩
  · intro s2 stack2 cur hinv2 g2 n2 ht2 e2
    refine tot_mono (afterValue_end 0 Wk K' hinv2 g2 n2 ht2 hwk hend)
      fun r s3 ⟨hr, ht3, g3, n3, e3, W, x', hf3, hW, hx'⟩ => ?_
    refine ⟨W, x', hr, ht3.trans ht2, hf3, hW, ?_, g3, n3, e1.trans (e2.trans e3)⟩
    have := shiftReduce_flat e hwf
    unfold shiftReduce at this
    rw [this] at hx'
    exact hx'

/-! ### Operands: literals -/

theorem value_lit (l : Spec.Decimal.Literal) : ValueSpec (.lit l) := by
  refine ⟨2, ?_⟩
  intro ws s W0 K _ _ hg ht hw0 hK
  by_cases hp : l.percent = true
  · simp only [toks, hp, ↓reduceIte, List.append_assoc, List.cons_append, List.nil_append] at ht
    refine tot_mono (value_pct 1 W0 _ (blankTok (blank1 ws)) ⟨.PERCENTAGE, ['%']⟩ K ht hw0
      (allWS_blankTok _) rfl hg)
      fun r s' ⟨cur, Wt, id, id', more, hr, ht', hf', hWt, hlen, hpos, g', n', e'⟩ => ?_
    exact ⟨cur, Wt, _, hr, ht', hf', hWt, .pct rfl rfl hp, hlen ▸ hpos, g', n', e'⟩
  · have hp' : l.percent = false := by simpa using hp
    simp only [toks, hp', Bool.false_eq_true, ↓reduceIte, List.cons_append, List.nil_append] at ht
    refine tot_mono (value_num 0 W0 _ K ht hw0 hK hg)
      fun r s' ⟨cur, Wt, id, id', hr, ht', hf', hWt, hlen, hpos, g', n', e'⟩ => ?_
    refine ⟨cur, Wt, _, hr, ht', hf', hWt, .num rfl rfl hp' ?_, hlen ▸ hpos, g', n', e'⟩
    simp [Tree.text, Tree.textList]

/-! ### Operands: parenthesised groups -/

theorem opKids_tok (id : Nat) (k : Syntax) (t : List Char) : opKids [Tree.tok id k t] = [] := rfl

theorem value_paren (e : NExpr) (ho : OpSpec e) : ValueSpec (.paren e) := by
  obtain ⟨Fo, ho⟩ := ho
  refine ⟨Fo + 1, ?_⟩
  intro ws s W0 K hwf hlay hg ht hw0 _
  obtain ⟨hb1, le, hb2⟩ := hlay
  simp only [toks, List.append_assoc, List.cons_append, List.nil_append] at ht
  unfold Grammar.value
  refine tot_nth_ws W0 _ ht ?_
  simp only [headKind]
  refine tot_seq (bumpN_ws W0 ht hw0 hg) fun _ s1 ⟨ht1, ⟨Wt, hf1, hWt, hlen⟩, g1, _, e1⟩ => ?_
  refine tot_seq (checkpoint_exact g1) fun c s2 ⟨ht2, hf2, _, g2, p2, e2⟩ => ?_
  refine tot_seq (bump_exact (ht2.trans ht1) g2) fun _ s3 ⟨ht3, ⟨ido, hf3⟩, g3, _, e3⟩ => ?_
  refine tot_countSkip_ws (blankTok (blank1 ws)) _ ht3 (allWS_blankTok _) (toks_notWS e _ _) ?_
  refine tot_seq (ho (rest1 ws) s3 (blankTok (blank1 ws)) (blankTok (blank1 (after e (rest1 ws))))
    (⟨.CLOSE_PAREN, [')']⟩ :: K) hwf le g3 ht3 (allWS_blankTok _) (allWS_blankTok _)
    (Or.inl rfl)) fun r s4 ⟨Wt', x, hr, ht4, hf4, hWt', hx, g4, _, e4⟩ => ?_
  subst hr
  simp only
  refine tot_seq (eat_yes _ _ K .CLOSE_PAREN ht4 (allWS_blankTok _) rfl g4)
    fun b s5 ⟨hb, ht5, ⟨Fw, idc, hf5, hFw, _⟩, g5, n5, e5⟩ => ?_
  subst hb
  simp only [Bool.not_true, Bool.false_eq_true, ↓reduceIte]
  have hl1 : s1.b.forest.length = s.b.forest.length + Wt.length := by rw [hf1]; simp
  have hf3' : s3.b.forest = s.b.forest ++ Wt ++ [.tok ido .OPEN_PAREN ['(']] := by
    rw [hf3, hf2, hf1]
  have hf5' : s5.b.forest = (s.b.forest ++ Wt) ++
      (.tok ido .OPEN_PAREN ['('] :: (Wt' ++ [x] ++ Fw ++ [.tok idc .CLOSE_PAREN [')']])) := by
    rw [hf5, hf4, hf3']; simp
  have hle3 : s1.b.forest.length ≤ s3.b.forest.length := by rw [hf3', hl1]; simp
  have hle4 : s1.b.forest.length ≤ s4.b.forest.length := by rw [hf4]; simp; omega
  have e25 : Ext s1.b.forest.length s2.b s5.b :=
    ((hf2 ▸ e3 : Ext s1.b.forest.length s2.b s3.b).trans (e4.mono hle3)).trans (e5.mono hle4)
  have p5 : Pos s5.b c (s.b.forest.length + Wt.length) := hl1 ▸ e25.pos c _ (Nat.le_refl _) p2
  refine tot_seq (closeAt_wrap .OPERATION g5 n5 p5 (by rw [hf5']; simp))
    fun _ s6 ⟨ht6, ⟨id, hf6⟩, g6, n6, p6, e6⟩ => ?_
  refine tot_pure ⟨c, Wt, .node id .OPERATION (.tok ido .OPEN_PAREN ['('] ::
    (Wt' ++ [x] ++ Fw ++ [.tok idc .CLOSE_PAREN [')']])), rfl, ht6.trans ht5, ?_, hWt, ?_, p6, g6,
    n6, ?_⟩
  · rw [hf6, hf5']
    have hl : s.b.forest.length + Wt.length = (s.b.forest ++ Wt).length := by simp
    rw [hl, List.take_left' rfl, List.drop_left' rfl]
  · refine .paren ?_ hx
    rw [show (Tree.tok ido Syntax.OPEN_PAREN ['('] :: (Wt' ++ [x] ++ Fw ++ [Tree.tok idc Syntax.CLOSE_PAREN [')']]))
      = [Tree.tok ido Syntax.OPEN_PAREN ['(']] ++ Wt' ++ [x] ++ Fw ++ [Tree.tok idc Syntax.CLOSE_PAREN [')']] by simp]
    simp only [opKids_append, opKids_tok, opKids_ws hWt', opKids_ws hFw,
      opKids_single (hasChildren_of_represents hx), List.nil_append, List.append_nil]
  · have hle : s.b.forest.length ≤ s1.b.forest.length := by omega
    exact e1.trans (((e2.trans e25).trans (hl1 ▸ e6)).mono hle)

/-! ### Operands: function calls -/

/-- `argsLoop` on a non-empty argument list followed by a blank and the closing parenthesis. -/
def ArgsSpec (es : List NExpr) : Prop :=
  ∃ Fe, ∀ (ws : Layout) (s : PState) (Wa Wk K : List Token) (ct : Token),
    ct.kind = .CLOSE_PAREN → WFList es → LayoutOKArgs es ws → Good s.b →
    s.toks = Wa ++ (toksArgs es ws ++ (Wk ++ ct :: K)) → AllWS Wa → AllWS Wk →
    Tot (argsLoop Fe) s (fun r s' => ∃ A, r = some Wk.length ∧ s'.toks = Wk ++ ct :: K ∧
      s'.b.forest = s.b.forest ++ A ∧ ArgsR RepresentsL (opKids A) es ∧
      Good s'.b ∧ NoNext s'.b ∧ Ext s.b.forest.length s.b s'.b)

theorem headKind_toks_ne_close (e : NExpr) (ws : Layout) (K : List Token) :
    (headKind (toks e ws ++ K) == Syntax.CLOSE_PAREN) = false := by
  obtain ⟨t, r, h, hk⟩ := toks_head e ws
  rw [h]
  simp only [List.cons_append, headKind]
  rcases hk with h | h | h <;> rw [h] <;> rfl

theorem args_spec : ∀ (es : List NExpr), es ≠ [] → (∀ a ∈ es, OpSpec a) → ArgsSpec es
  | [], hne, _ => absurd rfl hne
  | [e], _, hop => by
    obtain ⟨Fo, ho⟩ := hop e (by simp)
    refine ⟨Fo + 1, ?_⟩
    intro ws s Wa Wk K ct hct hwf hlay hg ht hwa hwk
    simp only [toksArgs] at ht
    simp only [WFList] at hwf
    simp only [LayoutOKArgs] at hlay
    unfold argsLoop
    refine tot_countSkip_ws Wa _ ht hwa (toks_notWS e ws _) ?_
    refine tot_nth_ws Wa _ ht ?_
    simp only [headKind_toks_ne_close, Bool.false_eq_true, ↓reduceIte]
    refine tot_seq (ho ws s Wa Wk (ct :: K) hwf.1 hlay hg ht hwa hwk (Or.inl hct))
      fun r s1 ⟨Wt, x, hr, ht1, hf1, hWt, hx, g1, n1, e1⟩ => ?_
    subst hr
    simp only
    have hno := eat_no (s := s1) Wk (ct :: K) .COMMA ht1 (by simp [headKind, hct])
    refine ⟨some Wk.length, s1, ?_, Wt ++ [x], rfl, ht1, by rw [hf1]; simp, ?_, g1, n1, e1⟩
    · simp only [bind, hno]; rfl
    · rw [opKids_append, opKids_ws hWt, opKids_single (hasChildren_of_represents hx)]
      exact .cons hx .nil
  | e :: e' :: es, _, hop => by
    obtain ⟨Fo, ho⟩ := hop e (by simp)
    obtain ⟨Fr, hr⟩ := args_spec (e' :: es) (by simp) (fun a ha => hop a (by simp [ha]))
    refine ⟨Fo + Fr + 1, ?_⟩
    intro ws s Wa Wk K ct hct hwf hlay hg ht hwa hwk
    simp only [toksArgs, List.append_assoc, List.cons_append, List.nil_append] at ht
    simp only [WFList] at hwf
    obtain ⟨le, hb1, hb2, lrest⟩ := hlay
    unfold argsLoop
    refine tot_countSkip_ws Wa _ ht hwa (toks_notWS e ws _) ?_
    refine tot_nth_ws Wa _ ht ?_
    simp only [headKind_toks_ne_close, Bool.false_eq_true, ↓reduceIte]
    refine tot_seq (tot_le (le_operation (Nat.le_add_right Fo Fr) _)
      (ho ws s Wa (blankTok (blank1 (after e ws))) (⟨.COMMA, [',']⟩ :: _) hwf.1 le hg ht hwa
        (allWS_blankTok _) (Or.inr (Or.inl rfl))))
      fun r s1 ⟨Wt, x, hr1, ht1, hf1, hWt, hx, g1, _, e1⟩ => ?_
    subst hr1
    simp only
    refine tot_seq (eat_yes _ _ _ .COMMA ht1 (allWS_blankTok _) rfl g1)
      fun b s2 ⟨hb, ht2, ⟨Fw, idc, hf2, hFw, _⟩, g2, _, e2⟩ => ?_
    subst hb
    simp only [Bool.not_true, Bool.false_eq_true, ↓reduceIte]
    refine tot_mono (tot_le (le_argsLoop (Nat.le_add_left Fr Fo))
      (hr _ s2 _ Wk K ct hct hwf.2 lrest g2 ht2 (allWS_blankTok _) hwk))
      fun r s3 ⟨A, hr3, ht3, hf3, hA, g3, n3, e3⟩ => ?_
    refine ⟨Wt ++ [x] ++ Fw ++ [.tok idc .COMMA [',']] ++ A, hr3, ht3, by rw [hf3, hf2, hf1]; simp,
      ?_, g3, n3, ?_⟩
    · simp only [opKids_append, opKids_ws hWt, opKids_ws hFw, opKids_tok,
        opKids_single (hasChildren_of_represents hx), List.nil_append, List.append_nil]
      exact .cons hx hA
    · have h12 : s.b.forest.length ≤ s1.b.forest.length := by rw [hf1]; simp
      have h13 : s.b.forest.length ≤ s2.b.forest.length := by rw [hf2, hf1]; simp
      exact (e1.trans (e2.mono h12)).trans (e3.mono h13)

/-- The tokens between the parentheses of a call. -/
def argToks (args : List NExpr) (ws : Layout) : List Token :=
  match args with
  | [] => blankTok (blank1 ws ++ blank1 (rest1 ws))
  | _ => blankTok (blank1 ws) ++ toksArgs args (rest1 ws) ++
          blankTok (blank1 (afterArgs args (rest1 ws)))

/-- `callArguments`: an FN_ARGUMENTS node (childless for an empty argument list) followed by
childless tokens up to and including the closing parenthesis. -/
def CallArgsSpec (args : List NExpr) : Prop :=
  ∃ Fe, ∀ (ws : Layout) (s : PState) (K : List Token) (ct : Token),
    ct.kind = .CLOSE_PAREN → WFList args → LayoutOKArgs args (rest1 ws) → Good s.b →
    s.toks = argToks args ws ++ ct :: K →
    Tot (callArguments Fe) s (fun r s' => ∃ aid aks tail, r = true ∧ s'.toks = K ∧
      s'.b.forest = s.b.forest ++ [.node aid .FN_ARGUMENTS aks] ++ tail ∧ opKids tail = [] ∧
      (args = [] → aks = []) ∧ (args ≠ [] → ArgsR RepresentsL (opKids aks) args) ∧
      Good s'.b ∧ NoNext s'.b ∧ Ext s.b.forest.length s.b s'.b)

theorem argsR_ne {ts : List Tree} {es : List NExpr} (h : ArgsR RepresentsL ts es) (hne : es ≠ []) :
    ts ≠ [] := by
  cases h with
  | nil => exact absurd rfl hne
  | cons _ _ => simp

theorem callArgs_spec (args : List NExpr) (hop : ∀ a ∈ args, OpSpec a) : CallArgsSpec args := by
  cases args with
  | nil =>
    refine ⟨2, ?_⟩
    intro ws s K ct hct _ _ hg ht
    simp only [argToks] at ht
    have hnw : NotWSHead (ct :: K) := by
      intro t r htr; cases htr; rw [hct]; simp
    unfold callArguments
    refine tot_seq (checkpoint_exact hg) fun c s1 ⟨ht1, hf1, _, g1, p1, e1⟩ => ?_
    refine tot_seq (P := fun r s' => r = some (blankTok (blank1 ws ++ blank1 (rest1 ws))).length ∧
      s' = s1) ?_ fun r s2 ⟨hr, hs2⟩ => ?_
    · unfold argsLoop
      refine tot_countSkip_ws _ _ (ht1.trans ht) (allWS_blankTok _) hnw ?_
      refine tot_nth_ws _ _ (ht1.trans ht) ?_
      simp only [headKind, hct, beq_self_eq_true, ↓reduceIte]
      exact tot_pure ⟨rfl, rfl⟩
    subst hr hs2
    simp only
    refine tot_seq (closeAt_empty .FN_ARGUMENTS g1 (hf1 ▸ p1))
      fun _ s3 ⟨ht3, ⟨aid, hf3⟩, g3, _, _, e3⟩ => ?_
    refine tot_mono (eat_yes _ ct K .CLOSE_PAREN (ht3.trans (ht1.trans ht)) (allWS_blankTok _) hct g3)
      fun b s4 ⟨hb, ht4, ⟨Fw, idc, hf4, hFw, _⟩, g4, n4, e4⟩ => ?_
    refine ⟨aid, [], Fw ++ [.tok idc ct.kind ct.text], hb, ht4, by rw [hf4, hf3, hf1]; simp, ?_,
      fun _ => rfl, fun h => absurd rfl h, g4, n4, ?_⟩
    · rw [opKids_append, opKids_ws hFw, opKids_tok]; rfl
    · exact e1.trans ((hf1 ▸ e3).trans (e4.mono (by rw [hf3, hf1]; simp)))
  | cons e es =>
    obtain ⟨Fa, ha⟩ := args_spec (e :: es) (by simp) hop
    refine ⟨Fa + 1, ?_⟩
    intro ws s K ct hct hwf hlay hg ht
    simp only [argToks, List.append_assoc] at ht
    unfold callArguments
    refine tot_seq (checkpoint_exact hg) fun c s1 ⟨ht1, hf1, _, g1, p1, e1⟩ => ?_
    refine tot_seq (ha (rest1 ws) s1 _ _ K ct hct hwf hlay g1 (ht1.trans ht) (allWS_blankTok _)
      (allWS_blankTok _)) fun r s2 ⟨A, hr, ht2, hf2, hA, g2, n2, e2⟩ => ?_
    subst hr
    simp only
    have hAne : A ≠ [] := by
      intro h
      rw [h] at hA
      exact argsR_ne hA (by simp) rfl
    have p2 : Pos s2.b c s.b.forest.length := hf1 ▸ e2.pos c _ (Nat.le_refl _) (hf1 ▸ p1)
    refine tot_seq (closeAt_wrap .FN_ARGUMENTS g2 n2 p2 (by
      rw [hf2, hf1]
      have := List.length_pos_of_ne_nil hAne
      simp; omega)) fun _ s3 ⟨ht3, ⟨aid, hf3⟩, g3, _, _, e3⟩ => ?_
    have hf3' : s3.b.forest = s.b.forest ++ [.node aid .FN_ARGUMENTS A] := by
      rw [hf3, hf2, hf1, List.take_left' rfl, List.drop_left' rfl]
    refine tot_mono (eat_yes _ ct K .CLOSE_PAREN (ht3.trans ht2) (allWS_blankTok _) hct g3)
      fun b s4 ⟨hb, ht4, ⟨Fw, idc, hf4, hFw, _⟩, g4, n4, e4⟩ => ?_
    refine ⟨aid, A, Fw ++ [.tok idc ct.kind ct.text], hb, ht4, by rw [hf4, hf3']; simp, ?_,
      (fun h => nomatch h), (fun _ => hA), g4, n4, ?_⟩
    · rw [opKids_append, opKids_ws hFw, opKids_tok]; rfl
    · exact e1.trans (((hf1 ▸ e2).trans e3).trans (e4.mono (by rw [hf3']; simp)))

theorem toks_call (f : Fn) (args : List NExpr) (ws : Layout) :
    toks (.call f args) ws = ⟨.WORD, f.name⟩ :: ⟨.OPEN_PAREN, ['(']⟩ ::
      (argToks args ws ++ [⟨.CLOSE_PAREN, [')']⟩]) := by
  cases args <;> simp [toks, argToks]

theorem value_call (f : Fn) (args : List NExpr) (hop : ∀ a ∈ args, OpSpec a) :
    ValueSpec (.call f args) := by
  obtain ⟨Fc, hc⟩ := callArgs_spec args hop
  refine ⟨Fc + 1, ?_⟩
  intro ws s W0 K hwf hlay hg ht hw0 _
  obtain ⟨_, largs, _⟩ := hlay
  simp only [Spec.Arith.WF] at hwf
  rw [toks_call] at ht
  simp only [List.append_assoc, List.cons_append, List.nil_append] at ht
  unfold Grammar.value
  refine tot_nth_ws W0 _ ht ?_
  simp only [headKind]
  refine tot_seq (bumpN_ws W0 ht hw0 hg) fun _ s1 ⟨ht1, ⟨Wt, hf1, hWt, hlen⟩, g1, _, e1⟩ => ?_
  refine tot_seq (checkpoint_exact g1) fun start s2 ⟨ht2, hf2, _, g2, p2, e2⟩ => ?_
  refine tot_seq (checkpoint_exact g2) fun c s3 ⟨ht3, hf3, _, g3, p3, e3⟩ => ?_
  have ht3' := (ht3.trans ht2).trans ht1
  refine tot_seq (bumpNode_exact .WORD ht3' g3) fun _ s4 ⟨ht4, ⟨idw, idt, hf4⟩, g4, n4, e4⟩ => ?_
  have ht4' : s4.toks = [] ++ (⟨.OPEN_PAREN, ['(']⟩ :: (argToks args ws ++ ⟨.CLOSE_PAREN, [')']⟩ :: K)) :=
    ht4
  refine tot_nth_ws [] _ ht4' ?_
  simp only [headKind, beq_self_eq_true, ↓reduceIte]
  have hl1 : s1.b.forest.length = s.b.forest.length + Wt.length := by rw [hf1]; simp
  have hl2 : s2.b.forest.length = s1.b.forest.length := by rw [hf2]
  have hl3 : s3.b.forest.length = s1.b.forest.length := by rw [hf3, hf2]
  have hf4' : s4.b.forest = (s.b.forest ++ Wt) ++ [.node idw .WORD [.tok idt .WORD f.name]] := by
    rw [hf4, hf3, hf2, hf1]
  have e3' : Ext s1.b.forest.length s2.b s3.b := hl2 ▸ e3
  have e4' : Ext s1.b.forest.length s3.b s4.b := hl3 ▸ e4
  have p4 : Pos s4.b c (s.b.forest.length + Wt.length) :=
    hl1 ▸ e4'.pos c _ (Nat.le_refl _) (hl2 ▸ p3)
  refine tot_seq (closeAt_wrap .FN_NAME g4 n4 p4 (by rw [hf4']; simp))
    fun _ s5 ⟨ht5, ⟨idn, hf5⟩, g5, _, _, e5⟩ => ?_
  have hl : s.b.forest.length + Wt.length = (s.b.forest ++ Wt).length := by simp
  rw [hf4', hl, List.take_left' rfl, List.drop_left' rfl] at hf5
  refine tot_seq (bump_exact (ht5.trans ht4) g5) fun _ s6 ⟨ht6, ⟨idp, hf6⟩, g6, _, e6⟩ => ?_
  refine tot_seq (hc ws s6 K ⟨.CLOSE_PAREN, [')']⟩ rfl hwf largs g6 ht6)
    fun r s7 ⟨aid, aks, tail, hr, ht7, hf7, htail, haks0, haks1, g7, n7, e7⟩ => ?_
  subst hr
  simp only [Bool.not_true, Bool.false_eq_true, ↓reduceIte]
  have e5' : Ext s1.b.forest.length s4.b s5.b := hl1 ▸ e5
  have e6' : Ext s1.b.forest.length s5.b s6.b := e6.mono (by rw [hf5, hl1]; simp)
  have e7' : Ext s1.b.forest.length s6.b s7.b := e7.mono (by rw [hf6, hf5, hl1]; simp)
  have e27 : Ext s1.b.forest.length s2.b s7.b :=
    (((e3'.trans e4').trans e5').trans e6').trans e7'
  have p7 : Pos s7.b c (s.b.forest.length + Wt.length) :=
    hl1 ▸ ((e4'.trans e5').trans (e6'.trans e7')).pos c _ (Nat.le_refl _) (hl2 ▸ p3)
  have hf7' : s7.b.forest = (s.b.forest ++ Wt) ++
      (.node idn .FN_NAME [.node idw .WORD [.tok idt .WORD f.name]] ::
        .tok idp .OPEN_PAREN ['('] :: .node aid .FN_ARGUMENTS aks :: tail) := by
    rw [hf7, hf6, hf5]; simp
  refine tot_seq (closeAt_wrap .FN_CALL g7 n7 p7 (by rw [hf7']; simp))
    fun _ s8 ⟨ht8, ⟨idc, hf8⟩, g8, n8, _, e8⟩ => ?_
  rw [hf7', hl, List.take_left' rfl, List.drop_left' rfl] at hf8
  have e28 : Ext s1.b.forest.length s2.b s8.b := e27.trans (hl1 ▸ e8)
  refine tot_pure ⟨start, Wt, _, rfl, ht8.trans ht7, hf8, hWt, ?_,
    hl1 ▸ e28.pos start _ (Nat.le_refl _) p2, g8, n8,
    e1.trans ((e2.trans e28).mono (by omega))⟩
  -- the tree represents the call
  have hnm : opKids [Tree.node idn .FN_NAME [.node idw .WORD [.tok idt .WORD f.name]]] =
      [Tree.node idn .FN_NAME [.node idw .WORD [.tok idt .WORD f.name]]] := rfl
  have hsplit : (Tree.node idn .FN_NAME [.node idw .WORD [.tok idt .WORD f.name]] ::
        .tok idp .OPEN_PAREN ['('] :: .node aid .FN_ARGUMENTS aks :: tail) =
      [Tree.node idn .FN_NAME [.node idw .WORD [.tok idt .WORD f.name]]] ++
        [.tok idp .OPEN_PAREN ['(']] ++ [.node aid .FN_ARGUMENTS aks] ++ tail := by simp
  cases args with
  | nil =>
    have := haks0 rfl
    subst this
    refine .call0 (nm := .node idn .FN_NAME [.node idw .WORD [.tok idt .WORD f.name]]) ?_
    rw [hsplit]
    simp only [opKids_append, hnm, opKids_tok, htail, List.append_nil]
    rfl
  | cons a as =>
    have hA := haks1 (by simp)
    obtain ⟨x, xs, hxs⟩ : ∃ x xs, opKids aks = x :: xs := by
      cases h : opKids aks with
      | nil => rw [h] at hA; exact absurd rfl (argsR_ne hA (by simp))
      | cons x xs => exact ⟨x, xs, rfl⟩
    refine .call (nm := .node idn .FN_NAME [.node idw .WORD [.tok idt .WORD f.name]])
      (aid := aid) (aks := aks) (more := []) ?_ rfl ?_ hxs (hxs ▸ hA)
    · rw [hsplit]
      simp only [opKids_append, hnm, opKids_tok, htail, List.append_nil]
      rw [opKids_single (node_hasChildren hxs)]
      rfl
    · simp [Tree.text, Tree.textList]

/-! ### All expressions -/

theorem flat_lit (l : Spec.Decimal.Literal) : flat (.lit l) = (.lit l, []) := by simp [flat]
theorem flat_paren (e : NExpr) : flat (.paren e) = (.paren e, []) := by simp [flat]
theorem flat_call (f : Fn) (args : List NExpr) : flat (.call f args) = (.call f args, []) := by
  simp [flat]

mutual
theorem loopSpec : ∀ e : NExpr, LoopSpec e
  | .lit l => loop_of_value _ (flat_lit l) (value_lit l)
  | .bin op a b => loop_bin op a b (loopSpec a) (loopSpec b)
  | .paren e => loop_of_value _ (flat_paren e) (value_paren e (op_of_loop e (loopSpec e)))
  | .call f args => loop_of_value _ (flat_call f args) (value_call f args (opSpecList args))
theorem opSpecList : ∀ (es : List NExpr), ∀ a ∈ es, OpSpec a
  | [], _, h => nomatch h
  | e :: es, a, h => by
    rcases List.mem_cons.mp h with h | h
    · exact h ▸ op_of_loop e (loopSpec e)
    · exact opSpecList es a h
end

theorem opSpec (e : NExpr) : OpSpec e := op_of_loop e (loopSpec e)

end Anything.C06
